import DecProofs.Properties.C11GenLogb
import DecProofs.Properties.C01GenArith
namespace Dec.C10GenRem
open Dec.Rs
open Dec.C11GenLogb (log2_unique log2_mul_pow)

set_option linter.unusedVariables false
set_option linter.unusedSimpArgs false
set_option linter.unnecessarySeqFocus false

/-! ## 1. Rounding a natural number to 53 significant bits -/

/-- `n as f64`, as bits -/
abbrev fd (n : Nat) : Nat := floatBitsOfNat 52 1023 n

/-- the rounded 53-bit significand of `n ≥ 2^53` (in `[2^52, 2^53]`; `2^53` = carry into the next binade) -/
def rq53 (n : Nat) : Nat :=
  let sh := Nat.log2 n - 52
  let q := n / 2 ^ sh
  let r := n % 2 ^ sh
  let half := 2 ^ (sh - 1)
  if (decide (r > half) || (r == half && q % 2 == 1)) = true then q + 1 else q

/-- `n` rounded to 53 significant bits, ties to even: the value of `n as f64` -/
def rn53 (n : Nat) : Nat := if Nat.log2 n ≤ 52 then n else rq53 n * 2 ^ (Nat.log2 n - 52)

/-- `0 as f64` is `+0.0` -/
theorem fd_zero : fd 0 = 0 := rfl

/-- below 2^53 the conversion is exact: exponent field `log2 n + 1023`, the leading one dropped from the shifted significand -/
theorem fd_small (n : Nat) (hn : 0 < n) (hl : Nat.log2 n ≤ 52) :
    fd n = (Nat.log2 n + 1023) * 2 ^ 52 + (n * 2 ^ (52 - Nat.log2 n) - 2 ^ 52) := by
  unfold fd floatBitsOfNat
  rw [if_neg (by omega)]
  simp only [hl, if_true]

/-- from 2^53 on: the rounded 53-bit significand `rq53 n` added onto the exponent field (a carry `rq53 n = 2^53` bumps it) -/
theorem fd_big (n : Nat) (hl : 52 < Nat.log2 n) :
    fd n = (Nat.log2 n + 1023) * 2 ^ 52 + (rq53 n - 2 ^ 52) := by
  have hn : n ≠ 0 := by intro h; subst h; simp [Nat.log2] at hl
  unfold fd floatBitsOfNat rq53
  rw [if_neg hn]
  simp only [show ¬ Nat.log2 n ≤ 52 by omega, if_false]

/-- the truncated significand of `n ≥ 2^53` lies in `[2^52, 2^53)` -/
theorem q_range (n : Nat) (hl : 52 < Nat.log2 n) :
    2 ^ 52 ≤ n / 2 ^ (Nat.log2 n - 52) ∧ n / 2 ^ (Nat.log2 n - 52) < 2 ^ 53 := by
  have hn : n ≠ 0 := by intro h; subst h; simp [Nat.log2] at hl
  have h1 := Nat.log2_self_le hn
  have h2 : n < 2 ^ (n.log2 + 1) := Nat.lt_log2_self
  obtain ⟨sh, hsh⟩ : ∃ sh, Nat.log2 n = sh + 52 := ⟨Nat.log2 n - 52, by omega⟩
  rw [hsh] at h1 h2 ⊢
  simp only [Nat.add_sub_cancel]
  have hp : 0 < 2 ^ sh := Nat.pow_pos (by decide)
  constructor
  · rw [Nat.le_div_iff_mul_le hp, ← Nat.pow_add, Nat.add_comm]; exact h1
  · rw [Nat.div_lt_iff_lt_mul hp, ← Nat.pow_add]
    have : 53 + sh = sh + 52 + 1 := by omega
    rw [this]; exact h2

/-- the rounded significand stays in `[2^52, 2^53]` -/
theorem rq_range (n : Nat) (hl : 52 < Nat.log2 n) : 2 ^ 52 ≤ rq53 n ∧ rq53 n ≤ 2 ^ 53 := by
  obtain ⟨a, b⟩ := q_range n hl
  unfold rq53
  simp only
  split <;> omega

/-- `rn53` stays in the binade of `n` (its upper end included) -/
theorem rn53_binade (n : Nat) (hn : 0 < n) : 2 ^ Nat.log2 n ≤ rn53 n ∧ rn53 n ≤ 2 ^ (Nat.log2 n + 1) := by
  have hn' : n ≠ 0 := by omega
  unfold rn53
  by_cases hl : Nat.log2 n ≤ 52
  · rw [if_pos hl]
    exact ⟨Nat.log2_self_le hn', Nat.le_of_lt Nat.lt_log2_self⟩
  · rw [if_neg hl]
    obtain ⟨a, b⟩ := rq_range n (by omega)
    obtain ⟨sh, hsh⟩ : ∃ sh, Nat.log2 n = sh + 52 := ⟨Nat.log2 n - 52, by omega⟩
    rw [hsh]
    simp only [Nat.add_sub_cancel]
    constructor
    · rw [Nat.pow_add, Nat.mul_comm]; exact Nat.mul_le_mul_right _ a
    · have : sh + 52 + 1 = 53 + sh := by omega
      rw [this, Nat.pow_add]; exact Nat.mul_le_mul_right _ b

/-- integers below 2^53 are representable -/
theorem rn53_small (n : Nat) (h : n < 2 ^ 53) : rn53 n = n := by
  unfold rn53
  by_cases hn : n = 0
  · subst hn; rfl
  · rw [if_pos]
    have := (Nat.log2_lt hn).2 h
    omega

/-- rounding up costs at most half a unit of the last place: `rn53 n ≤ n + n / 2^53` -/
theorem rn53_le (n : Nat) : 2 ^ 53 * rn53 n ≤ (2 ^ 53 + 1) * n := by
  unfold rn53
  by_cases hl : Nat.log2 n ≤ 52
  · rw [if_pos hl]; omega
  · rw [if_neg hl]
    have hn : n ≠ 0 := by intro h; subst h; simp [Nat.log2] at hl
    obtain ⟨a, b⟩ := q_range n (by omega)
    obtain ⟨sh, hsh⟩ : ∃ sh, Nat.log2 n = sh + 53 := ⟨Nat.log2 n - 53, by omega⟩
    have hs : Nat.log2 n - 52 = sh + 1 := by omega
    unfold rq53
    simp only [hs, Nat.add_sub_cancel] at a b ⊢
    have hdm := Nat.div_add_mod n (2 ^ (sh + 1))
    have hr : n % 2 ^ (sh + 1) < 2 ^ (sh + 1) := Nat.mod_lt _ (Nat.pow_pos (by decide))
    have hp : 2 ^ (sh + 1) = 2 * 2 ^ sh := by rw [Nat.pow_succ]; ring
    rw [hp] at hdm hr a b ⊢
    generalize n / (2 * 2 ^ sh) = q at *
    generalize n % (2 * 2 ^ sh) = r at *
    generalize 2 ^ sh = h at *
    have hq : 2 ^ 52 * (2 * h) ≤ 2 * h * q := by rw [Nat.mul_comm (2 * h) q]; exact Nat.mul_le_mul_right _ a
    split
    · rename_i hup
      have hrh : h ≤ r := by
        simp only [Bool.or_eq_true, Bool.and_eq_true, decide_eq_true_eq, beq_iff_eq] at hup
        rcases hup with h1 | h1 <;> omega
      nlinarith
    · nlinarith

/-- the rounded significand does not change under scaling by `2^k` (already ≥ 2^53) -/
theorem rq_scale_big (n k : Nat) (hl : 52 < Nat.log2 n) : rq53 (n * 2 ^ k) = rq53 n := by
  have hn : 0 < n := by
    rcases Nat.eq_zero_or_pos n with h | h
    · subst h; simp [Nat.log2] at hl
    · exact h
  obtain ⟨sh, hsh⟩ : ∃ sh, Nat.log2 n = sh + 53 := ⟨Nat.log2 n - 53, by omega⟩
  unfold rq53
  rw [log2_mul_pow n k hn, hsh]
  have e1 : sh + 53 + k - 52 = (sh + 1) + k := by omega
  have e2 : sh + 53 - 52 = sh + 1 := by omega
  have e3 : sh + 1 + k - 1 = sh + k := by omega
  simp only [e1, e2, e3, Nat.add_sub_cancel]
  have hk : 0 < 2 ^ k := Nat.pow_pos (by decide)
  have q1 : n * 2 ^ k / 2 ^ (sh + 1 + k) = n / 2 ^ (sh + 1) := by
    rw [Nat.pow_add, Nat.mul_div_mul_right _ _ hk]
  have r1 : n * 2 ^ k % 2 ^ (sh + 1 + k) = n % 2 ^ (sh + 1) * 2 ^ k := by
    rw [Nat.pow_add, Nat.mul_mod_mul_right]
  rw [q1, r1, Nat.pow_add 2 sh k]
  have c1 : (n % 2 ^ (sh + 1) * 2 ^ k > 2 ^ sh * 2 ^ k) ↔ (n % 2 ^ (sh + 1) > 2 ^ sh) :=
    ⟨fun h => Nat.lt_of_mul_lt_mul_right h, fun h => Nat.mul_lt_mul_of_pos_right h hk⟩
  have c2 : (n % 2 ^ (sh + 1) * 2 ^ k = 2 ^ sh * 2 ^ k) ↔ (n % 2 ^ (sh + 1) = 2 ^ sh) :=
    ⟨fun h => Nat.eq_of_mul_eq_mul_right hk h, fun h => by rw [h]⟩
  simp only [c1, beq_iff_eq, c2, decide_eq_decide.2 c1, Bool.or_eq_true, Bool.and_eq_true, decide_eq_true_eq]

/-- a number below 2^53 scaled beyond 53 bits: the significand is the number itself, left-aligned -/
theorem rq_scale_small (n k : Nat) (hn : 0 < n) (hl : Nat.log2 n ≤ 52) (hk : 52 < Nat.log2 n + k) :
    rq53 (n * 2 ^ k) = n * 2 ^ (52 - Nat.log2 n) := by
  obtain ⟨d, hd⟩ : ∃ d, 52 = Nat.log2 n + d := ⟨52 - Nat.log2 n, by omega⟩
  obtain ⟨j, hj⟩ : ∃ j, k = d + (j + 1) := ⟨k - d - 1, by omega⟩
  unfold rq53
  rw [log2_mul_pow n k hn]
  have e1 : Nat.log2 n + k - 52 = j + 1 := by omega
  have e2 : 52 - Nat.log2 n = d := by omega
  simp only [e1, e2, Nat.add_sub_cancel]
  have hp : 0 < 2 ^ (j + 1) := Nat.pow_pos (by decide)
  have hnk : n * 2 ^ k = n * 2 ^ d * 2 ^ (j + 1) := by rw [hj, Nat.pow_add]; ring
  rw [hnk, Nat.mul_div_cancel _ hp, Nat.mul_mod_left]
  have h0 : ¬ (0 > 2 ^ j) := by omega
  have h1 : ¬ (0 = 2 ^ j) := by have := Nat.pow_pos (n := j) (by decide : 0 < 2); omega
  simp [h0, h1]

/-- **scaling by a power of two moves the exponent field only** -/
theorem fd_scale (n k : Nat) (hn : 0 < n) : fd (n * 2 ^ k) = fd n + k * 2 ^ 52 := by
  have hnk : 0 < n * 2 ^ k := Nat.mul_pos hn (Nat.pow_pos (by decide))
  have hlog := log2_mul_pow n k hn
  by_cases hl : Nat.log2 n ≤ 52
  · by_cases hk : Nat.log2 n + k ≤ 52
    · rw [fd_small _ hnk (by rw [hlog]; exact hk), fd_small _ hn hl, hlog]
      have e : n * 2 ^ k * 2 ^ (52 - (Nat.log2 n + k)) = n * 2 ^ (52 - Nat.log2 n) := by
        rw [Nat.mul_assoc, ← Nat.pow_add]; congr 2; omega
      rw [e]
      have hge : 2 ^ 52 ≤ n * 2 ^ (52 - Nat.log2 n) := by
        have := Nat.mul_le_mul_right (2 ^ (52 - Nat.log2 n)) (Nat.log2_self_le (by omega : n ≠ 0))
        rw [← Nat.pow_add] at this
        have e' : Nat.log2 n + (52 - Nat.log2 n) = 52 := by omega
        rw [e'] at this; exact this
      generalize n * 2 ^ (52 - Nat.log2 n) = X at *
      ring_nf
    · rw [fd_big _ (by rw [hlog]; omega), fd_small _ hn hl, hlog, rq_scale_small n k hn hl (by omega)]
      have hge : 2 ^ 52 ≤ n * 2 ^ (52 - Nat.log2 n) := by
        have := Nat.mul_le_mul_right (2 ^ (52 - Nat.log2 n)) (Nat.log2_self_le (by omega : n ≠ 0))
        rw [← Nat.pow_add] at this
        have e' : Nat.log2 n + (52 - Nat.log2 n) = 52 := by omega
        rw [e'] at this; exact this
      generalize n * 2 ^ (52 - Nat.log2 n) = X at *
      ring_nf
  · rw [fd_big _ (by rw [hlog]; omega), fd_big _ (by omega), hlog, rq_scale_big n k (by omega)]
    ring

/-- rounding to 53 bits commutes with scaling by `2^k` -/
theorem rn53_scale (n k : Nat) (hn : 0 < n) : rn53 (n * 2 ^ k) = rn53 n * 2 ^ k := by
  have hlog := log2_mul_pow n k hn
  unfold rn53
  rw [hlog]
  by_cases hl : Nat.log2 n ≤ 52
  · by_cases hk : Nat.log2 n + k ≤ 52
    · rw [if_pos hk, if_pos hl]
    · rw [if_neg hk, if_pos hl, rq_scale_small n k hn hl (by omega), Nat.mul_assoc, ← Nat.pow_add]
      congr 2; omega
  · rw [if_neg (by omega), if_neg hl, rq_scale_big n k (by omega), Nat.mul_assoc, ← Nat.pow_add]
    congr 2; omega

/-- the structure of `n as f64` for `n > 0`: exponent field `⌊log₂ (rn53 n)⌋ + 1023`, significand `m` with
`m · 2^(⌊log₂ (rn53 n)⌋ − 52) = rn53 n` (written without negative exponents) -/
theorem fd_struct (n : Nat) (hn : 0 < n) :
    ∃ m, 2 ^ 52 ≤ m ∧ m < 2 ^ 53 ∧ fd n = (Nat.log2 (rn53 n) + 1022) * 2 ^ 52 + m ∧
      m * 2 ^ (Nat.log2 (rn53 n) + 1022) = rn53 n * 2 ^ 1074 := by
  have hn' : n ≠ 0 := by omega
  by_cases hl : Nat.log2 n ≤ 52
  · have hV : rn53 n = n := by unfold rn53; rw [if_pos hl]
    have hge : 2 ^ 52 ≤ n * 2 ^ (52 - Nat.log2 n) := by
      have := Nat.mul_le_mul_right (2 ^ (52 - Nat.log2 n)) (Nat.log2_self_le hn')
      rw [← Nat.pow_add] at this
      have e' : Nat.log2 n + (52 - Nat.log2 n) = 52 := by omega
      rw [e'] at this; exact this
    have hlt : n * 2 ^ (52 - Nat.log2 n) < 2 ^ 53 := by
      have := Nat.mul_lt_mul_of_pos_right (Nat.lt_log2_self (n := n)) (Nat.pow_pos (n := 52 - Nat.log2 n) (by decide : 0 < 2))
      rw [← Nat.pow_add] at this
      have e' : Nat.log2 n + 1 + (52 - Nat.log2 n) = 53 := by omega
      rw [e'] at this; exact this
    refine ⟨n * 2 ^ (52 - Nat.log2 n), hge, hlt, ?_, ?_⟩
    · rw [hV, fd_small n hn hl]
      generalize n * 2 ^ (52 - Nat.log2 n) = X at *
      ring_nf; omega
    · rw [hV, Nat.mul_assoc, ← Nat.pow_add]
      have : 52 - Nat.log2 n + (Nat.log2 n + 1022) = 1074 := by omega
      rw [this]
  · have hl' : 52 < Nat.log2 n := by omega
    obtain ⟨a, b⟩ := rq_range n hl'
    obtain ⟨sh, hsh⟩ : ∃ sh, Nat.log2 n = sh + 52 := ⟨Nat.log2 n - 52, by omega⟩
    have hV : rn53 n = rq53 n * 2 ^ sh := by
      unfold rn53; rw [if_neg hl, hsh]; simp only [Nat.add_sub_cancel]
    by_cases hc : rq53 n = 2 ^ 53
    · -- carry into the next binade
      have hV' : rn53 n = 2 ^ (sh + 53) := by rw [hV, hc, ← Nat.pow_add]; congr 1; omega
      refine ⟨2 ^ 52, le_refl _, by norm_num, ?_, ?_⟩
      · rw [hV', Nat.log2_two_pow, fd_big n hl', hc, hsh]; ring_nf
      · rw [hV', Nat.log2_two_pow, ← Nat.pow_add, ← Nat.pow_add]
        have : 52 + (sh + 53 + 1022) = sh + 53 + 1074 := by omega
        rw [this]
    · have hlog : Nat.log2 (rn53 n) = sh + 52 := by
        rw [hV]
        apply log2_unique
        · rw [Nat.pow_add, Nat.mul_comm]; exact Nat.mul_le_mul_right _ a
        · have : sh + 52 + 1 = 53 + sh := by omega
          rw [this, Nat.pow_add]
          exact Nat.mul_lt_mul_of_pos_right (by omega) (Nat.pow_pos (by decide))
      refine ⟨rq53 n, a, by omega, ?_, ?_⟩
      · rw [hlog, fd_big n hl', hsh]
        generalize rq53 n = X at *
        ring_nf; omega
      · rw [hlog, hV, Nat.mul_assoc, ← Nat.pow_add]

/-- the exponent field of `n as f64` -/
theorem fd_expfield (n : Nat) (hn : 0 < n) : fd n / 2 ^ 52 = Nat.log2 (rn53 n) + 1023 := by
  obtain ⟨m, h1, h2, h3, _⟩ := fd_struct n hn
  rw [h3]; omega

/-! ## 2. Decoding and rounding in the `f64` model of `RustPrelude` -/

/-- the pattern 0 decodes as significand 0 at the subnormal exponent -/
theorem decode_zero : fpDecode 52 11 0 = some (0, -1074) := by decide

/-- decoding a normal pattern given by exponent field `X + 1` and significand `m` (hidden bit included) -/
theorem decode_normal (X m : Nat) (h1 : 2 ^ 52 ≤ m) (h2 : m < 2 ^ 53) (hX : X ≤ 2045) :
    fpDecode 52 11 (X * 2 ^ 52 + m) = some (m, (X : Int) - 1074) := by
  unfold fpDecode
  have a : (X * 2 ^ 52 + m) / 2 ^ 52 % 2 ^ 11 = X + 1 := by omega
  have b : (X * 2 ^ 52 + m) % 2 ^ 52 = m - 2 ^ 52 := by omega
  have c : (X * 2 ^ 52 + m) / 2 ^ (52 + 11) = 0 := by omega
  simp only [a, b, c]
  have h3 : ((X + 1 == 2 ^ 11 - 1) = false) := by rw [beq_eq_false_iff_ne]; omega
  have h4 : ((X + 1 == 0) = false) := by rw [beq_eq_false_iff_ne]; omega
  simp only [bne_self_eq_false, Bool.false_eq_true, if_false, h3, h4]
  simp only [Option.some.injEq, Prod.mk.injEq]
  constructor
  · omega
  · norm_num; omega

/-- **one rounding in the model = `as f64` of the significand, exponent field shifted**: for `M > 0` with
`−1022 ≤ E + ⌊log₂ M⌋ ≤ 1022` (a normal result, no overflow) -/
theorem fpRound_eq (M : Nat) (E : Int) (hM : 0 < M) (hlo : -1022 ≤ E + Nat.log2 M) (hhi : E + Nat.log2 M ≤ 1022) :
    fpRound 52 11 M E false = some ((fd M : Int) + E * 2 ^ 52).toNat := by
  have hM' : M ≠ 0 := by omega
  unfold fpRound
  have hb : (M == 0) = false := by rw [beq_eq_false_iff_ne]; exact hM'
  simp only [hb, Bool.false_eq_true, if_false]
  have e0 : max (E + (Nat.log2 M : Int) - (52 : Nat)) (1 - ((2 : Int) ^ (11 - 1) - 1) - (52 : Nat))
      = E + (Nat.log2 M : Int) - 52 := by
    norm_num; omega
  simp only [e0]
  by_cases hl : Nat.log2 M ≤ 52
  · have hc : E + (Nat.log2 M : Int) - 52 ≤ E := by omega
    have hsh : (E - (E + (Nat.log2 M : Int) - 52)).toNat = 52 - Nat.log2 M := by omega
    simp only [hc, if_true, hsh]
    have hge : 2 ^ 52 ≤ M * 2 ^ (52 - Nat.log2 M) := by
      have := Nat.mul_le_mul_right (2 ^ (52 - Nat.log2 M)) (Nat.log2_self_le hM')
      rw [← Nat.pow_add] at this
      have e' : Nat.log2 M + (52 - Nat.log2 M) = 52 := by omega
      rw [e'] at this; exact this
    have hlt : M * 2 ^ (52 - Nat.log2 M) < 2 ^ 53 := by
      have := Nat.mul_lt_mul_of_pos_right (Nat.lt_log2_self (n := M)) (Nat.pow_pos (n := 52 - Nat.log2 M) (by decide : 0 < 2))
      rw [← Nat.pow_add] at this
      have e' : Nat.log2 M + 1 + (52 - Nat.log2 M) = 53 := by omega
      rw [e'] at this; exact this
    rw [fd_small M hM hl]
    generalize M * 2 ^ (52 - Nat.log2 M) = q at *
    simp only [Bool.false_eq_true, if_false, hge, ge_iff_le, if_true]
    norm_num
    constructor <;> omega
  · have hc : ¬ (E + (Nat.log2 M : Int) - 52 ≤ E) := by omega
    have hsh : (E + (Nat.log2 M : Int) - 52 - E).toNat = Nat.log2 M - 52 := by omega
    simp only [hc, if_false, hsh]
    obtain ⟨a, b⟩ := rq_range M (by omega)
    rw [fd_big M (by omega)]
    have hrq : (if (decide (M % 2 ^ (Nat.log2 M - 52) > 2 ^ (Nat.log2 M - 52 - 1)) ||
          (M % 2 ^ (Nat.log2 M - 52) == 2 ^ (Nat.log2 M - 52 - 1) &&
            (false || M / 2 ^ (Nat.log2 M - 52) % 2 == 1))) = true
        then M / 2 ^ (Nat.log2 M - 52) + 1 else M / 2 ^ (Nat.log2 M - 52)) = rq53 M := by
      unfold rq53; simp only [Bool.false_or]
    rw [hrq]
    generalize rq53 M = q at *
    simp only [a, ge_iff_le, if_true]
    norm_num
    constructor <;> omega

/-- `0x43f0000000000000` is `2^64` (`2^52 · 2^12`) -/
theorem decode_two64 : fpDecode 52 11 0x43f0000000000000 = some (2 ^ 52, 12) := by decide

/-- a 53-bit significand has `⌊log₂⌋ = 52` -/
theorem log2_sig (m : Nat) (h1 : 2 ^ 52 ≤ m) (h2 : m < 2 ^ 53) : Nat.log2 m = 52 := log2_unique m 52 h1 h2

/-- a 53-bit significand converts exactly, exponent field 1075 -/
theorem fd_sig (m : Nat) (h1 : 2 ^ 52 ≤ m) (h2 : m < 2 ^ 53) : fd m = 1074 * 2 ^ 52 + m := by
  rw [fd_small m (by omega) (by rw [log2_sig m h1 h2]), log2_sig m h1 h2]; omega

/-- rounding `n < 2^k` to 53 bits does not go beyond `2^k` -/
theorem rn53_lt (n k : Nat) (hn : 0 < n) (h : n < 2 ^ k) : Nat.log2 (rn53 n) ≤ k := by
  obtain ⟨_, b⟩ := rn53_binade n hn
  have hl : Nat.log2 n < k := (Nat.log2_lt (by omega)).2 h
  have hpos : rn53 n ≠ 0 := by
    have := (rn53_binade n hn).1
    have := Nat.pow_pos (n := Nat.log2 n) (by decide : 0 < 2); omega
  have : rn53 n < 2 ^ (k + 1) := by
    calc rn53 n ≤ 2 ^ (Nat.log2 n + 1) := b
      _ ≤ 2 ^ k := Nat.pow_le_pow_right (by decide) (by omega)
      _ < 2 ^ (k + 1) := Nat.pow_lt_pow_right (by decide) (by omega)
  have := (Nat.log2_lt hpos).2 this
  omega

/-- `fpMul` on two decodable operands with a representable rounded product (avoids unfolding `fpRound` under a `match`) -/
theorem fpMul_of_decode (a b m1 m2 r : Nat) (e1 e2 : Int) (h1 : fpDecode 52 11 a = some (m1, e1))
    (h2 : fpDecode 52 11 b = some (m2, e2)) (hr : fpRound 52 11 (m1 * m2) (e1 + e2) false = some r) :
    fpMul 52 11 a b = .ok r := by
  unfold fpMul; rw [h1, h2]; simp only [hr]

/-- `fpAdd` of two non-negative decodable operands with a representable rounded sum -/
theorem fpAdd_of_decode (a b m1 m2 r : Nat) (e1 e2 : Int) (h1 : fpDecode 52 11 a = some (m1, e1))
    (h2 : fpDecode 52 11 b = some (m2, e2))
    (hr : fpRound 52 11 (m1 * 2 ^ (e1 - min e1 e2).toNat + m2 * 2 ^ (e2 - min e1 e2).toNat) (min e1 e2) false = some r) :
    fpAdd 52 11 a b = .ok r := by
  unfold fpAdd; rw [h1, h2]; simp only [hr]

/-- multiplying `n as f64` by `2^64` (the constant `0x43f0000000000000`): the exponent field moves by 64 -/
theorem fpMul_two64 (n : Nat) (hn : 0 < n) (h : n < 2 ^ 64) :
    fpMul 52 11 (fd n) 0x43f0000000000000 = .ok (fd n + 64 * 2 ^ 52) := by
  obtain ⟨m, h1, h2, h3, _⟩ := fd_struct n hn
  have hlv := rn53_lt n 64 hn h
  have hlog : Nat.log2 (m * 2 ^ 52) = 104 := by rw [log2_mul_pow m 52 (by omega), log2_sig m h1 h2]
  have hd : fpDecode 52 11 (fd n) = some (m, ((Nat.log2 (rn53 n) + 1022 : Nat) : Int) - 1074) := by
    rw [h3]; exact decode_normal _ m h1 h2 (by omega)
  have hr := fpRound_eq (m * 2 ^ 52) (((Nat.log2 (rn53 n) + 1022 : Nat) : Int) - 1074 + 12) (by omega)
    (by rw [hlog]; push_cast; omega) (by rw [hlog]; push_cast; omega)
  rw [fpMul_of_decode _ _ _ _ _ _ _ hd decode_two64 hr, fd_scale m 52 (by omega), fd_sig m h1 h2, h3]
  apply congrArg Except.ok
  push_cast; omega

/-- `0.0 · 2^64 = 0.0` -/
theorem fpMul_zero : fpMul 52 11 0 0x43f0000000000000 = .ok 0 := by decide

/-- the sum of two decoded operands, rounded once -/
theorem fpAdd_eq (P B m1 k1 m2 k2 : Nat) (hP : fpDecode 52 11 P = some (m1, (k1 : Int) - 1074))
    (hB : fpDecode 52 11 B = some (m2, (k2 : Int) - 1074)) (hN : 0 < m1 * 2 ^ k1 + m2 * 2 ^ k2)
    (hlo : 52 ≤ Nat.log2 (m1 * 2 ^ k1 + m2 * 2 ^ k2)) (hhi : Nat.log2 (m1 * 2 ^ k1 + m2 * 2 ^ k2) ≤ 2096) :
    fpAdd 52 11 P B = .ok (fd (m1 * 2 ^ k1 + m2 * 2 ^ k2) - 1074 * 2 ^ 52) := by
  obtain ⟨k, hk⟩ : ∃ k : Nat, k = min k1 k2 := ⟨_, rfl⟩
  have hmin : min ((k1 : Int) - 1074) ((k2 : Int) - 1074) = (k : Int) - 1074 := by omega
  apply fpAdd_of_decode P B m1 m2 _ _ _ hP hB
  rw [hmin]
  have d1 : ((k1 : Int) - 1074 - ((k : Int) - 1074)).toNat = k1 - k := by omega
  have d2 : ((k2 : Int) - 1074 - ((k : Int) - 1074)).toNat = k2 - k := by omega
  rw [d1, d2]
  have hNk : m1 * 2 ^ k1 + m2 * 2 ^ k2 = (m1 * 2 ^ (k1 - k) + m2 * 2 ^ (k2 - k)) * 2 ^ k := by
    rw [Nat.add_mul, Nat.mul_assoc, Nat.mul_assoc, ← Nat.pow_add, ← Nat.pow_add]
    congr 3 <;> omega
  have hM : 0 < m1 * 2 ^ (k1 - k) + m2 * 2 ^ (k2 - k) := by
    rcases Nat.eq_zero_or_pos (m1 * 2 ^ (k1 - k) + m2 * 2 ^ (k2 - k)) with h | h
    · rw [hNk, h] at hN; simp at hN
    · exact h
  have hlog := log2_mul_pow _ k hM
  rw [← hNk] at hlog
  rw [fpRound_eq _ _ hM (by omega) (by omega), hNk, fd_scale _ k hM]
  apply congrArg some
  have := (fd_struct _ hM).choose_spec.2.2.1
  omega

/-! ## 3. The chain `fx = (CX.w[1] as f64) * 2^64 + (CX.w[0] as f64)` -/

/-- `rn53 0 = 0` -/
theorem rn53_zero : rn53 0 = 0 := rfl

/-- decoding `n as f64` with the exponent field moved by `j` -/
theorem dec_val (n j : Nat) (hn : n < 2 ^ 64) (hj : j = 0 ∨ j = 64) :
    ∃ (m k : Nat), fpDecode 52 11 (if n = 0 then 0 else fd n + j * 2 ^ 52) = some (m, (k : Int) - 1074) ∧
      m * 2 ^ k = rn53 n * 2 ^ j * 2 ^ 1074 ∧ (if n = 0 then 0 else fd n + j * 2 ^ 52) < 2 ^ 64 := by
  by_cases h0 : n = 0
  · subst h0
    refine ⟨0, 0, ?_, by simp [rn53_zero], by simp⟩
    simp only [if_true]; exact decode_zero
  · rw [if_neg h0]
    have hn0 : 0 < n := by omega
    obtain ⟨m, h1, h2, h3, h4⟩ := fd_struct n hn0
    have hlv : Nat.log2 (rn53 n) + j ≤ 1000 := by
      have := rn53_lt n 64 hn0 hn
      rcases hj with rfl | rfl <;> omega
    refine ⟨m, Nat.log2 (rn53 n) + 1022 + j, ?_, ?_, ?_⟩
    · have : fd n + j * 2 ^ 52 = (Nat.log2 (rn53 n) + 1022 + j) * 2 ^ 52 + m := by rw [h3]; ring
      rw [this]
      exact decode_normal _ m h1 h2 (by omega)
    · rw [Nat.pow_add, ← Nat.mul_assoc, h4]; ring
    · rw [h3]; omega


/-- rounding down costs at most half a unit of the last place: `rn53 n ≥ n − n / 2^53` -/
theorem rn53_ge (n : Nat) : (2 ^ 53 - 1) * n ≤ 2 ^ 53 * rn53 n := by
  unfold rn53
  by_cases hl : Nat.log2 n ≤ 52
  · rw [if_pos hl]; omega
  · rw [if_neg hl]
    have hn : n ≠ 0 := by intro h; subst h; simp [Nat.log2] at hl
    obtain ⟨a, b⟩ := q_range n (by omega)
    obtain ⟨sh, hsh⟩ : ∃ sh, Nat.log2 n = sh + 53 := ⟨Nat.log2 n - 53, by omega⟩
    have hs : Nat.log2 n - 52 = sh + 1 := by omega
    unfold rq53
    simp only [hs, Nat.add_sub_cancel] at a b ⊢
    have hdm := Nat.div_add_mod n (2 ^ (sh + 1))
    have hr : n % 2 ^ (sh + 1) < 2 ^ (sh + 1) := Nat.mod_lt _ (Nat.pow_pos (by decide))
    have hp : 2 ^ (sh + 1) = 2 * 2 ^ sh := by rw [Nat.pow_succ]; ring
    rw [hp] at hdm hr a b ⊢
    generalize n / (2 * 2 ^ sh) = q at *
    generalize n % (2 * 2 ^ sh) = r at *
    generalize 2 ^ sh = h at *
    have hq : 2 ^ 52 * (2 * h) ≤ 2 * h * q := by rw [Nat.mul_comm (2 * h) q]; exact Nat.mul_le_mul_right _ a
    subst hdm
    have e53 : (2 : Nat) ^ 53 - 1 = 9007199254740991 := by norm_num
    rw [e53]
    split
    · have : 2 ^ 53 * ((q + 1) * (2 * h)) = 2 ^ 53 * (2 * h * q) + 2 ^ 53 * (2 * h) := by ring
      rw [this]
      have : 9007199254740991 * (2 * h * q + r) = 9007199254740991 * (2 * h * q) + 9007199254740991 * r := by ring
      rw [this]
      generalize 2 * h * q = P at *
      omega
    · rename_i hup
      have hrh : r ≤ h := by
        simp only [Bool.or_eq_true, Bool.and_eq_true, decide_eq_true_eq, beq_iff_eq] at hup
        omega
      have : 2 ^ 53 * (q * (2 * h)) = 2 ^ 53 * (2 * h * q) := by ring
      rw [this]
      have : 9007199254740991 * (2 * h * q + r) = 9007199254740991 * (2 * h * q) + 9007199254740991 * r := by ring
      rw [this]
      generalize 2 * h * q = P at *
      omega

/-- the grid argument: a number with at most 53 significant bits below the next point of a grid whose current point has
at least 53 bits is at most the current point -/
theorem grid_le (N j q g : Nat) (hN : N < 2 ^ 53) (hq : 2 ^ 52 ≤ q) (h : N * 2 ^ j < (q + 1) * 2 ^ g) :
    N * 2 ^ j ≤ q * 2 ^ g := by
  rcases Nat.lt_or_ge j g with hj | hj
  · obtain ⟨d, rfl⟩ : ∃ d, g = j + 1 + d := ⟨g - j - 1, by omega⟩
    calc N * 2 ^ j ≤ 2 ^ 53 * 2 ^ j := Nat.mul_le_mul_right _ (Nat.le_of_lt hN)
      _ = 2 ^ 52 * 2 ^ (j + 1) := by rw [Nat.pow_succ]; ring
      _ ≤ 2 ^ 52 * 2 ^ (j + 1 + d) := Nat.mul_le_mul_left _ (Nat.pow_le_pow_right (by decide) (by omega))
      _ ≤ q * 2 ^ (j + 1 + d) := Nat.mul_le_mul_right _ hq
  · obtain ⟨d, rfl⟩ : ∃ d, j = g + d := ⟨j - g, by omega⟩
    have hp : 0 < 2 ^ g := Nat.pow_pos (by decide)
    rw [Nat.pow_add, ← Nat.mul_assoc, Nat.mul_comm N (2 ^ g), Nat.mul_assoc] at h ⊢
    rw [Nat.mul_comm (q + 1)] at h
    rw [Nat.mul_comm q]
    have := Nat.lt_of_mul_lt_mul_left h
    exact Nat.mul_le_mul_left _ (by omega)

/-- **rounding is monotone against representable numbers**: a number `N·2^j` with `N < 2^53` below `n` is below `rn53 n` -/
theorem rn53_ge_repr (n N j : Nat) (hN : N < 2 ^ 53) (h : N * 2 ^ j ≤ n) : N * 2 ^ j ≤ rn53 n := by
  unfold rn53
  by_cases hl : Nat.log2 n ≤ 52
  · rw [if_pos hl]; exact h
  · rw [if_neg hl]
    obtain ⟨a, b⟩ := q_range n (by omega)
    have hq : n / 2 ^ (Nat.log2 n - 52) ≤ rq53 n := by
      unfold rq53; simp only; split <;> omega
    have hp : 0 < 2 ^ (Nat.log2 n - 52) := Nat.pow_pos (by decide)
    have hlt : n < (n / 2 ^ (Nat.log2 n - 52) + 1) * 2 ^ (Nat.log2 n - 52) := by
      have := Nat.div_add_mod n (2 ^ (Nat.log2 n - 52))
      have := Nat.mod_lt n hp
      rw [Nat.add_mul, Nat.one_mul, Nat.mul_comm]; omega
    exact le_trans (grid_le N j _ _ hN a (lt_of_le_of_lt h hlt)) (Nat.mul_le_mul_right _ hq)

/-! ## 3. Values: `Rep b V` — the pattern `b` is `+0.0` or a normal number of value `V / 2^1074` -/

/-- `b` is the pattern of `+0.0` (`V = 0`) or of the normal number `m · 2^(k − 1074)` with `V = m · 2^k` (all values are
kept multiplied by `2^1074`, so that they are natural numbers) -/
def Rep (b V : Nat) : Prop :=
  (V = 0 ∧ b = 0) ∨ ∃ m k, 2 ^ 52 ≤ m ∧ m < 2 ^ 53 ∧ k ≤ 2045 ∧ b = k * 2 ^ 52 + m ∧ m * 2 ^ k = V

theorem rep_decode (b V : Nat) (h : Rep b V) :
    ∃ (m k : Nat), fpDecode 52 11 b = some (m, (k : Int) - 1074) ∧ m * 2 ^ k = V ∧ b < 2 ^ 64 := by
  rcases h with ⟨rfl, rfl⟩ | ⟨m, k, h1, h2, hk, rfl, rfl⟩
  · exact ⟨0, 0, decode_zero, by simp, by norm_num⟩
  · exact ⟨m, k, decode_normal k m h1 h2 hk, rfl, by omega⟩

/-- `n as f64` represents `rn53 n` -/
theorem rep_fd (n : Nat) (h : n < 2 ^ 1000) : Rep (fd n) (rn53 n * 2 ^ 1074) := by
  rcases Nat.eq_zero_or_pos n with rfl | hn
  · left; exact ⟨by simp [rn53_zero], rfl⟩
  · right
    obtain ⟨m, h1, h2, h3, h4⟩ := fd_struct n hn
    have := rn53_lt n 1000 hn h
    exact ⟨m, _, h1, h2, by omega, h3, h4⟩

/-- multiplying a normal number by a power of two `2^t` given as a pattern `c`: the exponent field moves by `t` -/
theorem fpMul_pow2 (c : Nat) (t : Int) (hc : fpDecode 52 11 c = some (2 ^ 52, t - 52)) (m k : Nat) (h1 : 2 ^ 52 ≤ m)
    (h2 : m < 2 ^ 53) (hk : k ≤ 2045) (hlo : 0 ≤ (k : Int) + t) (hhi : (k : Int) + t ≤ 2044) :
    fpMul 52 11 (k * 2 ^ 52 + m) c = .ok (((k : Int) + t).toNat * 2 ^ 52 + m) := by
  have hlog : Nat.log2 (m * 2 ^ 52) = 104 := by rw [log2_mul_pow m 52 (by omega), log2_sig m h1 h2]
  have hd := decode_normal k m h1 h2 hk
  have hr := fpRound_eq (m * 2 ^ 52) ((k : Int) - 1074 + (t - 52)) (by omega)
    (by rw [hlog]; push_cast; omega) (by rw [hlog]; push_cast; omega)
  rw [fpMul_of_decode _ _ _ _ _ _ _ hd hc hr, fd_scale m 52 (by omega), fd_sig m h1 h2]
  apply congrArg Except.ok
  obtain ⟨j, hj⟩ : ∃ j : Nat, (j : Int) = (k : Int) + t := ⟨((k : Int) + t).toNat, by omega⟩
  rw [← hj]
  push_cast
  omega

/-! ## 4. The chain `lx = (CX.w[1] as f64) * 2^64 + (CX.w[0] as f64)` -/

/-- the natural number the chain computes: each word rounded, the sum rounded -/
def lval (c1 c0 : Nat) : Nat := rn53 (rn53 c1 * 2 ^ 64 + rn53 c0)

theorem fpAdd_zero : fpAdd 52 11 0 0 = .ok 0 := by decide

theorem rn53_pos (n : Nat) (h : 0 < n) : 0 < rn53 n := by
  have h2 := (rn53_binade _ h).1
  have h3 := Nat.pow_pos (n := Nat.log2 n) (by decide : 0 < 2)
  exact Nat.lt_of_lt_of_le h3 h2

theorem rn53_le_pow (n k : Nat) (h : n < 2 ^ k) : rn53 n ≤ 2 ^ k := by
  rcases Nat.eq_zero_or_pos n with rfl | h0
  · rw [rn53_zero]; exact Nat.zero_le _
  · have := (rn53_binade _ h0).2
    have hl : Nat.log2 n < k := (Nat.log2_lt (by omega)).2 h
    exact le_trans this (Nat.pow_le_pow_right (by decide) (by omega))

/-- **the bits of `lx`**: the translated chain `F64U.add (F64U.mul (ofU64 c1) 2^64) (ofU64 c0)` never fails and its result
is `S as f64` for the natural number `S = rn53 c1 · 2^64 + rn53 c0` -/
theorem lx_bits (c1 c0 : UInt64) :
    ∃ P, F64U.mul (F64U.ofU64 (UInt64.ofInt (toI c1))) (⟨(0x43f0000000000000 : UInt64)⟩ : F64U) = .ok P ∧
      F64U.add P (F64U.ofU64 (UInt64.ofInt (toI c0)))
        = .ok ⟨UInt64.ofNat (fd (rn53 c1.toNat * 2 ^ 64 + rn53 c0.toNat))⟩ := by
  rw [Dec.C11GenLogb.u64_cast_id, Dec.C11GenLogb.u64_cast_id]
  obtain ⟨m1, k1, hd1, hv1, hb1⟩ := dec_val c1.toNat 64 c1.toNat_lt (Or.inr rfl)
  obtain ⟨m2, k2, hd2, hv2, hb2⟩ := dec_val c0.toNat 0 c0.toNat_lt (Or.inl rfl)
  simp only [Nat.zero_mul, Nat.add_zero, Nat.pow_zero, Nat.mul_one, ite_self] at hd2 hv2 hb2
  have hfb0 : (if c0.toNat = 0 then 0 else fd c0.toNat) = fd c0.toNat := by
    split
    · rename_i h; rw [h]; rfl
    · rfl
  rw [hfb0] at hd2 hb2
  have hmul : F64U.mul (F64U.ofU64 c1) (⟨(0x43f0000000000000 : UInt64)⟩ : F64U)
      = .ok ⟨UInt64.ofNat (if c1.toNat = 0 then 0 else fd c1.toNat + 64 * 2 ^ 52)⟩ := by
    unfold F64U.mul F64U.ofU64
    have hb : (UInt64.ofNat (fd c1.toNat)).toNat = fd c1.toNat := by
      rw [UInt64.toNat_ofNat']
      apply Nat.mod_eq_of_lt
      by_cases h0 : c1.toNat = 0
      · rw [h0]; decide
      · rw [if_neg h0] at hb1; omega
    have hc : (0x43f0000000000000 : UInt64).toNat = 0x43f0000000000000 := by decide
    simp only [hb, hc]
    by_cases h0 : c1.toNat = 0
    · rw [h0, if_pos rfl, fd_zero, fpMul_zero]; rfl
    · rw [if_neg h0, fpMul_two64 _ (by omega) c1.toNat_lt]; rfl
  refine ⟨_, hmul, ?_⟩
  unfold F64U.add F64U.ofU64
  have hbP : (UInt64.ofNat (if c1.toNat = 0 then 0 else fd c1.toNat + 64 * 2 ^ 52)).toNat
      = (if c1.toNat = 0 then 0 else fd c1.toNat + 64 * 2 ^ 52) := by
    rw [UInt64.toNat_ofNat']; exact Nat.mod_eq_of_lt hb1
  have hbB : (UInt64.ofNat (fd c0.toNat)).toNat = fd c0.toNat := by
    rw [UInt64.toNat_ofNat']; exact Nat.mod_eq_of_lt hb2
  simp only [hbP, hbB]
  by_cases hz : c1.toNat = 0 ∧ c0.toNat = 0
  · obtain ⟨z1, z0⟩ := hz
    simp only [z1, z0, if_true, rn53_zero, Nat.zero_mul, Nat.add_zero, fd_zero, fpAdd_zero, Except.map]
  have hN : m1 * 2 ^ k1 + m2 * 2 ^ k2 = (rn53 c1.toNat * 2 ^ 64 + rn53 c0.toNat) * 2 ^ 1074 := by
    rw [hv1, hv2]; ring
  have hS : 0 < rn53 c1.toNat * 2 ^ 64 + rn53 c0.toNat := by
    rcases Nat.eq_zero_or_pos c1.toNat with h | h
    · have h0 : 0 < c0.toNat := by omega
      exact Nat.add_pos_right _ (rn53_pos _ h0)
    · exact Nat.add_pos_left (Nat.mul_pos (rn53_pos _ h) (by norm_num)) _
  have hSlt : rn53 c1.toNat * 2 ^ 64 + rn53 c0.toNat < 2 ^ 130 := by
    have a := rn53_le_pow c1.toNat 64 c1.toNat_lt
    have b := rn53_le_pow c0.toNat 64 c0.toNat_lt
    omega
  have hlogS : Nat.log2 (rn53 c1.toNat * 2 ^ 64 + rn53 c0.toNat) < 130 := (Nat.log2_lt (by omega)).2 hSlt
  have hlogN := log2_mul_pow _ 1074 hS
  rw [← hN] at hlogN
  have hadd := fpAdd_eq _ _ m1 k1 m2 k2 hd1 hd2 (by rw [hN]; exact Nat.mul_pos hS (by norm_num)) (by omega) (by omega)
  rw [hadd, hN, fd_scale _ 1074 hS]
  simp only [Except.map, Nat.add_sub_cancel]

/-! ## 5. Division, scaling by a power of two, truncation -/

theorem log2_double_succ (M : Nat) (hM : 0 < M) : Nat.log2 (2 * M + 1) = Nat.log2 M + 1 := by
  apply log2_unique
  · have := Nat.log2_self_le (by omega : M ≠ 0)
    have e : (2 : Nat) ^ (M.log2 + 1) = 2 * 2 ^ M.log2 := by rw [Nat.pow_succ]; ring
    rw [e]; omega
  · have : M < 2 ^ (M.log2 + 1) := Nat.lt_log2_self
    have e : (2 : Nat) ^ (M.log2 + 1 + 1) = 2 * 2 ^ (M.log2 + 1) := by rw [Nat.pow_succ]; ring
    rw [e]; omega

/-- a sticky bit below a significand that is going to be shifted right by at least one place is the same as one more
significand bit set to 1 -/
theorem fpRound_sticky (M : Nat) (E : Int) (hM : 2 ^ 54 ≤ M) :
    fpRound 52 11 M E true = fpRound 52 11 (2 * M + 1) (E - 1) false := by
  have hM0 : 0 < M := lt_of_lt_of_le (by norm_num) hM
  have hl := log2_double_succ M hM0
  have hl54 : 54 ≤ Nat.log2 M := (Nat.le_log2 (by omega)).2 hM
  unfold fpRound
  have hb1 : (M == 0) = false := by rw [beq_eq_false_iff_ne]; omega
  have hb2 : (2 * M + 1 == 0) = false := by rw [beq_eq_false_iff_ne]; omega
  simp only [hb1, hb2, Bool.false_eq_true, if_false, hl]
  obtain ⟨e0, he0⟩ : ∃ e0 : Int, e0 = max (E + (Nat.log2 M : Int) - (52 : Nat)) (1 - ((2 : Int) ^ (11 - 1) - 1) - (52 : Nat)) :=
    ⟨_, rfl⟩
  have he0' : max (E - 1 + ((Nat.log2 M + 1 : Nat) : Int) - (52 : Nat)) (1 - ((2 : Int) ^ (11 - 1) - 1) - (52 : Nat)) = e0 := by
    rw [he0]; push_cast; congr 1; omega
  rw [he0', ← he0]
  have hc1 : ¬ e0 ≤ E := by rw [he0]; omega
  have hc2 : ¬ e0 ≤ E - 1 := by omega
  simp only [hc1, hc2, if_false]
  obtain ⟨sh, hsh⟩ : ∃ sh : Nat, (e0 - E).toNat = sh + 1 := ⟨(e0 - E).toNat - 1, by omega⟩
  have hsh' : (e0 - (E - 1)).toNat = sh + 2 := by omega
  simp only [hsh, hsh', Nat.add_sub_cancel]
  have hp : (2 : Nat) ^ (sh + 2) = 2 * 2 ^ (sh + 1) := by rw [Nat.pow_succ]; ring
  have hq : (2 * M + 1) / 2 ^ (sh + 2) = M / 2 ^ (sh + 1) := by
    rw [hp, ← Nat.div_div_eq_div_mul]
    congr 1; omega
  have hr : (2 * M + 1) % 2 ^ (sh + 2) = 2 * (M % 2 ^ (sh + 1)) + 1 := by
    rw [hp]
    have := Nat.div_add_mod M (2 ^ (sh + 1))
    have hlt := Nat.mod_lt M (Nat.pow_pos (n := sh + 1) (by decide : 0 < 2))
    generalize M / 2 ^ (sh + 1) = q at *
    generalize M % 2 ^ (sh + 1) = r at *
    generalize 2 ^ (sh + 1) = D at *
    have e : 2 * M + 1 = 2 * D * q + (2 * r + 1) := by rw [← this]; ring
    rw [e, Nat.mul_add_mod]
    exact Nat.mod_eq_of_lt (by omega)
  rw [hq, hr]
  have hp2 : (2 : Nat) ^ (sh + 2 - 1) = 2 * 2 ^ sh := by
    have : sh + 2 - 1 = sh + 1 := by omega
    rw [this, Nat.pow_succ]; ring
  rw [hp2]
  generalize M / 2 ^ (sh + 1) = q
  generalize M % 2 ^ (sh + 1) = r
  generalize 2 ^ sh = h
  have hup : (decide (r > h) || (r == h && (true || q % 2 == 1))) =
      (decide (2 * r + 1 > 2 * h) || (2 * r + 1 == 2 * h && (false || q % 2 == 1))) := by
    have a : (2 * r + 1 == 2 * h) = false := by rw [beq_eq_false_iff_ne]; omega
    rw [a]
    simp only [Bool.true_or, Bool.and_true, Bool.false_and, Bool.or_false]
    rw [Bool.eq_iff_iff]
    simp only [Bool.or_eq_true, decide_eq_true_eq, beq_iff_eq]
    omega
  rw [hup]


/-- one rounding of `M · 2^E` (normal range, no overflow): the result represents `rn53 M · 2^E` -/
theorem fpRound_rep (M : Nat) (E : Int) (hM : 0 < M) (hlo : -1022 ≤ E + Nat.log2 M) (hhi : E + Nat.log2 M ≤ 1021)
    (hE : -1074 ≤ E) :
    ∃ c, fpRound 52 11 M E false = some c ∧ Rep c (rn53 M * 2 ^ (E + 1074).toNat) := by
  refine ⟨_, fpRound_eq M E hM hlo (by omega), ?_⟩
  obtain ⟨m, h1, h2, h3, h4⟩ := fd_struct M hM
  obtain ⟨a, b⟩ := rn53_binade M hM
  have hL1 : Nat.log2 M ≤ Nat.log2 (rn53 M) := by
    have hp : rn53 M ≠ 0 := by have := rn53_pos M hM; omega
    exact (Nat.le_log2 hp).2 a
  have hL2 : Nat.log2 (rn53 M) ≤ Nat.log2 M + 1 := by
    have hp : rn53 M ≠ 0 := by have := rn53_pos M hM; omega
    have : rn53 M < 2 ^ (Nat.log2 M + 1 + 1) :=
      lt_of_le_of_lt b (Nat.pow_lt_pow_right (by decide) (by omega))
    have := (Nat.log2_lt hp).2 this
    omega
  generalize Nat.log2 (rn53 M) = L at *
  obtain ⟨K, hK⟩ : ∃ K : Nat, (K : Int) = (L : Int) + 1022 + E := ⟨((L : Int) + 1022 + E).toNat, by omega⟩
  obtain ⟨e, he⟩ : ∃ e : Nat, (e : Int) = E + 1074 := ⟨(E + 1074).toNat, by omega⟩
  have het : (E + 1074).toNat = e := by omega
  rw [het]
  right
  refine ⟨m, K, h1, h2, by omega, ?_, ?_⟩
  · rw [h3]
    have : (((L + 1022) * 2 ^ 52 + m : Nat) : Int) + E * 2 ^ 52 = ((K * 2 ^ 52 + m : Nat) : Int) := by
      push_cast; rw [hK]; ring
    rw [this]; exact Int.toNat_natCast _
  · -- m · 2^K = rn53 M · 2^e, from m · 2^(L+1022) = rn53 M · 2^1074
    rcases Int.le_total 0 E with hE0 | hE0
    · obtain ⟨d, hd⟩ : ∃ d : Nat, (d : Int) = E := ⟨E.toNat, by omega⟩
      have e1 : K = L + 1022 + d := by omega
      have e2 : e = 1074 + d := by omega
      rw [e1, e2, Nat.pow_add, ← Nat.mul_assoc, h4, Nat.pow_add]; ring
    · obtain ⟨d, hd⟩ : ∃ d : Nat, (d : Int) = -E := ⟨(-E).toNat, by omega⟩
      have e1 : L + 1022 = K + d := by omega
      have e2 : 1074 = e + d := by omega
      have hpd : 0 < 2 ^ d := Nat.pow_pos (by decide)
      apply Nat.eq_of_mul_eq_mul_right hpd
      rw [Nat.mul_assoc, ← Nat.pow_add, ← e1, h4, Nat.mul_assoc, ← Nat.pow_add, ← e2]

theorem fpDiv_of_decode (a b m1 m2 r : Nat) (e1 e2 : Int) (h1 : fpDecode 52 11 a = some (m1, e1))
    (h2 : fpDecode 52 11 b = some (m2, e2)) (hm : m2 ≠ 0)
    (hr : fpRound 52 11 (m1 * 2 ^ 112 / m2) (e1 - e2 - 112) (m1 * 2 ^ 112 % m2 != 0) = some r) :
    fpDiv 52 11 a b = .ok r := by
  have H : ∀ (A : Nat) (B : Int) (C : Bool), A = m1 * 2 ^ 112 / m2 → B = e1 - e2 - 112 → C = (m1 * 2 ^ 112 % m2 != 0) →
      fpRound 52 11 A B C = some r := by
    intro A B C hA hB hC; subst hA hB hC; exact hr
  unfold fpDiv
  rw [h1, h2]
  have hb : (m2 == 0) = false := by rw [beq_eq_false_iff_ne]; exact hm
  simp only [hb, Bool.false_eq_true, if_false]
  rw [H _ _ _ ?_ ?_ ?_]
  · norm_num
  · norm_num
  · norm_num

/-- where the exponent `k` of a normal number `m · 2^k = L · 2^s` lies for `0 < L < 2^130` -/
theorem rep_exp_range' (m k L s : Nat) (h1 : 2 ^ 52 ≤ m) (h2 : m < 2 ^ 53) (h : m * 2 ^ k = L * 2 ^ s) (hL0 : 0 < L)
    (hL : L < 2 ^ 130) : s < 53 + k ∧ 52 + k < 130 + s := by
  have hpk : 0 < 2 ^ k := Nat.pow_pos (by decide)
  have hpB : 0 < 2 ^ s := Nat.pow_pos (by decide)
  constructor
  · have a : 2 ^ s < 2 ^ (53 + k) := by
      calc 2 ^ s = 1 * 2 ^ s := (Nat.one_mul _).symm
        _ ≤ L * 2 ^ s := Nat.mul_le_mul_right _ hL0
        _ = m * 2 ^ k := h.symm
        _ < 2 ^ 53 * 2 ^ k := Nat.mul_lt_mul_of_pos_right h2 hpk
        _ = 2 ^ (53 + k) := (Nat.pow_add _ _ _).symm
    exact (Nat.pow_lt_pow_iff_right (by decide : 1 < 2)).1 a
  · have a : 2 ^ (52 + k) < 2 ^ (130 + s) := by
      calc 2 ^ (52 + k) = 2 ^ 52 * 2 ^ k := Nat.pow_add _ _ _
        _ ≤ m * 2 ^ k := Nat.mul_le_mul_right _ h1
        _ = L * 2 ^ s := h
        _ < 2 ^ 130 * 2 ^ s := Nat.mul_lt_mul_of_pos_right hL hpB
        _ = 2 ^ (130 + s) := (Nat.pow_add _ _ _).symm
    exact (Nat.pow_lt_pow_iff_right (by decide : 1 < 2)).1 a

theorem rep_exp_range (m k L : Nat) (h1 : 2 ^ 52 ≤ m) (h2 : m < 2 ^ 53) (h : m * 2 ^ k = L * 2 ^ 1074) (hL0 : 0 < L)
    (hL : L < 2 ^ 130) : 1022 ≤ k ∧ k < 1152 := by
  obtain ⟨a, b⟩ := rep_exp_range' m k L 1074 h1 h2 h hL0 hL
  clear h
  omega

theorem scale_split (m1 k1 : Nat) : m1 * 2 ^ k1 * 2 ^ 1074 = (m1 * 2 ^ 112) * 2 ^ (k1 + 962) := by
  have : k1 + 1074 = 112 + (k1 + 962) := by omega
  rw [Nat.mul_assoc, Nat.mul_assoc, ← Nat.pow_add, ← Nat.pow_add, this]

theorem div_lo_core (M m2 ρ n NJ a b Pw Z : Nat) (hdiv : M * m2 + ρ = n) (hρ : ρ < m2) (hab : a * b = Pw)
    (hPw : 0 < Pw) (hZ : Z = n * Pw) (h : NJ * (m2 * b) ≤ Z) : NJ < (M + 1) * a := by
  by_contra hge
  have hge' : (M + 1) * a ≤ NJ := Nat.le_of_not_lt hge
  have a1 : (M + 1) * a * (m2 * b) ≤ NJ * (m2 * b) := Nat.mul_le_mul_right _ hge'
  have a2 : (M + 1) * a * (m2 * b) = ((M + 1) * m2) * Pw := by rw [← hab]; ring
  have a4 : n < (M + 1) * m2 := by rw [← hdiv, Nat.add_mul, Nat.one_mul]; omega
  have a5 := Nat.mul_lt_mul_of_pos_right a4 hPw
  rw [a2] at a1
  rw [hZ] at h
  exact absurd (lt_of_lt_of_le a5 (le_trans a1 h)) (lt_irrefl _)

/-- lower side of the division: a representable `N · 2^J` below the true quotient is below the truncated 112-bit
quotient `M · 2^e'` -/
theorem div_lo (m1 m2 k1 k2 e' M ρ N J : Nat) (hdiv : M * m2 + ρ = m1 * 2 ^ 112) (hρ : ρ < m2)
    (he : e' + k2 = k1 + 962) (hM : 2 ^ 52 ≤ M) (hN : N < 2 ^ 53)
    (h : N * 2 ^ J * (m2 * 2 ^ k2) ≤ (m1 * 2 ^ k1) * 2 ^ 1074) : N * 2 ^ J ≤ M * 2 ^ e' := by
  apply grid_le N J M e' hN hM
  exact div_lo_core M m2 ρ _ _ (2 ^ e') (2 ^ k2) (2 ^ (k1 + 962)) _ hdiv hρ (by rw [← Nat.pow_add, he])
    (Nat.pow_pos (by decide)) (scale_split m1 k1) h

theorem div_hi_core (M M' m2 ρ n R a a' b Pw Z : Nat) (hdiv : M * m2 + ρ = n) (hρ : ρ < m2) (hab : a * b = Pw)
    (hn : 2 ^ 164 ≤ n) (hm2 : m2 < 2 ^ 53) (hZ : Z = n * Pw)
    (hR : 2 ^ 53 * R ≤ (2 ^ 53 + 1) * M') (hM' : M' * a' ≤ (M + 1) * a) :
    R * a' * (m2 * b) * 2 ^ 110 ≤ (2 ^ 110 + 2 ^ 57 + 1) * Z := by
  have b1 : 2 ^ 53 * (R * a') ≤ (2 ^ 53 + 1) * ((M + 1) * a) := by
    calc 2 ^ 53 * (R * a') = (2 ^ 53 * R) * a' := by ring
      _ ≤ ((2 ^ 53 + 1) * M') * a' := Nat.mul_le_mul_right _ hR
      _ = (2 ^ 53 + 1) * (M' * a') := by ring
      _ ≤ (2 ^ 53 + 1) * ((M + 1) * a) := Nat.mul_le_mul_left _ hM'
  have b2 : 2 ^ 53 * (R * a') * (m2 * b) ≤ (2 ^ 53 + 1) * ((M + 1) * a) * (m2 * b) :=
    Nat.mul_le_mul_right _ b1
  have b3 : (2 ^ 53 + 1) * ((M + 1) * a) * (m2 * b) = (2 ^ 53 + 1) * (((M + 1) * m2) * Pw) := by
    rw [← hab]; ring
  have b4 : (M + 1) * m2 * 2 ^ 111 ≤ (2 ^ 111 + 1) * n := by
    have : (M + 1) * m2 = n - ρ + m2 := by rw [← hdiv, Nat.add_mul, Nat.one_mul]; omega
    generalize (M + 1) * m2 = Y at *
    omega
  have b5 : (M + 1) * m2 * Pw * 2 ^ 111 ≤ (2 ^ 111 + 1) * (n * Pw) := by
    calc (M + 1) * m2 * Pw * 2 ^ 111 = ((M + 1) * m2 * 2 ^ 111) * Pw := by ring
      _ ≤ ((2 ^ 111 + 1) * n) * Pw := Nat.mul_le_mul_right _ b4
      _ = _ := by ring
  rw [b3] at b2
  have e1 : 2 ^ 53 * (R * a') * (m2 * b) = 2 ^ 53 * (R * a' * (m2 * b)) := by ring
  rw [e1] at b2
  rw [hZ]
  clear b1 b3 b4 e1 hdiv hR hM' hab hZ hn
  generalize n * Pw = Z' at *
  generalize (M + 1) * m2 * Pw = Y at *
  generalize R * a' * (m2 * b) = W at *
  have c1 : 2 ^ 111 * (2 ^ 53 * W) ≤ 2 ^ 111 * ((2 ^ 53 + 1) * Y) := Nat.mul_le_mul_left _ b2
  have c2 : (2 ^ 53 + 1) * (Y * 2 ^ 111) ≤ (2 ^ 53 + 1) * ((2 ^ 111 + 1) * Z') := Nat.mul_le_mul_left _ b5
  have c3 : 2 ^ 111 * ((2 ^ 53 + 1) * Y) = (2 ^ 53 + 1) * (Y * 2 ^ 111) := by ring
  have c4 : 2 ^ 111 * (2 ^ 53 * W) = 2 ^ 164 * W := by ring
  have c5 : (2 ^ 53 + 1) * ((2 ^ 111 + 1) * Z') = (2 ^ 164 + 2 ^ 111 + 2 ^ 53 + 1) * Z' := by ring
  rw [c3] at c1
  rw [c4] at c1
  rw [c5] at c2
  have c6 := le_trans c1 c2
  clear c1 c2 c3 c4 c5 b2 b5
  omega

/-- upper side of the division -/
theorem div_hi (m1 m2 k1 k2 e' e'' M M' ρ R : Nat) (hdiv : M * m2 + ρ = m1 * 2 ^ 112) (hρ : ρ < m2)
    (he : e' + k2 = k1 + 962) (hm1 : 2 ^ 52 ≤ m1) (hm2 : m2 < 2 ^ 53)
    (hR : 2 ^ 53 * R ≤ (2 ^ 53 + 1) * M') (hM' : M' * 2 ^ e'' ≤ (M + 1) * 2 ^ e') :
    R * 2 ^ e'' * (m2 * 2 ^ k2) * 2 ^ 110 ≤ (2 ^ 110 + 2 ^ 57 + 1) * ((m1 * 2 ^ k1) * 2 ^ 1074) :=
  div_hi_core M M' m2 ρ _ R (2 ^ e') (2 ^ e'') (2 ^ k2) (2 ^ (k1 + 962)) _ hdiv hρ (by rw [← Nat.pow_add, he])
    (by have := Nat.mul_le_mul_right (2 ^ 112) hm1; rw [← Nat.pow_add] at this; exact this) hm2 (scale_split m1 k1) hR hM'

theorem fpRound_zero (E : Int) : fpRound 52 11 0 E false = some 0 := by
  unfold fpRound
  simp only [beq_self_eq_true, if_true, Bool.false_eq_true, if_false]

/-- **one `f64` division**, for operands that are the (integer-valued) patterns of `Lx` and `Ly > 0`: it does not fail;
the quotient pattern represents some `C / 2^1074` which is (lo) at least every representable `N · 2^j` that is below the
true quotient `Lx / Ly`, and (hi) at most `(1 + 2^-53 + 2^-110) · Lx / Ly` -/
theorem fpDiv_spec (a b Lx Ly : Nat) (ha : Rep a (Lx * 2 ^ 1074)) (hb : Rep b (Ly * 2 ^ 1074)) (hLy : 0 < Ly)
    (hx : Lx < 2 ^ 130) (hy : Ly < 2 ^ 130) :
    ∃ c C, fpDiv 52 11 a b = .ok c ∧ Rep c C ∧
      (∀ N j, N < 2 ^ 53 → N * 2 ^ j * Ly ≤ Lx → N * 2 ^ j * 2 ^ 1074 ≤ C) ∧
      C * Ly * 2 ^ 110 ≤ (2 ^ 110 + 2 ^ 57 + 1) * (Lx * 2 ^ 1074) := by
  have hpB : 0 < 2 ^ 1074 := Nat.pow_pos (by decide)
  have hpB' : (2 : Nat) ^ 1074 ≠ 0 := Nat.pos_iff_ne_zero.1 hpB
  rcases hb with ⟨hz, _⟩ | ⟨m2, k2, g1, g2, gk, rfl, hB⟩
  · exfalso
    rcases Nat.mul_eq_zero.1 hz with h | h
    · exact absurd h (Nat.pos_iff_ne_zero.1 hLy)
    · exact hpB' h
  obtain ⟨r2lo, r2hi⟩ := rep_exp_range m2 k2 Ly g1 g2 hB hLy hy
  have hd2 := decode_normal k2 m2 g1 g2 gk
  have hm2 : m2 ≠ 0 := by omega
  rcases ha with ⟨hz, rfl⟩ | ⟨m1, k1, f1, f2, fk, rfl, hA⟩
  · have hLx : Lx = 0 := by
      rcases Nat.mul_eq_zero.1 hz with h | h
      · exact h
      · exact absurd h hpB'
    subst hLx
    refine ⟨0, 0, ?_, Or.inl ⟨rfl, rfl⟩, ?_, ?_⟩
    · apply fpDiv_of_decode 0 _ 0 m2 0 _ _ decode_zero hd2 hm2
      rw [Nat.zero_mul, Nat.zero_div, Nat.zero_mod]
      exact fpRound_zero _
    · intro N j _ h
      have h0 : N * 2 ^ j * Ly = 0 := Nat.le_zero.1 h
      rcases Nat.mul_eq_zero.1 h0 with h1 | h1
      · rw [h1, Nat.zero_mul]
      · exact absurd h1 (Nat.pos_iff_ne_zero.1 hLy)
    · rw [Nat.zero_mul, Nat.zero_mul, Nat.zero_mul]; exact Nat.zero_le _
  have hLx : 0 < Lx := by
    rcases Nat.eq_zero_or_pos Lx with h | h
    · exfalso
      rw [h, Nat.zero_mul] at hA
      rcases Nat.mul_eq_zero.1 hA with h1 | h1
      · omega
      · exact absurd h1 (Nat.pos_iff_ne_zero.1 (Nat.pow_pos (by decide)))
    · exact h
  obtain ⟨r1lo, r1hi⟩ := rep_exp_range m1 k1 Lx f1 f2 hA hLx hx
  have hd1 := decode_normal k1 m1 f1 f2 fk
  obtain ⟨n, hn⟩ : ∃ n, n = m1 * 2 ^ 112 := ⟨_, rfl⟩
  have hn1 : 2 ^ 164 ≤ n := by
    rw [hn]; have := Nat.mul_le_mul_right (2 ^ 112) f1; rw [← Nat.pow_add] at this; exact this
  have hn2 : n < 2 ^ 165 := by
    rw [hn]; have := Nat.mul_lt_mul_of_pos_right f2 (Nat.pow_pos (n := 112) (by decide : 0 < 2))
    rw [← Nat.pow_add] at this; exact this
  have hdiv : n / m2 * m2 + n % m2 = n := Nat.div_add_mod' n m2
  have hρ : n % m2 < m2 := Nat.mod_lt _ (by omega)
  have hM1 : 2 ^ 111 ≤ n / m2 := (Nat.le_div_iff_mul_le (by omega)).2 (by omega)
  have hM2 : n / m2 < 2 ^ 113 := (Nat.div_lt_iff_lt_mul (by omega)).2 (by omega)
  generalize hMdef : n / m2 = M at *
  generalize hρdef : n % m2 = ρ at *
  have hM0 : M ≠ 0 := by omega
  have hlM1 : 111 ≤ Nat.log2 M := (Nat.le_log2 hM0).2 hM1
  have hlM2 : Nat.log2 M < 113 := (Nat.log2_lt hM0).2 hM2
  obtain ⟨e', he⟩ : ∃ e', e' + k2 = k1 + 962 := ⟨k1 + 962 - k2, by omega⟩
  obtain ⟨E, hE⟩ : ∃ E : Int, E = (k1 : Int) - 1074 - ((k2 : Int) - 1074) - 112 := ⟨_, rfl⟩
  have hEe : E + 1074 = (e' : Int) := by omega
  -- the rounding: a pair (M', e'') with the same rounded value
  have key : ∃ c M' e'', fpRound 52 11 M E (ρ != 0) = some c ∧ Rep c (rn53 M' * 2 ^ e'') ∧
      M * 2 ^ e' ≤ M' * 2 ^ e'' ∧ M' * 2 ^ e'' ≤ (M + 1) * 2 ^ e' ∧ 0 < M' := by
    by_cases hst : ρ = 0
    · obtain ⟨c, hc, hrep⟩ := fpRound_rep M E (by omega) (by omega) (by omega) (by omega)
      have : (E + 1074).toNat = e' := by omega
      rw [this] at hrep
      refine ⟨c, M, e', ?_, hrep, le_refl _, Nat.mul_le_mul_right _ (by omega), by omega⟩
      rw [hst]; exact hc
    · have hl2 := log2_double_succ M (by omega)
      obtain ⟨c, hc, hrep⟩ := fpRound_rep (2 * M + 1) (E - 1) (by omega) (by omega) (by omega) (by omega)
      obtain ⟨e2, he2⟩ : ∃ e2, e' = e2 + 1 := ⟨e' - 1, by omega⟩
      have : (E - 1 + 1074).toNat = e2 := by omega
      rw [this] at hrep
      have hp : 2 ^ e' = 2 * 2 ^ e2 := by rw [he2, Nat.pow_succ]; ring
      refine ⟨c, 2 * M + 1, e2, ?_, hrep, ?_, ?_, by omega⟩
      · have hb : (ρ != 0) = true := by simp [hst]
        rw [hb, fpRound_sticky M E (by omega)]; exact hc
      · rw [hp]; generalize 2 ^ e2 = P; nlinarith
      · rw [hp]; generalize 2 ^ e2 = P; nlinarith
  obtain ⟨c, M', e'', hc, hrep, P2, P3, hM'⟩ := key
  refine ⟨c, rn53 M' * 2 ^ e'', ?_, hrep, ?_, ?_⟩
  · apply fpDiv_of_decode _ _ m1 m2 c _ _ hd1 hd2 hm2
    rw [← hn, hMdef, hρdef, ← hE]; exact hc
  · intro N j hN h
    obtain ⟨J, hJ⟩ : ∃ J, J = j + 1074 := ⟨_, rfl⟩
    have hpJ : 2 ^ J = 2 ^ j * 2 ^ 1074 := by rw [hJ, Nat.pow_add]
    have h' : N * 2 ^ J * (m2 * 2 ^ k2) ≤ (m1 * 2 ^ k1) * 2 ^ 1074 := by
      rw [hA, hB, hpJ]
      calc N * (2 ^ j * 2 ^ 1074) * (Ly * 2 ^ 1074) = (N * 2 ^ j * Ly) * (2 ^ 1074 * 2 ^ 1074) := by ring
        _ ≤ Lx * (2 ^ 1074 * 2 ^ 1074) := Nat.mul_le_mul_right _ h
        _ = _ := by ring
    have d1 := div_lo m1 m2 k1 k2 e' M ρ N J (by rw [← hn]; exact hdiv) hρ he (by omega) hN h'
    have d2 := rn53_ge_repr (M' * 2 ^ e'') N J hN (le_trans d1 P2)
    rw [rn53_scale M' e'' hM'] at d2
    rw [Nat.mul_assoc, ← hpJ]; exact d2
  · have d3 := div_hi m1 m2 k1 k2 e' e'' M M' ρ (rn53 M') (by rw [← hn]; exact hdiv) hρ he f1 g2 (rn53_le M') P3
    rw [hA, hB] at d3
    apply Nat.le_of_mul_le_mul_right _ hpB
    calc rn53 M' * 2 ^ e'' * Ly * 2 ^ 110 * 2 ^ 1074 = rn53 M' * 2 ^ e'' * (Ly * 2 ^ 1074) * 2 ^ 110 := by ring
      _ ≤ _ := d3
      _ = _ := by ring

theorem decode_d60 : fpDecode 52 11 0x3c30000000000000 = some (2 ^ 52, -((60 : Nat) : Int) - 52) := by decide
theorem decode_d49 : fpDecode 52 11 0x3ce0000000000000 = some (2 ^ 52, -((49 : Nat) : Int) - 52) := by decide

/-- multiplying by the pattern `dk` of `2^-kk`: exact, as long as the number is at least `2^kk` -/
theorem fpMul_down (c C dk kk : Nat) (hd : fpDecode 52 11 dk = some (2 ^ 52, -(kk : Int) - 52)) (h : Rep c C)
    (hC : 2 ^ kk * 2 ^ 1074 ≤ C) (hkk : kk ≤ 100) (hkk1 : 1 ≤ kk) :
    ∃ c' C', fpMul 52 11 c dk = .ok c' ∧ Rep c' C' ∧ C' * 2 ^ kk = C := by
  have hpB : 0 < 2 ^ 1074 := Nat.pow_pos (by decide)
  have hpk : 0 < 2 ^ kk := Nat.pow_pos (by decide)
  rcases h with ⟨hz, _⟩ | ⟨m, k, h1, h2, hk, rfl, hv⟩
  · exfalso
    have := Nat.mul_pos hpk hpB
    omega
  have hlt : 2 ^ (kk + 1074) < 2 ^ (53 + k) := by
    calc 2 ^ (kk + 1074) = 2 ^ kk * 2 ^ 1074 := Nat.pow_add _ _ _
      _ ≤ C := hC
      _ = m * 2 ^ k := hv.symm
      _ < 2 ^ 53 * 2 ^ k := Nat.mul_lt_mul_of_pos_right h2 (Nat.pow_pos (by decide))
      _ = 2 ^ (53 + k) := (Nat.pow_add _ _ _).symm
  have hk2 := (Nat.pow_lt_pow_iff_right (by decide : 1 < 2)).1 hlt
  clear hlt hC hpB
  obtain ⟨d, hd'⟩ : ∃ d, k = d + kk := ⟨k - kk, by omega⟩
  have hmul := fpMul_pow2 dk (-(kk : Int)) hd m k h1 h2 hk (by omega) (by omega)
  have e : ((k : Int) + -(kk : Int)).toNat = d := by omega
  rw [e] at hmul
  refine ⟨_, m * 2 ^ d, hmul, Or.inr ⟨m, d, h1, h2, by omega, rfl, rfl⟩, ?_⟩
  rw [← hv, hd', Nat.pow_add, Nat.mul_assoc]

/-- `x as u64` of a represented value: the integer part -/
theorem fpToU64_rep (c C : Nat) (h : Rep c C) (hC : C < 2 ^ 64 * 2 ^ 1074) :
    fpToU64 52 11 c = .ok (UInt64.ofNat (C / 2 ^ 1074)) := by
  obtain ⟨m, k, hd, hv, _⟩ := rep_decode c C h
  have hpB : 0 < 2 ^ 1074 := Nat.pow_pos (by decide)
  have hlt : C / 2 ^ 1074 < 2 ^ 64 := (Nat.div_lt_iff_lt_mul hpB).2 hC
  unfold fpToU64
  rw [hd]
  simp only
  have hval : (if (k : Int) - 1074 ≥ 0 then m * 2 ^ ((k : Int) - 1074).toNat else m / 2 ^ (-((k : Int) - 1074)).toNat)
      = C / 2 ^ 1074 := by
    rcases Nat.lt_or_ge k 1074 with hk | hk
    · obtain ⟨d, hd'⟩ : ∃ d, 1074 = d + k := ⟨1074 - k, by omega⟩
      have e1 : ¬ ((k : Int) - 1074 ≥ 0) := by omega
      have e2 : (-((k : Int) - 1074)).toNat = d := by omega
      rw [if_neg e1, e2, ← hv]
      have : (2 : Nat) ^ 1074 = 2 ^ d * 2 ^ k := by rw [← Nat.pow_add, ← hd']
      rw [this, Nat.mul_div_mul_right _ _ (Nat.pow_pos (by decide))]
    · obtain ⟨d, hd'⟩ : ∃ d, k = d + 1074 := ⟨k - 1074, by omega⟩
      have e1 : (k : Int) - 1074 ≥ 0 := by omega
      have e2 : ((k : Int) - 1074).toNat = d := by omega
      rw [if_pos e1, e2, ← hv, hd', Nat.pow_add, ← Nat.mul_assoc, Nat.mul_div_cancel _ hpB]
  rw [hval]
  rw [if_neg (by omega)]

/-! ## 6. The same at the level of `F64U` -/

theorem ofNat_toNat_lt (c : Nat) (h : c < 2 ^ 64) : (UInt64.ofNat c).toNat = c := by
  rw [UInt64.toNat_ofNat']; exact Nat.mod_eq_of_lt h

/-- the pattern of `lx` represents `lval` -/
theorem lx_rep (c1 c0 : UInt64) :
    ∃ P lx, F64U.mul (F64U.ofU64 (UInt64.ofInt (toI c1))) (⟨(0x43f0000000000000 : UInt64)⟩ : F64U) = .ok P ∧
      F64U.add P (F64U.ofU64 (UInt64.ofInt (toI c0))) = .ok lx ∧
      Rep lx.bits.toNat (lval c1.toNat c0.toNat * 2 ^ 1074) := by
  obtain ⟨P, h1, h2⟩ := lx_bits c1 c0
  refine ⟨P, _, h1, h2, ?_⟩
  have a := rn53_le_pow c1.toNat 64 c1.toNat_lt
  have b := rn53_le_pow c0.toNat 64 c0.toNat_lt
  have hS : rn53 c1.toNat * 2 ^ 64 + rn53 c0.toNat < 2 ^ 1000 := by
    have : (2 : Nat) ^ 130 < 2 ^ 1000 := Nat.pow_lt_pow_right (by decide) (by decide)
    omega
  have hr := rep_fd _ hS
  obtain ⟨_, _, _, _, hlt⟩ := rep_decode _ _ hr
  show Rep (UInt64.ofNat _).toNat _
  rw [ofNat_toNat_lt _ hlt]
  exact hr

theorem lval_lt (c1 c0 : Nat) (h1 : c1 < 2 ^ 64) (h0 : c0 < 2 ^ 64) : lval c1 c0 < 2 ^ 130 := by
  have a := rn53_le_pow c1 64 h1
  have b := rn53_le_pow c0 64 h0
  have := rn53_le_pow (rn53 c1 * 2 ^ 64 + rn53 c0) 129 (by omega)
  unfold lval; omega

/-- `F64U.div` -/
theorem f_div (lx ly : F64U) (Lx Ly : Nat) (hx : Rep lx.bits.toNat (Lx * 2 ^ 1074)) (hy : Rep ly.bits.toNat (Ly * 2 ^ 1074))
    (hLy : 0 < Ly) (hx' : Lx < 2 ^ 130) (hy' : Ly < 2 ^ 130) :
    ∃ lq C, F64U.div lx ly = .ok lq ∧ Rep lq.bits.toNat C ∧
      (∀ N j, N < 2 ^ 53 → N * 2 ^ j * Ly ≤ Lx → N * 2 ^ j * 2 ^ 1074 ≤ C) ∧
      C * Ly * 2 ^ 110 ≤ (2 ^ 110 + 2 ^ 57 + 1) * (Lx * 2 ^ 1074) := by
  obtain ⟨c, C, h1, h2, h3, h4⟩ := fpDiv_spec _ _ Lx Ly hx hy hLy hx' hy'
  obtain ⟨_, _, _, _, hlt⟩ := rep_decode _ _ h2
  refine ⟨⟨UInt64.ofNat c⟩, C, ?_, ?_, h3, h4⟩
  · unfold F64U.div; rw [h1]; rfl
  · show Rep (UInt64.ofNat c).toNat C
    rw [ofNat_toNat_lt _ hlt]; exact h2

/-- `F64U.mul` by `2^-kk` -/
theorem f_scale (lq : F64U) (C kk : Nat) (dk : UInt64) (hd : fpDecode 52 11 dk.toNat = some (2 ^ 52, -(kk : Int) - 52))
    (h : Rep lq.bits.toNat C) (hC : 2 ^ kk * 2 ^ 1074 ≤ C) (hkk : kk ≤ 100) (hkk1 : 1 ≤ kk) :
    ∃ lq' C', F64U.mul lq ⟨dk⟩ = .ok lq' ∧ Rep lq'.bits.toNat C' ∧ C' * 2 ^ kk = C := by
  obtain ⟨c', C', h1, h2, h3⟩ := fpMul_down _ C dk.toNat kk hd h hC hkk hkk1
  obtain ⟨_, _, _, _, hlt⟩ := rep_decode _ _ h2
  refine ⟨⟨UInt64.ofNat c'⟩, C', ?_, ?_, h3⟩
  · unfold F64U.mul; rw [h1]; rfl
  · show Rep (UInt64.ofNat c').toNat C'
    rw [ofNat_toNat_lt _ hlt]; exact h2

/-- `F64U.toU64` -/
theorem f_trunc (lq : F64U) (C : Nat) (h : Rep lq.bits.toNat C) (hC : C < 2 ^ 64 * 2 ^ 1074) :
    ∃ T, F64U.toU64 lq = .ok T ∧ T.toNat = C / 2 ^ 1074 := by
  refine ⟨_, fpToU64_rep _ C h hC, ?_⟩
  have hpB : 0 < 2 ^ 1074 := Nat.pow_pos (by decide)
  exact ofNat_toNat_lt _ ((Nat.div_lt_iff_lt_mul hpB).2 hC)

/-- **quotient estimate without scaling** (`Q = lq as u64`): between `⌊Lx / Ly⌋` and `(1 + 2^-53 + 2^-110) · Lx / Ly` -/
theorem est_plain (lq : F64U) (C Lx Ly : Nat) (h : Rep lq.bits.toNat C) (hLy : 0 < Ly)
    (hlo : ∀ N j, N < 2 ^ 53 → N * 2 ^ j * Ly ≤ Lx → N * 2 ^ j * 2 ^ 1074 ≤ C)
    (hhi : C * Ly * 2 ^ 110 ≤ (2 ^ 110 + 2 ^ 57 + 1) * (Lx * 2 ^ 1074)) (hup : Lx < 2 ^ 62 * Ly) :
    ∃ T, F64U.toU64 lq = .ok T ∧ (∀ N, N < 2 ^ 53 → N * Ly ≤ Lx → N ≤ T.toNat) ∧
      T.toNat * Ly * 2 ^ 110 ≤ (2 ^ 110 + 2 ^ 57 + 1) * Lx := by
  have hpB : 0 < 2 ^ 1074 := Nat.pow_pos (by decide)
  generalize hB : (2 : Nat) ^ 1074 = B at *
  have hC : C < 2 ^ 64 * B := by
    by_contra hc
    have h1 : 2 ^ 64 * B ≤ C := Nat.le_of_not_lt hc
    have h2 : 2 ^ 64 * B * Ly * 2 ^ 110 ≤ C * Ly * 2 ^ 110 := Nat.mul_le_mul_right _ (Nat.mul_le_mul_right _ h1)
    have h3 : (2 ^ 110 + 2 ^ 57 + 1) * (Lx * B) < (2 ^ 110 + 2 ^ 57 + 1) * (2 ^ 62 * Ly * B) :=
      Nat.mul_lt_mul_of_pos_left (Nat.mul_lt_mul_of_pos_right hup hpB) (by norm_num)
    have e1 : 2 ^ 64 * B * Ly * 2 ^ 110 = 2 ^ 174 * (Ly * B) := by ring
    have e2 : (2 ^ 110 + 2 ^ 57 + 1) * (2 ^ 62 * Ly * B) = (2 ^ 172 + 2 ^ 119 + 2 ^ 62) * (Ly * B) := by ring
    rw [e1] at h2; rw [e2] at h3
    have := lt_of_le_of_lt (le_trans h2 hhi) h3
    generalize Ly * B = Z at *
    omega
  obtain ⟨T, hT, hv⟩ := f_trunc lq C h (by rw [hB]; exact hC)
  rw [hB] at hv
  refine ⟨T, hT, ?_, ?_⟩
  · intro N hN hle
    have := hlo N 0 hN (by rw [Nat.pow_zero, Nat.mul_one]; exact hle)
    rw [Nat.pow_zero, Nat.mul_one] at this
    rw [hv]
    exact (Nat.le_div_iff_mul_le hpB).2 this
  · have h1 : T.toNat * B ≤ C := by rw [hv]; exact Nat.div_mul_le_self C B
    have h2 : T.toNat * B * Ly * 2 ^ 110 ≤ C * Ly * 2 ^ 110 := Nat.mul_le_mul_right _ (Nat.mul_le_mul_right _ h1)
    apply Nat.le_of_mul_le_mul_right _ hpB
    calc T.toNat * Ly * 2 ^ 110 * B = T.toNat * B * Ly * 2 ^ 110 := by ring
      _ ≤ _ := le_trans h2 hhi
      _ = _ := by ring

/-- **quotient estimate with scaling** (`Q = (lq · 2^-kk) as u64`) -/
theorem est_scaled (lq : F64U) (C Lx Ly kk : Nat) (dk : UInt64)
    (hd : fpDecode 52 11 dk.toNat = some (2 ^ 52, -(kk : Int) - 52)) (hkk : kk ≤ 100) (hkk1 : 1 ≤ kk)
    (h : Rep lq.bits.toNat C) (hLy : 0 < Ly)
    (hlo : ∀ N j, N < 2 ^ 53 → N * 2 ^ j * Ly ≤ Lx → N * 2 ^ j * 2 ^ 1074 ≤ C)
    (hhi : C * Ly * 2 ^ 110 ≤ (2 ^ 110 + 2 ^ 57 + 1) * (Lx * 2 ^ 1074))
    (hlow : 2 ^ kk * Ly ≤ Lx) (hup : Lx < 2 ^ 62 * (2 ^ kk * Ly)) :
    ∃ lq' T, F64U.mul lq ⟨dk⟩ = .ok lq' ∧ F64U.toU64 lq' = .ok T ∧
      (∀ N, N < 2 ^ 53 → N * (2 ^ kk * Ly) ≤ Lx → N ≤ T.toNat) ∧
      T.toNat * (2 ^ kk * Ly) * 2 ^ 110 ≤ (2 ^ 110 + 2 ^ 57 + 1) * Lx := by
  have hpk : 0 < 2 ^ kk := Nat.pow_pos (by decide)
  have hC := hlo 1 kk (by norm_num) (by rw [Nat.one_mul]; exact hlow)
  rw [Nat.one_mul] at hC
  obtain ⟨lq', C', h1, h2, h3⟩ := f_scale lq C kk dk hd h hC hkk hkk1
  have hlo' : ∀ N j, N < 2 ^ 53 → N * 2 ^ j * (2 ^ kk * Ly) ≤ Lx → N * 2 ^ j * 2 ^ 1074 ≤ C' := by
    intro N j hN hle
    have := hlo N (j + kk) hN (by rw [Nat.pow_add]; calc N * (2 ^ j * 2 ^ kk) * Ly = N * 2 ^ j * (2 ^ kk * Ly) := by ring
                                                           _ ≤ Lx := hle)
    rw [← h3, Nat.pow_add] at this
    apply Nat.le_of_mul_le_mul_right _ hpk
    calc N * 2 ^ j * 2 ^ 1074 * 2 ^ kk = N * (2 ^ j * 2 ^ kk) * 2 ^ 1074 := by ring
      _ ≤ _ := this
  have hhi' : C' * (2 ^ kk * Ly) * 2 ^ 110 ≤ (2 ^ 110 + 2 ^ 57 + 1) * (Lx * 2 ^ 1074) := by
    rw [← h3] at hhi
    calc C' * (2 ^ kk * Ly) * 2 ^ 110 = C' * 2 ^ kk * Ly * 2 ^ 110 := by ring
      _ ≤ _ := hhi
  obtain ⟨T, hT, a, b⟩ := est_plain lq' C' Lx (2 ^ kk * Ly) h2 (Nat.mul_pos hpk hLy) hlo' hhi' hup
  exact ⟨lq', T, h1, hT, a, b⟩

/-! ## 7. How far `lval` is from the integer -/

/-- two roundings: within a relative `1 / (2^52 − 1)` -/
theorem lval_bounds (c1 c0 : Nat) :
    (2 ^ 52 - 1) * lval c1 c0 ≤ 2 ^ 52 * (c1 * 2 ^ 64 + c0) ∧
    (2 ^ 52 - 2) * (c1 * 2 ^ 64 + c0) ≤ (2 ^ 52 - 1) * lval c1 c0 := by
  have a1 := rn53_le c1; have a2 := rn53_ge c1
  have b1 := rn53_le c0; have b2 := rn53_ge c0
  have s1 := rn53_le (rn53 c1 * 2 ^ 64 + rn53 c0); have s2 := rn53_ge (rn53 c1 * 2 ^ 64 + rn53 c0)
  unfold lval
  generalize rn53 (rn53 c1 * 2 ^ 64 + rn53 c0) = L at *
  generalize rn53 c1 = A at *
  generalize rn53 c0 = B at *
  constructor <;> omega

/-- below 2^53 nothing is rounded -/
theorem lval_exact (c0 : Nat) (h : c0 < 2 ^ 53) : lval 0 c0 = c0 := by
  unfold lval
  rw [rn53_zero, Nat.zero_mul, Nat.zero_add, rn53_small c0 h, rn53_small c0 h]

/-- `lval` vanishes only at zero -/
theorem lval_pos (c1 c0 : Nat) (h : 0 < c1 * 2 ^ 64 + c0) : 0 < lval c1 c0 := by
  have := (lval_bounds c1 c0).2
  rcases Nat.eq_zero_or_pos (lval c1 c0) with h0 | h0
  · rw [h0] at this; omega
  · exact h0

/-! ## 8. The three estimates, on the integers -/

/-- `L` is within a relative `1/(2^52 − 1)` of `X` -/
def Near (L X : Nat) : Prop := (2 ^ 52 - 1) * L ≤ 2 ^ 52 * X ∧ (2 ^ 52 - 2) * X ≤ (2 ^ 52 - 1) * L

/-- what the float computation guarantees about the truncated quotient estimate `T` of `Lx / R` -/
def TEst (T Lx R : Nat) : Prop :=
  (∀ N, N < 2 ^ 53 → N * R ≤ Lx → N ≤ T) ∧ T * R * 2 ^ 110 ≤ (2 ^ 110 + 2 ^ 57 + 1) * Lx

theorem near_lval (c1 c0 : Nat) : Near (lval c1 c0) (c1 * 2 ^ 64 + c0) := lval_bounds c1 c0

/-- lower estimate: if `n·Q ≤ X` (`Q = D·Y` the true divisor, `R = D·Ly` the one the floats see) then `T ≥ n − c` as soon as
`2n ≤ c·2^52` -/
theorem est_lo (T Lx R X Q n c : Nat) (hT : TEst T Lx R) (hX : (2 ^ 52 - 2) * X ≤ (2 ^ 52 - 1) * Lx)
    (hR : (2 ^ 52 - 1) * R ≤ 2 ^ 52 * Q) (hn : n * Q ≤ X) (hc : 2 * n ≤ c * 2 ^ 52) (hcn : c ≤ n) (hn53 : n < 2 ^ 53 + c) :
    n ≤ T + c := by
  obtain ⟨k, rfl⟩ : ∃ k, n = k + c := ⟨n - c, by omega⟩
  have := hT.1 k (by omega) ?_
  · omega
  -- k · R ≤ Lx, after multiplication by 2^52 − 1
  have e52 : (2 : Nat) ^ 52 - 1 = 4503599627370495 := by norm_num
  have e52' : (2 : Nat) ^ 52 - 2 = 4503599627370494 := by norm_num
  rw [e52] at hR hX; rw [e52'] at hX
  apply Nat.le_of_mul_le_mul_left _ (by norm_num : 0 < 4503599627370495)
  have a1 : 4503599627370495 * (k * R) ≤ k * (2 ^ 52 * Q) := by
    calc 4503599627370495 * (k * R) = k * (4503599627370495 * R) := by ring
      _ ≤ k * (2 ^ 52 * Q) := Nat.mul_le_mul_left _ hR
  have a2 : 4503599627370494 * ((k + c) * Q) ≤ 4503599627370494 * X := Nat.mul_le_mul_left _ hn
  have a3 : c * Q * 2 ^ 52 = c * 2 ^ 52 * Q := by ring
  have a4 : 2 * (k + c) * Q ≤ c * 2 ^ 52 * Q := Nat.mul_le_mul_right _ hc
  have e1 : k * (2 ^ 52 * Q) = 2 ^ 52 * (k * Q) := by ring
  have e2 : (k + c) * Q = k * Q + c * Q := by ring
  have e3 : 2 * (k + c) * Q = 2 * (k * Q) + 2 * (c * Q) := by ring
  have e4 : c * 2 ^ 52 * Q = 2 ^ 52 * (c * Q) := by ring
  rw [e1] at a1; rw [e2] at a2; rw [e3, e4] at a4
  generalize k * Q = A at *
  generalize c * Q = B at *
  generalize k * R = Z at *
  omega

/-- upper estimate, divisor seen exactly (`R = Q`) -/
theorem est_hi_exact (T Lx X Q : Nat) (hT : TEst T Lx Q) (hX : (2 ^ 52 - 1) * Lx ≤ 2 ^ 52 * X) :
    T * Q * ((2 ^ 52 - 1) * 2 ^ 110) ≤ (2 ^ 110 + 2 ^ 57 + 1) * 2 ^ 52 * X := by
  have h := hT.2
  have e52 : (2 : Nat) ^ 52 - 1 = 4503599627370495 := by norm_num
  rw [e52] at hX ⊢
  have a1 : 4503599627370495 * (T * Q * 2 ^ 110) ≤ 4503599627370495 * ((2 ^ 110 + 2 ^ 57 + 1) * Lx) :=
    Nat.mul_le_mul_left _ h
  have a2 : (2 ^ 110 + 2 ^ 57 + 1) * (4503599627370495 * Lx) ≤ (2 ^ 110 + 2 ^ 57 + 1) * (2 ^ 52 * X) :=
    Nat.mul_le_mul_left _ hX
  calc T * Q * (4503599627370495 * 2 ^ 110) = 4503599627370495 * (T * Q * 2 ^ 110) := by ring
    _ ≤ 4503599627370495 * ((2 ^ 110 + 2 ^ 57 + 1) * Lx) := a1
    _ = (2 ^ 110 + 2 ^ 57 + 1) * (4503599627370495 * Lx) := by ring
    _ ≤ (2 ^ 110 + 2 ^ 57 + 1) * (2 ^ 52 * X) := a2
    _ = _ := by ring

/-- upper estimate, divisor seen within `1/(2^52 − 1)` -/
theorem est_hi_gen (T Lx R X Q : Nat) (hT : TEst T Lx R) (hX : (2 ^ 52 - 1) * Lx ≤ 2 ^ 52 * X)
    (hR : (2 ^ 52 - 2) * Q ≤ (2 ^ 52 - 1) * R) :
    T * Q * ((2 ^ 52 - 2) * 2 ^ 110) ≤ (2 ^ 110 + 2 ^ 57 + 1) * 2 ^ 52 * X := by
  have h := hT.2
  have e52 : (2 : Nat) ^ 52 - 1 = 4503599627370495 := by norm_num
  have e52' : (2 : Nat) ^ 52 - 2 = 4503599627370494 := by norm_num
  rw [e52] at hX hR; rw [e52'] at hR ⊢
  have a0 : T * (4503599627370494 * Q) ≤ T * (4503599627370495 * R) := Nat.mul_le_mul_left _ hR
  have a1 : 4503599627370495 * (T * R * 2 ^ 110) ≤ 4503599627370495 * ((2 ^ 110 + 2 ^ 57 + 1) * Lx) :=
    Nat.mul_le_mul_left _ h
  have a2 : (2 ^ 110 + 2 ^ 57 + 1) * (4503599627370495 * Lx) ≤ (2 ^ 110 + 2 ^ 57 + 1) * (2 ^ 52 * X) :=
    Nat.mul_le_mul_left _ hX
  calc T * Q * (4503599627370494 * 2 ^ 110) = T * (4503599627370494 * Q) * 2 ^ 110 := by ring
    _ ≤ T * (4503599627370495 * R) * 2 ^ 110 := Nat.mul_le_mul_right _ a0
    _ = 4503599627370495 * (T * R * 2 ^ 110) := by ring
    _ ≤ 4503599627370495 * ((2 ^ 110 + 2 ^ 57 + 1) * Lx) := a1
    _ = (2 ^ 110 + 2 ^ 57 + 1) * (4503599627370495 * Lx) := by ring
    _ ≤ (2 ^ 110 + 2 ^ 57 + 1) * (2 ^ 52 * X) := a2
    _ = _ := by ring

theorem div_bracket (X Q : Nat) (hQ : 0 < Q) : (X / Q) * Q ≤ X ∧ X < (X / Q + 1) * Q := by
  have := Nat.div_add_mod X Q
  have := Nat.mod_lt X hQ
  rw [Nat.add_mul, Nat.one_mul, Nat.mul_comm]
  constructor <;> omega

/-- **stage 1** (`Q ≥ 2^100`, divisor below `2^28`, seen exactly): `T − 4` does not overshoot and leaves less than
`9 · 2^60 · Y` -/
theorem stage1_math (X Y T Lx : Nat) (hY0 : 0 < Y) (hlow : 2 ^ 100 * Y ≤ X) (hup : X < 2 ^ 113 * Y)
    (hN : Near Lx X) (hT : TEst T Lx (2 ^ 60 * Y)) :
    4 ≤ T ∧ (T - 4) * (2 ^ 60 * Y) ≤ X ∧ X < (T - 4) * (2 ^ 60 * Y) + 9 * (2 ^ 60 * Y) := by
  obtain ⟨Q, hQ⟩ : ∃ Q, Q = 2 ^ 60 * Y := ⟨_, rfl⟩
  rw [← hQ] at hT ⊢
  have hQ0 : 0 < Q := by omega
  obtain ⟨b1, b2⟩ := div_bracket X Q hQ0
  generalize X / Q = n at *
  have hn1 : 2 ^ 40 ≤ n := by
    by_contra hc
    have : (n + 1) * Q ≤ 2 ^ 40 * Q := Nat.mul_le_mul_right _ (by omega)
    omega
  have hn2 : n < 2 ^ 53 := by
    by_contra hc
    have : 2 ^ 53 * Q ≤ n * Q := Nat.mul_le_mul_right _ (by omega)
    omega
  have lo := est_lo T Lx Q X Q n 4 hT hN.2 (by omega) b1 (by omega) (by omega) (by omega)
  have hi := est_hi_exact T Lx X Q hT hN.1
  have e52 : (2 : Nat) ^ 52 - 1 = 4503599627370495 := by norm_num
  rw [e52] at hi
  have c1 : (n + 1) * Q ≤ (T + 5) * Q := Nat.mul_le_mul_right _ (by omega)
  obtain ⟨k, rfl⟩ : ∃ k, T = k + 4 := ⟨T - 4, by omega⟩
  simp only [Nat.add_sub_cancel]
  have e1 : (k + 4) * Q = k * Q + 4 * Q := by ring
  have e2 : (k + 4 + 5) * Q = k * Q + 9 * Q := by ring
  rw [e1] at hi; rw [e2] at c1
  generalize k * Q = W at *
  refine ⟨by omega, ?_, by omega⟩
  omega

/-- **stage 2** (`Q > 2^51`, divisor below `2^77`): `T − 1` does not overshoot and leaves less than `3 · 2^49 · Y` -/
theorem stage2_math (X Y T Lx Ly : Nat) (hY0 : 0 < Y) (hlow : 2 ^ 51 * Y < X) (hup : X < 2 ^ 100 * Y) (hX : X < 2 ^ 128)
    (hN : Near Lx X) (hNy : Near Ly Y) (hex : Y < 2 ^ 53 → Ly = Y) (hT : TEst T Lx (2 ^ 49 * Ly)) :
    1 ≤ T ∧ (T - 1) * (2 ^ 49 * Y) ≤ X ∧ X < (T - 1) * (2 ^ 49 * Y) + 3 * (2 ^ 49 * Y) := by
  obtain ⟨Q, hQ⟩ : ∃ Q, Q = 2 ^ 49 * Y := ⟨_, rfl⟩
  rw [← hQ]
  have hQ0 : 0 < Q := by omega
  obtain ⟨b1, b2⟩ := div_bracket X Q hQ0
  generalize X / Q = n at *
  have hn1 : 4 ≤ n := by
    by_contra hc
    have : (n + 1) * Q ≤ 4 * Q := Nat.mul_le_mul_right _ (by omega)
    omega
  have hn2 : n < 2 ^ 51 := by
    by_contra hc
    have : 2 ^ 51 * Q ≤ n * Q := Nat.mul_le_mul_right _ (by omega)
    omega
  have e52 : (2 : Nat) ^ 52 - 1 = 4503599627370495 := by norm_num
  have e52' : (2 : Nat) ^ 52 - 2 = 4503599627370494 := by norm_num
  have hR : (2 ^ 52 - 1) * (2 ^ 49 * Ly) ≤ 2 ^ 52 * Q := by
    have := hNy.1; rw [e52] at this ⊢; omega
  have lo := est_lo T Lx (2 ^ 49 * Ly) X Q n 1 hT hN.2 hR b1 (by omega) (by omega) (by omega)
  have hi : T * Q ≤ X + Q := by
    rcases Nat.lt_or_ge Y (2 ^ 53) with h53 | h53
    · have hLy := hex h53
      rw [hLy, ← hQ] at hT
      have hi := est_hi_exact T Lx X Q hT hN.1
      rw [e52] at hi
      generalize T * Q = W at *
      omega
    · have hR' : (2 ^ 52 - 2) * Q ≤ (2 ^ 52 - 1) * (2 ^ 49 * Ly) := by
        have := hNy.2; rw [e52, e52'] at this ⊢; omega
      have hi := est_hi_gen T Lx (2 ^ 49 * Ly) X Q hT hN.1 hR'
      rw [e52'] at hi
      generalize T * Q = W at *
      omega
  have c1 : (n + 1) * Q ≤ (T + 2) * Q := Nat.mul_le_mul_right _ (by omega)
  obtain ⟨k, rfl⟩ : ∃ k, T = k + 1 := ⟨T - 1, by omega⟩
  simp only [Nat.add_sub_cancel]
  have e1 : (k + 1) * Q = k * Q + Q := by ring
  have e2 : (k + 1 + 2) * Q = k * Q + 3 * Q := by ring
  rw [e1] at hi; rw [e2] at c1
  generalize k * Q = W at *
  refine ⟨by omega, by omega, by omega⟩

/-- **final stage** (quotient at most `2^51`): the truncated estimate is the quotient, or one below, or up to two above -/
theorem stage3_math (X Y T Lx Ly : Nat) (hY0 : 0 < Y) (hup : X ≤ 2 ^ 51 * Y)
    (hN : Near Lx X) (hNy : Near Ly Y) (hT : TEst T Lx Ly) :
    X < (T + 2) * Y ∧ T * Y ≤ X + 2 * Y := by
  obtain ⟨b1, b2⟩ := div_bracket X Y hY0
  generalize X / Y = n at *
  have hn2 : n ≤ 2 ^ 51 := by
    by_contra hc
    have : (2 ^ 51 + 1) * Y ≤ n * Y := Nat.mul_le_mul_right _ (by omega)
    omega
  have e52 : (2 : Nat) ^ 52 - 1 = 4503599627370495 := by norm_num
  have e52' : (2 : Nat) ^ 52 - 2 = 4503599627370494 := by norm_num
  have lo : n ≤ T + 1 := by
    rcases Nat.eq_zero_or_pos n with h0 | h0
    · omega
    · exact est_lo T Lx Ly X Y n 1 hT hN.2 hNy.1 b1 (by omega) (by omega) (by omega)
  have hi := est_hi_gen T Lx Ly X Y hT hN.1 hNy.2
  rw [e52'] at hi
  have c1 : (n + 1) * Y ≤ (T + 2) * Y := Nat.mul_le_mul_right _ (by omega)
  refine ⟨lt_of_lt_of_le b2 c1, ?_⟩
  generalize T * Y = W at *
  omega


open Dec.Gen.Code

/-! ## 9. Word-level facts used by `bid___div_128_by_128` -/

theorem ok_bind {α β ε : Type} (a : α) (f : α → Except ε β) : (Except.ok a >>= f) = f a := rfl

theorem c60 : (0x3c : UInt64).toNat % 64 = 60 := by decide
theorem c4 : (4 : UInt64).toNat % 64 = 4 := by decide
theorem c49 : (0x31 : UInt64).toNat % 64 = 49 := by decide
theorem c15 : (0xf : UInt64).toNat % 64 = 15 := by decide
theorem c51 : (0x33 : UInt64).toNat % 64 = 51 := by decide
theorem c13 : (0xd : UInt64).toNat % 64 = 13 := by decide
theorem c36 : (0x24 : UInt64).toNat % 64 = 36 := by decide
theorem c28 : (0x1c : UInt64).toNat % 64 = 28 := by decide

/-- `A <<= 60` on a word pair -/
theorem shl_pair60 (a0 a1 : UInt64) :
    (⟨a0 <<< 0x3c, (a1 <<< 0x3c) ||| (a0 >>> 4)⟩ : U128).toNat' = ((a0.toNat + 2 ^ 64 * a1.toNat) * 2 ^ 60) % 2 ^ 128 := by
  have h0 := a0.toNat_lt; have h1 := a1.toNat_lt
  unfold U128.toNat'
  simp only [UInt64.toNat_or, UInt64.toNat_shiftLeft, UInt64.toNat_shiftRight, c60, c4, Nat.shiftLeft_eq,
    Nat.shiftRight_eq_div_pow]
  have e : a1.toNat * 2 ^ 60 % 2 ^ 64 = 2 ^ 60 * (a1.toNat % 2 ^ 4) := by omega
  rw [e, Dec.C13PackHelpers.or_eq_add_of_lt 60 _ _ (by omega)]
  omega

/-- `A <<= 49` on a word pair -/
theorem shl_pair49 (a0 a1 : UInt64) :
    (⟨a0 <<< 0x31, (a1 <<< 0x31) ||| (a0 >>> 0xf)⟩ : U128).toNat' = ((a0.toNat + 2 ^ 64 * a1.toNat) * 2 ^ 49) % 2 ^ 128 := by
  have h0 := a0.toNat_lt; have h1 := a1.toNat_lt
  unfold U128.toNat'
  simp only [UInt64.toNat_or, UInt64.toNat_shiftLeft, UInt64.toNat_shiftRight, c49, c15, Nat.shiftLeft_eq,
    Nat.shiftRight_eq_div_pow]
  have e : a1.toNat * 2 ^ 49 % 2 ^ 64 = 2 ^ 49 * (a1.toNat % 2 ^ 15) := by omega
  rw [e, Dec.C13PackHelpers.or_eq_add_of_lt 49 _ _ (by omega)]
  omega

/-- `A <<= 51` on a word pair -/
theorem shl_pair51 (a0 a1 : UInt64) :
    (⟨a0 <<< 0x33, (a1 <<< 0x33) ||| (a0 >>> 0xd)⟩ : U128).toNat' = ((a0.toNat + 2 ^ 64 * a1.toNat) * 2 ^ 51) % 2 ^ 128 := by
  have h0 := a0.toNat_lt; have h1 := a1.toNat_lt
  unfold U128.toNat'
  simp only [UInt64.toNat_or, UInt64.toNat_shiftLeft, UInt64.toNat_shiftRight, c51, c13, Nat.shiftLeft_eq,
    Nat.shiftRight_eq_div_pow]
  have e : a1.toNat * 2 ^ 51 % 2 ^ 64 = 2 ^ 51 * (a1.toNat % 2 ^ 13) := by omega
  rw [e, Dec.C13PackHelpers.or_eq_add_of_lt 51 _ _ (by omega)]
  omega

/-- `Q · 2^60` as a word pair -/
theorem q_pair60 (q : UInt64) : (⟨q <<< 0x3c, q >>> 4⟩ : U128).toNat' = q.toNat * 2 ^ 60 := by
  have h0 := q.toNat_lt
  unfold U128.toNat'
  simp only [UInt64.toNat_shiftLeft, UInt64.toNat_shiftRight, c60, c4, Nat.shiftLeft_eq, Nat.shiftRight_eq_div_pow]
  omega

/-- `Q · 2^49` as a word pair -/
theorem q_pair49 (q : UInt64) : (⟨q <<< 0x31, q >>> 0xf⟩ : U128).toNat' = q.toNat * 2 ^ 49 := by
  have h0 := q.toNat_lt
  unfold U128.toNat'
  simp only [UInt64.toNat_shiftLeft, UInt64.toNat_shiftRight, c49, c15, Nat.shiftLeft_eq, Nat.shiftRight_eq_div_pow]
  omega

/-- `A2 = Q·CY.w[0]; A2.w[1] += Q·CY.w[1]`: the product `Q · CY` modulo `2^128` -/
theorem mul_q_y (q : UInt64) (Y A : U128) (hA : A.toNat' = q.toNat * Y.w0.toNat) :
    (⟨A.w0, A.w1 + q * Y.w1⟩ : U128).toNat' = (q.toNat * Y.toNat') % 2 ^ 128 := by
  have h0 := A.w0.toNat_lt; have h1 := A.w1.toNat_lt
  unfold U128.toNat' at hA ⊢
  simp only [UInt64.toNat_add, UInt64.toNat_mul]
  have e : q.toNat * (Y.w0.toNat + 2 ^ 64 * Y.w1.toNat) = q.toNat * Y.w0.toNat + 2 ^ 64 * (q.toNat * Y.w1.toNat) := by ring
  rw [e, ← hA]
  generalize q.toNat * Y.w1.toNat = P
  omega

/-- the signed test `(w as i64) < 0` is `w ≥ 2^63` -/
theorem sign_test (w : UInt64) : decide (Int64.ofInt (toI w) < 0) = decide (2 ^ 63 ≤ w.toNat) := by
  have hv : (Int64.ofInt (toI w)).toInt = if w.toNat < 2 ^ 63 then (w.toNat : Int) else (w.toNat : Int) - 2 ^ 64 := by
    simp only [toI]
    rw [Int64.toInt_ofInt]
    have := w.toNat_lt
    unfold Int.bmod
    simp only [Int64.size]
    norm_num
    split <;> split <;> omega
  have : Int64.ofInt (toI w) < 0 ↔ 2 ^ 63 ≤ w.toNat := by
    rw [Int64.lt_iff_toInt_lt, hv]
    have : (0 : Int64).toInt = 0 := by decide
    rw [this]
    have := w.toNat_lt
    split <;> omega
  rw [Bool.eq_iff_iff]; simp only [decide_eq_true_eq]; exact this

/-- the sign test on a 128-bit value -/
theorem sign_test128 (A : U128) : decide (Int64.ofInt (toI A.w1) < 0) = decide (2 ^ 127 ≤ A.toNat') := by
  rw [sign_test]
  have := A.w0.toNat_lt
  unfold U128.toNat'
  rw [Bool.eq_iff_iff]; simp only [decide_eq_true_eq]; omega

/-- adding the divisor back, carry by hand -/
theorem add_back (A Y : U128) :
    (⟨A.w0 + Y.w0, (if decide (A.w0 + Y.w0 < Y.w0) = true then A.w1 + 1 else A.w1) + Y.w1⟩ : U128).toNat'
      = (A.toNat' + Y.toNat') % 2 ^ 128 := by
  have h0 := A.w0.toNat_lt; have h1 := A.w1.toNat_lt; have h2 := Y.w0.toNat_lt; have h3 := Y.w1.toNat_lt
  unfold U128.toNat'
  have hc : (A.w0 + Y.w0 < Y.w0) ↔ 2 ^ 64 ≤ A.w0.toNat + Y.w0.toNat := by
    rw [UInt64.lt_iff_toNat_lt, UInt64.toNat_add]; omega
  by_cases h : 2 ^ 64 ≤ A.w0.toNat + Y.w0.toNat
  · rw [if_pos (by rw [decide_eq_true_eq]; exact hc.2 h)]
    simp only [UInt64.toNat_add]
    have : (1 : UInt64).toNat = 1 := rfl
    rw [this]; omega
  · rw [if_neg (by rw [decide_eq_true_eq]; exact fun h' => h (hc.1 h'))]
    simp only [UInt64.toNat_add]
    omega


/-! ## 10. `bid___div_128_by_128` -/

/-- the quotient estimate `lq` is good for the dividend value `Lx` and divisor value `Ly` (as the floats see them) -/
def EstOK (lq : F64U) (Lx Ly : Nat) : Prop :=
  ∃ C, Rep lq.bits.toNat C ∧ (∀ N j, N < 2 ^ 53 → N * 2 ^ j * Ly ≤ Lx → N * 2 ^ j * 2 ^ 1074 ≤ C) ∧
    C * Ly * 2 ^ 110 ≤ (2 ^ 110 + 2 ^ 57 + 1) * (Lx * 2 ^ 1074)

/-- `lx = CX as f64` (two conversions, one exact product, one sum), then `lq = lx / ly` -/
theorem chain_div (CX : U128) (ly : F64U) (Ly : Nat) (hy : Rep ly.bits.toNat (Ly * 2 ^ 1074)) (hLy : 0 < Ly)
    (hLy' : Ly < 2 ^ 130) :
    ∃ P lx lq, F64U.mul (F64U.ofU64 (UInt64.ofInt (toI CX.w1))) (⟨(0x43f0000000000000 : UInt64)⟩ : F64U) = .ok P ∧
      F64U.add P (F64U.ofU64 (UInt64.ofInt (toI CX.w0))) = .ok lx ∧ F64U.div lx ly = .ok lq ∧
      EstOK lq (lval CX.w1.toNat CX.w0.toNat) Ly := by
  obtain ⟨P, lx, h1, h2, hrep⟩ := lx_rep CX.w1 CX.w0
  obtain ⟨lq, C, h3, h4, h5, h6⟩ := f_div lx ly _ Ly hrep hy hLy (lval_lt _ _ CX.w1.toNat_lt CX.w0.toNat_lt) hLy'
  exact ⟨P, lx, lq, h1, h2, h3, C, h4, h5, h6⟩

/-- the common end: add the last quotient chunk, return -/
theorem leaf_close (CQ : U128) (Qf : UInt64) (R : U128) (X0 Yv Xc : Nat) (hY : 0 < Yv)
    (h1 : CQ.toNat' * Yv + Xc = X0) (hX0 : X0 < 2 ^ 128) (h2 : Xc = Qf.toNat * Yv + R.toNat') (h3 : R.toNat' < Yv) :
    ∃ Qr R', (do let r ← add_128_64 CQ Qf; pure (({ w0 := r.w0, w1 := r.w1 } : U128), R)) = Except.ok (Qr, R') ∧
      Qr.toNat' = X0 / Yv ∧ R'.toNat' = X0 % Yv := by
  obtain ⟨r, hr, hv⟩ := Dec.C01GenArith.gen_add_128_64 CQ Qf
  have hdm : X0 / Yv = CQ.toNat' + Qf.toNat ∧ X0 % Yv = R.toNat' := by
    rw [Nat.div_mod_unique hY]
    refine ⟨?_, h3⟩
    rw [← h1, h2]; ring
  have hq : CQ.toNat' + Qf.toNat < 2 ^ 128 := by
    rw [← hdm.1]
    exact lt_of_le_of_lt (Nat.div_le_self _ _) hX0
  refine ⟨r, R, ?_, ?_, hdm.2.symm⟩
  · rw [hr]; rfl
  · rw [hv, Nat.mod_eq_of_lt hq, hdm.1]

theorem sign_test128' (a0 a1 : UInt64) :
    decide (Int64.ofInt (toI a1) < 0) = decide (2 ^ 127 ≤ (⟨a0, a1⟩ : U128).toNat') := sign_test128 ⟨a0, a1⟩

/-- the end of the add-back branch: after the first addition of the divisor (`⟨s0, s1⟩`), possibly a second one -/
theorem neg_tail (CQ Y : U128) (T s0 s1 : UInt64) (X0 Xc W : Nat) (hY0 : 0 < Y.toNat') (hY : Y.toNat' < 2 ^ 126)
    (hinv : CQ.toNat' * Y.toNat' + Xc = X0) (hX0 : X0 < 2 ^ 128) (hW : W = T.toNat * Y.toNat')
    (hm2 : W ≤ Xc + 2 * Y.toNat') (hneg : Xc < W)
    (hs : (⟨s0, s1⟩ : U128).toNat' = (Xc + 2 ^ 128 - W + Y.toNat') % 2 ^ 128) :
    ∃ Qr R,
      (if decide (Int64.ofInt (toI s1) < 0) = true then
        if decide (s0 + Y.w0 < Y.w0) = true then do
          let r ← add_128_64 CQ (T - 1 - 1)
          pure (({ w0 := r.w0, w1 := r.w1 } : U128), ({ w0 := s0 + Y.w0, w1 := s1 + 1 + Y.w1 } : U128))
        else do
          let r ← add_128_64 CQ (T - 1 - 1)
          pure (({ w0 := r.w0, w1 := r.w1 } : U128), ({ w0 := s0 + Y.w0, w1 := s1 + Y.w1 } : U128))
      else do
        let r ← add_128_64 CQ (T - 1)
        pure (({ w0 := r.w0, w1 := r.w1 } : U128), ({ w0 := s0, w1 := s1 } : U128))) = Except.ok (Qr, R) ∧
      Qr.toNat' = X0 / Y.toNat' ∧ R.toNat' = X0 % Y.toNat' := by
  have hT1 : (1 : UInt64).toNat = 1 := rfl
  have hTlt := T.toNat_lt
  have hT0 : 1 ≤ T.toNat := by
    rcases Nat.eq_zero_or_pos T.toNat with h | h
    · rw [h, Nat.zero_mul] at hW; omega
    · exact h
  have hTm1 : (T - 1).toNat = T.toNat - 1 := by rw [UInt64.toNat_sub, hT1]; omega
  have hWm1 : (T.toNat - 1) * Y.toNat' = W - Y.toNat' := by rw [Nat.sub_mul, Nat.one_mul, hW]
  have hW1 : Y.toNat' ≤ W := by rw [hW]; exact Nat.le_mul_of_pos_left _ hT0
  rw [sign_test128' s0 s1]
  rcases Nat.lt_or_ge (Y.toNat') (W - Xc) with hbig | hsmall
  · -- a second addition is needed
    have hneg2 : 2 ^ 127 ≤ (⟨s0, s1⟩ : U128).toNat' := by omega
    have hT2 : 2 ≤ T.toNat := by
      by_contra hc
      have : T.toNat = 1 := by omega
      rw [this, Nat.one_mul] at hW; omega
    have hTm2 : (T - 1 - 1).toNat = T.toNat - 2 := by rw [UInt64.toNat_sub, hTm1, hT1]; omega
    have hWm2 : (T.toNat - 2) * Y.toNat' = W - 2 * Y.toNat' := by rw [Nat.sub_mul, hW]
    have hW2 : 2 * Y.toNat' ≤ W := by rw [hW]; exact Nat.mul_le_mul_right _ hT2
    rw [if_pos (by rw [decide_eq_true_eq]; exact hneg2)]
    have ab := add_back ⟨s0, s1⟩ Y
    by_cases hc : decide (s0 + Y.w0 < Y.w0) = true
    · rw [if_pos hc]
      simp only [hc, if_true] at ab
      refine leaf_close CQ (T - 1 - 1) _ _ _ Xc hY0 hinv hX0 ?_ ?_
      · rw [hTm2, hWm2, ab]; omega
      · rw [ab]; omega
    · rw [if_neg hc]
      simp only [hc, Bool.false_eq_true, if_false] at ab
      refine leaf_close CQ (T - 1 - 1) _ _ _ Xc hY0 hinv hX0 ?_ ?_
      · rw [hTm2, hWm2, ab]; omega
      · rw [ab]; omega
  · have hnn : ¬ 2 ^ 127 ≤ (⟨s0, s1⟩ : U128).toNat' := by omega
    rw [if_neg (by rw [decide_eq_true_eq]; exact hnn)]
    refine leaf_close CQ (T - 1) _ _ _ Xc hY0 hinv hX0 ?_ ?_
    · rw [hTm1, hWm1, hs]; omega
    · rw [hs]; omega

/-- the stage-1 test `CY.w[1] == 0 && CY36.w[1] == 0 && CX.w[1] >= CY36.w[0]`: divisor below `2^28` and quotient at
least `2^100` (roughly) -/
theorem cond1_eval (X Y : U128) :
    (Y.w1 == 0 && Y.w0 >>> 0x1c == 0 && decide (X.w1 ≥ Y.w0 <<< 0x24)) =
      decide (Y.toNat' < 2 ^ 28 ∧ Y.toNat' * 2 ^ 36 ≤ X.w1.toNat) := by
  have h0 := Y.w0.toNat_lt; have h1 := Y.w1.toNat_lt
  rw [Bool.eq_iff_iff]
  simp only [Bool.and_eq_true, beq_iff_eq, decide_eq_true_eq, ← UInt64.toNat_inj, UInt64.toNat_shiftRight,
    UInt64.toNat_shiftLeft, c28, c36, Nat.shiftLeft_eq, Nat.shiftRight_eq_div_pow, ge_iff_le, UInt64.le_iff_toNat_le]
  have z : (0 : UInt64).toNat = 0 := rfl
  rw [z]
  unfold U128.toNat'
  constructor
  · rintro ⟨⟨a, b⟩, c⟩
    have : Y.w0.toNat < 2 ^ 28 := by omega
    rw [Nat.mod_eq_of_lt (by omega)] at c
    omega
  · rintro ⟨a, b⟩
    have : Y.w0.toNat < 2 ^ 28 := by omega
    rw [Nat.mod_eq_of_lt (by omega)]
    omega

theorem c8192 : UInt64.ofInt (toI 8192) = 8192 := by decide

/-- the stage-2 test `CY.w[1] < 2^13 && CX > CY51`: divisor below `2^77` and quotient above `2^51` -/
theorem cond2_eval (CX Y : U128) :
    (if decide (Y.w1 < UInt64.ofInt (toI 8192)) = true then
        unsigned_compare_gt_128 CX ⟨Y.w0 <<< 0x33, Y.w1 <<< 0x33 ||| Y.w0 >>> 0xd⟩ else pure false) =
      Except.ok (decide (Y.toNat' < 2 ^ 77 ∧ Y.toNat' * 2 ^ 51 < CX.toNat')) := by
  have h0 := Y.w0.toNat_lt; have h1 := Y.w1.toNat_lt
  have hv := shl_pair51 Y.w0 Y.w1
  have e8 : (8192 : UInt64).toNat = 2 ^ 13 := by decide
  rw [c8192]
  by_cases h : Y.w1 < 8192
  · have h' : Y.w1.toNat < 2 ^ 13 := by rw [UInt64.lt_iff_toNat_lt, e8] at h; exact h
    rw [if_pos (by rw [decide_eq_true_eq]; exact h), Dec.C01GenArith.gen_unsigned_compare_gt_128]
    apply congrArg Except.ok
    rw [hv, Bool.eq_iff_iff]
    simp only [decide_eq_true_eq]
    unfold U128.toNat'
    have : (Y.w0.toNat + 2 ^ 64 * Y.w1.toNat) * 2 ^ 51 < 2 ^ 128 := by omega
    rw [Nat.mod_eq_of_lt this]
    constructor
    · intro a; exact ⟨by omega, a⟩
    · intro a; exact a.2
  · have h' : 2 ^ 13 ≤ Y.w1.toNat := by rw [UInt64.lt_iff_toNat_lt, e8] at h; omega
    rw [if_neg (by rw [decide_eq_true_eq]; exact h)]
    apply congrArg Except.ok
    symm; rw [decide_eq_false_iff_not]
    unfold U128.toNat'
    omega

set_option maxHeartbeats 1000000 in
theorem div_128_by_128_spec (CX0 CY : U128) (hY0 : 0 < CY.toNat') (hY : CY.toNat' < 2 ^ 126)
    (hXY : CX0.toNat' < 2 ^ 113 * CY.toNat') :
    ∃ Q R, bid___div_128_by_128 CX0 CY = .ok (Q, R) ∧ Q.toNat' = CX0.toNat' / CY.toNat' ∧
      R.toNat' = CX0.toNat' % CY.toNat' := by
  unfold bid___div_128_by_128
  extract_lets
  rename_i X Y dflt dflt64 dfltF pCQ1 pCQ2 pCR1 pCR2 pCR3 CXa CXb t64 CY36a CY36b CY51a CY51b K2 d49 d60
  by_cases hearly : (X.w1 == 0 && Y.w1 == 0) = true
  · rw [if_pos hearly]
    have hz : CX0.w1.toNat = 0 ∧ CY.w1.toNat = 0 := by
      have : (CX0.w1 == 0 && CY.w1 == 0) = true := hearly
      simp only [Bool.and_eq_true, beq_iff_eq, ← UInt64.toNat_inj] at this
      exact this
    have hXv : CX0.toNat' = CX0.w0.toNat := by unfold U128.toNat'; rw [hz.1]; omega
    have hYv : CY.toNat' = CY.w0.toNat := by unfold U128.toNat'; rw [hz.2]; omega
    have h0 := CX0.w0.toNat_lt
    have hy0 : 0 < CY.w0.toNat := by omega
    have hdm := Nat.div_add_mod CX0.w0.toNat CY.w0.toNat
    have hle : CX0.w0.toNat / CY.w0.toNat ≤ CX0.w0.toNat := Nat.div_le_self _ _
    have hmul : CY.w0.toNat * (CX0.w0.toNat / CY.w0.toNat) ≤ CX0.w0.toNat := by omega
    refine ⟨pCQ2, pCR3, rfl, ?_, ?_⟩
    · show (CX0.w0 / CY.w0).toNat + 2 ^ 64 * (0 : UInt64).toNat = _
      rw [UInt64.toNat_div, hXv, hYv]; show _ + 2 ^ 64 * 0 = _; omega
    · show (CX0.w0 - CX0.w0 / CY.w0 * CY.w0).toNat + 2 ^ 64 * (0 : UInt64).toNat = _
      rw [UInt64.toNat_sub, UInt64.toNat_mul, UInt64.toNat_div, hXv, hYv]
      show _ + 2 ^ 64 * 0 = _
      rw [Nat.mul_comm (CX0.w0.toNat / CY.w0.toNat)]
      generalize CY.w0.toNat * (CX0.w0.toNat / CY.w0.toNat) = P at *
      omega
  rw [if_neg hearly]
  -- the divisor as a float
  obtain ⟨Py, ly, g1, g2, hyrep⟩ := lx_rep CY.w1 CY.w0
  obtain ⟨Ly, hLydef⟩ : ∃ Ly, Ly = lval CY.w1.toNat CY.w0.toNat := ⟨_, rfl⟩
  rw [← hLydef] at hyrep
  have hNy : Near Ly CY.toNat' := by
    rw [hLydef]; have := near_lval CY.w1.toNat CY.w0.toNat
    unfold U128.toNat'; rw [Nat.add_comm, Nat.mul_comm]; exact this
  have hLy0 : 0 < Ly := by
    rw [hLydef]; apply lval_pos; unfold U128.toNat' at hY0; omega
  have hLy130 : Ly < 2 ^ 130 := by rw [hLydef]; exact lval_lt _ _ CY.w1.toNat_lt CY.w0.toNat_lt
  have hK2 : ∀ (CQ A2 CX CQT : U128) (Q : UInt64) (d49' lx lq : F64U),
      CQ.toNat' * CY.toNat' + CX.toNat' = CX0.toNat' → CX.toNat' ≤ 2 ^ 51 * CY.toNat' →
      EstOK lq (lval CX.w1.toNat CX.w0.toNat) Ly →
      ∃ Qr R, K2 () CQ A2 CX CQT Q d49' lx lq = .ok (Qr, R) ∧ Qr.toNat' = CX0.toNat' / CY.toNat' ∧
        R.toNat' = CX0.toNat' % CY.toNat' := by
    intro CQ A2 CX CQT Q d49' lx lq hinv hup ⟨C, hrep, hlo, hhi⟩
    have hNx := near_lval CX.w1.toNat CX.w0.toNat
    obtain ⟨Lx, hLx⟩ : ∃ Lx, Lx = lval CX.w1.toNat CX.w0.toNat := ⟨_, rfl⟩
    rw [← hLx] at hNx hlo hhi
    have hXv : CX.w1.toNat * 2 ^ 64 + CX.w0.toNat = CX.toNat' := by unfold U128.toNat'; omega
    rw [hXv] at hNx
    obtain ⟨T, hT, hTlo, hThi⟩ := est_plain lq C Lx Ly hrep hLy0 hlo hhi (by
      have a := hNx.1; have b := hNy.2
      have e52 : (2 : Nat) ^ 52 - 1 = 4503599627370495 := by norm_num
      have e52' : (2 : Nat) ^ 52 - 2 = 4503599627370494 := by norm_num
      rw [e52] at a b; rw [e52'] at b
      omega)
    obtain ⟨hm1, hm2⟩ := stage3_math CX.toNat' CY.toNat' T.toNat Lx Ly hY0 hup hNx hNy ⟨hTlo, hThi⟩
    obtain ⟨A, hA, hAv⟩ := Dec.C01GenArith.gen_mul_64x64_to_128 T CY.w0
    have hA2 := mul_q_y T CY A hAv
    obtain ⟨S, hS, hSv⟩ := Dec.C01GenArith.gen_sub_128_128 CX ⟨A.w0, A.w1 + T * CY.w1⟩
    rw [hA2] at hSv
    have hX0 := Dec.C01GenArith.toNat'_lt128 CX0
    have hXc := Dec.C01GenArith.toNat'_lt128 CX
    have hT51 : T.toNat ≤ 2 ^ 51 + 2 := by
      by_contra hc
      have : (2 ^ 51 + 3) * CY.toNat' ≤ T.toNat * CY.toNat' := Nat.mul_le_mul_right _ (by omega)
      omega
    have hge := Dec.C01GenArith.gen_unsigned_compare_ge_128 S CY
    have hA' : mul_64x64_to_128 T Y.w0 = .ok A := hA
    have hS' : sub_128_128 CX { w0 := A.w0, w1 := A.w1 + T * Y.w1 } = .ok S := hS
    have hge' : unsigned_compare_ge_128 S Y = .ok (decide (S.toNat' ≥ CY.toNat')) := hge
    have ab1 := add_back S CY
    have hT1 : (1 : UInt64).toNat = 1 := rfl
    obtain ⟨W, hW⟩ : ∃ W, W = T.toNat * CY.toNat' := ⟨_, rfl⟩
    rw [← hW] at hSv hm2
    have hm1' : CX.toNat' < W + 2 * CY.toNat' := by rw [hW]; calc CX.toNat' < _ := hm1
                                                          _ = _ := by ring
    simp only [K2]
    rw [hT, ok_bind, hA', ok_bind, hS', ok_bind, sign_test128]
    rcases Nat.lt_or_ge (CX.toNat') W with hneg | hpos
    · -- the estimate was too large: add the divisor back
      have hSneg : 2 ^ 127 ≤ S.toNat' := by omega
      have hT0 : 1 ≤ T.toNat := by
        rcases Nat.eq_zero_or_pos T.toNat with h | h
        · rw [h, Nat.zero_mul] at hW; omega
        · exact h
      have hSv' : S.toNat' = CX.toNat' + 2 ^ 128 - W := by omega
      rw [if_pos (by rw [decide_eq_true_eq]; exact hSneg)]
      by_cases hc : decide (S.w0 + CY.w0 < CY.w0) = true
      · have hc' : decide (S.w0 + Y.w0 < Y.w0) = true := hc
        rw [if_pos hc']
        simp only [hc, if_true] at ab1
        exact neg_tail CQ CY T _ _ _ CX.toNat' W hY0 hY hinv hX0 hW hm2 hneg (by rw [ab1, hSv'])
      · have hc' : ¬ decide (S.w0 + Y.w0 < Y.w0) = true := hc
        rw [if_neg hc']
        simp only [hc, Bool.false_eq_true, if_false] at ab1
        exact neg_tail CQ CY T _ _ _ CX.toNat' W hY0 hY hinv hX0 hW hm2 hneg (by rw [ab1, hSv'])
    · -- the estimate was not too large
      have hSv' : S.toNat' = CX.toNat' - W := by omega
      have hnn : ¬ (2 ^ 127 ≤ S.toNat') := by omega
      rw [if_neg (by rw [decide_eq_true_eq]; exact hnn), hge', ok_bind]
      by_cases hgeY : S.toNat' ≥ CY.toNat'
      · obtain ⟨S2, hS2, hS2v⟩ := Dec.C01GenArith.gen_sub_128_128_exact S CY hgeY
        have hS2' : sub_128_128 S Y = .ok S2 := hS2
        rw [if_pos (by rw [decide_eq_true_eq]; exact hgeY), hS2', ok_bind]
        refine leaf_close CQ (T + 1) _ _ _ CX.toNat' hY0 hinv hX0 ?_ ?_
        · have : (T + 1).toNat = T.toNat + 1 := by rw [UInt64.toNat_add, hT1]; omega
          rw [this, Nat.add_mul, Nat.one_mul, ← hW]
          show CX.toNat' = W + CY.toNat' + S2.toNat'
          omega
        · show S2.toNat' < CY.toNat'
          omega
      · rw [if_neg (by rw [decide_eq_true_eq]; exact hgeY)]
        refine leaf_close CQ T _ _ _ CX.toNat' hY0 hinv hX0 ?_ ?_
        · rw [← hW]; show CX.toNat' = W + S.toNat'; omega
        · show S.toNat' < CY.toNat'; omega
  -- the dividend as a float, the first quotient
  obtain ⟨P0, lx0, lq0, f1, f2, f3, hest0⟩ := chain_div CX0 ly Ly hyrep hLy0 hLy130
  have e2 : (F64U.ofU64 (UInt64.ofInt (toI CXb.w1))).mul t64 = .ok P0 := f1
  rw [e2, ok_bind]
  have e3 : P0.add (F64U.ofU64 (UInt64.ofInt (toI CXb.w0))) = .ok lx0 := f2
  rw [e3, ok_bind]
  have e4 : (F64U.ofU64 (UInt64.ofInt (toI Y.w1))).mul t64 = .ok Py := g1
  rw [e4, ok_bind]
  have e5 : Py.add (F64U.ofU64 (UInt64.ofInt (toI Y.w0))) = .ok ly := g2
  rw [e5, ok_bind]
  extract_lets ly' K1
  have e6 : lx0.div ly' = .ok lq0 := f3
  rw [e6, ok_bind]
  have hK1 : ∀ (CQ A2 CX : U128) (Q : UInt64) (d60' lx lq : F64U),
      CQ.toNat' * CY.toNat' + CX.toNat' = CX0.toNat' → CX.toNat' < 2 ^ 100 * CY.toNat' →
      EstOK lq (lval CX.w1.toNat CX.w0.toNat) Ly →
      ∃ Qr R, K1 () CQ A2 CX Q d60' lx lq = .ok (Qr, R) ∧ Qr.toNat' = CX0.toNat' / CY.toNat' ∧
        R.toNat' = CX0.toNat' % CY.toNat' := by
    intro CQ A2 CX Q d60' lx lq hinv hup ⟨C, hrep, hlo, hhi⟩
    simp only [K1]
    have hc2 : (if decide (Y.w1 < UInt64.ofInt (toI 8192)) = true then unsigned_compare_gt_128 CX CY51b else pure false) =
        Except.ok (decide (CY.toNat' < 2 ^ 77 ∧ CY.toNat' * 2 ^ 51 < CX.toNat')) := cond2_eval CX CY
    rw [hc2, ok_bind]
    have hXc := Dec.C01GenArith.toNat'_lt128 CX
    have hX0 := Dec.C01GenArith.toNat'_lt128 CX0
    have e52 : (2 : Nat) ^ 52 - 1 = 4503599627370495 := by norm_num
    have e52' : (2 : Nat) ^ 52 - 2 = 4503599627370494 := by norm_num
    by_cases hst2 : CY.toNat' < 2 ^ 77 ∧ CY.toNat' * 2 ^ 51 < CX.toNat'
    · rw [if_pos (by rw [decide_eq_true_eq]; exact hst2)]
      obtain ⟨hy77, hx51⟩ := hst2
      have hNx := near_lval CX.w1.toNat CX.w0.toNat
      obtain ⟨Lx, hLx⟩ : ∃ Lx, Lx = lval CX.w1.toNat CX.w0.toNat := ⟨_, rfl⟩
      rw [← hLx] at hNx hlo hhi
      have hXv : CX.w1.toNat * 2 ^ 64 + CX.w0.toNat = CX.toNat' := by unfold U128.toNat'; omega
      rw [hXv] at hNx
      have hex : CY.toNat' < 2 ^ 53 → Ly = CY.toNat' := by
        intro h
        have hYw1 : CY.w1.toNat = 0 := by unfold U128.toNat' at h; omega
        have hYv : CY.toNat' = CY.w0.toNat := by unfold U128.toNat'; rw [hYw1]; omega
        rw [hLydef, hYw1, hYv]; exact lval_exact _ (by omega)
      have hd49 : fpDecode 52 11 (4386506037058863104 : UInt64).toNat = some (2 ^ 52, -((49 : Nat) : Int) - 52) := decode_d49
      obtain ⟨lq', T, hmul, hT, hTE⟩ := est_scaled lq C Lx Ly 49 4386506037058863104 hd49 (by norm_num) (by norm_num)
        hrep hLy0 hlo hhi (by
          have a := hNx.2; have b := hNy.1; rw [e52, e52'] at a; rw [e52] at b; omega) (by
          have a := hNx.1; have b := hNy.2; rw [e52] at a; rw [e52, e52'] at b; omega)
      obtain ⟨m1, m2, m3⟩ := stage2_math CX.toNat' CY.toNat' T.toNat Lx Ly hY0 (by omega) hup hXc hNx hNy hex hTE
      have hmul' : lq.mul d49 = .ok lq' := hmul
      rw [hmul', ok_bind, hT, ok_bind]
      have hQv : (T - 1).toNat = T.toNat - 1 := by
        have h1 : (1 : UInt64).toNat = 1 := rfl
        have := T.toNat_lt
        rw [UInt64.toNat_sub, h1]; omega
      obtain ⟨A, hA, hAv⟩ := Dec.C01GenArith.gen_mul_64x64_to_128 (T - 1) CY.w0
      have hA' : mul_64x64_to_128 (T - 1) Y.w0 = .ok A := hA
      rw [hA', ok_bind]
      have hA2 := mul_q_y (T - 1) CY A hAv
      rw [hQv] at hA2
      obtain ⟨W, hW⟩ : ∃ W, W = (T.toNat - 1) * (2 ^ 49 * CY.toNat') := ⟨_, rfl⟩
      rw [← hW] at m2 m3
      have hW' : (T.toNat - 1) * CY.toNat' * 2 ^ 49 = W := by rw [hW]; ring
      have hQY : (T.toNat - 1) * CY.toNat' < 2 ^ 128 := by
        have : (T.toNat - 1) * CY.toNat' ≤ (T.toNat - 1) * CY.toNat' * 2 ^ 49 := Nat.le_mul_of_pos_right _ (by norm_num)
        omega
      rw [Nat.mod_eq_of_lt hQY] at hA2
      have hA3 := shl_pair49 A.w0 (A.w1 + (T - 1) * CY.w1)
      have hA2' : A.w0.toNat + 2 ^ 64 * (A.w1 + (T - 1) * CY.w1).toNat = (T.toNat - 1) * CY.toNat' := hA2
      rw [hA2', hW', Nat.mod_eq_of_lt (by omega)] at hA3
      obtain ⟨S, hS, hSv⟩ := Dec.C01GenArith.gen_sub_128_128_exact CX
        ⟨A.w0 <<< 0x31, (A.w1 + (T - 1) * CY.w1) <<< 0x31 ||| A.w0 >>> 0xf⟩ (by rw [hA3]; exact m2)
      have hS' : sub_128_128 CX { w0 := A.w0 <<< 49, w1 := (A.w1 + (T - 1) * Y.w1) <<< 49 ||| A.w0 >>> 15 } = .ok S := hS
      rw [hS', ok_bind]
      rw [hA3] at hSv
      have hqp := q_pair49 (T - 1)
      rw [hQv] at hqp
      have hfit : CQ.toNat' + (T.toNat - 1) * 2 ^ 49 < 2 ^ 128 := by
        have a : (CQ.toNat' + (T.toNat - 1) * 2 ^ 49) * 1 ≤ (CQ.toNat' + (T.toNat - 1) * 2 ^ 49) * CY.toNat' :=
          Nat.mul_le_mul_left _ hY0
        have b : (CQ.toNat' + (T.toNat - 1) * 2 ^ 49) * CY.toNat' = CQ.toNat' * CY.toNat' + W := by rw [hW]; ring
        omega
      obtain ⟨CQn, hCQn, hCQv⟩ := Dec.C01GenArith.gen_add_128_128_exact CQ ⟨(T - 1) <<< 0x31, (T - 1) >>> 0xf⟩
        (by rw [hqp]; exact hfit)
      have hCQn' : add_128_128 CQ { w0 := (T - 1) <<< 49, w1 := (T - 1) >>> 15 } = .ok CQn := hCQn
      rw [hCQn', ok_bind]
      rw [hqp] at hCQv
      obtain ⟨P1, lx1, lq1, k1, k2, k3, hest1⟩ := chain_div S ly Ly hyrep hLy0 hLy130
      have k1' : (F64U.ofU64 (UInt64.ofInt (toI S.w1))).mul t64 = .ok P1 := k1
      have k3' : lx1.div ly' = .ok lq1 := k3
      rw [k1', ok_bind, k2, ok_bind, k3', ok_bind]
      refine hK2 CQn { w0 := A.w0 <<< 49, w1 := (A.w1 + (T - 1) * Y.w1) <<< 49 ||| A.w0 >>> 15 } S
        { w0 := (T - 1) <<< 49, w1 := (T - 1) >>> 15 } (T - 1) d49 lx1 lq1 ?_ ?_ hest1
      · rw [hCQv, hSv, ← hinv]
        have b : (CQ.toNat' + (T.toNat - 1) * 2 ^ 49) * CY.toNat' = CQ.toNat' * CY.toNat' + W := by rw [hW]; ring
        rw [b]; omega
      · rw [hSv]; omega
    · rw [if_neg (by rw [decide_eq_true_eq]; exact hst2)]
      refine hK2 CQ A2 CX dflt Q dfltF lx lq hinv ?_ ⟨C, hrep, hlo, hhi⟩
      rcases Nat.lt_or_ge CY.toNat' (2 ^ 77) with h77 | h77
      · have : ¬ (CY.toNat' * 2 ^ 51 < CX.toNat') := fun h => hst2 ⟨h77, h⟩
        omega
      · omega
  simp only []
  have hXv : CXb.toNat' = CX0.toNat' := rfl
  have hNx0 : Near (lval CX0.w1.toNat CX0.w0.toNat) CX0.toNat' := by
    have := near_lval CX0.w1.toNat CX0.w0.toNat
    unfold U128.toNat'; rw [Nat.add_comm, Nat.mul_comm]; exact this
  have hX128 := Dec.C01GenArith.toNat'_lt128 CX0
  have e52 : (2 : Nat) ^ 52 - 1 = 4503599627370495 := by norm_num
  have e52' : (2 : Nat) ^ 52 - 2 = 4503599627370494 := by norm_num
  have hc1 : (Y.w1 == 0 && CY36b.w1 == 0 && decide (CXb.w1 ≥ CY36b.w0)) =
      decide (CY.toNat' < 2 ^ 28 ∧ CY.toNat' * 2 ^ 36 ≤ CX0.w1.toNat) := cond1_eval CX0 CY
  rw [hc1]
  by_cases hst1 : CY.toNat' < 2 ^ 28 ∧ CY.toNat' * 2 ^ 36 ≤ CX0.w1.toNat
  · rw [if_pos (by rw [decide_eq_true_eq]; exact hst1)]
    obtain ⟨hy28, hx36⟩ := hst1
    have hYw1 : CY.w1.toNat = 0 := by unfold U128.toNat' at hy28; omega
    have hYv : CY.toNat' = CY.w0.toNat := by unfold U128.toNat'; rw [hYw1]; omega
    have hLyY : Ly = CY.toNat' := by
      rw [hLydef, hYw1, hYv]; exact lval_exact _ (by omega)
    have hlow : 2 ^ 100 * CY.toNat' ≤ CX0.toNat' := by
      have := CX0.w0.toNat_lt
      have : CX0.toNat' = CX0.w0.toNat + 2 ^ 64 * CX0.w1.toNat := rfl
      omega
    obtain ⟨C0, hrep0, hlo0, hhi0⟩ := hest0
    obtain ⟨Lx0, hLx0⟩ : ∃ Lx0, Lx0 = lval CX0.w1.toNat CX0.w0.toNat := ⟨_, rfl⟩
    rw [← hLx0] at hNx0 hlo0 hhi0
    have hd60 : fpDecode 52 11 (4336966441157787648 : UInt64).toNat = some (2 ^ 52, -((60 : Nat) : Int) - 52) := decode_d60
    obtain ⟨lq', T, hmul, hT, hTE⟩ := est_scaled lq0 C0 Lx0 Ly 60 4336966441157787648 hd60 (by norm_num) (by norm_num)
      hrep0 hLy0 hlo0 hhi0 (by
        have a := hNx0.2; rw [e52, e52'] at a; rw [hLyY]; omega) (by
        have a := hNx0.1; rw [e52] at a; rw [hLyY]; omega)
    rw [hLyY] at hTE
    obtain ⟨m1, m2, m3⟩ := stage1_math CX0.toNat' CY.toNat' T.toNat Lx0 hY0 hlow hXY hNx0 hTE
    have hmul' : lq0.mul d60 = .ok lq' := hmul
    rw [hmul', ok_bind, hT, ok_bind]
    have hQv : (T - 4).toNat = T.toNat - 4 := by
      have : (4 : UInt64).toNat = 4 := rfl
      have := T.toNat_lt
      rw [UInt64.toNat_sub, ‹(4 : UInt64).toNat = 4›]; omega
    obtain ⟨A, hA, hAv⟩ := Dec.C01GenArith.gen_mul_64x64_to_128 (T - 4) CY.w0
    have hA' : mul_64x64_to_128 (T - 4) Y.w0 = .ok A := hA
    rw [hA', ok_bind]
    rw [hQv, ← hYv] at hAv
    have hA2v := shl_pair60 A.w0 A.w1
    have hAv' : A.w0.toNat + 2 ^ 64 * A.w1.toNat = (T.toNat - 4) * CY.toNat' := hAv
    rw [hAv'] at hA2v
    have hprod : (T.toNat - 4) * CY.toNat' * 2 ^ 60 = (T.toNat - 4) * (2 ^ 60 * CY.toNat') := by ring
    rw [hprod] at hA2v
    obtain ⟨W, hW⟩ : ∃ W, W = (T.toNat - 4) * (2 ^ 60 * CY.toNat') := ⟨_, rfl⟩
    rw [← hW] at hA2v m2 m3
    rw [Nat.mod_eq_of_lt (by omega)] at hA2v
    obtain ⟨S, hS, hSv⟩ := Dec.C01GenArith.gen_sub_128_128_exact CXb ⟨A.w0 <<< 60, A.w1 <<< 60 ||| A.w0 >>> 4⟩
      (by rw [hXv]; show (⟨A.w0 <<< 0x3c, (A.w1 <<< 0x3c) ||| (A.w0 >>> 4)⟩ : U128).toNat' ≤ _; rw [hA2v]; exact m2)
    rw [hS, ok_bind]
    have hSv' : S.toNat' = CX0.toNat' - W := by
      rw [hSv, hXv]; show _ - (⟨A.w0 <<< 0x3c, (A.w1 <<< 0x3c) ||| (A.w0 >>> 4)⟩ : U128).toNat' = _; rw [hA2v]
    obtain ⟨P1, lx1, lq1, k1, k2, k3, hest1⟩ := chain_div S ly Ly hyrep hLy0 hLy130
    have k1' : (F64U.ofU64 (UInt64.ofInt (toI S.w1))).mul t64 = .ok P1 := k1
    have k3' : lx1.div ly' = .ok lq1 := k3
    rw [k1', ok_bind, k2, ok_bind, k3', ok_bind]
    refine hK1 ⟨(T - 4) <<< 0x3c, (T - 4) >>> 4⟩ ⟨A.w0 <<< 0x3c, A.w1 <<< 0x3c ||| A.w0 >>> 4⟩ S (T - 4) d60 lx1 lq1 ?_ ?_ hest1
    · have := q_pair60 (T - 4)
      show (⟨(T - 4) <<< 0x3c, (T - 4) >>> 4⟩ : U128).toNat' * CY.toNat' + S.toNat' = CX0.toNat'
      rw [this, hQv, hSv']
      have : (T.toNat - 4) * 2 ^ 60 * CY.toNat' = W := by rw [hW]; ring
      rw [this]; omega
    · rw [hSv']; omega
  · rw [if_neg (by rw [decide_eq_true_eq]; exact hst1)]
    refine hK1 pCR2 dflt CXb dflt64 dfltF lx0 lq0 ?_ ?_ hest0
    · show (0 + 2 ^ 64 * 0) * CY.toNat' + CX0.toNat' = CX0.toNat'
      omega
    · rw [hXv]
      rcases Nat.lt_or_ge CY.toNat' (2 ^ 28) with h28 | h28
      · have : ¬ (CY.toNat' * 2 ^ 36 ≤ CX0.w1.toNat) := fun h => hst1 ⟨h28, h⟩
        have := CX0.w0.toNat_lt
        have : CX0.toNat' = CX0.w0.toNat + 2 ^ 64 * CX0.w1.toNat := rfl
        omega
      · omega

open Dec.C11GenLogb (fb rn24)

/-- **`bid___div_128_by_128` is exact on the callers' domain** (alias of `div_128_by_128_spec`, in the form that discharges
a `DivExact` hypothesis): divisor `0 < Y < 2^126`, quotient below `2^113` -/
theorem div_128_by_128_exact (CX CY : U128) (hY : 0 < CY.toNat') (hdom : CY.toNat' < 2 ^ 126 ∧ CX.toNat' < 2 ^ 113 * CY.toNat') :
    ∃ Q R, bid___div_128_by_128 CX CY = .ok (Q, R) ∧ Q.toNat' = CX.toNat' / CY.toNat' ∧
      R.toNat' = CX.toNat' % CY.toNat' :=
  div_128_by_128_spec CX CY hY hdom.1 hdom.2

-- 10^33 + 7 divided by 3: through the float path (dividend above 2^64)
example : bid___div_128_by_128 ⟨0x38c15b0a00000007, 0x314dc6448d93⟩ ⟨3, 0⟩
    = .ok (⟨13661046060852008279, 18070036208091⟩, ⟨2, 0⟩) := by decide +kernel
-- both below 2^64: the early exit
example : bid___div_128_by_128 ⟨1000, 0⟩ ⟨7, 0⟩ = .ok (⟨142, 0⟩, ⟨6, 0⟩) := by decide +kernel

/-! ## 11. The digit count inside the scaling loops of `bid128_fmod` / `bid128_rem` -/

/-- the index `bin_expon_cx as usize` when the exponent goes through an `i32` first -/
theorem idx32_toNat (S : Nat) (hS : 0 < S) (hX : Nat.log2 (rn24 S) ≤ 126) :
    (UInt64.ofInt (toI (Int32.ofInt (toI (((UInt32.ofNat (fb S)) >>> 23 &&& 255) - 127))))).toNat = Nat.log2 (rn24 S) := by
  have h := Dec.C11GenLogb.idx_toNat S hS hX
  generalize (((UInt32.ofNat (fb S)) >>> 23 &&& 255) - 127) = u at h ⊢
  have hu : u.toNat = Nat.log2 (rn24 S) := by
    rw [Dec.C13GenPack.toNat_ofInt] at h
    simp only [toI, PackH.wordOfI32] at h
    have := u.toNat_lt; omega
  rw [Dec.C13GenPack.toNat_ofInt]
  simp only [toI, PackH.wordOfI32]
  rw [Int32.toInt_ofInt_of_le (by omega) (by omega)]
  omega

/-- **the digit count of the loops**: for a coefficient `0 < C < 10^34` the `f32` chain succeeds, both table reads are
in range, and the estimate plus the result of the comparison is the number of decimal digits of `C` -/
theorem digits_block (CX : U128) (hC0 : 0 < CX.toNat') (hC : CX.toNat' < 10 ^ 34) :
    ∃ (Pm fx : F32U) (d : Int32) (T : U128) (b : Bool),
      F32U.mul (F32U.ofU64 (UInt64.ofInt (toI CX.w1))) (⟨(0x5f800000 : UInt32)⟩ : F32U) = .ok Pm ∧
      F32U.add Pm (F32U.ofU64 (UInt64.ofInt (toI CX.w0))) = .ok fx ∧
      tblI32 Dec.Gen.BID_ESTIMATE_DECIMAL_DIGITS
        (UInt64.ofInt (toI (Int32.ofInt (toI ((fx.bits >>> 23 &&& 255) - 127))))) = .ok d ∧
      tbl128 Dec.Gen.BID_POWER10_INDEX_BINEXP_128
        (UInt64.ofInt (toI (Int32.ofInt (toI ((fx.bits >>> 23 &&& 255) - 127))))) = .ok T ∧
      (if decide (Int64.ofInt (toI (CX.w1 - T.w1)) > 0) = true then (pure true : Except String Bool)
        else if (Int64.ofInt (toI (CX.w1 - T.w1)) == 0) = true then pure (decide (CX.w0 ≥ T.w0)) else pure false) = .ok b ∧
      d.toInt + (if b then 1 else 0) = (ndigits CX.toNat' : Int) := by
  have hb : CX.toNat' = CX.w1.toNat * 2 ^ 64 + CX.w0.toNat := by unfold U128.toNat'; omega
  rw [hb] at hC0 hC ⊢
  have hc1 : CX.w1.toNat < 2 ^ 60 := by
    have : (10 : Nat) ^ 34 < 2 ^ 113 := by norm_num
    omega
  obtain ⟨Pm, hmul, hadd⟩ := Dec.C11GenLogb.fx_bits CX.w1 CX.w0 hc1 (by omega)
  obtain ⟨hX, hdig⟩ := Dec.C11GenLogb.est_digits CX.w1.toNat CX.w0.toNat CX.w0.toNat_lt hC0 hC
  have hSpos : 0 < rn24 CX.w1.toNat * 2 ^ 64 + rn24 CX.w0.toNat := by
    rcases Nat.eq_zero_or_pos CX.w1.toNat with h1 | h1
    · have h0 : 0 < CX.w0.toNat := by omega
      have h2 := (Dec.C11GenLogb.rn24_binade _ h0).1
      have h3 := Nat.pow_pos (n := Nat.log2 CX.w0.toNat) (by decide : 0 < 2)
      exact Nat.add_pos_right _ (Nat.lt_of_lt_of_le h3 h2)
    · have := (Dec.C11GenLogb.rn24_binade _ h1).1
      have := Nat.pow_pos (n := Nat.log2 CX.w1.toNat) (by decide : 0 < 2)
      have hp : 0 < rn24 CX.w1.toNat := by omega
      exact Nat.add_pos_left (Nat.mul_pos hp (by norm_num)) _
  obtain ⟨S, hS⟩ : ∃ S, S = rn24 CX.w1.toNat * 2 ^ 64 + rn24 CX.w0.toNat := ⟨_, rfl⟩
  rw [← hS] at hadd hX hdig hSpos
  have hidx := idx32_toNat S hSpos (by omega)
  generalize hI : UInt64.ofInt (toI (Int32.ofInt (toI (((UInt32.ofNat (fb S)) >>> 23 &&& 255) - 127)))) = I at hidx
  obtain ⟨d, hd, hdv⟩ := Dec.C11GenLogb.est_read I (by omega)
  obtain ⟨T, hT, hTv, hT1⟩ := Dec.C11GenLogb.p10_read I (by omega)
  have hco1 : CX.w1.toNat < 2 ^ 63 := by omega
  obtain ⟨t1, t2⟩ := Dec.C11GenLogb.d_tests CX.w1 T.w1 hco1 hT1
  rw [hidx] at hdv hTv
  unfold Dec.TableFacts.estDigitsAt at hdig
  rw [← hTv] at hdig
  have hge : (CX.w1.toNat * 2 ^ 64 + CX.w0.toNat ≥ T.w1.toNat * 2 ^ 64 + T.w0.toNat) ↔
      (CX.w1.toNat > T.w1.toNat ∨ (CX.w1.toNat = T.w1.toNat ∧ T.w0.toNat ≤ CX.w0.toNat)) := by
    have := CX.w0.toNat_lt; have := T.w0.toNat_lt
    omega
  refine ⟨Pm, _, d, T, decide (CX.w1.toNat * 2 ^ 64 + CX.w0.toNat ≥ T.w1.toNat * 2 ^ 64 + T.w0.toNat), hmul, hadd, ?_, ?_, ?_, ?_⟩
  · show tblI32 _ (UInt64.ofInt (toI (Int32.ofInt (toI (((UInt32.ofNat (fb S)) >>> 23 &&& 255) - 127))))) = _
    rw [hI]; exact hd
  · show tbl128 _ (UInt64.ofInt (toI (Int32.ofInt (toI (((UInt32.ofNat (fb S)) >>> 23 &&& 255) - 127))))) = _
    rw [hI]; exact hT
  · rw [t1, t2]
    simp only [ge_iff_le, UInt64.le_iff_toNat_le]
    by_cases hg : CX.w1.toNat > T.w1.toNat
    · rw [if_pos (by rw [decide_eq_true_eq]; exact hg)]
      apply congrArg Except.ok; symm; rw [decide_eq_true_eq]; exact hge.2 (Or.inl hg)
    · rw [if_neg (by rw [decide_eq_true_eq]; exact hg)]
      by_cases he : CX.w1.toNat = T.w1.toNat
      · rw [if_pos (by rw [decide_eq_true_eq]; exact he)]
        apply congrArg Except.ok
        rw [Bool.eq_iff_iff]; simp only [decide_eq_true_eq]
        constructor
        · intro hl; exact hge.2 (Or.inr ⟨he, hl⟩)
        · intro h; rcases hge.1 h with h' | h'
          · omega
          · exact h'.2
      · rw [if_neg (by rw [decide_eq_true_eq]; exact he)]
        apply congrArg Except.ok; symm; rw [decide_eq_false_iff_not]
        intro h; rcases hge.1 h with h' | h' <;> omega
  · rw [hdv]
    by_cases hg : CX.w1.toNat * 2 ^ 64 + CX.w0.toNat ≥ T.w1.toNat * 2 ^ 64 + T.w0.toNat
    · rw [if_pos hg] at hdig
      simp only [hg, decide_true, if_true]
      omega
    · rw [if_neg hg] at hdig
      simp only [hg, decide_false, Bool.false_eq_true, if_false]
      omega

/-! ## 12. A fuel loop with an invariant and a decreasing measure -/

theorem forIn_list_measure {σ α} (f : α → σ → Except String (ForInStep σ)) (Inv Post : σ → Prop) (μ : σ → Nat)
    (hstep : ∀ i s, Inv s → (∃ s', f i s = .ok (.done s') ∧ Post s') ∨
      (∃ s', f i s = .ok (.yield s') ∧ Inv s' ∧ μ s' < μ s)) :
    ∀ (l : List α) (s : σ), Inv s → μ s < l.length → ∃ s', forIn l s f = .ok s' ∧ Post s' := by
  intro l
  induction l with
  | nil => intro s _ h; simp at h
  | cons a t ih =>
    intro s hs hμ
    rw [List.forIn_cons]
    rcases hstep a s hs with ⟨s', h1, h2⟩ | ⟨s', h1, h2, h3⟩
    · rw [h1]; exact ⟨s', rfl, h2⟩
    · rw [h1]
      have : μ s' < t.length := by simp only [List.length_cons] at hμ; omega
      exact ih s' h2 this

/-- `for _ in [0:n]` standing for a `while` with early exits: if every turn from a state satisfying the invariant either
finishes in a state satisfying `Post` or continues to a state satisfying the invariant with a smaller measure, and the
measure of the start is below the fuel, the loop finishes in a state satisfying `Post` -/
theorem forIn_range_measure {σ} (n : Nat) (f : Nat → σ → Except String (ForInStep σ)) (Inv Post : σ → Prop) (μ : σ → Nat)
    (hstep : ∀ i s, Inv s → (∃ s', f i s = .ok (.done s') ∧ Post s') ∨
      (∃ s', f i s = .ok (.yield s') ∧ Inv s' ∧ μ s' < μ s))
    (s : σ) (hs : Inv s) (hμ : μ s < n) : ∃ s', forIn [:n] s f = .ok s' ∧ Post s' := by
  rw [Std.Legacy.Range.forIn_eq_forIn_range']
  apply forIn_list_measure f Inv Post μ hstep _ s hs
  simp [Std.Legacy.Range.size]
  exact hμ



/-! ## 13. `bid128_fmod`, finite non-zero operands -/

theorem pow10_all : (List.range 39).all (fun j =>
    match tbl128 Dec.Gen.BID_POWER10_TABLE_128 (UInt64.ofNat j) with
    | .ok v => decide (v.toNat' = 10 ^ j)
    | .error _ => false) = true := by
  decide +kernel

/-- `BID_POWER10_TABLE_128[k]` for an `i32` index `0 ≤ k ≤ 38` is `10^k` -/
theorem pow10_get (k : Int32) (h0 : 0 ≤ k.toInt) (h1 : k.toInt ≤ 38) :
    ∃ T, tbl128 Dec.Gen.BID_POWER10_TABLE_128 (UInt64.ofInt (toI k)) = .ok T ∧ T.toNat' = 10 ^ k.toInt.toNat := by
  have hj : k.toInt.toNat < 39 := by omega
  have h := List.all_eq_true.1 pow10_all k.toInt.toNat (List.mem_range.2 hj)
  have hi : UInt64.ofInt (toI k) = UInt64.ofNat k.toInt.toNat := by
    rw [← UInt64.toNat_inj, Dec.C13GenPack.ofInt_nonneg k h0, UInt64.toNat_ofNat']
    exact (Nat.mod_eq_of_lt (by omega)).symm
  rw [hi]
  cases ht : tbl128 Dec.Gen.BID_POWER10_TABLE_128 (UInt64.ofNat k.toInt.toNat) with
  | error e => rw [ht] at h; exact absurd h (by simp)
  | ok v => rw [ht] at h; exact ⟨v, rfl, by simpa using h⟩

/-- a pattern that decodes to a finite number with a non-zero coefficient is its own canonical encoding -/
theorem nz_canon (b : Nat) (hb : b < 2 ^ 128) (s : Bool) (c : Nat) (e : Int) (hd : decode b = .fin s c e) (hc : c ≠ 0) :
    encode (.fin s c e) = b := by
  unfold decode at hd
  simp only at hd
  split at hd
  · split at hd <;> exact Datum.noConfusion hd
  · split at hd
    · simp only [Datum.fin.injEq] at hd; exact absurd hd.2.1.symm hc
    · simp only [Datum.fin.injEq] at hd
      obtain ⟨h1, h2, h3⟩ := hd
      split at h2
      · rename_i hlt
        subst h1 h2 h3
        simp only [encode, signBit]
        have : (((b / 2 ^ 113 % 2 ^ 14 : Nat) : Int) - 6176 + 6176).toNat = b / 2 ^ 113 % 2 ^ 14 := by omega
        rw [this]
        by_cases hs : b / 2 ^ 127 % 2 = 1
        · simp only [hs, beq_self_eq_true, if_true]; omega
        · have : (b / 2 ^ 127 % 2 == 1) = false := by rw [beq_eq_false_iff_ne]; exact hs
          simp only [this, Bool.false_eq_true, if_false]; omega
      · exact absurd h2.symm hc


/-- the state of the scaling loop: `(early result, CX, T, CXS, res, D, fx, diff_expon, bin_expon_cx, scale)` -/
abbrev LSt := Option (U128 × UInt32) × U128 × U128 × U128 × U128 × Int64 × F32U × Int32 × Int32 × Int32

theorem forIn_bind_measure {σ β : Type} (n : Nat) (f : Nat → σ → Except String (ForInStep σ)) (Inv Post : σ → Prop) (μ : σ → Nat)
    (s : σ) (K : σ → Except String β) (Q : β → Prop) (hs : Inv s) (hμ : μ s < n)
    (hstep : ∀ i s, Inv s → (∃ s', f i s = .ok (.done s') ∧ Post s') ∨
      (∃ s', f i s = .ok (.yield s') ∧ Inv s' ∧ μ s' < μ s))
    (hK : ∀ s', Post s' → ∃ r, K s' = .ok r ∧ Q r) : ∃ r, (forIn [:n] s f >>= K) = .ok r ∧ Q r := by
  obtain ⟨s', h1, h2⟩ := forIn_range_measure n f Inv Post μ hstep s hs hμ
  rw [h1, ok_bind]
  exact hK s' h2

theorem exists_pair_of {X : Except String (U128 × UInt32)} {f : UInt32} {P : U128 → Prop}
    (h : ∃ r, X = .ok r ∧ (r.2 = f ∧ P r.1)) : ∃ res, X = .ok (res, f) ∧ P res := by
  obtain ⟨⟨a, b⟩, h1, h2, h3⟩ := h
  simp only at h2 h3
  subst h2
  exact ⟨a, h1, h3⟩

/-- the second half of one turn of the loop: scale by `10^scale`, divide, test the remainder -/
theorem iter_tail (CX cy : U128) (sx : UInt64) (ey : Int32) (f : UInt32) (res : U128) (D : Int64) (fx : F32U)
    (be diff' scale' : Int32) (hs0 : 0 ≤ scale'.toInt) (hs1 : scale'.toInt ≤ 38)
    (hcy0 : 0 < cy.toNat') (hcy : cy.toNat' < 10 ^ 34)
    (hb1 : CX.toNat' * 10 ^ scale'.toInt.toNat < 2 ^ 113 * cy.toNat')
    (hb2 : CX.toNat' * 10 ^ scale'.toInt.toNat < 2 ^ 128)
    (hsx : sx = 0 ∨ sx = 0x8000000000000000) (hey0 : 0 ≤ ey.toInt) (hey1 : ey.toInt ≤ 12287) :
    (∃ r CX' T CXS,
      (do
        let T ← tbl128 Dec.Gen.BID_POWER10_TABLE_128 (UInt64.ofInt (toI scale'))
        let CXS ← mul_128x128_low CX T
        let t ← bid___div_128_by_128 CXS cy
        if (t.2.w1 == 0 && t.2.w0 == 0) = true then do
          let r ← bid_get_BID128_very_fast sx ey t.2
          pure (ForInStep.done ((some (r, f), t.2, T, CXS, r, D, fx, diff', be, scale') : LSt))
        else pure (ForInStep.yield ((none, t.2, T, CXS, res, D, fx, diff', be, scale') : LSt)))
        = .ok (.done (some (r, f), CX', T, CXS, r, D, fx, diff', be, scale')) ∧
      (CX.toNat' * 10 ^ scale'.toInt.toNat) % cy.toNat' = 0 ∧
      Dec.C13GenPack.bitsOf r = encode (.fin (decide (sx ≠ 0)) 0 (ey.toInt - 6176))) ∨
    (∃ CX' T CXS,
      (do
        let T ← tbl128 Dec.Gen.BID_POWER10_TABLE_128 (UInt64.ofInt (toI scale'))
        let CXS ← mul_128x128_low CX T
        let t ← bid___div_128_by_128 CXS cy
        if (t.2.w1 == 0 && t.2.w0 == 0) = true then do
          let r ← bid_get_BID128_very_fast sx ey t.2
          pure (ForInStep.done ((some (r, f), t.2, T, CXS, r, D, fx, diff', be, scale') : LSt))
        else pure (ForInStep.yield ((none, t.2, T, CXS, res, D, fx, diff', be, scale') : LSt)))
        = .ok (.yield (none, CX', T, CXS, res, D, fx, diff', be, scale')) ∧
      CX'.toNat' = (CX.toNat' * 10 ^ scale'.toInt.toNat) % cy.toNat' ∧ 0 < CX'.toNat') := by
  obtain ⟨T, hT, hTv⟩ := pow10_get scale' hs0 hs1
  obtain ⟨CXS, hCXS, hCXSv⟩ := Dec.C01GenArith.gen_mul_128x128_low_exact CX T (by rw [hTv]; exact hb2)
  rw [hTv] at hCXSv
  have h34 : (10 : Nat) ^ 34 < 2 ^ 126 := by norm_num
  obtain ⟨Q, R, hdiv, hQ, hR⟩ := div_128_by_128_spec CXS cy hcy0 (by omega) (by rw [hCXSv]; exact hb1)
  rw [hT, ok_bind, hCXS, ok_bind, hdiv, ok_bind]
  rw [hCXSv] at hR
  have hzero : (R.w1 == 0 && R.w0 == 0) = decide (R.toNat' = 0) := by
    rw [Bool.eq_iff_iff]
    simp only [Bool.and_eq_true, beq_iff_eq, decide_eq_true_eq, ← UInt64.toNat_inj]
    unfold U128.toNat'
    have : (0 : UInt64).toNat = 0 := rfl
    rw [this]; omega
  show (∃ r CX' T' CXS', (if (R.w1 == 0 && R.w0 == 0) = true then _ else _) = _ ∧ _ ∧ _) ∨
    (∃ CX' T' CXS', (if (R.w1 == 0 && R.w0 == 0) = true then _ else _) = _ ∧ _ ∧ _)
  rw [hzero]
  by_cases hz : R.toNat' = 0
  · left
    rw [if_pos (by rw [decide_eq_true_eq]; exact hz)]
    obtain ⟨r, hr, hrv, _⟩ := Dec.C13GenPack.get_very_fast_spec sx ey R hsx hey0 hey1
      (by rw [Dec.C13GenPack.bitsOf_eq]; show R.toNat' < _; rw [hz]; norm_num)
    refine ⟨r, R, T, CXS, ?_, ?_, ?_⟩
    · rw [hr, ok_bind]; rfl
    · rw [← hR]; exact hz
    · rw [hrv, Dec.C13GenPack.bitsOf_eq]
      show encode (.fin _ R.toNat' _) = _
      rw [hz]
  · right
    rw [if_neg (by rw [decide_eq_true_eq]; exact hz)]
    exact ⟨R, T, CXS, rfl, hR, by omega⟩


set_option maxHeartbeats 2000000 in
theorem fmod_finite (x y : U128) (f : UInt32) (rx sx ry sy : UInt64) (ex ey : Int32) (cx cy : U128)
    (hux : unpack_BID128_value 0 0 default x = .ok (rx, sx, ex, cx))
    (huy : unpack_BID128_value 0 0 default y = .ok (ry, sy, ey, cy))
    (hrx : (rx == 0) = false) (hry : (ry == 0) = false) (hsx : sx = 0 ∨ sx = 0x8000000000000000)
    (hex0 : 0 ≤ ex.toInt) (hex1 : ex.toInt ≤ 12287) (hey0 : 0 ≤ ey.toInt) (hey1 : ey.toInt ≤ 12287)
    (hcx0 : 0 < cx.toNat') (hcx : cx.toNat' < 10 ^ 34) (hcy0 : 0 < cy.toNat') (hcy : cy.toNat' < 10 ^ 34)
    (hxc : Dec.C13GenPack.bitsOf x = encode (.fin (decide (sx ≠ 0)) cx.toNat' (ex.toInt - 6176))) :
    ∃ res, bid128_fmod x y f = .ok (res, f) ∧
      Dec.C13GenPack.bitsOf res = encode (.fin (decide (sx ≠ 0))
        ((cx.toNat' * 10 ^ (ex.toInt - min ex.toInt ey.toInt).toNat) % (cy.toNat' * 10 ^ (ey.toInt - min ex.toInt ey.toInt).toNat))
        (min ex.toInt ey.toInt - 6176)) := by
  unfold bid128_fmod
  extract_lets
  rename_i x' y' f' P256d CXd sgn0 Dd f64d ex0 diffd res_x f64c s38 s34 resn1 resn2
  have huy' : unpack_BID128_value sgn0 ex0 CXd y' = .ok (ry, sy, ey, cy) := huy
  have hux' : unpack_BID128_value sgn0 ex0 CXd x' = .ok (rx, sx, ex, cx) := hux
  rw [huy', ok_bind, hux', ok_bind]
  extract_lets sign_x exponent_x CX KM
  have hrx' : ((rx, sx, ex, cx).1 == 0) = false := hrx
  rw [hrx']
  simp (config := {zeta := false}) only [Bool.false_eq_true, if_false, KM]
  have hry' : ((ry, sy, ey, cy).1 == 0) = false := hry
  simp (config := {zeta := false}) only [hry', Bool.false_eq_true, if_false]
  extract_lets diff1 diff2 KL
  have hsgn : sign_x = sx := rfl
  have hexp : exponent_x = ex := rfl
  have hCX : CX = cx := rfl
  have hd1 : diff1.toInt = ex.toInt - ey.toInt := by
    show (ex - ey).toInt = _
    rw [Dec.C13GenPack.i32_sub, Dec.C13PackHelpers.wrapI32_id _ (by omega) (by omega)]
  obtain ⟨Yv, hYv⟩ : ∃ Yv, Yv = cy.toNat' := ⟨_, rfl⟩
  have h34 : (10 : Nat) ^ 34 < 2 ^ 113 := by norm_num
  have hKL : ∀ scale0 : Int32, (scale0.toInt = 38 ∧ 2 ^ 64 ≤ cy.toNat') ∨ (scale0.toInt = 34 ∧ cy.toNat' < 2 ^ 64) →
      ey.toInt < ex.toInt →
      ∃ res, KL () scale0 = .ok (res, f) ∧
        Dec.C13GenPack.bitsOf res = encode (.fin (decide (sx ≠ 0))
          ((cx.toNat' * 10 ^ (ex.toInt - ey.toInt).toNat) % cy.toNat') (ey.toInt - 6176)) := by
    intro scale0 hs0 hlt
    obtain ⟨R0, hR0⟩ : ∃ R0, R0 = (cx.toNat' * 10 ^ (ex.toInt - ey.toInt).toNat) % cy.toNat' := ⟨_, rfl⟩
    rw [← hR0]
    simp (config := {zeta := false}) only [KL]
    apply exists_pair_of
    obtain ⟨Inv, hInv⟩ : ∃ Inv : LSt → Prop, Inv = (fun s : LSt => s.1 = none ∧ 0 < s.2.1.toNat' ∧ s.2.1.toNat' < 10 ^ 34 ∧
        0 ≤ s.2.2.2.2.2.2.2.1.toInt ∧ s.2.2.2.2.2.2.2.1.toInt ≤ ex.toInt - ey.toInt ∧
        (s.2.1.toNat' * 10 ^ s.2.2.2.2.2.2.2.1.toInt.toNat) % cy.toNat' = R0 ∧
        (s.2.1.toNat' < cy.toNat' ∨ s.2.2.2.2.2.2.2.1.toInt = ex.toInt - ey.toInt)) := ⟨_, rfl⟩
    obtain ⟨Post, hPost⟩ : ∃ Post : LSt → Prop, Post = (fun s : LSt =>
        (∃ r, s.1 = some (r, f) ∧ Dec.C13GenPack.bitsOf r = encode (.fin (decide (sx ≠ 0)) R0 (ey.toInt - 6176))) ∨
        (s.1 = none ∧ s.2.2.2.2.2.2.2.1.toInt = 0 ∧ s.2.1.toNat' = R0)) := ⟨_, rfl⟩
    obtain ⟨μ, hμ⟩ : ∃ μ : LSt → Nat, μ = (fun s : LSt =>
        (s.2.2.2.2.2.2.2.1.toInt.toNat + 3) / 4 + (if cy.toNat' ≤ s.2.1.toNat' then 1 else 0)) := ⟨_, rfl⟩
    refine forIn_bind_measure 4096 _ Inv Post μ _ _ _ ?hs ?hmu ?hstep ?hK
    case hs =>
      subst hInv
      refine ⟨rfl, hcx0, hcx, ?_, ?_, ?_, Or.inr ?_⟩
      · show 0 ≤ diff1.toInt; omega
      · show diff1.toInt ≤ _; omega
      · show (cx.toNat' * 10 ^ diff1.toInt.toNat) % cy.toNat' = R0; rw [hd1, hR0]
      · show diff1.toInt = _; exact hd1
    case hmu =>
      subst hμ
      show (diff1.toInt.toNat + 3) / 4 + (if cy.toNat' ≤ cx.toNat' then 1 else 0) < 4096
      split <;> omega
    case hK =>
      subst hPost
      intro s' hp
      obtain ⟨ret, CX', T', CXS', res', D', fx', diff', be', sc'⟩ := s'
      simp only at hp ⊢
      rcases hp with ⟨r, hr, hrv⟩ | ⟨hr, hdz, hcv⟩
      · subst hr
        exact ⟨(r, f), rfl, rfl, hrv⟩
      · subst hr
        have hnd : ¬ (diff' > 0) := by
          rw [gt_iff_lt, Int32.lt_iff_toInt_lt, hdz]; decide
        simp only [hnd, decide_false, Bool.false_eq_true, if_false]
        have hlt : (cx.toNat' * 10 ^ (ex.toInt - ey.toInt).toNat) % cy.toNat' < cy.toNat' := Nat.mod_lt _ hcy0
        obtain ⟨r, hr, hrv, _⟩ := Dec.C13GenPack.get_very_fast_spec sx ey CX' hsx hey0 hey1
          (by rw [Dec.C13GenPack.bitsOf_eq]; show CX'.toNat' < _; rw [hcv, hR0]; omega)
        have hr' : bid_get_BID128_very_fast sign_x ey CX' = .ok r := hr
        rw [hr', ok_bind]
        refine ⟨(r, f), rfl, rfl, ?_⟩
        rw [hrv, Dec.C13GenPack.bitsOf_eq]
        show encode (.fin _ CX'.toNat' _) = _
        rw [hcv]
    case hstep =>
      intro i s hinv
      obtain ⟨ret, CXc, Tc, CXSc, resc, Dc, fxc, diff, bec, scc⟩ := s
      have hinv' := hinv
      rw [hInv] at hinv'
      simp only at hinv'
      obtain ⟨hret, hc0, hc34, hdf0, hdf1, hmod, hlt⟩ := hinv'
      subst hret
      simp only []
      by_cases hpos : diff > 0
      · have hpos' : 0 < diff.toInt := by
          rw [gt_iff_lt, Int32.lt_iff_toInt_lt] at hpos; exact hpos
        simp only [hpos, decide_true, Bool.not_true, Bool.false_eq_true, if_false]
        obtain ⟨Pm, fx, d, T, b, g1, g2, g3, g4, g5, g6⟩ := digits_block CXc hc0 hc34
        have g1' : (F32U.ofU64 (UInt64.ofInt (toI CXc.w1))).mul f64c = .ok Pm := g1
        rw [g1', ok_bind, g2, ok_bind, g3, ok_bind, g4, ok_bind]
        simp only [ok_bind]
        rw [g5, ok_bind]
        obtain ⟨B, hB⟩ : ∃ B : Int32 → Int32 → Except String (ForInStep LSt), B = fun diff' scale' =>
              (do
                let T2 ← tbl128 Dec.Gen.BID_POWER10_TABLE_128 (UInt64.ofInt (toI scale'))
                let CXS ← mul_128x128_low CXc T2
                let t ← bid___div_128_by_128 CXS cy
                if (t.2.w1 == 0 && t.2.w0 == 0) = true then do
                  let r ← bid_get_BID128_very_fast sign_x ey t.2
                  pure (ForInStep.done ((some (r, f'), t.2, T2, CXS, r, Int64.ofInt (toI (CXc.w1 - T.w1)), fx, diff',
                    Int32.ofInt (toI ((fx.bits >>> 23 &&& 255) - 127)), scale') : LSt))
                else pure (ForInStep.yield ((none, t.2, T2, CXS, resc, Int64.ofInt (toI (CXc.w1 - T.w1)), fx, diff',
                    Int32.ofInt (toI ((fx.bits >>> 23 &&& 255) - 127)), scale') : LSt))) := ⟨_, rfl⟩
        have leaf : ∀ (diff' scale' : Int32), 0 ≤ scale'.toInt → scale'.toInt ≤ 38 →
            CXc.toNat' * 10 ^ scale'.toInt.toNat < 2 ^ 113 * cy.toNat' →
            CXc.toNat' * 10 ^ scale'.toInt.toNat < 2 ^ 128 →
            diff'.toInt = diff.toInt - scale'.toInt → 0 ≤ diff'.toInt →
            (4 ≤ scale'.toInt ∨ diff'.toInt = 0 ∨ cy.toNat' ≤ CXc.toNat') →
            (∃ s', B diff' scale' = .ok (.done s') ∧ Post s') ∨
            (∃ s', B diff' scale' = .ok (.yield s') ∧ Inv s' ∧
                μ s' < μ (none, CXc, Tc, CXSc, resc, Dc, fxc, diff, bec, scc)) := by
          subst hB
          intro diff' scale' a1 a2 a3 a4 a5 a6 a7
          have hsplit : diff.toInt.toNat = scale'.toInt.toNat + diff'.toInt.toNat := by omega
          have hmodeq : ∀ Z, ((CXc.toNat' * 10 ^ scale'.toInt.toNat) % cy.toNat' = Z % cy.toNat') →
              (Z * 10 ^ diff'.toInt.toNat) % cy.toNat' = R0 := by
            intro Z hZ
            rw [← hmod, hsplit, Nat.pow_add, ← Nat.mul_assoc, Nat.mul_mod, ← hZ, ← Nat.mul_mod]
          rcases iter_tail CXc cy sign_x ey f' resc (Int64.ofInt (toI (CXc.w1 - T.w1))) fx
            (Int32.ofInt (toI ((fx.bits >>> 23 &&& 255) - 127))) diff' scale' a1 a2 hcy0 hcy a3 a4 hsx hey0 hey1 with
            ⟨r, CX', T2, CXS, hb, hA, hB⟩ | ⟨CX', T2, CXS, hb, hC, hD⟩
          · left
            refine ⟨_, hb, ?_⟩
            rw [hPost]
            left
            refine ⟨r, rfl, ?_⟩
            have : R0 = 0 := by
              have := hmodeq 0 (by rw [hA, Nat.zero_mod])
              rw [Nat.zero_mul, Nat.zero_mod] at this; exact this.symm
            rw [this]; exact hB
          · right
            refine ⟨_, hb, ?_, ?_⟩
            · rw [hInv]
              have hlt' : CX'.toNat' < cy.toNat' := by rw [hC]; exact Nat.mod_lt _ hcy0
              refine ⟨rfl, hD, by simp only; omega, a6, by simp only; omega, ?_, Or.inl hlt'⟩
              simp only
              exact hmodeq _ (by rw [hC, Nat.mod_mod])
            · rw [hμ]
              simp only
              have hlt' : CX'.toNat' < cy.toNat' := by rw [hC]; exact Nat.mod_lt _ hcy0
              rw [if_neg (by omega)]
              split <;> omega
        -- the scale: `scale0 − digits`
        obtain ⟨nd, hnd⟩ : ∃ nd, nd = ndigits CXc.toNat' := ⟨_, rfl⟩
        rw [← hnd] at g6
        obtain ⟨hn1, hn2⟩ := ndigits_spec hc0
        have hnd34 : nd ≤ 34 := by rw [hnd]; exact (ndigits_le_iff hc0).2 hc34
        have hnd1 : 1 ≤ nd := by rw [hnd]; exact ndigits_pos hc0
        rw [← hnd] at hn1 hn2
        have h1i : (1 : Int32).toInt = 1 := by decide
        have hex0 : ex0.toInt = 0 := by decide
        have hsc : ∀ sc : Int32, sc.toInt = scale0.toInt - nd →
            (∃ s', (if decide (diff ≥ sc) = true then B (diff - sc) sc else B ex0 diff) = Except.ok (ForInStep.done s') ∧ Post s') ∨
            (∃ s', (if decide (diff ≥ sc) = true then B (diff - sc) sc else B ex0 diff) = Except.ok (ForInStep.yield s') ∧ Inv s' ∧
              μ s' < μ (none, CXc, Tc, CXSc, resc, Dc, fxc, diff, bec, scc)) := by
          intro sc hscv
          have hp10 : ∀ a b : Nat, a ≤ b → CXc.toNat' * 10 ^ a ≤ CXc.toNat' * 10 ^ b :=
            fun a b h => Nat.mul_le_mul_left _ (Nat.pow_le_pow_right (by norm_num) h)
          have hfull : CXc.toNat' * 10 ^ sc.toInt.toNat < 10 ^ scale0.toInt.toNat := by
            have e : scale0.toInt.toNat = nd + sc.toInt.toNat := by rcases hs0 with h | h <;> omega
            rw [e, Nat.pow_add]
            exact Nat.mul_lt_mul_of_pos_right hn2 (Nat.pow_pos (by norm_num))
          have h38 : (10 : Nat) ^ 38 < 2 ^ 127 := by norm_num
          have hbnd : ∀ k : Nat, k ≤ sc.toInt.toNat →
              CXc.toNat' * 10 ^ k < 2 ^ 113 * cy.toNat' ∧ CXc.toNat' * 10 ^ k < 2 ^ 128 := by
            intro k hk
            have := hp10 k _ hk
            rcases hs0 with ⟨h, hY⟩ | ⟨h, hY⟩
            · have e : scale0.toInt.toNat = 38 := by omega
              rw [e] at hfull; omega
            · have e : scale0.toInt.toNat = 34 := by omega
              rw [e] at hfull; omega
          have hsmall : sc.toInt < 4 → cy.toNat' ≤ CXc.toNat' := by
            intro h4
            rcases hs0 with ⟨h, hY⟩ | ⟨h, hY⟩
            · omega
            · have : 31 ≤ nd := by omega
              have : (10 : Nat) ^ 30 ≤ 10 ^ (nd - 1) := Nat.pow_le_pow_right (by norm_num) (by omega)
              have : (2 : Nat) ^ 64 < 10 ^ 30 := by norm_num
              omega
          by_cases hge : diff ≥ sc
          · have hge' : sc.toInt ≤ diff.toInt := by rw [ge_iff_le, Int32.le_iff_toInt_le] at hge; exact hge
            rw [if_pos (by rw [decide_eq_true_eq]; exact hge)]
            have hdv : (diff - sc).toInt = diff.toInt - sc.toInt := by
              rw [Dec.C13GenPack.i32_sub, Dec.C13PackHelpers.wrapI32_id _ (by rcases hs0 with h | h <;> omega)
                (by rcases hs0 with h | h <;> omega)]
            obtain ⟨b1, b2⟩ := hbnd sc.toInt.toNat (le_refl _)
            refine leaf (diff - sc) sc (by rcases hs0 with h | h <;> omega) (by rcases hs0 with h | h <;> omega) b1 b2 hdv
              (by omega) ?_
            by_cases h4 : 4 ≤ sc.toInt
            · exact Or.inl h4
            · exact Or.inr (Or.inr (hsmall (by omega)))
          · have hge' : diff.toInt < sc.toInt := by
              have : ¬ (sc.toInt ≤ diff.toInt) := by
                intro h; apply hge; rw [ge_iff_le, Int32.le_iff_toInt_le]; exact h
              omega
            rw [if_neg (by rw [decide_eq_true_eq]; exact hge)]
            obtain ⟨b1, b2⟩ := hbnd diff.toInt.toNat (by omega)
            exact leaf ex0 diff (by omega) (by rcases hs0 with h | h <;> omega) b1 b2 (by rw [hex0]; omega)
              (by rw [hex0]) (Or.inr (Or.inl hex0))
        subst hB
        cases b
        · simp only [Bool.false_eq_true, if_false] at g6 ⊢
          exact hsc (scale0 - d) (by
            rw [Dec.C13GenPack.i32_sub, Dec.C13PackHelpers.wrapI32_id _ (by rcases hs0 with h | h <;> omega)
              (by rcases hs0 with h | h <;> omega)]; omega)
        · simp only [if_true] at g6 ⊢
          exact hsc (scale0 - d - 1) (by
            rw [Dec.C13GenPack.i32_sub, Dec.C13GenPack.i32_sub, h1i,
              Dec.C13PackHelpers.wrapI32_id (scale0.toInt - d.toInt) (by rcases hs0 with h | h <;> omega)
                (by rcases hs0 with h | h <;> omega),
              Dec.C13PackHelpers.wrapI32_id _ (by rcases hs0 with h | h <;> omega)
                (by rcases hs0 with h | h <;> omega)]; omega)
      · -- `diff_expon = 0`: leave the loop
        left
        have hz : diff.toInt = 0 := by
          have : ¬ (0 < diff.toInt) := by
            intro h; apply hpos; rw [gt_iff_lt, Int32.lt_iff_toInt_lt]; exact h
          omega
        simp only [hpos, decide_false, Bool.not_false, if_true]
        refine ⟨_, rfl, ?_⟩
        rw [hPost]
        right
        refine ⟨rfl, hz, ?_⟩
        simp only
        have hltY : CXc.toNat' < cy.toNat' := by
          rcases hlt with h | h
          · exact h
          · omega
        rw [hz] at hmod
        simp only [Int.toNat_zero, Nat.pow_zero, Nat.mul_one] at hmod
        rw [← hmod]; exact (Nat.mod_eq_of_lt hltY).symm
  have hmin : min ex.toInt ey.toInt = if ex.toInt ≤ ey.toInt then ex.toInt else ey.toInt := by
    split <;> omega
  by_cases hle : diff1 ≤ 0
  · -- exponent of x not above the exponent of y: one division at most
    have hle' : ex.toInt ≤ ey.toInt := by
      rw [Int32.le_iff_toInt_le, hd1] at hle
      have : (0 : Int32).toInt = 0 := by decide
      omega
    rw [if_pos (by rw [decide_eq_true_eq]; exact hle)]
    rw [hmin, if_pos hle']
    have e0 : (ex.toInt - ex.toInt).toNat = 0 := by omega
    rw [e0, Nat.pow_zero, Nat.mul_one]
    have hd2 : diff2.toInt = ey.toInt - ex.toInt := by
      show (-diff1).toInt = _
      rw [Dec.C11GenLogb.i32_neg_toInt _ (by omega), hd1]; omega
    have hresx : ∀ Yv : Nat, cx.toNat' < Yv →
        Dec.C13GenPack.bitsOf res_x = encode (.fin (decide (sx ≠ 0)) (cx.toNat' % Yv) (ex.toInt - 6176)) := by
      intro Yv h
      rw [Nat.mod_eq_of_lt h]; exact hxc
    by_cases h34' : diff2 > 34
    · rw [if_pos (by rw [decide_eq_true_eq]; exact h34')]
      have : 34 < diff2.toInt := by
        rw [gt_iff_lt, Int32.lt_iff_toInt_lt] at h34'
        have : (34 : Int32).toInt = 34 := by decide
        omega
      refine ⟨res_x, rfl, hresx _ ?_⟩
      have : (10 : Nat) ^ 35 ≤ 10 ^ (ey.toInt - ex.toInt).toNat := Nat.pow_le_pow_right (by norm_num) (by omega)
      have : 1 * 10 ^ (ey.toInt - ex.toInt).toNat ≤ cy.toNat' * 10 ^ (ey.toInt - ex.toInt).toNat :=
        Nat.mul_le_mul_right _ hcy0
      have : (10 : Nat) ^ 34 < 10 ^ 35 := by norm_num
      omega
    · rw [if_neg (by rw [decide_eq_true_eq]; exact h34')]
      have h34'' : diff2.toInt ≤ 34 := by
        have : ¬ (34 < diff2.toInt) := by
          intro h; apply h34'; rw [gt_iff_lt, Int32.lt_iff_toInt_lt]
          have : (34 : Int32).toInt = 34 := by decide
          omega
        omega
      obtain ⟨T, hT, hTv⟩ := pow10_get diff2 (by omega) (by omega)
      rw [hd2] at hTv
      obtain ⟨P, hP, hPv⟩ := Dec.C01GenArith.gen_mul_128x128_to_256 cy T
      rw [hTv] at hPv
      simp only [hT, ok_bind, hP]
      obtain ⟨Yv, hYv'⟩ : ∃ Yv, Yv = cy.toNat' * 10 ^ (ey.toInt - ex.toInt).toNat := ⟨_, rfl⟩
      rw [← hYv'] at hPv ⊢
      have hPval : P.toNat' = P.w0.toNat + 2 ^ 64 * P.w1.toNat + 2 ^ 128 * P.w2.toNat + 2 ^ 192 * P.w3.toNat := rfl
      have p0 := P.w0.toNat_lt; have p1 := P.w1.toNat_lt
      have hYpos : 0 < Yv := by
        rw [hYv']; exact Nat.mul_pos hcy0 (Nat.pow_pos (by norm_num))
      by_cases hbig : (P.w2 != 0 || P.w3 != 0) = true
      · rw [if_pos hbig]
        refine ⟨res_x, rfl, hresx _ ?_⟩
        have : P.w2.toNat ≠ 0 ∨ P.w3.toNat ≠ 0 := by
          simp only [Bool.or_eq_true, bne_iff_ne, ne_eq, ← UInt64.toNat_inj] at hbig
          exact hbig
        omega
      · rw [if_neg hbig]
        have hz : P.w2.toNat = 0 ∧ P.w3.toNat = 0 := by
          simp only [Bool.or_eq_true, bne_iff_ne, ne_eq, ← UInt64.toNat_inj, not_or, not_not] at hbig
          exact hbig
        have hcmp : unsigned_compare_gt_256_128 P CX = .ok (decide (cx.toNat' < Yv)) := by
          unfold unsigned_compare_gt_256_128
          apply congrArg Except.ok
          rw [Bool.eq_iff_iff]
          simp only [Bool.or_eq_true, Bool.and_eq_true, decide_eq_true_eq, beq_iff_eq, gt_iff_lt,
            UInt64.lt_iff_toNat_lt, ← UInt64.toNat_inj]
          have : cx.toNat' = cx.w0.toNat + 2 ^ 64 * cx.w1.toNat := rfl
          have c0 := cx.w0.toNat_lt
          show (cx.w1.toNat < P.w1.toNat ∨ P.w1.toNat = cx.w1.toNat ∧ cx.w0.toNat < P.w0.toNat) ↔ _
          omega
        rw [hcmp, ok_bind]
        by_cases hlt : cx.toNat' < Yv
        · rw [if_pos (by rw [decide_eq_true_eq]; exact hlt)]
          exact ⟨res_x, rfl, hresx _ hlt⟩
        · rw [if_neg (by rw [decide_eq_true_eq]; exact hlt)]
          have hPY : (⟨P.w0, P.w1⟩ : U128).toNat' = Yv := by
            show P.w0.toNat + 2 ^ 64 * P.w1.toNat = Yv; omega
          obtain ⟨Q, R, hdiv, hQ, hR⟩ := div_128_by_128_spec cx ⟨P.w0, P.w1⟩ (by rw [hPY]; exact hYpos)
            (by rw [hPY]; have : (10 : Nat) ^ 34 < 2 ^ 126 := by norm_num
                omega) (by rw [hPY]; omega)
          have hdiv' : bid___div_128_by_128 CX { w0 := P.w0, w1 := P.w1 } = .ok (Q, R) := hdiv
          rw [hdiv', ok_bind]
          rw [hPY] at hR
          obtain ⟨r, hr, hrv, _⟩ := Dec.C13GenPack.get_very_fast_spec sx ex R hsx hex0 hex1
            (by rw [Dec.C13GenPack.bitsOf_eq]; show R.toNat' < _; rw [hR]
                have := Nat.mod_le cx.toNat' Yv; omega)
          have hr' : bid_get_BID128_very_fast sign_x exponent_x (Q, R).2 = .ok r := hr
          rw [hr', ok_bind]
          refine ⟨r, rfl, ?_⟩
          rw [hrv, Dec.C13GenPack.bitsOf_eq]
          show encode (.fin _ R.toNat' _) = _
          rw [hR]
  · -- exponent of x above the exponent of y: the scaling loop
    have hlt' : ey.toInt < ex.toInt := by
      have : ¬ (diff1.toInt ≤ 0) := by
        intro h; apply hle; rw [Int32.le_iff_toInt_le]
        have : (0 : Int32).toInt = 0 := by decide
        omega
      clear hmin
      omega
    rw [if_neg (by rw [decide_eq_true_eq]; exact hle)]
    have hnle : ¬ (ex.toInt ≤ ey.toInt) := by omega
    rw [hmin, if_neg hnle]
    have e0 : (ey.toInt - ey.toInt).toNat = 0 := by omega
    rw [e0, Nat.pow_zero, Nat.mul_one]
    have hw1 : (cy.w1 == 0) = decide (cy.toNat' < 2 ^ 64) := by
      rw [Bool.eq_iff_iff]
      simp only [beq_iff_eq, decide_eq_true_eq, ← UInt64.toNat_inj]
      have : (0 : UInt64).toNat = 0 := rfl
      rw [this]
      have := cy.w0.toNat_lt
      unfold U128.toNat'; omega
    rw [hw1]
    by_cases h64 : cy.toNat' < 2 ^ 64
    · rw [if_pos (by rw [decide_eq_true_eq]; exact h64)]
      exact hKL s34 (Or.inr ⟨by decide, h64⟩) hlt'
    · rw [if_neg (by rw [decide_eq_true_eq]; exact h64)]
      exact hKL s38 (Or.inl ⟨by decide, by omega⟩) hlt'



/-! ## 14. `bid128_rem`, finite non-zero operands -/

/-- the result of the IEEE remainder on aligned coefficients `X`, `Y` (the finite–finite arm of `Dec.remD`) -/
def remFin (s : Bool) (X Y : Nat) (m : Int) : Datum :=
  if X % Y = 0 then .fin s 0 m
  else if (decide (2 * (X % Y) > Y) || (decide (2 * (X % Y) = Y) && X / Y % 2 == 1)) = true then .fin (!s) (Y - X % Y) m
  else .fin s (X % Y) m

theorem c1s : (1 : UInt64).toNat % 64 = 1 := by decide
theorem c63 : (0x3f : UInt64).toNat % 64 = 63 := by decide

/-- `A <<= 1` on a word pair -/
theorem shl_pair1 (a0 a1 : UInt64) :
    (⟨a0 <<< 1, (a1 <<< 1) ||| (a0 >>> 0x3f)⟩ : U128).toNat' = ((a0.toNat + 2 ^ 64 * a1.toNat) * 2 ^ 1) % 2 ^ 128 := by
  have h0 := a0.toNat_lt; have h1 := a1.toNat_lt
  unfold U128.toNat'
  simp only [UInt64.toNat_or, UInt64.toNat_shiftLeft, UInt64.toNat_shiftRight, c1s, c63, Nat.shiftLeft_eq,
    Nat.shiftRight_eq_div_pow]
  have e : a1.toNat * 2 ^ 1 % 2 ^ 64 = 2 ^ 1 * (a1.toNat % 2 ^ 63) := by omega
  rw [e, Dec.C13PackHelpers.or_eq_add_of_lt 1 _ _ (by omega)]
  omega

/-- the parity test `(CQ.w[0] & 1) == 1` -/
theorem parity_test (Q : U128) : (Q.w0 &&& 1 == 1) = decide (Q.toNat' % 2 = 1) := by
  rw [Bool.eq_iff_iff]
  simp only [beq_iff_eq, decide_eq_true_eq, ← UInt64.toNat_inj, UInt64.toNat_and]
  have h1 : (1 : UInt64).toNat = 2 ^ 1 - 1 := rfl
  rw [h1, Nat.and_two_pow_sub_one_eq_mod]
  unfold U128.toNat'
  omega

/-- equality of word pairs is equality of the integers -/
theorem pair_eq_test (A B : U128) : (A.w1 == B.w1 && A.w0 == B.w0) = decide (A.toNat' = B.toNat') := by
  rw [Bool.eq_iff_iff]
  simp only [Bool.and_eq_true, beq_iff_eq, decide_eq_true_eq, ← UInt64.toNat_inj]
  have := A.w0.toNat_lt; have := B.w0.toNat_lt
  unfold U128.toNat'
  omega

/-- flipping the sign word -/
theorem sign_flip (sx : UInt64) (hsx : sx = 0 ∨ sx = 0x8000000000000000) :
    (sx ^^^ 0x8000000000000000 = 0 ∨ sx ^^^ 0x8000000000000000 = 0x8000000000000000) ∧
      decide (sx ^^^ 0x8000000000000000 ≠ 0) = !decide (sx ≠ 0) := by
  rcases hsx with rfl | rfl <;> decide

/-- **the final ties-to-even correction of `bid128_rem`** (after the loop): compares `2·R` with the divisor, uses the
parity of the last quotient chunk on a tie -/
theorem rem_round128 (CX cy CQ : U128) (sx : UInt64) (ey : Int32) (f : UInt32) (X : Nat)
    (hsx : sx = 0 ∨ sx = 0x8000000000000000) (hey0 : 0 ≤ ey.toInt) (hey1 : ey.toInt ≤ 12287)
    (hcy : cy.toNat' < 10 ^ 34) (hr : CX.toNat' = X % cy.toNat') (hlt : CX.toNat' < cy.toNat')
    (hq : CQ.toNat' % 2 = X / cy.toNat' % 2) :
    ∃ res,
      (do
        let c ← unsigned_compare_gt_128 ⟨CX.w0 <<< 1, CX.w1 <<< 1 ||| CX.w0 >>> 63⟩ cy
        if (c || (CX.w1 <<< 1 ||| CX.w0 >>> 63 == cy.w1 && CX.w0 <<< 1 == cy.w0 && CQ.w0 &&& 1 == 1)) = true then do
          let d ← sub_128_128 cy CX
          let r ← bid_get_BID128_very_fast (sx ^^^ 0x8000000000000000) ey d
          pure (r, f)
        else do
          let r ← bid_get_BID128_very_fast sx ey CX
          pure (r, f)) = Except.ok (res, f) ∧
      Dec.C13GenPack.bitsOf res = encode (remFin (decide (sx ≠ 0)) X cy.toNat' (ey.toInt - 6176)) := by
  have h2 := shl_pair1 CX.w0 CX.w1
  have hCXv : CX.w0.toNat + 2 ^ 64 * CX.w1.toNat = CX.toNat' := rfl
  have h34 : (10 : Nat) ^ 34 < 2 ^ 126 := by norm_num
  rw [hCXv, Nat.mod_eq_of_lt (by omega)] at h2
  have hgt := Dec.C01GenArith.gen_unsigned_compare_gt_128 ⟨CX.w0 <<< 1, CX.w1 <<< 1 ||| CX.w0 >>> 0x3f⟩ cy
  rw [h2] at hgt
  have heq := pair_eq_test ⟨CX.w0 <<< 1, CX.w1 <<< 1 ||| CX.w0 >>> 0x3f⟩ cy
  rw [h2] at heq
  have heq' : (CX.w1 <<< 1 ||| CX.w0 >>> 63 == cy.w1 && CX.w0 <<< 1 == cy.w0) =
      decide (CX.toNat' * 2 ^ 1 = cy.toNat') := heq
  have hgt' : unsigned_compare_gt_128 ⟨CX.w0 <<< 1, CX.w1 <<< 1 ||| CX.w0 >>> 63⟩ cy =
      .ok (decide (CX.toNat' * 2 ^ 1 > cy.toNat')) := hgt
  rw [hgt', ok_bind, heq', parity_test]
  obtain ⟨hf1, hf2⟩ := sign_flip sx hsx
  unfold remFin
  rw [← hr]
  by_cases hup : (decide (CX.toNat' * 2 ^ 1 > cy.toNat') || (decide (CX.toNat' * 2 ^ 1 = cy.toNat') && decide (CQ.toNat' % 2 = 1))) = true
  · rw [if_pos hup]
    have hup' : (decide (2 * CX.toNat' > cy.toNat') || (decide (2 * CX.toNat' = cy.toNat') && X / cy.toNat' % 2 == 1)) = true := by
      simp only [Bool.or_eq_true, Bool.and_eq_true, decide_eq_true_eq, beq_iff_eq] at hup ⊢
      omega
    have hnz : CX.toNat' ≠ 0 := by
      simp only [Bool.or_eq_true, Bool.and_eq_true, decide_eq_true_eq] at hup
      omega
    rw [if_neg hnz, if_pos hup']
    obtain ⟨d, hd, hdv⟩ := Dec.C01GenArith.gen_sub_128_128_exact cy CX (by omega)
    obtain ⟨r, hr', hrv, _⟩ := Dec.C13GenPack.get_very_fast_spec (sx ^^^ 0x8000000000000000) ey d hf1 hey0 hey1
      (by rw [Dec.C13GenPack.bitsOf_eq]; show d.toNat' < _; omega)
    rw [hd, ok_bind, hr', ok_bind]
    refine ⟨r, rfl, ?_⟩
    rw [hrv, Dec.C13GenPack.bitsOf_eq, hf2]
    show encode (.fin _ d.toNat' _) = _
    rw [hdv]
  · rw [if_neg hup]
    have hup' : ¬ (decide (2 * CX.toNat' > cy.toNat') || (decide (2 * CX.toNat' = cy.toNat') && X / cy.toNat' % 2 == 1)) = true := by
      simp only [Bool.or_eq_true, Bool.and_eq_true, decide_eq_true_eq, beq_iff_eq] at hup ⊢
      omega
    obtain ⟨r, hr', hrv, _⟩ := Dec.C13GenPack.get_very_fast_spec sx ey CX hsx hey0 hey1
      (by rw [Dec.C13GenPack.bitsOf_eq]; show CX.toNat' < _; omega)
    rw [hr', ok_bind]
    refine ⟨r, rfl, ?_⟩
    rw [hrv, Dec.C13GenPack.bitsOf_eq]
    show encode (.fin _ CX.toNat' _) = _
    by_cases hz : CX.toNat' = 0
    · rw [if_pos hz, hz]
    · rw [if_neg hz, if_neg hup']


/-- the same correction in the single-division arm (`2·R` against the low words of `P256`) -/
theorem rem_round256 (CR CQ : U128) (P : U256) (sx : UInt64) (ex : Int32) (f : UInt32) (X Yv : Nat)
    (hsx : sx = 0 ∨ sx = 0x8000000000000000) (hex0 : 0 ≤ ex.toInt) (hex1 : ex.toInt ≤ 12287)
    (hPY : P.w0.toNat + 2 ^ 64 * P.w1.toNat = Yv) (hY : Yv < 2 * 10 ^ 34) (hr : CR.toNat' = X % Yv) (hlt : CR.toNat' < Yv)
    (hq : CQ.toNat' % 2 = X / Yv % 2) :
    ∃ res,
      (do
        let c ← unsigned_compare_gt_128_256 ⟨CR.w0 <<< 1, CR.w1 <<< 1 ||| CR.w0 >>> 63⟩ P
        if (c || (CR.w1 <<< 1 ||| CR.w0 >>> 63 == P.w1 && CR.w0 <<< 1 == P.w0 && CQ.w0 &&& 1 == 1)) = true then do
          let t ← sub_256_128_to_256 P CR
          let r ← bid_get_BID128_very_fast (sx ^^^ 0x8000000000000000) ex ⟨t.w0, t.w1⟩
          pure (r, f)
        else do
          let r ← bid_get_BID128_very_fast sx ex CR
          pure (r, f)) = Except.ok (res, f) ∧
      Dec.C13GenPack.bitsOf res = encode (remFin (decide (sx ≠ 0)) X Yv (ex.toInt - 6176)) := by
  have h2 := shl_pair1 CR.w0 CR.w1
  have hCXv : CR.w0.toNat + 2 ^ 64 * CR.w1.toNat = CR.toNat' := rfl
  have h34 : (10 : Nat) ^ 34 < 2 ^ 126 := by norm_num
  rw [hCXv, Nat.mod_eq_of_lt (by omega)] at h2
  have hPl : (⟨P.w0, P.w1⟩ : U128).toNat' = Yv := hPY
  have hgt : unsigned_compare_gt_128_256 ⟨CR.w0 <<< 1, CR.w1 <<< 1 ||| CR.w0 >>> 63⟩ P =
      .ok (decide (CR.toNat' * 2 ^ 1 > Yv)) := by
    have := Dec.C01GenArith.gen_unsigned_compare_gt_128 ⟨CR.w0 <<< 1, CR.w1 <<< 1 ||| CR.w0 >>> 0x3f⟩ ⟨P.w0, P.w1⟩
    rw [h2, hPl] at this
    rw [← this]; rfl
  have heq : (CR.w1 <<< 1 ||| CR.w0 >>> 63 == P.w1 && CR.w0 <<< 1 == P.w0) = decide (CR.toNat' * 2 ^ 1 = Yv) := by
    have := pair_eq_test ⟨CR.w0 <<< 1, CR.w1 <<< 1 ||| CR.w0 >>> 0x3f⟩ ⟨P.w0, P.w1⟩
    rw [h2, hPl] at this
    exact this
  rw [hgt, ok_bind, heq, parity_test]
  obtain ⟨hf1, hf2⟩ := sign_flip sx hsx
  unfold remFin
  rw [← hr]
  by_cases hup : (decide (CR.toNat' * 2 ^ 1 > Yv) || (decide (CR.toNat' * 2 ^ 1 = Yv) && decide (CQ.toNat' % 2 = 1))) = true
  · rw [if_pos hup]
    have hup' : (decide (2 * CR.toNat' > Yv) || (decide (2 * CR.toNat' = Yv) && X / Yv % 2 == 1)) = true := by
      simp only [Bool.or_eq_true, Bool.and_eq_true, decide_eq_true_eq, beq_iff_eq] at hup ⊢
      omega
    have hnz : CR.toNat' ≠ 0 := by
      simp only [Bool.or_eq_true, Bool.and_eq_true, decide_eq_true_eq] at hup
      omega
    rw [if_neg hnz, if_pos hup']
    have hge2 : Yv ≤ 2 * CR.toNat' := by
      simp only [Bool.or_eq_true, Bool.and_eq_true, decide_eq_true_eq] at hup
      omega
    obtain ⟨t, ht, _, _, htv⟩ := Dec.C01GenArith.gen_sub_256_128_to_256 P CR
    rw [hPY] at htv
    have htv' : (⟨t.w0, t.w1⟩ : U128).toNat' = Yv - CR.toNat' := by
      show t.w0.toNat + 2 ^ 64 * t.w1.toNat = _
      rw [htv]; omega
    obtain ⟨r, hr', hrv, _⟩ := Dec.C13GenPack.get_very_fast_spec (sx ^^^ 0x8000000000000000) ex ⟨t.w0, t.w1⟩ hf1 hex0 hex1
      (by rw [Dec.C13GenPack.bitsOf_eq]; show (⟨t.w0, t.w1⟩ : U128).toNat' < _; omega)
    rw [ht, ok_bind, hr', ok_bind]
    refine ⟨r, rfl, ?_⟩
    rw [hrv, Dec.C13GenPack.bitsOf_eq, hf2]
    show encode (.fin _ (⟨t.w0, t.w1⟩ : U128).toNat' _) = _
    rw [htv']
  · rw [if_neg hup]
    have hup' : ¬ (decide (2 * CR.toNat' > Yv) || (decide (2 * CR.toNat' = Yv) && X / Yv % 2 == 1)) = true := by
      simp only [Bool.or_eq_true, Bool.and_eq_true, decide_eq_true_eq, beq_iff_eq] at hup ⊢
      omega
    have hle2 : 2 * CR.toNat' ≤ Yv := by
      simp only [Bool.or_eq_true, Bool.and_eq_true, decide_eq_true_eq, not_or, not_and] at hup
      omega
    obtain ⟨r, hr', hrv, _⟩ := Dec.C13GenPack.get_very_fast_spec sx ex CR hsx hex0 hex1
      (by rw [Dec.C13GenPack.bitsOf_eq]; show CR.toNat' < _; omega)
    rw [hr', ok_bind]
    refine ⟨r, rfl, ?_⟩
    rw [hrv, Dec.C13GenPack.bitsOf_eq]
    show encode (.fin _ CR.toNat' _) = _
    by_cases hz : CR.toNat' = 0
    · rw [if_pos hz, hz]
    · rw [if_neg hz, if_neg hup']

/-- the state of the scaling loop of `bid128_rem`:
`(early result, CX, CQ, T, CXS, res, D, fx, diff_expon, bin_expon_cx, scale)` -/
abbrev RSt := Option (U128 × UInt32) × U128 × U128 × U128 × U128 × U128 × Int64 × F32U × Int32 × Int32 × Int32

/-- the second half of one turn of the loop of `bid128_rem` -/
theorem iter_tail_rem (CX cy : U128) (sx : UInt64) (ey : Int32) (f : UInt32) (res : U128) (D : Int64) (fx : F32U)
    (be diff' scale' : Int32) (hs0 : 0 ≤ scale'.toInt) (hs1 : scale'.toInt ≤ 38)
    (hcy0 : 0 < cy.toNat') (hcy : cy.toNat' < 10 ^ 34)
    (hb1 : CX.toNat' * 10 ^ scale'.toInt.toNat < 2 ^ 113 * cy.toNat')
    (hb2 : CX.toNat' * 10 ^ scale'.toInt.toNat < 2 ^ 128)
    (hsx : sx = 0 ∨ sx = 0x8000000000000000) (hey0 : 0 ≤ ey.toInt) (hey1 : ey.toInt ≤ 12287) :
    (∃ r CX' CQ' T CXS,
      (do
        let T ← tbl128 Dec.Gen.BID_POWER10_TABLE_128 (UInt64.ofInt (toI scale'))
        let CXS ← mul_128x128_low CX T
        let t ← bid___div_128_by_128 CXS cy
        if (t.2.w1 == 0 && t.2.w0 == 0) = true then do
          let r ← bid_get_BID128_very_fast sx ey t.2
          pure (ForInStep.done ((some (r, f), t.2, t.1, T, CXS, r, D, fx, diff', be, scale') : RSt))
        else pure (ForInStep.yield ((none, t.2, t.1, T, CXS, res, D, fx, diff', be, scale') : RSt)))
        = .ok (.done (some (r, f), CX', CQ', T, CXS, r, D, fx, diff', be, scale')) ∧
      (CX.toNat' * 10 ^ scale'.toInt.toNat) % cy.toNat' = 0 ∧
      Dec.C13GenPack.bitsOf r = encode (.fin (decide (sx ≠ 0)) 0 (ey.toInt - 6176))) ∨
    (∃ CX' CQ' T CXS,
      (do
        let T ← tbl128 Dec.Gen.BID_POWER10_TABLE_128 (UInt64.ofInt (toI scale'))
        let CXS ← mul_128x128_low CX T
        let t ← bid___div_128_by_128 CXS cy
        if (t.2.w1 == 0 && t.2.w0 == 0) = true then do
          let r ← bid_get_BID128_very_fast sx ey t.2
          pure (ForInStep.done ((some (r, f), t.2, t.1, T, CXS, r, D, fx, diff', be, scale') : RSt))
        else pure (ForInStep.yield ((none, t.2, t.1, T, CXS, res, D, fx, diff', be, scale') : RSt)))
        = .ok (.yield (none, CX', CQ', T, CXS, res, D, fx, diff', be, scale')) ∧
      CX'.toNat' = (CX.toNat' * 10 ^ scale'.toInt.toNat) % cy.toNat' ∧
      CQ'.toNat' = (CX.toNat' * 10 ^ scale'.toInt.toNat) / cy.toNat' ∧ 0 < CX'.toNat') := by
  obtain ⟨T, hT, hTv⟩ := pow10_get scale' hs0 hs1
  obtain ⟨CXS, hCXS, hCXSv⟩ := Dec.C01GenArith.gen_mul_128x128_low_exact CX T (by rw [hTv]; exact hb2)
  rw [hTv] at hCXSv
  have h34 : (10 : Nat) ^ 34 < 2 ^ 126 := by norm_num
  obtain ⟨Q, R, hdiv, hQ, hR⟩ := div_128_by_128_spec CXS cy hcy0 (by omega) (by rw [hCXSv]; exact hb1)
  rw [hT, ok_bind, hCXS, ok_bind, hdiv, ok_bind]
  rw [hCXSv] at hR hQ
  have hzero : (R.w1 == 0 && R.w0 == 0) = decide (R.toNat' = 0) := by
    rw [Bool.eq_iff_iff]
    simp only [Bool.and_eq_true, beq_iff_eq, decide_eq_true_eq, ← UInt64.toNat_inj]
    unfold U128.toNat'
    have : (0 : UInt64).toNat = 0 := rfl
    rw [this]; omega
  show (∃ r CX' CQ' T' CXS', (if (R.w1 == 0 && R.w0 == 0) = true then _ else _) = _ ∧ _ ∧ _) ∨
    (∃ CX' CQ' T' CXS', (if (R.w1 == 0 && R.w0 == 0) = true then _ else _) = _ ∧ _ ∧ _ ∧ _)
  rw [hzero]
  by_cases hz : R.toNat' = 0
  · left
    rw [if_pos (by rw [decide_eq_true_eq]; exact hz)]
    obtain ⟨r, hr, hrv, _⟩ := Dec.C13GenPack.get_very_fast_spec sx ey R hsx hey0 hey1
      (by rw [Dec.C13GenPack.bitsOf_eq]; show R.toNat' < _; rw [hz]; norm_num)
    refine ⟨r, R, Q, T, CXS, ?_, ?_, ?_⟩
    · rw [hr, ok_bind]; rfl
    · rw [← hR]; exact hz
    · rw [hrv, Dec.C13GenPack.bitsOf_eq]
      show encode (.fin _ R.toNat' _) = _
      rw [hz]
  · right
    rw [if_neg (by rw [decide_eq_true_eq]; exact hz)]
    exact ⟨R, Q, T, CXS, rfl, hR, hQ, by omega⟩


/-- a dividend at most half the divisor is its own IEEE remainder (on a tie the quotient 0 is even) -/
theorem remFin_small (s : Bool) (X Y : Nat) (m : Int) (h0 : 0 < X) (h : 2 * X ≤ Y) : remFin s X Y m = .fin s X m := by
  have hlt : X < Y := by omega
  have hq : X / Y = 0 := Nat.div_eq_of_lt hlt
  unfold remFin
  rw [Nat.mod_eq_of_lt hlt, hq, if_neg (by omega)]
  have : ¬ (decide (2 * X > Y) || (decide (2 * X = Y) && 0 % 2 == 1)) = true := by
    simp only [Bool.or_eq_true, Bool.and_eq_true, decide_eq_true_eq, beq_iff_eq]; omega
  rw [if_neg this]

set_option maxHeartbeats 2000000 in
theorem rem_finite (x y : U128) (f : UInt32) (rx sx ry sy : UInt64) (ex ey : Int32) (cx cy : U128)
    (hux : unpack_BID128_value 0 0 default x = .ok (rx, sx, ex, cx))
    (huy : unpack_BID128_value 0 0 default y = .ok (ry, sy, ey, cy))
    (hrx : (rx == 0) = false) (hry : (ry == 0) = false) (hsx : sx = 0 ∨ sx = 0x8000000000000000)
    (hex0 : 0 ≤ ex.toInt) (hex1 : ex.toInt ≤ 12287) (hey0 : 0 ≤ ey.toInt) (hey1 : ey.toInt ≤ 12287)
    (hcx0 : 0 < cx.toNat') (hcx : cx.toNat' < 10 ^ 34) (hcy0 : 0 < cy.toNat') (hcy : cy.toNat' < 10 ^ 34)
    (hxc : Dec.C13GenPack.bitsOf x = encode (.fin (decide (sx ≠ 0)) cx.toNat' (ex.toInt - 6176))) :
    ∃ res, bid128_rem x y f = .ok (res, f) ∧
      Dec.C13GenPack.bitsOf res = encode (remFin (decide (sx ≠ 0))
        (cx.toNat' * 10 ^ (ex.toInt - min ex.toInt ey.toInt).toNat) (cy.toNat' * 10 ^ (ey.toInt - min ex.toInt ey.toInt).toNat)
        (min ex.toInt ey.toInt - 6176)) := by
  unfold bid128_rem
  extract_lets
  rename_i x' y' f' P256d CXd sgn0 Dd f64d ex0 diffd res_x f64c s38 s34 resn1 resn2
  have huy' : unpack_BID128_value sgn0 ex0 CXd y' = .ok (ry, sy, ey, cy) := huy
  have hux' : unpack_BID128_value sgn0 ex0 CXd x' = .ok (rx, sx, ex, cx) := hux
  rw [huy', ok_bind, hux', ok_bind]
  extract_lets sign_x exponent_x CX CX2a CX2b sgnf KM
  have hrx' : ((rx, sx, ex, cx).1 == 0) = false := hrx
  rw [hrx']
  simp (config := {zeta := false}) only [Bool.false_eq_true, if_false, KM]
  have hry' : ((ry, sy, ey, cy).1 == 0) = false := hry
  simp (config := {zeta := false}) only [hry', Bool.false_eq_true, if_false]
  extract_lets diff1 diff2 JX JY KL
  have hd1 : diff1.toInt = ex.toInt - ey.toInt := by
    show (ex - ey).toInt = _
    rw [Dec.C13GenPack.i32_sub, Dec.C13PackHelpers.wrapI32_id _ (by omega) (by omega)]
  have h34 : (10 : Nat) ^ 34 < 2 ^ 113 := by norm_num
  have hKL : ∀ scale0 : Int32, (scale0.toInt = 38 ∧ 2 ^ 64 ≤ cy.toNat') ∨ (scale0.toInt = 34 ∧ cy.toNat' < 2 ^ 64) →
      ey.toInt < ex.toInt →
      ∃ res, KL () scale0 = .ok (res, f) ∧
        Dec.C13GenPack.bitsOf res = encode (remFin (decide (sx ≠ 0))
          (cx.toNat' * 10 ^ (ex.toInt - ey.toInt).toNat) cy.toNat' (ey.toInt - 6176)) := by
    intro scale0 hs0 hlt
    obtain ⟨X0, hX0⟩ : ∃ X0, X0 = cx.toNat' * 10 ^ (ex.toInt - ey.toInt).toNat := ⟨_, rfl⟩
    rw [← hX0]
    simp (config := {zeta := false}) only [KL]
    apply exists_pair_of
    obtain ⟨Inv, hInv⟩ : ∃ Inv : RSt → Prop, Inv = (fun s : RSt => s.1 = none ∧ 0 < s.2.1.toNat' ∧ s.2.1.toNat' < 10 ^ 34 ∧
        0 ≤ s.2.2.2.2.2.2.2.2.1.toInt ∧ s.2.2.2.2.2.2.2.2.1.toInt ≤ ex.toInt - ey.toInt ∧
        ((s.2.2.2.2.2.2.2.2.1.toInt = ex.toInt - ey.toInt ∧ s.2.1.toNat' = cx.toNat') ∨
         (s.2.1.toNat' < cy.toNat' ∧
          ∃ Qp, X0 = (Qp + s.2.2.1.toNat' * 10 ^ s.2.2.2.2.2.2.2.2.1.toInt.toNat) * cy.toNat' +
            s.2.1.toNat' * 10 ^ s.2.2.2.2.2.2.2.2.1.toInt.toNat ∧
          10 ^ (s.2.2.2.2.2.2.2.2.1.toInt.toNat + 1) ∣ Qp))) := ⟨_, rfl⟩
    obtain ⟨Post, hPost⟩ : ∃ Post : RSt → Prop, Post = (fun s : RSt =>
        (∃ r, s.1 = some (r, f) ∧ X0 % cy.toNat' = 0 ∧
          Dec.C13GenPack.bitsOf r = encode (.fin (decide (sx ≠ 0)) 0 (ey.toInt - 6176))) ∨
        (s.1 = none ∧ s.2.2.2.2.2.2.2.2.1.toInt = 0 ∧ s.2.1.toNat' = X0 % cy.toNat' ∧ s.2.1.toNat' < cy.toNat' ∧
          s.2.2.1.toNat' % 2 = X0 / cy.toNat' % 2)) := ⟨_, rfl⟩
    obtain ⟨μ, hμ⟩ : ∃ μ : RSt → Nat, μ = (fun s : RSt =>
        (s.2.2.2.2.2.2.2.2.1.toInt.toNat + 3) / 4 + (if cy.toNat' ≤ s.2.1.toNat' then 1 else 0)) := ⟨_, rfl⟩
    refine forIn_bind_measure 4096 _ Inv Post μ _ _ _ ?hs ?hmu ?hstep ?hK
    case hs =>
      subst hInv
      refine ⟨rfl, hcx0, hcx, ?_, ?_, Or.inl ⟨?_, rfl⟩⟩
      · show 0 ≤ diff1.toInt; omega
      · show diff1.toInt ≤ _; omega
      · show diff1.toInt = _; exact hd1
    case hmu =>
      subst hμ
      show (diff1.toInt.toNat + 3) / 4 + (if cy.toNat' ≤ cx.toNat' then 1 else 0) < 4096
      split <;> omega
    case hK =>
      subst hPost
      intro s' hp
      obtain ⟨ret, CX', CQ', T', CXS', res', D', fx', diff', be', sc'⟩ := s'
      simp only at hp ⊢
      rcases hp with ⟨r, hr, hz, hrv⟩ | ⟨hr, hdz, hcv, hclt, hpar⟩
      · subst hr
        refine ⟨(r, f), rfl, rfl, ?_⟩
        rw [hrv]; unfold remFin; rw [if_pos hz]
      · subst hr
        have hnd : ¬ (diff' > 0) := by
          rw [gt_iff_lt, Int32.lt_iff_toInt_lt, hdz]; decide
        simp only [hnd, decide_false, Bool.false_eq_true, if_false, JY]
        obtain ⟨res, h1, h2⟩ := rem_round128 CX' cy CQ' sx ey f X0 hsx hey0 hey1 hcy hcv hclt hpar
        exact ⟨(res, f), h1, rfl, h2⟩
    case hstep =>
      intro i s hinv
      obtain ⟨ret, CXc, CQc, Tc, CXSc, resc, Dc, fxc, diff, bec, scc⟩ := s
      have hinv' := hinv
      rw [hInv] at hinv'
      simp only at hinv'
      obtain ⟨hret, hc0, hc34, hdf0, hdf1, hacc⟩ := hinv'
      subst hret
      simp only []
      by_cases hpos : diff > 0
      · have hpos' : 0 < diff.toInt := by
          rw [gt_iff_lt, Int32.lt_iff_toInt_lt] at hpos; exact hpos
        simp only [hpos, decide_true, Bool.not_true, Bool.false_eq_true, if_false]
        obtain ⟨Pm, fx, d, T, b, g1, g2, g3, g4, g5, g6⟩ := digits_block CXc hc0 hc34
        have g1' : (F32U.ofU64 (UInt64.ofInt (toI CXc.w1))).mul f64c = .ok Pm := g1
        rw [g1', ok_bind, g2, ok_bind, g3, ok_bind, g4, ok_bind]
        simp only [ok_bind]
        rw [g5, ok_bind]
        obtain ⟨B, hB⟩ : ∃ B : Int32 → Int32 → Except String (ForInStep RSt), B = fun diff' scale' =>
              (do
                let T2 ← tbl128 Dec.Gen.BID_POWER10_TABLE_128 (UInt64.ofInt (toI scale'))
                let CXS ← mul_128x128_low CXc T2
                let t ← bid___div_128_by_128 CXS cy
                if (t.2.w1 == 0 && t.2.w0 == 0) = true then do
                  let r ← bid_get_BID128_very_fast sign_x ey t.2
                  pure (ForInStep.done ((some (r, f'), t.2, t.1, T2, CXS, r, Int64.ofInt (toI (CXc.w1 - T.w1)), fx, diff',
                    Int32.ofInt (toI ((fx.bits >>> 23 &&& 255) - 127)), scale') : RSt))
                else pure (ForInStep.yield ((none, t.2, t.1, T2, CXS, resc, Int64.ofInt (toI (CXc.w1 - T.w1)), fx, diff',
                    Int32.ofInt (toI ((fx.bits >>> 23 &&& 255) - 127)), scale') : RSt))) := ⟨_, rfl⟩
        have leaf : ∀ (diff' scale' : Int32), 0 ≤ scale'.toInt → scale'.toInt ≤ 38 →
            CXc.toNat' * 10 ^ scale'.toInt.toNat < 2 ^ 113 * cy.toNat' →
            CXc.toNat' * 10 ^ scale'.toInt.toNat < 2 ^ 128 →
            diff'.toInt = diff.toInt - scale'.toInt → 0 ≤ diff'.toInt →
            (4 ≤ scale'.toInt ∨ diff'.toInt = 0 ∨ cy.toNat' ≤ CXc.toNat') →
            (CXc.toNat' < cy.toNat' → 1 ≤ scale'.toInt) →
            (∃ s', B diff' scale' = .ok (.done s') ∧ Post s') ∨
            (∃ s', B diff' scale' = .ok (.yield s') ∧ Inv s' ∧
                μ s' < μ (none, CXc, CQc, Tc, CXSc, resc, Dc, fxc, diff, bec, scc)) := by
          subst hB
          intro diff' scale' a1 a2 a3 a4 a5 a6 a7 a8
          have hsplit : diff.toInt.toNat = scale'.toInt.toNat + diff'.toInt.toNat := by omega
          have hdm := Nat.div_add_mod (CXc.toNat' * 10 ^ scale'.toInt.toNat) cy.toNat'
          -- the accumulated quotient after this turn
          have hnew : ∃ Qp', X0 = (Qp' + (CXc.toNat' * 10 ^ scale'.toInt.toNat / cy.toNat') * 10 ^ diff'.toInt.toNat) * cy.toNat' +
              (CXc.toNat' * 10 ^ scale'.toInt.toNat % cy.toNat') * 10 ^ diff'.toInt.toNat ∧
              10 ^ (diff'.toInt.toNat + 1) ∣ Qp' := by
            have hkey : CXc.toNat' * 10 ^ diff.toInt.toNat =
                ((CXc.toNat' * 10 ^ scale'.toInt.toNat / cy.toNat') * 10 ^ diff'.toInt.toNat) * cy.toNat' +
                (CXc.toNat' * 10 ^ scale'.toInt.toNat % cy.toNat') * 10 ^ diff'.toInt.toNat := by
              rw [hsplit, Nat.pow_add, ← Nat.mul_assoc]
              calc CXc.toNat' * 10 ^ scale'.toInt.toNat * 10 ^ diff'.toInt.toNat
                  = (cy.toNat' * (CXc.toNat' * 10 ^ scale'.toInt.toNat / cy.toNat') +
                      CXc.toNat' * 10 ^ scale'.toInt.toNat % cy.toNat') * 10 ^ diff'.toInt.toNat := by rw [hdm]
                _ = _ := by ring
            rcases hacc with ⟨hd0, hcx'⟩ | ⟨hltY, Qp, hX, hdvd⟩
            · refine ⟨0, ?_, Nat.dvd_zero _⟩
              rw [Nat.zero_add, ← hkey, hX0, hcx', hd0]
            · refine ⟨Qp + CQc.toNat' * 10 ^ diff.toInt.toNat, ?_, ?_⟩
              · rw [hX, hkey]; ring
              · have hs1 := a8 hltY
                have hle : diff'.toInt.toNat + 1 ≤ diff.toInt.toNat := by omega
                apply Nat.dvd_add
                · exact Nat.dvd_trans (Nat.pow_dvd_pow 10 (by omega)) hdvd
                · exact Nat.dvd_trans (Nat.pow_dvd_pow 10 hle) (Nat.dvd_mul_left _ _)
          rcases iter_tail_rem CXc cy sign_x ey f' resc (Int64.ofInt (toI (CXc.w1 - T.w1))) fx
            (Int32.ofInt (toI ((fx.bits >>> 23 &&& 255) - 127))) diff' scale' a1 a2 hcy0 hcy a3 a4 hsx hey0 hey1 with
            ⟨r, CX', CQ', T2, CXS, hb, hA, hBv⟩ | ⟨CX', CQ', T2, CXS, hb, hC, hQ, hD⟩
          · left
            refine ⟨_, hb, ?_⟩
            rw [hPost]
            left
            refine ⟨r, rfl, ?_, hBv⟩
            obtain ⟨Qp', hX', _⟩ := hnew
            rw [hA, Nat.zero_mul, Nat.add_zero] at hX'
            rw [hX', Nat.mul_mod_left]
          · right
            refine ⟨_, hb, ?_, ?_⟩
            · rw [hInv]
              have hlt' : CX'.toNat' < cy.toNat' := by rw [hC]; exact Nat.mod_lt _ hcy0
              refine ⟨rfl, hD, by simp only; omega, a6, by simp only; omega, Or.inr ⟨hlt', ?_⟩⟩
              simp only
              rw [hC, hQ]
              exact hnew
            · rw [hμ]
              simp only
              have hlt' : CX'.toNat' < cy.toNat' := by rw [hC]; exact Nat.mod_lt _ hcy0
              rw [if_neg (by omega)]
              split <;> omega
        -- the scale: `scale0 − digits`
        obtain ⟨nd, hnd⟩ : ∃ nd, nd = ndigits CXc.toNat' := ⟨_, rfl⟩
        rw [← hnd] at g6
        obtain ⟨hn1, hn2⟩ := ndigits_spec hc0
        have hnd34 : nd ≤ 34 := by rw [hnd]; exact (ndigits_le_iff hc0).2 hc34
        have hnd1 : 1 ≤ nd := by rw [hnd]; exact ndigits_pos hc0
        rw [← hnd] at hn1 hn2
        have h1i : (1 : Int32).toInt = 1 := by decide
        have hex0 : ex0.toInt = 0 := by decide
        have hsc : ∀ sc : Int32, sc.toInt = scale0.toInt - nd →
            (∃ s', (if decide (diff ≥ sc) = true then B (diff - sc) sc else B ex0 diff) = Except.ok (ForInStep.done s') ∧ Post s') ∨
            (∃ s', (if decide (diff ≥ sc) = true then B (diff - sc) sc else B ex0 diff) = Except.ok (ForInStep.yield s') ∧ Inv s' ∧
              μ s' < μ (none, CXc, CQc, Tc, CXSc, resc, Dc, fxc, diff, bec, scc)) := by
          intro sc hscv
          have hp10 : ∀ a b : Nat, a ≤ b → CXc.toNat' * 10 ^ a ≤ CXc.toNat' * 10 ^ b :=
            fun a b h => Nat.mul_le_mul_left _ (Nat.pow_le_pow_right (by norm_num) h)
          have hfull : CXc.toNat' * 10 ^ sc.toInt.toNat < 10 ^ scale0.toInt.toNat := by
            have e : scale0.toInt.toNat = nd + sc.toInt.toNat := by rcases hs0 with h | h <;> omega
            rw [e, Nat.pow_add]
            exact Nat.mul_lt_mul_of_pos_right hn2 (Nat.pow_pos (by norm_num))
          have h38 : (10 : Nat) ^ 38 < 2 ^ 127 := by norm_num
          have hbnd : ∀ k : Nat, k ≤ sc.toInt.toNat →
              CXc.toNat' * 10 ^ k < 2 ^ 113 * cy.toNat' ∧ CXc.toNat' * 10 ^ k < 2 ^ 128 := by
            intro k hk
            have := hp10 k _ hk
            rcases hs0 with ⟨h, hY⟩ | ⟨h, hY⟩
            · have e : scale0.toInt.toNat = 38 := by omega
              rw [e] at hfull; omega
            · have e : scale0.toInt.toNat = 34 := by omega
              rw [e] at hfull; omega
          have hsmall : sc.toInt < 4 → cy.toNat' ≤ CXc.toNat' := by
            intro h4
            rcases hs0 with ⟨h, hY⟩ | ⟨h, hY⟩
            · omega
            · have : 31 ≤ nd := by omega
              have : (10 : Nat) ^ 30 ≤ 10 ^ (nd - 1) := Nat.pow_le_pow_right (by norm_num) (by omega)
              have : (2 : Nat) ^ 64 < 10 ^ 30 := by norm_num
              omega
          have hone : CXc.toNat' < cy.toNat' → 1 ≤ sc.toInt := by
            intro hl
            by_contra hc
            have := hsmall (by omega)
            omega
          by_cases hge : diff ≥ sc
          · have hge' : sc.toInt ≤ diff.toInt := by rw [ge_iff_le, Int32.le_iff_toInt_le] at hge; exact hge
            rw [if_pos (by rw [decide_eq_true_eq]; exact hge)]
            have hdv : (diff - sc).toInt = diff.toInt - sc.toInt := by
              rw [Dec.C13GenPack.i32_sub, Dec.C13PackHelpers.wrapI32_id _ (by rcases hs0 with h | h <;> omega)
                (by rcases hs0 with h | h <;> omega)]
            obtain ⟨b1, b2⟩ := hbnd sc.toInt.toNat (le_refl _)
            refine leaf (diff - sc) sc (by rcases hs0 with h | h <;> omega) (by rcases hs0 with h | h <;> omega) b1 b2 hdv
              (by omega) ?_ hone
            by_cases h4 : 4 ≤ sc.toInt
            · exact Or.inl h4
            · exact Or.inr (Or.inr (hsmall (by omega)))
          · have hge' : diff.toInt < sc.toInt := by
              have : ¬ (sc.toInt ≤ diff.toInt) := by
                intro h; apply hge; rw [ge_iff_le, Int32.le_iff_toInt_le]; exact h
              omega
            rw [if_neg (by rw [decide_eq_true_eq]; exact hge)]
            obtain ⟨b1, b2⟩ := hbnd diff.toInt.toNat (by omega)
            exact leaf ex0 diff (by omega) (by rcases hs0 with h | h <;> omega) b1 b2 (by rw [hex0]; omega)
              (by rw [hex0]) (Or.inr (Or.inl hex0)) (fun _ => by omega)
        subst hB
        cases b
        · simp only [Bool.false_eq_true, if_false] at g6 ⊢
          exact hsc (scale0 - d) (by
            rw [Dec.C13GenPack.i32_sub, Dec.C13PackHelpers.wrapI32_id _ (by rcases hs0 with h | h <;> omega)
              (by rcases hs0 with h | h <;> omega)]; omega)
        · simp only [if_true] at g6 ⊢
          exact hsc (scale0 - d - 1) (by
            rw [Dec.C13GenPack.i32_sub, Dec.C13GenPack.i32_sub, h1i,
              Dec.C13PackHelpers.wrapI32_id (scale0.toInt - d.toInt) (by rcases hs0 with h | h <;> omega)
                (by rcases hs0 with h | h <;> omega),
              Dec.C13PackHelpers.wrapI32_id _ (by rcases hs0 with h | h <;> omega)
                (by rcases hs0 with h | h <;> omega)]; omega)
      · -- `diff_expon = 0`: leave the loop
        left
        have hz : diff.toInt = 0 := by
          have : ¬ (0 < diff.toInt) := by
            intro h; apply hpos; rw [gt_iff_lt, Int32.lt_iff_toInt_lt]; exact h
          omega
        simp only [hpos, decide_false, Bool.not_false, if_true]
        refine ⟨_, rfl, ?_⟩
        rw [hPost]
        right
        simp only
        rcases hacc with ⟨hd0, _⟩ | ⟨hltY, Qp, hX, hdvd⟩
        · omega
        · rw [hz] at hX hdvd
          simp only [Int.toNat_zero, Nat.pow_zero, Nat.mul_one, Nat.zero_add, Nat.pow_one] at hX hdvd
          have hdmu : X0 / cy.toNat' = Qp + CQc.toNat' ∧ X0 % cy.toNat' = CXc.toNat' := by
            rw [Nat.div_mod_unique hcy0]
            refine ⟨?_, hltY⟩
            rw [hX]; ring
          refine ⟨trivial, hz, hdmu.2.symm, hltY, ?_⟩
          rw [hdmu.1]
          obtain ⟨k, hk⟩ := hdvd
          omega
  have hmin : min ex.toInt ey.toInt = if ex.toInt ≤ ey.toInt then ex.toInt else ey.toInt := by
    split <;> omega
  by_cases hle : diff1 ≤ 0
  · -- exponent of x not above the exponent of y: one division at most
    have hle' : ex.toInt ≤ ey.toInt := by
      rw [Int32.le_iff_toInt_le, hd1] at hle
      have : (0 : Int32).toInt = 0 := by decide
      omega
    rw [if_pos (by rw [decide_eq_true_eq]; exact hle)]
    rw [hmin, if_pos hle']
    have e0 : (ex.toInt - ex.toInt).toNat = 0 := by omega
    rw [e0, Nat.pow_zero, Nat.mul_one]
    have hd2 : diff2.toInt = ey.toInt - ex.toInt := by
      show (-diff1).toInt = _
      rw [Dec.C11GenLogb.i32_neg_toInt _ (by omega), hd1]; omega
    have hresx : ∀ Yv : Nat, 2 * cx.toNat' ≤ Yv →
        Dec.C13GenPack.bitsOf res_x = encode (remFin (decide (sx ≠ 0)) cx.toNat' Yv (ex.toInt - 6176)) := by
      intro Yv h
      rw [remFin_small _ _ _ _ hcx0 h]; exact hxc
    by_cases h34' : diff2 > 34
    · rw [if_pos (by rw [decide_eq_true_eq]; exact h34')]
      have : 34 < diff2.toInt := by
        rw [gt_iff_lt, Int32.lt_iff_toInt_lt] at h34'
        have : (34 : Int32).toInt = 34 := by decide
        omega
      refine ⟨res_x, rfl, hresx _ ?_⟩
      have : (10 : Nat) ^ 35 ≤ 10 ^ (ey.toInt - ex.toInt).toNat := Nat.pow_le_pow_right (by norm_num) (by omega)
      have : 1 * 10 ^ (ey.toInt - ex.toInt).toNat ≤ cy.toNat' * 10 ^ (ey.toInt - ex.toInt).toNat :=
        Nat.mul_le_mul_right _ hcy0
      have : 2 * (10 : Nat) ^ 34 < 10 ^ 35 := by norm_num
      omega
    · rw [if_neg (by rw [decide_eq_true_eq]; exact h34')]
      have h34'' : diff2.toInt ≤ 34 := by
        have : ¬ (34 < diff2.toInt) := by
          intro h; apply h34'; rw [gt_iff_lt, Int32.lt_iff_toInt_lt]
          have : (34 : Int32).toInt = 34 := by decide
          omega
        omega
      obtain ⟨T, hT, hTv⟩ := pow10_get diff2 (by omega) (by omega)
      rw [hd2] at hTv
      obtain ⟨P, hP, hPv⟩ := Dec.C01GenArith.gen_mul_128x128_to_256 cy T
      rw [hTv] at hPv
      simp only [hT, ok_bind, hP]
      obtain ⟨Yv, hYv'⟩ : ∃ Yv, Yv = cy.toNat' * 10 ^ (ey.toInt - ex.toInt).toNat := ⟨_, rfl⟩
      rw [← hYv'] at hPv ⊢
      have hPval : P.toNat' = P.w0.toNat + 2 ^ 64 * P.w1.toNat + 2 ^ 128 * P.w2.toNat + 2 ^ 192 * P.w3.toNat := rfl
      have p0 := P.w0.toNat_lt; have p1 := P.w1.toNat_lt
      have hYpos : 0 < Yv := by
        rw [hYv']; exact Nat.mul_pos hcy0 (Nat.pow_pos (by norm_num))
      by_cases hbig : (P.w2 != 0 || P.w3 != 0) = true
      · rw [if_pos hbig]
        refine ⟨res_x, rfl, hresx _ ?_⟩
        have : P.w2.toNat ≠ 0 ∨ P.w3.toNat ≠ 0 := by
          simp only [Bool.or_eq_true, bne_iff_ne, ne_eq, ← UInt64.toNat_inj] at hbig
          exact hbig
        omega
      · rw [if_neg hbig]
        have hz : P.w2.toNat = 0 ∧ P.w3.toNat = 0 := by
          simp only [Bool.or_eq_true, bne_iff_ne, ne_eq, ← UInt64.toNat_inj, not_or, not_not] at hbig
          exact hbig
        have hPY : P.w0.toNat + 2 ^ 64 * P.w1.toNat = Yv := by omega
        have h2x := shl_pair1 cx.w0 cx.w1
        have hcxv : cx.w0.toNat + 2 ^ 64 * cx.w1.toNat = cx.toNat' := rfl
        rw [hcxv, Nat.mod_eq_of_lt (by omega)] at h2x
        have hcmp : unsigned_compare_ge_256_128 P CX2b = .ok (decide (cx.toNat' * 2 ^ 1 ≤ Yv)) := by
          have := Dec.C01GenArith.gen_unsigned_compare_ge_128 ⟨P.w0, P.w1⟩ ⟨cx.w0 <<< 1, cx.w1 <<< 1 ||| cx.w0 >>> 0x3f⟩
          rw [h2x] at this
          have hPl : (⟨P.w0, P.w1⟩ : U128).toNat' = Yv := hPY
          rw [hPl] at this
          rw [← this]; rfl
        rw [hcmp, ok_bind]
        by_cases hlt : cx.toNat' * 2 ^ 1 ≤ Yv
        · rw [if_pos (by rw [decide_eq_true_eq]; exact hlt)]
          exact ⟨res_x, rfl, hresx _ (by omega)⟩
        · rw [if_neg (by rw [decide_eq_true_eq]; exact hlt)]
          have hPl : (⟨P.w0, P.w1⟩ : U128).toNat' = Yv := hPY
          obtain ⟨Q, R, hdiv, hQ, hR⟩ := div_128_by_128_spec cx ⟨P.w0, P.w1⟩ (by rw [hPl]; exact hYpos)
            (by rw [hPl]; have : (10 : Nat) ^ 34 < 2 ^ 125 := by norm_num
                omega) (by rw [hPl]; omega)
          have hdiv' : bid___div_128_by_128 CX { w0 := P.w0, w1 := P.w1 } = .ok (Q, R) := hdiv
          rw [hdiv', ok_bind]
          rw [hPl] at hR hQ
          simp only [JX]
          obtain ⟨res, h1, h2⟩ := rem_round256 R Q P sx ex f cx.toNat' Yv hsx hex0 hex1 hPY (by rw [Nat.pow_one] at hlt; omega) hR
            (by rw [hR]; exact Nat.mod_lt _ hYpos) (by rw [hQ])
          exact ⟨res, h1, h2⟩
  · -- exponent of x above the exponent of y: the scaling loop
    have hlt' : ey.toInt < ex.toInt := by
      have : ¬ (diff1.toInt ≤ 0) := by
        intro h; apply hle; rw [Int32.le_iff_toInt_le]
        have : (0 : Int32).toInt = 0 := by decide
        omega
      clear hmin
      omega
    rw [if_neg (by rw [decide_eq_true_eq]; exact hle)]
    have hnle : ¬ (ex.toInt ≤ ey.toInt) := by omega
    rw [hmin, if_neg hnle]
    have e0 : (ey.toInt - ey.toInt).toNat = 0 := by omega
    rw [e0, Nat.pow_zero, Nat.mul_one]
    have hw1 : (cy.w1 == 0) = decide (cy.toNat' < 2 ^ 64) := by
      rw [Bool.eq_iff_iff]
      simp only [beq_iff_eq, decide_eq_true_eq, ← UInt64.toNat_inj]
      have : (0 : UInt64).toNat = 0 := rfl
      rw [this]
      have := cy.w0.toNat_lt
      unfold U128.toNat'; omega
    rw [hw1]
    by_cases h64 : cy.toNat' < 2 ^ 64
    · rw [if_pos (by rw [decide_eq_true_eq]; exact h64)]
      exact hKL s34 (Or.inr ⟨by decide, h64⟩) hlt'
    · rw [if_neg (by rw [decide_eq_true_eq]; exact h64)]
      exact hKL s38 (Or.inl ⟨by decide, by omega⟩) hlt'



/-! ## 15. The finite–finite arms of the specification -/

/-- `Dec.fmodD` on two finite data with a non-zero divisor, in the shape of `fmod_finite` -/
theorem fmodD_fin (s1 s2 : Bool) (c1 c2 : Nat) (e1 e2 : Int) (hc2 : c2 ≠ 0) :
    fmodD (.fin s1 c1 e1) (.fin s2 c2 e2) =
      (.fin s1 ((c1 * 10 ^ (e1 - min e1 e2).toNat) % (c2 * 10 ^ (e2 - min e1 e2).toNat)) (min e1 e2), 0) := by
  have hmin : min e1 e2 = if e1 ≤ e2 then e1 else e2 := by split <;> omega
  simp only [fmodD, hc2, if_false, hmin]

/-- `Dec.remD` on two finite data with a non-zero divisor is `remFin` on the aligned coefficients -/
theorem remD_fin (s1 s2 : Bool) (c1 c2 : Nat) (e1 e2 : Int) (hc2 : c2 ≠ 0) :
    remD (.fin s1 c1 e1) (.fin s2 c2 e2) =
      (remFin s1 (c1 * 10 ^ (e1 - min e1 e2).toNat) (c2 * 10 ^ (e2 - min e1 e2).toNat) (min e1 e2), 0) := by
  have hmin : min e1 e2 = if e1 ≤ e2 then e1 else e2 := by split <;> omega
  simp only [remD, hc2, if_false, hmin, remFin]
  split <;> (split <;> (try split) <;> rfl)

-- 7 rem 4 = −1 (7 = 2·4 − 1), 6 rem 4 = −2 (tie: quotient 1.5 goes to the even 2), 10 rem 4 = 2 (tie: 2.5 goes to 2)
example : remFin false 7 4 0 = .fin true 1 0 := by decide
example : remFin false 6 4 0 = .fin true 2 0 := by decide
example : remFin false 10 4 0 = .fin false 2 0 := by decide

end Dec.C10GenRem
