/-
  C09 — quantize and the quantum queries manipulate exactly the quantum.
-/
import DecModel.Ops

namespace Dec.C09

/-- a finite result of quantize always has exactly y's quantum exponent -/
theorem quantize_exponent (mode : Mode) (s1 s2 : Bool) (c1 c2 : Nat) (e1 e2 : Int) (s : Bool) (c : Nat) (e : Int) (f : Flags)
    (h : quantizeD mode (.fin s1 c1 e1) (.fin s2 c2 e2) = (.fin s c e, f)) : e = e2 ∧ s = s1 := by
  unfold quantizeD at h
  simp only at h
  split at h
  · injection h with h1 _; injection h1 with hs _ he; exact ⟨he.symm, hs.symm⟩
  · split at h
    · split at h
      · injection h with h1 _; injection h1 with hs _ he; exact ⟨he.symm, hs.symm⟩
      · simp [invalidResult, defaultNaN] at h
    · injection h with h1 _; injection h1 with hs _ he; exact ⟨he.symm, hs.symm⟩

/-- hence `same_quantum (quantize x y) y` whenever the result is finite -/
theorem same_quantum_quantize (mode : Mode) (s1 s2 : Bool) (c1 c2 : Nat) (e1 e2 : Int) (s : Bool) (c : Nat) (e : Int) (f : Flags)
    (h : quantizeD mode (.fin s1 c1 e1) (.fin s2 c2 e2) = (.fin s c e, f)) :
    sameQuantumD (.fin s c e) (.fin s2 c2 e2) = true := by
  have := (quantize_exponent mode s1 s2 c1 c2 e1 e2 s c e f h).1
  simp [sameQuantumD, this]

/-- raising the exponent: the coefficient is x's coefficient divided by the power of ten and rounded
in the requested mode; inexact exactly when a non-zero part was discarded -/
theorem quantize_round (mode : Mode) (s1 s2 : Bool) (c1 c2 : Nat) (e1 e2 : Int) (hc : c1 ≠ 0) (h : e1 < e2) :
    quantizeD mode (.fin s1 c1 e1) (.fin s2 c2 e2) =
      (.fin s1 (roundInt mode s1 (c1 / 10 ^ (e2 - e1).toNat) (c1 % 10 ^ (e2 - e1).toNat) (10 ^ (e2 - e1).toNat)) e2,
       if c1 % 10 ^ (e2 - e1).toNat = 0 then 0 else fInexact) := by
  have : ¬ (e1 ≥ e2) := by omega
  simp [quantizeD, hc, this]

/-- lowering the exponent is exact when the padded coefficient fits 34 digits, and otherwise invalid -/
theorem quantize_pad (mode : Mode) (s1 s2 : Bool) (c1 c2 : Nat) (e1 e2 : Int) (hc : c1 ≠ 0) (h : e2 ≤ e1) :
    quantizeD mode (.fin s1 c1 e1) (.fin s2 c2 e2) =
      (if c1 * 10 ^ (e1 - e2).toNat < P34 then (.fin s1 (c1 * 10 ^ (e1 - e2).toNat) e2, 0) else invalidResult) := by
  have : e1 ≥ e2 := h
  simp [quantizeD, hc, this]

theorem quantize_specials (mode : Mode) (s1 s2 : Bool) (c : Nat) (e : Int) :
    quantizeD mode (.inf s1) (.inf s2) = (.inf s1, 0) ∧
    quantizeD mode (.inf s1) (.fin s2 c e) = invalidResult ∧
    quantizeD mode (.fin s2 c e) (.inf s1) = invalidResult := by
  simp [quantizeD]

/-- `quantum x = 1·10^e` with the operand's own exponent; `quantum(±Inf) = +Inf` -/
theorem quantum_spec (s : Bool) (c : Nat) (e : Int) :
    quantumD (.fin s c e) = .fin false 1 e ∧ quantumD (.inf s) = .inf false := ⟨rfl, rfl⟩

/-- `same_quantum` compares exactly the exponents of finite operands; two infinities or two NaNs share
a quantum, mixed kinds do not -/
theorem same_quantum_spec (s1 s2 : Bool) (c1 c2 : Nat) (e1 e2 : Int) :
    sameQuantumD (.fin s1 c1 e1) (.fin s2 c2 e2) = (e1 == e2) ∧
    sameQuantumD (.inf s1) (.inf s2) = true ∧ sameQuantumD (.inf s1) (.fin s2 c2 e2) = false := ⟨rfl, rfl, rfl⟩

example : quantizeD .rne (.fin false 12345 (-2)) (.fin true 1 0) = (.fin false 123 0, fInexact) := by decide
example : quantizeD .rne (.fin false 1 0) (.fin false 1 (-34)) = invalidResult := by decide

end Dec.C09
