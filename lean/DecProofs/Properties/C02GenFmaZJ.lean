/-
  C02GenFmaZ (part J: Case (1''B), the classifications) — see C02GenFmaZ.lean
-/
import DecProofs.Properties.C02GenFmaZI
set_option linter.unusedSimpArgs false
set_option linter.unusedVariables false
set_option linter.unusedTactic false
set_option linter.unreachableTactic false
set_option linter.unnecessarySeqFocus false
namespace Dec.C02GenFmaZ
open Dec Dec.Rs Dec.Gen.Code Dec.C03GenCompare Dec.C02GenCorrection
open Dec.C08GenRoundIntegral (bind_ok' ite_true_bool ite_false_bool i32_add i32_sub i32_neg)
open Dec.C01GenAdd (idx_i32 ten2k128_get19 lt113)

/-! ## 14. Case (1''B): one unit more, one unit less -/


/-- the words of `cf + 1` -/
theorem inc_words (l h : UInt64) (cf : Nat) (hP : h.toNat * 2^64 + l.toNat = cf) (hlt : cf + 1 < 2^128) :
    (if (l + 1 == 0) = true then h + 1 else h).toNat * 2^64 + (l + 1).toNat = cf + 1 := by
  have h0 := l.toNat_lt; have h1 := h.toNat_lt
  subst hP
  by_cases hz : l + 1 = 0
  · rw [if_pos (by simpa using hz)]
    have := congrArg UInt64.toNat hz
    simp only [UInt64.toNat_add, UInt64.toNat_one, UInt64.toNat_zero] at this ⊢
    omega
  · rw [if_neg (by simpa using hz)]
    have : (l + 1).toNat ≠ 0 := fun h => hz (UInt64.toNat_inj.1 h)
    simp only [UInt64.toNat_add, UInt64.toNat_one] at this ⊢
    omega

/-- the words of `cf − 1` -/
theorem dec_words (l h : UInt64) (cf : Nat) (hP : h.toNat * 2^64 + l.toNat = cf) (h0' : 0 < cf) :
    (if (l - 1 == 0xffffffffffffffff) = true then h - 1 else h).toNat * 2^64 + (l - 1).toNat = cf - 1 := by
  have h0 := l.toNat_lt; have h1 := h.toNat_lt
  subst hP
  by_cases hz : l = 0
  · subst hz
    have hl : ((0 : UInt64) - 1) = 0xffffffffffffffff := by decide
    rw [hl, if_pos (by decide)]
    simp only [UInt64.toNat_zero] at h0' ⊢
    have hh : 1 ≤ h.toNat := by omega
    rw [UInt64.toNat_sub_of_le _ _ (by rw [UInt64.le_iff_toNat_le]; exact hh)]
    show (h.toNat - 1) * 2^64 + 18446744073709551615 = _
    omega
  · have hl1 : 1 ≤ l.toNat := by
      rcases Nat.eq_zero_or_pos l.toNat with h | h
      · exact absurd (UInt64.toNat_inj.1 h) hz
      · exact h
    have hs : (l - 1).toNat = l.toNat - 1 := by
      rw [UInt64.toNat_sub_of_le _ _ (by rw [UInt64.le_iff_toNat_le]; exact hl1)]; rfl
    have hne : ¬ (l - 1 == 0xffffffffffffffff) = true := by
      rw [beq_iff_eq, ← UInt64.toNat_inj, hs]
      show ¬ l.toNat - 1 = 18446744073709551615
      omega
    rw [if_neg hne, hs]
    omega

theorem odd_test (l h : UInt64) (cf : Nat) (hP : h.toNat * 2^64 + l.toNat = cf) :
    ((l &&& 1) == 1) = decide (cf % 2 = 1) := by
  rw [Bool.eq_iff_iff, beq_iff_eq, decide_eq_true_eq, ← UInt64.toNat_inj, UInt64.toNat_and]
  show l.toNat &&& 1 = 1 ↔ _
  rw [Nat.and_one_is_mod]
  omega


/-- equal signs: the coefficient before the decade wrap and the indicators `(ML, MG, L, G)`, by the comparison with half a
unit -/
def sameCls (cf : Nat) (lt eq gt : Bool) : Nat × Bool × Bool × Bool × Bool :=
  if lt = true then (cf, false, false, true, false)
  else if (eq = true ∧ cf % 2 = 1) ∨ gt = true then (cf + 1, eq, false, false, !eq)
  else (cf, false, true, false, false)

/-- `10^34` in two words, tested with the coefficient mask -/
theorem p34_test (l h : UInt64) (c : Nat) (hP : h.toNat * 2^64 + l.toNat = c) (hc : c < 2^113) :
    (((h &&& c_MASK_COEFF) == (0x1ed09bead87c0 : UInt64)) && (l == (0x378d8e6400000000 : UInt64))) = decide (c = P34) := by
  have hl := l.toNat_lt
  have hcw := coeff_words ⟨l, h⟩
  simp only [sigW] at hcw
  have hh : h.toNat < 2^49 := by omega
  rw [Nat.mod_eq_of_lt hh] at hcw
  rw [Bool.eq_iff_iff, Bool.and_eq_true, beq_iff_eq, beq_iff_eq, decide_eq_true_eq, ← UInt64.toNat_inj, ← UInt64.toNat_inj]
  have e34 : P34 = 10000000000000000000000000000000000 := rfl
  show (h &&& c_MASK_COEFF).toNat = 0x1ed09bead87c0 ∧ l.toNat = 0x378d8e6400000000 ↔ _
  have : (h &&& c_MASK_COEFF).toNat = h.toNat := by
    have := congrArg (fun x => x) hcw
    omega
  rw [this, e34]
  subst hP
  omega

/-- **Case (1''B), equal signs: the classification**: the words of the delivered pair `deliver cf' ef` under sign and
exponent, the indicators -/
theorem z2SameCls_spec {α : Type} (l h z_sign zx : UInt64) (e3 : Int32) (lt eq gt : Bool)
    (k : U128 → UInt64 → Int32 → Bool → Bool → Bool → Bool → Except String α) (cf : Nat) (ef : Int)
    (hP : h.toNat * 2^64 + l.toNat = cf) (hcf : cf < 10 ^ 34) (he : e3.toInt = ef) (h1 : -6176 ≤ ef) (h2 : ef ≤ 12300)
    (hzx : zx.toNat = (ef + 6176).toNat * 2^49) :
    ∃ (l' h' zx' : UInt64) (e3' : Int32),
      z2SameCls ⟨l, h⟩ z_sign zx e3 false false false false lt eq gt k =
        k ⟨l', h' ||| (z_sign ||| (zx' &&& c_MASK_EXP))⟩ zx' e3' (sameCls cf lt eq gt).2.1 (sameCls cf lt eq gt).2.2.1
          (sameCls cf lt eq gt).2.2.2.1 (sameCls cf lt eq gt).2.2.2.2 ∧
      h'.toNat * 2^64 + l'.toNat = (deliver (sameCls cf lt eq gt).1 ef).1 ∧
      ((deliver (sameCls cf lt eq gt).1 ef).2 ≤ 6111 →
        zx'.toNat = ((deliver (sameCls cf lt eq gt).1 ef).2 + 6176).toNat * 2^49) ∧
      e3'.toInt = (deliver (sameCls cf lt eq gt).1 ef).2 := by
  have e34 : P34 = 10000000000000000000000000000000000 := rfl
  have hnd : deliver cf ef = (cf, ef) := by unfold deliver; rw [if_neg (by omega)]
  by_cases hlt : lt = true
  · have hc : sameCls cf lt eq gt = (cf, false, false, true, false) := by unfold sameCls; rw [if_pos hlt]
    rw [hc]
    refine ⟨l, h, zx, e3, ?_, by rw [hnd]; exact hP, fun _ => by rw [hnd]; exact hzx, by rw [hnd]; exact he⟩
    simp only [z2SameCls, bind, pure, Except.pure, bind_ok', hlt, if_true]
  · by_cases hinc : (eq = true ∧ cf % 2 = 1) ∨ gt = true
    · have hc : sameCls cf lt eq gt = (cf + 1, eq, false, false, !eq) := by unfold sameCls; rw [if_neg hlt, if_pos hinc]
      rw [hc]
      have hb : (((eq && (((l &&& (1 : UInt64))) == (1 : UInt64)))) || gt) = true := by
        rw [odd_test l h cf hP]
        rcases hinc with ⟨a, b⟩ | a
        · simp [a, b]
        · simp [a]
      have hw := inc_words l h cf hP (by omega)
      have ht := p34_test (l + 1) (if (l + 1 == 0) = true then h + 1 else h) (cf + 1) hw (by omega)
      by_cases hwrap : cf + 1 = P34
      · have hd : deliver (cf + 1) ef = (P33, ef + 1) := by unfold deliver; rw [if_pos hwrap]
        have he1 : (e3 + 1).toInt = ef + 1 := by rw [i32_add _ _ (by omega) (by decide), he]; rfl
        refine ⟨0x38c15b0a00000000, 0x314dc6448d93,
          ((UInt64.ofInt (toI (e3 + 1 + (0x1820 : Int32)))) <<< 0x31) &&& c_MASK_EXP, e3 + 1, ?_, by rw [hd]; rfl,
          fun hle => ?_, by rw [hd]; exact he1⟩
        · rw [show decide (cf + 1 = P34) = true from by simpa using hwrap] at ht
          simp only [z2SameCls, bind, pure, Except.pure, bind_ok', hlt, if_false, Bool.false_eq_true, hb, if_true]
          by_cases hz : (l + 1 == 0) = true
          · simp only [hz, if_true] at ht ⊢
            simp only [ht, if_true]
            cases eq <;> rfl
          · simp only [hz, if_false, Bool.false_eq_true] at ht ⊢
            simp only [ht, if_true]
            cases eq <;> rfl
        · rw [hd] at hle ⊢
          have hw' := expw_of_i32 (e3 + 1) (ef + 1) he1 (by omega) (by show ef + 1 ≤ 6200; have : ef + 1 ≤ 6111 := hle; omega)
          rw [mask_exp_id _ (ef + 1 + 6176).toNat hw' (by have : ef + 1 ≤ 6111 := hle; omega)]
          exact hw'
      · have hd : deliver (cf + 1) ef = (cf + 1, ef) := by unfold deliver; rw [if_neg hwrap]
        refine ⟨l + 1, if (l + 1 == 0) = true then h + 1 else h, zx, e3, ?_, by rw [hd]; exact hw,
          fun _ => by rw [hd]; exact hzx, by rw [hd]; exact he⟩
        rw [show decide (cf + 1 = P34) = false from by simpa using hwrap] at ht
        simp only [z2SameCls, bind, pure, Except.pure, bind_ok', hlt, if_false, Bool.false_eq_true, hb, if_true]
        by_cases hz : (l + 1 == 0) = true
        · simp only [hz, if_true] at ht ⊢
          simp only [ht, if_false, Bool.false_eq_true]
          cases eq <;> rfl
        · simp only [hz, if_false, Bool.false_eq_true] at ht ⊢
          simp only [ht, if_false, Bool.false_eq_true]
          cases eq <;> rfl
    · have hc : sameCls cf lt eq gt = (cf, false, true, false, false) := by unfold sameCls; rw [if_neg hlt, if_neg hinc]
      rw [hc]
      have hb : (((eq && (((l &&& (1 : UInt64))) == (1 : UInt64)))) || gt) = false := by
        rw [odd_test l h cf hP]
        cases eq <;> cases gt <;> simp at hinc ⊢
        · exact hinc
      refine ⟨l, h, zx, e3, ?_, by rw [hnd]; exact hP, fun _ => by rw [hnd]; exact hzx, by rw [hnd]; exact he⟩
      have hlt' : lt = false := by simpa using hlt
      simp only [z2SameCls, bind, pure, Except.pure, bind_ok', hlt', if_false, Bool.false_eq_true, hb]


end Dec.C02GenFmaZ
