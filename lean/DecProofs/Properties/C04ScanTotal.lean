/-
  DecProofs.Properties.C04ScanTotal — TOTALITY of the code-shaped model of `bid128_from_string`
  (`convert_from_decimal_character`): for EVERY text and every rounding mode the composed model
  (scanner `Dec.scanCP` of DecModel/Scan.lean + numeric phase `Dec.ScanNum.numericPhase` of DecModel/ScanNum.lean +
  the packer `PackH.get_BID128` of DecModel/PackHelpers.lean) returns `some …`, i.e. reaches none of its panic sites.

  Headline theorems (no extra hypothesis; axioms: propext, Classical.choice, Quot.sound):
    * `fromStringCP_total   (mode) (cps : List Nat)   : ScanNum.fromStringCP mode cps ≠ none`
    * `fromStringCode_total (mode) (text : List Char) : fromStringCode mode text ≠ none`
    * `fromStringCodeBits_total (mode) (utf8 : Bytes) : fromStringCodeBits mode utf8 ≠ some none`
      (the judge interface never predicts a panic)
  This extends `C04ScanNum.fromStringCode_no_panic` (well-formed literals, ≤ 100 digits, bounded exponent) to all
  texts: lenient spellings, ill-formed text, more than 100 digits, any exponent, non-ASCII code points.

  How it is proved.
    1. `get_total` / `pack_total`: `bid_get_BID128` cannot index a table out of range for ANY sign word, ANY
       coefficient words and ANY exponent in the `i32` range (the only table accesses are in `handle_UF_128`, reached
       with `−34 ≤ expon ≤ −1` after the early return, so `ed2 ∈ 1..34`; the tables have 36 rows —
       `C13PackHelpers.table_shapes`, `recip_scale_range`).  The numeric phase passes `wrapI32 …`, always in range.
    2. `readRun_total`, `slice_total`, `smallPath_total`, `carryOf_total`, `largePath_total`: `buffer` is an array of
       exactly 100 entries (`arrOf_length`), and every index / slice the phase forms is within it whenever the
       number `n` of stored digits is what `numericPhase` passes (`n ≤ 34` on the small path; `35 ≤ min n 100 ≤ 100`
       on the large path).  No hypothesis on the contents of `buffer` is needed — except at ONE place:
       `char::to_digit(buffer[34], 10).unwrap()` in the `NearestAway` arm (`carryOf … .rna`), which needs
       `buffer[34]` to be a digit.
    3. `Inv l := (l.intDigits ++ l.fracDigits).all isDigitB` — the explicit decidable invariant of the hand-over
       `.number l sticky`; `numericPhase_total : Inv l → (numericPhase mode l sticky).isSome`.  Nothing about the
       digit count, the first digit, the exponent size or `sticky` is needed.
    4. `scanCP_inv : scanCP cps = .number l sticky → Inv l` — the three digit loops store a character only behind
       `char::is_digit(c, 10)` (`collectDigits_digits`), and `finishScan` adds only `'0'`s.
    5. the scanner itself never panics: `C04Scan.scanCP_np` (reused).

  Nothing is missing: there is no `_partial` theorem in this file.  Adversarial texts evaluated on the model in all
  five modes before the proof (101/150/200 digits, `1e±9999999`, 7000 fraction zeros, sub-`'0'` characters such as
  `/` and `!` that the signed comparison of line 312 lets through, non-ASCII text) all gave `some …`.
-/
import DecModel.ScanNum
import DecProofs.Properties.C04Scan
import DecProofs.Properties.C13PackHelpers

namespace Dec.C04ScanTotal
open Dec.PackH Dec.ScanNum Dec.C13PackHelpers Dec.C04Scan

set_option linter.unnecessarySeqFocus false
set_option linter.unusedSimpArgs false

/-! ## 1. the packer never indexes a table out of range on an `i32` exponent -/

theorem wrapI32_range (x : Int) : -2147483648 ≤ wrapI32 x ∧ wrapI32 x < 2147483648 := by
  unfold wrapI32; omega

theorem ufTail_total (sgn x : Nat) (CQ : U128) (mode : Mode) (fpsc : Nat) (h1 : 1 ≤ x) (h2 : x ≤ 35) :
    (ufTail sgn (x : Int) CQ mode fpsc).isSome = true := by
  simp only [ufTail, roundConst_eq _ x h1 h2, recip_eq x h2, recipScale_eq x h2, Option.isSome_some]

theorem handle_UF_total (sgn : Nat) (e : Int) (CQ : U128) (mode : Mode) (fpsc : Nat)
    (h1 : -2147483648 ≤ e) (h2 : e < 0) : (handle_UF_128 sgn e CQ mode fpsc).isSome = true := by
  unfold handle_UF_128
  by_cases hd : wrapI32 (e + 34) < 0
  · rw [if_pos hd]; rfl
  · rw [if_neg hd]
    have hge : -34 ≤ e := by
      by_contra hlt
      apply hd
      rw [wrapI32_id _ (by omega) (by omega)]; omega
    obtain ⟨x, hx⟩ : ∃ x : Nat, e = -(x : Int) := ⟨(-e).toNat, by omega⟩
    subst hx
    rw [wrapI32_id _ (by omega) (by omega)]
    have : (0 : Int) - -(x : Int) = (x : Int) := by omega
    rw [this]
    exact ufTail_total sgn x CQ mode fpsc (by omega) (by omega)

theorem get_total (sgn : Nat) (e : Int) (c : U128) (mode : Mode) (fpsc : Nat)
    (h1 : -2147483648 ≤ e) (h2 : e < 2147483648) : (get_BID128 sgn e c mode fpsc).isSome = true := by
  unfold get_BID128
  split
  rename_i expon coeff heq
  have hr : -2147483648 ≤ expon ∧ expon < 2147483648 := by
    split at heq
    · have := (Prod.mk.inj heq).1
      have := wrapI32_range (e + 1)
      omega
    · have := (Prod.mk.inj heq).1
      omega
  split
  · rfl
  · split
    · exact handle_UF_total _ _ _ _ _ hr.1 (by assumption)
    · split
      split
      · split
        · rfl
        · split <;> rfl
      · rfl

theorem pack_total (signX : Nat) (e : Int) (CX : U128) (mode : Mode) (fpsf : Nat)
    (h1 : -2147483648 ≤ e) (h2 : e < 2147483648) : (pack signX e CX mode fpsf).isSome = true := by
  unfold pack
  rw [Option.isSome_map]
  exact get_total _ _ _ _ _ h1 h2

/-! ## 2. the numeric phase: every index and slice of `buffer` is in range -/

theorem arrOf_length (buf : Bytes) : (arrOf buf).length = 100 := by
  simp [arrOf]

theorem arrOf_get (buf : Bytes) (i : Nat) (hi : i < buf.length) (h100 : i < 100) :
    (arrOf buf)[i]? = buf[i]? := by
  unfold arrOf
  rw [List.getElem?_take_of_lt h100, List.getElem?_append_left hi]

theorem slice_total (arr : Bytes) (hlen : arr.length = 100) (a b : Nat) (hab : a ≤ b) (hb : b ≤ 100) :
    slice arr a b = some ((arr.take b).drop a) := by
  unfold slice
  rw [if_pos ⟨hab, by omega⟩]

theorem readRun_total (arr : Bytes) (hlen : arr.length = 100) (a b : Nat) (hab : a + 1 ≤ b) (hb : b ≤ 100) :
    ∃ v, readRun arr a b = some v := by
  have ha : a < arr.length := by omega
  unfold readRun
  rw [List.getElem?_eq_getElem ha, slice_total arr hlen (a + 1) b hab hb]
  exact ⟨_, rfl⟩

theorem isSome_bind_of {α β : Type} {o : Option α} {f : α → Option β} {v : α} (h : o = some v)
    (hf : (f v).isSome = true) : (o >>= f).isSome = true := by
  subst h; exact hf

theorem smallPath_total (mode : Mode) (signX : Nat) (arr : Bytes) (hlen : arr.length = 100) (n : Nat) (hn : n ≤ 34)
    (e : Int) (h1 : -2147483648 ≤ e) (h2 : e < 2147483648) : (smallPath mode signX arr n e).isSome = true := by
  unfold smallPath
  split
  · exact Option.isSome_some
  · split
    · obtain ⟨v, hv⟩ := readRun_total arr hlen 0 n (by omega) (by omega)
      refine isSome_bind_of hv ?_
      exact pack_total _ _ _ _ _ h1 h2
    · obtain ⟨m, rfl⟩ : ∃ m, n = m + 17 := ⟨n - 17, by omega⟩
      rw [Nat.add_sub_cancel]
      obtain ⟨v, hv⟩ := readRun_total arr hlen 0 m (by omega) (by omega)
      obtain ⟨w, hw⟩ := readRun_total arr hlen m (m + 17) (by omega) (by omega)
      refine isSome_bind_of hv ?_
      refine isSome_bind_of hw ?_
      exact pack_total _ _ _ _ _ h1 h2

theorem carryOf_total (mode : Mode) (signX : Nat) (arr : Bytes) (hlen : arr.length = 100) (n : Nat)
    (hn : 35 ≤ n) (hn' : n ≤ 100) (e : Int) (coeffLow : Nat)
    (b : Nat) (hb : arr[34]? = some b) (hd : isDigitB b = true) :
    (carryOf mode signX arr n e coeffLow).isSome = true := by
  have s34 := slice_total arr hlen 34 n (by omega) hn'
  have s35 := slice_total arr hlen 35 n (by omega) hn'
  have ht : toDigit10 b = some (b - 48) := by simp [toDigit10, hd]
  cases mode <;> simp only [carryOf]
  · -- rne
    refine isSome_bind_of hb ?_
    split_ifs <;> first
      | exact Option.isSome_some
      | exact isSome_bind_of s35 Option.isSome_some
      | exact isSome_bind_of s34 Option.isSome_some
  · -- rdn
    split_ifs <;> first
      | exact Option.isSome_some
      | exact isSome_bind_of s34 Option.isSome_some
  · -- rup
    split_ifs <;> first
      | exact Option.isSome_some
      | exact isSome_bind_of s34 Option.isSome_some
  · -- rtz
    exact Option.isSome_some
  · -- rna
    refine isSome_bind_of hb ?_
    refine isSome_bind_of ht ?_
    split_ifs <;> first
      | exact Option.isSome_some
      | exact isSome_bind_of s34 Option.isSome_some

theorem largePath_total (mode : Mode) (signX : Nat) (arr : Bytes) (hlen : arr.length = 100) (n : Nat)
    (hn : 35 ≤ n) (hn' : n ≤ 100) (e : Int) (h1 : -2147483648 ≤ e) (h2 : e < 2147483648) (si : Bool)
    (b : Nat) (hb : arr[34]? = some b) (hd : isDigitB b = true) :
    (largePath mode signX arr n e si).isSome = true := by
  unfold largePath
  obtain ⟨v, hv⟩ := readRun_total arr hlen 0 17 (by omega) (by omega)
  obtain ⟨w, hw⟩ := readRun_total arr hlen 17 34 (by omega) (by omega)
  obtain ⟨c, hc⟩ := Option.isSome_iff_exists.1 (carryOf_total mode signX arr hlen n hn hn' e w b hb hd)
  refine isSome_bind_of hv ?_
  refine isSome_bind_of hw ?_
  refine isSome_bind_of hc ?_
  apply pack_total
  · split
    · exact (wrapI32_range _).1
    · exact h1
  · split
    · exact (wrapI32_range _).2
    · exact h2

/-! ## 3. the invariant of the hand-over, and the numeric phase under it -/

/-- **The invariant of the hand-over** `.number l sticky`: every character the scanner has stored (`l.intDigits`,
`l.fracDigits`, hence `buffer`) is one of the ASCII digits `'0'..'9'` (48..57).  It does not mention `sticky`, the
number of digits, or the exponent: nothing else is needed. -/
def Inv (l : Literal) : Bool := (l.intDigits ++ l.fracDigits).all isDigitB

theorem bufOf_digits (l : Literal) (h : Inv l = true) : ∀ b ∈ bufOf l, isDigitB b = true := by
  intro b hb
  simp only [Inv, List.all_eq_true] at h
  apply h
  simp only [bufOf, List.mem_append] at hb ⊢
  rcases hb with hb | hb
  · exact Or.inl hb
  · exact Or.inr (List.mem_of_mem_drop hb)

/-- **The numeric phase never panics under the invariant** — any number of stored digits (also more than 100: the
array model `arrOf` keeps 100), any exponent `l.exp : Int` (the code reduces it to `i32`), any `sticky`, any mode. -/
theorem numericPhase_total (mode : Mode) (l : Literal) (sticky : Bool) (h : Inv l = true) :
    (numericPhase mode l sticky).isSome = true := by
  unfold numericPhase
  dsimp only
  split
  · rename_i hn
    exact smallPath_total _ _ _ (arrOf_length _) _ hn _ (wrapI32_range _).1 (wrapI32_range _).2
  · rename_i hn
    have hlt : 34 < (bufOf l).length := by omega
    have hb : (arrOf (bufOf l))[34]? = some (bufOf l)[34] := by
      rw [arrOf_get _ _ hlt (by omega), List.getElem?_eq_getElem hlt]
    exact largePath_total _ _ _ (arrOf_length _) _ (by omega) (by omega) _ (wrapI32_range _).1 (wrapI32_range _).2 _ _ hb
      (bufOf_digits l h _ (List.getElem_mem _))

/-! ## 4. the scanner establishes the invariant -/

/-- if the outcome is a hand-over to the numeric phase, the invariant holds -/
def Good (o : ScanOutcome) : Prop := ∀ l st, o = .number l st → Inv l = true

theorem collectDigits_digits (r : List Nat) : ∀ n buf st a, (∀ b ∈ buf, isDigitB b = true) →
    collectDigits r n buf st = .ok a → ∀ b ∈ a.buf, isDigitB b = true := by
  induction r with
  | nil =>
    intro n buf st a hbuf h
    unfold collectDigits at h
    cases h
    exact hbuf
  | cons c t ih =>
    intro n buf st a hbuf h
    unfold collectDigits at h
    split at h
    · cases h; exact hbuf
    · rename_i hc
      have hc' : isDigitB c = true := by simpa using hc
      have hbuf' : ∀ b ∈ buf ++ [c], isDigitB b = true := by
        intro b hb
        rcases List.mem_append.1 hb with hb | hb
        · exact hbuf b hb
        · have : b = c := by simpa using hb
          rw [this]; exact hc'
      split at h
      · rename_i hn
        have : bufSet buf n c = some (buf ++ [c]) := by simp [bufSet]; omega
        simp only [this] at h
        exact ih _ _ _ _ hbuf' h
      · split at h
        · rename_i hn
          have : bufSet buf n c = some (buf ++ [c]) := by simp [bufSet, hn]
          simp only [this] at h
          exact ih _ _ _ _ hbuf' h
        · exact ih _ _ _ _ hbuf h

theorem finishScan_good (neg : Bool) (nb : Nat) (buf : Bytes) (st : Bool) (z : Nat) (r : List Nat)
    (hbuf : ∀ b ∈ buf, isDigitB b = true) : Good (finishScan neg nb buf st z r) := by
  intro l s h
  unfold finishScan at h
  split at h
  · cases h
  · cases h
  · injection h with h1 h2
    subst h1
    simp only [Inv, List.all_eq_true, List.mem_append, List.mem_replicate]
    rintro b (hb | ⟨_, rfl⟩ | hb)
    · exact hbuf b (List.mem_of_mem_take hb)
    · rfl
    · exact hbuf b (List.mem_of_mem_drop hb)

theorem scanDigits_good (neg : Bool) (r : List Nat) (rdx : Bool) (z : Nat) : Good (scanDigits neg r rdx z) := by
  unfold scanDigits
  obtain ⟨a, ha⟩ := collectDigits_ok r 0 [] false
  have hda := collectDigits_digits r 0 [] false a (by simp) ha
  split
  · rw [ha]
    simp only
    split
    · obtain ⟨b, hb⟩ := collectDigits_ok a.rest.tail a.n a.buf a.sticky
      have hdb := collectDigits_digits _ _ _ _ b hda hb
      rw [hb]
      exact finishScan_good _ _ _ _ _ _ hdb
    · exact finishScan_good _ _ _ _ _ _ hda
  · rw [ha]
    exact finishScan_good _ _ _ _ _ _ hda

theorem zeroLoop_good (neg : Bool) (r : List Nat) (rdx : Bool) (z : Nat)
    (o : ScanOutcome) (ho : zeroLoop neg r rdx z = .done o) : Good o := by
  fun_induction zeroLoop neg r rdx z generalizing o
  case case1 => cases ho
  case case2 => cases ho
  case case3 => cases ho; intro l s h; cases h
  case case4 => cases ho
  case case5 => cases ho; intro l s h; cases h
  case case6 => cases ho; intro l s h; cases h
  case case7 ih => exact ih o ho
  case case8 => cases ho; intro l s h; cases h
  case case9 ih => exact ih o ho

theorem scanBody_good (neg : Bool) (r : List Nat) : Good (scanBody neg r) := by
  unfold scanBody
  split
  · exact scanDigits_good _ _ _ _
  · rename_i c t
    split
    · intro l s h; cases h
    · simp only
      split
      · rename_i o ho
        exact zeroLoop_good neg _ _ 0 o ho
      · exact scanDigits_good _ _ _ _

theorem scanSpecial_good (s : List Nat) (ps : Nat) : Good (scanSpecial s ps) := by
  unfold scanSpecial
  split
  · intro l s h; cases h
  · split
    · intro l s h; cases h
    · split <;> (intro l s h; cases h)

theorem scanSigned_good (s : List Nat) (ps c : Nat) (t : List Nat) : Good (scanSigned s ps c t) := by
  unfold scanSigned
  split
  · intro l s h; cases h
  · split
    · split
      · intro l s h; cases h
      · split <;> (intro l s h; cases h)
    · split
      · split <;> (intro l s h; cases h)
      · exact scanBody_good _ _

theorem scanCP_good (s : List Nat) : Good (scanCP s) := by
  unfold scanCP
  split
  · intro l s h; cases h
  · simp only
    split
    · exact scanSpecial_good _ _
    · split
      · exact scanSpecial_good _ _
      · exact scanSigned_good _ _ _ _

/-- **What the scanner hands over satisfies the invariant**, for every text. -/
theorem scanCP_inv (cps : List Nat) (l : Literal) (sticky : Bool) (h : scanCP cps = .number l sticky) :
    Inv l = true := scanCP_good cps l sticky h

/-! ## 5. the composition -/

/-- **Conversion from decimal characters never panics (code points).**  For every list of code points — lenient
spellings, ill-formed text, more than 100 digits, huge exponents, non-ASCII code points — and every rounding mode,
the composed code-shaped model (scanner + numeric phase + `bid_get_BID128`) returns a result: none of its panic
sites (a `buffer` index or slice out of range, an `unwrap` on `None`, a byte slice off a character boundary,
`to_digit(..).unwrap()` on a non-digit, a table index out of range in the packer) is reached.  All the functions
involved are structural recursions, so this is also termination. -/
theorem fromStringCP_total (mode : Mode) (cps : List Nat) : ScanNum.fromStringCP mode cps ≠ none := by
  unfold ScanNum.fromStringCP
  split
  · simp
  · simp
  · simp
  · simp
  · rename_i l st heq
    exact Option.isSome_iff_ne_none.1 (numericPhase_total mode l st (scanCP_inv cps l st heq))
  · rename_i site heq
    exact absurd heq (scanCP_np cps site)

/-- **Conversion from decimal characters never panics.**  The same for a text given as its list of characters. -/
theorem fromStringCode_total (mode : Mode) (text : List Char) : fromStringCode mode text ≠ none :=
  fromStringCP_total mode (text.map Char.toNat)

/-- **The judge interface never predicts a panic**: for every byte string, `fromStringCodeBits` is either `none`
(the bytes are not well-formed UTF-8, so not a `&str`) or `some (some (pattern, flags))`. -/
theorem fromStringCodeBits_total (mode : Mode) (utf8 : Bytes) : fromStringCodeBits mode utf8 ≠ some none := by
  unfold fromStringCodeBits
  cases h : utf8Decode? utf8 with
  | none => simp
  | some cps =>
    simp only [Option.map_some, ne_eq, Option.some.injEq]
    exact fromStringCP_total mode cps

end Dec.C04ScanTotal
