import DecModel.ScanNum
import DecProofs.Properties.C04Scan
import DecProofs.Properties.C13PackHelpers

namespace Dec.C04ScanTotal
open Dec.PackH Dec.ScanNum Dec.C13PackHelpers Dec.C04Scan

set_option linter.unnecessarySeqFocus false
set_option linter.unusedSimpArgs false

/-! ## 1. the packer never indexes a table out of range on an `i32` exponent -/

theorem wrapI32_range (x : Int) : -2147483648 ≤ wrapI32 x ∧ wrapI32 x < 2147483648 := by
  unfold wrapI32; omega

theorem ufTail_total (sgn x : Nat) (CQ : U128) (mode : Mode) (fpsc : Nat) (h1 : 1 ≤ x) (h2 : x ≤ 35) :
    (ufTail sgn (x : Int) CQ mode fpsc).isSome = true := by
  simp only [ufTail, roundConst_eq _ x h1 h2, recip_eq x h2, recipScale_eq x h2, Option.isSome_some]

theorem handle_UF_total (sgn : Nat) (e : Int) (CQ : U128) (mode : Mode) (fpsc : Nat)
    (h1 : -2147483648 ≤ e) (h2 : e < 0) : (handle_UF_128 sgn e CQ mode fpsc).isSome = true := by
  unfold handle_UF_128
  by_cases hd : wrapI32 (e + 34) < 0
  · rw [if_pos hd]; rfl
  · rw [if_neg hd]
    have hge : -34 ≤ e := by
      by_contra hlt
      apply hd
      rw [wrapI32_id _ (by omega) (by omega)]; omega
    obtain ⟨x, hx⟩ : ∃ x : Nat, e = -(x : Int) := ⟨(-e).toNat, by omega⟩
    subst hx
    rw [wrapI32_id _ (by omega) (by omega)]
    have : (0 : Int) - -(x : Int) = (x : Int) := by omega
    rw [this]
    exact ufTail_total sgn x CQ mode fpsc (by omega) (by omega)

theorem get_total (sgn : Nat) (e : Int) (c : U128) (mode : Mode) (fpsc : Nat)
    (h1 : -2147483648 ≤ e) (h2 : e < 2147483648) : (get_BID128 sgn e c mode fpsc).isSome = true := by
  unfold get_BID128
  split
  rename_i expon coeff heq
  have hr : -2147483648 ≤ expon ∧ expon < 2147483648 := by
    split at heq
    · have := (Prod.mk.inj heq).1
      have := wrapI32_range (e + 1)
      omega
    · have := (Prod.mk.inj heq).1
      omega
  split
  · rfl
  · split
    · exact handle_UF_total _ _ _ _ _ hr.1 (by assumption)
    · split
      split
      · split
        · rfl
        · split <;> rfl
      · rfl

theorem pack_total (signX : Nat) (e : Int) (CX : U128) (mode : Mode) (fpsf : Nat)
    (h1 : -2147483648 ≤ e) (h2 : e < 2147483648) : (pack signX e CX mode fpsf).isSome = true := by
  unfold pack
  rw [Option.isSome_map]
  exact get_total _ _ _ _ _ h1 h2

/-! ## 2. the numeric phase: every index and slice of `buffer` is in range -/

theorem arrOf_length (buf : Bytes) : (arrOf buf).length = 100 := by
  simp [arrOf]

theorem arrOf_get (buf : Bytes) (i : Nat) (hi : i < buf.length) (h100 : i < 100) :
    (arrOf buf)[i]? = buf[i]? := by
  unfold arrOf
  rw [List.getElem?_take_of_lt h100, List.getElem?_append_left hi]

theorem slice_total (arr : Bytes) (hlen : arr.length = 100) (a b : Nat) (hab : a ≤ b) (hb : b ≤ 100) :
    slice arr a b = some ((arr.take b).drop a) := by
  unfold slice
  rw [if_pos ⟨hab, by omega⟩]

theorem readRun_total (arr : Bytes) (hlen : arr.length = 100) (a b : Nat) (hab : a + 1 ≤ b) (hb : b ≤ 100) :
    ∃ v, readRun arr a b = some v := by
  have ha : a < arr.length := by omega
  unfold readRun
  rw [List.getElem?_eq_getElem ha, slice_total arr hlen (a + 1) b hab hb]
  exact ⟨_, rfl⟩

theorem smallPath_total (mode : Mode) (signX : Nat) (arr : Bytes) (hlen : arr.length = 100) (n : Nat) (hn : n ≤ 34)
    (e : Int) (h1 : -2147483648 ≤ e) (h2 : e < 2147483648) : (smallPath mode signX arr n e).isSome = true := by
  unfold smallPath
  split
  · exact Option.isSome_some
  · split
    · obtain ⟨v, hv⟩ := readRun_total arr hlen 0 n (by omega) (by omega)
      simp only [hv, Option.bind_eq_bind, Option.bind_some]
      exact pack_total _ _ _ _ _ h1 h2
    · obtain ⟨v, hv⟩ := readRun_total arr hlen 0 (n - 17) (by omega) (by omega)
      obtain ⟨w, hw⟩ := readRun_total arr hlen (n - 17) n (by omega) (by omega)
      simp only [hv, hw, Option.bind_eq_bind, Option.bind_some]
      exact pack_total _ _ _ _ _ h1 h2

#exit
theorem carryOf_total (mode : Mode) (signX : Nat) (arr : Bytes) (hlen : arr.length = 100) (n : Nat)
    (hn : 35 ≤ n) (hn' : n ≤ 100) (e : Int) (coeffLow : Nat)
    (b : Nat) (hb : arr[34]? = some b) (hd : isDigitB b = true) :
    ∃ c, carryOf mode signX arr n e coeffLow = some c := by
  have s34 := slice_total arr hlen 34 n (by omega) hn'
  have s35 := slice_total arr hlen 35 n (by omega) hn'
  cases mode
  · -- rne
    simp only [carryOf, hb, Option.bind_eq_bind, Option.bind_some, bind, Option.bind]
    split
    · by_cases he : e ≥ 0
      · simp only [he, if_true, s35]; exact ⟨_, rfl⟩
      · simp only [he, if_false, s34]; exact ⟨_, rfl⟩
    · exact ⟨_, rfl⟩
  · -- rdn
    simp only [carryOf]
    split
    · simp only [s34, Option.bind_eq_bind, Option.bind_some, bind, Option.bind]; exact ⟨_, rfl⟩
    · exact ⟨_, rfl⟩
  · -- rup
    simp only [carryOf]
    split
    · simp only [s34, Option.bind_eq_bind, Option.bind_some, bind, Option.bind]; exact ⟨_, rfl⟩
    · exact ⟨_, rfl⟩
  · exact ⟨_, rfl⟩
  · -- rna
    have ht : toDigit10 b = some (b - 48) := by simp [toDigit10, hd]
    simp only [carryOf, hb, ht, Option.bind_eq_bind, Option.bind_some, bind, Option.bind]
    split
    · split
      · simp only [s34]; exact ⟨_, rfl⟩
      · exact ⟨_, rfl⟩
    · exact ⟨_, rfl⟩

theorem largePath_total (mode : Mode) (signX : Nat) (arr : Bytes) (hlen : arr.length = 100) (n : Nat)
    (hn : 35 ≤ n) (hn' : n ≤ 100) (e : Int) (h1 : -2147483648 ≤ e) (h2 : e < 2147483648) (si : Bool)
    (b : Nat) (hb : arr[34]? = some b) (hd : isDigitB b = true) :
    (largePath mode signX arr n e si).isSome = true := by
  unfold largePath
  obtain ⟨v, hv⟩ := readRun_total arr hlen 0 17 (by omega) (by omega)
  obtain ⟨w, hw⟩ := readRun_total arr hlen 17 34 (by omega) (by omega)
  obtain ⟨c, hc⟩ := carryOf_total mode signX arr hlen n hn hn' e w b hb hd
  rw [hv, hw]
  simp only [Option.bind_eq_bind, Option.bind_some, bind, Option.bind, hc]
  apply pack_total
  · split
    · exact (wrapI32_range _).1
    · exact h1
  · split
    · exact (wrapI32_range _).2
    · exact h2

end Dec.C04ScanTotal
