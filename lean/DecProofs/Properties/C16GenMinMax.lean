/-
  C16GenMinMax — the four min/max operations of bid128_minmax.rs as translated in `DecGen/Code.lean`
  (`Dec.Gen.Code.bid128_minnum`, `bid128_maxnum`, `bid128_minnum_mag`, `bid128_maxnum_mag`), for ALL pairs of 128-bit
  patterns (non-canonical ones included) and every incoming status word:

      routine x y f = .ok (ofBits (encode (selBy first a b)), flagsOut f a b)       a = decode (bitsOf x), b = decode (bitsOf y)

  * never a panic; the status word is the incoming one with `invalid` or-ed in iff an operand is a signalling NaN;
  * the result is always the CANONICAL encoding of an operand (`result_canonical`), also for non-canonical operands
    (each operand is first replaced by `canon`: `canonW_spec`) — or the quieted copy of a signalling NaN operand;
  * NaNs (`nanSel`): first operand sNaN → it, quieted; else first qNaN and second a NaN (quiet or signalling) → the first;
    else first qNaN → the second operand; else second sNaN → it, quieted; second qNaN → the first operand;
  * numbers: `first a b` (`minFirst`, `maxFirst`, `minMagFirst`, `maxMagFirst` = `firstOf mx mag tie`) says whether the
    first operand is returned: forced by the exact order `ordOf` (the one `Dec.minmaxChoices` uses) when it is strict,
    and by an explicit tie rule when the operands compare equal — so the result bits are completely determined:
      `plainTie`: two zeros → the first operand; equal non-zero values (a cohort) → `minnum`: larger exponent if positive,
                  smaller exponent if negative; `maxnum`: smaller exponent if positive, larger if negative;
      `magTie`:   two zeros → `minnum_mag` the first, `maxnum_mag` the second operand; a cohort → `minnum_mag` the first
                  operand if positive, the second if negative; `maxnum_mag` the other way round.
  * every choice is one the specification allows: `selBy_mem_choices` (∈ `minmaxChoices`), `selBy_expected` and
    `…_judged` (the judge's `expectCore.minmax`: a `oneOf` containing the returned bits, with the returned flags).

  Nothing was found that deviates from the specification.

  Structure: the four routines are, by `rfl`, `front x (fun v => front y (fun w => nanStage num v w f))` with
  `num = plainNum mx` (min/max) or `magNum mx` (the `_mag` forms), `mx = false/true` — the min and the max version of
  each family are the same text up to which operand is returned (and, for `minnum`/`maxnum`, the two short-cut tests);
  `front` is the canonicalising front end, `gapStage` the common "gap > 33 / 128×128 / 64×128 bit product" step.
  Reused from C03GenCompare: bit tests, `decodeW`, word comparisons, `scale192`/`scale256`, model-side `cmpFin_nat`;
  from C19GenDpd: `ofBits`, mask arithmetic.
-/
import DecProofs.Properties.C03GenCompare
import DecProofs.Properties.C19GenDpd

set_option linter.unusedSimpArgs false
set_option linter.unusedVariables false

namespace Dec.C16GenMinMax
open Dec.Rs Dec.Gen.Code Dec.C03GenCompare

abbrev Res := Except String (U128 × UInt32)

/-! ## 1. The routines in stages -/

/-- the canonicalising front end all four routines apply to each operand -/
def canonW (x : U128) : U128 :=
  if (x.w1 &&& 0x7c00000000000000 == 0x7c00000000000000) = true then
    if (decide ((x.w1 &&& 18302699254377873407) &&& 70368744177663 > 54210108624275) ||
        (x.w1 &&& 18302699254377873407) &&& 70368744177663 == 54210108624275 && decide (x.w0 > 4089650035136921599)) = true
    then ⟨0, (x.w1 &&& 18302699254377873407) &&& 18446673704965373952⟩
    else ⟨x.w0, x.w1 &&& 18302699254377873407⟩
  else if (x.w1 &&& 0x7c00000000000000 == 0x7800000000000000) = true then ⟨0, x.w1 &&& ((0x8000000000000000 : UInt64) ||| 0x7800000000000000)⟩
  else if (x.w1 &&& 0x6000000000000000 == 0x6000000000000000) = true then
    ⟨0, x.w1 &&& 0x8000000000000000 ||| x.w1 <<< (2 : UInt64) &&& (0x7ffe000000000000 : UInt64)⟩
  else if (decide (x.w1 &&& 0x1ffffffffffff > 542101086242752) ||
      x.w1 &&& 0x1ffffffffffff == 542101086242752 && decide (x.w0 > 4003012203950112767)) = true
    then ⟨0, x.w1 &&& 0x8000000000000000 ||| x.w1 &&& 0x7ffe000000000000⟩
  else x

/-- the NaN stage shared by the four routines (operands already canonical); `k` = what happens to two numbers -/
def nanStage (k : U128 → U128 → UInt32 → Res) (x y : U128) (f : UInt32) : Res :=
  if (x.w1 &&& 0x7c00000000000000 == 0x7c00000000000000) = true then
    if (x.w1 &&& 0x7e00000000000000 == 0x7e00000000000000) = true then
      pure (⟨x.w0, x.w1 &&& 18302628885633695743⟩, f ||| 1)
    else if (y.w1 &&& 0x7c00000000000000 == 0x7c00000000000000) = true then
      if (y.w1 &&& 0x7e00000000000000 == 0x7e00000000000000) = true then pure (x, f ||| 1)
      else pure (x, f)
    else pure (y, f)
  else if (y.w1 &&& 0x7c00000000000000 == 0x7c00000000000000) = true then
    if (y.w1 &&& 0x7e00000000000000 == 0x7e00000000000000) = true then
      pure (⟨y.w0, y.w1 &&& 18302628885633695743⟩, f ||| 1)
    else pure (x, f)
  else k x y f

/-- coefficient field (low 49 bits of the high word + low word) and exponent field (bits 62..49) -/
def sigOf (x : U128) : U128 := ⟨x.w0, x.w1 &&& 562949953421311⟩
abbrev expOf (x : U128) : Int32 := Int32.ofInt (toI (x.w1 >>> 49 &&& 16383))
abbrev negOf (x : U128) : Bool := x.w1 &&& 0x8000000000000000 == 0x8000000000000000

/-- the common shape of the four scaled comparisons: exponent gap `d > 33` → answer known; `20 ≤ d ≤ 33` → 128 × 128 bit
product with `10^d` from the table; `d ≤ 19` → 64 × 128 bit product -/
def gapStage (d : Int32) (s : U128) (R33 : Res) (K256 : U256 → Res) (K192 : U192 → Res) : Res :=
  if decide (d > 33) = true then R33
  else if decide (d > 19) = true then do
    let t ← tbl128 Dec.Gen.BID_TEN2K128 (UInt64.ofInt (toI (d - 20)))
    let p ← mul_128x128_to_256 s t
    K256 p
  else do
    let t ← tbl64 Dec.Gen.BID_TEN2K64 (UInt64.ofInt (toI d))
    let p ← mul_64x128_to_192 t s
    K192 p

/-- `bid128_minnum` (`mx = false`) / `bid128_maxnum` (`mx = true`): finite non-zero operands of equal sign.
The two routines are the same text up to: the operand returned (`P`/`Q` below), the two short-cut tests, and the
way the last two sign tests are written. -/
def plainTail (mx : Bool) (x y : U128) (f : UInt32) : Res :=
  let sig_x := sigOf x; let sig_y := sigOf y; let exp_x := expOf x; let exp_y := expOf y
  let P := cond mx y x; let Q := cond mx x y
  if (exp_y == exp_x) = true then
    pure (if ((decide (sig_x.w1 > sig_y.w1) || sig_x.w1 == sig_y.w1 && decide (sig_x.w0 ≥ sig_y.w0)) != negOf x) = true
      then Q else P, f)
  else if (cond mx
      ((decide (sig_x.w1 > sig_y.w1) || sig_x.w1 == sig_y.w1 && decide (sig_x.w0 > sig_y.w0)) && decide (exp_x ≥ exp_y))
      (decide (sig_x.w1 ≥ sig_y.w1) && decide (sig_x.w0 ≥ sig_y.w0) && decide (exp_x > exp_y))) = true then
    pure (if (x.w1 &&& 0x8000000000000000 != 0x8000000000000000) = true then Q else P, f)
  else if (cond mx
      ((decide (sig_x.w1 < sig_y.w1) || sig_x.w1 == sig_y.w1 && decide (sig_x.w0 < sig_y.w0)) && decide (exp_x ≤ exp_y))
      (decide (sig_x.w1 ≤ sig_y.w1) && decide (sig_x.w0 ≤ sig_y.w0) && decide (exp_x < exp_y))) = true then
    pure (if negOf x = true then Q else P, f)
  else
    if decide (exp_x - exp_y > 0) = true then
      gapStage (exp_x - exp_y) sig_x
        (pure (if (x.w1 &&& 0x8000000000000000 != 0x8000000000000000) = true then Q else P, f))
        (fun p => pure (if ((decide (p.w3 > 0) || decide (p.w2 > 0) || decide (p.w1 > sig_y.w1) ||
            p.w1 == sig_y.w1 && decide (p.w0 > sig_y.w0)) != negOf y) = true then Q else P, f))
        (fun p => pure (if ((decide (p.w2 > 0) || decide (p.w1 > sig_y.w1) ||
            p.w1 == sig_y.w1 && decide (p.w0 > sig_y.w0)) != negOf y) = true then Q else P, f))
    else
      gapStage (exp_y - exp_x) sig_y
        (pure (if negOf x = true then Q else P, f))
        (fun p => pure (if ((p.w3 != 0 || p.w2 != 0 || (decide (p.w1 > sig_x.w1) ||
            p.w1 == sig_x.w1 && decide (p.w0 > sig_x.w0))) !=
              cond mx (x.w1 &&& 0x8000000000000000 != 0x8000000000000000) (negOf x)) = true then x else y, f))
        (fun p => pure (if ((p.w2 != 0 || (decide (p.w1 > sig_x.w1) ||
            p.w1 == sig_x.w1 && decide (p.w0 > sig_x.w0))) !=
              cond mx (y.w1 &&& 0x8000000000000000 != 0x8000000000000000) (negOf y)) = true then x else y, f))

/-- the zero / sign stage, given the two zero flags -/
def plainZero (mx : Bool) (x y : U128) (f : UInt32) (xz yz : Bool) : Res :=
  let P := cond mx y x; let Q := cond mx x y
  if (xz && yz) = true then pure (x, f)
  else if xz = true then pure (if negOf y = true then Q else P, f)
  else if yz = true then pure (if (x.w1 &&& 0x8000000000000000 != 0x8000000000000000) = true then Q else P, f)
  else if ((x.w1 ^^^ y.w1) &&& 0x8000000000000000 == 0x8000000000000000) = true then
    pure (if negOf y = true then Q else P, f)
  else plainTail mx x y f

/-- `bid128_minnum` / `bid128_maxnum` on two (canonical) numbers -/
def plainNum (mx : Bool) (x y : U128) (f : UInt32) : Res :=
  let P := cond mx y x; let Q := cond mx x y
  if (x.w0 == y.w0 && x.w1 == y.w1) = true then pure (x, f)
  else if (x.w1 &&& 0x7800000000000000 == 0x7800000000000000) = true then pure (if negOf x = true then P else Q, f)
  else if (y.w1 &&& 0x7800000000000000 == 0x7800000000000000) = true then pure (if negOf y = true then Q else P, f)
  else
    if ((sigOf x).w1 == 0 && (sigOf x).w0 == 0) = true then
      (if ((sigOf y).w1 == 0 && (sigOf y).w0 == 0) = true then plainZero mx x y f true true
       else plainZero mx x y f true false)
    else
      (if ((sigOf y).w1 == 0 && (sigOf y).w0 == 0) = true then plainZero mx x y f false true
       else plainZero mx x y f false false)

/-- `bid128_minnum_mag` (`mx = false`) / `bid128_maxnum_mag` (`mx = true`): finite non-zero operands.
The two routines are the same text up to the operand returned (`P`/`Q`). -/
def magTail (mx : Bool) (x y : U128) (f : UInt32) : Res :=
  let sig_x := sigOf x; let sig_y := sigOf y; let exp_x := expOf x; let exp_y := expOf y
  let P := cond mx y x; let Q := cond mx x y
  if (exp_y == exp_x && sig_x.w1 == sig_y.w1 && sig_x.w0 == sig_y.w0) = true then
    pure (if (x.w1 &&& 9223372036854775808 == 9223372036854775808) = true then P else Q, f)
  else if ((decide (sig_x.w1 > sig_y.w1) || sig_x.w1 == sig_y.w1 && decide (sig_x.w0 > sig_y.w0)) && exp_x == exp_y ||
      (decide (sig_x.w1 > sig_y.w1) || sig_x.w1 == sig_y.w1 && decide (sig_x.w0 ≥ sig_y.w0)) && decide (exp_x > exp_y)) = true
    then pure (Q, f)
  else if ((decide (sig_y.w1 > sig_x.w1) || sig_y.w1 == sig_x.w1 && decide (sig_y.w0 > sig_x.w0)) && exp_y == exp_x ||
      (decide (sig_y.w1 > sig_x.w1) || sig_y.w1 == sig_x.w1 && decide (sig_y.w0 ≥ sig_x.w0)) && decide (exp_y > exp_x)) = true
    then pure (P, f)
  else
    if decide (exp_x - exp_y > 0) = true then
      gapStage (exp_x - exp_y) sig_x (pure (Q, f))
        (fun p =>
          if (p.w3 == 0 && p.w2 == 0 && p.w1 == sig_y.w1 && p.w0 == sig_y.w0) = true then
            pure (if negOf y = true then Q else P, f)
          else
            pure (if (decide (p.w3 > 0) || decide (p.w2 > 0) || decide (p.w1 > sig_y.w1) ||
              p.w1 == sig_y.w1 && decide (p.w0 > sig_y.w0)) = true then Q else P, f))
        (fun p =>
          if (p.w2 == 0 && p.w1 == sig_y.w1 && p.w0 == sig_y.w0) = true then
            pure (if negOf y = true then Q else P, f)
          else
            pure (if (decide (p.w2 > 0) || decide (p.w1 > sig_y.w1) ||
              p.w1 == sig_y.w1 && decide (p.w0 > sig_y.w0)) = true then Q else P, f))
    else
      gapStage (exp_y - exp_x) sig_y (pure (P, f))
        (fun p =>
          if (p.w3 == 0 && p.w2 == 0 && p.w1 == sig_x.w1 && p.w0 == sig_x.w0) = true then
            pure (if negOf y = true then Q else P, f)
          else
            pure (if (p.w3 == 0 && p.w2 == 0 && (decide (p.w1 < sig_x.w1) ||
              p.w1 == sig_x.w1 && decide (p.w0 < sig_x.w0))) = true then Q else P, f))
        (fun p =>
          if (p.w2 == 0 && p.w1 == sig_x.w1 && p.w0 == sig_x.w0) = true then
            pure (if negOf y = true then Q else P, f)
          else
            pure (if (p.w2 == 0 && (decide (p.w1 < sig_x.w1) ||
              p.w1 == sig_x.w1 && decide (p.w0 < sig_x.w0))) = true then Q else P, f))

/-- `bid128_minnum_mag` / `bid128_maxnum_mag` on two (canonical) numbers -/
def magNum (mx : Bool) (x y : U128) (f : UInt32) : Res :=
  let P := cond mx y x; let Q := cond mx x y
  if (x.w0 == y.w0 && x.w1 == y.w1) = true then pure (y, f)
  else if (x.w1 &&& 0x7800000000000000 == 0x7800000000000000) = true then
    pure (if (negOf x && y.w1 &&& 0x7800000000000000 == 0x7800000000000000) = true then P else Q, f)
  else if (y.w1 &&& 0x7800000000000000 == 0x7800000000000000) = true then pure (P, f)
  else if ((sigOf x).w1 == 0 && (sigOf x).w0 == 0) = true then pure (P, f)
  else if ((sigOf y).w1 == 0 && (sigOf y).w0 == 0) = true then pure (Q, f)
  else magTail mx x y f

/-- the front end in continuation form, as the routines are written -/
def front (x : U128) (K : U128 → Res) : Res :=
  if (x.w1 &&& 0x7c00000000000000 == 0x7c00000000000000) = true then
    if (decide ((x.w1 &&& 18302699254377873407) &&& 70368744177663 > 54210108624275) ||
        (x.w1 &&& 18302699254377873407) &&& 70368744177663 == 54210108624275 && decide (x.w0 > 4089650035136921599)) = true
    then K ⟨0, (x.w1 &&& 18302699254377873407) &&& 18446673704965373952⟩
    else K ⟨x.w0, x.w1 &&& 18302699254377873407⟩
  else if (x.w1 &&& 0x7c00000000000000 == 0x7800000000000000) = true then K ⟨0, x.w1 &&& ((0x8000000000000000 : UInt64) ||| 0x7800000000000000)⟩
  else if (x.w1 &&& 0x6000000000000000 == 0x6000000000000000) = true then
    K ⟨0, x.w1 &&& 0x8000000000000000 ||| x.w1 <<< (2 : UInt64) &&& (0x7ffe000000000000 : UInt64)⟩
  else if (decide (x.w1 &&& 0x1ffffffffffff > 542101086242752) ||
      x.w1 &&& 0x1ffffffffffff == 542101086242752 && decide (x.w0 > 4003012203950112767)) = true
    then K ⟨0, x.w1 &&& 0x8000000000000000 ||| x.w1 &&& 0x7ffe000000000000⟩
  else K x

theorem front_eq (x : U128) (K : U128 → Res) : front x K = K (canonW x) := by
  unfold front canonW
  split
  · split <;> rfl
  · split
    · rfl
    · split
      · rfl
      · split <;> rfl

theorem minnum_unfold0 (x y : U128) (f : UInt32) :
    bid128_minnum x y f = front x (fun v => front y (fun w => nanStage (plainNum false) v w f)) := rfl

theorem maxnum_unfold0 (x y : U128) (f : UInt32) :
    bid128_maxnum x y f = front x (fun v => front y (fun w => nanStage (plainNum true) v w f)) := rfl

/-- `bid128_minnum` = canonicalise both operands, NaN stage, then the number stage -/
theorem minnum_unfold (x y : U128) (f : UInt32) :
    bid128_minnum x y f = nanStage (plainNum false) (canonW x) (canonW y) f := by
  rw [minnum_unfold0, front_eq, front_eq]

theorem maxnum_unfold (x y : U128) (f : UInt32) :
    bid128_maxnum x y f = nanStage (plainNum true) (canonW x) (canonW y) f := by
  rw [maxnum_unfold0, front_eq, front_eq]

theorem minnum_mag_unfold0 (x y : U128) (f : UInt32) :
    bid128_minnum_mag x y f = front x (fun v => front y (fun w => nanStage (magNum false) v w f)) := rfl

theorem maxnum_mag_unfold0 (x y : U128) (f : UInt32) :
    bid128_maxnum_mag x y f = front x (fun v => front y (fun w => nanStage (magNum true) v w f)) := rfl

theorem minnum_mag_unfold (x y : U128) (f : UInt32) :
    bid128_minnum_mag x y f = nanStage (magNum false) (canonW x) (canonW y) f := by
  rw [minnum_mag_unfold0, front_eq, front_eq]

theorem maxnum_mag_unfold (x y : U128) (f : UInt32) :
    bid128_maxnum_mag x y f = nanStage (magNum true) (canonW x) (canonW y) f := by
  rw [maxnum_mag_unfold0, front_eq, front_eq]


/-! ## 2. The front end is the spec-level `canon` -/

open Dec.C19GenDpd (ofBits eq_ofBits and_mask' and_low or_disj or_disj' bitsOf_ofBits_of_lt ofBits_bitsOf)

theorem bitsOf_eq (x : U128) : Dec.C19GenDpd.bitsOf x = bitsOf x := rfl

/-- `w & 0xfe003fffffffffff`: the sign / NaN / signalling bits and the 46 payload bits, reserved bits cleared -/
theorem and_nanmask (h : Nat) (hh : h < 2^64) : h &&& 18302699254377873407 = h / 2^57 * 2^57 + h % 2^46 := by
  have e : (18302699254377873407 : Nat) = 18302628885633695744 ||| 70368744177663 := by decide
  rw [e, Nat.and_or_distrib_left, and_mask' h 18302628885633695744 57 7 (by decide), and_low h 70368744177663 46 (by decide),
    or_disj _ _ 144115188075855872 57 (by decide) (by omega) (by omega)]
  omega

theorem any_inf_test (w : UInt64) : (w &&& 0x7c00000000000000 == 0x7800000000000000) = decide (w.toNat / 2^58 % 32 = 30) := by
  rw [Bool.eq_iff_iff, beq_iff_eq, decide_eq_true_eq, ← UInt64.toNat_inj, toNat_and_field w _ 5 58 (by decide)]
  simp only [UInt64.toNat_ofNat]
  omega

theorem coeff_gt_test (x : U128) :
    (decide (x.w1 &&& 0x1ffffffffffff > 542101086242752) || x.w1 &&& 0x1ffffffffffff == 542101086242752
      && decide (x.w0 > 4003012203950112767)) = decide (P34 ≤ sigW x.w1.toNat x.w0.toNat) := by
  rw [gt128, coeff_hi, Bool.eq_iff_iff, decide_eq_true_iff, decide_eq_true_iff]
  unfold sigW
  simp only [UInt64.toNat_ofNat, P34]
  omega

theorem payload_gt_test (x : U128) :
    (decide ((x.w1 &&& 18302699254377873407) &&& 70368744177663 > 54210108624275) ||
      (x.w1 &&& 18302699254377873407) &&& 70368744177663 == 54210108624275 && decide (x.w0 > 4089650035136921599))
      = decide (P33 ≤ x.w1.toNat % 2^46 * 2^64 + x.w0.toNat) := by
  have hh := x.w1.toNat_lt
  have e : ((x.w1 &&& 18302699254377873407) &&& 70368744177663).toNat = x.w1.toNat % 2^46 := by
    rw [UInt64.toNat_and, UInt64.toNat_and]
    simp only [UInt64.toNat_ofNat, Nat.reduceMod, Nat.reducePow]
    rw [and_nanmask _ hh, and_low _ 70368744177663 46 (by decide)]; omega
  rw [gt128, e, Bool.eq_iff_iff, decide_eq_true_iff, decide_eq_true_iff]
  simp only [UInt64.toNat_ofNat, P33]
  omega

theorem canonW_bits (x : U128) : bitsOf (canonW x) = canon (bitsOf x) := by
  have hh := x.w1.toNat_lt; have hl := x.w0.toNat_lt
  unfold canonW
  simp only [nan_test, any_inf_test, steer_test, coeff_gt_test, payload_gt_test]
  by_cases hN : x.w1.toNat / 2^58 % 32 = 31
  · rw [if_pos (decide_eq_true hN), canon_nan _ (by unfold bitsOf; omega) (by unfold bitsOf; omega)]
    by_cases hp : P33 ≤ x.w1.toNat % 2^46 * 2^64 + x.w0.toNat
    · rw [if_pos (decide_eq_true hp), if_neg (by unfold bitsOf; simp only [P33] at hp ⊢; omega)]
      simp only [bitsOf]; bits_norm
      rw [and_nanmask _ hh, and_mask' _ 18446673704965373952 46 18 (by decide)]
      omega
    · rw [if_neg (by simpa using hp), if_pos (by unfold bitsOf; simp only [P33] at hp ⊢; omega)]
      simp only [bitsOf]; bits_norm
      rw [and_nanmask _ hh]
      omega
  rw [if_neg (by simpa using hN)]
  by_cases hI : x.w1.toNat / 2^58 % 32 = 30
  · rw [if_pos (decide_eq_true hI), canon_inf _ (by unfold bitsOf; omega) (by unfold bitsOf; omega)]
    have e : ((0x8000000000000000 : UInt64) ||| 0x7800000000000000) = 0xf800000000000000 := by decide
    rw [e]
    simp only [bitsOf]; bits_norm
    rw [and_mask' _ 17870283321406128128 59 5 (by decide)]
    omega
  rw [if_neg (by simpa using hI)]
  by_cases hS : x.w1.toNat / 2^61 % 4 = 3
  · rw [if_pos (decide_eq_true hS), canon_large _ (by unfold bitsOf; omega) (by unfold bitsOf; omega)]
    simp only [bitsOf]; bits_norm
    rw [and_mask' _ 9223372036854775808 63 1 (by decide), and_mask' _ 9222809086901354496 49 14 (by decide),
      or_disj _ _ 9223372036854775808 63 (by decide) (by omega) (by omega)]
    omega
  rw [if_neg (by simpa using hS), canon_small _ (by unfold bitsOf; omega) (by unfold bitsOf; omega)]
  by_cases hC : P34 ≤ sigW x.w1.toNat x.w0.toNat
  · rw [if_pos (decide_eq_true hC), if_neg (by unfold bitsOf; unfold sigW at hC; simp only [P34] at hC ⊢; omega)]
    simp only [bitsOf]; bits_norm
    rw [and_mask' _ 9223372036854775808 63 1 (by decide), and_mask' _ 9222809086901354496 49 14 (by decide),
      or_disj _ _ 9223372036854775808 63 (by decide) (by omega) (by omega)]
    omega
  · rw [if_neg (by simpa using hC), if_pos (by unfold bitsOf; unfold sigW at hC; simp only [P34] at hC ⊢; omega)]
    unfold bitsOf; omega

/-- the front end replaces each operand by its canonical encoding -/
theorem canonW_spec (x : U128) : canonW x = ofBits (canon (bitsOf x)) := eq_ofBits (canonW_bits x)


/-! ## 3. Canonical words: what they decode to, and what the routines' bit tests say about them -/

/-- a canonical 128-bit pattern (what the front end produces) -/
def Canon (x : U128) : Prop := isCanonical (bitsOf x) = true

theorem canonW_canon (x : U128) : Canon (canonW x) := by
  unfold Canon; rw [canonW_bits]; exact isCanonical_canon _

theorem decode_canonW (x : U128) : decode (bitsOf (canonW x)) = decode (bitsOf x) := by
  rw [canonW_bits]; exact decode_canon _

/-- a canonical word is the encoding of what it decodes to -/
theorem canon_word (x : U128) (hx : Canon x) : x = ofBits (encode (decode (bitsOf x))) := by
  have h := ((isCanonical_iff _).1 hx).2
  unfold canon at h
  rw [h]; exact (ofBits_bitsOf x).symm

/-- the sign of the decoded datum is bit 127, whatever the pattern -/
theorem neg_decode (x : U128) : (decode (bitsOf x)).neg = negW x.w1.toNat := by
  rw [decode_bitsOf]
  rcases decodeW_kind x.w1.toNat x.w0.toNat with ⟨hN, s, p, hd⟩ | ⟨hN, hI, hd⟩ | ⟨hI, hz, e, hd⟩ | ⟨hI, hS, hlt, hpos, hd⟩
  · unfold decodeW at hd ⊢
    rw [if_pos (by omega), if_neg (by omega)]; rfl
  all_goals (rw [hd]; rfl)

theorem nanT (x : U128) : (x.w1 &&& 0x7c00000000000000 == 0x7c00000000000000) = (decode (bitsOf x)).isNaN := by
  rw [nan_test, decode_bitsOf, isNaN_decodeW]

theorem snanT (x : U128) : (x.w1 &&& 0x7e00000000000000 == 0x7e00000000000000) = (decode (bitsOf x)).isSNaN := by
  rw [snan_test, decode_bitsOf, isSNaN_decodeW]

theorem negT (x : U128) : (x.w1 &&& 0x8000000000000000 == 0x8000000000000000) = (decode (bitsOf x)).neg := by
  rw [sign_test, neg_decode]; rfl

/-- a canonical number: an infinity, or a finite number whose coefficient and exponent are the fields of the word -/
theorem canon_num (x : U128) (hx : Canon x) (hn : (decode (bitsOf x)).isNaN = false) :
    (x.w1.toNat / 2^59 % 16 = 15 ∧ decode (bitsOf x) = .inf (negW x.w1.toNat)) ∨
    (x.w1.toNat / 2^59 % 16 ≠ 15 ∧ sigW x.w1.toNat x.w0.toNat < P34 ∧
      decode (bitsOf x) = .fin (negW x.w1.toNat) (sigW x.w1.toNat x.w0.toNat) ((expW x.w1.toNat : Nat) - (6176 : Int))) := by
  have hh := x.w1.toNat_lt; have hl := x.w0.toNat_lt
  rw [decode_bitsOf] at hn ⊢
  rw [isNaN_decodeW] at hn
  have hn' : ¬ x.w1.toNat / 2^58 % 32 = 31 := by simpa using hn
  rcases (isCanonical_characterisation (bitsOf_lt x)).1 hx with ⟨h1, h2, h3⟩ | ⟨h1, h2, h3, h4⟩ | ⟨h1, h2, h3⟩
  · left
    have e1 : x.w1.toNat / 2^59 % 16 = 15 := by unfold bitsOf at h1; omega
    refine ⟨e1, ?_⟩
    unfold decodeW
    rw [if_pos e1, if_pos (by omega)]; rfl
  · exfalso; unfold bitsOf at h1 h2; omega
  · right
    have e1 : x.w1.toNat / 2^59 % 16 ≠ 15 := by unfold bitsOf at h1; omega
    have e2 : ¬ x.w1.toNat / 2^61 % 4 = 3 := by unfold bitsOf at h2; omega
    have e3 : sigW x.w1.toNat x.w0.toNat < P34 := by unfold bitsOf at h3; unfold sigW; simp only [P34] at h3 ⊢; omega
    refine ⟨e1, e3, ?_⟩
    unfold decodeW
    rw [if_neg e1, if_neg e2]
    unfold sigW at e3
    rw [if_pos e3]; rfl

theorem infT (x : U128) (hx : Canon x) (hn : (decode (bitsOf x)).isNaN = false) :
    (x.w1 &&& 0x7800000000000000 == 0x7800000000000000) = (decode (bitsOf x)).isInf := by
  rw [inf_test]
  rcases canon_num x hx hn with ⟨h1, hd⟩ | ⟨h1, _, hd⟩ <;> rw [hd]
  · exact decide_eq_true h1
  · exact decide_eq_false h1

theorem val128_sigOf (x : U128) : val128 (sigOf x) = sigW x.w1.toNat x.w0.toNat := val128_sigF x

theorem zeroT (x : U128) : ((sigOf x).w1 == 0 && (sigOf x).w0 == 0) = decide (sigW x.w1.toNat x.w0.toNat = 0) := by
  rw [zero128, ← val128_sigOf]; rfl

theorem expOf_toInt (x : U128) : (expOf x).toInt = (expW x.w1.toNat : Int) := expF_toInt x.w1

/-! ## 4. The NaN stage -/

/-- which operand the routines return when a NaN is involved: the first signalling NaN found (quieted), else the
first operand if it is a NaN and the second one is a NaN too, else the operand that is not a NaN -/
def nanSel (a b : Datum) : Datum :=
  if a.isNaN then (if a.isSNaN then quietNaN a else if b.isNaN then a else b)
  else (if b.isSNaN then quietNaN b else a)

/-- and-ing with `0xfdff…f` clears bit 57 -/
theorem and_quietmask (h : Nat) (hh : h < 2^64) : h &&& 18302628885633695743 = h / 2^58 * 2^58 + h % 2^57 := by
  have e : (18302628885633695743 : Nat) = 18158513697557839872 ||| 144115188075855871 := by decide
  rw [e, Nat.and_or_distrib_left, and_mask' h 18158513697557839872 58 6 (by decide),
    and_low h 144115188075855871 57 (by decide),
    or_disj _ _ 288230376151711744 58 (by decide) (by omega) (by omega)]
  omega

/-- quieting a canonical signalling NaN word gives the canonical word of the quieted NaN -/
theorem quiet_word (x : U128) (hx : Canon x) (hs : (decode (bitsOf x)).isSNaN = true) :
    (⟨x.w0, x.w1 &&& 18302628885633695743⟩ : U128) = ofBits (encode (quietNaN (decode (bitsOf x)))) := by
  have hh := x.w1.toNat_lt; have hl := x.w0.toNat_lt
  have hb : bitsOf x = encode (decode (bitsOf x)) := (((isCanonical_iff _).1 hx).2).symm
  apply eq_ofBits
  cases hd : decode (bitsOf x) with
  | fin s c e => rw [hd] at hs; simp [Datum.isSNaN] at hs
  | inf s => rw [hd] at hs; simp [Datum.isSNaN] at hs
  | nan s g p =>
    rw [hd] at hs hb
    simp only [Datum.isSNaN] at hs
    subst hs
    have hp : p < P33 := by have := decode_WF (bitsOf x); rw [hd] at this; exact this
    simp only [quietNaN, encode, if_true, Bool.false_eq_true, if_false] at hb ⊢
    show (x.w1 &&& 18302628885633695743).toNat * 2^64 + x.w0.toNat = _
    rw [UInt64.toNat_and]
    simp only [UInt64.toNat_ofNat, Nat.reduceMod, Nat.reducePow]
    rw [and_quietmask _ hh]
    unfold bitsOf at hb
    have hS := signBit_lt s
    generalize signBit s = S at hb hS ⊢
    simp only [P33, Nat.reducePow] at hp hb hS hh hl ⊢
    rcases hS with h0 | h0 <;> subst h0 <;> apply Nat.le_antisymm <;> omega

theorem nanStage_spec (k : U128 → U128 → UInt32 → Res) (x y : U128) (f : UInt32) (hx : Canon x) (hy : Canon y) :
    nanStage k x y f =
      if (decode (bitsOf x)).isNaN || (decode (bitsOf y)).isNaN then
        .ok (ofBits (encode (nanSel (decode (bitsOf x)) (decode (bitsOf y)))),
          flagsOut f (decode (bitsOf x)) (decode (bitsOf y)))
      else k x y f := by
  unfold nanStage
  rw [nanT, snanT, nanT, snanT, flagsOut_eq]
  have wx := canon_word x hx; have wy := canon_word y hy
  generalize ha : decode (bitsOf x) = a at *
  generalize hb : decode (bitsOf y) = b at *
  unfold nanSel
  have sx : a.isSNaN = true → a.isNaN = true := by cases a <;> simp [Datum.isSNaN, Datum.isNaN]
  have sy : b.isSNaN = true → b.isNaN = true := by cases b <;> simp [Datum.isSNaN, Datum.isNaN]
  by_cases h1 : a.isNaN = true
  · by_cases h2 : a.isSNaN = true
    · have q := quiet_word x hx (by rw [ha]; exact h2)
      rw [ha] at q
      simp only [h1, h2, if_true, Bool.true_or, q]; rfl
    · by_cases h3 : b.isNaN = true
      · by_cases h4 : b.isSNaN = true
        · simp only [h1, h2, h3, h4, if_true, if_false, Bool.true_or, Bool.or_true, Bool.false_eq_true, ← wx]; rfl
        · simp only [h1, h2, h3, h4, if_true, if_false, Bool.true_or, Bool.or_self, Bool.false_eq_true, ← wx]; rfl
      · have h4 : ¬ b.isSNaN = true := fun h => h3 (sy h)
        simp only [h1, h2, h3, h4, if_true, if_false, Bool.true_or, Bool.or_self, Bool.false_eq_true, ← wy]; rfl
  · have h2 : ¬ a.isSNaN = true := fun h => h1 (sx h)
    by_cases h3 : b.isNaN = true
    · by_cases h4 : b.isSNaN = true
      · have q := quiet_word y hy (by rw [hb]; exact h4)
        rw [hb] at q
        simp only [h1, h2, h3, h4, if_true, if_false, Bool.or_true, Bool.false_or, Bool.false_eq_true, q]; rfl
      · simp only [h1, h2, h3, h4, if_true, if_false, Bool.or_true, Bool.or_self, Bool.false_eq_true, ← wx]; rfl
    · simp only [h1, h3, if_false, Bool.or_self, Bool.false_eq_true]


/-! ## 5. Specification side: which operand is returned -/

/-- the order the operation decides by (exactly the `ord` of `Dec.minmaxChoices`) -/
def ordOf (mag : Bool) (a b : Datum) : Option Ordering :=
  if mag then
    match cmpD (a.setSign false) (b.setSign false) with
    | some .eq => cmpD a b
    | o => o
  else cmpD a b

/-- `true` = the first operand is returned: forced by the order when it is strict, `tie a b` when the operands
compare equal -/
def firstOf (mx mag : Bool) (tie : Datum → Datum → Bool) (a b : Datum) : Bool :=
  match ordOf mag a b with
  | some .lt => !mx
  | some .gt => mx
  | _ => tie a b

/-- whatever the tie rule, the selected operand is one the specification allows -/
theorem firstOf_mem (mx mag : Bool) (tie : Datum → Datum → Bool) (a b : Datum) :
    (if firstOf mx mag tie a b then a else b) ∈ minmaxChoices mx mag a b := by
  unfold minmaxChoices firstOf ordOf
  simp only
  generalize (if mag = true then
      match cmpD (a.setSign false) (b.setSign false) with
      | some Ordering.eq => cmpD a b
      | o => o
    else cmpD a b) = o
  rcases o with _ | (_ | _ | _) <;> cases mx <;> cases tie a b <;> simp

/-- three-way decision on two integers -/
def first3 (mx t : Bool) (U V : Int) : Bool := if U < V then !mx else if U = V then t else mx

theorem compare_int (U V : Int) : compare U V = if U < V then .lt else if U = V then .eq else .gt := rfl

/-- finite operands, plain forms: the decision is taken on the signed aligned coefficients -/
theorem firstOf_plain_fin (mx : Bool) (tie : Datum → Datum → Bool) (s1 s2 : Bool) (c1 c2 q1 q2 : Nat) :
    firstOf mx false tie (.fin s1 c1 ((q1 : Nat) - (6176 : Int))) (.fin s2 c2 ((q2 : Nat) - (6176 : Int)))
      = first3 mx (tie (.fin s1 c1 ((q1 : Nat) - (6176 : Int))) (.fin s2 c2 ((q2 : Nat) - (6176 : Int))))
          (sInt s1 (c1 * 10 ^ (q1 - q2))) (sInt s2 (c2 * 10 ^ (q2 - q1))) := by
  unfold firstOf ordOf first3
  simp only [Bool.false_eq_true, if_false, cmpD, cmpFin_nat, compare_int]
  generalize sInt s1 (c1 * 10 ^ (q1 - q2)) = U
  generalize sInt s2 (c2 * 10 ^ (q2 - q1)) = V
  by_cases h1 : U < V
  · simp only [h1, if_true]
  · by_cases h2 : U = V
    · subst h2; simp only [Int.lt_irrefl, if_true, if_false]
    · simp only [h1, h2, if_false]


theorem first3_same (mx t s : Bool) (A B : Nat) :
    first3 mx t (sInt s A) (sInt s B) = if B < A then (s != mx) else if A < B then (s == mx) else t := by
  unfold first3 sInt
  cases s <;> cases mx <;> simp only [Bool.false_eq_true, if_true, if_false] <;> split <;> split <;>
    simp_all <;> omega

theorem first3_zero_zero (mx t s1 s2 : Bool) : first3 mx t (sInt s1 0) (sInt s2 0) = t := by
  unfold first3 sInt; cases s1 <;> cases s2 <;> simp

theorem first3_zero_left (mx t s1 s2 : Bool) (B : Nat) (hB : 0 < B) :
    first3 mx t (sInt s1 0) (sInt s2 B) = (!s2 != mx) := by
  unfold first3 sInt
  cases s1 <;> cases s2 <;> cases mx <;> simp <;> omega

theorem first3_zero_right (mx t s1 s2 : Bool) (A : Nat) (hA : 0 < A) :
    first3 mx t (sInt s1 A) (sInt s2 0) = (s1 != mx) := by
  unfold first3 sInt
  cases s1 <;> cases s2 <;> cases mx <;> simp <;> omega

theorem first3_opp (mx t s1 s2 : Bool) (A B : Nat) (hs : s1 ≠ s2) (hA : 0 < A) (hB : 0 < B) :
    first3 mx t (sInt s1 A) (sInt s2 B) = (!s2 != mx) := by
  unfold first3 sInt
  cases s1 <;> cases s2 <;> cases mx <;> simp at hs ⊢ <;> omega

/-- the tie rule of `bid128_minnum` (`mx = false`) and `bid128_maxnum` (`mx = true`) for operands of equal value:
two zeros → the first operand; two members of a cohort → for `minnum` the one with the larger exponent if they are
positive, with the smaller exponent if negative; for `maxnum` the other way round -/
def plainTie (mx : Bool) : Datum → Datum → Bool
  | .fin s c1 e1, .fin _ _ e2 => c1 == 0 || (if (s != mx) then decide (e1 ≤ e2) else decide (e2 ≤ e1))
  | _, _ => true

/-! ## 6. The scaled comparison -/

theorem gapStage_spec (d : Int32) (g : Nat) (hd : d.toInt = g) (hg : g < 2^14) (s : U128) (R33 : Res)
    (K256 : U256 → Res) (K192 : U192 → Res) :
    (33 < g ∧ gapStage d s R33 K256 K192 = R33) ∨
    (g ≤ 33 ∧ ∃ r, val256 r = val128 s * 10 ^ g ∧ gapStage d s R33 K256 K192 = K256 r) ∨
    (g ≤ 33 ∧ ∃ r, val192 r = val128 s * 10 ^ g ∧ gapStage d s R33 K256 K192 = K192 r) := by
  unfold gapStage
  by_cases h33 : d > 33
  · left
    rw [if_pos (decide_eq_true h33)]
    rw [int32_gt_lit, hd, show (33 : Int32).toInt = 33 from rfl] at h33
    exact ⟨by omega, rfl⟩
  · rw [if_neg (by simpa using h33)]
    rw [int32_gt_lit, hd, show (33 : Int32).toInt = 33 from rfl] at h33
    by_cases h19 : d > 19
    · right; left
      rw [if_pos (decide_eq_true h19)]
      rw [int32_gt_lit, hd, show (19 : Int32).toInt = 19 from rfl] at h19
      obtain ⟨t, r, ht, hr, rv⟩ := scale256 d g hd (by omega) (by omega) s
      refine ⟨by omega, r, rv, ?_⟩
      simp only [bind, Except.bind, ht, hr]
    · right; right
      rw [if_neg (by simpa using h19)]
      rw [int32_gt_lit, hd, show (19 : Int32).toInt = 19 from rfl] at h19
      obtain ⟨t, r, ht, hr, rv⟩ := scale192 d g hd (by omega) s
      refine ⟨by omega, r, rv, ?_⟩
      simp only [bind, Except.bind, ht, hr]

theorem pq1 {α : Type} (mx c : Bool) (x y : α) :
    (if c = true then (cond mx x y) else (cond mx y x)) = if ((!c) != mx) = true then x else y := by
  cases c <;> cases mx <;> rfl

theorem pq2 {α : Type} (mx c : Bool) (x y : α) :
    (if c = true then (cond mx y x) else (cond mx x y)) = if (c != mx) = true then x else y := by
  cases c <;> cases mx <;> rfl


/-! ## 7. `bid128_minnum` / `bid128_maxnum`: finite non-zero operands of equal sign -/

theorem exp_tests (x y : U128) (q1 q2 : Nat) (hq1 : (expOf x).toInt = q1) (hq2 : (expOf y).toInt = q2) :
    (expOf y == expOf x) = decide (q2 = q1) ∧ (expOf x == expOf y) = decide (q1 = q2) ∧
    decide (expOf x > expOf y) = decide (q2 < q1) ∧
    decide (expOf x ≥ expOf y) = decide (q2 ≤ q1) ∧ decide (expOf x < expOf y) = decide (q1 < q2) ∧
    decide (expOf x ≤ expOf y) = decide (q1 ≤ q2) ∧ decide (expOf y > expOf x) = decide (q1 < q2) := by
  refine ⟨?_, ?_, ?_, ?_, ?_, ?_, ?_⟩
  · rw [Bool.eq_iff_iff, beq_iff_eq, decide_eq_true_iff, ← Int32.toInt_inj, hq1, hq2]; omega
  · rw [Bool.eq_iff_iff, beq_iff_eq, decide_eq_true_iff, ← Int32.toInt_inj, hq1, hq2]; omega
  · rw [decide_eq_decide, gt_iff_lt, Int32.lt_iff_toInt_lt, hq1, hq2]; omega
  · rw [decide_eq_decide, ge_iff_le, Int32.le_iff_toInt_le, hq1, hq2]; omega
  · rw [decide_eq_decide, Int32.lt_iff_toInt_lt, hq1, hq2]; omega
  · rw [decide_eq_decide, Int32.le_iff_toInt_le, hq1, hq2]; omega
  · rw [decide_eq_decide, gt_iff_lt, Int32.lt_iff_toInt_lt, hq1, hq2]; omega

theorem leaf (E F : Bool) (x y : U128) (f : UInt32) (h : E = F) :
    (pure (if E = true then x else y, f) : Res) = .ok (if F = true then x else y, f) := by rw [h]; rfl

theorem word_ge (a b : U128) (h1 : a.w1 ≥ b.w1) (h0 : a.w0 ≥ b.w0) : val128 b ≤ val128 a := by
  rw [ge_iff_le, UInt64.le_iff_toNat_le] at h1 h0
  unfold val128
  exact Nat.add_le_add (Nat.mul_le_mul_right _ h1) h0

theorem scale_gt (c c' g : Nat) (hc : 0 < c) (h : c' ≤ c) (hg : 0 < g) : c' < c * 10 ^ g := by
  have : 10 ≤ 10 ^ g := by
    calc 10 = 10 ^ 1 := rfl
      _ ≤ 10 ^ g := Nat.pow_le_pow_right (by decide) hg
  calc c' ≤ c := h
    _ < c * 10 := by omega
    _ ≤ c * 10 ^ g := Nat.mul_le_mul_left _ this


theorem plainTail_spec (mx : Bool) (x y : U128) (f : UInt32) (s : Bool)
    (hsx : (x.w1 &&& 0x8000000000000000 == 0x8000000000000000) = s)
    (hsy : (y.w1 &&& 0x8000000000000000 == 0x8000000000000000) = s)
    (cx cy q1 q2 : Nat) (hcx : val128 (sigOf x) = cx) (hcy : val128 (sigOf y) = cy)
    (px : 0 < cx) (lx : cx < P34) (py : 0 < cy) (ly : cy < P34)
    (hq1 : (expOf x).toInt = q1) (hq2 : (expOf y).toInt = q2) (b1 : q1 < 2^14) (b2 : q2 < 2^14)
    (hne : q1 = q2 → cx ≠ cy) :
    plainTail mx x y f = .ok (if (if cy * 10 ^ (q2 - q1) < cx * 10 ^ (q1 - q2) then (s != mx)
        else if cx * 10 ^ (q1 - q2) < cy * 10 ^ (q2 - q1) then (s == mx)
        else (if (s != mx) then decide (q1 ≤ q2) else decide (q2 ≤ q1))) = true then x else y, f) := by
  obtain ⟨t1, t2, t3, t4, t5, t6, t7⟩ := exp_tests x y q1 q2 hq1 hq2
  have d1 := int32_sub_toInt (expOf y) (expOf x) q2 q1 hq2 hq1 b2 b1
  have d2 := int32_sub_toInt (expOf x) (expOf y) q1 q2 hq1 hq2 b1 b2
  have nsx : (x.w1 &&& 0x8000000000000000 != 0x8000000000000000) = !s := by rw [bne, hsx]
  have nsy : (y.w1 &&& 0x8000000000000000 != 0x8000000000000000) = !s := by rw [bne, hsy]
  unfold plainTail
  simp only [nsx, nsy, hsx, hsy, t1, t3, t4, t5, t6, geW, gtW, ltW, gt256, gt256', gt192, gt192', pq1, pq2, hcx, hcy]
  by_cases hq : q2 = q1
  · -- equal exponents: compare the coefficients
    subst hq
    have hne' := hne rfl
    rw [if_pos (decide_eq_true rfl)]
    apply leaf
    simp only [Nat.sub_self, Nat.pow_zero, Nat.mul_one]
    by_cases h : cy < cx
    · have h' : cy ≤ cx := by omega
      rw [if_pos h]; simp only [h', decide_true]; cases s <;> cases mx <;> rfl
    · have h' : ¬ cy ≤ cx := by omega
      have h2 : cx < cy := by omega
      rw [if_neg h, if_pos h2]; simp only [h', decide_false]; cases s <;> cases mx <;> rfl
  rw [if_neg (by simpa using hq)]
  have hX := le_scale cx (q1 - q2)
  have hY := le_scale cy (q2 - q1)
  by_cases hlt : q2 < q1
  · -- exponent of x larger
    have e0 : q2 - q1 = 0 := by omega
    have n1 : ¬ q1 < q2 := by omega
    have n2 : ¬ q1 ≤ q2 := by omega
    have n3 : q2 ≤ q1 := by omega
    simp only [e0, Nat.pow_zero, Nat.mul_one, hlt, n1, n2, n3, decide_true, decide_false, Bool.and_true, Bool.and_false,
      Bool.cond_self, Bool.false_eq_true, if_false]
    by_cases hsc : (bif mx then decide (cy < cx)
        else decide ((sigOf x).w1 ≥ (sigOf y).w1) && decide ((sigOf x).w0 ≥ (sigOf y).w0)) = true
    · rw [if_pos hsc]
      have hAB : cy < cx * 10 ^ (q1 - q2) := by
        cases mx
        · simp only [cond_false, Bool.and_eq_true, decide_eq_true_eq] at hsc
          have := word_ge _ _ hsc.1 hsc.2
          rw [hcx, hcy] at this
          exact scale_gt cx cy (q1 - q2) px this (by omega)
        · simp only [cond_true, decide_eq_true_eq] at hsc
          omega
      apply leaf; rw [if_pos hAB]; cases s <;> cases mx <;> rfl
    · rw [if_neg hsc]
      have g0 : expOf x - expOf y > 0 := by rw [int32_gt_lit, d1]; show (0 : Int) < _; omega
      rw [if_pos (decide_eq_true g0)]
      rcases gapStage_spec (expOf x - expOf y) (q1 - q2) (by rw [d1]; omega) (by omega) (sigOf x) _ _ _ with
        ⟨hg, h⟩ | ⟨hg, r, rv, h⟩ | ⟨hg, r, rv, h⟩ <;> rw [h]
      · have hAB := big_gap cx cy (q1 - q2) px ly hg
        apply leaf; rw [if_pos hAB]; cases s <;> cases mx <;> rfl
      · simp only [rv, hcx]
        apply leaf
        rcases Nat.lt_trichotomy cy (cx * 10 ^ (q1 - q2)) with h1 | h1 | h1
        · rw [if_pos h1]; simp only [h1, decide_true]; cases s <;> cases mx <;> rfl
        · rw [← h1]; simp only [Nat.lt_irrefl, decide_false, if_false]; cases s <;> cases mx <;> rfl
        · have h2 : ¬ cy < cx * 10 ^ (q1 - q2) := by omega
          rw [if_neg h2, if_pos h1]; simp only [h2, decide_false]; cases s <;> cases mx <;> rfl
      · simp only [rv, hcx]
        apply leaf
        rcases Nat.lt_trichotomy cy (cx * 10 ^ (q1 - q2)) with h1 | h1 | h1
        · rw [if_pos h1]; simp only [h1, decide_true]; cases s <;> cases mx <;> rfl
        · rw [← h1]; simp only [Nat.lt_irrefl, decide_false, if_false]; cases s <;> cases mx <;> rfl
        · have h2 : ¬ cy < cx * 10 ^ (q1 - q2) := by omega
          rw [if_neg h2, if_pos h1]; simp only [h2, decide_false]; cases s <;> cases mx <;> rfl
  · -- exponent of y larger
    have hlt' : q1 < q2 := by omega
    have e0 : q1 - q2 = 0 := by omega
    have n2 : q1 ≤ q2 := by omega
    have n3 : ¬ q2 ≤ q1 := by omega
    simp only [e0, Nat.pow_zero, Nat.mul_one, hlt, hlt', n2, n3, decide_true, decide_false, Bool.and_true, Bool.and_false,
      Bool.cond_self, Bool.false_eq_true, if_false]
    by_cases hsc : (bif mx then decide (cx < cy)
        else decide ((sigOf x).w1 ≤ (sigOf y).w1) && decide ((sigOf x).w0 ≤ (sigOf y).w0)) = true
    · rw [if_pos hsc]
      have hAB : cx < cy * 10 ^ (q2 - q1) := by
        cases mx
        · simp only [cond_false, Bool.and_eq_true, decide_eq_true_eq] at hsc
          have := word_ge _ _ hsc.1 hsc.2
          rw [hcx, hcy] at this
          exact scale_gt cy cx (q2 - q1) py this (by omega)
        · simp only [cond_true, decide_eq_true_eq] at hsc
          omega
      have hBA : ¬ cy * 10 ^ (q2 - q1) < cx := by omega
      apply leaf; rw [if_neg hBA, if_pos hAB]; cases s <;> cases mx <;> rfl
    · rw [if_neg hsc]
      have g0 : ¬ expOf x - expOf y > 0 := by rw [int32_gt_lit, d1]; show ¬ (0 : Int) < _; omega
      rw [if_neg (by simpa using g0)]
      rcases gapStage_spec (expOf y - expOf x) (q2 - q1) (by rw [d2]; omega) (by omega) (sigOf y) _ _ _ with
        ⟨hg, h⟩ | ⟨hg, r, rv, h⟩ | ⟨hg, r, rv, h⟩ <;> rw [h]
      · have hAB := big_gap cy cx (q2 - q1) py lx hg
        have hBA : ¬ cy * 10 ^ (q2 - q1) < cx := by omega
        apply leaf; rw [if_neg hBA, if_pos hAB]; cases s <;> cases mx <;> rfl
      · simp only [rv, hcy]
        apply leaf
        rcases Nat.lt_trichotomy cx (cy * 10 ^ (q2 - q1)) with h1 | h1 | h1
        · have h2 : ¬ cy * 10 ^ (q2 - q1) < cx := by omega
          rw [if_neg h2, if_pos h1]; simp only [h1, decide_true]; cases s <;> cases mx <;> rfl
        · rw [← h1]; simp only [Nat.lt_irrefl, decide_false, if_false]; cases s <;> cases mx <;> rfl
        · have h2 : ¬ cx < cy * 10 ^ (q2 - q1) := by omega
          rw [if_pos h1]; simp only [h2, decide_false]; cases s <;> cases mx <;> rfl
      · simp only [rv, hcy]
        apply leaf
        rcases Nat.lt_trichotomy cx (cy * 10 ^ (q2 - q1)) with h1 | h1 | h1
        · have h2 : ¬ cy * 10 ^ (q2 - q1) < cx := by omega
          rw [if_neg h2, if_pos h1]; simp only [h1, decide_true]; cases s <;> cases mx <;> rfl
        · rw [← h1]; simp only [Nat.lt_irrefl, decide_false, if_false]; cases s <;> cases mx <;> rfl
        · have h2 : ¬ cx < cy * 10 ^ (q2 - q1) := by omega
          rw [if_pos h1]; simp only [h2, decide_false]; cases s <;> cases mx <;> rfl

/-! ## 8. `bid128_minnum` / `bid128_maxnum` on two canonical numbers -/

theorem firstOf_inf_left (mx : Bool) (tie : Datum → Datum → Bool) (s1 : Bool) (b : Datum) (hb : b.isNaN = false)
    (hne : b ≠ .inf s1) : firstOf mx false tie (.inf s1) b = (s1 != mx) := by
  unfold firstOf ordOf
  cases b with
  | nan s g p => simp [Datum.isNaN] at hb
  | inf s2 =>
    have : s1 ≠ s2 := fun h => hne (by rw [h])
    cases s1 <;> cases s2 <;> cases mx <;> simp [cmpD] at this ⊢
  | fin s c e => cases s1 <;> cases mx <;> simp [cmpD]

theorem firstOf_inf_right (mx : Bool) (tie : Datum → Datum → Bool) (s c e) (s2 : Bool) :
    firstOf mx false tie (.fin s c e) (.inf s2) = (s2 == mx) := by
  unfold firstOf ordOf
  cases s2 <;> cases mx <;> simp [cmpD]

/-- two canonical words that decode to the same datum are the same word -/
theorem canon_inj (x y : U128) (hx : Canon x) (hy : Canon y) (h : decode (bitsOf x) = decode (bitsOf y)) : x = y := by
  rw [canon_word x hx, canon_word y hy, h]

theorem pure_self (x : U128) (f : UInt32) (c : Prop) [Decidable c] :
    (pure (x, f) : Res) = .ok (if c then x else x, f) := by rw [ite_self]; rfl

theorem negOf_eq (x : U128) : negOf x = negW x.w1.toNat := by
  unfold negOf; rw [sign_test]; rfl


theorem plainNum_spec (mx : Bool) (x y : U128) (f : UInt32) (hx : Canon x) (hy : Canon y)
    (nx : (decode (bitsOf x)).isNaN = false) (ny : (decode (bitsOf y)).isNaN = false) :
    plainNum mx x y f =
      .ok (if firstOf mx false (plainTie mx) (decode (bitsOf x)) (decode (bitsOf y)) = true then x else y, f) := by
  unfold plainNum
  simp only []
  rw [beq128]
  by_cases hxy : x = y
  · subst hxy
    rw [if_pos (decide_eq_true rfl)]
    exact pure_self x f _
  rw [if_neg (by simpa using hxy)]
  have hdne : decode (bitsOf x) ≠ decode (bitsOf y) := fun h => hxy (canon_inj x y hx hy h)
  rw [inf_test, inf_test, pq2, pq1]
  rcases canon_num x hx nx with ⟨ix, dx⟩ | ⟨ix, lx, dx⟩
  · -- x is an infinity
    rw [if_pos (decide_eq_true ix)]
    apply leaf
    rw [dx, firstOf_inf_left mx _ _ _ ny (by rw [← dx]; exact fun h => hdne h.symm), negOf_eq]
  rw [if_neg (by simpa using ix)]
  rcases canon_num y hy ny with ⟨iy, dy⟩ | ⟨iy, ly, dy⟩
  · -- y is an infinity, x is finite
    rw [if_pos (decide_eq_true iy)]
    apply leaf
    rw [dx, dy, firstOf_inf_right, negOf_eq]
    cases negW y.w1.toNat <;> cases mx <;> rfl
  rw [if_neg (by simpa using iy)]
  -- both finite
  rw [dx, dy, firstOf_plain_fin, zeroT, zeroT]
  have hsx : (x.w1 &&& 0x8000000000000000 == 0x8000000000000000) = negW x.w1.toNat := negOf_eq x
  have hsy : (y.w1 &&& 0x8000000000000000 == 0x8000000000000000) = negW y.w1.toNat := negOf_eq y
  have nsx : (x.w1 &&& 0x8000000000000000 != 0x8000000000000000) = !negW x.w1.toNat := by rw [bne, hsx]
  have hxor : ((x.w1 ^^^ y.w1) &&& 0x8000000000000000 == 0x8000000000000000)
      = (negW x.w1.toNat != negW y.w1.toNat) := by rw [sign_xor_test]; rfl
  have hne : ¬ (negW x.w1.toNat = negW y.w1.toNat ∧ expW x.w1.toNat = expW y.w1.toNat ∧
      sigW x.w1.toNat x.w0.toNat = sigW y.w1.toNat y.w0.toNat) := fun ⟨h1, h2, h3⟩ => hxy (same_fields x y h1 h2 h3)
  have pw : ∀ k : Nat, 0 < 10 ^ k := fun k => Nat.pow_pos (by decide)
  generalize negW x.w1.toNat = s1 at *
  generalize negW y.w1.toNat = s2 at *
  generalize hc1 : sigW x.w1.toNat x.w0.toNat = c1 at *
  generalize hc2 : sigW y.w1.toNat y.w0.toNat = c2 at *
  generalize hq1 : expW x.w1.toNat = q1 at *
  generalize hq2 : expW y.w1.toNat = q2 at *
  unfold plainZero
  simp only [pq1, hsx, hsy, nsx, hxor]
  by_cases z1 : c1 = 0
  · rw [if_pos (decide_eq_true z1)]
    subst z1
    by_cases z2 : c2 = 0
    · rw [if_pos (decide_eq_true z2)]
      subst z2
      simp only [Bool.and_self, if_true, Nat.zero_mul, first3_zero_zero, plainTie, beq_self_eq_true, Bool.true_or]
      rfl
    · rw [if_neg (by simpa using z2)]
      simp only [Bool.and_false, Bool.false_eq_true, if_false, if_true, Nat.zero_mul]
      rw [first3_zero_left _ _ _ _ _ (Nat.mul_pos (by omega) (pw _))]
      apply leaf; cases s2 <;> cases mx <;> rfl
  · rw [if_neg (by simpa using z1)]
    by_cases z2 : c2 = 0
    · rw [if_pos (decide_eq_true z2)]
      subst z2
      simp only [Bool.false_and, Bool.false_eq_true, if_false, if_true, Nat.zero_mul]
      rw [first3_zero_right _ _ _ _ _ (Nat.mul_pos (by omega) (pw _))]
      apply leaf; cases s1 <;> cases mx <;> rfl
    · rw [if_neg (by simpa using z2)]
      simp only [Bool.false_and, Bool.false_eq_true, if_false]
      have p1 : 0 < c1 := by omega
      have p2 : 0 < c2 := by omega
      by_cases hs : s1 = s2
      · subst hs
        rw [if_neg (by simp)]
        have hne' : q1 = q2 → c1 ≠ c2 := fun h1 h2 => hne ⟨rfl, h1, h2⟩
        rw [plainTail_spec mx x y f s1 hsx hsy c1 c2 q1 q2 (by rw [val128_sigOf, hc1]) (by rw [val128_sigOf, hc2])
          p1 lx p2 ly (by rw [expOf_toInt, hq1]) (by rw [expOf_toInt, hq2])
          (by rw [← hq1]; exact expW_lt _) (by rw [← hq2]; exact expW_lt _) hne', first3_same]
        simp only [plainTie, show (c1 == 0) = false from by simpa using z1, Bool.false_or]
        have e1 : decide ((q1 : Int) - 6176 ≤ (q2 : Int) - 6176) = decide (q1 ≤ q2) := by
          rw [decide_eq_decide]; omega
        have e2 : decide ((q2 : Int) - 6176 ≤ (q1 : Int) - 6176) = decide (q2 ≤ q1) := by
          rw [decide_eq_decide]; omega
        rw [e1, e2]
      · rw [if_pos (by cases s1 <;> cases s2 <;> simp at hs ⊢)]
        rw [first3_opp _ _ _ _ _ _ hs (Nat.mul_pos p1 (pw _)) (Nat.mul_pos p2 (pw _))]
        apply leaf; cases s2 <;> cases mx <;> rfl

/-! ## 9. The complete routines -/

/-- the datum a routine returns, given which of two numbers it prefers -/
def selBy (first : Datum → Datum → Bool) (a b : Datum) : Datum :=
  if a.isNaN || b.isNaN then nanSel a b else if first a b then a else b

theorem canonW_encode (x : U128) : canonW x = ofBits (encode (decode (bitsOf x))) := canonW_spec x

/-- assembling a routine from its stages -/
theorem stages_spec (k : U128 → U128 → UInt32 → Res) (first : Datum → Datum → Bool)
    (hk : ∀ x y f, Canon x → Canon y → (decode (bitsOf x)).isNaN = false → (decode (bitsOf y)).isNaN = false →
      k x y f = .ok (if first (decode (bitsOf x)) (decode (bitsOf y)) = true then x else y, f))
    (x y : U128) (f : UInt32) :
    nanStage k (canonW x) (canonW y) f =
      .ok (ofBits (encode (selBy first (decode (bitsOf x)) (decode (bitsOf y)))),
        flagsOut f (decode (bitsOf x)) (decode (bitsOf y))) := by
  rw [nanStage_spec _ _ _ _ (canonW_canon x) (canonW_canon y), decode_canonW, decode_canonW]
  unfold selBy
  by_cases hn : ((decode (bitsOf x)).isNaN || (decode (bitsOf y)).isNaN) = true
  · rw [if_pos hn, if_pos hn]
  · rw [if_neg hn, if_neg hn]
    have nx : (decode (bitsOf x)).isNaN = false := by
      cases h : (decode (bitsOf x)).isNaN <;> simp [h] at hn ⊢
    have ny : (decode (bitsOf y)).isNaN = false := by
      cases h : (decode (bitsOf y)).isNaN <;> simp [h] at hn ⊢
    rw [hk _ _ _ (canonW_canon x) (canonW_canon y) (by rw [decode_canonW]; exact nx) (by rw [decode_canonW]; exact ny),
      decode_canonW, decode_canonW, flagsOut_eq, snan_of_not_nan _ _ hn]
    simp only [Bool.false_eq_true, if_false]
    split
    · rw [canonW_encode]
    · rw [canonW_encode]

/-- which of two numbers `bid128_minnum` returns (`true` = the first): the smaller one; of two equal ones see `plainTie` -/
def minFirst : Datum → Datum → Bool := firstOf false false (plainTie false)
/-- which of two numbers `bid128_maxnum` returns: the larger one; of two equal ones see `plainTie` -/
def maxFirst : Datum → Datum → Bool := firstOf true false (plainTie true)

/-- **`bid128_minnum`, all pairs of 128-bit patterns, every incoming status word.**  The routine never panics; it returns
the canonical encoding of the datum `selBy minFirst a b` (`a`, `b` the decoded operands) and or-s `invalid` into the
status word iff an operand is a signalling NaN. -/
theorem bid128_minnum_eq (x y : U128) (f : UInt32) :
    bid128_minnum x y f =
      .ok (ofBits (encode (selBy minFirst (decode (bitsOf x)) (decode (bitsOf y)))),
        flagsOut f (decode (bitsOf x)) (decode (bitsOf y))) := by
  rw [minnum_unfold]
  exact stages_spec _ _ (fun x y f hx hy nx ny => plainNum_spec false x y f hx hy nx ny) x y f

/-- **`bid128_maxnum`**, likewise -/
theorem bid128_maxnum_eq (x y : U128) (f : UInt32) :
    bid128_maxnum x y f =
      .ok (ofBits (encode (selBy maxFirst (decode (bitsOf x)) (decode (bitsOf y)))),
        flagsOut f (decode (bitsOf x)) (decode (bitsOf y))) := by
  rw [maxnum_unfold]
  exact stages_spec _ _ (fun x y f hx hy nx ny => plainNum_spec true x y f hx hy nx ny) x y f


/-! ## 10. `bid128_minnum_mag` / `bid128_maxnum_mag` -/

theorem val128_inj (a b : U128) (h : val128 a = val128 b) : a = b := by
  have ha := ofBits_bitsOf a; have hb := ofBits_bitsOf b
  rw [← ha, ← hb]
  exact congrArg ofBits h

theorem eqW3 (e : Bool) (a b : U128) :
    (e && a.w1 == b.w1 && a.w0 == b.w0) = (e && decide (val128 a = val128 b)) := by
  cases e
  · simp
  · rw [Bool.eq_iff_iff]
    simp only [Bool.true_and, Bool.and_eq_true, beq_iff_eq, decide_eq_true_eq]
    constructor
    · rintro ⟨e1, e0⟩
      obtain ⟨a0, a1⟩ := a; obtain ⟨b0, b1⟩ := b
      simp only at e1 e0
      subst e1; subst e0; rfl
    · intro h
      have := val128_inj a b h
      subst this; exact ⟨rfl, rfl⟩

theorem lt256 (r : U256) (s : U128) :
    (r.w3 == 0 && r.w2 == 0 && (decide (r.w1 < s.w1) || r.w1 == s.w1 && decide (r.w0 < s.w0)))
      = decide (val256 r < val128 s) := by
  have := r.w0.toNat_lt; have := r.w1.toNat_lt; have := s.w0.toNat_lt; have := s.w1.toNat_lt
  rw [Bool.eq_iff_iff, decide_eq_true_iff]
  simp only [Bool.or_eq_true, Bool.and_eq_true, decide_eq_true_eq, beq_iff_eq, UInt64.lt_iff_toNat_lt,
    ← UInt64.toNat_inj, UInt64.toNat_zero, val128, val256]
  omega

theorem lt192 (r : U192) (s : U128) :
    (r.w2 == 0 && (decide (r.w1 < s.w1) || r.w1 == s.w1 && decide (r.w0 < s.w0)))
      = decide (val192 r < val128 s) := by
  have := r.w0.toNat_lt; have := r.w1.toNat_lt; have := s.w0.toNat_lt; have := s.w1.toNat_lt
  rw [Bool.eq_iff_iff, decide_eq_true_iff]
  simp only [Bool.or_eq_true, Bool.and_eq_true, decide_eq_true_eq, beq_iff_eq, UInt64.lt_iff_toNat_lt,
    ← UInt64.toNat_inj, UInt64.toNat_zero, val128, val192]
  omega

theorem leaf' (E F : Bool) (x y : U128) (f : UInt32) (h : (!E) = F) :
    (pure (if E = true then y else x, f) : Res) = .ok (if F = true then x else y, f) := by
  subst h; cases E <;> rfl

theorem leafQ (mx F : Bool) (x y : U128) (f : UInt32) (h : mx = F) :
    (pure (bif mx then x else y, f) : Res) = .ok (if F = true then x else y, f) := by subst h; cases mx <;> rfl

theorem leafP (mx F : Bool) (x y : U128) (f : UInt32) (h : (!mx) = F) :
    (pure (bif mx then y else x, f) : Res) = .ok (if F = true then x else y, f) := by subst h; cases mx <;> rfl

theorem magTail_spec (mx : Bool) (x y : U128) (f : UInt32) (s1 s2 : Bool)
    (hsx : (x.w1 &&& 0x8000000000000000 == 0x8000000000000000) = s1)
    (hsy : (y.w1 &&& 0x8000000000000000 == 0x8000000000000000) = s2)
    (cx cy q1 q2 : Nat) (hcx : val128 (sigOf x) = cx) (hcy : val128 (sigOf y) = cy)
    (px : 0 < cx) (lx : cx < P34) (py : 0 < cy) (ly : cy < P34)
    (hq1 : (expOf x).toInt = q1) (hq2 : (expOf y).toInt = q2) (b1 : q1 < 2^14) (b2 : q2 < 2^14)
    (hne : ¬ (s1 = s2 ∧ q1 = q2 ∧ cx = cy)) :
    magTail mx x y f = .ok (if (if cx * 10 ^ (q1 - q2) < cy * 10 ^ (q2 - q1) then !mx
        else if cy * 10 ^ (q2 - q1) < cx * 10 ^ (q1 - q2) then mx
        else (if s1 == s2 then (s1 == mx) else (s1 != mx))) = true then x else y, f) := by
  obtain ⟨t1, t2, t3, t4, t5, t6, t7⟩ := exp_tests x y q1 q2 hq1 hq2
  have d1 := int32_sub_toInt (expOf y) (expOf x) q2 q1 hq2 hq1 b2 b1
  have d2 := int32_sub_toInt (expOf x) (expOf y) q1 q2 hq1 hq2 b1 b2
  unfold magTail
  simp only [hsx, hsy, t1, t2, t3, t7, geW, gtW, ltW, eqW3, eq256, eq192, gt256, gt192, lt256, lt192, pq1, pq2,
    hcx, hcy]
  have hX := le_scale cx (q1 - q2)
  have hY := le_scale cy (q2 - q1)
  by_cases hq : q2 = q1
  · subst hq
    have hne' : ¬ (s1 = s2 ∧ cx = cy) := fun ⟨h1, h2⟩ => hne ⟨h1, rfl, h2⟩
    simp only [Nat.sub_self, Nat.pow_zero, Nat.mul_one, decide_true, Bool.true_and, Bool.and_true, Nat.lt_irrefl,
      decide_false, Bool.and_false, Bool.or_false]
    rcases Nat.lt_trichotomy cx cy with h | h | h
    · have n1 : ¬ cx = cy := by omega
      have n2 : ¬ cy < cx := by omega
      rw [if_neg (by simpa using n1), if_neg (by simpa using n2), if_pos (decide_eq_true h)]
      apply leafP; rw [if_pos h]
    · subst h
      have hs : s1 ≠ s2 := fun h => hne' ⟨h, rfl⟩
      rw [if_pos (decide_eq_true rfl)]
      apply leaf'
      simp only [Nat.lt_irrefl, if_false]
      cases s1 <;> cases s2 <;> cases mx <;> simp at hs ⊢
    · have n1 : ¬ cx = cy := by omega
      have n2 : ¬ cx < cy := by omega
      rw [if_neg (by simpa using n1), if_pos (decide_eq_true h)]
      apply leafQ; rw [if_neg n2, if_pos h]
  have hq' : ¬ q1 = q2 := fun h => hq h.symm
  simp only [hq, hq', decide_false, Bool.false_and, Bool.and_false, Bool.false_or, Bool.false_eq_true, if_false]
  by_cases hlt : q2 < q1
  · -- exponent of x larger
    have e0 : q2 - q1 = 0 := by omega
    have n1 : ¬ q1 < q2 := by omega
    simp only [e0, Nat.pow_zero, Nat.mul_one, hlt, n1, decide_true, decide_false, Bool.and_true, Bool.and_false,
      Bool.false_eq_true, if_false]
    by_cases hsc : cy ≤ cx
    · rw [if_pos (decide_eq_true hsc)]
      have hAB := scale_gt cx cy (q1 - q2) px hsc (by omega)
      have hBA : ¬ cx * 10 ^ (q1 - q2) < cy := by omega
      apply leafQ; rw [if_neg hBA, if_pos hAB]
    · rw [if_neg (by simpa using hsc)]
      have g0 : expOf x - expOf y > 0 := by rw [int32_gt_lit, d1]; show (0 : Int) < _; omega
      rw [if_pos (decide_eq_true g0)]
      rcases gapStage_spec (expOf x - expOf y) (q1 - q2) (by rw [d1]; omega) (by omega) (sigOf x) _ _ _ with
        ⟨hg, h⟩ | ⟨hg, r, rv, h⟩ | ⟨hg, r, rv, h⟩ <;> rw [h]
      · have hAB := big_gap cx cy (q1 - q2) px ly hg
        have hBA : ¬ cx * 10 ^ (q1 - q2) < cy := by omega
        apply leafQ; rw [if_neg hBA, if_pos hAB]
      · simp only [rv, hcx]
        rcases Nat.lt_trichotomy cy (cx * 10 ^ (q1 - q2)) with h1 | h1 | h1
        · have n2 : ¬ cy = cx * 10 ^ (q1 - q2) := by omega
          have n3 : ¬ cx * 10 ^ (q1 - q2) < cy := by omega
          rw [if_neg (by simpa using n2)]
          apply leaf; rw [if_neg n3, if_pos h1]; simp only [h1, decide_true]; cases mx <;> rfl
        · rw [if_pos (decide_eq_true h1)]
          apply leaf; rw [← h1]; simp only [Nat.lt_irrefl, if_false]
          cases s1 <;> cases s2 <;> cases mx <;> rfl
        · have n2 : ¬ cy = cx * 10 ^ (q1 - q2) := by omega
          have n3 : ¬ cy < cx * 10 ^ (q1 - q2) := by omega
          rw [if_neg (by simpa using n2)]
          apply leaf; rw [if_pos h1]; simp only [n3, decide_false]; cases mx <;> rfl
      · simp only [rv, hcx]
        rcases Nat.lt_trichotomy cy (cx * 10 ^ (q1 - q2)) with h1 | h1 | h1
        · have n2 : ¬ cy = cx * 10 ^ (q1 - q2) := by omega
          have n3 : ¬ cx * 10 ^ (q1 - q2) < cy := by omega
          rw [if_neg (by simpa using n2)]
          apply leaf; rw [if_neg n3, if_pos h1]; simp only [h1, decide_true]; cases mx <;> rfl
        · rw [if_pos (decide_eq_true h1)]
          apply leaf; rw [← h1]; simp only [Nat.lt_irrefl, if_false]
          cases s1 <;> cases s2 <;> cases mx <;> rfl
        · have n2 : ¬ cy = cx * 10 ^ (q1 - q2) := by omega
          have n3 : ¬ cy < cx * 10 ^ (q1 - q2) := by omega
          rw [if_neg (by simpa using n2)]
          apply leaf; rw [if_pos h1]; simp only [n3, decide_false]; cases mx <;> rfl
  · -- exponent of y larger
    have hlt' : q1 < q2 := by omega
    have e0 : q1 - q2 = 0 := by omega
    simp only [e0, Nat.pow_zero, Nat.mul_one, hlt, hlt', decide_true, decide_false, Bool.and_true, Bool.and_false,
      Bool.false_eq_true, if_false]
    by_cases hsc : cx ≤ cy
    · rw [if_pos (decide_eq_true hsc)]
      have hAB := scale_gt cy cx (q2 - q1) py hsc (by omega)
      apply leafP; rw [if_pos hAB]
    · rw [if_neg (by simpa using hsc)]
      have g0 : ¬ expOf x - expOf y > 0 := by rw [int32_gt_lit, d1]; show ¬ (0 : Int) < _; omega
      rw [if_neg (by simpa using g0)]
      rcases gapStage_spec (expOf y - expOf x) (q2 - q1) (by rw [d2]; omega) (by omega) (sigOf y) _ _ _ with
        ⟨hg, h⟩ | ⟨hg, r, rv, h⟩ | ⟨hg, r, rv, h⟩ <;> rw [h]
      · have hAB := big_gap cy cx (q2 - q1) py lx hg
        apply leafP; rw [if_pos hAB]
      · simp only [rv, hcy]
        rcases Nat.lt_trichotomy cx (cy * 10 ^ (q2 - q1)) with h1 | h1 | h1
        · have n2 : ¬ cx = cy * 10 ^ (q2 - q1) := by omega
          have n3 : ¬ cy * 10 ^ (q2 - q1) < cx := by omega
          rw [if_neg (by simpa using n2)]
          apply leaf; rw [if_pos h1]; simp only [n3, decide_false]; cases mx <;> rfl
        · rw [if_pos (decide_eq_true h1)]
          apply leaf; rw [← h1]; simp only [Nat.lt_irrefl, if_false]
          cases s1 <;> cases s2 <;> cases mx <;> rfl
        · have n2 : ¬ cx = cy * 10 ^ (q2 - q1) := by omega
          have n3 : ¬ cx < cy * 10 ^ (q2 - q1) := by omega
          rw [if_neg (by simpa using n2)]
          apply leaf; rw [if_neg n3, if_pos h1]; simp only [h1, decide_true]; cases mx <;> rfl
      · simp only [rv, hcy]
        rcases Nat.lt_trichotomy cx (cy * 10 ^ (q2 - q1)) with h1 | h1 | h1
        · have n2 : ¬ cx = cy * 10 ^ (q2 - q1) := by omega
          have n3 : ¬ cy * 10 ^ (q2 - q1) < cx := by omega
          rw [if_neg (by simpa using n2)]
          apply leaf; rw [if_pos h1]; simp only [n3, decide_false]; cases mx <;> rfl
        · rw [if_pos (decide_eq_true h1)]
          apply leaf; rw [← h1]; simp only [Nat.lt_irrefl, if_false]
          cases s1 <;> cases s2 <;> cases mx <;> rfl
        · have n2 : ¬ cx = cy * 10 ^ (q2 - q1) := by omega
          have n3 : ¬ cx < cy * 10 ^ (q2 - q1) := by omega
          rw [if_neg (by simpa using n2)]
          apply leaf; rw [if_neg n3, if_pos h1]; simp only [h1, decide_true]; cases mx <;> rfl

/-- the tie rule of `bid128_minnum_mag` (`mx = false`) / `bid128_maxnum_mag` (`mx = true`) for operands of equal
value: two zeros → `minnum_mag` the first, `maxnum_mag` the second operand; two members of a cohort →
`minnum_mag` the first operand if they are positive and the second if negative, `maxnum_mag` the other way round
(the exponents play no role) -/
def magTie (mx : Bool) : Datum → Datum → Bool
  | .fin s c1 _, .fin _ _ _ => if c1 == 0 then !mx else (s == mx)
  | _, _ => true

theorem sInt_false (n : Nat) : sInt false n = (n : Int) := rfl

/-- finite operands, `_mag` forms: first the aligned magnitudes, then (equal magnitudes) the signed values -/
theorem firstOf_mag_fin (mx : Bool) (tie : Datum → Datum → Bool) (s1 s2 : Bool) (c1 c2 q1 q2 : Nat) :
    firstOf mx true tie (.fin s1 c1 ((q1 : Nat) - (6176 : Int))) (.fin s2 c2 ((q2 : Nat) - (6176 : Int)))
      = if c1 * 10 ^ (q1 - q2) < c2 * 10 ^ (q2 - q1) then !mx
        else if c2 * 10 ^ (q2 - q1) < c1 * 10 ^ (q1 - q2) then mx
        else first3 mx (tie (.fin s1 c1 ((q1 : Nat) - (6176 : Int))) (.fin s2 c2 ((q2 : Nat) - (6176 : Int))))
          (sInt s1 (c1 * 10 ^ (q1 - q2))) (sInt s2 (c2 * 10 ^ (q2 - q1))) := by
  unfold firstOf ordOf first3
  simp only [if_true, Datum.setSign, cmpD, cmpFin_nat, compare_int, sInt_false]
  generalize c1 * 10 ^ (q1 - q2) = A
  generalize c2 * 10 ^ (q2 - q1) = B
  generalize sInt s1 A = U
  generalize sInt s2 B = V
  rcases Nat.lt_trichotomy A B with h | h | h
  · have h' : (A : Int) < B := by omega
    simp only [h, h', if_true]
  · subst h
    simp only [Int.lt_irrefl, Nat.lt_irrefl, if_true, if_false]
    by_cases h1 : U < V
    · simp only [h1, if_true]
    · by_cases h2 : U = V
      · subst h2; simp only [Int.lt_irrefl, if_true, if_false]
      · simp only [h1, h2, if_false]
  · have h1 : ¬ (A : Int) < B := by omega
    have h2 : ¬ (A : Int) = B := by omega
    have h3 : ¬ A < B := by omega
    simp only [h, h1, h2, h3, if_true, if_false]

theorem first3_eqmag (mx t s1 s2 : Bool) (A : Nat) (hA : 0 < A) :
    first3 mx t (sInt s1 A) (sInt s2 A) = if s1 == s2 then t else (s1 != mx) := by
  unfold first3 sInt
  cases s1 <;> cases s2 <;> cases mx <;> simp <;> omega

theorem firstOf_mag_inf_left (mx : Bool) (tie : Datum → Datum → Bool) (s1 : Bool) (b : Datum) (hb : b.isNaN = false)
    (hne : b ≠ .inf s1) : firstOf mx true tie (.inf s1) b = ((s1 && b.isInf) != mx) := by
  unfold firstOf ordOf
  cases b with
  | nan s g p => simp [Datum.isNaN] at hb
  | inf s2 =>
    have : s1 ≠ s2 := fun h => hne (by rw [h])
    cases s1 <;> cases s2 <;> cases mx <;> simp [cmpD, Datum.setSign, Datum.isInf] at this ⊢
  | fin s c e => cases s1 <;> cases mx <;> simp [cmpD, Datum.setSign, Datum.isInf]

theorem firstOf_mag_inf_right (mx : Bool) (tie : Datum → Datum → Bool) (s c e) (s2 : Bool) :
    firstOf mx true tie (.fin s c e) (.inf s2) = !mx := by
  unfold firstOf ordOf
  cases s2 <;> cases mx <;> simp [cmpD, Datum.setSign]

theorem pure_self' (x : U128) (f : UInt32) (c : Prop) [Decidable c] :
    (pure (x, f) : Res) = .ok (if c then x else x, f) := by rw [ite_self]; rfl

theorem magNum_spec (mx : Bool) (x y : U128) (f : UInt32) (hx : Canon x) (hy : Canon y)
    (nx : (decode (bitsOf x)).isNaN = false) (ny : (decode (bitsOf y)).isNaN = false) :
    magNum mx x y f =
      .ok (if firstOf mx true (magTie mx) (decode (bitsOf x)) (decode (bitsOf y)) = true then x else y, f) := by
  unfold magNum
  simp only []
  rw [beq128]
  by_cases hxy : x = y
  · subst hxy
    rw [if_pos (decide_eq_true rfl)]
    exact pure_self x f _
  rw [if_neg (by simpa using hxy)]
  have hdne : decode (bitsOf x) ≠ decode (bitsOf y) := fun h => hxy (canon_inj x y hx hy h)
  rw [pq2, infT y hy ny, inf_test]
  rcases canon_num x hx nx with ⟨ix, dx⟩ | ⟨ix, lx, dx⟩
  · -- x is an infinity
    rw [if_pos (decide_eq_true ix)]
    apply leaf
    rw [dx, firstOf_mag_inf_left mx _ _ _ ny (by rw [← dx]; exact fun h => hdne h.symm), negOf_eq]
  rw [if_neg (by simpa using ix)]
  rcases canon_num y hy ny with ⟨iy, dy⟩ | ⟨iy, ly, dy⟩
  · -- y is an infinity, x is finite
    rw [if_pos (by rw [dy]; rfl)]
    apply leafP
    rw [dx, dy, firstOf_mag_inf_right]
  rw [if_neg (by rw [dy]; simp [Datum.isInf])]
  -- both finite
  rw [dx, dy, firstOf_mag_fin, zeroT, zeroT]
  have hsx : (x.w1 &&& 0x8000000000000000 == 0x8000000000000000) = negW x.w1.toNat := negOf_eq x
  have hsy : (y.w1 &&& 0x8000000000000000 == 0x8000000000000000) = negW y.w1.toNat := negOf_eq y
  have hne : ¬ (negW x.w1.toNat = negW y.w1.toNat ∧ expW x.w1.toNat = expW y.w1.toNat ∧
      sigW x.w1.toNat x.w0.toNat = sigW y.w1.toNat y.w0.toNat) := fun ⟨h1, h2, h3⟩ => hxy (same_fields x y h1 h2 h3)
  have pw : ∀ k : Nat, 0 < 10 ^ k := fun k => Nat.pow_pos (by decide)
  generalize negW x.w1.toNat = s1 at *
  generalize negW y.w1.toNat = s2 at *
  generalize hc1 : sigW x.w1.toNat x.w0.toNat = c1 at *
  generalize hc2 : sigW y.w1.toNat y.w0.toNat = c2 at *
  generalize hq1 : expW x.w1.toNat = q1 at *
  generalize hq2 : expW y.w1.toNat = q2 at *
  by_cases z1 : c1 = 0
  · rw [if_pos (decide_eq_true z1)]
    subst z1
    apply leafP
    simp only [Nat.zero_mul, Nat.lt_irrefl, if_false]
    by_cases z2 : c2 = 0
    · subst z2
      simp only [Nat.zero_mul, Nat.lt_irrefl, if_false, first3_zero_zero, magTie, beq_self_eq_true, if_true]
    · rw [if_pos (Nat.mul_pos (by omega) (pw _))]
  · rw [if_neg (by simpa using z1)]
    by_cases z2 : c2 = 0
    · rw [if_pos (decide_eq_true z2)]
      subst z2
      apply leafQ
      simp only [Nat.zero_mul, Nat.not_lt_zero, if_false]
      rw [if_pos (Nat.mul_pos (by omega) (pw _))]
    · rw [if_neg (by simpa using z2)]
      have p1 : 0 < c1 := by omega
      have p2 : 0 < c2 := by omega
      rw [magTail_spec mx x y f s1 s2 hsx hsy c1 c2 q1 q2 (by rw [val128_sigOf, hc1]) (by rw [val128_sigOf, hc2])
          p1 lx p2 ly (by rw [expOf_toInt, hq1]) (by rw [expOf_toInt, hq2])
          (by rw [← hq1]; exact expW_lt _) (by rw [← hq2]; exact expW_lt _) hne]
      apply congrArg (fun b : Bool => Except.ok (if b = true then x else y, f))
      by_cases hA : c1 * 10 ^ (q1 - q2) < c2 * 10 ^ (q2 - q1)
      · rw [if_pos hA, if_pos hA]
      · rw [if_neg hA, if_neg hA]
        by_cases hB : c2 * 10 ^ (q2 - q1) < c1 * 10 ^ (q1 - q2)
        · rw [if_pos hB, if_pos hB]
        · rw [if_neg hB, if_neg hB]
          have hE : c2 * 10 ^ (q2 - q1) = c1 * 10 ^ (q1 - q2) := by omega
          rw [hE, first3_eqmag _ _ _ _ _ (Nat.mul_pos p1 (pw _))]
          simp only [magTie, show (c1 == 0) = false from by simpa using z1, Bool.false_eq_true, if_false]

/-- which of two numbers `bid128_minnum_mag` returns: the one of smaller magnitude; equal magnitudes: the smaller one;
equal values: see `magTie` -/
def minMagFirst : Datum → Datum → Bool := firstOf false true (magTie false)
/-- which of two numbers `bid128_maxnum_mag` returns: the one of larger magnitude; equal magnitudes: the larger one;
equal values: see `magTie` -/
def maxMagFirst : Datum → Datum → Bool := firstOf true true (magTie true)

/-- **`bid128_minnum_mag`**, all pairs of patterns, every status word -/
theorem bid128_minnum_mag_eq (x y : U128) (f : UInt32) :
    bid128_minnum_mag x y f =
      .ok (ofBits (encode (selBy minMagFirst (decode (bitsOf x)) (decode (bitsOf y)))),
        flagsOut f (decode (bitsOf x)) (decode (bitsOf y))) := by
  rw [minnum_mag_unfold]
  exact stages_spec _ _ (fun x y f hx hy nx ny => magNum_spec false x y f hx hy nx ny) x y f

/-- **`bid128_maxnum_mag`**, likewise -/
theorem bid128_maxnum_mag_eq (x y : U128) (f : UInt32) :
    bid128_maxnum_mag x y f =
      .ok (ofBits (encode (selBy maxMagFirst (decode (bitsOf x)) (decode (bitsOf y)))),
        flagsOut f (decode (bitsOf x)) (decode (bitsOf y))) := by
  rw [maxnum_mag_unfold]
  exact stages_spec _ _ (fun x y f hx hy nx ny => magNum_spec true x y f hx hy nx ny) x y f


/-! ## 11. What the theorems say in the terms of the specification (`DecModel/Ops.lean`, `DecModel/Compare.lean`) -/

theorem isSNaN_isNaN (a : Datum) (h : a.isSNaN = true) : a.isNaN = true := by
  cases a <;> simp [Datum.isSNaN, Datum.isNaN] at h ⊢

/-- numbers: the result is one of the operands the exact order allows (`Dec.minmaxChoices`) -/
theorem selBy_mem_choices (mx mag : Bool) (tie : Datum → Datum → Bool) (a b : Datum)
    (ha : a.isNaN = false) (hb : b.isNaN = false) :
    selBy (firstOf mx mag tie) a b ∈ minmaxChoices mx mag a b := by
  unfold selBy
  rw [ha, hb]
  simp only [Bool.or_self, Bool.false_eq_true, if_false]
  exact firstOf_mem mx mag tie a b

/-- **the judge's expectation** (`expectCore.minmax`): it is a `oneOf`, the datum the code returns is one of the
alternatives, and the flags it raises are the expected ones — for every pair of patterns, NaNs included -/
theorem selBy_expected (mx mag : Bool) (tie : Datum → Datum → Bool) (X Y : Nat) :
    ∃ alts, Dec.expectCore.minmax mx mag X Y = .oneOf alts (quietCmpFlags (decode X) (decode Y)) ∧
      [Val.d (encode (selBy (firstOf mx mag tie) (decode X) (decode Y)))] ∈ alts := by
  unfold Dec.expectCore.minmax selBy nanSel quietCmpFlags
  simp only []
  generalize decode X = a
  generalize decode Y = b
  by_cases h1 : a.isSNaN = true
  · have n1 := isSNaN_isNaN a h1
    refine ⟨_, by simp only [h1, Bool.true_or, if_true]; rfl, ?_⟩
    simp only [n1, h1, Bool.true_or, if_true, List.filter_cons_of_pos, List.map_cons]
    exact List.mem_cons_self
  · by_cases h2 : b.isSNaN = true
    · have n2 := isSNaN_isNaN b h2
      refine ⟨_, by simp only [h2, Bool.or_true, if_true]; rfl, ?_⟩
      by_cases n1 : a.isNaN = true
      · simp only [n1, n2, h1, h2, Bool.true_or, if_true, if_false, Bool.false_eq_true, List.filter_cons_of_pos,
          List.map_cons]
        have : quietNaN a = a := by
          cases a <;> simp [Datum.isSNaN, quietNaN] at h1 ⊢
          exact h1
        rw [this]; exact List.mem_cons_self
      · simp only [n1, n2, h2, Bool.or_true, if_true, if_false, Bool.false_eq_true, List.filter_cons_of_pos,
          List.filter_cons_of_neg, List.map_cons, not_false_eq_true]
        exact List.mem_cons_self
    · have e : (a.isSNaN || b.isSNaN) = false := by simp [h1, h2]
      simp only [e, Bool.false_eq_true, if_false]
      by_cases n1 : a.isNaN = true
      · by_cases n2 : b.isNaN = true
        · refine ⟨_, by simp only [n1, n2, Bool.and_self, if_true]; rfl, ?_⟩
          simp only [n1, n2, h1, Bool.or_self, if_true, if_false, Bool.false_eq_true]
          exact List.mem_cons_self
        · refine ⟨_, by simp only [n1, n2, Bool.and_false, Bool.false_eq_true, if_false, if_true]; rfl, ?_⟩
          simp only [n1, n2, h1, Bool.true_or, if_true, if_false, Bool.false_eq_true]
          exact List.mem_cons_self
      · by_cases n2 : b.isNaN = true
        · refine ⟨_, by simp only [n1, n2, Bool.false_and, Bool.false_eq_true, if_false, if_true]; rfl, ?_⟩
          simp only [n1, n2, h2, Bool.or_true, if_true, if_false, Bool.false_eq_true]
          exact List.mem_cons_self
        · refine ⟨_, by simp only [n1, n2, Bool.and_self, Bool.false_eq_true, if_false]; rfl, ?_⟩
          simp only [n1, n2, Bool.or_self, Bool.false_eq_true, if_false]
          exact List.mem_map_of_mem (firstOf_mem mx mag tie a b)

theorem quietNaN_WF (a : Datum) (h : a.WF) : (quietNaN a).WF := by
  cases a <;> simp [quietNaN, Datum.WF] at h ⊢ <;> exact h

theorem selBy_WF (first : Datum → Datum → Bool) (a b : Datum) (ha : a.WF) (hb : b.WF) : (selBy first a b).WF := by
  unfold selBy nanSel
  repeat' split
  all_goals first | exact ha | exact hb | exact quietNaN_WF _ ha | exact quietNaN_WF _ hb

/-- the returned word is always a canonical encoding — also when the operands are not -/
theorem result_canonical (first : Datum → Datum → Bool) (x y : U128) :
    isCanonical (bitsOf (ofBits (encode (selBy first (decode (bitsOf x)) (decode (bitsOf y)))))) = true ∧
    bitsOf (ofBits (encode (selBy first (decode (bitsOf x)) (decode (bitsOf y)))))
      = encode (selBy first (decode (bitsOf x)) (decode (bitsOf y))) := by
  have hw := selBy_WF first _ _ (decode_WF (bitsOf x)) (decode_WF (bitsOf y))
  have e := bitsOf_ofBits_of_lt (encode_lt hw)
  rw [bitsOf_eq] at e
  rw [e]
  exact ⟨isCanonical_encode hw, rfl⟩


/-- the four operations in the judge's terms: the returned bits are `[.d (bitsOf r)]` with `bitsOf r` one of the
expected alternatives, and the status word is the incoming one or-ed with exactly the expected flags -/
theorem minnum_judged (x y : U128) (f : UInt32) :
    ∃ r alts, bid128_minnum x y f = .ok (r, f ||| UInt32.ofNat (quietCmpFlags (decode (bitsOf x)) (decode (bitsOf y)))) ∧
      Dec.expectCore.minmax false false (bitsOf x) (bitsOf y)
        = .oneOf alts (quietCmpFlags (decode (bitsOf x)) (decode (bitsOf y))) ∧
      [Val.d (bitsOf r)] ∈ alts ∧ isCanonical (bitsOf r) = true := by
  obtain ⟨alts, h1, h2⟩ := selBy_expected false false (plainTie false) (bitsOf x) (bitsOf y)
  obtain ⟨c1, c2⟩ := result_canonical minFirst x y
  exact ⟨_, alts, bid128_minnum_eq x y f, h1, by rw [c2]; exact h2, c1⟩

theorem maxnum_judged (x y : U128) (f : UInt32) :
    ∃ r alts, bid128_maxnum x y f = .ok (r, f ||| UInt32.ofNat (quietCmpFlags (decode (bitsOf x)) (decode (bitsOf y)))) ∧
      Dec.expectCore.minmax true false (bitsOf x) (bitsOf y)
        = .oneOf alts (quietCmpFlags (decode (bitsOf x)) (decode (bitsOf y))) ∧
      [Val.d (bitsOf r)] ∈ alts ∧ isCanonical (bitsOf r) = true := by
  obtain ⟨alts, h1, h2⟩ := selBy_expected true false (plainTie true) (bitsOf x) (bitsOf y)
  obtain ⟨c1, c2⟩ := result_canonical maxFirst x y
  exact ⟨_, alts, bid128_maxnum_eq x y f, h1, by rw [c2]; exact h2, c1⟩

theorem minnum_mag_judged (x y : U128) (f : UInt32) :
    ∃ r alts, bid128_minnum_mag x y f
        = .ok (r, f ||| UInt32.ofNat (quietCmpFlags (decode (bitsOf x)) (decode (bitsOf y)))) ∧
      Dec.expectCore.minmax false true (bitsOf x) (bitsOf y)
        = .oneOf alts (quietCmpFlags (decode (bitsOf x)) (decode (bitsOf y))) ∧
      [Val.d (bitsOf r)] ∈ alts ∧ isCanonical (bitsOf r) = true := by
  obtain ⟨alts, h1, h2⟩ := selBy_expected false true (magTie false) (bitsOf x) (bitsOf y)
  obtain ⟨c1, c2⟩ := result_canonical minMagFirst x y
  exact ⟨_, alts, bid128_minnum_mag_eq x y f, h1, by rw [c2]; exact h2, c1⟩

theorem maxnum_mag_judged (x y : U128) (f : UInt32) :
    ∃ r alts, bid128_maxnum_mag x y f
        = .ok (r, f ||| UInt32.ofNat (quietCmpFlags (decode (bitsOf x)) (decode (bitsOf y)))) ∧
      Dec.expectCore.minmax true true (bitsOf x) (bitsOf y)
        = .oneOf alts (quietCmpFlags (decode (bitsOf x)) (decode (bitsOf y))) ∧
      [Val.d (bitsOf r)] ∈ alts ∧ isCanonical (bitsOf r) = true := by
  obtain ⟨alts, h1, h2⟩ := selBy_expected true true (magTie true) (bitsOf x) (bitsOf y)
  obtain ⟨c1, c2⟩ := result_canonical maxMagFirst x y
  exact ⟨_, alts, bid128_maxnum_mag_eq x y f, h1, by rw [c2]; exact h2, c1⟩

/-! ### How `firstOf` reads: forced by a strict order, the tie rule otherwise -/

theorem firstOf_lt (mx mag : Bool) (tie : Datum → Datum → Bool) (a b : Datum) (h : ordOf mag a b = some .lt) :
    firstOf mx mag tie a b = !mx := by unfold firstOf; rw [h]
theorem firstOf_gt (mx mag : Bool) (tie : Datum → Datum → Bool) (a b : Datum) (h : ordOf mag a b = some .gt) :
    firstOf mx mag tie a b = mx := by unfold firstOf; rw [h]
theorem firstOf_eq (mx mag : Bool) (tie : Datum → Datum → Bool) (a b : Datum) (h : ordOf mag a b = some .eq) :
    firstOf mx mag tie a b = tie a b := by unfold firstOf; rw [h]

/-- `ordOf` is literally the order `minmaxChoices` uses -/
theorem choices_by_ordOf (mx mag : Bool) (a b : Datum) :
    minmaxChoices mx mag a b =
      (match ordOf mag a b with
       | some .lt => if mx then [b] else [a]
       | some .gt => if mx then [a] else [b]
       | _ => [a, b]) := rfl

/-! ### Non-vacuity: the theorems on concrete operands (each result also agrees with running the translated code) -/

theorem ok_pair {A C : U128} {B D : UInt32} (h1 : A = C) (h2 : B = D) : (Except.ok (A, B) : Res) = .ok (C, D) := by
  rw [h1, h2]

-- two zeros: the first operand, whatever the signs (`minnum`, `maxnum`, `minnum_mag`); `maxnum_mag`: the second
example : bid128_minnum ⟨0, 0x3040000000000000⟩ ⟨0, 0xb040000000000000⟩ 0 = .ok (⟨0, 0x3040000000000000⟩, 0) :=
  (bid128_minnum_eq _ _ _).trans (ok_pair (by decide +kernel) (by decide +kernel))
example : bid128_minnum ⟨0, 0xb040000000000000⟩ ⟨0, 0x3040000000000000⟩ 0 = .ok (⟨0, 0xb040000000000000⟩, 0) :=
  (bid128_minnum_eq _ _ _).trans (ok_pair (by decide +kernel) (by decide +kernel))
example : bid128_maxnum ⟨0, 0x3040000000000000⟩ ⟨0, 0xb040000000000000⟩ 0 = .ok (⟨0, 0x3040000000000000⟩, 0) :=
  (bid128_maxnum_eq _ _ _).trans (ok_pair (by decide +kernel) (by decide +kernel))
example : bid128_maxnum_mag ⟨0, 0x3040000000000000⟩ ⟨0, 0xb040000000000000⟩ 0 = .ok (⟨0, 0xb040000000000000⟩, 0) :=
  (bid128_maxnum_mag_eq _ _ _).trans (ok_pair (by decide +kernel) (by decide +kernel))
-- 1E+1 and 10E+0 (same value): `minnum` keeps the larger exponent (in either order), `maxnum` the smaller one
example : bid128_minnum ⟨1, 0x3042000000000000⟩ ⟨10, 0x3040000000000000⟩ 0 = .ok (⟨1, 0x3042000000000000⟩, 0) :=
  (bid128_minnum_eq _ _ _).trans (ok_pair (by decide +kernel) (by decide +kernel))
example : bid128_minnum ⟨10, 0x3040000000000000⟩ ⟨1, 0x3042000000000000⟩ 0 = .ok (⟨1, 0x3042000000000000⟩, 0) :=
  (bid128_minnum_eq _ _ _).trans (ok_pair (by decide +kernel) (by decide +kernel))
example : bid128_maxnum ⟨1, 0x3042000000000000⟩ ⟨10, 0x3040000000000000⟩ 0 = .ok (⟨10, 0x3040000000000000⟩, 0) :=
  (bid128_maxnum_eq _ _ _).trans (ok_pair (by decide +kernel) (by decide +kernel))
-- −1E+1 and −10E+0: the other way round
example : bid128_minnum ⟨1, 0xb042000000000000⟩ ⟨10, 0xb040000000000000⟩ 0 = .ok (⟨10, 0xb040000000000000⟩, 0) :=
  (bid128_minnum_eq _ _ _).trans (ok_pair (by decide +kernel) (by decide +kernel))
example : bid128_maxnum ⟨1, 0xb042000000000000⟩ ⟨10, 0xb040000000000000⟩ 0 = .ok (⟨1, 0xb042000000000000⟩, 0) :=
  (bid128_maxnum_eq _ _ _).trans (ok_pair (by decide +kernel) (by decide +kernel))
-- `_mag`: −2 against 2, and 2 against −20E−1 (equal magnitudes: the negative one is the minimum)
example : bid128_minnum_mag ⟨2, 0xb040000000000000⟩ ⟨2, 0x3040000000000000⟩ 0 = .ok (⟨2, 0xb040000000000000⟩, 0) :=
  (bid128_minnum_mag_eq _ _ _).trans (ok_pair (by decide +kernel) (by decide +kernel))
example : bid128_maxnum_mag ⟨2, 0xb040000000000000⟩ ⟨2, 0x3040000000000000⟩ 0 = .ok (⟨2, 0x3040000000000000⟩, 0) :=
  (bid128_maxnum_mag_eq _ _ _).trans (ok_pair (by decide +kernel) (by decide +kernel))
example : bid128_minnum_mag ⟨2, 0x3040000000000000⟩ ⟨20, 0xb03e000000000000⟩ 0 = .ok (⟨20, 0xb03e000000000000⟩, 0) :=
  (bid128_minnum_mag_eq _ _ _).trans (ok_pair (by decide +kernel) (by decide +kernel))
-- `_mag`, same value: positive cohort members → `minnum_mag` the first, `maxnum_mag` the second; negative: reversed
example : bid128_minnum_mag ⟨1, 0x3042000000000000⟩ ⟨10, 0x3040000000000000⟩ 0 = .ok (⟨1, 0x3042000000000000⟩, 0) :=
  (bid128_minnum_mag_eq _ _ _).trans (ok_pair (by decide +kernel) (by decide +kernel))
example : bid128_maxnum_mag ⟨1, 0x3042000000000000⟩ ⟨10, 0x3040000000000000⟩ 0 = .ok (⟨10, 0x3040000000000000⟩, 0) :=
  (bid128_maxnum_mag_eq _ _ _).trans (ok_pair (by decide +kernel) (by decide +kernel))
example : bid128_minnum_mag ⟨1, 0xb042000000000000⟩ ⟨10, 0xb040000000000000⟩ 0 = .ok (⟨10, 0xb040000000000000⟩, 0) :=
  (bid128_minnum_mag_eq _ _ _).trans (ok_pair (by decide +kernel) (by decide +kernel))
-- NaNs: a quiet NaN loses against a number (flags untouched); a signalling NaN is returned quieted with `invalid`;
-- quiet first + signalling second operand: the first (quiet) one is returned, `invalid` raised
example : bid128_minnum ⟨3, 0x7c00000000000000⟩ ⟨2, 0x3040000000000000⟩ 4 = .ok (⟨2, 0x3040000000000000⟩, 4) :=
  (bid128_minnum_eq _ _ _).trans (ok_pair (by decide +kernel) (by decide +kernel))
example : bid128_minnum ⟨2, 0x3040000000000000⟩ ⟨7, 0xfe00000000000000⟩ 4 = .ok (⟨7, 0xfc00000000000000⟩, 5) :=
  (bid128_minnum_eq _ _ _).trans (ok_pair (by decide +kernel) (by decide +kernel))
example : bid128_minnum ⟨3, 0x7c00000000000000⟩ ⟨7, 0xfe00000000000000⟩ 4 = .ok (⟨3, 0x7c00000000000000⟩, 5) :=
  (bid128_minnum_eq _ _ _).trans (ok_pair (by decide +kernel) (by decide +kernel))
-- non-canonical operands come back canonical: a large-coefficient pattern is the zero +0E−6176 …; an infinity with junk bits
example : bid128_minnum ⟨5, 0x6c00000000000000⟩ ⟨2, 0x3040000000000000⟩ 0 = .ok (⟨0, 0x3000000000000000⟩, 0) :=
  (bid128_minnum_eq _ _ _).trans (ok_pair (by decide +kernel) (by decide +kernel))
example : bid128_maxnum ⟨99, 0x7800000000000123⟩ ⟨2, 0x3040000000000000⟩ 0 = .ok (⟨0, 0x7800000000000000⟩, 0) :=
  (bid128_maxnum_eq _ _ _).trans (ok_pair (by decide +kernel) (by decide +kernel))
-- far-apart and 128 × 128-bit paths, by running the translated code itself
example : bid128_minnum ⟨1, 0x3090000000000000⟩ ⟨9, 0x3040000000000000⟩ 0 = .ok (⟨9, 0x3040000000000000⟩, 0) := by rfl
example : bid128_maxnum ⟨0x161401484a000001, 0x3040000000084595⟩ ⟨1, 0x3072000000000000⟩ 0
    = .ok (⟨0x161401484a000001, 0x3040000000084595⟩, 0) := by rfl
-- the judge's form, and the order reading
example := minnum_judged ⟨1, 0x3042000000000000⟩ ⟨10, 0x3040000000000000⟩ 8
example : minFirst (.fin false 1 1) (.fin false 10 0) = true ∧ maxFirst (.fin false 1 1) (.fin false 10 0) = false ∧
    minFirst (.fin true 1 1) (.fin true 10 0) = false ∧ minMagFirst (.fin true 1 1) (.fin true 10 0) = false ∧
    maxMagFirst (.fin false 0 0) (.fin true 0 5) = false ∧ minFirst (.fin false 0 0) (.fin true 0 5) = true := by decide

end Dec.C16GenMinMax
