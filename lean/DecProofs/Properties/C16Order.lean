/-
  C16 (order part) — min/max/min_mag/max_mag choose their result by the exact value of the operands
  (numbers: order of ℚ; with infinities: order of the extended rationals).  Uses T-cmp (`DecProofs.Core.Cmp`).
-/
import DecProofs.Core.Cmp
import DecProofs.Properties.C16
import DecProofs.Properties.C03Order

namespace Dec.C16Order

/-- the plain forms look only at the numeric relation of the operands -/
theorem plain_choices (isMax : Bool) (x y : Datum) :
    minmaxChoices isMax false x y =
      (match cmpD x y with
       | some .lt => if isMax then [y] else [x]
       | some .gt => if isMax then [x] else [y]
       | _ => [x, y]) := rfl

/-- `min` of two numbers: every acceptable result has exactly the value `min vx vy` (and is one of the operands,
`C16.choices_subset`) -/
theorem min_val (x y r : Datum) (vx vy : ℚ) (hx : x.val = some vx) (hy : y.val = some vy)
    (h : r ∈ minmaxChoices false false x y) : r.val = some (min vx vy) := by
  rw [plain_choices, C03Order.cmpD_val x y vx vy hx hy] at h
  rcases lt_trichotomy vx vy with hc | hc | hc
  · rw [compare_lt_iff_lt.2 hc] at h; simp at h; rw [h, hx, min_eq_left hc.le]
  · rw [compare_eq_iff_eq.2 hc] at h; simp at h
    rcases h with h | h <;> rw [h] <;> simp [hx, hy, hc]
  · rw [compare_gt_iff_gt.2 hc] at h; simp at h; rw [h, hy, min_eq_right hc.le]

/-- `max` of two numbers: every acceptable result has exactly the value `max vx vy` -/
theorem max_val (x y r : Datum) (vx vy : ℚ) (hx : x.val = some vx) (hy : y.val = some vy)
    (h : r ∈ minmaxChoices true false x y) : r.val = some (max vx vy) := by
  rw [plain_choices, C03Order.cmpD_val x y vx vy hx hy] at h
  rcases lt_trichotomy vx vy with hc | hc | hc
  · rw [compare_lt_iff_lt.2 hc] at h; simp at h; rw [h, hy, max_eq_right hc.le]
  · rw [compare_eq_iff_eq.2 hc] at h; simp at h
    rcases h with h | h <;> rw [h] <;> simp [hx, hy, hc]
  · rw [compare_gt_iff_gt.2 hc] at h; simp at h; rw [h, hx, max_eq_left hc.le]

/-- clearing the sign takes the absolute value -/
theorem abs_val (x : Datum) (vx : ℚ) (hx : x.val = some vx) : (x.setSign false).val = some |vx| := by
  rcases x with ⟨s, c, e⟩ | _ | _ <;> simp [Datum.val] at hx
  subst hx
  cases s
  · simp [Datum.setSign, Datum.val, abs_of_nonneg (fval_false_nonneg c e)]
  · simp [Datum.setSign, Datum.val, fval_true_eq_neg, abs_of_nonneg (fval_false_nonneg c e)]

/-- `min_mag`: the operand of strictly smaller magnitude; for equal magnitudes it is `min` -/
theorem minmag_val (x y r : Datum) (vx vy : ℚ) (hx : x.val = some vx) (hy : y.val = some vy)
    (h : r ∈ minmaxChoices false true x y) :
    (|vx| < |vy| → r = x) ∧ (|vy| < |vx| → r = y) ∧ (|vx| = |vy| → r.val = some (min vx vy)) := by
  rw [C16.mag_forms, C03Order.cmpD_val _ _ _ _ (abs_val x vx hx) (abs_val y vy hy)] at h
  rcases lt_trichotomy |vx| |vy| with hc | hc | hc
  · rw [compare_lt_iff_lt.2 hc] at h; simp at h
    exact ⟨fun _ => h, fun h' => absurd h' (lt_asymm hc), fun h' => absurd h' hc.ne⟩
  · rw [compare_eq_iff_eq.2 hc] at h
    exact ⟨fun h' => absurd hc h'.ne, fun h' => absurd hc h'.ne', fun _ => min_val x y r vx vy hx hy h⟩
  · rw [compare_gt_iff_gt.2 hc] at h; simp at h
    exact ⟨fun h' => absurd h' (lt_asymm hc), fun _ => h, fun h' => absurd h' hc.ne'⟩

/-- `max_mag`: the operand of strictly larger magnitude; for equal magnitudes it is `max` -/
theorem maxmag_val (x y r : Datum) (vx vy : ℚ) (hx : x.val = some vx) (hy : y.val = some vy)
    (h : r ∈ minmaxChoices true true x y) :
    (|vx| < |vy| → r = y) ∧ (|vy| < |vx| → r = x) ∧ (|vx| = |vy| → r.val = some (max vx vy)) := by
  rw [C16.mag_forms, C03Order.cmpD_val _ _ _ _ (abs_val x vx hx) (abs_val y vy hy)] at h
  rcases lt_trichotomy |vx| |vy| with hc | hc | hc
  · rw [compare_lt_iff_lt.2 hc] at h; simp at h
    exact ⟨fun _ => h, fun h' => absurd h' (lt_asymm hc), fun h' => absurd h' hc.ne⟩
  · rw [compare_eq_iff_eq.2 hc] at h
    exact ⟨fun h' => absurd hc h'.ne, fun h' => absurd hc h'.ne', fun _ => max_val x y r vx vy hx hy h⟩
  · rw [compare_gt_iff_gt.2 hc] at h; simp at h
    exact ⟨fun h' => absurd h' (lt_asymm hc), fun _ => h, fun h' => absurd h' hc.ne'⟩

/-- `min` on all non-NaN data (infinities included): the result has the smaller extended value -/
theorem min_ext (x y r : Datum) (hx : x.isNaN = false) (hy : y.isNaN = false)
    (h : r ∈ minmaxChoices false false x y) : r.ext = min x.ext y.ext := by
  rw [plain_choices] at h
  rcases cmpD_total x y hx hy with hc | hc | hc <;> rw [hc] at h <;> simp at h
  · rw [h, min_eq_left ((cmpD_lt_iff x y hx hy).1 hc).le]
  · have := (cmpD_eq_iff_ext x y hx hy).1 hc
    rcases h with h | h <;> rw [h, this, min_self]
  · rw [h, min_eq_right ((cmpD_gt_iff x y hx hy).1 hc).le]

/-- `max` on all non-NaN data: the result has the larger extended value -/
theorem max_ext (x y r : Datum) (hx : x.isNaN = false) (hy : y.isNaN = false)
    (h : r ∈ minmaxChoices true false x y) : r.ext = max x.ext y.ext := by
  rw [plain_choices] at h
  rcases cmpD_total x y hx hy with hc | hc | hc <;> rw [hc] at h <;> simp at h
  · rw [h, max_eq_right ((cmpD_lt_iff x y hx hy).1 hc).le]
  · have := (cmpD_eq_iff_ext x y hx hy).1 hc
    rcases h with h | h <;> rw [h, this, max_self]
  · rw [h, max_eq_left ((cmpD_gt_iff x y hx hy).1 hc).le]

/-- both operands are acceptable exactly when their values are equal (e.g. `+0`/`−0`, cohort members) -/
theorem both_iff_equal (isMax : Bool) (x y : Datum) (hx : x.isNaN = false) (hy : y.isNaN = false) :
    minmaxChoices isMax false x y = [x, y] ↔ x.ext = y.ext := by
  rw [plain_choices, ← cmpD_eq_iff_ext x y hx hy]
  rcases cmpD_total x y hx hy with hc | hc | hc <;> rw [hc] <;> cases isMax <;> simp

/-- an infinity has the larger magnitude than any number -/
theorem mag_inf (s s2 : Bool) (c : Nat) (e : Int) :
    minmaxChoices true true (.inf s) (.fin s2 c e) = [.inf s] ∧
    minmaxChoices false true (.inf s) (.fin s2 c e) = [.fin s2 c e] := by
  simp [minmaxChoices, Datum.setSign, cmpD]

example : (Datum.fin true 25 (-1)).val = some (-5/2) ∧ (Datum.fin false 2 0).val = some 2 := by
  constructor <;> norm_num [Datum.val, fval]
example : minmaxChoices false false (.fin true 25 (-1)) (.fin false 2 0) = [.fin true 25 (-1)] ∧
    minmaxChoices true true (.fin true 25 (-1)) (.fin false 2 0) = [.fin true 25 (-1)] := by decide
example : minmaxChoices false true (.fin true 2 0) (.fin false 20 (-1)) = [.fin true 2 0] := by decide
example : minmaxChoices true false (.fin true 0 0) (.fin false 0 3) = [.fin true 0 0, .fin false 0 3] := by decide

end Dec.C16Order
