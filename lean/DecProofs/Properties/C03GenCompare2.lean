/-
  C03GenCompare2 — the remaining comparison predicates of bid128_compare.rs, as translated in `DecGen/Code.lean`:
  quiet  `less`, `less_equal`, `greater_equal`, `greater_unordered`, `less_unordered`, `not_greater`, `not_less`,
  signaling `greater`, `greater_equal`, `greater_unordered`, `less`, `less_equal`, `less_unordered`, `not_greater`, `not_less`.

  Every Rust routine is its own copy of one case analysis.  Here the common skeleton is written once (`body`, with the two
  magnitude-comparison tails `tailA`, `tailB` that occur), parameterised by the Boolean expression each copy returns in each
  branch (`Shape`, `SignP`).  For every routine an `…_unfold` lemma shows that the translated routine IS the skeleton with
  that routine's own parameters (so a slip in one copy would show up in its parameters), and the generic theorems
  `quietWrap_spec` / `sigWrap_spec` turn a finite check of the parameters (`by decide`) into the for-all-inputs theorem.
-/
import DecProofs.Properties.C03GenCompare

set_option linter.unusedSimpArgs false
set_option linter.unusedVariables false

namespace Dec.C03GenCompare2
open Dec.Rs Dec.Gen.Code Dec.C03GenCompare

/-! ### the skeleton -/

/-- what a copy returns in the branches of the magnitude comparison; arguments: a comparison outcome and the two sign bits -/
structure SignP where
  /-- equal exponents: `(cx ≥ cy)`, signs -/
  ee : Bool → Bool → Bool → Bool
  /-- first short cut (`|x| > |y|` obvious) -/
  r1 : Bool → Bool → Bool
  /-- second short cut (`|x| < |y|` obvious) -/
  r2 : Bool → Bool → Bool
  /-- exponent of `x` larger by more than 33 -/
  r3 : Bool → Bool → Bool
  /-- exponent of `y` larger by more than 33 -/
  r4 : Bool → Bool → Bool
  /-- scaled coefficient equal to the other one -/
  eqv : Bool
  /-- `x` scaled, 256-bit product: comparison outcome, signs -/
  fa256 : Bool → Bool → Bool → Bool
  fa192 : Bool → Bool → Bool → Bool
  /-- `y` scaled -/
  fb256 : Bool → Bool → Bool → Bool
  fb192 : Bool → Bool → Bool → Bool

/-- the magnitude comparison as written in `greater`, `less`, `less_equal`, `less_unordered`, `not_greater` -/
def tailA (T : SignP) (ex ey : Int32) (sx sy : U128) (nx ny : Bool) (f : UInt32) : Except String (Bool × UInt32) :=
  if ey == ex then
    .ok (T.ee (decide (sx.w1 > sy.w1) || (sx.w1 == sy.w1 && decide (sx.w0 ≥ sy.w0))) nx ny, f)
  else if (decide (sx.w1 > sy.w1) || (sx.w1 == sy.w1 && decide (sx.w0 > sy.w0))) && decide (ex ≥ ey) then .ok (T.r1 nx ny, f)
  else if (decide (sx.w1 < sy.w1) || (sx.w1 == sy.w1 && decide (sx.w0 < sy.w0))) && decide (ex ≤ ey) then .ok (T.r2 nx ny, f)
  else if ex - ey > 0 then
    if ex - ey > 33 then .ok (T.r3 nx ny, f)
    else if ex - ey > 19 then do
      let t ← tbl128 Dec.Gen.BID_TEN2K128 (UInt64.ofInt (toI (ex - ey - 20)))
      let v ← mul_128x128_to_256 sx t
      if v.w3 == 0 && v.w2 == 0 && v.w1 == sy.w1 && v.w0 == sy.w0 then .ok (T.eqv, f)
      else .ok (T.fa256 (decide (v.w3 > 0) || decide (v.w2 > 0) || decide (v.w1 > sy.w1) || (v.w1 == sy.w1 && decide (v.w0 > sy.w0))) nx ny, f)
    else do
      let t ← tbl64 Dec.Gen.BID_TEN2K64 (UInt64.ofInt (toI (ex - ey)))
      let v ← mul_64x128_to_192 t sx
      if v.w2 == 0 && v.w1 == sy.w1 && v.w0 == sy.w0 then .ok (T.eqv, f)
      else .ok (T.fa192 (decide (v.w2 > 0) || decide (v.w1 > sy.w1) || (v.w1 == sy.w1 && decide (v.w0 > sy.w0))) nx ny, f)
  else if ey - ex > 33 then .ok (T.r4 nx ny, f)
  else if ey - ex > 19 then do
    let t ← tbl128 Dec.Gen.BID_TEN2K128 (UInt64.ofInt (toI (ey - ex - 20)))
    let v ← mul_128x128_to_256 sy t
    if v.w3 == 0 && v.w2 == 0 && v.w1 == sx.w1 && v.w0 == sx.w0 then .ok (T.eqv, f)
    else .ok (T.fb256 (v.w3 != 0 || v.w2 != 0 || (decide (v.w1 > sx.w1) || (v.w1 == sx.w1 && decide (v.w0 > sx.w0)))) nx ny, f)
  else do
    let t ← tbl64 Dec.Gen.BID_TEN2K64 (UInt64.ofInt (toI (ey - ex)))
    let v ← mul_64x128_to_192 t sy
    if v.w2 == 0 && v.w1 == sx.w1 && v.w0 == sx.w0 then .ok (T.eqv, f)
    else .ok (T.fb192 (v.w2 != 0 || (decide (v.w1 > sx.w1) || (v.w1 == sx.w1 && decide (v.w0 > sx.w0)))) nx ny, f)

/-- the magnitude comparison as written in `greater_equal`, `greater_unordered`, `not_less`: word-wise short cuts, and
`P < c` instead of `P > c` when `y` is the scaled operand -/
def tailB (T : SignP) (ex ey : Int32) (sx sy : U128) (nx ny : Bool) (f : UInt32) : Except String (Bool × UInt32) :=
  if ey == ex then
    .ok (T.ee (decide (sx.w1 > sy.w1) || (sx.w1 == sy.w1 && decide (sx.w0 ≥ sy.w0))) nx ny, f)
  else if decide (sx.w1 ≥ sy.w1) && decide (sx.w0 ≥ sy.w0) && decide (ex > ey) then .ok (T.r1 nx ny, f)
  else if decide (sx.w1 ≤ sy.w1) && decide (sx.w0 ≤ sy.w0) && decide (ex < ey) then .ok (T.r2 nx ny, f)
  else if ex - ey > 0 then
    if ex - ey > 33 then .ok (T.r3 nx ny, f)
    else if ex - ey > 19 then do
      let t ← tbl128 Dec.Gen.BID_TEN2K128 (UInt64.ofInt (toI (ex - ey - 20)))
      let v ← mul_128x128_to_256 sx t
      if v.w3 == 0 && v.w2 == 0 && v.w1 == sy.w1 && v.w0 == sy.w0 then .ok (T.eqv, f)
      else .ok (T.fa256 (decide (v.w3 > 0) || decide (v.w2 > 0) || decide (v.w1 > sy.w1) || (v.w1 == sy.w1 && decide (v.w0 > sy.w0))) nx ny, f)
    else do
      let t ← tbl64 Dec.Gen.BID_TEN2K64 (UInt64.ofInt (toI (ex - ey)))
      let v ← mul_64x128_to_192 t sx
      if v.w2 == 0 && v.w1 == sy.w1 && v.w0 == sy.w0 then .ok (T.eqv, f)
      else .ok (T.fa192 (decide (v.w2 > 0) || decide (v.w1 > sy.w1) || (v.w1 == sy.w1 && decide (v.w0 > sy.w0))) nx ny, f)
  else if ey - ex > 33 then .ok (T.r4 nx ny, f)
  else if ey - ex > 19 then do
    let t ← tbl128 Dec.Gen.BID_TEN2K128 (UInt64.ofInt (toI (ey - ex - 20)))
    let v ← mul_128x128_to_256 sy t
    if v.w3 == 0 && v.w2 == 0 && v.w1 == sx.w1 && v.w0 == sx.w0 then .ok (T.eqv, f)
    else .ok (T.fb256 (v.w3 == 0 && v.w2 == 0 && (decide (v.w1 < sx.w1) || (v.w1 == sx.w1 && decide (v.w0 < sx.w0)))) nx ny, f)
  else do
    let t ← tbl64 Dec.Gen.BID_TEN2K64 (UInt64.ofInt (toI (ey - ex)))
    let v ← mul_64x128_to_192 t sy
    if v.w2 == 0 && v.w1 == sx.w1 && v.w0 == sx.w0 then .ok (T.eqv, f)
    else .ok (T.fb192 (v.w2 == 0 && (decide (v.w1 < sx.w1) || (v.w1 == sx.w1 && decide (v.w0 < sx.w0)))) nx ny, f)

/-- what a copy returns in its front ends (after the NaN test), and which tail it continues with -/
structure Shape where
  /-- identical patterns -/
  eqR : Bool
  /-- `x` = −Inf: `y` infinite?, sign of `y` -/
  ixn : Bool → Bool → Bool
  /-- `x` = +Inf -/
  ixp : Bool → Bool → Bool
  /-- `y` infinite (`x` not): sign of `y` -/
  iy : Bool → Bool
  /-- both zero -/
  zz : Bool
  /-- `x` zero: sign of `y` -/
  zx : Bool → Bool
  /-- `y` zero: sign of `x` -/
  zy : Bool → Bool
  /-- opposite signs: the two sign bits -/
  sd : Bool → Bool → Bool
  tail : Int32 → Int32 → U128 → U128 → Bool → Bool → UInt32 → Except String (Bool × UInt32)

/-- the common case analysis after the NaN test -/
def body (S : Shape) (x y : U128) (f : UInt32) : Except String (Bool × UInt32) :=
  if (x.w0 == y.w0 && x.w1 == y.w1) = true then .ok (S.eqR, f)
  else if decide (x.w1.toNat / 2 ^ 59 % 16 = 15) = true then
    (if negW x.w1.toNat = true then .ok (S.ixn (decide (y.w1.toNat / 2 ^ 59 % 16 = 15)) (negW y.w1.toNat), f)
     else .ok (S.ixp (decide (y.w1.toNat / 2 ^ 59 % 16 = 15)) (negW y.w1.toNat), f))
  else if decide (y.w1.toNat / 2 ^ 59 % 16 = 15) = true then .ok (S.iy (negW y.w1.toNat), f)
  else if zeroTest x = true then (if zeroTest y = true then .ok (S.zz, f) else .ok (S.zx (negW y.w1.toNat), f))
  else if zeroTest y = true then .ok (S.zy (negW x.w1.toNat), f)
  else if (negW x.w1.toNat != negW y.w1.toNat) = true then .ok (S.sd (negW x.w1.toNat) (negW y.w1.toNat), f)
  else S.tail (expF x.w1) (expF y.w1) (sigF x) (sigF y) (negW x.w1.toNat) (negW y.w1.toNat) f

/-- NaN handling of the quiet predicates: answer `r`, `invalid` for a signalling NaN only -/
def quietWrap (r : Bool) (b : U128 → U128 → UInt32 → Except String (Bool × UInt32)) (x y : U128) (f : UInt32) :
    Except String (Bool × UInt32) :=
  if (decide (x.w1.toNat / 2 ^ 58 % 32 = 31) || decide (y.w1.toNat / 2 ^ 58 % 32 = 31)) = true then
    (if (decide (x.w1.toNat / 2 ^ 57 % 64 = 63) || decide (y.w1.toNat / 2 ^ 57 % 64 = 63)) = true then .ok (r, f ||| 1)
     else .ok (r, f))
  else b x y f

/-- NaN handling of the signaling predicates: answer `r`, `invalid` for any NaN -/
def sigWrap (r : Bool) (b : U128 → U128 → UInt32 → Except String (Bool × UInt32)) (x y : U128) (f : UInt32) :
    Except String (Bool × UInt32) :=
  if (decide (x.w1.toNat / 2 ^ 58 % 32 = 31) || decide (y.w1.toNat / 2 ^ 58 % 32 = 31)) = true then .ok (r, f ||| 1)
  else b x y f

/-! ### generic correctness of the skeleton -/

/-- the order of two numbers of common sign `s` from the order of their magnitudes -/
def sg (s : Bool) (o : Ordering) : Ordering := if s then o.swap else o

theorem compare_sInt (s : Bool) (X Y : Nat) : compare (sInt s X) (sInt s Y) = sg s (compare X Y) := by
  rcases Nat.lt_trichotomy X Y with h | h | h
  · rw [Nat.compare_eq_lt.2 h]
    cases s
    · exact Int.compare_eq_lt.2 (by simp only [sInt, Bool.false_eq_true, if_false]; omega)
    · exact Int.compare_eq_gt.2 (by simp only [sInt, if_true]; omega)
  · subst h
    rw [Nat.compare_eq_eq.2 rfl, Int.compare_eq_eq.2 rfl]; cases s <;> rfl
  · rw [Nat.compare_eq_gt.2 h]
    cases s
    · exact Int.compare_eq_gt.2 (by simp only [sInt, Bool.false_eq_true, if_false]; omega)
    · exact Int.compare_eq_lt.2 (by simp only [sInt, if_true]; omega)

/-- the finite check of a copy's tail parameters against the wanted truth table `want` (on ordered pairs);
`flipB` tells how the `y`-scaled comparison is written (`true`: `P > c` as in `tailA`, `false`: `P < c` as in `tailB`) -/
def SignOK (T : SignP) (want : Ordering → Bool) (flipB : Bool) : Prop :=
  (∀ c s, T.ee c s s = want (sg s (if c then .gt else .lt))) ∧
  (∀ s, T.r1 s s = want (sg s .gt)) ∧ (∀ s, T.r2 s s = want (sg s .lt)) ∧
  (∀ s, T.r3 s s = want (sg s .gt)) ∧ (∀ s, T.r4 s s = want (sg s .lt)) ∧
  (T.eqv = want .eq) ∧
  (∀ c s, T.fa256 c s s = want (sg s (if c then .gt else .lt))) ∧
  (∀ c s, T.fa192 c s s = want (sg s (if c then .gt else .lt))) ∧
  (∀ c s, T.fb256 c s s = want (sg s (if c != flipB then .gt else .lt))) ∧
  (∀ c s, T.fb192 c s s = want (sg s (if c != flipB then .gt else .lt)))

instance (T : SignP) (want : Ordering → Bool) (flipB : Bool) : Decidable (SignOK T want flipB) := by
  unfold SignOK; infer_instance

theorem cmp_gt {X Y : Nat} (h : Y < X) : compare X Y = .gt := Nat.compare_eq_gt.2 h
theorem cmp_lt {X Y : Nat} (h : X < Y) : compare X Y = .lt := Nat.compare_eq_lt.2 h
theorem cmp_eq {X Y : Nat} (h : X = Y) : compare X Y = .eq := Nat.compare_eq_eq.2 h

theorem sg_eq (s : Bool) : sg s .eq = .eq := by cases s <;> rfl

theorem ite_cmp_gt (X Y : Nat) (hne : X ≠ Y) : (if decide (Y < X) = true then Ordering.gt else .lt) = compare X Y := by
  by_cases h : Y < X
  · rw [cmp_gt h]; simp only [h, decide_true, if_true]
  · rw [cmp_lt (by omega)]; simp only [h, decide_false, Bool.false_eq_true, if_false]


theorem ite_cmp_lt' (X Y : Nat) (hne : X ≠ Y) :
    (if (decide (X < Y) != true) = true then Ordering.gt else .lt) = compare X Y := by
  by_cases h : X < Y
  · rw [cmp_lt h]; simp [h]
  · rw [cmp_gt (by omega)]; simp [h]

/-- **the magnitude comparison `tailA`** with parameters that pass the finite check returns `want` of the order of the
operands (finite non-zero, common sign `s`, exponent fields `a b`, coefficients `cx cy`, not the same pair) -/
theorem tailA_spec (T : SignP) (want : Ordering → Bool) (hT : SignOK T want true)
    (ex ey : Int32) (sx sy : U128) (s : Bool) (f : UInt32) (a b : Nat)
    (ha : ex.toInt = a) (hb : ey.toInt = b) (ha' : a < 2^14) (hb' : b < 2^14)
    (px : 0 < val128 sx) (lx : val128 sx < P34) (py : 0 < val128 sy) (ly : val128 sy < P34)
    (hne : a = b → val128 sx ≠ val128 sy) :
    tailA T ex ey sx sy s s f =
      .ok (want (sg s (compare (val128 sx * 10 ^ (a - b)) (val128 sy * 10 ^ (b - a)))), f) := by
  obtain ⟨hee, hr1, hr2, hr3, hr4, heqv, hfa256, hfa192, hfb256, hfb192⟩ := hT
  have d1 := int32_sub_toInt ey ex b a hb ha hb' ha'
  have d2 := int32_sub_toInt ex ey a b ha hb ha' hb'
  have h_eq : (ey == ex) = decide (b = a) := by
    rw [Bool.eq_iff_iff, beq_iff_eq, decide_eq_true_iff, ← Int32.toInt_inj, ha, hb]; omega
  have h_ge : decide (ex ≥ ey) = decide (b ≤ a) := by
    rw [decide_eq_decide, ge_iff_le, Int32.le_iff_toInt_le, ha, hb]; omega
  have h_le : decide (ex ≤ ey) = decide (a ≤ b) := by
    rw [decide_eq_decide, Int32.le_iff_toInt_le, ha, hb]; omega
  unfold tailA
  simp only [gtW, geW, ltW, h_eq, h_ge, h_le]
  generalize hcx : val128 sx = cx at *
  generalize hcy : val128 sy = cy at *
  by_cases hab : b = a
  · -- equal exponents
    subst hab
    have hne' := hne rfl
    simp only [decide_true, if_true, Nat.sub_self, Nat.pow_zero, Nat.mul_one]
    have : decide (cy ≤ cx) = decide (cy < cx) := by rw [decide_eq_decide]; omega
    rw [this, hee, ite_cmp_gt _ _ hne']
  · simp only [hab, decide_false, Bool.false_eq_true, if_false]
    by_cases hlt : b < a
    · -- exponent of x larger: x scaled
      have e1 : b - a = 0 := by omega
      have hle1 : b ≤ a := by omega
      have hle2 : ¬ a ≤ b := by omega
      simp only [e1, Nat.pow_zero, Nat.mul_one, hle1, hle2, decide_true, decide_false, Bool.and_true, Bool.and_false,
        Bool.false_eq_true, if_false]
      have hX := le_scale cx (a - b)
      by_cases hc : cy < cx
      · simp only [hc, decide_true, if_true]
        rw [hr1, cmp_gt (by omega)]
      · simp only [hc, decide_false, Bool.false_eq_true, if_false]
        have g0 : ex - ey > 0 := by rw [int32_gt_lit, d1]; show (0 : Int) < _; omega
        rw [if_pos g0]
        by_cases h33 : ex - ey > 33
        · rw [if_pos h33]
          rw [int32_gt_lit, d1, show (33 : Int32).toInt = 33 from rfl] at h33
          rw [hr3, cmp_gt (big_gap cx cy (a - b) px ly (by omega))]
        · rw [if_neg h33]
          rw [int32_gt_lit, d1, show (33 : Int32).toInt = 33 from rfl] at h33
          by_cases h19 : ex - ey > 19
          · rw [if_pos h19]
            rw [int32_gt_lit, d1, show (19 : Int32).toInt = 19 from rfl] at h19
            obtain ⟨t, r, ht, hr, rv⟩ := scale256 (ex - ey) (a - b) (by rw [d1]; omega) (by omega) (by omega) sx
            simp only [bind, Except.bind, ht, hr, eq256, gt256, rv, hcx, hcy]
            by_cases hE : cy = cx * 10 ^ (a - b)
            · simp only [hE, decide_true, if_true]
              rw [heqv, cmp_eq rfl, sg_eq]
            · simp only [hE, decide_false, Bool.false_eq_true, if_false]
              rw [hfa256, ite_cmp_gt _ _ (Ne.symm hE)]
          · rw [if_neg h19]
            rw [int32_gt_lit, d1, show (19 : Int32).toInt = 19 from rfl] at h19
            obtain ⟨t, r, ht, hr, rv⟩ := scale192 (ex - ey) (a - b) (by rw [d1]; omega) (by omega) sx
            simp only [bind, Except.bind, ht, hr, eq192, gt192, rv, hcx, hcy]
            by_cases hE : cy = cx * 10 ^ (a - b)
            · simp only [hE, decide_true, if_true]
              rw [heqv, cmp_eq rfl, sg_eq]
            · simp only [hE, decide_false, Bool.false_eq_true, if_false]
              rw [hfa192, ite_cmp_gt _ _ (Ne.symm hE)]
    · -- exponent of y larger: y scaled
      have hlt' : a < b := by omega
      have e1 : a - b = 0 := by omega
      have hle1 : ¬ b ≤ a := by omega
      have hle2 : a ≤ b := by omega
      simp only [e1, Nat.pow_zero, Nat.mul_one, hle1, hle2, decide_true, decide_false, Bool.and_true, Bool.and_false,
        Bool.false_eq_true, if_false]
      have hY := le_scale cy (b - a)
      by_cases hc : cx < cy
      · simp only [hc, decide_true, if_true]
        rw [hr2, cmp_lt (by omega)]
      · simp only [hc, decide_false, Bool.false_eq_true, if_false]
        have g0 : ¬ ex - ey > 0 := by rw [int32_gt_lit, d1]; show ¬ (0 : Int) < _; omega
        rw [if_neg g0]
        by_cases h33 : ey - ex > 33
        · rw [if_pos h33]
          rw [int32_gt_lit, d2, show (33 : Int32).toInt = 33 from rfl] at h33
          rw [hr4, cmp_lt (big_gap cy cx (b - a) py lx (by omega))]
        · rw [if_neg h33]
          rw [int32_gt_lit, d2, show (33 : Int32).toInt = 33 from rfl] at h33
          by_cases h19 : ey - ex > 19
          · rw [if_pos h19]
            rw [int32_gt_lit, d2, show (19 : Int32).toInt = 19 from rfl] at h19
            obtain ⟨t, r, ht, hr, rv⟩ := scale256 (ey - ex) (b - a) (by rw [d2]; omega) (by omega) (by omega) sy
            simp only [bind, Except.bind, ht, hr, eq256, gt256', rv, hcx, hcy]
            by_cases hE : cx = cy * 10 ^ (b - a)
            · simp only [hE, decide_true, if_true]
              rw [heqv, cmp_eq rfl, sg_eq]
            · simp only [hE, decide_false, Bool.false_eq_true, if_false]
              rw [hfb256, ite_cmp_lt' _ _ hE]
          · rw [if_neg h19]
            rw [int32_gt_lit, d2, show (19 : Int32).toInt = 19 from rfl] at h19
            obtain ⟨t, r, ht, hr, rv⟩ := scale192 (ey - ex) (b - a) (by rw [d2]; omega) (by omega) sy
            simp only [bind, Except.bind, ht, hr, eq192, gt192', rv, hcx, hcy]
            by_cases hE : cx = cy * 10 ^ (b - a)
            · simp only [hE, decide_true, if_true]
              rw [heqv, cmp_eq rfl, sg_eq]
            · simp only [hE, decide_false, Bool.false_eq_true, if_false]
              rw [hfb192, ite_cmp_lt' _ _ hE]


theorem lt256 (r : U256) (s : U128) :
    (r.w3 == 0 && r.w2 == 0 && (decide (r.w1 < s.w1) || (r.w1 == s.w1 && decide (r.w0 < s.w0))))
      = decide (val256 r < val128 s) := by
  have := r.w0.toNat_lt; have := r.w1.toNat_lt; have := s.w0.toNat_lt; have := s.w1.toNat_lt
  rw [Bool.eq_iff_iff, decide_eq_true_iff]
  simp only [Bool.or_eq_true, Bool.and_eq_true, decide_eq_true_eq, beq_iff_eq, UInt64.lt_iff_toNat_lt,
    ← UInt64.toNat_inj, UInt64.toNat_zero, val128, val256]
  omega

theorem lt192 (r : U192) (s : U128) :
    (r.w2 == 0 && (decide (r.w1 < s.w1) || (r.w1 == s.w1 && decide (r.w0 < s.w0))))
      = decide (val192 r < val128 s) := by
  have := r.w0.toNat_lt; have := r.w1.toNat_lt; have := s.w0.toNat_lt; have := s.w1.toNat_lt
  rw [Bool.eq_iff_iff, decide_eq_true_iff]
  simp only [Bool.or_eq_true, Bool.and_eq_true, decide_eq_true_eq, beq_iff_eq, UInt64.lt_iff_toNat_lt,
    ← UInt64.toNat_inj, UInt64.toNat_zero, val128, val192]
  omega

/-- the word-wise short cut of `tailB` is sufficient (not necessary) for `≥` of the 128-bit values -/
theorem words_ge (a b : U128) (h : (decide (a.w1 ≥ b.w1) && decide (a.w0 ≥ b.w0)) = true) : val128 b ≤ val128 a := by
  simp only [Bool.and_eq_true, decide_eq_true_eq, ge_iff_le, UInt64.le_iff_toNat_le] at h
  have := a.w0.toNat_lt; have := b.w0.toNat_lt
  unfold val128; omega

theorem words_le (a b : U128) (h : (decide (a.w1 ≤ b.w1) && decide (a.w0 ≤ b.w0)) = true) : val128 a ≤ val128 b := by
  simp only [Bool.and_eq_true, decide_eq_true_eq, UInt64.le_iff_toNat_le] at h
  have := a.w0.toNat_lt; have := b.w0.toNat_lt
  unfold val128; omega

theorem ite_cmp_gt' (X Y : Nat) (hne : X ≠ Y) :
    (if (decide (Y < X) != false) = true then Ordering.gt else .lt) = compare X Y := by
  by_cases h : Y < X
  · rw [cmp_gt h]; simp [h]
  · rw [cmp_lt (by omega)]; simp [h]

theorem scale_gt (c g : Nat) (hc : 0 < c) (hg : 0 < g) : c < c * 10 ^ g := by
  have : 10 ^ 1 ≤ 10 ^ g := Nat.pow_le_pow_right (by decide) hg
  have : c * 10 ≤ c * 10 ^ g := Nat.mul_le_mul_left c (by simpa using this)
  omega

/-- **the magnitude comparison `tailB`** with parameters that pass the finite check returns `want` of the order of the
operands -/
theorem tailB_spec (T : SignP) (want : Ordering → Bool) (hT : SignOK T want false)
    (ex ey : Int32) (sx sy : U128) (s : Bool) (f : UInt32) (a b : Nat)
    (ha : ex.toInt = a) (hb : ey.toInt = b) (ha' : a < 2^14) (hb' : b < 2^14)
    (px : 0 < val128 sx) (lx : val128 sx < P34) (py : 0 < val128 sy) (ly : val128 sy < P34)
    (hne : a = b → val128 sx ≠ val128 sy) :
    tailB T ex ey sx sy s s f =
      .ok (want (sg s (compare (val128 sx * 10 ^ (a - b)) (val128 sy * 10 ^ (b - a)))), f) := by
  obtain ⟨hee, hr1, hr2, hr3, hr4, heqv, hfa256, hfa192, hfb256, hfb192⟩ := hT
  have d1 := int32_sub_toInt ey ex b a hb ha hb' ha'
  have d2 := int32_sub_toInt ex ey a b ha hb ha' hb'
  have h_eq : (ey == ex) = decide (b = a) := by
    rw [Bool.eq_iff_iff, beq_iff_eq, decide_eq_true_iff, ← Int32.toInt_inj, ha, hb]; omega
  have h_gt : decide (ex > ey) = decide (b < a) := by
    rw [decide_eq_decide, gt_iff_lt, Int32.lt_iff_toInt_lt, ha, hb]; omega
  have h_lt : decide (ex < ey) = decide (a < b) := by
    rw [decide_eq_decide, Int32.lt_iff_toInt_lt, ha, hb]; omega
  unfold tailB
  simp only [geW, h_eq, h_gt, h_lt]
  by_cases hab : b = a
  · -- equal exponents
    subst hab
    have hne' := hne rfl
    simp only [decide_true, if_true, Nat.sub_self, Nat.pow_zero, Nat.mul_one]
    have : decide (val128 sy ≤ val128 sx) = decide (val128 sy < val128 sx) := by rw [decide_eq_decide]; omega
    rw [this, hee, ite_cmp_gt _ _ hne']
  · simp only [hab, decide_false, Bool.false_eq_true, if_false]
    by_cases hlt : b < a
    · -- exponent of x larger: x scaled
      have e1 : b - a = 0 := by omega
      have hle2 : ¬ a < b := by omega
      simp only [e1, Nat.pow_zero, Nat.mul_one, hlt, hle2, decide_true, decide_false, Bool.and_true, Bool.and_false,
        Bool.false_eq_true, if_false]
      by_cases hc : (decide (sx.w1 ≥ sy.w1) && decide (sx.w0 ≥ sy.w0)) = true
      · rw [if_pos hc]
        have h1 := words_ge sx sy hc
        have h2 := scale_gt (val128 sx) (a - b) px (by omega)
        rw [hr1, cmp_gt (by omega)]
      · rw [if_neg hc]
        generalize hcx : val128 sx = cx at *
        generalize hcy : val128 sy = cy at *
        have g0 : ex - ey > 0 := by rw [int32_gt_lit, d1]; show (0 : Int) < _; omega
        rw [if_pos g0]
        by_cases h33 : ex - ey > 33
        · rw [if_pos h33]
          rw [int32_gt_lit, d1, show (33 : Int32).toInt = 33 from rfl] at h33
          rw [hr3, cmp_gt (big_gap cx cy (a - b) px ly (by omega))]
        · rw [if_neg h33]
          rw [int32_gt_lit, d1, show (33 : Int32).toInt = 33 from rfl] at h33
          by_cases h19 : ex - ey > 19
          · rw [if_pos h19]
            rw [int32_gt_lit, d1, show (19 : Int32).toInt = 19 from rfl] at h19
            obtain ⟨t, r, ht, hr, rv⟩ := scale256 (ex - ey) (a - b) (by rw [d1]; omega) (by omega) (by omega) sx
            simp only [bind, Except.bind, ht, hr, eq256, gt256, rv, hcx, hcy]
            by_cases hE : cy = cx * 10 ^ (a - b)
            · simp only [hE, decide_true, if_true]
              rw [heqv, cmp_eq rfl, sg_eq]
            · simp only [hE, decide_false, Bool.false_eq_true, if_false]
              rw [hfa256, ite_cmp_gt _ _ (Ne.symm hE)]
          · rw [if_neg h19]
            rw [int32_gt_lit, d1, show (19 : Int32).toInt = 19 from rfl] at h19
            obtain ⟨t, r, ht, hr, rv⟩ := scale192 (ex - ey) (a - b) (by rw [d1]; omega) (by omega) sx
            simp only [bind, Except.bind, ht, hr, eq192, gt192, rv, hcx, hcy]
            by_cases hE : cy = cx * 10 ^ (a - b)
            · simp only [hE, decide_true, if_true]
              rw [heqv, cmp_eq rfl, sg_eq]
            · simp only [hE, decide_false, Bool.false_eq_true, if_false]
              rw [hfa192, ite_cmp_gt _ _ (Ne.symm hE)]
    · -- exponent of y larger: y scaled
      have hlt' : a < b := by omega
      have e1 : a - b = 0 := by omega
      simp only [e1, Nat.pow_zero, Nat.mul_one, hlt, hlt', decide_true, decide_false, Bool.and_true, Bool.and_false,
        Bool.false_eq_true, if_false]
      by_cases hc : (decide (sx.w1 ≤ sy.w1) && decide (sx.w0 ≤ sy.w0)) = true
      · rw [if_pos hc]
        have h1 := words_le sx sy hc
        have h2 := scale_gt (val128 sy) (b - a) py (by omega)
        rw [hr2, cmp_lt (by omega)]
      · rw [if_neg hc]
        generalize hcx : val128 sx = cx at *
        generalize hcy : val128 sy = cy at *
        have g0 : ¬ ex - ey > 0 := by rw [int32_gt_lit, d1]; show ¬ (0 : Int) < _; omega
        rw [if_neg g0]
        by_cases h33 : ey - ex > 33
        · rw [if_pos h33]
          rw [int32_gt_lit, d2, show (33 : Int32).toInt = 33 from rfl] at h33
          rw [hr4, cmp_lt (big_gap cy cx (b - a) py lx (by omega))]
        · rw [if_neg h33]
          rw [int32_gt_lit, d2, show (33 : Int32).toInt = 33 from rfl] at h33
          by_cases h19 : ey - ex > 19
          · rw [if_pos h19]
            rw [int32_gt_lit, d2, show (19 : Int32).toInt = 19 from rfl] at h19
            obtain ⟨t, r, ht, hr, rv⟩ := scale256 (ey - ex) (b - a) (by rw [d2]; omega) (by omega) (by omega) sy
            simp only [bind, Except.bind, ht, hr, eq256, lt256, rv, hcx, hcy]
            by_cases hE : cx = cy * 10 ^ (b - a)
            · simp only [hE, decide_true, if_true]
              rw [heqv, cmp_eq rfl, sg_eq]
            · simp only [hE, decide_false, Bool.false_eq_true, if_false]
              rw [hfb256, ite_cmp_gt' _ _ hE]
          · rw [if_neg h19]
            rw [int32_gt_lit, d2, show (19 : Int32).toInt = 19 from rfl] at h19
            obtain ⟨t, r, ht, hr, rv⟩ := scale192 (ey - ex) (b - a) (by rw [d2]; omega) (by omega) sy
            simp only [bind, Except.bind, ht, hr, eq192, lt192, rv, hcx, hcy]
            by_cases hE : cx = cy * 10 ^ (b - a)
            · simp only [hE, decide_true, if_true]
              rw [heqv, cmp_eq rfl, sg_eq]
            · simp only [hE, decide_false, Bool.false_eq_true, if_false]
              rw [hfb192, ite_cmp_gt' _ _ hE]


/-! model side: the value of `cmpFin` in the front-end cases -/

theorem cmpFin_zero_left_val (s1 : Bool) (e1 : Int) (s2 : Bool) (c2 : Nat) (e2 : Int) (h : 0 < c2) :
    cmpFin s1 0 e1 s2 c2 e2 = if s2 then .gt else .lt := by
  cases s2
  · have : ¬ cmpFin s1 0 e1 false c2 e2 = .gt := by rw [cmpFin_zero_left_gt]; simp
    have : ¬ cmpFin s1 0 e1 false c2 e2 = .eq := by rw [cmpFin_zero_left]; omega
    cases hc : cmpFin s1 0 e1 false c2 e2 <;> simp_all
  · exact (cmpFin_zero_left_gt ..).2 ⟨rfl, h⟩

theorem cmpFin_zero_right_val (s1 : Bool) (c1 : Nat) (e1 : Int) (s2 : Bool) (e2 : Int) (h : 0 < c1) :
    cmpFin s1 c1 e1 s2 0 e2 = if s1 then .lt else .gt := by
  cases s1
  · exact (cmpFin_zero_right_gt ..).2 ⟨rfl, h⟩
  · have : ¬ cmpFin true c1 e1 s2 0 e2 = .gt := by rw [cmpFin_zero_right_gt]; simp
    have : ¬ cmpFin true c1 e1 s2 0 e2 = .eq := by rw [cmpFin_zero_right]; omega
    cases hc : cmpFin true c1 e1 s2 0 e2 <;> simp_all

theorem cmpFin_signs_val (s1 : Bool) (c1 : Nat) (e1 : Int) (s2 : Bool) (c2 : Nat) (e2 : Int)
    (hs : s1 ≠ s2) (h1 : 0 < c1) (h2 : 0 < c2) : cmpFin s1 c1 e1 s2 c2 e2 = if s2 then .gt else .lt := by
  have hg := cmpFin_signs_gt s1 c1 e1 s2 c2 e2 hs h1 h2
  have he := cmpFin_signs s1 c1 e1 s2 c2 e2 hs h1 h2
  cases s2
  · have : ¬ cmpFin s1 c1 e1 false c2 e2 = .gt := by rw [hg]; simp
    cases hc : cmpFin s1 c1 e1 false c2 e2 <;> simp_all
  · exact hg.2 rfl

theorem cmpFin_zero_zero (s1 : Bool) (e1 : Int) (s2 : Bool) (e2 : Int) : cmpFin s1 0 e1 s2 0 e2 = .eq :=
  (cmpFin_zero_left ..).2 rfl

/-- the finite check of a copy's front-end parameters against the wanted truth table -/
def ShapeOK (S : Shape) (want : Ordering → Bool) : Prop :=
  (S.eqR = want .eq) ∧
  (∀ yi ny, S.ixn yi ny = want (if yi && ny then .eq else .lt)) ∧
  (∀ yi ny, S.ixp yi ny = want (if yi && !ny then .eq else .gt)) ∧
  (∀ ny, S.iy ny = want (if ny then .gt else .lt)) ∧
  (S.zz = want .eq) ∧
  (∀ ny, S.zx ny = want (if ny then .gt else .lt)) ∧
  (∀ nx, S.zy nx = want (if nx then .lt else .gt)) ∧
  (∀ ny, S.sd (!ny) ny = want (if ny then .gt else .lt))

instance (S : Shape) (want : Ordering → Bool) : Decidable (ShapeOK S want) := by
  unfold ShapeOK; infer_instance

/-- what the generic theorem needs from the tail of a copy -/
def TailOK (tail : Int32 → Int32 → U128 → U128 → Bool → Bool → UInt32 → Except String (Bool × UInt32))
    (want : Ordering → Bool) : Prop :=
  ∀ (ex ey : Int32) (sx sy : U128) (s : Bool) (f : UInt32) (a b : Nat),
    ex.toInt = a → ey.toInt = b → a < 2^14 → b < 2^14 →
    0 < val128 sx → val128 sx < P34 → 0 < val128 sy → val128 sy < P34 → (a = b → val128 sx ≠ val128 sy) →
    tail ex ey sx sy s s f = .ok (want (sg s (compare (val128 sx * 10 ^ (a - b)) (val128 sy * 10 ^ (b - a)))), f)

theorem tailA_ok (T : SignP) (want : Ordering → Bool) (hT : SignOK T want true) : TailOK (tailA T) want :=
  fun ex ey sx sy s f a b ha hb ha' hb' px lx py ly hne => tailA_spec T want hT ex ey sx sy s f a b ha hb ha' hb' px lx py ly hne

theorem tailB_ok (T : SignP) (want : Ordering → Bool) (hT : SignOK T want false) : TailOK (tailB T) want :=
  fun ex ey sx sy s f a b ha hb ha' hb' px lx py ly hne => tailB_spec T want hT ex ey sx sy s f a b ha hb ha' hb' px lx py ly hne


/-- **the skeleton is correct**: when no operand is a NaN, a copy whose parameters pass the finite checks returns `want` of the
four-way relation of the decoded operands (which is then an order), leaves the flags alone, and does not panic -/
theorem body_spec (S : Shape) (want : Ordering → Bool) (hS : ShapeOK S want) (hT : TailOK S.tail want)
    (x y : U128) (f : UInt32) (hn : ¬ ((decode (bitsOf x)).isNaN || (decode (bitsOf y)).isNaN) = true) :
    ∃ o, cmpD (decode (bitsOf x)) (decode (bitsOf y)) = some o ∧ body S x y f = .ok (want o, f) := by
  obtain ⟨heqR, hixn, hixp, hiy, hzz, hzx, hzy, hsd⟩ := hS
  unfold body
  rw [beq128, zeroTest_eq, zeroTest_eq]
  have hn' := hn
  rw [decode_bitsOf, decode_bitsOf, isNaN_decodeW, isNaN_decodeW] at hn'
  by_cases hxy : x = y
  · subst hxy
    refine ⟨.eq, cmpD_self _ (by simpa using hn), ?_⟩
    simp only [decide_true, if_true, heqR]
  · simp only [hxy, decide_false, Bool.false_eq_true, if_false]
    have hxy' := hxy
    rw [u128_eq_iff] at hxy'
    have hkx := nzFin_decode x
    have hky := nzFin_decode y
    have hex := expF_toInt x.w1
    have hey := expF_toInt y.w1
    have hvx := val128_sigF x
    have hvy := val128_sigF y
    have hsame := same_fields x y
    rw [decode_bitsOf] at hkx hky
    rw [decode_bitsOf, decode_bitsOf]
    unfold nzFin at hkx hky
    generalize expF x.w1 = ex at *
    generalize expF y.w1 = ey at *
    generalize sigF x = sx at *
    generalize sigF y = sy at *
    generalize x.w1.toNat = h at *
    generalize x.w0.toNat = l at *
    generalize y.w1.toNat = h' at *
    generalize y.w0.toNat = l' at *
    simp only [Bool.or_eq_true, decide_eq_true_eq, not_or] at hn'
    rcases decodeW_kind h l with ⟨hN, s, p, hd⟩ | ⟨hN, hI, hd⟩ | ⟨hI, hz, e, hd⟩ | ⟨hI, hS, hlt, hpos, hd⟩
    · omega
    · -- x infinite
      rcases decodeW_kind h' l' with ⟨kN, s', p', kd⟩ | ⟨kN, kI, kd⟩ | ⟨kI, kz, e', kd⟩ | ⟨kI, kS, klt, kpos, kd⟩
      · omega
      · rw [hd, kd]
        simp only [hI, kI, decide_true, if_true, negW, cmpD]
        refine ⟨_, rfl, ?_⟩
        cases decide (h / 2^63 % 2 = 1) <;> cases decide (h' / 2^63 % 2 = 1) <;>
          simp only [if_true, if_false, Bool.false_eq_true, hixn, hixp] <;> rfl
      · rw [hd, kd]
        simp only [hI, kI, decide_true, decide_false, if_true, if_false, Bool.false_eq_true, negW, cmpD]
        refine ⟨_, rfl, ?_⟩
        cases decide (h / 2^63 % 2 = 1) <;> simp only [if_true, if_false, Bool.false_eq_true, hixn, hixp] <;> rfl
      · rw [hd, kd]
        simp only [hI, kI, decide_true, decide_false, if_true, if_false, Bool.false_eq_true, negW, cmpD]
        refine ⟨_, rfl, ?_⟩
        cases decide (h / 2^63 % 2 = 1) <;> simp only [if_true, if_false, Bool.false_eq_true, hixn, hixp] <;> rfl
    · -- x zero
      have hzp : zeroP h l := hz
      rcases decodeW_kind h' l' with ⟨kN, s', p', kd⟩ | ⟨kN, kI, kd⟩ | ⟨kI, kz, e', kd⟩ | ⟨kI, kS, klt, kpos, kd⟩
      · omega
      · rw [hd, kd]
        simp only [hI, kI, decide_true, decide_false, if_true, if_false, Bool.false_eq_true, negW, cmpD]
        exact ⟨_, rfl, by rw [hiy]⟩
      · have kzp : zeroP h' l' := kz
        rw [hd, kd]
        simp only [hI, kI, hzp, kzp, decide_true, decide_false, if_true, if_false, Bool.false_eq_true, cmpD, cmpFin_zero_zero]
        exact ⟨_, rfl, by rw [hzz]⟩
      · have kzp : ¬ zeroP h' l' := by unfold zeroP; omega
        rw [hd, kd]
        simp only [hI, kI, hzp, kzp, decide_true, decide_false, if_true, if_false, Bool.false_eq_true, cmpD,
          cmpFin_zero_left_val _ _ _ _ _ kpos, negW]
        exact ⟨_, rfl, by rw [hzx]⟩
    · -- x finite non-zero
      have hzp : ¬ zeroP h l := by unfold zeroP; omega
      rcases decodeW_kind h' l' with ⟨kN, s', p', kd⟩ | ⟨kN, kI, kd⟩ | ⟨kI, kz, e', kd⟩ | ⟨kI, kS, klt, kpos, kd⟩
      · omega
      · rw [hd, kd]
        simp only [hI, kI, decide_true, decide_false, if_true, if_false, Bool.false_eq_true, negW, cmpD]
        exact ⟨_, rfl, by rw [hiy]⟩
      · have kzp : zeroP h' l' := kz
        rw [hd, kd]
        simp only [hI, kI, hzp, kzp, decide_true, decide_false, if_true, if_false, Bool.false_eq_true, cmpD,
          cmpFin_zero_right_val _ _ _ _ _ hpos, negW]
        exact ⟨_, rfl, by rw [hzy]⟩
      · have kzp : ¬ zeroP h' l' := by unfold zeroP; omega
        rw [hd, kd]
        simp only [hI, kI, hzp, kzp, decide_false, if_false, Bool.false_eq_true, cmpD]
        by_cases hs : negW h = negW h'
        · -- the magnitude comparison
          simp only [hs, bne_self_eq_false, Bool.false_eq_true, if_false]
          have hne : expW h = expW h' → val128 sx ≠ val128 sy := by
            intro he hc
            rw [hvx, hvy] at hc
            exact hxy (hsame hs he hc)
          rw [hT ex ey sx sy (negW h') f _ _ hex hey (expW_lt _) (expW_lt _) (by rw [hvx]; exact hpos) (by rw [hvx]; exact hlt)
            (by rw [hvy]; exact kpos) (by rw [hvy]; exact klt) hne]
          refine ⟨_, rfl, ?_⟩
          unfold negW at hs
          rw [hs]
          show _ = Except.ok (want (cmpFin _ _ ((expW h : Nat) - (6176 : Int)) _ _ ((expW h' : Nat) - (6176 : Int))), f)
          rw [cmpFin_nat, compare_sInt, hvx, hvy]
          rfl
        · have hs' : (negW h != negW h') = true := by simpa [bne_iff_ne] using hs
          have hnx : negW h = !negW h' := by
            cases hh : negW h <;> cases hh' : negW h' <;> simp_all
          simp only [hs', if_true]
          unfold negW at hs
          rw [cmpFin_signs_val _ _ _ _ _ _ hs hpos kpos]
          refine ⟨_, rfl, ?_⟩
          rw [hnx, hsd]; rfl


/-- a truth table on the four-way relation: `nanR` when unordered, `want` on an order -/
def tableOf (nanR : Bool) (want : Ordering → Bool) : Option Ordering → Bool
  | none => nanR
  | some o => want o

/-- the status word after a signaling comparison: `invalid` (0x01) or-ed in iff some operand is a NaN —
`signalingCmpFlags` of the spec-level model -/
def flagsOutS (f : UInt32) (dx dy : Datum) : UInt32 := f ||| UInt32.ofNat (signalingCmpFlags dx dy)

theorem flagsOutS_eq (f : UInt32) (dx dy : Datum) :
    flagsOutS f dx dy = if dx.isNaN || dy.isNaN then f ||| 1 else f := by
  unfold flagsOutS signalingCmpFlags fInvalid
  split
  · rfl
  · show f ||| 0 = f
    exact UInt32.or_zero

/-- **quiet predicates, generic**: skeleton + quiet NaN handling = truth table of `cmpD`, quiet flag rule -/
theorem quietWrap_spec (S : Shape) (want : Ordering → Bool) (nanR : Bool) (hS : ShapeOK S want) (hT : TailOK S.tail want)
    (x y : U128) (f : UInt32) :
    quietWrap nanR (body S) x y f =
      .ok (tableOf nanR want (cmpD (decode (bitsOf x)) (decode (bitsOf y))),
        flagsOut f (decode (bitsOf x)) (decode (bitsOf y))) := by
  unfold quietWrap
  rw [flagsOut_eq]
  by_cases hn : ((decode (bitsOf x)).isNaN || (decode (bitsOf y)).isNaN) = true
  · rw [cmpD_of_nan _ _ hn]
    rw [decode_bitsOf, decode_bitsOf, isNaN_decodeW, isNaN_decodeW] at hn
    rw [if_pos hn, decode_bitsOf, decode_bitsOf, isSNaN_decodeW, isSNaN_decodeW]
    split <;> rfl
  · obtain ⟨o, ho, hb⟩ := body_spec S want hS hT x y f hn
    rw [ho, snan_of_not_nan _ _ hn]
    rw [decode_bitsOf, decode_bitsOf, isNaN_decodeW, isNaN_decodeW] at hn
    rw [if_neg hn, hb]
    rfl

/-- **signaling predicates, generic**: skeleton + signaling NaN handling = truth table of `cmpD`, signaling flag rule -/
theorem sigWrap_spec (S : Shape) (want : Ordering → Bool) (nanR : Bool) (hS : ShapeOK S want) (hT : TailOK S.tail want)
    (x y : U128) (f : UInt32) :
    sigWrap nanR (body S) x y f =
      .ok (tableOf nanR want (cmpD (decode (bitsOf x)) (decode (bitsOf y))),
        flagsOutS f (decode (bitsOf x)) (decode (bitsOf y))) := by
  unfold sigWrap
  rw [flagsOutS_eq]
  by_cases hn : ((decode (bitsOf x)).isNaN || (decode (bitsOf y)).isNaN) = true
  · rw [cmpD_of_nan _ _ hn, hn]
    rw [decode_bitsOf, decode_bitsOf, isNaN_decodeW, isNaN_decodeW] at hn
    rw [if_pos hn]
    rfl
  · obtain ⟨o, ho, hb⟩ := body_spec S want hS hT x y f hn
    rw [ho]
    simp only [hn, if_false, Bool.false_eq_true]
    rw [decode_bitsOf, decode_bitsOf, isNaN_decodeW, isNaN_decodeW] at hn
    rw [if_neg hn, hb]
    rfl


/-! ### the parameters of each copy (read off the Rust text, branch by branch) -/

theorem mul192_eq : @mul_64x128_to192 = @mul_64x128_to_192 := rfl

-- NaN answer of `greater`: false
def T_greater : SignP where
  ee := fun c nx ny => c != (nx)
  r1 := fun nx ny => (!nx)
  r2 := fun nx ny => nx
  r3 := fun nx ny => (!nx)
  r4 := fun nx ny => nx
  eqv := false
  fa256 := fun c nx ny => c != (ny)
  fa192 := fun c nx ny => c != (ny)
  fb256 := fun c nx ny => c != ((!nx))
  fb192 := fun c nx ny => c != ((!ny))

def S_greater : Shape where
  eqR := false
  ixn := fun yi ny => false
  ixp := fun yi ny => (((!yi)) || (ny))
  iy := fun ny => ny
  zz := false
  zx := fun ny => ny
  zy := fun nx => (!nx)
  sd := fun nx ny => ny
  tail := tailA T_greater

-- NaN answer of `greater_equal`: false
def T_greater_equal : SignP where
  ee := fun c nx ny => c != (nx)
  r1 := fun nx ny => (!nx)
  r2 := fun nx ny => nx
  r3 := fun nx ny => (!nx)
  r4 := fun nx ny => nx
  eqv := true
  fa256 := fun c nx ny => c != (ny)
  fa192 := fun c nx ny => c != (ny)
  fb256 := fun c nx ny => c != (nx)
  fb192 := fun c nx ny => c != (ny)

def S_greater_equal : Shape where
  eqR := true
  ixn := fun yi ny => ((yi) && ny)
  ixp := fun yi ny => true
  iy := fun ny => ny
  zz := true
  zx := fun ny => ny
  zy := fun nx => (!nx)
  sd := fun nx ny => ny
  tail := tailB T_greater_equal

-- NaN answer of `greater_unordered`: true
def T_greater_unordered : SignP where
  ee := fun c nx ny => c != (nx)
  r1 := fun nx ny => (!nx)
  r2 := fun nx ny => nx
  r3 := fun nx ny => (!nx)
  r4 := fun nx ny => nx
  eqv := false
  fa256 := fun c nx ny => c != (ny)
  fa192 := fun c nx ny => c != (ny)
  fb256 := fun c nx ny => c != (nx)
  fb192 := fun c nx ny => c != (ny)

def S_greater_unordered : Shape where
  eqR := false
  ixn := fun yi ny => false
  ixp := fun yi ny => (((!yi)) || (ny))
  iy := fun ny => ny
  zz := false
  zx := fun ny => ny
  zy := fun nx => (!nx)
  sd := fun nx ny => ny
  tail := tailB T_greater_unordered

-- NaN answer of `less`: false
def T_less : SignP where
  ee := fun c nx ny => c != ((!nx))
  r1 := fun nx ny => nx
  r2 := fun nx ny => (!nx)
  r3 := fun nx ny => nx
  r4 := fun nx ny => (!nx)
  eqv := false
  fa256 := fun c nx ny => c != ((!ny))
  fa192 := fun c nx ny => c != ((!ny))
  fb256 := fun c nx ny => c != (nx)
  fb192 := fun c nx ny => c != (ny)

def S_less : Shape where
  eqR := false
  ixn := fun yi ny => (((!yi)) || (!ny))
  ixp := fun yi ny => false
  iy := fun ny => (!ny)
  zz := false
  zx := fun ny => (!ny)
  zy := fun nx => nx
  sd := fun nx ny => (!ny)
  tail := tailA T_less

-- NaN answer of `less_equal`: false
def T_less_equal : SignP where
  ee := fun c nx ny => c != ((!nx))
  r1 := fun nx ny => nx
  r2 := fun nx ny => (!nx)
  r3 := fun nx ny => nx
  r4 := fun nx ny => (!nx)
  eqv := true
  fa256 := fun c nx ny => c != ((!ny))
  fa192 := fun c nx ny => c != ((!ny))
  fb256 := fun c nx ny => c != (nx)
  fb192 := fun c nx ny => c != (ny)

def S_less_equal : Shape where
  eqR := true
  ixn := fun yi ny => true
  ixp := fun yi ny => ((yi) && ((!ny)))
  iy := fun ny => (!ny)
  zz := true
  zx := fun ny => (!ny)
  zy := fun nx => nx
  sd := fun nx ny => (!ny)
  tail := tailA T_less_equal

-- NaN answer of `less_unordered`: true
def T_less_unordered : SignP where
  ee := fun c nx ny => c != ((!nx))
  r1 := fun nx ny => nx
  r2 := fun nx ny => (!nx)
  r3 := fun nx ny => nx
  r4 := fun nx ny => (!nx)
  eqv := false
  fa256 := fun c nx ny => c != ((!ny))
  fa192 := fun c nx ny => c != ((!ny))
  fb256 := fun c nx ny => c != (nx)
  fb192 := fun c nx ny => c != (ny)

def S_less_unordered : Shape where
  eqR := false
  ixn := fun yi ny => (((!yi)) || (!ny))
  ixp := fun yi ny => false
  iy := fun ny => (!ny)
  zz := false
  zx := fun ny => (!ny)
  zy := fun nx => nx
  sd := fun nx ny => (!ny)
  tail := tailA T_less_unordered

-- NaN answer of `not_greater`: true
def T_not_greater : SignP where
  ee := fun c nx ny => c != ((!nx))
  r1 := fun nx ny => nx
  r2 := fun nx ny => (!nx)
  r3 := fun nx ny => nx
  r4 := fun nx ny => (!nx)
  eqv := true
  fa256 := fun c nx ny => c != ((!ny))
  fa192 := fun c nx ny => c != ((!ny))
  fb256 := fun c nx ny => c != (nx)
  fb192 := fun c nx ny => c != (ny)

def S_not_greater : Shape where
  eqR := true
  ixn := fun yi ny => true
  ixp := fun yi ny => ((yi) && ((!ny)))
  iy := fun ny => (!ny)
  zz := true
  zx := fun ny => (!ny)
  zy := fun nx => nx
  sd := fun nx ny => (!ny)
  tail := tailA T_not_greater

-- NaN answer of `not_less`: true
def T_not_less : SignP where
  ee := fun c nx ny => c != (nx)
  r1 := fun nx ny => (!nx)
  r2 := fun nx ny => nx
  r3 := fun nx ny => (!nx)
  r4 := fun nx ny => nx
  eqv := true
  fa256 := fun c nx ny => c != (ny)
  fa192 := fun c nx ny => c != (ny)
  fb256 := fun c nx ny => c != (nx)
  fb192 := fun c nx ny => c != (ny)

def S_not_less : Shape where
  eqR := true
  ixn := fun yi ny => ((yi) && ny)
  ixp := fun yi ny => true
  iy := fun ny => ny
  zz := true
  zx := fun ny => ny
  zy := fun nx => (!nx)
  sd := fun nx ny => ny
  tail := tailB T_not_less


/-! ### the truth tables -/

/-- the `greater` truth table on the four-way relation, as `predTable "greater"` has it -/
def tb_greater (r : Option Ordering) : Bool := r == some .gt
def want_greater (o : Ordering) : Bool := tb_greater (some o)
theorem tb_greater_eq (r : Option Ordering) : tableOf false want_greater r = tb_greater r := by
  cases r with
  | none => rfl
  | some o => rfl
theorem tb_greater_pred (r : Option Ordering) : predTable "greater" r = some (tb_greater r) := rfl
theorem S_greater_ok : ShapeOK S_greater want_greater := by decide
theorem T_greater_ok : TailOK S_greater.tail want_greater := tailA_ok _ _ (by decide)

/-- the `greater_equal` truth table on the four-way relation, as `predTable "greater_equal"` has it -/
def tb_greater_equal (r : Option Ordering) : Bool := (r == some .gt || r == some .eq)
def want_greater_equal (o : Ordering) : Bool := tb_greater_equal (some o)
theorem tb_greater_equal_eq (r : Option Ordering) : tableOf false want_greater_equal r = tb_greater_equal r := by
  cases r with
  | none => rfl
  | some o => rfl
theorem tb_greater_equal_pred (r : Option Ordering) : predTable "greater_equal" r = some (tb_greater_equal r) := rfl
theorem S_greater_equal_ok : ShapeOK S_greater_equal want_greater_equal := by decide
theorem T_greater_equal_ok : TailOK S_greater_equal.tail want_greater_equal := tailB_ok _ _ (by decide)

/-- the `greater_unordered` truth table on the four-way relation, as `predTable "greater_unordered"` has it -/
def tb_greater_unordered (r : Option Ordering) : Bool := (r == some .gt || r == none)
def want_greater_unordered (o : Ordering) : Bool := tb_greater_unordered (some o)
theorem tb_greater_unordered_eq (r : Option Ordering) : tableOf true want_greater_unordered r = tb_greater_unordered r := by
  cases r with
  | none => rfl
  | some o => rfl
theorem tb_greater_unordered_pred (r : Option Ordering) : predTable "greater_unordered" r = some (tb_greater_unordered r) := rfl
theorem S_greater_unordered_ok : ShapeOK S_greater_unordered want_greater_unordered := by decide
theorem T_greater_unordered_ok : TailOK S_greater_unordered.tail want_greater_unordered := tailB_ok _ _ (by decide)

/-- the `less` truth table on the four-way relation, as `predTable "less"` has it -/
def tb_less (r : Option Ordering) : Bool := r == some .lt
def want_less (o : Ordering) : Bool := tb_less (some o)
theorem tb_less_eq (r : Option Ordering) : tableOf false want_less r = tb_less r := by
  cases r with
  | none => rfl
  | some o => rfl
theorem tb_less_pred (r : Option Ordering) : predTable "less" r = some (tb_less r) := rfl
theorem S_less_ok : ShapeOK S_less want_less := by decide
theorem T_less_ok : TailOK S_less.tail want_less := tailA_ok _ _ (by decide)

/-- the `less_equal` truth table on the four-way relation, as `predTable "less_equal"` has it -/
def tb_less_equal (r : Option Ordering) : Bool := (r == some .lt || r == some .eq)
def want_less_equal (o : Ordering) : Bool := tb_less_equal (some o)
theorem tb_less_equal_eq (r : Option Ordering) : tableOf false want_less_equal r = tb_less_equal r := by
  cases r with
  | none => rfl
  | some o => rfl
theorem tb_less_equal_pred (r : Option Ordering) : predTable "less_equal" r = some (tb_less_equal r) := rfl
theorem S_less_equal_ok : ShapeOK S_less_equal want_less_equal := by decide
theorem T_less_equal_ok : TailOK S_less_equal.tail want_less_equal := tailA_ok _ _ (by decide)

/-- the `less_unordered` truth table on the four-way relation, as `predTable "less_unordered"` has it -/
def tb_less_unordered (r : Option Ordering) : Bool := (r == some .lt || r == none)
def want_less_unordered (o : Ordering) : Bool := tb_less_unordered (some o)
theorem tb_less_unordered_eq (r : Option Ordering) : tableOf true want_less_unordered r = tb_less_unordered r := by
  cases r with
  | none => rfl
  | some o => rfl
theorem tb_less_unordered_pred (r : Option Ordering) : predTable "less_unordered" r = some (tb_less_unordered r) := rfl
theorem S_less_unordered_ok : ShapeOK S_less_unordered want_less_unordered := by decide
theorem T_less_unordered_ok : TailOK S_less_unordered.tail want_less_unordered := tailA_ok _ _ (by decide)

/-- the `not_greater` truth table on the four-way relation, as `predTable "not_greater"` has it -/
def tb_not_greater (r : Option Ordering) : Bool := !(r == some .gt)
def want_not_greater (o : Ordering) : Bool := tb_not_greater (some o)
theorem tb_not_greater_eq (r : Option Ordering) : tableOf true want_not_greater r = tb_not_greater r := by
  cases r with
  | none => rfl
  | some o => rfl
theorem tb_not_greater_pred (r : Option Ordering) : predTable "not_greater" r = some (tb_not_greater r) := rfl
theorem S_not_greater_ok : ShapeOK S_not_greater want_not_greater := by decide
theorem T_not_greater_ok : TailOK S_not_greater.tail want_not_greater := tailA_ok _ _ (by decide)

/-- the `not_less` truth table on the four-way relation, as `predTable "not_less"` has it -/
def tb_not_less (r : Option Ordering) : Bool := !(r == some .lt)
def want_not_less (o : Ordering) : Bool := tb_not_less (some o)
theorem tb_not_less_eq (r : Option Ordering) : tableOf true want_not_less r = tb_not_less r := by
  cases r with
  | none => rfl
  | some o => rfl
theorem tb_not_less_pred (r : Option Ordering) : predTable "not_less" r = some (tb_not_less r) := rfl
theorem S_not_less_ok : ShapeOK S_not_less want_not_less := by decide
theorem T_not_less_ok : TailOK S_not_less.tail want_not_less := tailB_ok _ _ (by decide)


/-! ### the routines -/

set_option hygiene false in
/-- unfold a translated routine and match it, branch by branch, with the skeleton instantiated with its parameters -/
macro "unfold_cmp" r:ident S:ident T:ident : tactic => `(tactic| (
  simp only [$r:ident, c_MASK_NAN, c_MASK_SNAN, c_MASK_INF, c_MASK_SIGN, c_StatusFlags_BID_INVALID_EXCEPTION, c_DEC_FE_INVALID,
    bind, Except.bind, pure, Except.pure, nan_test, snan_test, inf_test, steer_test, bne, sign_test, sign_xor_test', mul192_eq]
  by_cases hx : zeroTest x = true <;> by_cases hy : zeroTest y = true <;>
  simp only [zeroTest] at hx hy <;>
  simp only [hx, hy, if_true, if_false, Bool.and_true, Bool.and_false, Bool.true_and, Bool.false_and, Bool.not_true, Bool.not_false,
    Bool.or_false, Bool.false_eq_true, Bool.or_true, Bool.true_or, zeroTest, quietWrap, sigWrap, body, $S:ident, $T:ident] <;>
  simp only [tailA, tailB, expF, sigF, negW, bind, Except.bind, gt_iff_lt, decide_eq_true_eq, bne] <;>
  rfl))

/-- `bid128_quiet_less` is the skeleton with the parameters `S_less` -/
theorem quiet_less_unfold (x y : U128) (f : UInt32) :
    bid128_quiet_less x y f = quietWrap false (body S_less) x y f := by
  unfold_cmp bid128_quiet_less S_less T_less

/-- **`bid128_quiet_less`, all pairs of 128-bit patterns, every incoming status word**: the result is `x < y` for the
decoded operands (`tb_less (cmpD dx dy)`), the outgoing status word is the incoming one with `invalid` or-ed in iff an operand is a signalling NaN;
never panics. -/
theorem quiet_less_spec (x y : U128) (f : UInt32) :
    bid128_quiet_less x y f =
      .ok (tb_less (cmpD (decode (bitsOf x)) (decode (bitsOf y))), flagsOut f (decode (bitsOf x)) (decode (bitsOf y))) := by
  rw [quiet_less_unfold, quietWrap_spec S_less want_less false S_less_ok T_less_ok, tb_less_eq]

/-- in the judge's vocabulary (`cmpPred true "less"`) -/
theorem quiet_less_table (x y : U128) (f : UInt32) :
    ∃ b, bid128_quiet_less x y f = .ok (b, f ||| UInt32.ofNat (quietCmpFlags (decode (bitsOf x)) (decode (bitsOf y)))) ∧
      predTable "less" (cmpD (decode (bitsOf x)) (decode (bitsOf y))) = some b :=
  ⟨_, quiet_less_spec x y f, rfl⟩

-- 2^64 × 10^1 against 5 (the word-wise short cut does not fire), −1.0 against −1, 1 × 10^25 against 10^25 + 1, a quiet NaN, a signalling NaN
example : bid128_quiet_less ⟨0, 0x3042000000000001⟩ ⟨5, 0x3040000000000000⟩ 0x20 = .ok (false, 0x20) := by rfl
example : bid128_quiet_less ⟨10, 0xb03e000000000000⟩ ⟨1, 0xb040000000000000⟩ 0x20 = .ok (false, 0x20) := by rfl
example : bid128_quiet_less ⟨1, 0x3072000000000000⟩ ⟨0x161401484a000001, 0x3040000000084595⟩ 0x20 = .ok (true, 0x20) := by rfl
example : bid128_quiet_less ⟨0, 0x7c00000000000000⟩ ⟨1, 0x3040000000000000⟩ 0x20 = .ok (false, 0x20) := by rfl
example : bid128_quiet_less ⟨1, 0x3040000000000000⟩ ⟨0, 0xfe00000000000000⟩ 0x20 = .ok (false, 0x21) := by rfl

/-- `bid128_quiet_less_equal` is the skeleton with the parameters `S_less_equal` -/
theorem quiet_less_equal_unfold (x y : U128) (f : UInt32) :
    bid128_quiet_less_equal x y f = quietWrap false (body S_less_equal) x y f := by
  unfold_cmp bid128_quiet_less_equal S_less_equal T_less_equal

/-- **`bid128_quiet_less_equal`, all pairs of 128-bit patterns, every incoming status word**: the result is `x ≤ y` for the
decoded operands (`tb_less_equal (cmpD dx dy)`), the outgoing status word is the incoming one with `invalid` or-ed in iff an operand is a signalling NaN;
never panics. -/
theorem quiet_less_equal_spec (x y : U128) (f : UInt32) :
    bid128_quiet_less_equal x y f =
      .ok (tb_less_equal (cmpD (decode (bitsOf x)) (decode (bitsOf y))), flagsOut f (decode (bitsOf x)) (decode (bitsOf y))) := by
  rw [quiet_less_equal_unfold, quietWrap_spec S_less_equal want_less_equal false S_less_equal_ok T_less_equal_ok, tb_less_equal_eq]

/-- in the judge's vocabulary (`cmpPred true "less_equal"`) -/
theorem quiet_less_equal_table (x y : U128) (f : UInt32) :
    ∃ b, bid128_quiet_less_equal x y f = .ok (b, f ||| UInt32.ofNat (quietCmpFlags (decode (bitsOf x)) (decode (bitsOf y)))) ∧
      predTable "less_equal" (cmpD (decode (bitsOf x)) (decode (bitsOf y))) = some b :=
  ⟨_, quiet_less_equal_spec x y f, rfl⟩

-- 2^64 × 10^1 against 5 (the word-wise short cut does not fire), −1.0 against −1, 1 × 10^25 against 10^25 + 1, a quiet NaN, a signalling NaN
example : bid128_quiet_less_equal ⟨0, 0x3042000000000001⟩ ⟨5, 0x3040000000000000⟩ 0x20 = .ok (false, 0x20) := by rfl
example : bid128_quiet_less_equal ⟨10, 0xb03e000000000000⟩ ⟨1, 0xb040000000000000⟩ 0x20 = .ok (true, 0x20) := by rfl
example : bid128_quiet_less_equal ⟨1, 0x3072000000000000⟩ ⟨0x161401484a000001, 0x3040000000084595⟩ 0x20 = .ok (true, 0x20) := by rfl
example : bid128_quiet_less_equal ⟨0, 0x7c00000000000000⟩ ⟨1, 0x3040000000000000⟩ 0x20 = .ok (false, 0x20) := by rfl
example : bid128_quiet_less_equal ⟨1, 0x3040000000000000⟩ ⟨0, 0xfe00000000000000⟩ 0x20 = .ok (false, 0x21) := by rfl

/-- `bid128_quiet_greater_equal` is the skeleton with the parameters `S_greater_equal` -/
theorem quiet_greater_equal_unfold (x y : U128) (f : UInt32) :
    bid128_quiet_greater_equal x y f = quietWrap false (body S_greater_equal) x y f := by
  unfold_cmp bid128_quiet_greater_equal S_greater_equal T_greater_equal

/-- **`bid128_quiet_greater_equal`, all pairs of 128-bit patterns, every incoming status word**: the result is `x ≥ y` for the
decoded operands (`tb_greater_equal (cmpD dx dy)`), the outgoing status word is the incoming one with `invalid` or-ed in iff an operand is a signalling NaN;
never panics. -/
theorem quiet_greater_equal_spec (x y : U128) (f : UInt32) :
    bid128_quiet_greater_equal x y f =
      .ok (tb_greater_equal (cmpD (decode (bitsOf x)) (decode (bitsOf y))), flagsOut f (decode (bitsOf x)) (decode (bitsOf y))) := by
  rw [quiet_greater_equal_unfold, quietWrap_spec S_greater_equal want_greater_equal false S_greater_equal_ok T_greater_equal_ok, tb_greater_equal_eq]

/-- in the judge's vocabulary (`cmpPred true "greater_equal"`) -/
theorem quiet_greater_equal_table (x y : U128) (f : UInt32) :
    ∃ b, bid128_quiet_greater_equal x y f = .ok (b, f ||| UInt32.ofNat (quietCmpFlags (decode (bitsOf x)) (decode (bitsOf y)))) ∧
      predTable "greater_equal" (cmpD (decode (bitsOf x)) (decode (bitsOf y))) = some b :=
  ⟨_, quiet_greater_equal_spec x y f, rfl⟩

-- 2^64 × 10^1 against 5 (the word-wise short cut does not fire), −1.0 against −1, 1 × 10^25 against 10^25 + 1, a quiet NaN, a signalling NaN
example : bid128_quiet_greater_equal ⟨0, 0x3042000000000001⟩ ⟨5, 0x3040000000000000⟩ 0x20 = .ok (true, 0x20) := by rfl
example : bid128_quiet_greater_equal ⟨10, 0xb03e000000000000⟩ ⟨1, 0xb040000000000000⟩ 0x20 = .ok (true, 0x20) := by rfl
example : bid128_quiet_greater_equal ⟨1, 0x3072000000000000⟩ ⟨0x161401484a000001, 0x3040000000084595⟩ 0x20 = .ok (false, 0x20) := by rfl
example : bid128_quiet_greater_equal ⟨0, 0x7c00000000000000⟩ ⟨1, 0x3040000000000000⟩ 0x20 = .ok (false, 0x20) := by rfl
example : bid128_quiet_greater_equal ⟨1, 0x3040000000000000⟩ ⟨0, 0xfe00000000000000⟩ 0x20 = .ok (false, 0x21) := by rfl

/-- `bid128_quiet_greater_unordered` is the skeleton with the parameters `S_greater_unordered` -/
theorem quiet_greater_unordered_unfold (x y : U128) (f : UInt32) :
    bid128_quiet_greater_unordered x y f = quietWrap true (body S_greater_unordered) x y f := by
  unfold_cmp bid128_quiet_greater_unordered S_greater_unordered T_greater_unordered

/-- **`bid128_quiet_greater_unordered`, all pairs of 128-bit patterns, every incoming status word**: the result is `x > y` or unordered for the
decoded operands (`tb_greater_unordered (cmpD dx dy)`), the outgoing status word is the incoming one with `invalid` or-ed in iff an operand is a signalling NaN;
never panics. -/
theorem quiet_greater_unordered_spec (x y : U128) (f : UInt32) :
    bid128_quiet_greater_unordered x y f =
      .ok (tb_greater_unordered (cmpD (decode (bitsOf x)) (decode (bitsOf y))), flagsOut f (decode (bitsOf x)) (decode (bitsOf y))) := by
  rw [quiet_greater_unordered_unfold, quietWrap_spec S_greater_unordered want_greater_unordered true S_greater_unordered_ok T_greater_unordered_ok, tb_greater_unordered_eq]

/-- in the judge's vocabulary (`cmpPred true "greater_unordered"`) -/
theorem quiet_greater_unordered_table (x y : U128) (f : UInt32) :
    ∃ b, bid128_quiet_greater_unordered x y f = .ok (b, f ||| UInt32.ofNat (quietCmpFlags (decode (bitsOf x)) (decode (bitsOf y)))) ∧
      predTable "greater_unordered" (cmpD (decode (bitsOf x)) (decode (bitsOf y))) = some b :=
  ⟨_, quiet_greater_unordered_spec x y f, rfl⟩

-- 2^64 × 10^1 against 5 (the word-wise short cut does not fire), −1.0 against −1, 1 × 10^25 against 10^25 + 1, a quiet NaN, a signalling NaN
example : bid128_quiet_greater_unordered ⟨0, 0x3042000000000001⟩ ⟨5, 0x3040000000000000⟩ 0x20 = .ok (true, 0x20) := by rfl
example : bid128_quiet_greater_unordered ⟨10, 0xb03e000000000000⟩ ⟨1, 0xb040000000000000⟩ 0x20 = .ok (false, 0x20) := by rfl
example : bid128_quiet_greater_unordered ⟨1, 0x3072000000000000⟩ ⟨0x161401484a000001, 0x3040000000084595⟩ 0x20 = .ok (false, 0x20) := by rfl
example : bid128_quiet_greater_unordered ⟨0, 0x7c00000000000000⟩ ⟨1, 0x3040000000000000⟩ 0x20 = .ok (true, 0x20) := by rfl
example : bid128_quiet_greater_unordered ⟨1, 0x3040000000000000⟩ ⟨0, 0xfe00000000000000⟩ 0x20 = .ok (true, 0x21) := by rfl

/-- `bid128_quiet_less_unordered` is the skeleton with the parameters `S_less_unordered` -/
theorem quiet_less_unordered_unfold (x y : U128) (f : UInt32) :
    bid128_quiet_less_unordered x y f = quietWrap true (body S_less_unordered) x y f := by
  unfold_cmp bid128_quiet_less_unordered S_less_unordered T_less_unordered

/-- **`bid128_quiet_less_unordered`, all pairs of 128-bit patterns, every incoming status word**: the result is `x < y` or unordered for the
decoded operands (`tb_less_unordered (cmpD dx dy)`), the outgoing status word is the incoming one with `invalid` or-ed in iff an operand is a signalling NaN;
never panics. -/
theorem quiet_less_unordered_spec (x y : U128) (f : UInt32) :
    bid128_quiet_less_unordered x y f =
      .ok (tb_less_unordered (cmpD (decode (bitsOf x)) (decode (bitsOf y))), flagsOut f (decode (bitsOf x)) (decode (bitsOf y))) := by
  rw [quiet_less_unordered_unfold, quietWrap_spec S_less_unordered want_less_unordered true S_less_unordered_ok T_less_unordered_ok, tb_less_unordered_eq]

/-- in the judge's vocabulary (`cmpPred true "less_unordered"`) -/
theorem quiet_less_unordered_table (x y : U128) (f : UInt32) :
    ∃ b, bid128_quiet_less_unordered x y f = .ok (b, f ||| UInt32.ofNat (quietCmpFlags (decode (bitsOf x)) (decode (bitsOf y)))) ∧
      predTable "less_unordered" (cmpD (decode (bitsOf x)) (decode (bitsOf y))) = some b :=
  ⟨_, quiet_less_unordered_spec x y f, rfl⟩

-- 2^64 × 10^1 against 5 (the word-wise short cut does not fire), −1.0 against −1, 1 × 10^25 against 10^25 + 1, a quiet NaN, a signalling NaN
example : bid128_quiet_less_unordered ⟨0, 0x3042000000000001⟩ ⟨5, 0x3040000000000000⟩ 0x20 = .ok (false, 0x20) := by rfl
example : bid128_quiet_less_unordered ⟨10, 0xb03e000000000000⟩ ⟨1, 0xb040000000000000⟩ 0x20 = .ok (false, 0x20) := by rfl
example : bid128_quiet_less_unordered ⟨1, 0x3072000000000000⟩ ⟨0x161401484a000001, 0x3040000000084595⟩ 0x20 = .ok (true, 0x20) := by rfl
example : bid128_quiet_less_unordered ⟨0, 0x7c00000000000000⟩ ⟨1, 0x3040000000000000⟩ 0x20 = .ok (true, 0x20) := by rfl
example : bid128_quiet_less_unordered ⟨1, 0x3040000000000000⟩ ⟨0, 0xfe00000000000000⟩ 0x20 = .ok (true, 0x21) := by rfl

/-- `bid128_quiet_not_greater` is the skeleton with the parameters `S_not_greater` -/
theorem quiet_not_greater_unfold (x y : U128) (f : UInt32) :
    bid128_quiet_not_greater x y f = quietWrap true (body S_not_greater) x y f := by
  unfold_cmp bid128_quiet_not_greater S_not_greater T_not_greater

/-- **`bid128_quiet_not_greater`, all pairs of 128-bit patterns, every incoming status word**: the result is not `x > y` (true when unordered) for the
decoded operands (`tb_not_greater (cmpD dx dy)`), the outgoing status word is the incoming one with `invalid` or-ed in iff an operand is a signalling NaN;
never panics. -/
theorem quiet_not_greater_spec (x y : U128) (f : UInt32) :
    bid128_quiet_not_greater x y f =
      .ok (tb_not_greater (cmpD (decode (bitsOf x)) (decode (bitsOf y))), flagsOut f (decode (bitsOf x)) (decode (bitsOf y))) := by
  rw [quiet_not_greater_unfold, quietWrap_spec S_not_greater want_not_greater true S_not_greater_ok T_not_greater_ok, tb_not_greater_eq]

/-- in the judge's vocabulary (`cmpPred true "not_greater"`) -/
theorem quiet_not_greater_table (x y : U128) (f : UInt32) :
    ∃ b, bid128_quiet_not_greater x y f = .ok (b, f ||| UInt32.ofNat (quietCmpFlags (decode (bitsOf x)) (decode (bitsOf y)))) ∧
      predTable "not_greater" (cmpD (decode (bitsOf x)) (decode (bitsOf y))) = some b :=
  ⟨_, quiet_not_greater_spec x y f, rfl⟩

-- 2^64 × 10^1 against 5 (the word-wise short cut does not fire), −1.0 against −1, 1 × 10^25 against 10^25 + 1, a quiet NaN, a signalling NaN
example : bid128_quiet_not_greater ⟨0, 0x3042000000000001⟩ ⟨5, 0x3040000000000000⟩ 0x20 = .ok (false, 0x20) := by rfl
example : bid128_quiet_not_greater ⟨10, 0xb03e000000000000⟩ ⟨1, 0xb040000000000000⟩ 0x20 = .ok (true, 0x20) := by rfl
example : bid128_quiet_not_greater ⟨1, 0x3072000000000000⟩ ⟨0x161401484a000001, 0x3040000000084595⟩ 0x20 = .ok (true, 0x20) := by rfl
example : bid128_quiet_not_greater ⟨0, 0x7c00000000000000⟩ ⟨1, 0x3040000000000000⟩ 0x20 = .ok (true, 0x20) := by rfl
example : bid128_quiet_not_greater ⟨1, 0x3040000000000000⟩ ⟨0, 0xfe00000000000000⟩ 0x20 = .ok (true, 0x21) := by rfl

/-- `bid128_quiet_not_less` is the skeleton with the parameters `S_not_less` -/
theorem quiet_not_less_unfold (x y : U128) (f : UInt32) :
    bid128_quiet_not_less x y f = quietWrap true (body S_not_less) x y f := by
  unfold_cmp bid128_quiet_not_less S_not_less T_not_less

/-- **`bid128_quiet_not_less`, all pairs of 128-bit patterns, every incoming status word**: the result is not `x < y` (true when unordered) for the
decoded operands (`tb_not_less (cmpD dx dy)`), the outgoing status word is the incoming one with `invalid` or-ed in iff an operand is a signalling NaN;
never panics. -/
theorem quiet_not_less_spec (x y : U128) (f : UInt32) :
    bid128_quiet_not_less x y f =
      .ok (tb_not_less (cmpD (decode (bitsOf x)) (decode (bitsOf y))), flagsOut f (decode (bitsOf x)) (decode (bitsOf y))) := by
  rw [quiet_not_less_unfold, quietWrap_spec S_not_less want_not_less true S_not_less_ok T_not_less_ok, tb_not_less_eq]

/-- in the judge's vocabulary (`cmpPred true "not_less"`) -/
theorem quiet_not_less_table (x y : U128) (f : UInt32) :
    ∃ b, bid128_quiet_not_less x y f = .ok (b, f ||| UInt32.ofNat (quietCmpFlags (decode (bitsOf x)) (decode (bitsOf y)))) ∧
      predTable "not_less" (cmpD (decode (bitsOf x)) (decode (bitsOf y))) = some b :=
  ⟨_, quiet_not_less_spec x y f, rfl⟩

-- 2^64 × 10^1 against 5 (the word-wise short cut does not fire), −1.0 against −1, 1 × 10^25 against 10^25 + 1, a quiet NaN, a signalling NaN
example : bid128_quiet_not_less ⟨0, 0x3042000000000001⟩ ⟨5, 0x3040000000000000⟩ 0x20 = .ok (true, 0x20) := by rfl
example : bid128_quiet_not_less ⟨10, 0xb03e000000000000⟩ ⟨1, 0xb040000000000000⟩ 0x20 = .ok (true, 0x20) := by rfl
example : bid128_quiet_not_less ⟨1, 0x3072000000000000⟩ ⟨0x161401484a000001, 0x3040000000084595⟩ 0x20 = .ok (false, 0x20) := by rfl
example : bid128_quiet_not_less ⟨0, 0x7c00000000000000⟩ ⟨1, 0x3040000000000000⟩ 0x20 = .ok (true, 0x20) := by rfl
example : bid128_quiet_not_less ⟨1, 0x3040000000000000⟩ ⟨0, 0xfe00000000000000⟩ 0x20 = .ok (true, 0x21) := by rfl

/-- `bid128_signaling_greater` is the skeleton with the parameters `S_greater` -/
theorem signaling_greater_unfold (x y : U128) (f : UInt32) :
    bid128_signaling_greater x y f = sigWrap false (body S_greater) x y f := by
  unfold_cmp bid128_signaling_greater S_greater T_greater

/-- **`bid128_signaling_greater`, all pairs of 128-bit patterns, every incoming status word**: the result is `x > y` for the
decoded operands (`tb_greater (cmpD dx dy)`), the outgoing status word is the incoming one with `invalid` or-ed in iff an operand is a NaN (quiet or signalling);
never panics. -/
theorem signaling_greater_spec (x y : U128) (f : UInt32) :
    bid128_signaling_greater x y f =
      .ok (tb_greater (cmpD (decode (bitsOf x)) (decode (bitsOf y))), flagsOutS f (decode (bitsOf x)) (decode (bitsOf y))) := by
  rw [signaling_greater_unfold, sigWrap_spec S_greater want_greater false S_greater_ok T_greater_ok, tb_greater_eq]

/-- in the judge's vocabulary (`cmpPred false "greater"`) -/
theorem signaling_greater_table (x y : U128) (f : UInt32) :
    ∃ b, bid128_signaling_greater x y f = .ok (b, f ||| UInt32.ofNat (signalingCmpFlags (decode (bitsOf x)) (decode (bitsOf y)))) ∧
      predTable "greater" (cmpD (decode (bitsOf x)) (decode (bitsOf y))) = some b :=
  ⟨_, signaling_greater_spec x y f, rfl⟩

-- 2^64 × 10^1 against 5 (the word-wise short cut does not fire), −1.0 against −1, 1 × 10^25 against 10^25 + 1, a quiet NaN, a signalling NaN
example : bid128_signaling_greater ⟨0, 0x3042000000000001⟩ ⟨5, 0x3040000000000000⟩ 0x20 = .ok (true, 0x20) := by rfl
example : bid128_signaling_greater ⟨10, 0xb03e000000000000⟩ ⟨1, 0xb040000000000000⟩ 0x20 = .ok (false, 0x20) := by rfl
example : bid128_signaling_greater ⟨1, 0x3072000000000000⟩ ⟨0x161401484a000001, 0x3040000000084595⟩ 0x20 = .ok (false, 0x20) := by rfl
example : bid128_signaling_greater ⟨0, 0x7c00000000000000⟩ ⟨1, 0x3040000000000000⟩ 0x20 = .ok (false, 0x21) := by rfl
example : bid128_signaling_greater ⟨1, 0x3040000000000000⟩ ⟨0, 0xfe00000000000000⟩ 0x20 = .ok (false, 0x21) := by rfl

/-- `bid128_signaling_greater_equal` is the skeleton with the parameters `S_greater_equal` -/
theorem signaling_greater_equal_unfold (x y : U128) (f : UInt32) :
    bid128_signaling_greater_equal x y f = sigWrap false (body S_greater_equal) x y f := by
  unfold_cmp bid128_signaling_greater_equal S_greater_equal T_greater_equal

/-- **`bid128_signaling_greater_equal`, all pairs of 128-bit patterns, every incoming status word**: the result is `x ≥ y` for the
decoded operands (`tb_greater_equal (cmpD dx dy)`), the outgoing status word is the incoming one with `invalid` or-ed in iff an operand is a NaN (quiet or signalling);
never panics. -/
theorem signaling_greater_equal_spec (x y : U128) (f : UInt32) :
    bid128_signaling_greater_equal x y f =
      .ok (tb_greater_equal (cmpD (decode (bitsOf x)) (decode (bitsOf y))), flagsOutS f (decode (bitsOf x)) (decode (bitsOf y))) := by
  rw [signaling_greater_equal_unfold, sigWrap_spec S_greater_equal want_greater_equal false S_greater_equal_ok T_greater_equal_ok, tb_greater_equal_eq]

/-- in the judge's vocabulary (`cmpPred false "greater_equal"`) -/
theorem signaling_greater_equal_table (x y : U128) (f : UInt32) :
    ∃ b, bid128_signaling_greater_equal x y f = .ok (b, f ||| UInt32.ofNat (signalingCmpFlags (decode (bitsOf x)) (decode (bitsOf y)))) ∧
      predTable "greater_equal" (cmpD (decode (bitsOf x)) (decode (bitsOf y))) = some b :=
  ⟨_, signaling_greater_equal_spec x y f, rfl⟩

-- 2^64 × 10^1 against 5 (the word-wise short cut does not fire), −1.0 against −1, 1 × 10^25 against 10^25 + 1, a quiet NaN, a signalling NaN
example : bid128_signaling_greater_equal ⟨0, 0x3042000000000001⟩ ⟨5, 0x3040000000000000⟩ 0x20 = .ok (true, 0x20) := by rfl
example : bid128_signaling_greater_equal ⟨10, 0xb03e000000000000⟩ ⟨1, 0xb040000000000000⟩ 0x20 = .ok (true, 0x20) := by rfl
example : bid128_signaling_greater_equal ⟨1, 0x3072000000000000⟩ ⟨0x161401484a000001, 0x3040000000084595⟩ 0x20 = .ok (false, 0x20) := by rfl
example : bid128_signaling_greater_equal ⟨0, 0x7c00000000000000⟩ ⟨1, 0x3040000000000000⟩ 0x20 = .ok (false, 0x21) := by rfl
example : bid128_signaling_greater_equal ⟨1, 0x3040000000000000⟩ ⟨0, 0xfe00000000000000⟩ 0x20 = .ok (false, 0x21) := by rfl

/-- `bid128_signaling_greater_unordered` is the skeleton with the parameters `S_greater_unordered` -/
theorem signaling_greater_unordered_unfold (x y : U128) (f : UInt32) :
    bid128_signaling_greater_unordered x y f = sigWrap true (body S_greater_unordered) x y f := by
  unfold_cmp bid128_signaling_greater_unordered S_greater_unordered T_greater_unordered

/-- **`bid128_signaling_greater_unordered`, all pairs of 128-bit patterns, every incoming status word**: the result is `x > y` or unordered for the
decoded operands (`tb_greater_unordered (cmpD dx dy)`), the outgoing status word is the incoming one with `invalid` or-ed in iff an operand is a NaN (quiet or signalling);
never panics. -/
theorem signaling_greater_unordered_spec (x y : U128) (f : UInt32) :
    bid128_signaling_greater_unordered x y f =
      .ok (tb_greater_unordered (cmpD (decode (bitsOf x)) (decode (bitsOf y))), flagsOutS f (decode (bitsOf x)) (decode (bitsOf y))) := by
  rw [signaling_greater_unordered_unfold, sigWrap_spec S_greater_unordered want_greater_unordered true S_greater_unordered_ok T_greater_unordered_ok, tb_greater_unordered_eq]

/-- in the judge's vocabulary (`cmpPred false "greater_unordered"`) -/
theorem signaling_greater_unordered_table (x y : U128) (f : UInt32) :
    ∃ b, bid128_signaling_greater_unordered x y f = .ok (b, f ||| UInt32.ofNat (signalingCmpFlags (decode (bitsOf x)) (decode (bitsOf y)))) ∧
      predTable "greater_unordered" (cmpD (decode (bitsOf x)) (decode (bitsOf y))) = some b :=
  ⟨_, signaling_greater_unordered_spec x y f, rfl⟩

-- 2^64 × 10^1 against 5 (the word-wise short cut does not fire), −1.0 against −1, 1 × 10^25 against 10^25 + 1, a quiet NaN, a signalling NaN
example : bid128_signaling_greater_unordered ⟨0, 0x3042000000000001⟩ ⟨5, 0x3040000000000000⟩ 0x20 = .ok (true, 0x20) := by rfl
example : bid128_signaling_greater_unordered ⟨10, 0xb03e000000000000⟩ ⟨1, 0xb040000000000000⟩ 0x20 = .ok (false, 0x20) := by rfl
example : bid128_signaling_greater_unordered ⟨1, 0x3072000000000000⟩ ⟨0x161401484a000001, 0x3040000000084595⟩ 0x20 = .ok (false, 0x20) := by rfl
example : bid128_signaling_greater_unordered ⟨0, 0x7c00000000000000⟩ ⟨1, 0x3040000000000000⟩ 0x20 = .ok (true, 0x21) := by rfl
example : bid128_signaling_greater_unordered ⟨1, 0x3040000000000000⟩ ⟨0, 0xfe00000000000000⟩ 0x20 = .ok (true, 0x21) := by rfl

/-- `bid128_signaling_less` is the skeleton with the parameters `S_less` -/
theorem signaling_less_unfold (x y : U128) (f : UInt32) :
    bid128_signaling_less x y f = sigWrap false (body S_less) x y f := by
  unfold_cmp bid128_signaling_less S_less T_less

/-- **`bid128_signaling_less`, all pairs of 128-bit patterns, every incoming status word**: the result is `x < y` for the
decoded operands (`tb_less (cmpD dx dy)`), the outgoing status word is the incoming one with `invalid` or-ed in iff an operand is a NaN (quiet or signalling);
never panics. -/
theorem signaling_less_spec (x y : U128) (f : UInt32) :
    bid128_signaling_less x y f =
      .ok (tb_less (cmpD (decode (bitsOf x)) (decode (bitsOf y))), flagsOutS f (decode (bitsOf x)) (decode (bitsOf y))) := by
  rw [signaling_less_unfold, sigWrap_spec S_less want_less false S_less_ok T_less_ok, tb_less_eq]

/-- in the judge's vocabulary (`cmpPred false "less"`) -/
theorem signaling_less_table (x y : U128) (f : UInt32) :
    ∃ b, bid128_signaling_less x y f = .ok (b, f ||| UInt32.ofNat (signalingCmpFlags (decode (bitsOf x)) (decode (bitsOf y)))) ∧
      predTable "less" (cmpD (decode (bitsOf x)) (decode (bitsOf y))) = some b :=
  ⟨_, signaling_less_spec x y f, rfl⟩

-- 2^64 × 10^1 against 5 (the word-wise short cut does not fire), −1.0 against −1, 1 × 10^25 against 10^25 + 1, a quiet NaN, a signalling NaN
example : bid128_signaling_less ⟨0, 0x3042000000000001⟩ ⟨5, 0x3040000000000000⟩ 0x20 = .ok (false, 0x20) := by rfl
example : bid128_signaling_less ⟨10, 0xb03e000000000000⟩ ⟨1, 0xb040000000000000⟩ 0x20 = .ok (false, 0x20) := by rfl
example : bid128_signaling_less ⟨1, 0x3072000000000000⟩ ⟨0x161401484a000001, 0x3040000000084595⟩ 0x20 = .ok (true, 0x20) := by rfl
example : bid128_signaling_less ⟨0, 0x7c00000000000000⟩ ⟨1, 0x3040000000000000⟩ 0x20 = .ok (false, 0x21) := by rfl
example : bid128_signaling_less ⟨1, 0x3040000000000000⟩ ⟨0, 0xfe00000000000000⟩ 0x20 = .ok (false, 0x21) := by rfl

/-- `bid128_signaling_less_equal` is the skeleton with the parameters `S_less_equal` -/
theorem signaling_less_equal_unfold (x y : U128) (f : UInt32) :
    bid128_signaling_less_equal x y f = sigWrap false (body S_less_equal) x y f := by
  unfold_cmp bid128_signaling_less_equal S_less_equal T_less_equal

/-- **`bid128_signaling_less_equal`, all pairs of 128-bit patterns, every incoming status word**: the result is `x ≤ y` for the
decoded operands (`tb_less_equal (cmpD dx dy)`), the outgoing status word is the incoming one with `invalid` or-ed in iff an operand is a NaN (quiet or signalling);
never panics. -/
theorem signaling_less_equal_spec (x y : U128) (f : UInt32) :
    bid128_signaling_less_equal x y f =
      .ok (tb_less_equal (cmpD (decode (bitsOf x)) (decode (bitsOf y))), flagsOutS f (decode (bitsOf x)) (decode (bitsOf y))) := by
  rw [signaling_less_equal_unfold, sigWrap_spec S_less_equal want_less_equal false S_less_equal_ok T_less_equal_ok, tb_less_equal_eq]

/-- in the judge's vocabulary (`cmpPred false "less_equal"`) -/
theorem signaling_less_equal_table (x y : U128) (f : UInt32) :
    ∃ b, bid128_signaling_less_equal x y f = .ok (b, f ||| UInt32.ofNat (signalingCmpFlags (decode (bitsOf x)) (decode (bitsOf y)))) ∧
      predTable "less_equal" (cmpD (decode (bitsOf x)) (decode (bitsOf y))) = some b :=
  ⟨_, signaling_less_equal_spec x y f, rfl⟩

-- 2^64 × 10^1 against 5 (the word-wise short cut does not fire), −1.0 against −1, 1 × 10^25 against 10^25 + 1, a quiet NaN, a signalling NaN
example : bid128_signaling_less_equal ⟨0, 0x3042000000000001⟩ ⟨5, 0x3040000000000000⟩ 0x20 = .ok (false, 0x20) := by rfl
example : bid128_signaling_less_equal ⟨10, 0xb03e000000000000⟩ ⟨1, 0xb040000000000000⟩ 0x20 = .ok (true, 0x20) := by rfl
example : bid128_signaling_less_equal ⟨1, 0x3072000000000000⟩ ⟨0x161401484a000001, 0x3040000000084595⟩ 0x20 = .ok (true, 0x20) := by rfl
example : bid128_signaling_less_equal ⟨0, 0x7c00000000000000⟩ ⟨1, 0x3040000000000000⟩ 0x20 = .ok (false, 0x21) := by rfl
example : bid128_signaling_less_equal ⟨1, 0x3040000000000000⟩ ⟨0, 0xfe00000000000000⟩ 0x20 = .ok (false, 0x21) := by rfl

/-- `bid128_signaling_less_unordered` is the skeleton with the parameters `S_less_unordered` -/
theorem signaling_less_unordered_unfold (x y : U128) (f : UInt32) :
    bid128_signaling_less_unordered x y f = sigWrap true (body S_less_unordered) x y f := by
  unfold_cmp bid128_signaling_less_unordered S_less_unordered T_less_unordered

/-- **`bid128_signaling_less_unordered`, all pairs of 128-bit patterns, every incoming status word**: the result is `x < y` or unordered for the
decoded operands (`tb_less_unordered (cmpD dx dy)`), the outgoing status word is the incoming one with `invalid` or-ed in iff an operand is a NaN (quiet or signalling);
never panics. -/
theorem signaling_less_unordered_spec (x y : U128) (f : UInt32) :
    bid128_signaling_less_unordered x y f =
      .ok (tb_less_unordered (cmpD (decode (bitsOf x)) (decode (bitsOf y))), flagsOutS f (decode (bitsOf x)) (decode (bitsOf y))) := by
  rw [signaling_less_unordered_unfold, sigWrap_spec S_less_unordered want_less_unordered true S_less_unordered_ok T_less_unordered_ok, tb_less_unordered_eq]

/-- in the judge's vocabulary (`cmpPred false "less_unordered"`) -/
theorem signaling_less_unordered_table (x y : U128) (f : UInt32) :
    ∃ b, bid128_signaling_less_unordered x y f = .ok (b, f ||| UInt32.ofNat (signalingCmpFlags (decode (bitsOf x)) (decode (bitsOf y)))) ∧
      predTable "less_unordered" (cmpD (decode (bitsOf x)) (decode (bitsOf y))) = some b :=
  ⟨_, signaling_less_unordered_spec x y f, rfl⟩

-- 2^64 × 10^1 against 5 (the word-wise short cut does not fire), −1.0 against −1, 1 × 10^25 against 10^25 + 1, a quiet NaN, a signalling NaN
example : bid128_signaling_less_unordered ⟨0, 0x3042000000000001⟩ ⟨5, 0x3040000000000000⟩ 0x20 = .ok (false, 0x20) := by rfl
example : bid128_signaling_less_unordered ⟨10, 0xb03e000000000000⟩ ⟨1, 0xb040000000000000⟩ 0x20 = .ok (false, 0x20) := by rfl
example : bid128_signaling_less_unordered ⟨1, 0x3072000000000000⟩ ⟨0x161401484a000001, 0x3040000000084595⟩ 0x20 = .ok (true, 0x20) := by rfl
example : bid128_signaling_less_unordered ⟨0, 0x7c00000000000000⟩ ⟨1, 0x3040000000000000⟩ 0x20 = .ok (true, 0x21) := by rfl
example : bid128_signaling_less_unordered ⟨1, 0x3040000000000000⟩ ⟨0, 0xfe00000000000000⟩ 0x20 = .ok (true, 0x21) := by rfl

/-- `bid128_signaling_not_greater` is the skeleton with the parameters `S_not_greater` -/
theorem signaling_not_greater_unfold (x y : U128) (f : UInt32) :
    bid128_signaling_not_greater x y f = sigWrap true (body S_not_greater) x y f := by
  unfold_cmp bid128_signaling_not_greater S_not_greater T_not_greater

/-- **`bid128_signaling_not_greater`, all pairs of 128-bit patterns, every incoming status word**: the result is not `x > y` (true when unordered) for the
decoded operands (`tb_not_greater (cmpD dx dy)`), the outgoing status word is the incoming one with `invalid` or-ed in iff an operand is a NaN (quiet or signalling);
never panics. -/
theorem signaling_not_greater_spec (x y : U128) (f : UInt32) :
    bid128_signaling_not_greater x y f =
      .ok (tb_not_greater (cmpD (decode (bitsOf x)) (decode (bitsOf y))), flagsOutS f (decode (bitsOf x)) (decode (bitsOf y))) := by
  rw [signaling_not_greater_unfold, sigWrap_spec S_not_greater want_not_greater true S_not_greater_ok T_not_greater_ok, tb_not_greater_eq]

/-- in the judge's vocabulary (`cmpPred false "not_greater"`) -/
theorem signaling_not_greater_table (x y : U128) (f : UInt32) :
    ∃ b, bid128_signaling_not_greater x y f = .ok (b, f ||| UInt32.ofNat (signalingCmpFlags (decode (bitsOf x)) (decode (bitsOf y)))) ∧
      predTable "not_greater" (cmpD (decode (bitsOf x)) (decode (bitsOf y))) = some b :=
  ⟨_, signaling_not_greater_spec x y f, rfl⟩

-- 2^64 × 10^1 against 5 (the word-wise short cut does not fire), −1.0 against −1, 1 × 10^25 against 10^25 + 1, a quiet NaN, a signalling NaN
example : bid128_signaling_not_greater ⟨0, 0x3042000000000001⟩ ⟨5, 0x3040000000000000⟩ 0x20 = .ok (false, 0x20) := by rfl
example : bid128_signaling_not_greater ⟨10, 0xb03e000000000000⟩ ⟨1, 0xb040000000000000⟩ 0x20 = .ok (true, 0x20) := by rfl
example : bid128_signaling_not_greater ⟨1, 0x3072000000000000⟩ ⟨0x161401484a000001, 0x3040000000084595⟩ 0x20 = .ok (true, 0x20) := by rfl
example : bid128_signaling_not_greater ⟨0, 0x7c00000000000000⟩ ⟨1, 0x3040000000000000⟩ 0x20 = .ok (true, 0x21) := by rfl
example : bid128_signaling_not_greater ⟨1, 0x3040000000000000⟩ ⟨0, 0xfe00000000000000⟩ 0x20 = .ok (true, 0x21) := by rfl

/-- `bid128_signaling_not_less` is the skeleton with the parameters `S_not_less` -/
theorem signaling_not_less_unfold (x y : U128) (f : UInt32) :
    bid128_signaling_not_less x y f = sigWrap true (body S_not_less) x y f := by
  unfold_cmp bid128_signaling_not_less S_not_less T_not_less

/-- **`bid128_signaling_not_less`, all pairs of 128-bit patterns, every incoming status word**: the result is not `x < y` (true when unordered) for the
decoded operands (`tb_not_less (cmpD dx dy)`), the outgoing status word is the incoming one with `invalid` or-ed in iff an operand is a NaN (quiet or signalling);
never panics. -/
theorem signaling_not_less_spec (x y : U128) (f : UInt32) :
    bid128_signaling_not_less x y f =
      .ok (tb_not_less (cmpD (decode (bitsOf x)) (decode (bitsOf y))), flagsOutS f (decode (bitsOf x)) (decode (bitsOf y))) := by
  rw [signaling_not_less_unfold, sigWrap_spec S_not_less want_not_less true S_not_less_ok T_not_less_ok, tb_not_less_eq]

/-- in the judge's vocabulary (`cmpPred false "not_less"`) -/
theorem signaling_not_less_table (x y : U128) (f : UInt32) :
    ∃ b, bid128_signaling_not_less x y f = .ok (b, f ||| UInt32.ofNat (signalingCmpFlags (decode (bitsOf x)) (decode (bitsOf y)))) ∧
      predTable "not_less" (cmpD (decode (bitsOf x)) (decode (bitsOf y))) = some b :=
  ⟨_, signaling_not_less_spec x y f, rfl⟩

-- 2^64 × 10^1 against 5 (the word-wise short cut does not fire), −1.0 against −1, 1 × 10^25 against 10^25 + 1, a quiet NaN, a signalling NaN
example : bid128_signaling_not_less ⟨0, 0x3042000000000001⟩ ⟨5, 0x3040000000000000⟩ 0x20 = .ok (true, 0x20) := by rfl
example : bid128_signaling_not_less ⟨10, 0xb03e000000000000⟩ ⟨1, 0xb040000000000000⟩ 0x20 = .ok (true, 0x20) := by rfl
example : bid128_signaling_not_less ⟨1, 0x3072000000000000⟩ ⟨0x161401484a000001, 0x3040000000084595⟩ 0x20 = .ok (false, 0x20) := by rfl
example : bid128_signaling_not_less ⟨0, 0x7c00000000000000⟩ ⟨1, 0x3040000000000000⟩ 0x20 = .ok (true, 0x21) := by rfl
example : bid128_signaling_not_less ⟨1, 0x3040000000000000⟩ ⟨0, 0xfe00000000000000⟩ 0x20 = .ok (true, 0x21) := by rfl


/-! ### cross-checks -/

/-- `bid128_quiet_greater` (proved in `C03GenCompare` by hand) is the same skeleton with the parameters used for
`bid128_signaling_greater` -/
theorem quiet_greater_unfold (x y : U128) (f : UInt32) :
    bid128_quiet_greater x y f = quietWrap false (body S_greater) x y f := by
  unfold_cmp bid128_quiet_greater S_greater T_greater

-- the finite checks are not vacuous: a wrong entry in a copy's parameters is rejected
example : ¬ ShapeOK { S_less with zz := true } want_less := by decide
example : ¬ SignOK { T_less with fb192 := fun c nx ny => c != !ny } want_less true := by decide
example : ¬ SignOK T_less want_less false := by decide
example : ¬ ShapeOK S_less want_less_equal := by decide

end Dec.C03GenCompare2
