/-
  C05 (generated code) — the digit-splitting helpers of /repo/src/bid128_2_str_macros.rs as machine-translated into
  `DecGen/Code3.lean` (`Dec.Gen.Code3.l0_split_midi_2`, `l0_split_midi_3`, `l1_split_midi_6`, `l1_split_midi_6_lead`)
  and `DecGen/Code.lean` (`Dec.Gen.Code.l0_normalize_10to18`).  All theorems are about the TRANSLATED definitions
  (wrapping `UInt32`/`UInt64` arithmetic, masked shifts), for all inputs of the stated domain; none returns `.error`.

  Proved (axioms: propext, Classical.choice, Quot.sound only):
   1. `l0_split_midi_2_spec`       x < 10^6  : pushes  x/1000, x%1000
   2. `l0_split_midi_3_spec`       x < 10^9  : pushes  x/10^6, x/1000%1000, x%1000
   3. `l1_split_midi_6_spec`       x < 10^18 : pushes the six groups of three digits, most significant first
   4. `l1_split_midi_6_lead_spec`  x < 10^18 : pushes `leadGroups x` = the groups without leading all-zero groups
                                               (at least one group; `[x]` for x < 1000) — `leadGroups` is defined below
                                               by cases on the magnitude of x
   5. `l0_normalize_10to18_spec`   lo < 2·10^18, hi + 1 < 2^64 : result is (hi+1, lo − 10^18) if lo ≥ 10^18, else (hi, lo)
   6. bridges to the hand model of `DecModel/Format.lean`:
        `l0_split_midi_2_model`, `l0_split_midi_3_model`  — for EVERY x (no domain hypothesis) the translated code
            computes `Dec.Fmt.splitMidi2` / `splitMidi3` (the model has the same wrapping semantics);
        `l1_split_midi_6_model`, `l0_normalize_10to18_model` — on the domain, = `splitMidi6` / `normalize10to18`;
        `splitMidi6_eq` — the closed form of the model `splitMidi6` (was missing in `C05Format`).
   7. `example`s: direct kernel evaluation of the translated definitions on concrete values, and the theorems
      instantiated.

  Structure: each `if`-with-join-point of the translation is captured by a small continuation-passing definition
  (`redK`, `hdK`, `sp9K`) so that `translated function = …K …` holds by `rfl`; the pair-valued twins (`red`, `hd`,
  `sp9`) are connected to the Nat-level facts of `C05Format` (`reduce1000_eq`, `head1e6_eq`, `est1e9`, `e1b`,
  `divmod_of_est`, `and_field`).  NB (kernel performance): never let the kernel reduce an `if` whose condition
  compares an open term with a big literal — all `if`s here are resolved by `rw [if_pos/if_neg]`.

  NOT proved here (left out rather than `sorry`): a bridge `l1_split_midi_6_lead = splitMidi6Lead` to the hand model
  (the code-level closed form 4 is proved; the model-level closed form of `splitMidi6Lead` is not in `C05Format`).
-/
import DecGen.Code3
import DecModel.Format
import DecProofs.Properties.C05Format
set_option linter.unusedSimpArgs false
set_option linter.unusedVariables false
namespace Dec.C05GenMidi
open Dec.Rs Dec.Gen.Code Dec.Gen.Code3 Dec.Fmt Dec.C05Format

theorem u64_eq_ofNat {a : UInt64} {n : Nat} (h : a.toNat = n) : a = UInt64.ofNat n := by
  apply UInt64.toNat_inj.mp
  rw [UInt64.toNat_ofNat', ← h, Nat.mod_eq_of_lt a.toNat_lt]
theorem u32_eq_ofNat {a : UInt32} {n : Nat} (h : a.toNat = n) : a = UInt32.ofNat n := by
  apply UInt32.toNat_inj.mp
  rw [UInt32.toNat_ofNat', ← h, Nat.mod_eq_of_lt a.toNat_lt]
theorem m1 : (1 : UInt64).toNat = 1 := by decide

theorem add32_toNat (a b : UInt32) : (a + b).toNat = add32 a.toNat b.toNat := by
  rw [UInt32.toNat_add]; rfl
theorem sub32_toNat (a b : UInt32) : (a - b).toNat = sub32 a.toNat b.toNat := by
  rw [UInt32.toNat_sub]; unfold sub32; have := b.toNat_lt; omega
theorem mul32_toNat (a b : UInt32) : (a * b).toNat = mul32 a.toNat b.toNat := by
  rw [UInt32.toNat_mul]; rfl
theorem shl32_toNat5 (a : UInt32) : (a <<< (5 : UInt32)).toNat = shl32 a.toNat 5 := by
  rw [UInt32.toNat_shiftLeft]; rfl
theorem shl32_toNat3 (a : UInt32) : (a <<< (3 : UInt32)).toNat = shl32 a.toNat 3 := by
  rw [UInt32.toNat_shiftLeft]; rfl
theorem shr32_toNat10 (a : UInt32) : (a >>> (10 : UInt32)).toNat = a.toNat >>> 10 := by
  rw [UInt32.toNat_shiftRight]; rfl
theorem shr32_toNat17 (a : UInt32) : (a >>> (17 : UInt32)).toNat = a.toNat >>> 17 := by
  rw [UInt32.toNat_shiftRight]; rfl
theorem shr32_toNat18 (a : UInt32) : (a >>> (18 : UInt32)).toNat = a.toNat >>> 18 := by
  rw [UInt32.toNat_shiftRight]; rfl
theorem and32_toNat3ff (a : UInt32) : (a &&& (1023 : UInt32)).toNat = a.toNat &&& 0x03FF := by
  rw [UInt32.toNat_and]; rfl

/-! ### 1. `__l0_split_midi_2` -/

/-- the reduction idiom (lines 31–40 / 56–65) on `UInt32`: `(l0_head, l0_tail)` -/
def red (x : UInt32) : UInt32 × UInt32 :=
  let h0 : UInt32 := x >>> (10 : UInt32)
  let t0 : UInt32 := (x &&& (1023 : UInt32)) + h0 <<< (5 : UInt32) - h0 <<< (3 : UInt32)
  let tmp : UInt32 := t0 >>> (10 : UInt32)
  let h1 : UInt32 := h0 + tmp
  let t1 : UInt32 := (t0 &&& (1023 : UInt32)) + tmp <<< (5 : UInt32) - tmp <<< (3 : UInt32)
  if t1 > (999 : UInt32) then (h1 + 1, t1 - 1000) else (h1, t1)

theorem n999 : (999 : UInt32).toNat = 999 := by decide
theorem n1000 : (1000 : UInt32).toNat = 1000 := by decide
theorem n1 : (1 : UInt32).toNat = 1 := by decide

theorem red_model (x : UInt32) : ((red x).1.toNat, (red x).2.toNat) = reduce1000 x.toNat := by
  unfold red reduce1000
  simp only [UInt32.lt_iff_toNat_lt, GT.gt, add32_toNat, sub32_toNat, shl32_toNat5, shl32_toNat3, shr32_toNat10,
    and32_toNat3ff, n999]
  split
  · rename_i h
    simp only [add32_toNat, sub32_toNat, shl32_toNat5, shl32_toNat3, shr32_toNat10, and32_toNat3ff, n1000, n1]
  · rename_i h
    simp only [add32_toNat, sub32_toNat, shl32_toNat5, shl32_toNat3, shr32_toNat10, and32_toNat3ff]


theorem red_spec (x : UInt32) (hx : x.toNat < 1000000) :
    red x = (UInt32.ofNat (x.toNat / 1000), UInt32.ofNat (x.toNat % 1000)) := by
  have h := red_model x
  rw [reduce1000_eq _ hx] at h
  obtain ⟨h1, h2⟩ := Prod.mk.inj h
  rw [← u32_eq_ofNat h1, ← u32_eq_ofNat h2]


/-- the reduction idiom with a continuation (the join point of the translated `if`) -/
def redK {α : Type} (x : UInt32) (k : UInt32 → UInt32 → α) : α :=
  let h0 : UInt32 := x >>> (10 : UInt32)
  let t0 : UInt32 := (x &&& (1023 : UInt32)) + h0 <<< (5 : UInt32) - h0 <<< (3 : UInt32)
  let tmp : UInt32 := t0 >>> (10 : UInt32)
  let h1 : UInt32 := h0 + tmp
  let t1 : UInt32 := (t0 &&& (1023 : UInt32)) + tmp <<< (5 : UInt32) - tmp <<< (3 : UInt32)
  if decide (t1 > (999 : UInt32)) = true then k (h1 + 1) (t1 - 1000) else k h1 t1

theorem ite_k {α : Type} (c : Prop) [Decidable c] (k : UInt32 → UInt32 → α) (a b a' b' : UInt32) :
    (if decide c = true then k a b else k a' b') =
      k (if c then (a, b) else (a', b')).1 (if c then (a, b) else (a', b')).2 := by
  by_cases h : c
  · rw [if_pos h, if_pos (decide_eq_true h)]
  · rw [if_neg h, if_neg (by rw [decide_eq_true_eq]; exact h)]

theorem redK_red {α : Type} (x : UInt32) (k : UInt32 → UInt32 → α) : redK x k = k (red x).1 (red x).2 :=
  ite_k _ k _ _ _ _

theorem redK_spec {α : Type} (x : UInt32) (hx : x.toNat < 1000000) (k : UInt32 → UInt32 → α) :
    redK x k = k (UInt32.ofNat (x.toNat / 1000)) (UInt32.ofNat (x.toNat % 1000)) := by
  rw [redK_red, red_spec x hx]

theorem l0_split_midi_2_redK (x : UInt32) (vec : List UInt32) :
    l0_split_midi_2 x vec = redK x (fun h t => .ok (vec ++ [h] ++ [t])) := rfl

theorem l0_split_midi_2_spec (x : UInt32) (hx : x.toNat < 1000000) (vec : List UInt32) :
    l0_split_midi_2 x vec = .ok (vec ++ [UInt32.ofNat (x.toNat / 1000), UInt32.ofNat (x.toNat % 1000)]) := by
  rw [l0_split_midi_2_redK, redK_spec x hx]
  simp only [List.append_assoc, List.cons_append, List.nil_append]

/-! ### 2. `__l0_split_midi_3` -/

/-- lines 47–54 of `__l0_split_midi_3` on `UInt32` -/
def hd (x : UInt32) : UInt32 × UInt32 :=
  let h : UInt32 := ((x >>> (17 : UInt32)) * (34359 : UInt32)) >>> (18 : UInt32)
  let y : UInt32 := x - h * (1000000 : UInt32)
  if y ≥ (1000000 : UInt32) then (h + 1, y - 1000000) else (h, y)

theorem n34359 : (34359 : UInt32).toNat = 34359 := by decide
theorem n1000000 : (1000000 : UInt32).toNat = 1000000 := by decide

theorem hd_model (x : UInt32) : ((hd x).1.toNat, (hd x).2.toNat) = head1e6 x.toNat := by
  unfold hd head1e6
  simp only [UInt32.le_iff_toNat_le, GE.ge, add32_toNat, sub32_toNat, mul32_toNat, shr32_toNat17, shr32_toNat18,
    n34359, n1000000]
  split
  · simp only [add32_toNat, sub32_toNat, mul32_toNat, shr32_toNat17, shr32_toNat18, n34359, n1000000, n1]
  · simp only [add32_toNat, sub32_toNat, mul32_toNat, shr32_toNat17, shr32_toNat18, n34359, n1000000, n1]


theorem hd_spec (x : UInt32) (hx : x.toNat < 1000000000) :
    hd x = (UInt32.ofNat (x.toNat / 1000000), UInt32.ofNat (x.toNat % 1000000)) := by
  have h := hd_model x
  rw [head1e6_eq _ hx] at h
  obtain ⟨h1, h2⟩ := Prod.mk.inj h
  exact Prod.ext (u32_eq_ofNat h1) (u32_eq_ofNat h2)

def hdK {α : Type} (x : UInt32) (k : UInt32 → UInt32 → α) : α :=
  let h : UInt32 := ((x >>> (17 : UInt32)) * (34359 : UInt32)) >>> (18 : UInt32)
  let y : UInt32 := x - h * (1000000 : UInt32)
  if decide (y ≥ (1000000 : UInt32)) = true then k (h + 1) (y - 1000000) else k h y

theorem hdK_hd {α : Type} (x : UInt32) (k : UInt32 → UInt32 → α) : hdK x k = k (hd x).1 (hd x).2 :=
  ite_k _ k _ _ _ _

theorem hdK_spec {α : Type} (x : UInt32) (hx : x.toNat < 1000000000) (k : UInt32 → UInt32 → α) :
    hdK x k = k (UInt32.ofNat (x.toNat / 1000000)) (UInt32.ofNat (x.toNat % 1000000)) := by
  rw [hdK_hd, hd_spec x hx]

theorem l0_split_midi_3_K (x : UInt32) (vec : List UInt32) :
    l0_split_midi_3 x vec = hdK x (fun h y => redK y (fun m t => .ok (vec ++ [h] ++ [m] ++ [t]))) := rfl

theorem l0_split_midi_3_spec (x : UInt32) (hx : x.toNat < 1000000000) (vec : List UInt32) :
    l0_split_midi_3 x vec = .ok (vec ++ [UInt32.ofNat (x.toNat / 1000000), UInt32.ofNat (x.toNat / 1000 % 1000),
      UInt32.ofNat (x.toNat % 1000)]) := by
  rw [l0_split_midi_3_K, hdK_spec x hx]
  have hy : (UInt32.ofNat (x.toNat % 1000000)).toNat = x.toNat % 1000000 := by
    rw [UInt32.toNat_ofNat']; omega
  rw [redK_spec _ (by rw [hy]; omega), hy]
  have e1 : x.toNat % 1000000 / 1000 = x.toNat / 1000 % 1000 := by omega
  have e2 : x.toNat % 1000000 % 1000 = x.toNat % 1000 := by omega
  rw [e1, e2]
  simp only [List.append_assoc, List.cons_append, List.nil_append]

/-! ### 5. `__l0_normalize_10to18` -/

theorem cT60 : c_BID_TWOTO60.toNat = (2 ^ 1 - 1) * 2 ^ 60 := by decide
theorem cM : c_BID_TWOTO60_M_10TO18.toNat = 152921504606846976 := by decide
theorem m4 : (4 : UInt64).toNat % 64 = 4 := by decide

theorem norm_cond (lo : UInt64) (hlo : lo.toNat < 2 * 10 ^ 18) :
    ((lo + c_BID_TWOTO60_M_10TO18) &&& c_BID_TWOTO60 == c_BID_TWOTO60) = true ↔ lo.toNat ≥ 10 ^ 18 := by
  rw [beq_iff_eq, ← UInt64.toNat_inj, UInt64.toNat_and, UInt64.toNat_add, cT60, cM, and_field]
  omega

theorem l0_normalize_10to18_spec (hi lo : UInt64) (hlo : lo.toNat < 2 * 10 ^ 18) (hhi : hi.toNat + 1 < 2 ^ 64) :
    l0_normalize_10to18 hi lo =
      .ok (if lo.toNat ≥ 10 ^ 18 then (hi + 1, UInt64.ofNat (lo.toNat - 10 ^ 18)) else (hi, lo)) := by
  unfold l0_normalize_10to18
  simp only [bind, Except.bind, pure, Except.pure]
  by_cases h : lo.toNat ≥ 10 ^ 18
  · rw [if_pos ((norm_cond lo hlo).mpr h), if_pos h]
    have e : (lo + c_BID_TWOTO60_M_10TO18) <<< 4 >>> 4 = UInt64.ofNat (lo.toNat - 10 ^ 18) := by
      apply u64_eq_ofNat
      rw [UInt64.toNat_shiftRight, UInt64.toNat_shiftLeft, UInt64.toNat_add, cM, m4, Nat.shiftLeft_eq,
        Nat.shiftRight_eq_div_pow]
      omega
    rw [e]
  · rw [if_neg (fun hc => h ((norm_cond lo hlo).mp hc)), if_neg h]

/-! ### 3, 4. `__l1_split_midi_6`, `__l1_split_midi_6_lead` -/

theorem u64_ofInt_nat (n : Nat) : (UInt64.ofInt (n : Int)).toNat = n % 2^64 := by
  unfold UInt64.ofInt
  rw [UInt64.toNat_ofNat']
  have : ((n : Int) % 2^64).toNat = n % 2^64 := by omega
  rw [this]; omega

theorem u32_ofInt_nat (n : Nat) : (UInt32.ofInt (n : Int)).toNat = n % 2^32 := by
  unfold UInt32.ofInt
  rw [UInt32.toNat_ofNat']
  have : ((n : Int) % 2^32).toNat = n % 2^32 := by omega
  rw [this]; omega

theorem toI_u64 (x : UInt64) : toI x = (x.toNat : Int) := rfl
theorem toI_u32 (x : UInt32) : toI x = (x.toNat : Int) := rfl

theorem cT9 : (UInt64.ofInt (toI c_BID_TENTO9)).toNat = 1000000000 := by decide
theorem cInv : (UInt64.ofInt (toI c_BID_INV_TENTO9)).toNat = 2305843009 := by decide
theorem m28 : (28 : UInt64).toNat % 64 = 28 := by decide
theorem m33 : (33 : UInt64).toNat % 64 = 33 := by decide

/-- lines 73–82 / 95–104 on `UInt64` -/
def sp9 (x : UInt64) : UInt64 × UInt64 :=
  let h : UInt64 := ((x >>> (28 : UInt64)) * (UInt64.ofInt (toI c_BID_INV_TENTO9))) >>> (33 : UInt64)
  let l : UInt64 := x - h * (UInt64.ofInt (toI c_BID_TENTO9))
  if l ≥ (UInt64.ofInt (toI c_BID_TENTO9)) then (h + 1, l - (UInt64.ofInt (toI c_BID_TENTO9))) else (h, l)

def sp9K {α : Type} (x : UInt64) (k : UInt64 → UInt64 → α) : α :=
  let h : UInt64 := ((x >>> (28 : UInt64)) * (UInt64.ofInt (toI c_BID_INV_TENTO9))) >>> (33 : UInt64)
  let l : UInt64 := x - h * (UInt64.ofInt (toI c_BID_TENTO9))
  if decide (l ≥ (UInt64.ofInt (toI c_BID_TENTO9))) = true then k (h + 1) (l - (UInt64.ofInt (toI c_BID_TENTO9)))
  else k h l

theorem ite_k64 {α : Type} (c : Prop) [Decidable c] (k : UInt64 → UInt64 → α) (a b a' b' : UInt64) :
    (if decide c = true then k a b else k a' b') =
      k (if c then (a, b) else (a', b')).1 (if c then (a, b) else (a', b')).2 := by
  by_cases h : c
  · rw [if_pos h, if_pos (decide_eq_true h)]
  · rw [if_neg h, if_neg (by rw [decide_eq_true_eq]; exact h)]

theorem sp9K_sp9 {α : Type} (x : UInt64) (k : UInt64 → UInt64 → α) : sp9K x k = k (sp9 x).1 (sp9 x).2 :=
  ite_k64 _ k _ _ _ _

theorem sp9_spec (x : UInt64) (hx : x.toNat < 10 ^ 18) :
    sp9 x = (UInt64.ofNat (x.toNat / 1000000000), UInt64.ofNat (x.toNat % 1000000000)) := by
  have hx' : x.toNat < 1000000000000000000 := by omega
  obtain ⟨h1, h2⟩ := est1e9 x.toNat hx'
  have eh : (((x >>> (28 : UInt64)) * (UInt64.ofInt (toI c_BID_INV_TENTO9))) >>> (33 : UInt64)).toNat
      = x.toNat / 268435456 * 2305843009 / 8589934592 := by
    rw [UInt64.toNat_shiftRight, UInt64.toNat_mul, UInt64.toNat_shiftRight, m28, m33, cInv]
    exact e1b x.toNat hx'
  unfold sp9
  simp only []
  generalize (((x >>> (28 : UInt64)) * (UInt64.ofInt (toI c_BID_INV_TENTO9))) >>> (33 : UInt64)) = h at eh ⊢
  generalize x.toNat / 268435456 * 2305843009 / 8589934592 = E at *
  have el : (x - h * (UInt64.ofInt (toI c_BID_TENTO9))).toNat = x.toNat - E * 1000000000 := by
    rw [UInt64.toNat_sub, UInt64.toNat_mul, cT9, eh]
    omega
  generalize x - h * (UInt64.ofInt (toI c_BID_TENTO9)) = l at el ⊢
  obtain ⟨h3, h4⟩ := divmod_of_est x.toNat E 1000000000 h1 (by omega)
  by_cases hc : l ≥ (UInt64.ofInt (toI c_BID_TENTO9))
  · rw [if_pos hc]
    rw [GE.ge, UInt64.le_iff_toNat_le, cT9, el] at hc
    obtain ⟨h5, h6⟩ := h3 hc
    refine Prod.ext (u64_eq_ofNat ?_) (u64_eq_ofNat ?_)
    · show (h + 1).toNat = _
      rw [UInt64.toNat_add, m1, eh, h5]; omega
    · show (l - _).toNat = _
      rw [UInt64.toNat_sub, cT9, el, h6]; omega
  · rw [if_neg hc]
    rw [GE.ge, UInt64.le_iff_toNat_le, cT9, el] at hc
    obtain ⟨h5, h6⟩ := h4 hc
    refine Prod.ext (u64_eq_ofNat ?_) (u64_eq_ofNat ?_)
    · show h.toNat = _
      rw [eh, h5]
    · show l.toNat = _
      rw [el, h6]

theorem sp9K_spec {α : Type} (x : UInt64) (hx : x.toNat < 10 ^ 18) (k : UInt64 → UInt64 → α) :
    sp9K x k = k (UInt64.ofNat (x.toNat / 1000000000)) (UInt64.ofNat (x.toNat % 1000000000)) := by
  rw [sp9K_sp9, sp9_spec x hx]

theorem l1_split_midi_6_K (x : UInt64) (vec : List UInt32) :
    l1_split_midi_6 x vec = sp9K x (fun h l =>
      (l0_split_midi_3 (UInt32.ofInt (toI h)) vec).bind (fun t => 
        (l0_split_midi_3 (UInt32.ofInt (toI l)) t).bind (fun t2 => .ok t2))) := rfl


theorem l1_split_midi_6_lead_K (x : UInt64) (vec : List UInt32) :
    l1_split_midi_6_lead x vec =
      if decide (x ≥ (UInt64.ofInt (toI c_BID_TENTO9))) = true then
        sp9K x (fun h l =>
          if decide (UInt32.ofInt (toI h) ≥ c_BID_TENTO6) = true then
            (l0_split_midi_3 (UInt32.ofInt (toI h)) vec).bind (fun t1 =>
              (l0_split_midi_3 (UInt32.ofInt (toI l)) t1).bind (fun t2 => .ok t2))
          else if decide (UInt32.ofInt (toI h) ≥ c_BID_TENTO3) = true then
            (l0_split_midi_2 (UInt32.ofInt (toI h)) vec).bind (fun t3 =>
              (l0_split_midi_3 (UInt32.ofInt (toI l)) t3).bind (fun t4 => .ok t4))
          else
            (l0_split_midi_3 (UInt32.ofInt (toI l)) (vec ++ [UInt32.ofInt (toI h)])).bind (fun t5 => .ok t5))
      else
        if decide (UInt32.ofInt (toI x) ≥ c_BID_TENTO6) = true then
          (l0_split_midi_3 (UInt32.ofInt (toI x)) vec).bind (fun t6 => .ok t6)
        else if decide (UInt32.ofInt (toI x) ≥ c_BID_TENTO3) = true then
          (l0_split_midi_2 (UInt32.ofInt (toI x)) vec).bind (fun t7 => .ok t7)
        else .ok (vec ++ [UInt32.ofInt (toI x)]) := rfl


theorem cast32 (n : Nat) : UInt32.ofInt (toI (UInt64.ofNat n)) = UInt32.ofNat n := by
  apply UInt32.toNat_inj.mp
  rw [toI_u64, u32_ofInt_nat, UInt64.toNat_ofNat', UInt32.toNat_ofNat']; omega

theorem cast32' (x : UInt64) : UInt32.ofInt (toI x) = UInt32.ofNat x.toNat := by
  apply UInt32.toNat_inj.mp
  rw [toI_u64, u32_ofInt_nat, UInt32.toNat_ofNat']

theorem toNat_ofNat32 {n : Nat} (h : n < 2 ^ 32) : (UInt32.ofNat n).toNat = n := by
  rw [UInt32.toNat_ofNat']; omega

theorem bind_ok {α β : Type} (a : α) (f : α → Except String β) : (Except.ok a : Except String α).bind f = f a := rfl

/-- `l0_split_midi_3` on a number below `10^9` given as `UInt32.ofNat n` -/
theorem midi3_ofNat (n : Nat) (hn : n < 1000000000) (vec : List UInt32) :
    l0_split_midi_3 (UInt32.ofNat n) vec =
      .ok (vec ++ [UInt32.ofNat (n / 1000000), UInt32.ofNat (n / 1000 % 1000), UInt32.ofNat (n % 1000)]) := by
  have e : (UInt32.ofNat n).toNat = n := toNat_ofNat32 (by omega)
  rw [l0_split_midi_3_spec _ (by rw [e]; exact hn), e]

theorem midi2_ofNat (n : Nat) (hn : n < 1000000) (vec : List UInt32) :
    l0_split_midi_2 (UInt32.ofNat n) vec = .ok (vec ++ [UInt32.ofNat (n / 1000), UInt32.ofNat (n % 1000)]) := by
  have e : (UInt32.ofNat n).toNat = n := toNat_ofNat32 (by omega)
  rw [l0_split_midi_2_spec _ (by rw [e]; exact hn), e]

/-- **3.** `__l1_split_midi_6`: the six groups of three digits of `x < 10^18`, most significant first -/
theorem l1_split_midi_6_spec (x : UInt64) (hx : x.toNat < 10 ^ 18) (vec : List UInt32) :
    l1_split_midi_6 x vec = .ok (vec ++ [UInt32.ofNat (x.toNat / 1000000000000000),
      UInt32.ofNat (x.toNat / 1000000000000 % 1000), UInt32.ofNat (x.toNat / 1000000000 % 1000),
      UInt32.ofNat (x.toNat / 1000000 % 1000), UInt32.ofNat (x.toNat / 1000 % 1000),
      UInt32.ofNat (x.toNat % 1000)]) := by
  rw [l1_split_midi_6_K, sp9K_spec x hx]
  rw [cast32, cast32, midi3_ofNat _ (by omega), bind_ok, midi3_ofNat _ (by omega), bind_ok]
  have e1 : x.toNat / 1000000000 / 1000000 = x.toNat / 1000000000000000 := by omega
  have e2 : x.toNat / 1000000000 / 1000 % 1000 = x.toNat / 1000000000000 % 1000 := by omega
  have e3 : x.toNat % 1000000000 / 1000000 = x.toNat / 1000000 % 1000 := by omega
  have e4 : x.toNat % 1000000000 / 1000 % 1000 = x.toNat / 1000 % 1000 := by omega
  have e5 : x.toNat % 1000000000 % 1000 = x.toNat % 1000 := by omega
  rw [e1, e2, e3, e4, e5]
  simp only [List.append_assoc, List.cons_append, List.nil_append]


theorem c6 : c_BID_TENTO6.toNat = 1000000 := by decide
theorem c3 : c_BID_TENTO3.toNat = 1000 := by decide

theorem ge6 (n : Nat) (hn : n < 2 ^ 32) : (UInt32.ofNat n ≥ c_BID_TENTO6) ↔ n ≥ 1000000 := by
  rw [GE.ge, UInt32.le_iff_toNat_le, c6, toNat_ofNat32 hn]
theorem ge3 (n : Nat) (hn : n < 2 ^ 32) : (UInt32.ofNat n ≥ c_BID_TENTO3) ↔ n ≥ 1000 := by
  rw [GE.ge, UInt32.le_iff_toNat_le, c3, toNat_ofNat32 hn]
theorem ge9 (x : UInt64) : (x ≥ UInt64.ofInt (toI c_BID_TENTO9)) ↔ x.toNat ≥ 1000000000 := by
  rw [GE.ge, UInt64.le_iff_toNat_le, cT9]

theorem dpos {p : Prop} [Decidable p] (h : p) : (decide p = true) := decide_eq_true h
theorem dneg {p : Prop} [Decidable p] (h : ¬ p) : ¬ (decide p = true) := by
  rw [decide_eq_true_eq]; exact h

/-- the groups of three decimal digits of `x < 10^18`, most significant first, without leading all-zero groups
(at least one group: `[x]` for `x < 1000`) -/
def leadGroups (x : Nat) : List Nat :=
  if x < 1000 then [x]
  else if x < 1000000 then [x / 1000, x % 1000]
  else if x < 1000000000 then [x / 1000000, x / 1000 % 1000, x % 1000]
  else if x < 1000000000000 then [x / 1000000000, x / 1000000 % 1000, x / 1000 % 1000, x % 1000]
  else if x < 1000000000000000 then
    [x / 1000000000000, x / 1000000000 % 1000, x / 1000000 % 1000, x / 1000 % 1000, x % 1000]
  else
    [x / 1000000000000000, x / 1000000000000 % 1000, x / 1000000000 % 1000, x / 1000000 % 1000, x / 1000 % 1000,
      x % 1000]

/-- **4.** `__l1_split_midi_6_lead` -/
theorem l1_split_midi_6_lead_spec (x : UInt64) (hx : x.toNat < 10 ^ 18) (vec : List UInt32) :
    l1_split_midi_6_lead x vec = .ok (vec ++ (leadGroups x.toNat).map UInt32.ofNat) := by
  rw [l1_split_midi_6_lead_K]
  have e3 : x.toNat % 1000000000 / 1000000 = x.toNat / 1000000 % 1000 := by omega
  have e4 : x.toNat % 1000000000 / 1000 % 1000 = x.toNat / 1000 % 1000 := by omega
  have e5 : x.toNat % 1000000000 % 1000 = x.toNat % 1000 := by omega
  unfold leadGroups
  by_cases h9 : x.toNat ≥ 1000000000
  · rw [if_pos (dpos ((ge9 x).mpr h9)), sp9K_spec x hx, cast32, cast32]
    rw [if_neg (by omega : ¬ x.toNat < 1000), if_neg (by omega : ¬ x.toNat < 1000000),
      if_neg (by omega : ¬ x.toNat < 1000000000)]
    by_cases h15 : x.toNat ≥ 1000000000000000
    · rw [if_pos (dpos ((ge6 _ (by omega)).mpr (by omega)))]
      rw [midi3_ofNat _ (by omega), bind_ok, midi3_ofNat _ (by omega), bind_ok]
      rw [if_neg (by omega : ¬ x.toNat < 1000000000000), if_neg (by omega : ¬ x.toNat < 1000000000000000)]
      have e1 : x.toNat / 1000000000 / 1000000 = x.toNat / 1000000000000000 := by omega
      have e2 : x.toNat / 1000000000 / 1000 % 1000 = x.toNat / 1000000000000 % 1000 := by omega
      rw [e1, e2, e3, e4, e5]
      simp only [List.map_cons, List.map_nil, List.append_assoc, List.cons_append, List.nil_append]
    · rw [if_neg (dneg (fun h => h15 (by have := (ge6 _ (by omega)).mp h; omega)))]
      by_cases h12 : x.toNat ≥ 1000000000000
      · rw [if_pos (dpos ((ge3 _ (by omega)).mpr (by omega)))]
        rw [midi2_ofNat _ (by omega), bind_ok, midi3_ofNat _ (by omega), bind_ok]
        rw [if_neg (by omega : ¬ x.toNat < 1000000000000), if_pos (by omega : x.toNat < 1000000000000000)]
        have e1 : x.toNat / 1000000000 / 1000 = x.toNat / 1000000000000 := by omega
        rw [e1, e3, e4, e5]
        simp only [List.map_cons, List.map_nil, List.append_assoc, List.cons_append, List.nil_append]
      · rw [if_neg (dneg (fun h => h12 (by have := (ge3 _ (by omega)).mp h; omega)))]
        rw [midi3_ofNat _ (by omega), bind_ok]
        rw [if_pos (by omega : x.toNat < 1000000000000)]
        rw [e3, e4, e5]
        simp only [List.map_cons, List.map_nil, List.append_assoc, List.cons_append, List.nil_append]
  · rw [if_neg (dneg (fun h => h9 ((ge9 x).mp h))), cast32']
    by_cases h6 : x.toNat ≥ 1000000
    · rw [if_pos (dpos ((ge6 _ (by omega)).mpr h6))]
      rw [midi3_ofNat _ (by omega), bind_ok]
      rw [if_neg (by omega : ¬ x.toNat < 1000), if_neg (by omega : ¬ x.toNat < 1000000),
        if_pos (by omega : x.toNat < 1000000000)]
      simp only [List.map_cons, List.map_nil]
    · rw [if_neg (dneg (fun h => h6 ((ge6 _ (by omega)).mp h)))]
      by_cases h3 : x.toNat ≥ 1000
      · rw [if_pos (dpos ((ge3 _ (by omega)).mpr h3))]
        rw [midi2_ofNat _ (by omega), bind_ok]
        rw [if_neg (by omega : ¬ x.toNat < 1000), if_pos (by omega : x.toNat < 1000000)]
        simp only [List.map_cons, List.map_nil]
      · rw [if_neg (dneg (fun h => h3 ((ge3 _ (by omega)).mp h)))]
        rw [if_pos (by omega : x.toNat < 1000)]
        simp only [List.map_cons, List.map_nil, UInt32.ofNat_toNat]


/-! ### 6. Bridges to the hand-written model `DecModel/Format.lean` -/

theorem map_rt (vec : List UInt32) : (vec.map UInt32.toNat).map UInt32.ofNat = vec := by
  induction vec with
  | nil => rfl
  | cons a t ih => rw [List.map_cons, List.map_cons, ih, UInt32.ofNat_toNat]

/-- for EVERY `x` (no domain hypothesis): the translated `__l0_split_midi_2` is the model `splitMidi2` -/
theorem l0_split_midi_2_model (x : UInt32) (vec : List UInt32) :
    (l0_split_midi_2 x vec).map (List.map UInt32.toNat) = .ok (splitMidi2 x.toNat (vec.map UInt32.toNat)) := by
  rw [l0_split_midi_2_redK, redK_red]
  unfold splitMidi2
  simp only []
  have h1 : (red x).1.toNat = (reduce1000 x.toNat).1 := congrArg Prod.fst (red_model x)
  have h2 : (red x).2.toNat = (reduce1000 x.toNat).2 := congrArg Prod.snd (red_model x)
  rw [← h1, ← h2]
  simp only [Except.map, List.map_append, List.map_cons, List.map_nil]

/-- for EVERY `x` (no domain hypothesis): the translated `__l0_split_midi_3` is the model `splitMidi3` -/
theorem l0_split_midi_3_model (x : UInt32) (vec : List UInt32) :
    (l0_split_midi_3 x vec).map (List.map UInt32.toNat) = .ok (splitMidi3 x.toNat (vec.map UInt32.toNat)) := by
  rw [l0_split_midi_3_K, hdK_hd, redK_red]
  unfold splitMidi3
  simp only []
  have h1 : (hd x).1.toNat = (head1e6 x.toNat).1 := congrArg Prod.fst (hd_model x)
  have h2 : (hd x).2.toNat = (head1e6 x.toNat).2 := congrArg Prod.snd (hd_model x)
  have h3 : (red (hd x).2).1.toNat = (reduce1000 (hd x).2.toNat).1 := congrArg Prod.fst (red_model (hd x).2)
  have h4 : (red (hd x).2).2.toNat = (reduce1000 (hd x).2.toNat).2 := congrArg Prod.snd (red_model (hd x).2)
  rw [← h2, ← h3, ← h4, ← h1]
  simp only [Except.map, List.map_append, List.map_cons, List.map_nil]

theorem splitMidi6_eq (y : Nat) (hy : y < 1000000000000000000) (vec : List Nat) :
    splitMidi6 y vec = vec ++ [y / 1000000000000000, y / 1000000000000 % 1000, y / 1000000000 % 1000,
      y / 1000000 % 1000, y / 1000 % 1000, y % 1000] := by
  unfold splitMidi6
  rw [splitTento9_eq y hy]
  simp only []
  rw [splitMidi3_eq _ (by omega), splitMidi3_eq _ (by omega)]
  have e1 : y / 1000000000 / 1000000 = y / 1000000000000000 := by omega
  have e2 : y / 1000000000 / 1000 % 1000 = y / 1000000000000 % 1000 := by omega
  have e3 : y % 1000000000 / 1000000 = y / 1000000 % 1000 := by omega
  have e4 : y % 1000000000 / 1000 % 1000 = y / 1000 % 1000 := by omega
  have e5 : y % 1000000000 % 1000 = y % 1000 := by omega
  rw [e1, e2, e3, e4, e5]
  simp only [List.append_assoc, List.cons_append, List.nil_append]

/-- on the domain, the translated `__l1_split_midi_6` is the model `splitMidi6` -/
theorem l1_split_midi_6_model (x : UInt64) (hx : x.toNat < 10 ^ 18) (vec : List UInt32) :
    l1_split_midi_6 x vec = .ok ((splitMidi6 x.toNat (vec.map UInt32.toNat)).map UInt32.ofNat) := by
  rw [l1_split_midi_6_spec x hx, splitMidi6_eq _ (by omega), List.map_append, map_rt]
  simp only [List.map_cons, List.map_nil]

/-- on the domain, the translated `__l0_normalize_10to18` is the model `normalize10to18` -/
theorem l0_normalize_10to18_model (hi lo : UInt64) (hlo : lo.toNat < 2 * 10 ^ 18) (hhi : hi.toNat + 1 < 2 ^ 64) :
    l0_normalize_10to18 hi lo = .ok (UInt64.ofNat (normalize10to18 hi.toNat lo.toNat).1,
      UInt64.ofNat (normalize10to18 hi.toNat lo.toNat).2) := by
  rw [l0_normalize_10to18_spec hi lo hlo hhi, normalize10to18_eq _ _ hhi (by omega)]
  by_cases h : lo.toNat ≥ 10 ^ 18
  · rw [if_pos h, if_pos (by omega)]
    have e : hi + 1 = UInt64.ofNat (hi.toNat + 1) := by
      apply u64_eq_ofNat
      rw [UInt64.toNat_add, m1]; omega
    have e2 : lo.toNat - 10 ^ 18 = lo.toNat - 1000000000000000000 := by omega
    rw [e, e2]
  · rw [if_neg h, if_neg (by omega)]
    simp only [UInt64.ofNat_toNat]

/-! ### 7. Concrete instances (non-vacuity; evaluated by the kernel on the translated definitions themselves) -/

example : (l0_split_midi_2 12345 []).toOption = some [12, 345] := by decide +kernel
example : (l0_split_midi_2 999999 [1]).toOption = some [1, 999, 999] := by decide +kernel
example : (l0_split_midi_3 123456789 [7]).toOption = some [7, 123, 456, 789] := by decide +kernel
example : (l0_split_midi_3 999999999 []).toOption = some [999, 999, 999] := by decide +kernel
example : (l1_split_midi_6 123456789012345678 []).toOption = some [123, 456, 789, 12, 345, 678] := by decide +kernel
example : (l1_split_midi_6 999999999999999999 [5]).toOption = some [5, 999, 999, 999, 999, 999, 999] := by
  decide +kernel
example : (l1_split_midi_6_lead 7 []).toOption = some [7] := by decide +kernel
example : (l1_split_midi_6_lead 0 []).toOption = some [0] := by decide +kernel
example : (l1_split_midi_6_lead 12345 []).toOption = some [12, 345] := by decide +kernel
example : (l1_split_midi_6_lead 1234567890 []).toOption = some [1, 234, 567, 890] := by decide +kernel
example : (l1_split_midi_6_lead 1000000000000 []).toOption = some [1, 0, 0, 0, 0] := by decide +kernel
example : (l1_split_midi_6_lead 999999999999999999 []).toOption = some [999, 999, 999, 999, 999, 999] := by
  decide +kernel
example : (l0_normalize_10to18 5 1234567890123456789).toOption = some (6, 234567890123456789) := by decide +kernel
example : (l0_normalize_10to18 5 999999999999999999).toOption = some (5, 999999999999999999) := by decide +kernel

/-- the theorems instantiated (their hypotheses are satisfiable, their right-hand sides evaluate as expected) -/
example : l0_split_midi_3 123456789 [7] = .ok [7, 123, 456, 789] :=
  (l0_split_midi_3_spec 123456789 (by decide) [7]).trans (congrArg Except.ok (by decide +kernel))
example : l1_split_midi_6_lead 1234567890 [] = .ok [1, 234, 567, 890] :=
  (l1_split_midi_6_lead_spec 1234567890 (by decide) []).trans (congrArg Except.ok (by decide +kernel))
example : l0_normalize_10to18 5 1234567890123456789 = .ok (6, 234567890123456789) :=
  (l0_normalize_10to18_spec 5 1234567890123456789 (by decide) (by decide)).trans
    (congrArg Except.ok (by decide +kernel))

end Dec.C05GenMidi
