import DecProofs.Properties.C02GenFmaZC
set_option linter.unusedSimpArgs false
set_option linter.unusedVariables false
namespace Dec.C02GenFmaZ
open Dec Dec.Rs Dec.Gen.Code Dec.C03GenCompare Dec.C02GenCorrection
open Dec.C08GenRoundIntegral (bind_ok' ite_true_bool ite_false_bool i32_add i32_sub i32_neg)
open Dec.C01GenAdd (pow_lt_of_digits)
/-- the entry invariant of block Z, for the variables the block reads -/
structure ZInv (C3 : U128) (C4 : U256) (q3 q4 e3 delta p34 : Int32) (z_sign p_sign z_exp : UInt64)
    (sz sp : Bool) (c3 c4 : Nat) (E3 E4 : Int) : Prop where
  hC3 : C3.w1.toNat * 2^64 + C3.w0.toNat = c3
  hc0 : 0 < c3
  hc34 : c3 < 10 ^ 34
  hq3 : q3.toInt = ndigits c3
  he3 : e3.toInt = E3
  hE1 : -6176 ≤ E3
  hE2 : E3 ≤ 12222
  hze : z_exp.toNat = (E3 + 6176).toNat * 2^49
  hzs : z_sign.toNat = if sz then 2^63 else 0
  hps : p_sign.toNat = if sp then 2^63 else 0
  hC4 : C4.w3.toNat * 2^192 + C4.w2.toNat * 2^128 + C4.w1.toNat * 2^64 + C4.w0.toNat = c4
  h40 : 0 < c4
  hq4 : q4.toInt = ndigits c4
  hq468 : ndigits c4 ≤ 68
  hE4a : -12352 ≤ E4
  hE4b : E4 ≤ 12222
  hdelta : delta.toInt = (ndigits c3 : Int) + E3 - ndigits c4 - E4
  hp : p34 = 34

theorem sign_bne (a b : UInt64) (sa sb : Bool) (ha : a.toNat = if sa then 2^63 else 0) (hb : b.toNat = if sb then 2^63 else 0) :
    (a != b) = (sa != sb) := by
  rw [Bool.eq_iff_iff, bne_iff_ne, bne_iff_ne, Ne, ← UInt64.toNat_inj, ha, hb]
  cases sa <;> cases sb <;> simp

theorem sign_beq (a b : UInt64) (sa sb : Bool) (ha : a.toNat = if sa then 2^63 else 0) (hb : b.toNat = if sb then 2^63 else 0) :
    (a == b) = (sa == sb) := by
  rw [Bool.eq_iff_iff, beq_iff_eq, beq_iff_eq, ← UInt64.toNat_inj, ha, hb]
  cases sa <;> cases sb <;> simp

/-- the tininess test of the tail as a statement about the delivered pair -/
theorem tinyTest_eq (s : Bool) (cd : Nat) (ed : Int) (z_sign p_sign : UInt64) (sz sp : Bool) (q3 e3 scale p34 : Int32)
    (Q S : Nat) (hcd : cd < 2^113) (h1 : -6176 ≤ ed) (h2 : ed ≤ 6200) (he : e3.toInt = ed)
    (hq : q3.toInt = Q) (hs : scale.toInt = S) (hQS : Q + S ≤ 34) (hp : p34 = 34)
    (hzs : z_sign.toNat = if sz then 2^63 else 0) (hps : p_sign.toNat = if sp then 2^63 else 0) :
    tinyTest (ofBits (encode (.fin s cd ed))) z_sign p_sign q3 e3 scale p34 =
      decide (ed = -6176 ∧ (Q + S < 34 ∨ (Q + S = 34 ∧ cd = 10^33 ∧ sz ≠ sp))) := by
  have hqs : (q3 + scale).toInt = (Q : Int) + S := by rw [i32_add _ _ (by omega) (by omega), hq, hs]
  have e1 : (e3 == c_EXP_MIN_UNBIASED) = decide (ed = -6176) := by
    rw [Bool.eq_iff_iff, beq_iff_eq, decide_eq_true_eq, ← Int32.toInt_inj, he]; rfl
  have e2 : decide (q3 + scale < p34) = decide (Q + S < 34) := by
    rw [decide_eq_decide, hp, Int32.lt_iff_toInt_lt, hqs]; show (Q : Int) + S < 34 ↔ _; omega
  have e3' : (q3 + scale == p34) = decide (Q + S = 34) := by
    rw [Bool.eq_iff_iff, beq_iff_eq, decide_eq_true_eq, hp, ← Int32.toInt_inj, hqs]; show (Q : Int) + S = 34 ↔ _; omega
  have e4 := p33_test (ofBits (encode (.fin s cd ed)))
  rw [enc_sig s cd ed hcd h1 (by omega)] at e4
  unfold tinyTest
  rw [Bool.and_assoc (e3 == c_EXP_MIN_UNBIASED && q3 + scale == p34), e4, e1, e2, e3', sign_bne _ _ _ _ hzs hps]
  rw [Bool.eq_iff_iff]
  simp only [Bool.or_eq_true, Bool.and_eq_true, decide_eq_true_eq, bne_iff_ne, ne_eq]
  constructor
  · rintro (⟨a, b⟩ | ⟨⟨⟨a, b⟩, c⟩, d⟩)
    · exact ⟨a, Or.inl b⟩
    · exact ⟨a, Or.inr ⟨b, c, d⟩⟩
  · rintro ⟨a, b | ⟨b, c, d⟩⟩
    · exact Or.inl ⟨a, b⟩
    · exact Or.inr ⟨⟨⟨a, b⟩, c⟩, d⟩
/-- digit bounds of the padded coefficient -/
theorem pad_bounds (c3 S : Nat) (hc0 : 0 < c3) (h34 : ndigits c3 + S ≤ 34) :
    c3 * 10 ^ S < 10 ^ 34 ∧ (ndigits c3 + S < 34 → c3 * 10 ^ S < 10 ^ 33) ∧ (ndigits c3 + S = 34 → 10 ^ 33 ≤ c3 * 10 ^ S) := by
  obtain ⟨l, u⟩ := ndigits_spec hc0
  have hp := ndigits_pos hc0
  refine ⟨pow_lt_of_digits rfl h34, fun h => ?_, fun h => ?_⟩
  · calc c3 * 10 ^ S < 10 ^ ndigits c3 * 10 ^ S := Nat.mul_lt_mul_of_pos_right u (Nat.pow_pos (by decide))
      _ = 10 ^ (ndigits c3 + S) := (Nat.pow_add _ _ _).symm
      _ ≤ 10 ^ 33 := Nat.pow_le_pow_right (by decide) (by omega)
  · calc 10 ^ 33 = 10 ^ (ndigits c3 - 1) * 10 ^ S := by rw [← Nat.pow_add]; congr 1; omega
      _ ≤ c3 * 10 ^ S := Nat.mul_le_mul_right _ l

/-- **the mathematics of the ordinary path of Cases (1')/(1''A)**: the padded `z` is the nearest-even rounding of the exact
sum at its exponent (or `10^34` one exponent lower when a borrow takes the difference below `10^33`), with the indicator
the code sets, and "tiny" is what the tail tests -/
theorem main_math (mode : Mode) (sz sp : Bool) (c3 c4 : Nat) (E3 E4 pref : Int) (g : Nat) (hc0 : 0 < c3) (hc34 : c3 < 10 ^ 34)
    (h40 : 0 < c4) (hE1 : -6176 ≤ E3) (hfit : (ndigits c3 : Int) + E3 ≤ 6145)
    (hg : (g : Int) = (ndigits c3 : Int) + E3 - ndigits c4 - E4 - ndigits c3 - scaleOf (ndigits c3) E3) (hg1 : 1 ≤ g)
    (hng : ¬ (sp ≠ sz ∧ g = 1 ∧ c3 * 10 ^ scaleOf (ndigits c3) E3 = 10 ^ 33 ∧ -6176 < E3 - scaleOf (ndigits c3) E3)) :
    ∃ (N cf : Nat) (ef : Int), Deliv sz N E4 ef cf (sp == sz) (!(sp == sz)) false false ∧
      deliver cf ef = (c3 * 10 ^ scaleOf (ndigits c3) E3, E3 - scaleOf (ndigits c3) E3) ∧
      addFin mode sp c4 E4 sz c3 E3 pref = finish mode sz N 1 E4 pref ∧
      (N < 10 ^ 33 * 10 ^ (ef - E4).toNat ↔ E3 - scaleOf (ndigits c3) E3 = -6176 ∧
        (ndigits c3 + scaleOf (ndigits c3) E3 < 34 ∨
          (ndigits c3 + scaleOf (ndigits c3) E3 = 34 ∧ c3 * 10 ^ scaleOf (ndigits c3) E3 = 10 ^ 33 ∧ sz ≠ sp))) := by
  have hQ34 : ndigits c3 ≤ 34 := Dec.C08GenRoundIntegral.ndigits_le_34 c3 (by rw [Dec.C13PackHelpers.P34_eq']; exact hc34)
  obtain ⟨hs1, hs2, hs3⟩ := scaleOf_le (ndigits c3) E3 hQ34 hE1
  obtain ⟨S, hS⟩ : ∃ S, S = scaleOf (ndigits c3) E3 := ⟨_, rfl⟩
  rw [← hS] at hs1 hs2 hs3 hg hng ⊢
  have hE2 : E3 - S ≤ 6111 := by omega
  obtain ⟨hEle, hD, hA⟩ := gap_pow c3 c4 S E3 E4 g hg
  obtain ⟨hcf34, hcfl, hcfu⟩ := pad_bounds c3 S hc0 hs1
  have hc4 : c4 < 10 ^ ndigits c4 := lt_pow_ndigits c4
  have hgp : 10 ≤ 10 ^ g := by
    calc 10 = 10 ^ 1 := rfl
      _ ≤ 10 ^ g := Nat.pow_le_pow_right (by decide) hg1
  have hQ4p : 0 < 10 ^ ndigits c4 := Nat.pow_pos (by decide)
  have hDge : 10 ^ ndigits c4 * 10 ≤ 10 ^ (E3 - S - E4).toNat := by rw [hD]; exact Nat.mul_le_mul_left _ hgp
  have hsm : 2 * c4 < 10 ^ (E3 - S - E4).toNat := by omega
  have hcfpos : 0 < c3 * 10 ^ S := Nat.mul_pos hc0 (Nat.pow_pos (by decide))
  have hdom : c4 < c3 * 10 ^ (E3 - E4).toNat := by
    rw [← hA]
    calc c4 < 10 ^ (E3 - S - E4).toNat := by omega
      _ ≤ c3 * 10 ^ S * 10 ^ (E3 - S - E4).toNat := Nat.le_mul_of_pos_left _ hcfpos
  have hadd := addFin_dom mode sp sz c4 c3 E4 E3 pref (by omega) hdom
  rw [← hA] at hadd
  obtain ⟨cf, hcf⟩ : ∃ cf, cf = c3 * 10 ^ S := ⟨_, rfl⟩
  obtain ⟨D, hDd⟩ : ∃ D, D = 10 ^ (E3 - S - E4).toNat := ⟨_, rfl⟩
  rw [← hcf] at hcf34 hcfl hcfu hcfpos hadd hng ⊢
  have e34 : P34 = 10000000000000000000000000000000000 := rfl
  have e33 : P33 = 1000000000000000000000000000000000 := rfl
  have hnodel : deliver cf (E3 - S) = (cf, E3 - S) := by unfold deliver; rw [if_neg (by omega)]
  by_cases hsg : sp = sz
  · subst hsg
    rw [if_pos rfl] at hadd
    have hdl := deliv_add sp cf c4 E4 (E3 - S) hEle (by omega) (by omega) h40 hsm hcf34 (by
      rcases hs3 with h | h
      · exact Or.inr (hcfu h)
      · exact Or.inl h)
    refine ⟨_, cf, E3 - S, by simpa using hdl, hnodel, hadd, ?_⟩
    rw [← hDd] at hsm ⊢
    constructor
    · intro ht
      have : cf < 10 ^ 33 := by
        by_contra hcon
        have := Nat.mul_le_mul_right D (Nat.le_of_not_lt hcon)
        omega
      have hlt : ndigits c3 + S < 34 := by
        rcases Nat.lt_or_ge (ndigits c3 + S) 34 with h | h
        · exact h
        · have := hcfu (by omega); omega
      exact ⟨by omega, Or.inl hlt⟩
    · rintro ⟨_, h | ⟨_, _, h⟩⟩
      · have := hcfl h
        have := Nat.mul_le_mul_right D (show cf + 1 ≤ 10 ^ 33 by omega)
        rw [Nat.add_mul] at this
        omega
      · exact absurd rfl h
  · rw [if_neg hsg] at hadd
    have hbs : (sp == sz) = false := by simpa using hsg
    rw [hbs]
    by_cases hc : cf = 10 ^ 33 ∧ -6176 < E3 - S
    · -- the borrow below 10^33: `10^34` one exponent lower
      obtain ⟨hc1, hc2⟩ := hc
      have hg2 : 2 ≤ g := by
        rcases Nat.lt_or_ge g 2 with h | h
        · exact absurd ⟨hsg, by omega, hc1, hc2⟩ hng
        · exact h
      have hg' : (E3 - S - E4).toNat = (E3 - S - 1 - E4).toNat + 1 := by omega
      have hD' : 10 ^ (E3 - S - 1 - E4).toNat = 10 ^ ndigits c4 * 10 ^ (g - 1) := by
        rw [← Nat.pow_add]; congr 1; omega
      have hgp' : 10 ≤ 10 ^ (g - 1) := by
        calc 10 = 10 ^ 1 := rfl
          _ ≤ 10 ^ (g - 1) := Nat.pow_le_pow_right (by decide) (by omega)
      have hDge' : 10 ^ ndigits c4 * 10 ≤ 10 ^ (E3 - S - 1 - E4).toNat := by rw [hD']; exact Nat.mul_le_mul_left _ hgp'
      have hdl := deliv_sub_pow sz c4 E4 (E3 - S) (by omega) hc2 (by omega) h40 (by omega)
      have hN : cf * 10 ^ (E3 - S - E4).toNat = P34 * 10 ^ (E3 - S - 1 - E4).toNat := by
        rw [hg', Nat.pow_succ, hc1, e34]; generalize 10 ^ (E3 - S - 1 - E4).toNat = D'; omega
      rw [hN] at hadd
      refine ⟨_, P34, E3 - S - 1, hdl, ?_, hadd, ?_⟩
      · unfold deliver; rw [if_pos rfl, hc1]
        refine Prod.ext (by show P33 = _; rw [e33]; rfl) (by show E3 - S - 1 + 1 = _; omega)
      · obtain ⟨D', hD'd⟩ : ∃ D', D' = 10 ^ (E3 - S - 1 - E4).toNat := ⟨_, rfl⟩
        rw [← hD'd] at hDge' ⊢
        constructor
        · intro ht; rw [e34] at ht; omega
        · rintro ⟨h, _⟩; omega
    · have hl : E3 - S = eMin ∨ 10 ^ 33 < cf := by
        rcases hs3 with h | h
        · have := hcfu h
          by_cases h3 : cf = 10 ^ 33
          · left; unfold eMin
            by_contra hcon; exact hc ⟨h3, by omega⟩
          · right; omega
        · exact Or.inl h
      have hdl := deliv_sub sz cf c4 E4 (E3 - S) hEle (by omega) (by omega) h40 hsm hcfpos hcf34 hl
      refine ⟨_, cf, E3 - S, by simpa using hdl, hnodel, hadd, ?_⟩
      rw [← hDd] at hsm ⊢
      have hDp : 0 < D := by rw [hDd]; exact Nat.pow_pos (by decide)
      constructor
      · intro ht
        have hle : cf ≤ 10 ^ 33 := by
          by_contra hcon
          have := Nat.mul_le_mul_right D (show 10 ^ 33 + 1 ≤ cf by omega)
          rw [Nat.add_mul] at this
          omega
        have hemin : E3 - S = -6176 := by
          rcases hl with h | h
          · exact h
          · omega
        refine ⟨hemin, ?_⟩
        rcases Nat.lt_or_ge (ndigits c3 + S) 34 with h | h
        · exact Or.inl h
        · have := hcfu (by omega)
          exact Or.inr ⟨by omega, by omega, fun h => hsg h.symm⟩
      · rintro ⟨_, h | ⟨_, h, _⟩⟩
        · have := hcfl h
          have := Nat.mul_le_mul_right D (show cf ≤ 10 ^ 33 by omega)
          have : 0 < cf * D := Nat.mul_pos hcfpos hDp
          omega
        · rw [h]
          have : 0 < 10 ^ 33 * D := Nat.mul_pos (by decide) hDp
          omega

theorem flags_abs (pfpsf : UInt32) (b : Prop) [Decidable b] (F2 : Nat)
    (hF : F2 = fOverflow ||| fInexact ∨ F2 = fUnderflow ||| fInexact ∨ F2 = fInexact) (hb : b → F2 = fUnderflow ||| fInexact) :
    ((if b then pfpsf ||| c_StatusFlags_BID_UNDERFLOW_EXCEPTION else pfpsf) ||| c_StatusFlags_BID_INEXACT_EXCEPTION) |||
      UInt32.ofNat F2 = pfpsf ||| UInt32.ofNat F2 := by
  by_cases h : b
  · rw [if_pos h, hb h, UInt32.or_assoc, UInt32.or_assoc]; congr 1
  · rw [if_neg h, UInt32.or_assoc]
    rcases hF with h | h | h <;> rw [h] <;> congr 1

/-- the status word at the tail is the caller's with inexact, and with underflow only where the result is tiny -/
theorem flags_abs' (pfpsf pf : UInt32) (t : Prop) (F2 : Nat)
    (hpf : pf = pfpsf ||| 0x20 ∨ (pf = pfpsf ||| 0x30 ∧ t))
    (hF : F2 = fOverflow ||| fInexact ∨ F2 = fUnderflow ||| fInexact ∨ F2 = fInexact) (hb : t → F2 = fUnderflow ||| fInexact) :
    pf ||| UInt32.ofNat F2 = pfpsf ||| UInt32.ofNat F2 := by
  rcases hpf with h | ⟨h, ht⟩
  · rw [h, UInt32.or_assoc]
    rcases hF with h | h | h <;> rw [h] <;> congr 1
  · rw [h, hb ht, UInt32.or_assoc]; congr 1

/-- **the tail on the padded `z`** (everything but the lower-decade gap): the one correct rounding of the exact sum -/
theorem z1Tail_main (sz sp : Bool) (c3 c4 : Nat) (E3 E4 : Int) (g S : Nat) (hS : S = scaleOf (ndigits c3) E3)
    (hc0 : 0 < c3) (hc34 : c3 < 10 ^ 34) (h40 : 0 < c4) (hE1 : -6176 ≤ E3) (hfit : (ndigits c3 : Int) + E3 ≤ 6145)
    (hg : (g : Int) = (ndigits c3 : Int) + E3 - ndigits c4 - E4 - ndigits c3 - S) (hg1 : 1 ≤ g)
    (hng : ¬ (sp ≠ sz ∧ g = 1 ∧ c3 * 10 ^ S = 10 ^ 33 ∧ -6176 < E3 - S))
    (pml pmg pil pig : Bool) (m : RoundingMode) (pfpsf pf : UInt32) (z_sign p_sign : UInt64) (q3 e3' sc' p34 : Int32) (pref : Int)
    (hq3 : q3.toInt = ndigits c3) (hsc' : sc'.toInt = S) (he3' : e3'.toInt = E3 - S) (hp : p34 = 34)
    (hzs : z_sign.toNat = if sz then 2^63 else 0) (hps : p_sign.toNat = if sp then 2^63 else 0)
    (hpf : pf = pfpsf ||| 0x20 ∨ (pf = pfpsf ||| 0x30 ∧ E3 - S = -6176 ∧
      (ndigits c3 + S < 34 ∨ (ndigits c3 + S = 34 ∧ c3 * 10 ^ S = 10 ^ 33 ∧ sz ≠ sp)))) :
    z1Tail pml pmg pil pig m pf (ofBits (encode (.fin sz (c3 * 10 ^ S) (E3 - S)))) z_sign p_sign q3 e3' sc' p34
        false false (sp == sz) (!(sp == sz)) =
      .ok (ofBits (encode (addFin (modeOf m) sp c4 E4 sz c3 E3 pref).1), false, false, sp == sz, !(sp == sz),
        pfpsf ||| UInt32.ofNat (addFin (modeOf m) sp c4 E4 sz c3 E3 pref).2) := by
  subst hS
  have hQ34 : ndigits c3 ≤ 34 := Dec.C08GenRoundIntegral.ndigits_le_34 c3 (by rw [Dec.C13PackHelpers.P34_eq']; exact hc34)
  obtain ⟨hs1, hs2, hs3⟩ := scaleOf_le (ndigits c3) E3 hQ34 hE1
  obtain ⟨N, cf, ef, hdl, hdel, hadd, htiny⟩ := main_math (modeOf m) sz sp c3 c4 E3 E4 pref g hc0 hc34 h40 hE1 hfit hg hg1 hng
  obtain ⟨S, hS⟩ : ∃ S, S = scaleOf (ndigits c3) E3 := ⟨_, rfl⟩
  rw [← hS] at hs1 hs2 hs3 hg hsc' he3' hdel htiny hpf ⊢
  rw [show Datum.fin sz (c3 * 10 ^ S) (E3 - S) = .fin sz (deliver cf ef).1 (deliver cf ef).2 from by rw [hdel]]
  have hcd : (deliver cf ef).1 < 2 ^ 113 := by
    rw [hdel]; show c3 * 10 ^ S < _
    have := (pad_bounds c3 S hc0 hs1).1
    omega
  obtain ⟨hcode, hfl1, hfl2⟩ := z1Tail_spec hdl pml pmg pil pig m pf
    z_sign p_sign q3 e3' sc' p34 pref (by rw [hdel]; exact he3') (by rw [hdel]; show E3 - S ≤ 6111; omega)
    (by rcases hpf with h | ⟨h, _⟩ <;> rw [h, UInt32.or_assoc] <;> rfl)
    (by
      rw [tinyTest_eq sz _ _ z_sign p_sign sz sp q3 e3' sc' p34 (ndigits c3) S hcd (by rw [hdel]; show -6176 ≤ E3 - S; omega)
        (by rw [hdel]; show E3 - S ≤ 6200; omega) (by rw [hdel]; exact he3') hq3 hsc' hs1 hp hzs hps, decide_eq_decide, htiny, hdel])
  rw [hcode, hadd, flags_abs' pfpsf pf _ _ hpf hfl2 (fun hb => hfl1 (htiny.2 hb))]

/-- **Cases (1')/(1''A) up to the gap segment**: `z` padded, the rest of the case as gap segment and tail -/
theorem caseZ1_scaled (C3 : U128) (C4 : U256) (q3 q4 e3 delta p34 : Int32) (z_sign p_sign z_exp : UInt64)
    (sz sp : Bool) (c3 c4 : Nat) (E3 E4 : Int)
    (inv : ZInv C3 C4 q3 q4 e3 delta p34 z_sign p_sign z_exp sz sp c3 c4 E3 E4) (hfit : (ndigits c3 : Int) + E3 ≤ 6145)
    (hnov : ¬ ((decide ((q3 + e3) > (p34 + c_EXP_MAX_UNBIASED))) && (decide (p34 ≤ (delta - (1 : Int32))))) = true)
    (pml pmg pil pig : Bool) (m : RoundingMode) (pfpsf : UInt32) (res : U128) (scale ind : Int32) (incr : Bool) (R64 : UInt64)
    (P128 R128 : U128) (P192 R192 : U192) (R256 : U256) :
    ∃ (sc' : Int32) (zx' : UInt64) (e3' : Int32),
      caseZ1 pml pmg pil pig m pfpsf res z_sign p_sign z_exp C3 C4 q3 q4 e3 scale ind delta p34 false false false false incr
          R64 P128 R128 P192 R192 R256 =
        z1Gap (if ndigits c3 + scaleOf (ndigits c3) E3 < 34 then pfpsf ||| c_StatusFlags_BID_UNDERFLOW_EXCEPTION else pfpsf)
          (ofBits (encode (.fin sz (c3 * 10 ^ scaleOf (ndigits c3) E3) (E3 - scaleOf (ndigits c3) E3)))) z_sign p_sign zx' C3 C4
          q3 q4 e3' sc' delta false false false false incr R64 P128 R128 P192 R192 R256
          (fun ml mg il ig res e3 pfpsf => z1Tail pml pmg pil pig m pfpsf res z_sign p_sign q3 e3 sc' p34 ml mg il ig) ∧
      sc'.toInt = scaleOf (ndigits c3) E3 ∧ e3'.toInt = E3 - scaleOf (ndigits c3) E3 ∧
      ((p_sign != z_sign) && (delta == q3 + sc' + 1)) =
        decide (sp ≠ sz ∧ (ndigits c3 : Int) + E3 - ndigits c4 - E4 = ndigits c3 + scaleOf (ndigits c3) E3 + 1) := by
  obtain ⟨hC3, hc0, hc34, hq3, he3, hE1, hE2, hze, hzs, hps, hC4, h40, hq4, hq468, hE4a, hE4b, hdelta, hp⟩ := inv
  have hQ34 : ndigits c3 ≤ 34 := Dec.C08GenRoundIntegral.ndigits_le_34 c3 (by rw [Dec.C13PackHelpers.P34_eq']; exact hc34)
  obtain ⟨hs1, hs2, hs3⟩ := scaleOf_le (ndigits c3) E3 hQ34 hE1
  rw [caseZ1_eq, if_neg hnov]
  obtain ⟨sc', zx', e3', hsc, hsc', hzx', he3'⟩ := z1Scale_spec pfpsf res z_sign z_exp C3 q3 e3 scale ind p34
    (fun scale res z_exp e3 pfpsf =>
      z1Gap pfpsf res z_sign p_sign z_exp C3 C4 q3 q4 e3 scale delta false false false false incr R64 P128 R128 P192 R192 R256
        fun ml mg il ig res e3 pfpsf => z1Tail pml pmg pil pig m pfpsf res z_sign p_sign q3 e3 scale p34 ml mg il ig)
    c3 E3 sz hC3 hc0 hc34 hq3 he3 hE1 hE2 hfit hze hzs hp
  refine ⟨sc', zx', e3', hsc, hsc', he3', ?_⟩
  have hq3s : (q3 + sc' + 1).toInt = (ndigits c3 : Int) + scaleOf (ndigits c3) E3 + 1 := by
    rw [i32_add _ _ (by rw [i32_add _ _ (by omega) (by omega)]; omega) (by decide), i32_add _ _ (by omega) (by omega), hq3, hsc']
    rfl
  have hq4p := ndigits_pos h40
  rw [sign_bne _ _ _ _ hps hzs, Bool.eq_iff_iff, Bool.and_eq_true, bne_iff_ne, beq_iff_eq, decide_eq_true_eq, ← Int32.toInt_inj,
    hq3s, hdelta]

/-- **Cases (1')/(1''A), the ordinary path** (no overflow of `z`'s exponent range, not the one-digit gap with opposite
signs): the block returns the one correct rounding of the exact sum. -/
theorem caseZ1_main (C3 : U128) (C4 : U256) (q3 q4 e3 delta p34 : Int32) (z_sign p_sign z_exp : UInt64)
    (sz sp : Bool) (c3 c4 : Nat) (E3 E4 : Int)
    (inv : ZInv C3 C4 q3 q4 e3 delta p34 z_sign p_sign z_exp sz sp c3 c4 E3 E4)
    (g : Nat) (hg : (g : Int) = (ndigits c3 : Int) + E3 - ndigits c4 - E4 - ndigits c3 - scaleOf (ndigits c3) E3) (hg1 : 1 ≤ g)
    (hng : ¬ (sp ≠ sz ∧ g = 1)) (hfit : (ndigits c3 : Int) + E3 ≤ 6145)
    (hnov : ¬ ((decide ((q3 + e3) > (p34 + c_EXP_MAX_UNBIASED))) && (decide (p34 ≤ (delta - (1 : Int32))))) = true)
    (pml pmg pil pig : Bool) (m : RoundingMode) (pfpsf : UInt32) (res : U128) (scale ind : Int32) (incr : Bool) (R64 : UInt64)
    (P128 R128 : U128) (P192 R192 : U192) (R256 : U256) (pref : Int) :
    caseZ1 pml pmg pil pig m pfpsf res z_sign p_sign z_exp C3 C4 q3 q4 e3 scale ind delta p34 false false false false incr
        R64 P128 R128 P192 R192 R256 =
      .ok (ofBits (encode (addFin (modeOf m) sp c4 E4 sz c3 E3 pref).1), false, false, sp == sz, !(sp == sz),
        pfpsf ||| UInt32.ofNat (addFin (modeOf m) sp c4 E4 sz c3 E3 pref).2) := by
  obtain ⟨sc', zx', e3', hcode, hsc', he3', hgc⟩ := caseZ1_scaled C3 C4 q3 q4 e3 delta p34 z_sign p_sign z_exp sz sp c3 c4 E3 E4
    inv hfit hnov pml pmg pil pig m pfpsf res scale ind incr R64 P128 R128 P192 R192 R256
  obtain ⟨hC3, hc0, hc34, hq3, he3, hE1, hE2, hze, hzs, hps, hC4, h40, hq4, hq468, hE4a, hE4b, hdelta, hp⟩ := inv
  have hQ34 : ndigits c3 ≤ 34 := Dec.C08GenRoundIntegral.ndigits_le_34 c3 (by rw [Dec.C13PackHelpers.P34_eq']; exact hc34)
  obtain ⟨hs1, hs2, hs3⟩ := scaleOf_le (ndigits c3) E3 hQ34 hE1
  have hgapc : ¬ ((p_sign != z_sign) && (delta == q3 + sc' + 1)) = true := by
    rw [hgc, decide_eq_true_eq]
    rintro ⟨h1, h2⟩
    exact hng ⟨h1, by omega⟩
  rw [hcode, z1Gap_plain _ _ _ _ _ _ _ _ _ _ _ _ _ _ _ _ _ _ _ _ hgapc, sign_beq _ _ _ _ hps hzs]
  refine z1Tail_main sz sp c3 c4 E3 E4 g _ rfl hc0 hc34 h40 hE1 hfit hg hg1 (fun h => hng ⟨h.1, h.2.1⟩) pml pmg pil pig m pfpsf _
    z_sign p_sign q3 e3' sc' p34 pref hq3 hsc' he3' hp hzs hps ?_
  by_cases hlt : ndigits c3 + scaleOf (ndigits c3) E3 < 34
  · right
    rw [if_pos hlt, UInt32.or_assoc]
    exact ⟨rfl, by omega, Or.inl hlt⟩
  · left
    rw [if_neg hlt]; rfl
end Dec.C02GenFmaZ
