/-
  C04 — parsing a decimal literal yields the correctly rounded value (and never panics).
-/
import DecModel.Ops

namespace Dec.C04

/-- a well-formed non-zero literal is the exact value `coeff · 10^(exp − #fraction digits)` handed to the
universal finishing step with the literal's own exponent preferred (so: kept when the digits fit in 34,
otherwise correctly rounded, with inexact / overflow / underflow as for arithmetic) -/
theorem literal_is_finish (mode : Mode) (l : Literal) (h : l.coeff ≠ 0) :
    parseLiteralSpec mode l = finish mode l.neg l.coeff 1 l.exp10 l.exp10 := by
  simp [parseLiteralSpec, h]

/-- a zero literal is an exact zero with the literal's exponent clamped into range and its sign; no flag -/
theorem zero_literal (mode : Mode) (l : Literal) (h : l.coeff = 0) :
    parseLiteralSpec mode l = (zeroAt l.neg l.exp10, 0) := by
  simp [parseLiteralSpec, h]

/-- FromStr returns Err exactly when a flag other than inexact was raised (model of the trait glue on
the expectation of the conversion) -/
theorem fromStr_err_iff (alts : List (List Val)) (raised : Flags) :
    (raised = 0 ∨ raised = fInexact → (match Expect.oneOf alts raised with
        | .oneOf a r => if r = 0 || r = fInexact then Expect.oneOf a 0 else exactly [.err r] 0
        | e => e) = .oneOf alts 0) ∧
    (¬ (raised = 0 ∨ raised = fInexact) → (match Expect.oneOf alts raised with
        | .oneOf a r => if r = 0 || r = fInexact then Expect.oneOf a 0 else exactly [.err r] 0
        | e => e) = exactly [.err raised] 0) := by
  constructor
  · intro h; rcases h with h | h <;> simp [h]
  · intro h; simp only [not_or] at h; simp [h.1, h.2]

/-- the special spellings, any case, optional sign -/
example : (classifyText (([45, 105, 78, 102, 73, 110, 73, 116, 89] : Bytes)) matches .inf true) ∧ (classifyText (([78, 97, 78] : Bytes)) matches .qnan false) ∧
    (classifyText (([43, 115, 78, 65, 78] : Bytes)) matches .snan false) ∧ (classifyText (([105, 110, 102] : Bytes)) matches .inf false) := by decide

/-- ill-formed text -/
example : (classifyText (([49, 69] : Bytes)) matches .illFormed) ∧ (classifyText (([49, 69, 43] : Bytes)) matches .illFormed) ∧
    (classifyText (([49, 46, 46, 50] : Bytes)) matches .illFormed) ∧ (classifyText (([] : Bytes)) matches .illFormed) ∧
    (classifyText (([45, 45, 49] : Bytes)) matches .illFormed) ∧ (classifyText (([97, 98, 99] : Bytes)) matches .illFormed) := by decide

/-- well-formed literals -/
example : (parseLiteral (([45, 49, 50, 46, 53, 48, 69, 43, 51] : Bytes))).map (fun l => (l.neg, l.coeff, l.exp10)) = some (true, 1250, 1) := by decide
example : (parseLiteral (([46, 53] : Bytes))).map (fun l => (l.neg, l.coeff, l.exp10)) = some (false, 5, -1) := by decide
example : (parseLiteral (([49, 69, 48, 48, 48, 48, 48, 48, 48, 49] : Bytes))).map (fun l => (l.neg, l.coeff, l.exp10)) = some (false, 1, 1) := by decide

end Dec.C04
