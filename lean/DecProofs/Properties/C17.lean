/-
  C17 — next_up / next_down / next_after / next_toward return the adjacent representable value.
  (Boundary cases and structure here; the "nothing in between" theorem over ℚ is in
  `DecProofs.Properties.C17Adjacent`.)
-/
import DecModel.Ops

namespace Dec.C17

/-- boundary cases of next_up -/
theorem nextUp_boundaries (s : Bool) (e : Int) :
    nextUpD (.fin false (P34 - 1) eMax) = .inf false ∧          -- +MAX → +Inf
    nextUpD (.inf true) = .fin true (P34 - 1) eMax ∧             -- -Inf → -MAX
    nextUpD (.inf false) = .inf false ∧
    nextUpD (.fin s 0 e) = .fin false 1 eMin ∧                   -- ±0 → smallest subnormal
    nextUpD (.fin true 1 eMin) = .fin true 0 eMin := by          -- -MIN_SUB → -0
  refine ⟨by decide, rfl, rfl, by simp [nextUpD], by decide⟩

/-- next_down is the mirror image of next_up -/
theorem nextDown_def (d : Datum) : nextDownD d = (nextUpD d.negate).negate := rfl

theorem nextDown_boundaries :
    nextDownD (.fin true (P34 - 1) eMax) = .inf true ∧
    nextDownD (.inf false) = .fin false (P34 - 1) eMax ∧
    nextDownD (.fin false 0 0) = .fin true 1 eMin := by
  refine ⟨by decide, by decide, by decide⟩

/-- next_after: equal operands give x with the sign of y and no flag -/
theorem nextAfter_equal (x y : Datum) (h : cmpD x y = some .eq) :
    (nextAfterD x y).1 = x.setSign y.neg := by
  simp [nextAfterD, h]

/-- next_after moves in the direction of y -/
theorem nextAfter_direction (x y : Datum) :
    (cmpD x y = some .lt → (nextAfterD x y).1 = nextUpD x) ∧
    (cmpD x y = some .gt → (nextAfterD x y).1 = nextDownD x) := by
  constructor <;> intro h <;> simp [nextAfterD, h]

example : nextUpD (.fin false 1 0) = .fin false (P33 + 1) (-33) := by decide
example : nextUpD (.fin true 1 0) = .fin true (P34 - 1) (-34) := by decide
example : nextAfterD (.fin false (P34 - 1) eMax) (.inf false) = (.inf false, fOverflow ||| fInexact) := by decide
example : nextAfterD (.fin false 1 eMin) (.fin true 1 0) = (.fin false 0 eMin, fUnderflow ||| fInexact) := by decide +kernel

end Dec.C17
