/-
  C01 (generated-code level) — the MAIN PATH of `bid128_div` as translated into `DecGen/Code.lean` (bid128_div.rs): the routine
  `Dec.Gen.Code.bid128_div_clear_status` on two finite non-zero operands, against the specification-level model `Dec.divD`
  (DecModel/Arith.lean: the exact quotient `c1/c2·10^(e1−e2)` handed to `finish` with preferred exponent `e1 − e2`).  The front end
  (NaN, infinities, zeros) is `C01GenMul.div_front` / `C12GenNaN.div_nan`; `C01GenMul.div_of_clear` relates `bid128_div` to the
  inner routine.

  RESULT.  For every pair of 128-bit patterns decoding to finite non-zero numbers (canonical or not), every rounding mode:
  started from a clear status word the routine never panics and (decoded result, status word) = `divD` —
    * `div_int_quotient`   : `c2 ∣ c1` — unconditional (the integer division `bid___div_128_by_128` is exact: `C10GenRem`);
    * `div_main_partial`   : all non-zero pairs, under ONE hypothesis: the single call of the long division
                             `bid___div_256_by_128` the pair causes (`Call256 c1 c2 CQ A`) returns quotient and remainder
                             (`Div256ExactAt`); `div_main_partial'` the same for `bid128_div` (flags OR-ed into the caller's);
    * `div_all_partial`    : all operands without a NaN (front end included);
    * `div_main_of_exact` / `div_all_of_exact`: the same from the universally quantified, named hypothesis `Div256Exact`
                             (domain spelled out there: divisor `0 < Y < 10^34`, accumulated quotient `CQ + ⌊A/Y⌋` of 34 digits).
  The hypothesis is NOT provable for the source as first translated: the proof of the long division (`C01GenDiv256`, another
  file) found a defect — in the branch `CX ≥ CY` a dividend `≥ 2^192` with quotient `< 2^100` skipped an estimation stage;
  witness `620799669418103807343385901143 / 6201719592445651392670023222` (repaired in the source since; this file treats
  the routine as a black box and checks against either version).  Everything else of `bid128_div` is proved here; no other
  deviation from `divD` was found.  Remarks (not defects): the rounding block tests `2·R − Y` through the sign bit of a 128-bit
  difference (sound as `R < Y < 2^113`); the `D` of the nearest-away arm is redundant; the exact path removes ALL trailing
  zeros, which never overshoots the preferred exponent because a quotient with `≥ ed` trailing zeros means `c2 ∣ c1`, and that
  case left earlier; the two conditional subtractions of `10^8` after the digit loop suffice because the second limb stays
  below `2.02·10^8` (`bnd`); the small-operand path indexes the reciprocal table with `nzeros ≥ 20`, never with 0.

  METHOD.  The routine is cut into continuation-passing blocks that are literally pieces of the translated text
  (`scaleGtK`, `scaleLeK`, `afterK`, `roundK`, `exactK`, and their sub-blocks); `div_entry`, `…_eq` show by `rfl` that the
  routine is their composition; each block gets a for-all-inputs specification; long straight-line blocks are walked with
  the stepping tactics of `C12GenNaN` (`take_call`, `take_pos`, `take_neg`, `head_step`).
    §2  `finish_congr` (finish depends on the value only), `finish_normal` (finish on a normalised inexact quotient);
        later `finish_pref` (the preferred exponent is irrelevant once no trailing zero is left and `e ≤ pref`).
    §3  the rounding block: `carryNE`/`carryNA` (the `i64` sign trick), `dblSub_spec`, `rndK_spec` (= `roundInt`).
    §4  `get_normal` (`bid_get_BID128` on a rounded 34-digit coefficient, any status word), `inexact_tail`
        (de ≥ 0: round + pack; de < 0: `bid_handle_UF_128_rem` = `C13GenPack.handle_uf_rem_eq_finish`).
    §5  `after_inexact`.   §6  branch `CX ≥ CY`: `digitsK_spec` (f32 digit estimate, `C11GenLogb`), `scaleLe_exit`, `scaleLe_cont`.
    §7  floats for branch `CY > CX`: `rn24_mono`, `rn24_idem`, `rn24_ge`, `rn24_succ_of_pred`, `chain_mono` (the three-rounding
        chain `(c1 as f32)·2^64 + (c0 as f32)` is monotone), `bits_rel`, `binIndex_float`.
    §8  `gt_rows` (powers of two and ten, 114 rows), `gt_bounds` (the quotient will have 34 digits), `scaleGt_spec`.
    §10 exact path: `digitLoopK_spec` (the `for … break` loop through `BID_CONVERT_TABLE`, by an invariant: `forIn_range_inv`,
        `whileIter_post`, `loop_step`), `zerosOfK_spec` + `nzOf_fact` (`BID_PACKED_10000_ZEROS`), `split17`,
        `tailHighK_spec` (`BID_RECIPROCALS10_64`), `tailLowK_spec` / `recip128_div` (`BID_RECIPROCALS10_128`), `exact_general`;
        small operands: `factors_get` (`BID_FACTORS`), `small_zeros` (through `padicValNat`), `exact_small`.
    §11 `after_exact`, the assembly.   §12 how to discharge the hypothesis by evaluation (`call256_at`, example 1/3); examples.
  Unproved here: exactness of `bid___div_256_by_128` (hypothesis `Div256ExactAt` / `Div256Exact`).
-/
import DecProofs.Properties.C01GenMul
import DecProofs.Properties.C01GenArith
import DecProofs.Properties.C11GenLogb
import DecProofs.Properties.C10GenRem
import DecProofs.Properties.C01Strict
import DecProofs.TableFacts.BinTables
import DecProofs.TableFacts.Mechanisms
import Mathlib.NumberTheory.Padics.PadicVal.Basic
import Mathlib.Tactic.Ring
import Mathlib.Tactic.Linarith

set_option linter.unusedSimpArgs false
set_option linter.unusedVariables false
set_option linter.unnecessarySeqFocus false

namespace Dec.C01GenDiv
open Dec.Rs Dec.Gen.Code
open Dec.C06GenFromInt (ofBits)
open Dec.C12GenNaN
open Dec.C01GenMul (dOf)

/-! ## 1. The blocks of the main path (literal pieces of the translated text, in continuation-passing form) -/

/-- the branch `CY > CX`: scale `CX` up by a power of ten -/
def scaleGtK {α : Type} (CX CY : U128) (de : Int32)
    (k : U128 → U256 → Int32 → Int32 → Except String α) : Except String α := do
  let mut diff_expon : Int32 := de
  let mut CA4 : U256 := default
  let mut T128 : U128 := default
  let mut CQ : U128 := default
  let mut CA : U128 := default
  let mut T : UInt64 := default
  let mut fx : F32U := default
  let mut fy : F32U := default
  let mut f64 : F32U := default
  let mut bin_index : Int32 := default
  let mut ed2 : Int32 := default
  f64 := (⟨(0x5f800000 : UInt32)⟩ : F32U)
  fx := (← F32U.add (← F32U.mul ((F32U.ofU64 (UInt64.ofInt (toI CX.w1)))) f64) ((F32U.ofU64 (UInt64.ofInt (toI CX.w0)))))
  fy := (← F32U.add (← F32U.mul ((F32U.ofU64 (UInt64.ofInt (toI CY.w1)))) f64) ((F32U.ofU64 (UInt64.ofInt (toI CY.w0)))))
  bin_index := (Int32.ofInt (toI ((((fy.bits - fx.bits)) >>> 0x17))))
  if (CX.w1 != (0 : UInt64)) then
    T := (← tbl128 Dec.Gen.BID_POWER10_INDEX_BINEXP_128 (UInt64.ofInt (toI bin_index))).w0
    CA := (← mul_64x128_short T CX)
  else
    T128 := (← tbl128 Dec.Gen.BID_POWER10_INDEX_BINEXP_128 (UInt64.ofInt (toI bin_index)))
    CA := (← mul_64x128_short CX.w0 T128)
  ed2 := (0x21 : Int32)
  if (← unsigned_compare_gt_128 CY CA) then
    ed2 := (ed2 + 1)
  T128 := (← tbl128 Dec.Gen.BID_POWER10_TABLE_128 (UInt64.ofInt (toI ed2)))
  CA4 := (← mul_128x128_to_256 CA T128)
  ed2 := (ed2 + (← tblI32 Dec.Gen.BID_ESTIMATE_DECIMAL_DIGITS (UInt64.ofInt (toI bin_index))))
  CQ := { CQ with w0 := (0 : UInt64) }
  CQ := { CQ with w1 := (0 : UInt64) }
  diff_expon := (diff_expon - ed2)
  k CQ CA4 ed2 diff_expon

/-- the difference of the binary exponents of the two coefficients, through `f32` -/
def binIndexK {α : Type} (CX CY : U128) (k : Int32 → Except String α) : Except String α := do
  let mut fx : F32U := default
  let mut fy : F32U := default
  let mut f64 : F32U := default
  let mut bin_index : Int32 := default
  f64 := (⟨(0x5f800000 : UInt32)⟩ : F32U)
  fx := (← F32U.add (← F32U.mul ((F32U.ofU64 (UInt64.ofInt (toI CX.w1)))) f64) ((F32U.ofU64 (UInt64.ofInt (toI CX.w0)))))
  fy := (← F32U.add (← F32U.mul ((F32U.ofU64 (UInt64.ofInt (toI CY.w1)))) f64) ((F32U.ofU64 (UInt64.ofInt (toI CY.w0)))))
  bin_index := (Int32.ofInt (toI ((((fy.bits - fx.bits)) >>> 0x17))))
  k bin_index

/-- `CA = CX · 10^(digits of 2^bin_index)` -/
def scaleCAK {α : Type} (CX : U128) (bin_index : Int32) (k : U128 → Except String α) : Except String α := do
  let mut T128 : U128 := default
  let mut CA : U128 := default
  let mut T : UInt64 := default
  if (CX.w1 != (0 : UInt64)) then
    T := (← tbl128 Dec.Gen.BID_POWER10_INDEX_BINEXP_128 (UInt64.ofInt (toI bin_index))).w0
    CA := (← mul_64x128_short T CX)
  else
    T128 := (← tbl128 Dec.Gen.BID_POWER10_INDEX_BINEXP_128 (UInt64.ofInt (toI bin_index)))
    CA := (← mul_64x128_short CX.w0 T128)
  k CA

def gtEdK {α : Type} (CY CA : U128) (k : Int32 → Except String α) : Except String α := do
  let mut ed2 : Int32 := default
  ed2 := (0x21 : Int32)
  if (← unsigned_compare_gt_128 CY CA) then
    ed2 := (ed2 + 1)
  k ed2

def gtTailK {α : Type} (CA : U128) (bin_index ed2_ de : Int32)
    (k : U128 → U256 → Int32 → Int32 → Except String α) : Except String α := do
  let mut diff_expon : Int32 := de
  let mut ed2 : Int32 := ed2_
  let mut CA4 : U256 := default
  let mut T128 : U128 := default
  let mut CQ : U128 := default
  T128 := (← tbl128 Dec.Gen.BID_POWER10_TABLE_128 (UInt64.ofInt (toI ed2)))
  CA4 := (← mul_128x128_to_256 CA T128)
  ed2 := (ed2 + (← tblI32 Dec.Gen.BID_ESTIMATE_DECIMAL_DIGITS (UInt64.ofInt (toI bin_index))))
  CQ := { CQ with w0 := (0 : UInt64) }
  CQ := { CQ with w1 := (0 : UInt64) }
  diff_expon := (diff_expon - ed2)
  k CQ CA4 ed2 diff_expon

theorem scaleGtK_eq {α : Type} (CX CY : U128) (de : Int32) (k : U128 → U256 → Int32 → Int32 → Except String α) :
    scaleGtK CX CY de k =
      binIndexK CX CY fun bi => scaleCAK CX bi fun CA => gtEdK CY CA fun ed2 => gtTailK CA bi ed2 de k := rfl

/-- the branch `CX ≥ CY`: integer quotient first; exact → done, else scale quotient and remainder -/
def scaleLeK (CX CY : U128) (de : Int32) (sgn : UInt64) (rnd_mode : RoundingMode) (pfpsf_ : UInt32)
    (k : U128 → U256 → Int32 → Int32 → Except String (U128 × UInt32)) : Except String (U128 × UInt32) := do
  let mut pfpsf : UInt32 := pfpsf_
  let mut diff_expon : Int32 := de
  let mut CA4 : U256 := default
  let mut T128 : U128 := default
  let mut CQ : U128 := default
  let mut CR : U128 := default
  let mut TP128 : U128 := default
  let mut res : U128 := default
  let mut fx : F32U := default
  let mut f64 : F32U := default
  let mut bin_expon : Int32 := default
  let mut ed2 : Int32 := default
  let mut digits_q : Int32 := default
  let t__8 := (← bid___div_128_by_128 CX CY)
  CQ := t__8.1
  CR := t__8.2
  if ((CR.w1 == (0 : UInt64)) && (CR.w0 == (0 : UInt64))) then
    let t__9 ← bid_get_BID128 sgn diff_expon CQ rnd_mode pfpsf
    pfpsf := t__9.2
    res := t__9.1
    return (res, pfpsf)
  f64 := (⟨(0x5f800000 : UInt32)⟩ : F32U)
  fx := (← F32U.add (← F32U.mul ((F32U.ofU64 (UInt64.ofInt (toI CQ.w1)))) f64) ((F32U.ofU64 (UInt64.ofInt (toI CQ.w0)))))
  bin_expon := (Int32.ofInt (toI ((((fx.bits - (0x3f800000 : UInt32))) >>> 0x17))))
  digits_q := (← tblI32 Dec.Gen.BID_ESTIMATE_DECIMAL_DIGITS (UInt64.ofInt (toI bin_expon)))
  TP128 := { TP128 with w0 := (← tbl128 Dec.Gen.BID_POWER10_INDEX_BINEXP_128 (UInt64.ofInt (toI bin_expon))).w0 }
  TP128 := { TP128 with w1 := (← tbl128 Dec.Gen.BID_POWER10_INDEX_BINEXP_128 (UInt64.ofInt (toI bin_expon))).w1 }
  if (← unsigned_compare_ge_128 CQ TP128) then
    digits_q := (digits_q + 1)
  ed2 := ((0x22 : Int32) - digits_q)
  T128 := { T128 with w0 := (← tbl128 Dec.Gen.BID_POWER10_TABLE_128 (UInt64.ofInt (toI ed2))).w0 }
  T128 := { T128 with w1 := (← tbl128 Dec.Gen.BID_POWER10_TABLE_128 (UInt64.ofInt (toI ed2))).w1 }
  CA4 := (← mul_128x128_to_256 CR T128)
  diff_expon := (diff_expon - ed2)
  CQ := (← mul_128x128_low CQ T128)
  k CQ CA4 ed2 diff_expon

/-- the digit count of the integer quotient: `f32` binary exponent, estimate table, one comparison -/
def digitsK {α : Type} (CQ : U128) (k : Int32 → Except String α) : Except String α := do
  let mut TP128 : U128 := default
  let mut fx : F32U := default
  let mut f64 : F32U := default
  let mut bin_expon : Int32 := default
  let mut digits_q : Int32 := default
  f64 := (⟨(0x5f800000 : UInt32)⟩ : F32U)
  fx := (← F32U.add (← F32U.mul ((F32U.ofU64 (UInt64.ofInt (toI CQ.w1)))) f64) ((F32U.ofU64 (UInt64.ofInt (toI CQ.w0)))))
  bin_expon := (Int32.ofInt (toI ((((fx.bits - (0x3f800000 : UInt32))) >>> 0x17))))
  digits_q := (← tblI32 Dec.Gen.BID_ESTIMATE_DECIMAL_DIGITS (UInt64.ofInt (toI bin_expon)))
  TP128 := { TP128 with w0 := (← tbl128 Dec.Gen.BID_POWER10_INDEX_BINEXP_128 (UInt64.ofInt (toI bin_expon))).w0 }
  TP128 := { TP128 with w1 := (← tbl128 Dec.Gen.BID_POWER10_INDEX_BINEXP_128 (UInt64.ofInt (toI bin_expon))).w1 }
  if (← unsigned_compare_ge_128 CQ TP128) then
    digits_q := (digits_q + 1)
  k digits_q

/-- scale quotient and remainder by `10^(34 − digits)` -/
def scaleLeTailK {α : Type} (CQ_ CR : U128) (de digits_q : Int32)
    (k : U128 → U256 → Int32 → Int32 → Except String α) : Except String α := do
  let mut diff_expon : Int32 := de
  let mut CQ : U128 := CQ_
  let mut CA4 : U256 := default
  let mut T128 : U128 := default
  let mut ed2 : Int32 := default
  ed2 := ((0x22 : Int32) - digits_q)
  T128 := { T128 with w0 := (← tbl128 Dec.Gen.BID_POWER10_TABLE_128 (UInt64.ofInt (toI ed2))).w0 }
  T128 := { T128 with w1 := (← tbl128 Dec.Gen.BID_POWER10_TABLE_128 (UInt64.ofInt (toI ed2))).w1 }
  CA4 := (← mul_128x128_to_256 CR T128)
  diff_expon := (diff_expon - ed2)
  CQ := (← mul_128x128_low CQ T128)
  k CQ CA4 ed2 diff_expon

theorem scaleLeK_eq (CX CY : U128) (de : Int32) (sgn : UInt64) (m : RoundingMode) (f : UInt32)
    (k : U128 → U256 → Int32 → Int32 → Except String (U128 × UInt32)) :
    scaleLeK CX CY de sgn m f k =
      bind (bid___div_128_by_128 CX CY) fun t =>
        if ((t.2.w1 == (0 : UInt64)) && (t.2.w0 == (0 : UInt64))) then
          bind (bid_get_BID128 sgn de t.1 m f) (fun t9 => pure (t9.1, t9.2))
        else digitsK t.1 (fun dq => scaleLeTailK t.1 t.2 de dq k) := rfl

/-- the exact path (remainder zero): remove trailing zeros towards the preferred exponent, pack -/
def exactK (CX CY CQ_ : U128) (ed2 : Int32) (de : Int32) (sgn : UInt64) (rnd_mode : RoundingMode) (pfpsf_ : UInt32) :
    Except String (U128 × UInt32) := do
  let mut pfpsf : UInt32 := pfpsf_
  let mut diff_expon : Int32 := de
  let mut CQ : U128 := CQ_
  let mut P256 : U256 := default
  let mut T128 : U128 := default
  let mut Qh : U128 := default
  let mut _Ql : U128 := default
  let mut res : U128 := default
  let mut Q_high : UInt64 := default
  let mut Q_low : UInt64 := default
  let mut QX : UInt64 := default
  let mut PD : UInt64 := default
  let mut QX32 : UInt32 := default
  let mut tdigit : (Array UInt32) := #[(0 : UInt32), (0 : UInt32), (0 : UInt32)]
  let mut digit : UInt32 := default
  let mut digit_h : UInt32 := default
  let mut digit_low : UInt32 := default
  let mut amount : Int32 := default
  let mut nzeros : Int32 := default
  let mut i : Int32 := default
  let mut j : Int32 := default
  let mut k : Int32 := default
  let mut d5 : Int32 := default
  if ((((CX.w1 == (0 : UInt64)) && (CY.w1 == (0 : UInt64))) && ((decide (CX.w0 ≤ (0x400 : UInt64))))) && ((decide (CY.w0 ≤ (0x400 : UInt64))))) then
    i := (((Int32.ofInt (toI CY.w0))) - (1 : Int32))
    j := (((Int32.ofInt (toI CX.w0))) - (1 : Int32))
    nzeros := ((ed2 - (← tblI32 Dec.Gen.BID_FACTORS (← flatIdx [1024, 2] [(UInt64.toNat (UInt64.ofInt (toI i))), (UInt64.toNat (UInt64.ofInt (toI 0)))]))) + (← tblI32 Dec.Gen.BID_FACTORS (← flatIdx [1024, 2] [(UInt64.toNat (UInt64.ofInt (toI j))), (UInt64.toNat (UInt64.ofInt (toI 0)))])))
    d5 := ((ed2 - (← tblI32 Dec.Gen.BID_FACTORS (← flatIdx [1024, 2] [(UInt64.toNat (UInt64.ofInt (toI i))), (UInt64.toNat (UInt64.ofInt (toI 1)))]))) + (← tblI32 Dec.Gen.BID_FACTORS (← flatIdx [1024, 2] [(UInt64.toNat (UInt64.ofInt (toI j))), (UInt64.toNat (UInt64.ofInt (toI 1)))])))
    if (decide (d5 < nzeros)) then
      nzeros := d5
    let t__12 := (← mul_128x128_full CQ (← tbl128 Dec.Gen.BID_RECIPROCALS10_128 (UInt64.ofInt (toI nzeros))))
    Qh := t__12.1
    _Ql := t__12.2
    amount := (← tblI32 Dec.Gen.BID_RECIP_SCALE (UInt64.ofInt (toI nzeros)))
    CQ := (← shr_128_long Qh amount)
    diff_expon := (diff_expon + nzeros)
  else
    T128 := { T128 with w0 := (0x44909befeb9fad49 : UInt64) }
    T128 := { T128 with w1 := (0xb877aa3236a4b : UInt64) }
    P256 := (← mul_128x128_to_256 CQ T128)
    Q_high := (((P256.w2 >>> 0x2c)) ||| ((P256.w3 <<< (0x14))))
    Q_low := (CQ.w0 - (Q_high * (0x16345785d8a0000 : UInt64)))
    if (Q_low == (0 : UInt64)) then
      diff_expon := (diff_expon + 0x11)
      tdigit := tdigit.set! 0 (UInt32.ofInt (toI ((Q_high &&& (0x3ffffff : UInt64)))))
      tdigit := tdigit.set! 1 (0 : UInt32)
      QX := (Q_high >>> 0x1a)
      QX32 := (UInt32.ofInt (toI QX))
      nzeros := (0 : Int32)
      j := (0 : Int32)
      for _ in [0:4096] do
        if !(QX32 != (0 : UInt32)) then break
        k := (Int32.ofInt (toI ((QX32 &&& (0x7f : UInt32)))))
        tdigit := tdigit.set! 0 (tdigit[0]! + (← tbl32 Dec.Gen.BID_CONVERT_TABLE (← flatIdx [5, 128, 2] [(UInt64.toNat (UInt64.ofInt (toI j))), (UInt64.toNat (UInt64.ofInt (toI k))), (UInt64.toNat (UInt64.ofInt (toI 0)))])))
        tdigit := tdigit.set! 1 (tdigit[1]! + (← tbl32 Dec.Gen.BID_CONVERT_TABLE (← flatIdx [5, 128, 2] [(UInt64.toNat (UInt64.ofInt (toI j))), (UInt64.toNat (UInt64.ofInt (toI k))), (UInt64.toNat (UInt64.ofInt (toI 1)))])))
        if (decide (tdigit[0]! ≥ (0x5f5e100 : UInt32))) then
          tdigit := tdigit.set! 0 (tdigit[0]! - 0x5f5e100)
          tdigit := tdigit.set! 1 (tdigit[1]! + 1)
        QX32 := (QX32 >>> 7)
        j := (j + 1)
      if (QX32 != (0 : UInt32)) then throw "loop fuel exhausted"
      if (decide (tdigit[1]! ≥ (0x5f5e100 : UInt32))) then
        tdigit := tdigit.set! 1 (tdigit[1]! - 0x5f5e100)
        if (decide (tdigit[1]! ≥ (0x5f5e100 : UInt32))) then
          tdigit := tdigit.set! 1 (tdigit[1]! - 0x5f5e100)
      digit := tdigit[0]!
      if ((digit == (0 : UInt32)) && (tdigit[1]! == (0 : UInt32))) then
        nzeros := (nzeros + 0x10)
      else
        if (digit == (0 : UInt32)) then
          nzeros := (nzeros + 8)
          digit := tdigit[1]!
        PD := (((UInt64.ofInt (toI digit))) * (0x68db8bb : UInt64))
        digit_h := (UInt32.ofInt (toI ((PD >>> 0x28))))
        digit_low := (digit - (digit_h * (0x2710 : UInt32)))
        if (digit_low == (0 : UInt32)) then
          nzeros := (nzeros + 4)
        else
          digit_h := digit_low
        if (((digit_h &&& (1 : UInt32))) != (1 : UInt32)) then
          nzeros := (nzeros + (Int32.ofInt (toI (((3 : UInt32) &&& ((UInt32.ofInt (toI (((← tbl8 Dec.Gen.BID_PACKED_10000_ZEROS (UInt64.ofInt (toI ((digit_h >>> 3))))) >>> (UInt8.ofInt (toI ((digit_h &&& (7 : UInt32)))))))))))))))
      if (nzeros != (0 : Int32)) then
        CQ := (← mul_64x64_to_128 Q_high (← tbl64 Dec.Gen.BID_RECIPROCALS10_64 (UInt64.ofInt (toI nzeros))))
        amount := (← tblI32 Dec.Gen.BID_SHORT_RECIP_SCALE (UInt64.ofInt (toI nzeros)))
        CQ := { CQ with w0 := (CQ.w1 >>> (UInt64.ofInt (toI amount))) }
      else
        CQ := { CQ with w0 := Q_high }
      CQ := { CQ with w1 := (0 : UInt64) }
      diff_expon := (diff_expon + nzeros)
    else
      tdigit := tdigit.set! 0 (UInt32.ofInt (toI ((Q_low &&& (0x3ffffff : UInt64)))))
      tdigit := tdigit.set! 1 (0 : UInt32)
      QX := (Q_low >>> 0x1a)
      QX32 := (UInt32.ofInt (toI QX))
      nzeros := (0 : Int32)
      j := (0 : Int32)
      for _ in [0:4096] do
        if !(QX32 != (0 : UInt32)) then break
        k := (Int32.ofInt (toI ((QX32 &&& (0x7f : UInt32)))))
        tdigit := tdigit.set! 0 (tdigit[0]! + (← tbl32 Dec.Gen.BID_CONVERT_TABLE (← flatIdx [5, 128, 2] [(UInt64.toNat (UInt64.ofInt (toI j))), (UInt64.toNat (UInt64.ofInt (toI k))), (UInt64.toNat (UInt64.ofInt (toI 0)))])))
        tdigit := tdigit.set! 1 (tdigit[1]! + (← tbl32 Dec.Gen.BID_CONVERT_TABLE (← flatIdx [5, 128, 2] [(UInt64.toNat (UInt64.ofInt (toI j))), (UInt64.toNat (UInt64.ofInt (toI k))), (UInt64.toNat (UInt64.ofInt (toI 1)))])))
        if (decide (tdigit[0]! ≥ (0x5f5e100 : UInt32))) then
          tdigit := tdigit.set! 0 (tdigit[0]! - 0x5f5e100)
          tdigit := tdigit.set! 1 (tdigit[1]! + 1)
        QX32 := (QX32 >>> 7)
        j := (j + 1)
      if (QX32 != (0 : UInt32)) then throw "loop fuel exhausted"
      if (decide (tdigit[1]! ≥ (0x5f5e100 : UInt32))) then
        tdigit := tdigit.set! 1 (tdigit[1]! - 0x5f5e100)
        if (decide (tdigit[1]! ≥ (0x5f5e100 : UInt32))) then
          tdigit := tdigit.set! 1 (tdigit[1]! - 0x5f5e100)
      digit := tdigit[0]!
      if ((digit == (0 : UInt32)) && (tdigit[1]! == (0 : UInt32))) then
        nzeros := (nzeros + 0x10)
      else
        if (digit == (0 : UInt32)) then
          nzeros := (nzeros + 8)
          digit := tdigit[1]!
        PD := (((UInt64.ofInt (toI digit))) * (0x68db8bb : UInt64))
        digit_h := (UInt32.ofInt (toI ((PD >>> 0x28))))
        digit_low := (digit - (digit_h * (0x2710 : UInt32)))
        if (digit_low == (0 : UInt32)) then
          nzeros := (nzeros + 4)
        else
          digit_h := digit_low
        if (((digit_h &&& (1 : UInt32))) != (1 : UInt32)) then
          nzeros := (nzeros + (Int32.ofInt (toI (((3 : UInt32) &&& ((UInt32.ofInt (toI (((← tbl8 Dec.Gen.BID_PACKED_10000_ZEROS (UInt64.ofInt (toI ((digit_h >>> 3))))) >>> (UInt8.ofInt (toI ((digit_h &&& (7 : UInt32)))))))))))))))
      if (nzeros != (0 : Int32)) then
        let t__13 := (← mul_128x128_full CQ (← tbl128 Dec.Gen.BID_RECIPROCALS10_128 (UInt64.ofInt (toI nzeros))))
        Qh := t__13.1
        _Ql := t__13.2
        amount := (← tblI32 Dec.Gen.BID_RECIP_SCALE (UInt64.ofInt (toI nzeros)))
        CQ := (← shr_128 Qh amount)
      diff_expon := (diff_expon + nzeros)
  let t__14 ← bid_get_BID128 sgn diff_expon CQ rnd_mode pfpsf
  pfpsf := t__14.2
  res := t__14.1
  return (res, pfpsf)

/-- the inexact path: round the 34-digit quotient by the mode from the comparison of `2·R` with `Y`, pack; or hand quotient and
sticky remainder to the underflow packer -/
def roundK (sgn : UInt64) (de : Int32) (CQ_ : U128) (CA4 : U256) (CY : U128) (rnd_mode : RoundingMode) (pfpsf_ : UInt32) :
    Except String (U128 × UInt32) := do
  let mut pfpsf : UInt32 := pfpsf_
  let mut diff_expon : Int32 := de
  let mut CQ : U128 := CQ_
  let mut CA4r : U256 := default
  let mut res : U128 := default
  let mut carry64 : UInt64 := default
  let mut D : UInt64 := default
  let mut rmode : RoundingMode := default
  if (decide (diff_expon ≥ (0 : Int32))) then
    rmode := rnd_mode
    if (((sgn) != (0 : UInt64)) && ((decide ((((UInt32.ofInt (toI rmode)) - (1 : UInt32))) < (2 : UInt32))))) then
      rmode := (← RoundingMode.fromU32 ((3 : UInt32) - ((UInt32.ofInt (toI rmode)))))
    let t__15 : RoundingMode := rmode
    if (t__15 == RoundingMode.NearestEven) then
      CA4r := { CA4r with w1 := (((CA4.w1 + CA4.w1)) ||| ((CA4.w0 >>> 0x3f))) }
      CA4r := { CA4r with w0 := (CA4.w0 + CA4.w0) }
      let t__16 := (← sub_borrow_out CA4r.w0 CY.w0)
      CA4r := { CA4r with w0 := t__16.1 }
      carry64 := t__16.2
      CA4r := { CA4r with w1 := ((CA4r.w1 - CY.w1) - carry64) }
      D := (if (((CA4r.w1 ||| CA4r.w0)) != (0 : UInt64)) then 1 else 0)
      carry64 := (UInt64.ofInt (toI (((((1 : Int64) + ((((Int64.ofInt (toI CA4r.w1))) >>> 0x3f)))) &&& ((Int64.ofInt (toI (((CQ.w0) ||| D)))))))))
      CQ := { CQ with w0 := (CQ.w0 + carry64) }
      if (decide (CQ.w0 < carry64)) then
        CQ := { CQ with w1 := (CQ.w1 + 1) }
    else
      if (t__15 == RoundingMode.NearestAway) then
        CA4r := { CA4r with w1 := (((CA4.w1 + CA4.w1)) ||| ((CA4.w0 >>> 0x3f))) }
        CA4r := { CA4r with w0 := (CA4.w0 + CA4.w0) }
        let t__17 := (← sub_borrow_out CA4r.w0 CY.w0)
        CA4r := { CA4r with w0 := t__17.1 }
        carry64 := t__17.2
        CA4r := { CA4r with w1 := ((CA4r.w1 - CY.w1) - carry64) }
        D := (if (((CA4r.w1 ||| CA4r.w0)) != (0 : UInt64)) then 0 else 1)
        carry64 := (UInt64.ofInt (toI (((((1 : Int64) + ((((Int64.ofInt (toI CA4r.w1))) >>> 0x3f)))) ||| ((Int64.ofInt (toI D)))))))
        CQ := { CQ with w0 := (CQ.w0 + carry64) }
        if (decide (CQ.w0 < carry64)) then
          CQ := { CQ with w1 := (CQ.w1 + 1) }
      else
        if ((t__15 == RoundingMode.Downward) || (t__15 == RoundingMode.TowardZero)) then
          pure ()
        else
          CQ := { CQ with w0 := (CQ.w0 + 1) }
          if (CQ.w0 == (0 : UInt64)) then
            CQ := { CQ with w1 := (CQ.w1 + 1) }
  else
    if ((CA4.w0 != (0 : UInt64)) || (CA4.w1 != (0 : UInt64))) then
      let t__18 ← set_status_flags pfpsf c_StatusFlags_BID_INEXACT_EXCEPTION
      pfpsf := t__18
    let t__19 ← bid_handle_UF_128_rem sgn diff_expon CQ (CA4.w1 ||| CA4.w0) rnd_mode pfpsf
    pfpsf := t__19.2
    res := t__19.1
    return (res, pfpsf)
  let t__20 ← bid_get_BID128 sgn diff_expon CQ rnd_mode pfpsf
  pfpsf := t__20.2
  res := t__20.1
  return (res, pfpsf)

/-! ### the pieces of the rounding block -/

def rndNEK {α : Type} (CQ_ : U128) (CA4 : U256) (CY : U128) (k : U128 → Except String α) : Except String α := do
  let mut CQ : U128 := CQ_
  let mut CA4r : U256 := default
  let mut carry64 : UInt64 := default
  let mut D : UInt64 := default
  CA4r := { CA4r with w1 := (((CA4.w1 + CA4.w1)) ||| ((CA4.w0 >>> 0x3f))) }
  CA4r := { CA4r with w0 := (CA4.w0 + CA4.w0) }
  let t__16 := (← sub_borrow_out CA4r.w0 CY.w0)
  CA4r := { CA4r with w0 := t__16.1 }
  carry64 := t__16.2
  CA4r := { CA4r with w1 := ((CA4r.w1 - CY.w1) - carry64) }
  D := (if (((CA4r.w1 ||| CA4r.w0)) != (0 : UInt64)) then 1 else 0)
  carry64 := (UInt64.ofInt (toI (((((1 : Int64) + ((((Int64.ofInt (toI CA4r.w1))) >>> 0x3f)))) &&& ((Int64.ofInt (toI (((CQ.w0) ||| D)))))))))
  CQ := { CQ with w0 := (CQ.w0 + carry64) }
  if (decide (CQ.w0 < carry64)) then
    CQ := { CQ with w1 := (CQ.w1 + 1) }
  k CQ

def rndNAK {α : Type} (CQ_ : U128) (CA4 : U256) (CY : U128) (k : U128 → Except String α) : Except String α := do
  let mut CQ : U128 := CQ_
  let mut CA4r : U256 := default
  let mut carry64 : UInt64 := default
  let mut D : UInt64 := default
  CA4r := { CA4r with w1 := (((CA4.w1 + CA4.w1)) ||| ((CA4.w0 >>> 0x3f))) }
  CA4r := { CA4r with w0 := (CA4.w0 + CA4.w0) }
  let t__17 := (← sub_borrow_out CA4r.w0 CY.w0)
  CA4r := { CA4r with w0 := t__17.1 }
  carry64 := t__17.2
  CA4r := { CA4r with w1 := ((CA4r.w1 - CY.w1) - carry64) }
  D := (if (((CA4r.w1 ||| CA4r.w0)) != (0 : UInt64)) then 0 else 1)
  carry64 := (UInt64.ofInt (toI (((((1 : Int64) + ((((Int64.ofInt (toI CA4r.w1))) >>> 0x3f)))) ||| ((Int64.ofInt (toI D)))))))
  CQ := { CQ with w0 := (CQ.w0 + carry64) }
  if (decide (CQ.w0 < carry64)) then
    CQ := { CQ with w1 := (CQ.w1 + 1) }
  k CQ

def rndUpK {α : Type} (CQ_ : U128) (k : U128 → Except String α) : Except String α := do
  let mut CQ : U128 := CQ_
  CQ := { CQ with w0 := (CQ.w0 + 1) }
  if (CQ.w0 == (0 : UInt64)) then
    CQ := { CQ with w1 := (CQ.w1 + 1) }
  k CQ

/-- the negative-exponent tail: the underflow packer with the sticky remainder word -/
def ufK (sgn : UInt64) (diff_expon : Int32) (CQ : U128) (CA4 : U256) (rnd_mode : RoundingMode) (pfpsf_ : UInt32) :
    Except String (U128 × UInt32) := do
  let mut pfpsf : UInt32 := pfpsf_
  let mut res : U128 := default
  if ((CA4.w0 != (0 : UInt64)) || (CA4.w1 != (0 : UInt64))) then
    let t__18 ← set_status_flags pfpsf c_StatusFlags_BID_INEXACT_EXCEPTION
    pfpsf := t__18
  let t__19 ← bid_handle_UF_128_rem sgn diff_expon CQ (CA4.w1 ||| CA4.w0) rnd_mode pfpsf
  pfpsf := t__19.2
  res := t__19.1
  return (res, pfpsf)

/-- the rounding direction on the magnitude: 0 nearest-even, 1 nearest-away, 2 down, 3 up -/
def effDir (m : RoundingMode) (neg : Bool) : Nat :=
  match m with
  | .NearestEven => 0 | .NearestAway => 1 | .TowardZero => 2
  | .Downward => if neg then 3 else 2
  | .Upward => if neg then 2 else 3

def rndK {α : Type} (d : Nat) (CQ : U128) (CA4 : U256) (CY : U128) (k : U128 → Except String α) : Except String α :=
  match d with
  | 0 => rndNEK CQ CA4 CY k
  | 1 => rndNAK CQ CA4 CY k
  | 2 => k CQ
  | _ => rndUpK CQ k

theorem roundK_eq (sgn : UInt64) (de : Int32) (CQ : U128) (CA4 : U256) (CY : U128) (m : RoundingMode) (pf : UInt32)
    (hs : sgn = 0 ∨ sgn = 0x8000000000000000) :
    roundK sgn de CQ CA4 CY m pf =
      if decide (de ≥ (0 : Int32)) then
        rndK (effDir m (sgn != 0)) CQ CA4 CY (fun CQ' => bind (bid_get_BID128 sgn de CQ' m pf) (fun t => pure (t.1, t.2)))
      else ufK sgn de CQ CA4 m pf := by
  rcases hs with rfl | rfl <;> cases m <;> rfl

/-- after the scaling: the long division, then the exact or the inexact path -/
def afterK (CX CY : U128) (sgn : UInt64) (m : RoundingMode) (f : UInt32) (CQ : U128) (CA4 : U256) (ed2 de : Int32) :
    Except String (U128 × UInt32) :=
  bind (bid___div_256_by_128 CQ CA4 CY) fun t =>
    if ((t.2.w0 != (0 : UInt64)) || (t.2.w1 != (0 : UInt64))) then
      bind (set_status_flags f c_StatusFlags_BID_INEXACT_EXCEPTION) fun pf => roundK sgn de t.1 t.2 CY m pf
    else exactK CX CY t.1 ed2 de sgn m f

/-- the main path as the composition of the blocks -/
def mainK (sx : UInt64) (ex : Int32) (CX : U128) (sy : UInt64) (ey : Int32) (CY : U128) (m : RoundingMode) (f : UInt32) :
    Except String (U128 × UInt32) :=
  bind (unsigned_compare_gt_128 CY CX) fun c =>
    if c then scaleGtK CX CY ((ex - ey) + c_DECIMAL_EXPONENT_BIAS_128) (afterK CX CY (sx ^^^ sy) m f)
    else scaleLeK CX CY ((ex - ey) + c_DECIMAL_EXPONENT_BIAS_128) (sx ^^^ sy) m f (afterK CX CY (sx ^^^ sy) m f)

set_option maxRecDepth 100000 in
set_option maxHeartbeats 1000000 in
/-- **entry into the main path**: for two finite non-zero operands the routine is `mainK` on the unpacked fields -/
theorem div_entry (x y : U128) (m : RoundingMode) (f : UInt32) {s1 s2 : Bool} {c1 c2 : Nat} {e1 e2 : Int}
    (hx : dOf x = .fin s1 c1 e1) (hy : dOf y = .fin s2 c2 e2) (hc1 : c1 ≠ 0) (hc2 : c2 ≠ 0) :
    bid128_div_clear_status x y m f =
      mainK (x.w1 &&& 0x8000000000000000) (Int32.ofInt (e1 + 6176)) (ofBits c1)
        (y.w1 &&& 0x8000000000000000) (Int32.ofInt (e2 + 6176)) (ofBits c2) m f := by
  unfold bid128_div_clear_status
  take_call (Dec.C01GenMul.unp_fin _ _ _ y hy)
  take_call (Dec.C01GenMul.unp_fin _ _ _ x hx)
  take_neg
  · rw [Dec.C01GenMul.ind_nonzero hc1 (Dec.C01GenMul.fin_WF x hx).1]; decide
  take_neg
  · rw [Dec.C01GenMul.ind_nonzero hc2 (Dec.C01GenMul.fin_WF y hy).1]; decide
  rfl

open Dec Dec.C13GenPack

/-! ## 2. `finish` on the values the division hands over -/

/-- `finish` depends on the exact value only -/
theorem finish_congr (mode : Mode) (neg : Bool) (n d n' d' : Nat) (e e' pref : Int)
    (hn : 0 < n) (hd : 0 < d) (hn' : 0 < n') (hd' : 0 < d')
    (hv : (n : ℚ) / d * (10 : ℚ) ^ e = (n' : ℚ) / d' * (10 : ℚ) ^ e') :
    finish mode neg n d e pref = finish mode neg n' d' e' pref := by
  rw [finish_eq_iff mode neg n d e pref hn hd, hv]
  exact finish_spec_strict mode neg n' d' e' pref hn' hd'

theorem ilog_33 (n d : Nat) (hd : 0 < d) (h1 : 10 ^ 33 * d ≤ n) (h2 : n < 10 ^ 34 * d) : ilog10Ratio n d = 33 := by
  have hn : 0 < n := lt_of_lt_of_le (by positivity) h1
  obtain ⟨a, b⟩ := ilog10Ratio_spec hn hd
  have hdq : (0 : ℚ) < d := by exact_mod_cast hd
  have l1 : (10 : ℚ) ^ (33 : ℤ) ≤ (n : ℚ) / d := by
    rw [le_div_iff₀ hdq]; exact_mod_cast h1
  have l2 : (n : ℚ) / d < (10 : ℚ) ^ (34 : ℤ) := by
    rw [div_lt_iff₀ hdq]; exact_mod_cast h2
  have c1 : ilog10Ratio n d < 34 := by
    have := lt_of_le_of_lt a l2
    exact (zpow_lt_zpow_iff_right₀ one_lt_ten).1 this
  have c2 : (33 : ℤ) < ilog10Ratio n d + 1 := by
    have := lt_of_le_of_lt l1 b
    exact (zpow_lt_zpow_iff_right₀ one_lt_ten).1 this
  omega

/-- **`finish` on a normalised inexact quotient**: `(Q·Y + ρ)/Y · 10^e` with `10^33 ≤ Q < 10^34`, `0 < ρ < Y`, `e ≥ eMin`:
one rounding of `Q + ρ/Y` at exponent `e`, a carry to `10^34` renormalised, overflow above `eMax`, inexact, never underflow -/
theorem finish_normal (mode : Mode) (neg : Bool) (Q Y ρ : Nat) (e pref : Int)
    (hQ1 : 10 ^ 33 ≤ Q) (hQ2 : Q < 10 ^ 34) (hρ0 : 0 < ρ) (hρ : ρ < Y) (he : eMin ≤ e) :
    finish mode neg (Q * Y + ρ) Y e pref =
      if roundInt mode neg Q ρ Y = P34 then
        (if e + 1 > eMax then (overflowResult mode neg, fOverflow ||| fInexact) else (.fin neg P33 (e + 1), fInexact))
      else
        (if e > eMax then (overflowResult mode neg, fOverflow ||| fInexact)
         else (.fin neg (roundInt mode neg Q ρ Y) e, fInexact)) := by
  have hY : 0 < Y := by omega
  have hil : ilog10Ratio (Q * Y + ρ) Y = 33 := by
    apply ilog_33 _ _ hY
    · have := Nat.mul_le_mul_right Y hQ1; omega
    · have : (Q + 1) * Y ≤ 10 ^ 34 * Y := Nat.mul_le_mul_right Y (by omega)
      rw [Nat.add_mul] at this; omega
  have hq : (Q * Y + ρ) / Y = Q := by
    rw [Nat.mul_comm, Nat.mul_add_div hY, Nat.div_eq_of_lt hρ, Nat.add_zero]
  have hr : (Q * Y + ρ) % Y = ρ := by
    rw [Nat.mul_comm, Nat.mul_add_mod, Nat.mod_eq_of_lt hρ]
  rw [finish_eq, hil]
  unfold eMin at he
  by_cases hbig : 33 + e > 7000
  · rw [if_pos hbig]
    have h1 : e + 1 > eMax := by unfold eMax; omega
    have h2 : e > eMax := by unfold eMax; omega
    rw [if_pos h1, if_pos h2, ite_self]
  rw [if_neg hbig, if_neg (by omega)]
  have hx0 : fx0 (33 + e) = e := by unfold fx0 eMin; rw [if_neg (by omega)]; omega
  have htiny : decide (33 + e - 33 < eMin) = false := by unfold eMin; rw [decide_eq_false_iff_not]; omega
  rw [hx0, htiny, Int.sub_self]
  have hnum : fnum (Q * Y + ρ) 0 = Q * Y + ρ := by unfold fnum; simp
  have hden : fden Y 0 = Y := by unfold fden; simp
  rw [hnum, hden]
  by_cases hm : roundInt mode neg Q ρ Y = P34
  · rw [if_pos hm, finishAt_inexact_carry _ _ _ _ _ _ _ (by rw [hr]; omega) (by rw [hq, hr]; exact hm)]
    rfl
  · rw [if_neg hm, finishAt_inexact _ _ _ _ _ _ _ (by rw [hr]; omega) (by rw [hq, hr]; exact hm), hq, hr]
    rfl

/-! ## 3. The rounding block -/

theorem ofInt_u (w : UInt64) : Int64.ofInt (toI w) = w.toInt64 := by
  apply Int64.toBitVec_inj.1
  show (Int64.ofInt (w.toNat : Int)).toBitVec = w.toBitVec
  rw [Int64.toBitVec_ofInt]
  apply BitVec.eq_of_toNat_eq
  simp
theorem toInt_u (w : UInt64) : w.toInt64.toInt = if w.toNat < 2^63 then (w.toNat : Int) else (w.toNat : Int) - 2^64 := by
  show w.toBitVec.toInt = _
  rw [BitVec.toInt_eq_toNat_cond]
  show (if 2 * w.toNat < 2^64 then (w.toNat : Int) else (w.toNat : Int) - _) = _
  split <;> split <;> omega
theorem toU_i (x : Int64) : UInt64.ofInt (toI x) = x.toUInt64 := by
  apply UInt64.toNat_inj.1
  show (UInt64.ofInt x.toInt).toNat = _
  have h : x.toInt = x.toUInt64.toInt64.toInt := rfl
  rw [h, toInt_u]
  unfold UInt64.ofInt
  rw [UInt64.toNat_ofNat']
  have := x.toUInt64.toNat_lt
  split <;> omega
theorem sar63 (w : UInt64) : (Int64.ofInt (toI w)) >>> (0x3f : Int64) = if w.toNat < 2^63 then 0 else -1 := by
  rw [ofInt_u]
  apply Int64.toInt_inj.1
  show ((w.toInt64).toBitVec.sshiftRight' ((0x3f : Int64).toBitVec.smod 64)).toInt = _
  rw [BitVec.toInt_sshiftRight']
  have : ((0x3f : Int64).toBitVec.smod 64).toNat = 63 := by decide
  rw [this, Int.shiftRight_eq_div_pow]
  show w.toInt64.toInt / _ = _
  rw [toInt_u]
  have := w.toNat_lt
  split
  · show _ = (0:Int); omega
  · show _ = (-1:Int); omega
theorem carryNE (s1 v : UInt64) :
    UInt64.ofInt (toI ((((1 : Int64) + ((((Int64.ofInt (toI s1))) >>> 0x3f)))) &&& ((Int64.ofInt (toI v)))))
      = if s1.toNat < 2^63 then v &&& 1 else 0 := by
  rw [sar63, toU_i, Int64.toUInt64_and, ofInt_u]
  split
  · show (1 : UInt64) &&& v = _
    exact UInt64.and_comm _ _
  · show (0 : UInt64) &&& v = _
    exact UInt64.zero_and
theorem carryNA (s1 D : UInt64) :
    UInt64.ofInt (toI ((((1 : Int64) + ((((Int64.ofInt (toI s1))) >>> 0x3f)))) ||| ((Int64.ofInt (toI D)))))
      = if s1.toNat < 2^63 then 1 ||| D else D := by
  rw [sar63, toU_i, Int64.toUInt64_or, ofInt_u]
  split
  · rfl
  · show (0 : UInt64) ||| D = _
    exact UInt64.zero_or

/-- the words of `2·R − Y` (mod 2^128) as the code forms them -/
def dblSub (r0 r1 y0 y1 : UInt64) : UInt64 × UInt64 :=
  ((r0 + r0) - y0, (((r1 + r1) ||| (r0 >>> 0x3f)) - y1) - (if decide ((r0 + r0) - y0 > r0 + r0) then 1 else 0))

theorem dblSub_spec (r0 r1 y0 y1 : UInt64) (hR : r0.toNat + 2 ^ 64 * r1.toNat < 2 ^ 113)
    (hY : y0.toNat + 2 ^ 64 * y1.toNat < 2 ^ 113) :
    ((dblSub r0 r1 y0 y1).2.toNat < 2 ^ 63 ↔ y0.toNat + 2 ^ 64 * y1.toNat ≤ 2 * (r0.toNat + 2 ^ 64 * r1.toNat)) ∧
    (((dblSub r0 r1 y0 y1).2 ||| (dblSub r0 r1 y0 y1).1) = 0 ↔
      2 * (r0.toNat + 2 ^ 64 * r1.toNat) = y0.toNat + 2 ^ 64 * y1.toNat) := by
  have h0 := r0.toNat_lt; have h1 := r1.toNat_lt; have h2 := y0.toNat_lt; have h3 := y1.toNat_lt
  have hw1 : ((r1 + r1) ||| (r0 >>> 0x3f)).toNat = 2 * r1.toNat + r0.toNat / 2 ^ 63 := by
    rw [UInt64.toNat_or, UInt64.toNat_add, UInt64.toNat_shiftRight, show (0x3f : UInt64).toNat % 64 = 63 from by decide,
      Nat.shiftRight_eq_div_pow, Nat.mod_eq_of_lt (by omega)]
    have := Nat.shiftLeft_add_eq_or_of_lt (i := 1) (b := r0.toNat / 2 ^ 63) (by omega) r1.toNat
    rw [Nat.shiftLeft_eq] at this
    rw [show r1.toNat + r1.toNat = r1.toNat * 2 ^ 1 from by omega, ← this]; omega
  have hw0 : (r0 + r0).toNat = (2 * r0.toNat) % 2 ^ 64 := by rw [UInt64.toNat_add]; congr 1; omega
  have hb : (if decide ((r0 + r0) - y0 > r0 + r0) then (1 : UInt64) else 0).toNat = if (r0 + r0).toNat < y0.toNat then 1 else 0 := by
    have : ((r0 + r0) - y0 > r0 + r0) ↔ (r0 + r0).toNat < y0.toNat := by
      rw [gt_iff_lt, UInt64.lt_iff_toNat_lt, UInt64.toNat_sub]
      have := (r0 + r0).toNat_lt
      omega
    by_cases h : (r0 + r0).toNat < y0.toNat
    · rw [decide_eq_true (this.2 h), if_pos rfl, if_pos h]; rfl
    · rw [decide_eq_false (fun x => h (this.1 x)), if_neg (by decide), if_neg h]; rfl
  have e1 : (dblSub r0 r1 y0 y1).1.toNat = (2 ^ 64 - y0.toNat + (2 * r0.toNat) % 2 ^ 64) % 2 ^ 64 := by
    show ((r0 + r0) - y0).toNat = _
    rw [UInt64.toNat_sub, hw0]
  have e2 : (dblSub r0 r1 y0 y1).2.toNat =
      (2 ^ 64 - (if (r0 + r0).toNat < y0.toNat then 1 else 0)
        + (2 ^ 64 - y1.toNat + (2 * r1.toNat + r0.toNat / 2 ^ 63)) % 2 ^ 64) % 2 ^ 64 := by
    show ((((r1 + r1) ||| (r0 >>> 0x3f)) - y1) - _).toNat = _
    rw [UInt64.toNat_sub, UInt64.toNat_sub, hw1, hb]
  have hz : ((dblSub r0 r1 y0 y1).2 ||| (dblSub r0 r1 y0 y1).1) = 0 ↔
      (dblSub r0 r1 y0 y1).2.toNat = 0 ∧ (dblSub r0 r1 y0 y1).1.toNat = 0 := by
    rw [← UInt64.toNat_inj, UInt64.toNat_or]
    show _ ||| _ = 0 ↔ _
    rw [Nat.or_eq_zero_iff]
  rw [hz, e1, e2, hw0]
  constructor <;> (split <;> omega)

theorem rndNEK_eq {α : Type} (CQ : U128) (CA4 : U256) (CY : U128) (k : U128 → Except String α) :
    rndNEK CQ CA4 CY k =
      (let d := dblSub CA4.w0 CA4.w1 CY.w0 CY.w1
       let D : UInt64 := if ((d.2 ||| d.1) != (0 : UInt64)) then 1 else 0
       let c := UInt64.ofInt (toI ((((1 : Int64) + ((((Int64.ofInt (toI d.2))) >>> 0x3f)))) &&& ((Int64.ofInt (toI (CQ.w0 ||| D))))))
       if decide (CQ.w0 + c < c) then k ⟨CQ.w0 + c, CQ.w1 + 1⟩ else k ⟨CQ.w0 + c, CQ.w1⟩) := rfl
theorem rndNAK_eq {α : Type} (CQ : U128) (CA4 : U256) (CY : U128) (k : U128 → Except String α) :
    rndNAK CQ CA4 CY k =
      (let d := dblSub CA4.w0 CA4.w1 CY.w0 CY.w1
       let D : UInt64 := if ((d.2 ||| d.1) != (0 : UInt64)) then 0 else 1
       let c := UInt64.ofInt (toI ((((1 : Int64) + ((((Int64.ofInt (toI d.2))) >>> 0x3f)))) ||| ((Int64.ofInt (toI D)))))
       if decide (CQ.w0 + c < c) then k ⟨CQ.w0 + c, CQ.w1 + 1⟩ else k ⟨CQ.w0 + c, CQ.w1⟩) := rfl
theorem rndUpK_eq {α : Type} (CQ : U128) (k : U128 → Except String α) :
    rndUpK CQ k = if (CQ.w0 + 1 == (0 : UInt64)) then k ⟨CQ.w0 + 1, CQ.w1 + 1⟩ else k ⟨CQ.w0 + 1, CQ.w1⟩ := rfl

/-- adding a carry of 0 or 1 to a two-word number, as the code does it -/
theorem addc {α : Type} (CQ : U128) (c : UInt64) (k : U128 → α) (hc : c.toNat ≤ 1) (hQ : CQ.toNat' + 1 < 2 ^ 128) :
    ∃ CQ' : U128, (if decide (CQ.w0 + c < c) then k ⟨CQ.w0 + c, CQ.w1 + 1⟩ else k ⟨CQ.w0 + c, CQ.w1⟩) = k CQ' ∧
      CQ'.toNat' = CQ.toNat' + c.toNat := by
  have h0 := CQ.w0.toNat_lt; have h1 := CQ.w1.toNat_lt
  unfold U128.toNat' at hQ ⊢
  have hlt : (CQ.w0 + c < c) ↔ CQ.w0.toNat + c.toNat ≥ 2 ^ 64 := by
    rw [UInt64.lt_iff_toNat_lt, UInt64.toNat_add]; omega
  by_cases h : CQ.w0.toNat + c.toNat ≥ 2 ^ 64
  · rw [decide_eq_true (hlt.2 h), if_pos rfl]
    refine ⟨_, rfl, ?_⟩
    show (CQ.w0 + c).toNat + 2 ^ 64 * (CQ.w1 + 1).toNat = _
    rw [UInt64.toNat_add, UInt64.toNat_add, show (1 : UInt64).toNat = 1 from rfl]; omega
  · rw [decide_eq_false (fun x => h (hlt.1 x)), if_neg (by decide)]
    refine ⟨_, rfl, ?_⟩
    show (CQ.w0 + c).toNat + 2 ^ 64 * CQ.w1.toNat = _
    rw [UInt64.toNat_add]; omega

/-- **the rounding block**: the quotient goes up by one exactly when the model's `roundUp` says so -/
theorem rndK_spec {α : Type} (m : RoundingMode) (neg : Bool) (CQ : U128) (CA4 : U256) (CY : U128)
    (k : U128 → Except String α)
    (hR0 : 0 < CA4.w0.toNat + 2 ^ 64 * CA4.w1.toNat) (hRY : CA4.w0.toNat + 2 ^ 64 * CA4.w1.toNat < CY.toNat')
    (hY : CY.toNat' < 2 ^ 113) (hQ : CQ.toNat' + 1 < 2 ^ 128) :
    ∃ CQ' : U128, rndK (effDir m neg) CQ CA4 CY k = k CQ' ∧
      CQ'.toNat' = roundInt (md m) neg CQ.toNat' (CA4.w0.toNat + 2 ^ 64 * CA4.w1.toNat) CY.toNat' := by
  have hYw : CY.w0.toNat + 2 ^ 64 * CY.w1.toNat < 2 ^ 113 := hY
  obtain ⟨hs, hz⟩ := dblSub_spec CA4.w0 CA4.w1 CY.w0 CY.w1 (by unfold U128.toNat' at hRY; omega) hYw
  have hodd : (CQ.toNat' % 2 == 1) = decide (CQ.w0.toNat % 2 = 1) := by
    unfold U128.toNat'; rw [Bool.eq_iff_iff]; simp only [beq_iff_eq, decide_eq_true_eq]; omega
  generalize hRd : CA4.w0.toNat + 2 ^ 64 * CA4.w1.toNat = R at *
  have hYd : CY.w0.toNat + 2 ^ 64 * CY.w1.toNat = CY.toNat' := rfl
  rw [hYd] at hs hz
  generalize CY.toNat' = Y at *
  have key : ∀ (b : Bool) (c : UInt64), c.toNat = (if b then 1 else 0) → roundUp (md m) neg (CQ.toNat' % 2 == 1) R Y = b →
      ∃ CQ' : U128, (if decide (CQ.w0 + c < c) then k ⟨CQ.w0 + c, CQ.w1 + 1⟩ else k ⟨CQ.w0 + c, CQ.w1⟩) = k CQ' ∧
        CQ'.toNat' = roundInt (md m) neg CQ.toNat' R Y := by
    intro b c hc hb
    obtain ⟨CQ', h1, h2⟩ := addc CQ c k (by rw [hc]; split <;> omega) hQ
    refine ⟨CQ', h1, ?_⟩
    unfold roundInt; rw [hb, h2, hc]; cases b <;> rfl
  have hR0' : ¬ R = 0 := by omega
  have down : roundUp (md m) neg (CQ.toNat' % 2 == 1) R Y = false → ∃ CQ' : U128, k CQ = k CQ' ∧ CQ'.toNat' = roundInt (md m) neg CQ.toNat' R Y := by
    intro hb; refine ⟨CQ, rfl, ?_⟩; unfold roundInt; rw [hb]; rfl
  have up : roundUp (md m) neg (CQ.toNat' % 2 == 1) R Y = true → ∃ CQ' : U128, rndUpK CQ k = k CQ' ∧ CQ'.toNat' = roundInt (md m) neg CQ.toNat' R Y := by
    intro hb
    rw [rndUpK_eq]
    have e : (CQ.w0 + 1 == (0 : UInt64)) = decide (CQ.w0 + 1 < 1) := by
      rw [Bool.eq_iff_iff, beq_iff_eq, decide_eq_true_eq, UInt64.lt_iff_toNat_lt, ← UInt64.toNat_inj]
      show _ = 0 ↔ _ < 1
      omega
    rw [e]
    exact key true 1 rfl hb
  have ne : md m = .rne → ∃ CQ' : U128, rndNEK CQ CA4 CY k = k CQ' ∧ CQ'.toNat' = roundInt (md m) neg CQ.toNat' R Y := by
    intro hm
    rw [rndNEK_eq]; dsimp only; rw [carryNE]
    apply key (decide (2 * R > Y) || (decide (2 * R = Y) && (CQ.toNat' % 2 == 1)))
    · by_cases c1 : Y ≤ 2 * R
      · rw [if_pos (hs.2 c1)]
        by_cases c2 : 2 * R = Y
        · rw [(bne_eq_false_iff_eq).2 (hz.2 c2), if_neg (by decide), UInt64.toNat_and, UInt64.toNat_or, hodd]
          have : ¬ 2 * R > Y := by omega
          simp only [this, c2, decide_true, decide_false, Bool.true_and, Bool.false_or]
          show (CQ.w0.toNat ||| 0) &&& 1 = _
          rw [Nat.or_zero, Nat.and_one_is_mod]
          by_cases hp : CQ.w0.toNat % 2 = 1 <;> simp [hp] <;> omega
        · have : 2 * R > Y := by omega
          have hne : ((dblSub CA4.w0 CA4.w1 CY.w0 CY.w1).2 ||| (dblSub CA4.w0 CA4.w1 CY.w0 CY.w1).1 != 0) = true := by
            rw [bne_iff_ne]; exact fun h => c2 (hz.1 h)
          rw [hne, if_pos rfl, UInt64.toNat_and, UInt64.toNat_or]
          simp only [this, decide_true, Bool.true_or, if_true]
          show (CQ.w0.toNat ||| 1) &&& 1 = 1
          rw [Nat.and_one_is_mod]
          have := Nat.or_mod_two_eq_one (a := CQ.w0.toNat) (b := 1)
          omega
      · rw [if_neg (fun h => c1 (hs.1 h))]
        have h1 : ¬ 2 * R > Y := by omega
        have h2 : ¬ 2 * R = Y := by omega
        simp only [h1, h2, decide_false, Bool.false_and, Bool.or_false]; rfl
    · unfold roundUp; rw [if_neg hR0', hm]
  have na : md m = .rna → ∃ CQ' : U128, rndNAK CQ CA4 CY k = k CQ' ∧ CQ'.toNat' = roundInt (md m) neg CQ.toNat' R Y := by
    intro hm
    rw [rndNAK_eq]; dsimp only; rw [carryNA]
    apply key (decide (2 * R ≥ Y))
    · by_cases c1 : Y ≤ 2 * R
      · rw [if_pos (hs.2 c1), decide_eq_true (show 2 * R ≥ Y from c1), if_pos rfl, UInt64.toNat_or]
        split <;> rfl
      · rw [if_neg (fun h => c1 (hs.1 h)), decide_eq_false (show ¬ 2 * R ≥ Y from c1), if_neg (show ¬ (false = true) by decide)]
        have hne : ((dblSub CA4.w0 CA4.w1 CY.w0 CY.w1).2 ||| (dblSub CA4.w0 CA4.w1 CY.w0 CY.w1).1 != 0) = true := by
          rw [bne_iff_ne]; exact fun h => c1 (by have := hz.1 h; omega)
        rw [hne, if_pos rfl]; rfl
    · unfold roundUp; rw [if_neg hR0', hm]
  cases m <;> cases neg
  all_goals first
    | exact ne rfl
    | exact na rfl
    | exact down (by unfold roundUp; rw [if_neg hR0']; rfl)
    | exact up (by unfold roundUp; rw [if_neg hR0']; rfl)

/-! ## 4. Packing the rounded quotient; the inexact tail -/

open Dec.C13PackHelpers (norm34 bits)

theorem ovf_WF (mode : Mode) (neg : Bool) : (overflowResult mode neg).WF := by
  cases mode <;> cases neg <;> simp [overflowResult, Datum.WF, P34, eMin, eMax]

/-- **`bid_get_BID128` on a rounded 34-digit quotient** (`10^33 ≤ M ≤ 10^34`, biased exponent `≥ 0`, any status word): the
datum `M·10^(e−6176)` with `10^34` renormalised, or the overflow result with overflow and inexact OR-ed in -/
theorem get_normal (sgn : UInt64) (de : Int32) (CQ : U128) (m : RoundingMode) (pf : UInt32)
    (hs : sgn = 0 ∨ sgn = 0x8000000000000000) (h1 : 10 ^ 33 ≤ CQ.toNat') (h2 : CQ.toNat' ≤ 10 ^ 34)
    (hde : 0 ≤ de.toInt) (hde2 : de.toInt < 2147483647) :
    ∃ res fl, bid_get_BID128 sgn de CQ m pf = .ok (res, fl) ∧
      (decode (bitsOf res), fl.toNat) =
        if CQ.toNat' = P34 then
          (if de.toInt - 6176 + 1 > eMax then (overflowResult (md m) (decide (sgn ≠ 0)), pf.toNat ||| (fOverflow ||| fInexact))
           else (.fin (decide (sgn ≠ 0)) P33 (de.toInt - 6176 + 1), pf.toNat))
        else
          (if de.toInt - 6176 > eMax then (overflowResult (md m) (decide (sgn ≠ 0)), pf.toNat ||| (fOverflow ||| fInexact))
           else (.fin (decide (sgn ≠ 0)) CQ.toNat' (de.toInt - 6176), pf.toNat)) := by
  obtain ⟨hs', hd⟩ := sgn_cases sgn hs
  have hC : CQ.w0.toNat + 2 ^ 64 * CQ.w1.toNat = CQ.toNat' := rfl
  have hbits : ∀ res : U128, bits (pr res) = bitsOf res := fun res => rfl
  have hP34 : P34 = 10 ^ 34 := by decide
  have hP33 : P33 = 10 ^ 33 := by decide
  have main : ∀ (C' : Nat) (e' : Int), norm34 CQ.toNat' de.toInt = (C', e') → 10 ^ 33 ≤ C' → C' < 10 ^ 34 → 0 ≤ e' →
      ∃ res fl, bid_get_BID128 sgn de CQ m pf = .ok (res, fl) ∧
        (decode (bitsOf res), fl.toNat) =
          (if e' - 6176 > eMax then (overflowResult (md m) (decide (sgn ≠ 0)), pf.toNat ||| (fOverflow ||| fInexact))
           else (.fin (decide (sgn ≠ 0)) C' (e' - 6176), pf.toNat)) := by
    intro C' e' hn a1 a2 a3
    unfold eMax
    by_cases hin : e' ≤ 12287
    · obtain ⟨r, hmod, hb⟩ := C13PackHelpers.get_in_range sgn.toNat de.toInt CQ.w0.toNat CQ.w1.toNat (md m) pf.toNat hs'
        CQ.w0.toNat_lt CQ.w1.toNat_lt (by rw [hC]; exact h2) (by rw [hC, hn]; exact a3) (by rw [hC, hn]; exact hin)
      obtain ⟨res, fl, hcode, hp, hq⟩ := get_bridge sgn de CQ m pf r pf.toNat hmod
      refine ⟨res, fl, hcode, ?_⟩
      rw [hq, ← hbits, hp, hb, hC, hd, hn]
      simp only
      rw [decode_encode (show Datum.WF (.fin _ _ _) from ⟨by rw [hP34]; exact a2, by unfold eMin; omega, by unfold eMax; omega⟩),
        if_neg (by omega)]
    · obtain ⟨-, hov⟩ := C13PackHelpers.get_overflow sgn.toNat de.toInt CQ.w0.toNat CQ.w1.toNat (md m) pf.toNat hs'
        CQ.w0.toNat_lt CQ.w1.toNat_lt (by rw [hC]; exact h2) de.le_toInt hde2 (by rw [hC, hn]; show e' > 12287; omega)
      rw [hC, hn] at hov
      simp only at hov
      have hbig : ¬ C' * 10 ^ (e' - 12287).toNat < 10 ^ 34 := by
        have hk : 1 ≤ (e' - 12287).toNat := by omega
        have : 10 ^ 1 ≤ 10 ^ (e' - 12287).toNat := Nat.pow_le_pow_right (by decide) hk
        have := Nat.mul_le_mul a1 this
        omega
      obtain ⟨r, hmod, hb⟩ := hov hbig
      obtain ⟨res, fl, hcode, hp, hq⟩ := get_bridge sgn de CQ m pf r _ hmod
      refine ⟨res, fl, hcode, ?_⟩
      rw [hq, ← hbits, hp, hb, hd, decode_encode (ovf_WF _ _), if_pos (by omega)]
  by_cases h34 : CQ.toNat' = P34
  · rw [if_pos h34]
    have := main P33 (de.toInt + 1) (by unfold norm34; rw [if_pos (by rw [h34, hP34])]; rfl) (by rw [hP33]) (by rw [hP33]; norm_num) (by omega)
    rw [show de.toInt + 1 - 6176 = de.toInt - 6176 + 1 from by omega] at this
    exact this
  · rw [if_neg h34]
    exact main CQ.toNat' de.toInt (by unfold norm34; rw [if_neg (by rw [← hP34]; exact h34)]) h1 (by omega) hde
theorem bind_eta {α β : Type} (x : Except String (α × β)) : (bind x fun t => pure (t.1, t.2)) = x := by
  cases x <;> rfl

theorem i32_ge0 (e : Int32) : decide (e ≥ (0 : Int32)) = decide (0 ≤ e.toInt) := by
  rw [Bool.eq_iff_iff, decide_eq_true_eq, decide_eq_true_eq, ge_iff_le, Int32.le_iff_toInt_le]; rfl

/-- **the inexact tail is `finish` on the exact quotient**: from the 34-digit truncated quotient `Q`, the remainder `0 < R < Y` and
the exponent, with the status word holding exactly the inexact flag just raised -/
theorem inexact_tail (sgn : UInt64) (de : Int32) (CQ : U128) (r : U256) (CY : U128) (m : RoundingMode) (pref : Int)
    (hs : sgn = 0 ∨ sgn = 0x8000000000000000)
    (hQ1 : 10 ^ 33 ≤ CQ.toNat') (hQ2 : CQ.toNat' < 10 ^ 34)
    (hR0 : 0 < r.w0.toNat + 2 ^ 64 * r.w1.toNat) (hRY : r.w0.toNat + 2 ^ 64 * r.w1.toNat < CY.toNat')
    (hY : CY.toNat' < 10 ^ 34) (hde2 : de.toInt < 2147483647) :
    ∃ res fl, roundK sgn de CQ r CY m c_StatusFlags_BID_INEXACT_EXCEPTION = .ok (res, fl) ∧
      (decode (bitsOf res), fl.toNat) =
        finish (md m) (decide (sgn ≠ 0)) (CQ.toNat' * CY.toNat' + (r.w0.toNat + 2 ^ 64 * r.w1.toNat)) CY.toNat'
          (de.toInt - 6176) pref := by
  rw [roundK_eq _ _ _ _ _ _ _ hs, i32_ge0]
  have hneg : (sgn != 0) = decide (sgn ≠ 0) := by rcases hs with rfl | rfl <;> rfl
  by_cases hde : 0 ≤ de.toInt
  · rw [decide_eq_true hde, if_pos rfl]
    obtain ⟨CQ', hk, hv⟩ := rndK_spec m (sgn != 0) CQ r CY
      (fun CQ' => bind (bid_get_BID128 sgn de CQ' m c_StatusFlags_BID_INEXACT_EXCEPTION) (fun t => pure (t.1, t.2)))
      hR0 hRY (lt_trans hY (by norm_num)) (by have : (10:Nat) ^ 34 < 2 ^ 127 := by norm_num
                                              omega)
    rw [hk, bind_eta]
    have hle : CQ'.toNat' ≤ CQ.toNat' + 1 := by rw [hv]; unfold roundInt; split <;> omega
    have hge : CQ.toNat' ≤ CQ'.toNat' := by rw [hv]; unfold roundInt; split <;> omega
    obtain ⟨res, fl, hc, hdec⟩ := get_normal sgn de CQ' m c_StatusFlags_BID_INEXACT_EXCEPTION hs (by omega) (by omega) hde hde2
    refine ⟨res, fl, hc, ?_⟩
    rw [hdec, finish_normal (md m) _ _ _ _ _ pref hQ1 hQ2 hR0 hRY (by unfold eMin; omega), ← hneg, ← hv]
    rfl
  · rw [decide_eq_false hde, if_neg (by decide)]
    have hne : ((r.w0 != (0 : UInt64)) || (r.w1 != (0 : UInt64))) = true := by
      by_contra h
      rw [Bool.not_eq_true, Bool.or_eq_false_iff, bne_eq_false_iff_eq, bne_eq_false_iff_eq] at h
      rw [h.1, h.2] at hR0
      exact absurd hR0 (by decide)
    have hword : r.w1 ||| r.w0 ≠ 0 := by
      intro h
      rw [← UInt64.toNat_inj, UInt64.toNat_or] at h
      have := Nat.or_eq_zero_iff.1 h
      omega
    obtain ⟨res, fl, hc, hfl, hdec⟩ := handle_uf_rem_eq_finish sgn de CQ (r.w1 ||| r.w0) m c_StatusFlags_BID_INEXACT_EXCEPTION
      CY.toNat' (r.w0.toNat + 2 ^ 64 * r.w1.toNat) pref hs (Or.inr rfl) (by omega)
      (by rw [bitsOf_eq]; exact hQ2) hword hR0 hRY
    refine ⟨res, fl, ?_, ?_⟩
    · unfold ufK
      take_pos
      · exact hne
      take_call (show set_status_flags c_StatusFlags_BID_INEXACT_EXCEPTION c_StatusFlags_BID_INEXACT_EXCEPTION = .ok c_StatusFlags_BID_INEXACT_EXCEPTION from rfl)
      take_call hc
      rfl
    · rw [hfl, hdec, bitsOf_eq]; rfl

/-! ## 5. From the scaled operands to the result (inexact case) -/

/-- **what the assembly needs of the one call of the long division** `bid___div_256_by_128 CQ A CY`: it returns `CQ + ⌊A/Y⌋` and,
in the two low words of its second result, `A mod Y`.  The routine is NOT exact for every call `bid128_div` makes (defect found by
the proof of the routine itself, `C01GenDiv256.div_256_by_128_defect`: in the branch `CX ≥ CY` a dividend `≥ 2^192` whose quotient
is below `2^100` can skip the second estimation stage), so this is a hypothesis about the call at hand. -/
def Div256ExactAt (CQ : U128) (A : U256) (CY : U128) : Prop :=
  ∃ (q : U128) (r : U256), bid___div_256_by_128 CQ A CY = .ok (q, r) ∧
    q.toNat' = CQ.toNat' + A.toNat' / CY.toNat' ∧ r.w0.toNat + 2 ^ 64 * r.w1.toNat = A.toNat' % CY.toNat'

/-- **from the scaled operands to the result, inexact case**: if `CQ·Y + A = N` with `10^33·Y ≤ N < 10^34·Y` and `Y ∤ N`, the
rest of the routine returns `finish` of `N/Y` at the exponent it carries -/
theorem after_inexact (CX CY : U128) (sgn : UInt64) (m : RoundingMode) (CQ : U128) (CA4 : U256)
    (ed2 de : Int32) (N : Nat) (pref : Int) (hs : sgn = 0 ∨ sgn = 0x8000000000000000)
    (hY : CY.toNat' < 10 ^ 34) (hsum : CQ.toNat' * CY.toNat' + CA4.toNat' = N)
    (hlo : 10 ^ 33 * CY.toNat' ≤ N) (hhi : N < 10 ^ 34 * CY.toNat') (hnd : N % CY.toNat' ≠ 0)
    (hde2 : de.toInt < 2147483647) (h256 : Div256ExactAt CQ CA4 CY) :
    ∃ res fl, afterK CX CY sgn m 0 CQ CA4 ed2 de = .ok (res, fl) ∧
      (decode (bitsOf res), fl.toNat) = finish (md m) (decide (sgn ≠ 0)) N CY.toNat' (de.toInt - 6176) pref := by
  have hY0 : 0 < CY.toNat' := by
    rcases Nat.eq_zero_or_pos CY.toNat' with h | h
    · rw [h] at hhi; omega
    · exact h
  generalize hYd : CY.toNat' = Y at *
  have hq : CQ.toNat' + CA4.toNat' / Y = N / Y := by
    rw [← hsum, Nat.mul_comm, Nat.mul_add_div hY0]
  have hr : CA4.toNat' % Y = N % Y := by
    rw [← hsum, Nat.mul_comm, Nat.mul_add_mod]
  have hN1 : 10 ^ 33 ≤ N / Y := (Nat.le_div_iff_mul_le hY0).2 hlo
  have hN2 : N / Y < 10 ^ 34 := (Nat.div_lt_iff_lt_mul hY0).2 hhi
  obtain ⟨q, r, hc, hqv, hrv⟩ := h256
  rw [hYd, hq] at hqv
  rw [hYd, hr] at hrv
  have hR0 : 0 < r.w0.toNat + 2 ^ 64 * r.w1.toNat := by rw [hrv]; omega
  have hne : ((r.w0 != (0 : UInt64)) || (r.w1 != (0 : UInt64))) = true := by
    by_contra h
    rw [Bool.not_eq_true, Bool.or_eq_false_iff, bne_eq_false_iff_eq, bne_eq_false_iff_eq] at h
    rw [h.1, h.2] at hR0
    exact absurd hR0 (by decide)
  obtain ⟨res, fl, hk, hdec⟩ := inexact_tail sgn de q r CY m pref hs (by rw [hqv]; exact hN1) (by rw [hqv]; exact hN2)
    hR0 (by rw [hrv, hYd]; exact Nat.mod_lt _ hY0) (by rw [hYd]; exact hY) hde2
  refine ⟨res, fl, ?_, ?_⟩
  · unfold afterK
    rw [hc]
    show (if ((r.w0 != (0 : UInt64)) || (r.w1 != (0 : UInt64))) = true then _ else _) = _
    rw [if_pos hne]
    exact hk
  · rw [hdec, hqv, hrv, hYd, Nat.div_add_mod']

/-! ## 6. The branch `CX ≥ CY` -/

open Dec.C11GenLogb Dec.TableFacts Dec.TF

/-- the index `(fx.bits − 0x3f800000) >> 23` for `fx = S as f32` is the binary exponent of `fx` -/
theorem idx2_toNat (S : Nat) (hS : 0 < S) (hX : Nat.log2 (rn24 S) ≤ 126) :
    (UInt64.ofInt (toI (Int32.ofInt (toI ((((UInt32.ofNat (fb S)) - (0x3f800000 : UInt32))) >>> 0x17))))).toNat
      = Nat.log2 (rn24 S) := by
  obtain ⟨m, h1, h2, h3, _⟩ := fb_struct S hS
  have hlt : fb S < 2 ^ 32 := by rw [h3]; omega
  have hb : (UInt32.ofNat (fb S)).toNat = fb S := by rw [UInt32.toNat_ofNat']; exact Nat.mod_eq_of_lt hlt
  have a : ((((UInt32.ofNat (fb S)) - (0x3f800000 : UInt32))) >>> 0x17).toNat = Nat.log2 (rn24 S) := by
    rw [UInt32.toNat_shiftRight, UInt32.toNat_sub, hb, h3, show (0x3f800000 : UInt32).toNat = 127 * 2 ^ 23 from by decide,
      show (0x17 : UInt32).toNat % 32 = 23 from by decide, Nat.shiftRight_eq_div_pow]
    omega
  have b : (Int32.ofInt (toI ((((UInt32.ofNat (fb S)) - (0x3f800000 : UInt32))) >>> 0x17))).toInt = Nat.log2 (rn24 S) := by
    show (Int32.ofInt ((_ : UInt32).toNat : Int)).toInt = _
    rw [a, Int32.toInt_ofInt_of_le (by omega) (by omega)]
  rw [C13GenPack.toNat_ofInt]
  show PackH.wordOfI32 (Int32.toInt _) = _
  rw [b]
  simp only [PackH.wordOfI32]
  omega

/-- **the digit count of the integer quotient** -/
theorem digitsK_spec {α : Type} (CQ : U128) (k : Int32 → Except String α) (h0 : 0 < CQ.toNat') (h1 : CQ.toNat' < 10 ^ 34) :
    ∃ d : Int32, digitsK CQ k = k d ∧ d.toInt = ndigits CQ.toNat' := by
  have hb : CQ.toNat' = CQ.w1.toNat * 2 ^ 64 + CQ.w0.toNat := by unfold U128.toNat'; omega
  rw [hb] at h0 h1 ⊢
  have hc1 : CQ.w1.toNat < 2 ^ 60 := by
    have : (10 : Nat) ^ 34 < 2 ^ 113 := by norm_num
    omega
  obtain ⟨Pm, hmul, hadd⟩ := fx_bits CQ.w1 CQ.w0 hc1 (by omega)
  obtain ⟨hX, hdig⟩ := est_digits CQ.w1.toNat CQ.w0.toNat CQ.w0.toNat_lt h0 h1
  have hSpos : 0 < rn24 CQ.w1.toNat * 2 ^ 64 + rn24 CQ.w0.toNat := by
    rcases Nat.eq_zero_or_pos CQ.w1.toNat with h1 | h1
    · have h0 : 0 < CQ.w0.toNat := by omega
      have h2 := (rn24_binade _ h0).1
      have h3 := Nat.pow_pos (n := Nat.log2 CQ.w0.toNat) (by decide : 0 < 2)
      exact Nat.add_pos_right _ (Nat.lt_of_lt_of_le h3 h2)
    · have := (rn24_binade _ h1).1
      have := Nat.pow_pos (n := Nat.log2 CQ.w1.toNat) (by decide : 0 < 2)
      have hp : 0 < rn24 CQ.w1.toNat := by omega
      exact Nat.add_pos_left (Nat.mul_pos hp (by norm_num)) _
  obtain ⟨S, hS⟩ : ∃ S, S = rn24 CQ.w1.toNat * 2 ^ 64 + rn24 CQ.w0.toNat := ⟨_, rfl⟩
  rw [← hS] at hadd hX hdig hSpos
  have hidx := idx2_toNat S hSpos (by omega)
  generalize hI : UInt64.ofInt (toI (Int32.ofInt (toI ((((UInt32.ofNat (fb S)) - (0x3f800000 : UInt32))) >>> 0x17)))) = I at hidx
  obtain ⟨d, hd, hdv⟩ := est_read I (by omega)
  obtain ⟨T, hT, hTv, hT1⟩ := p10_read I (by omega)
  rw [hidx] at hdv hTv
  unfold estDigitsAt at hdig
  rw [← hTv] at hdig
  have hnd : ndigits (CQ.w1.toNat * 2 ^ 64 + CQ.w0.toNat) ≤ 34 := (@ndigits_le_iff _ 34 h0).2 h1
  have hcmp : unsigned_compare_ge_128 CQ ⟨T.w0, T.w1⟩ = .ok (decide (CQ.w1.toNat * 2 ^ 64 + CQ.w0.toNat ≥ T.w1.toNat * 2 ^ 64 + T.w0.toNat)) := by
    rw [C01GenArith.gen_unsigned_compare_ge_128]
    congr 2
    unfold U128.toNat'
    apply propext; constructor <;> intro h <;> (simp only at h ⊢; omega)
  have key : digitsK CQ k = if decide (CQ.w1.toNat * 2 ^ 64 + CQ.w0.toNat ≥ T.w1.toNat * 2 ^ 64 + T.w0.toNat) = true
      then k (d + 1) else k d := by
    unfold digitsK
    take_call hmul
    take_call hadd
    head_step
    rw [hI]
    take_call hd
    take_call hT
    take_call hT
    take_call hcmp
    rfl
  rw [key]
  by_cases hg : CQ.w1.toNat * 2 ^ 64 + CQ.w0.toNat ≥ T.w1.toNat * 2 ^ 64 + T.w0.toNat
  · rw [if_pos (decide_eq_true hg)]
    refine ⟨d + 1, rfl, ?_⟩
    rw [if_pos hg] at hdig
    rw [C13GenPack.i32_add, show (1 : Int32).toInt = 1 from by decide, hdv]
    show PackH.wrapI32 _ = _
    unfold PackH.wrapI32
    omega
  · rw [if_neg (by rw [decide_eq_false hg]; decide)]
    refine ⟨d, rfl, ?_⟩
    rw [if_neg hg] at hdig
    rw [hdv]; omega
theorem pow10_all : (List.range 39).all (fun j =>
    match tbl128 Dec.Gen.BID_POWER10_TABLE_128 (UInt64.ofNat j) with
    | .ok v => decide (v.toNat' = 10 ^ j)
    | .error _ => false) = true := by
  decide +kernel

/-- `BID_POWER10_TABLE_128[j] = 10^j` for an `i32` index `0 ≤ j ≤ 38` -/
theorem pow10_get (e : Int32) (h0 : 0 ≤ e.toInt) (h1 : e.toInt < 39) :
    ∃ v, tbl128 Dec.Gen.BID_POWER10_TABLE_128 (UInt64.ofInt (toI e)) = .ok v ∧ v.toNat' = 10 ^ e.toInt.toNat := by
  have hi : UInt64.ofInt (toI e) = UInt64.ofNat e.toInt.toNat := by
    apply UInt64.toNat_inj.1
    rw [ofInt_nonneg e h0, UInt64.toNat_ofNat', Nat.mod_eq_of_lt (by omega)]
  rw [hi]
  have h := List.all_eq_true.1 pow10_all e.toInt.toNat (List.mem_range.2 (by omega))
  cases ht : tbl128 Dec.Gen.BID_POWER10_TABLE_128 (UInt64.ofNat e.toInt.toNat) with
  | error e => rw [ht] at h; exact absurd h (by simp)
  | ok v => rw [ht] at h; exact ⟨v, rfl, by simpa using h⟩

theorem i32_sub_small (a b : Int32) (h : -2147483648 ≤ a.toInt - b.toInt ∧ a.toInt - b.toInt < 2147483648) :
    (a - b).toInt = a.toInt - b.toInt := by
  rw [C13GenPack.i32_sub]; unfold PackH.wrapI32; omega
theorem i32_add_small (a b : Int32) (h : -2147483648 ≤ a.toInt + b.toInt ∧ a.toInt + b.toInt < 2147483648) :
    (a + b).toInt = a.toInt + b.toInt := by
  rw [C13GenPack.i32_add]; unfold PackH.wrapI32; omega

/-- **scaling quotient and remainder**: with `d` the digit count of the integer quotient, both are multiplied by `10^(34−d)` -/
theorem scaleLeTailK_spec {α : Type} (CQ CR : U128) (de dq : Int32) (k : U128 → U256 → Int32 → Int32 → Except String α)
    (hd1 : 1 ≤ dq.toInt) (hd2 : dq.toInt ≤ 34) (hfit : CQ.toNat' * 10 ^ (34 - dq.toInt).toNat < 2 ^ 128)
    (hde : -2147483000 ≤ de.toInt) :
    ∃ (CQ' : U128) (CA4 : U256) (ed2 de' : Int32), scaleLeTailK CQ CR de dq k = k CQ' CA4 ed2 de' ∧
      ed2.toInt = 34 - dq.toInt ∧ de'.toInt = de.toInt - (34 - dq.toInt) ∧
      CQ'.toNat' = CQ.toNat' * 10 ^ (34 - dq.toInt).toNat ∧ CA4.toNat' = CR.toNat' * 10 ^ (34 - dq.toInt).toNat := by
  have hed : ((0x22 : Int32) - dq).toInt = 34 - dq.toInt := by
    rw [i32_sub_small _ _ (by rw [show (0x22 : Int32).toInt = 34 from by decide]; omega)]; rfl
  obtain ⟨T, hT, hTv⟩ := pow10_get ((0x22 : Int32) - dq) (by omega) (by omega)
  rw [hed] at hTv
  obtain ⟨CA4, hCA4, hCA4v⟩ := C01GenArith.gen_mul_128x128_to_256 CR ⟨T.w0, T.w1⟩
  obtain ⟨CQ', hCQ', hCQ'v⟩ := C01GenArith.gen_mul_128x128_low_exact CQ ⟨T.w0, T.w1⟩ (by
    show CQ.toNat' * T.toNat' < _
    rw [hTv]; exact hfit)
  refine ⟨CQ', CA4, (0x22 : Int32) - dq, de - ((0x22 : Int32) - dq), ?_, hed, ?_, ?_, ?_⟩
  · unfold scaleLeTailK
    take_call hT
    take_call hT
    take_call hCA4
    take_call hCQ'
    rfl
  · have := de.toInt_lt
    rw [i32_sub_small _ _ (by omega), hed]
  · rw [hCQ'v]; show _ * T.toNat' = _; rw [hTv]
  · rw [hCA4v]; show _ * T.toNat' = _; rw [hTv]
/-- **hypothesis of the assembly** — the integer division `bid___div_128_by_128` is exact on the domain of its call site in the
division: `0 < Y ≤ X < 10^34` -/
def Div128Exact : Prop :=
  ∀ (CX CY : U128), 0 < CY.toNat' → CY.toNat' ≤ CX.toNat' → CX.toNat' < 10 ^ 34 →
    ∃ (q r : U128), bid___div_128_by_128 CX CY = .ok (q, r) ∧
      q.toNat' = CX.toNat' / CY.toNat' ∧ r.toNat' = CX.toNat' % CY.toNat'

/-- … which is a theorem: `C10GenRem.div_128_by_128_exact` -/
theorem div128_exact : Div128Exact := by
  intro CX CY hY0 hYX hX
  have h113 : (10 : Nat) ^ 34 < 2 ^ 113 := by norm_num
  have h1 : CY.toNat' < 2 ^ 126 := by omega
  have h2 : CX.toNat' < 2 ^ 113 * CY.toNat' := by
    have : 2 ^ 113 * 1 ≤ 2 ^ 113 * CY.toNat' := Nat.mul_le_mul_left _ hY0
    omega
  exact Dec.C10GenRem.div_128_by_128_exact CX CY hY0 ⟨h1, h2⟩

theorem u128_zero_iff (r : U128) : ((r.w1 == (0 : UInt64)) && (r.w0 == (0 : UInt64))) = decide (r.toNat' = 0) := by
  rw [Bool.eq_iff_iff, Bool.and_eq_true, beq_iff_eq, beq_iff_eq, decide_eq_true_eq, ← UInt64.toNat_inj, ← UInt64.toNat_inj]
  unfold U128.toNat'
  show r.w1.toNat = 0 ∧ r.w0.toNat = 0 ↔ _
  omega

/-- **`CX ≥ CY`, integer quotient exact**: the quotient goes straight to the packer -/
theorem scaleLe_exit (h128 : Div128Exact) (CX CY : U128) (de : Int32) (sgn : UInt64) (m : RoundingMode) (f : UInt32)
    (k : U128 → U256 → Int32 → Int32 → Except String (U128 × UInt32))
    (hY0 : 0 < CY.toNat') (hYX : CY.toNat' ≤ CX.toNat') (hX : CX.toNat' < 10 ^ 34) (hdvd : CX.toNat' % CY.toNat' = 0) :
    ∃ q : U128, scaleLeK CX CY de sgn m f k = bid_get_BID128 sgn de q m f ∧ q.toNat' = CX.toNat' / CY.toNat' := by
  obtain ⟨q, r, hc, hq, hr⟩ := h128 CX CY hY0 hYX hX
  refine ⟨q, ?_, hq⟩
  rw [scaleLeK_eq, hc]
  show (if ((r.w1 == (0 : UInt64)) && (r.w0 == (0 : UInt64))) = true then _ else _) = _
  rw [u128_zero_iff, if_pos (by rw [decide_eq_true_eq, hr]; exact hdvd), bind_eta]

/-- **`CX ≥ CY`, integer quotient inexact**: quotient and remainder scaled so that the quotient has 34 digits -/
theorem scaleLe_cont (h128 : Div128Exact) (CX CY : U128) (de : Int32) (sgn : UInt64) (m : RoundingMode) (f : UInt32)
    (k : U128 → U256 → Int32 → Int32 → Except String (U128 × UInt32))
    (hY0 : 0 < CY.toNat') (hYX : CY.toNat' ≤ CX.toNat') (hX : CX.toNat' < 10 ^ 34) (hnd : CX.toNat' % CY.toNat' ≠ 0)
    (hde : -2147483000 ≤ de.toInt) :
    ∃ (CQ : U128) (CA4 : U256) (ed2 de' : Int32) (ed : Nat), scaleLeK CX CY de sgn m f k = k CQ CA4 ed2 de' ∧
      ed2.toInt = ed ∧ ed ≤ 33 ∧ de'.toInt = de.toInt - ed ∧
      CQ.toNat' * CY.toNat' + CA4.toNat' = CX.toNat' * 10 ^ ed ∧
      10 ^ 33 * CY.toNat' ≤ CX.toNat' * 10 ^ ed ∧ CX.toNat' * 10 ^ ed < 10 ^ 34 * CY.toNat' ∧
      CQ.toNat' = CX.toNat' / CY.toNat' * 10 ^ ed ∧ CA4.toNat' = CX.toNat' % CY.toNat' * 10 ^ ed := by
  obtain ⟨q, r, hc, hq, hr⟩ := h128 CX CY hY0 hYX hX
  generalize hXd : CX.toNat' = X at *
  generalize hYd : CY.toNat' = Y at *
  have hq0 : 0 < q.toNat' := by rw [hq]; exact Nat.div_pos hYX hY0
  have hq1 : q.toNat' < 10 ^ 34 := by rw [hq]; exact lt_of_le_of_lt (Nat.div_le_self _ _) hX
  obtain ⟨dq, hdk, hdv⟩ := digitsK_spec q (fun dq => scaleLeTailK q r de dq k) hq0 hq1
  obtain ⟨b1, b2⟩ := ndigits_spec hq0
  have hpos := ndigits_pos hq0
  have hle : ndigits q.toNat' ≤ 34 := (ndigits_le_iff hq0).2 hq1
  generalize hD : ndigits q.toNat' = D at *
  have hex : (34 - dq.toInt).toNat = 34 - D := by omega
  have hpow : 10 ^ D * 10 ^ (34 - D) = 10 ^ 34 := by rw [← Nat.pow_add]; congr 1; omega
  have hpow' : 10 ^ (D - 1) * 10 ^ (34 - D) = 10 ^ 33 := by rw [← Nat.pow_add]; congr 1; omega
  have hscaled : q.toNat' * 10 ^ (34 - D) < 10 ^ 34 := by
    rw [← hpow]; exact Nat.mul_lt_mul_of_pos_right b2 (by positivity)
  obtain ⟨CQ', CA4, ed2, de', hk, he1, he2, hv1, hv2⟩ := scaleLeTailK_spec q r de dq k (by omega) (by omega)
    (by rw [hex]; exact lt_trans hscaled (by norm_num)) hde
  rw [hex] at hv1 hv2
  refine ⟨CQ', CA4, ed2, de', 34 - D, ?_, by omega, by omega, by omega, ?_, ?_, ?_, by rw [hv1, hq], by rw [hv2, hr]⟩
  · rw [scaleLeK_eq, hc]
    show (if ((r.w1 == (0 : UInt64)) && (r.w0 == (0 : UInt64))) = true then _ else _) = _
    rw [u128_zero_iff, if_neg (by rw [decide_eq_true_eq, hr]; exact hnd), hdk, hk]
  · rw [hv1, hv2, hq, hr]
    have := Nat.div_add_mod X Y
    calc X / Y * 10 ^ (34 - D) * Y + X % Y * 10 ^ (34 - D) = (Y * (X / Y) + X % Y) * 10 ^ (34 - D) := by ring
      _ = X * 10 ^ (34 - D) := by rw [this]
  · have h1 : 10 ^ (D - 1) * Y ≤ X := by
      have := Nat.mul_le_mul_right Y b1
      rw [hq] at this
      exact le_trans this (Nat.div_mul_le_self X Y)
    calc 10 ^ 33 * Y = 10 ^ (D - 1) * Y * 10 ^ (34 - D) := by rw [← hpow']; ring
      _ ≤ X * 10 ^ (34 - D) := Nat.mul_le_mul_right _ h1
  · have h1 : X < 10 ^ D * Y := by
      rw [hq] at b2
      have : X / Y + 1 ≤ 10 ^ D := b2
      have h2 := Nat.mul_le_mul_right Y this
      have h3 := Nat.div_add_mod X Y
      have h4 := Nat.mod_lt X hY0
      rw [Nat.add_mul, Nat.mul_comm] at h2
      omega
    calc X * 10 ^ (34 - D) < 10 ^ D * Y * 10 ^ (34 - D) := Nat.mul_lt_mul_of_pos_right h1 (by positivity)
      _ = 10 ^ 34 * Y := by rw [← hpow]; ring

/-! ## 7. The branch `CY > CX`: the `f32` estimate of the binary exponent difference -/

/-! ### rounding to 24 bits: monotone, idempotent, relative error -/

theorem log2_mono {a b : Nat} (ha : 0 < a) (h : a ≤ b) : Nat.log2 a ≤ Nat.log2 b := by
  by_contra hc
  have h1 := Nat.log2_self_le (by omega : a ≠ 0)
  have h2 : b < 2 ^ (Nat.log2 b + 1) := Nat.lt_log2_self
  have : 2 ^ (Nat.log2 b + 1) ≤ 2 ^ Nat.log2 a := Nat.pow_le_pow_right (by decide) (by omega)
  omega

/-- the rounded significand is monotone within a binade -/
theorem rq_mono {a b : Nat} (h : a ≤ b) (hl : Nat.log2 a = Nat.log2 b) : rq a ≤ rq b := by
  unfold rq
  rw [hl]
  generalize Nat.log2 b - 23 = sh
  have hp : 0 < 2 ^ sh := Nat.pow_pos (by decide)
  have hq : a / 2 ^ sh ≤ b / 2 ^ sh := Nat.div_le_div_right h
  have ha := Nat.div_add_mod a (2 ^ sh)
  have hb := Nat.div_add_mod b (2 ^ sh)
  have hra := Nat.mod_lt a hp
  have hrb := Nat.mod_lt b hp
  simp only
  rcases Nat.lt_or_ge (a / 2 ^ sh) (b / 2 ^ sh) with hlt | hge
  · split <;> split <;> omega
  · have heq : a / 2 ^ sh = b / 2 ^ sh := by omega
    have hr : a % 2 ^ sh ≤ b % 2 ^ sh := by
      rw [heq] at ha; omega
    rw [heq]
    generalize a % 2 ^ sh = ra at *
    generalize b % 2 ^ sh = rb at *
    generalize b / 2 ^ sh = q at *
    generalize 2 ^ (sh - 1) = hf at *
    by_cases hup : (decide (ra > hf) || (ra == hf && q % 2 == 1)) = true
    · have hup' : (decide (rb > hf) || (rb == hf && q % 2 == 1)) = true := by
        simp only [Bool.or_eq_true, Bool.and_eq_true, decide_eq_true_eq, beq_iff_eq] at hup ⊢
        rcases hup with h1 | ⟨h1, h2⟩
        · left; omega
        · rcases Nat.lt_or_ge hf rb with h3 | h3
          · left; exact h3
          · right; exact ⟨by omega, h2⟩
      rw [if_pos hup, if_pos hup']
    · rw [if_neg hup]; split <;> omega

/-- **rounding to 24 bits is monotone** -/
theorem rn24_mono {a b : Nat} (h : a ≤ b) : rn24 a ≤ rn24 b := by
  rcases Nat.eq_zero_or_pos a with rfl | ha
  · rw [rn24_zero]; exact Nat.zero_le _
  have hb : 0 < b := by omega
  have hL := log2_mono ha h
  rcases Nat.lt_or_ge (Nat.log2 a) (Nat.log2 b) with hlt | hge
  · have h1 := (rn24_binade a ha).2
    have h2 := (rn24_binade b hb).1
    have : 2 ^ (Nat.log2 a + 1) ≤ 2 ^ Nat.log2 b := Nat.pow_le_pow_right (by decide) (by omega)
    omega
  · have heq : Nat.log2 a = Nat.log2 b := by omega
    unfold rn24
    rw [heq]
    by_cases hl : Nat.log2 b ≤ 23
    · rw [if_pos hl, if_pos hl]; exact h
    · rw [if_neg hl, if_neg hl]
      exact Nat.mul_le_mul_right _ (rq_mono h heq)

/-- **rounding is idempotent** -/
theorem rn24_idem (n : Nat) : rn24 (rn24 n) = rn24 n := by
  by_cases hl : Nat.log2 n ≤ 23
  · have : rn24 n = n := by unfold rn24; rw [if_pos hl]
    rw [this, this]
  · have hv : rn24 n = rq n * 2 ^ (Nat.log2 n - 23) := by unfold rn24; rw [if_neg hl]
    obtain ⟨a, b⟩ := rq_range n (by omega)
    rw [hv, rn24_scale _ _ (by omega)]
    congr 1
    rcases Nat.lt_or_ge (rq n) (2 ^ 24) with h | h
    · exact rn24_small _ h
    · have : rq n = 2 ^ 24 := by omega
      rw [this]; exact rn24_pow2 24

/-- rounding down costs at most half a unit of the last place: `n − n / 2^24 ≤ rn24 n` -/
theorem rn24_ge (n : Nat) : 16777215 * n ≤ 16777216 * rn24 n := by
  unfold rn24
  by_cases hl : Nat.log2 n ≤ 23
  · rw [if_pos hl]; omega
  · rw [if_neg hl]
    have hn : n ≠ 0 := by intro h; subst h; simp [Nat.log2] at hl
    obtain ⟨a, b⟩ := q_range n (by omega)
    obtain ⟨sh, hsh⟩ : ∃ sh, Nat.log2 n = sh + 24 := ⟨Nat.log2 n - 24, by omega⟩
    have hs : Nat.log2 n - 23 = sh + 1 := by omega
    unfold rq
    simp only [hs, Nat.add_sub_cancel] at a b ⊢
    have hdm := Nat.div_add_mod n (2 ^ (sh + 1))
    have hr : n % 2 ^ (sh + 1) < 2 ^ (sh + 1) := Nat.mod_lt _ (Nat.pow_pos (by decide))
    have hp : 2 ^ (sh + 1) = 2 * 2 ^ sh := by rw [Nat.pow_succ]; ring
    rw [hp] at hdm hr a b ⊢
    generalize n / (2 * 2 ^ sh) = q at *
    generalize n % (2 * 2 ^ sh) = r at *
    generalize 2 ^ sh = h at *
    have hq : 2 ^ 23 * (2 * h) ≤ 2 * h * q := by rw [Nat.mul_comm (2 * h) q]; exact Nat.mul_le_mul_right _ a
    have hq' : 8388608 * (2 * h) ≤ 2 * h * q := by norm_num at hq; exact hq
    subst hdm
    split
    · nlinarith
    · rename_i hup
      have hrh : r ≤ h := by
        simp only [Bool.or_eq_true, Bool.and_eq_true, decide_eq_true_eq, beq_iff_eq, not_or] at hup
        omega
      nlinarith
/-- if `A − 1` rounds up to `A`, then `A + 1` rounds down to `A` (round-half-even, spacing above `A` at least that below) -/
theorem rn24_succ_of_pred (n : Nat) (h : rn24 n = n + 1) : rn24 (n + 2) = n + 1 := by
  have hl : ¬ Nat.log2 n ≤ 23 := by
    intro hl
    have : rn24 n = n := by unfold rn24; rw [if_pos hl]
    omega
  obtain ⟨sh, hsh⟩ : ∃ sh, Nat.log2 n = sh + 24 := ⟨Nat.log2 n - 24, by omega⟩
  have hs : Nat.log2 n - 23 = sh + 1 := by omega
  obtain ⟨a, b⟩ := q_range n (by omega)
  have hv : rn24 n = rq n * 2 ^ (sh + 1) := by unfold rn24; rw [if_neg hl, hs]
  rw [hs] at a b
  have hp : 0 < 2 ^ (sh + 1) := Nat.pow_pos (by decide)
  have hp2 : 2 ^ (sh + 1) = 2 * 2 ^ sh := by rw [Nat.pow_succ]; ring
  have hps : 0 < 2 ^ sh := Nat.pow_pos (by decide)
  have hdm := Nat.div_add_mod n (2 ^ (sh + 1))
  have hr := Nat.mod_lt n hp
  -- the rounding of n went up
  have hrq : rq n = n / 2 ^ (sh + 1) + 1 ∧
      (n % 2 ^ (sh + 1) > 2 ^ sh ∨ (n % 2 ^ (sh + 1) = 2 ^ sh ∧ (n / 2 ^ (sh + 1)) % 2 = 1)) := by
    have hrq' : rq n = if (decide (n % 2 ^ (sh + 1) > 2 ^ sh) || (n % 2 ^ (sh + 1) == 2 ^ sh && n / 2 ^ (sh + 1) % 2 == 1)) = true
        then n / 2 ^ (sh + 1) + 1 else n / 2 ^ (sh + 1) := by
      unfold rq; simp only [hs, Nat.add_sub_cancel]
    rw [hrq'] at hv ⊢
    split at hv
    · rename_i hup
      rw [if_pos hup]
      simp only [Bool.or_eq_true, Bool.and_eq_true, decide_eq_true_eq, beq_iff_eq] at hup
      exact ⟨rfl, hup⟩
    · exfalso
      rw [h] at hv
      rw [Nat.mul_comm] at hv
      omega
  obtain ⟨hq1, hcond⟩ := hrq
  rw [hq1] at hv
  generalize hqd : n / 2 ^ (sh + 1) = q at *
  generalize hrd : n % 2 ^ (sh + 1) = r at *
  have hA : n + 1 = (q + 1) * 2 ^ (sh + 1) := by rw [← hv, h]
  have hr1 : r = 2 ^ (sh + 1) - 1 := by
    rw [Nat.add_mul, Nat.mul_comm q] at hA; omega
  rcases Nat.lt_or_ge (q + 1) (2 ^ 24) with hlt | hge
  · -- same binade
    have hlog : Nat.log2 (n + 2) = sh + 24 := by
      apply log2_unique
      · have : 2 ^ (sh + 24) = 2 ^ 23 * 2 ^ (sh + 1) := by rw [← Nat.pow_add]; congr 1; omega
        rw [this]
        have := Nat.mul_le_mul_right (2 ^ (sh + 1)) a
        rw [Nat.mul_comm q] at this
        omega
      · have : 2 ^ (sh + 24 + 1) = 2 ^ 24 * 2 ^ (sh + 1) := by rw [← Nat.pow_add]; congr 1; omega
        rw [this]
        have h1 : (q + 2) * 2 ^ (sh + 1) ≤ 2 ^ 24 * 2 ^ (sh + 1) := Nat.mul_le_mul_right _ (by omega)
        rw [Nat.add_mul] at h1
        have e : n + 2 = (q + 1) * 2 ^ (sh + 1) + 1 := by omega
        rw [e, Nat.add_mul]
        rw [Nat.add_mul] at hA
        omega
    have e : n + 2 = 2 ^ (sh + 1) * (q + 1) + 1 := by rw [Nat.mul_comm]; omega
    have hq2 : (n + 2) / 2 ^ (sh + 1) = q + 1 := by
      rw [e, Nat.mul_add_div hp, Nat.div_eq_of_lt (by omega), Nat.add_zero]
    have hr2 : (n + 2) % 2 ^ (sh + 1) = 1 := by
      rw [e, Nat.mul_add_mod, Nat.mod_eq_of_lt (by omega)]
    unfold rn24
    rw [hlog, if_neg (by omega)]
    unfold rq
    rw [hlog]
    have e1 : sh + 24 - 23 = sh + 1 := by omega
    simp only [e1, Nat.add_sub_cancel, hq2, hr2]
    have hno : ¬ (decide (1 > 2 ^ sh) || ((1 : Nat) == 2 ^ sh && (q + 1) % 2 == 1)) = true := by
      simp only [Bool.or_eq_true, Bool.and_eq_true, decide_eq_true_eq, beq_iff_eq, not_or, not_and]
      refine ⟨by omega, fun h1 => ?_⟩
      rcases hcond with hc | ⟨hc1, hc2⟩
      · omega
      · omega
    rw [if_neg hno, hA]
  · -- carry: `n + 1` is a power of two
    have hq24 : q + 1 = 2 ^ 24 := by omega
    have hpow : n + 1 = 2 ^ (sh + 1 + 24) := by rw [hA, hq24, ← Nat.pow_add]; congr 1; omega
    have := rn24_near (sh + 1 + 24) 1 (by omega) (by
      simp only [Nat.add_sub_cancel]; omega)
    rw [← hpow] at this
    exact this
theorem rn24_le_two64 (c : Nat) (h : c < 2 ^ 64) : rn24 c ≤ 2 ^ 64 := by
  rcases Nat.eq_zero_or_pos c with rfl | h0
  · rw [rn24_zero]; exact Nat.zero_le _
  · have := (rn24_binade c h0).2
    have hl : Nat.log2 c < 64 := (Nat.log2_lt (by omega)).2 h
    exact le_trans this (Nat.pow_le_pow_right (by decide) (by omega))

/-- **the `f32` chain `(c1 as f32)·2^64 + (c0 as f32)` is monotone in the coefficient** (three roundings) -/
theorem chain_mono (x1 x0 y1 y0 : Nat) (hx0 : x0 < 2 ^ 64) (hy0 : y0 < 2 ^ 64)
    (h : x1 < y1 ∨ (x1 = y1 ∧ x0 ≤ y0)) :
    rn24 (rn24 x1 * 2 ^ 64 + rn24 x0) ≤ rn24 (rn24 y1 * 2 ^ 64 + rn24 y0) := by
  have bx := rn24_le_two64 x0 hx0
  rcases h with h | ⟨rfl, h⟩
  · have hA := rn24_mono (le_of_lt h)
    rcases Nat.lt_or_ge (rn24 x1) (rn24 y1) with hlt | hge
    · apply rn24_mono
      have : (rn24 x1 + 1) * 2 ^ 64 ≤ rn24 y1 * 2 ^ 64 := Nat.mul_le_mul_right _ hlt
      rw [Nat.add_mul] at this
      omega
    · have heq : rn24 x1 = rn24 y1 := by omega
      have hy1 : 0 < y1 := by omega
      have hApos : 0 < rn24 y1 := by
        have := (rn24_binade y1 hy1).1
        have := Nat.pow_pos (n := Nat.log2 y1) (by decide : 0 < 2)
        omega
      generalize hAd : rn24 y1 = A at *
      have hidem : rn24 A = A := by rw [← hAd, rn24_idem]
      have key : rn24 (A + 1) = A := by
        rcases Nat.lt_or_ge A y1 with h1 | h1
        · have u := rn24_mono (show A + 1 ≤ y1 from h1)
          have l := rn24_mono (show A ≤ A + 1 from Nat.le_succ _)
          rw [hAd] at u; rw [hidem] at l; omega
        · have hx : x1 ≤ A - 1 := by omega
          have u := rn24_mono hx
          have l := rn24_mono (show A - 1 ≤ A from Nat.sub_le _ _)
          rw [heq] at u; rw [hidem] at l
          have hpred : rn24 (A - 1) = (A - 1) + 1 := by omega
          have := rn24_succ_of_pred (A - 1) hpred
          have e : A - 1 + 2 = A + 1 := by omega
          rw [e] at this; omega
      rw [heq]
      calc rn24 (A * 2 ^ 64 + rn24 x0) ≤ rn24 ((A + 1) * 2 ^ 64) := rn24_mono (by rw [Nat.add_mul]; omega)
        _ = A * 2 ^ 64 := by rw [rn24_scale _ _ (by omega), key]
        _ = rn24 (A * 2 ^ 64) := by rw [rn24_scale _ _ hApos, hidem]
        _ ≤ rn24 (A * 2 ^ 64 + rn24 y0) := rn24_mono (Nat.le_add_right _ _)
  · apply rn24_mono
    have := rn24_mono h
    omega
/-- **the difference of the bit patterns of two ordered positive floats**, shifted right by the width of the significand field,
is an `i` with `2^i·Fx ≤ Fy < 2^(i+1)·Fx` -/
theorem bits_rel (Fx Fy mx my ax ay : Nat) (hmx : 2 ^ 23 ≤ mx) (hmx' : mx < 2 ^ 24) (hmy : 2 ^ 23 ≤ my) (hmy' : my < 2 ^ 24)
    (hx : mx * 2 ^ ax = Fx * 2 ^ 149) (hy : my * 2 ^ ay = Fy * 2 ^ 149) (hF : Fx ≤ Fy) :
    ax * 2 ^ 23 + mx ≤ ay * 2 ^ 23 + my ∧
      2 ^ (((ay * 2 ^ 23 + my) - (ax * 2 ^ 23 + mx)) / 2 ^ 23) * Fx ≤ Fy ∧
      Fy < 2 ^ (((ay * 2 ^ 23 + my) - (ax * 2 ^ 23 + mx)) / 2 ^ 23 + 1) * Fx := by
  have hP : 0 < 2 ^ ax := Nat.pow_pos (by decide)
  have h149 : 0 < 2 ^ 149 := Nat.pow_pos (by decide)
  have hle : mx * 2 ^ ax ≤ my * 2 ^ ay := by rw [hx, hy]; exact Nat.mul_le_mul_right _ hF
  have hax : ax ≤ ay := by
    by_contra hc
    have : 2 ^ (ay + 1) ≤ 2 ^ ax := Nat.pow_le_pow_right (by decide) (by omega)
    have h1 : 2 ^ 23 * 2 ^ (ay + 1) ≤ mx * 2 ^ ax := Nat.mul_le_mul hmx this
    have h2 : my * 2 ^ ay < 2 ^ 24 * 2 ^ ay := Nat.mul_lt_mul_of_pos_right hmy' (Nat.pow_pos (by decide))
    have e : 2 ^ 23 * 2 ^ (ay + 1) = 2 ^ 24 * 2 ^ ay := by rw [Nat.pow_succ]; ring
    omega
  obtain ⟨k, rfl⟩ : ∃ k, ay = ax + k := ⟨ay - ax, by omega⟩
  have hk : 2 ^ (ax + k) = 2 ^ k * 2 ^ ax := by rw [Nat.pow_add]; ring
  rw [hk] at hy hle
  have hm : mx ≤ my * 2 ^ k := by
    rw [← Nat.mul_assoc] at hle
    exact Nat.le_of_mul_le_mul_right hle hP
  -- comparing through the common factor
  have lift_le : ∀ u v : Nat, u * mx ≤ v * (my * 2 ^ k) → u * Fx ≤ v * Fy := by
    intro u v huv
    apply Nat.le_of_mul_le_mul_right _ h149
    rw [Nat.mul_assoc, Nat.mul_assoc, ← hx, ← hy]
    have := Nat.mul_le_mul_right (2 ^ ax) huv
    calc u * (mx * 2 ^ ax) = u * mx * 2 ^ ax := by ring
      _ ≤ v * (my * 2 ^ k) * 2 ^ ax := this
      _ = v * (my * (2 ^ k * 2 ^ ax)) := by ring
  have lift_lt : ∀ u v : Nat, v * (my * 2 ^ k) < u * mx → v * Fy < u * Fx := by
    intro u v huv
    apply Nat.lt_of_mul_lt_mul_right (a := 2 ^ 149)
    rw [Nat.mul_assoc, Nat.mul_assoc, ← hx, ← hy]
    have := Nat.mul_lt_mul_of_pos_right huv hP
    calc v * (my * (2 ^ k * 2 ^ ax)) = v * (my * 2 ^ k) * 2 ^ ax := by ring
      _ < u * mx * 2 ^ ax := this
      _ = u * (mx * 2 ^ ax) := by ring
  rcases Nat.eq_zero_or_pos k with rfl | hkpos
  · simp only [Nat.pow_zero, Nat.mul_one, Nat.add_zero] at hm ⊢
    have hi : (ax * 2 ^ 23 + my - (ax * 2 ^ 23 + mx)) / 2 ^ 23 = 0 := by omega
    rw [hi]
    refine ⟨by omega, ?_, ?_⟩
    · simpa using hF
    · have := lift_lt 2 1 (by simp only [Nat.pow_zero, Nat.mul_one, Nat.one_mul]; omega)
      simpa using this
  · obtain ⟨k', rfl⟩ : ∃ k', k = k' + 1 := ⟨k - 1, by omega⟩
    have hord : ax * 2 ^ 23 + mx ≤ (ax + (k' + 1)) * 2 ^ 23 + my := by
      rw [Nat.add_mul, Nat.add_mul]; omega
    refine ⟨hord, ?_⟩
    have hpk : 2 ^ (k' + 1) = 2 * 2 ^ k' := by rw [Nat.pow_succ]; ring
    have hpk' : 0 < 2 ^ k' := Nat.pow_pos (by decide)
    rcases Nat.lt_or_ge my mx with hlt | hge
    · have hi : ((ax + (k' + 1)) * 2 ^ 23 + my - (ax * 2 ^ 23 + mx)) / 2 ^ 23 = k' := by
        rw [Nat.add_mul, Nat.add_mul]
        have : ax * 2 ^ 23 + (k' * 2 ^ 23 + 1 * 2 ^ 23) + my - (ax * 2 ^ 23 + mx) = 2 ^ 23 * k' + (2 ^ 23 + my - mx) := by omega
        rw [this, Nat.mul_add_div (by norm_num), Nat.div_eq_of_lt (by omega), Nat.add_zero]
      rw [hi]
      constructor
      · have := lift_le (2 ^ k') 1 (by
          rw [hpk, Nat.one_mul]
          have : 2 ^ k' * mx ≤ 2 ^ k' * (2 * my) := Nat.mul_le_mul_left _ (by omega)
          calc 2 ^ k' * mx ≤ 2 ^ k' * (2 * my) := this
            _ = my * (2 * 2 ^ k') := by ring)
        simpa using this
      · have := lift_lt (2 ^ (k' + 1)) 1 (by
          rw [Nat.one_mul, Nat.mul_comm]
          exact Nat.mul_lt_mul_of_pos_left hlt (Nat.pow_pos (by decide)))
        simpa using this
    · have hi : ((ax + (k' + 1)) * 2 ^ 23 + my - (ax * 2 ^ 23 + mx)) / 2 ^ 23 = k' + 1 := by
        rw [Nat.add_mul]
        have : ax * 2 ^ 23 + (k' + 1) * 2 ^ 23 + my - (ax * 2 ^ 23 + mx) = 2 ^ 23 * (k' + 1) + (my - mx) := by
          rw [Nat.mul_comm (2 ^ 23)]; omega
        rw [this, Nat.mul_add_div (by norm_num), Nat.div_eq_of_lt (by omega), Nat.add_zero]
      rw [hi]
      constructor
      · have := lift_le (2 ^ (k' + 1)) 1 (by
          rw [Nat.one_mul, Nat.mul_comm]
          exact Nat.mul_le_mul_right _ hge)
        simpa using this
      · have := lift_lt (2 ^ (k' + 1 + 1)) 1 (by
          rw [Nat.one_mul, Nat.pow_succ 2 (k' + 1)]
          have : my * 2 ^ (k' + 1) < 2 * mx * 2 ^ (k' + 1) := Nat.mul_lt_mul_of_pos_right (by omega) (Nat.pow_pos (by decide))
          calc my * 2 ^ (k' + 1) < 2 * mx * 2 ^ (k' + 1) := this
            _ = 2 ^ (k' + 1) * 2 * mx := by ring)
        simpa using this
theorem chain_pos (c1 c0 : Nat) (hC : 0 < c1 * 2 ^ 64 + c0) : 0 < rn24 c1 * 2 ^ 64 + rn24 c0 := by
  rcases Nat.eq_zero_or_pos c1 with h | h
  · have h0 : 0 < c0 := by omega
    have h2 := (rn24_binade _ h0).1
    have h3 := Nat.pow_pos (n := Nat.log2 c0) (by decide : 0 < 2)
    exact Nat.add_pos_right _ (Nat.lt_of_lt_of_le h3 h2)
  · have h2 := (rn24_binade _ h).1
    have h3 := Nat.pow_pos (n := Nat.log2 c1) (by decide : 0 < 2)
    have hp : 0 < rn24 c1 := Nat.lt_of_lt_of_le h3 h2
    exact Nat.add_pos_left (Nat.mul_pos hp (by norm_num)) _

/-- relative error of the chain: `(1 − 2^-24)^2·C ≤ F ≤ (1 + 2^-24)^2·C` -/
theorem chain_err (c1 c0 : Nat) :
    16777215 ^ 2 * (c1 * 2 ^ 64 + c0) ≤ 16777216 ^ 2 * rn24 (rn24 c1 * 2 ^ 64 + rn24 c0) ∧
    16777216 ^ 2 * rn24 (rn24 c1 * 2 ^ 64 + rn24 c0) ≤ 16777217 ^ 2 * (c1 * 2 ^ 64 + c0) := by
  have a1 := rn24_ge c1; have a0 := rn24_ge c0; have a := rn24_ge (rn24 c1 * 2 ^ 64 + rn24 c0)
  have b1 := rn24_le c1; have b0 := rn24_le c0; have b := rn24_le (rn24 c1 * 2 ^ 64 + rn24 c0)
  norm_num at b1 b0 b
  generalize rn24 (rn24 c1 * 2 ^ 64 + rn24 c0) = F at *
  generalize rn24 c1 = A at *
  generalize rn24 c0 = B at *
  constructor <;> omega

/-- the two bit patterns, abstractly: ordered floats with the relative errors of the chains -/
theorem float_pair (Sx Sy X Y : Nat) (hSx : 0 < Sx) (hSy : 0 < Sy) (hmono : rn24 Sx ≤ rn24 Sy)
    (ex1 : 16777215 ^ 2 * X ≤ 16777216 ^ 2 * rn24 Sx) (ex2 : 16777216 ^ 2 * rn24 Sx ≤ 16777217 ^ 2 * X)
    (ey1 : 16777215 ^ 2 * Y ≤ 16777216 ^ 2 * rn24 Sy) (ey2 : 16777216 ^ 2 * rn24 Sy ≤ 16777217 ^ 2 * Y)
    (hY : Y < 2 ^ 113) :
    fb Sx ≤ fb Sy ∧ fb Sy < 2 ^ 32 ∧
      (2 ^ 24 - 1) ^ 2 * 2 ^ ((fb Sy - fb Sx) / 2 ^ 23) * X ≤ (2 ^ 24 + 1) ^ 2 * Y ∧
      (2 ^ 24 - 1) ^ 2 * Y < (2 ^ 24 + 1) ^ 2 * 2 ^ ((fb Sy - fb Sx) / 2 ^ 23 + 1) * X := by
  obtain ⟨mx, m1, m2, m3, m4⟩ := fb_struct _ hSx
  obtain ⟨my, n1, n2, n3, n4⟩ := fb_struct _ hSy
  obtain ⟨r1, r2, r3⟩ := bits_rel (rn24 Sx) (rn24 Sy) mx my _ _ m1 m2 n1 n2 m4 n4 hmono
  rw [← m3, ← n3] at r1 r2 r3
  -- the exponent of fy stays small
  have hFy : rn24 Sy < 2 ^ 120 := by
    have h1 : 16777217 ^ 2 * Y < 16777217 ^ 2 * 2 ^ 113 := Nat.mul_lt_mul_of_pos_left hY (by norm_num)
    have h2 : (16777217 : Nat) ^ 2 * 2 ^ 113 < 16777216 ^ 2 * 2 ^ 120 := by norm_num
    have : 16777216 ^ 2 * rn24 Sy < 16777216 ^ 2 * 2 ^ 120 := lt_of_le_of_lt ey2 (lt_trans h1 h2)
    exact Nat.lt_of_mul_lt_mul_left this
  have hLy : Nat.log2 (rn24 Sy) < 120 := by
    rcases Nat.eq_zero_or_pos (rn24 Sy) with h | h
    · rw [h]; decide
    · exact (Nat.log2_lt (by omega)).2 hFy
  refine ⟨r1, by rw [n3]; omega, ?_, ?_⟩
  · generalize (fb Sy - fb Sx) / 2 ^ 23 = i at *
    have h1 : 16777215 ^ 2 * X * 2 ^ i ≤ 16777216 ^ 2 * rn24 Sx * 2 ^ i := Nat.mul_le_mul_right _ ex1
    have h2 : 16777216 ^ 2 * (2 ^ i * rn24 Sx) ≤ 16777216 ^ 2 * rn24 Sy := Nat.mul_le_mul_left _ r2
    calc (2 ^ 24 - 1) ^ 2 * 2 ^ i * X = 16777215 ^ 2 * X * 2 ^ i := by norm_num; ring
      _ ≤ 16777216 ^ 2 * rn24 Sx * 2 ^ i := h1
      _ = 16777216 ^ 2 * (2 ^ i * rn24 Sx) := by ring
      _ ≤ 16777216 ^ 2 * rn24 Sy := h2
      _ ≤ 16777217 ^ 2 * Y := ey2
      _ = (2 ^ 24 + 1) ^ 2 * Y := by norm_num
  · generalize (fb Sy - fb Sx) / 2 ^ 23 = i at *
    have h1 : 16777216 ^ 2 * rn24 Sx * 2 ^ (i + 1) ≤ 16777217 ^ 2 * X * 2 ^ (i + 1) := Nat.mul_le_mul_right _ ex2
    have h2 : 16777216 ^ 2 * rn24 Sy < 16777216 ^ 2 * (2 ^ (i + 1) * rn24 Sx) :=
      Nat.mul_lt_mul_of_pos_left r3 (by norm_num)
    calc (2 ^ 24 - 1) ^ 2 * Y = 16777215 ^ 2 * Y := by norm_num
      _ ≤ 16777216 ^ 2 * rn24 Sy := ey1
      _ < 16777216 ^ 2 * (2 ^ (i + 1) * rn24 Sx) := h2
      _ = 16777216 ^ 2 * rn24 Sx * 2 ^ (i + 1) := by ring
      _ ≤ 16777217 ^ 2 * X * 2 ^ (i + 1) := h1
      _ = (2 ^ 24 + 1) ^ 2 * 2 ^ (i + 1) * X := by norm_num; ring

theorem binIndex_float (CX CY : U128) (hX0 : 0 < CX.toNat') (hXY : CX.toNat' < CY.toNat') (hY : CY.toNat' < 10 ^ 34) :
    ∃ (Px Py : F32U) (bx byy : Nat),
      F32U.mul (F32U.ofU64 (UInt64.ofInt (toI CX.w1))) (⟨(0x5f800000 : UInt32)⟩ : F32U) = .ok Px ∧
      F32U.add Px (F32U.ofU64 (UInt64.ofInt (toI CX.w0))) = .ok ⟨UInt32.ofNat bx⟩ ∧
      F32U.mul (F32U.ofU64 (UInt64.ofInt (toI CY.w1))) (⟨(0x5f800000 : UInt32)⟩ : F32U) = .ok Py ∧
      F32U.add Py (F32U.ofU64 (UInt64.ofInt (toI CY.w0))) = .ok ⟨UInt32.ofNat byy⟩ ∧
      bx ≤ byy ∧ byy < 2 ^ 32 ∧
      (2 ^ 24 - 1) ^ 2 * 2 ^ ((byy - bx) / 2 ^ 23) * CX.toNat' ≤ (2 ^ 24 + 1) ^ 2 * CY.toNat' ∧
      (2 ^ 24 - 1) ^ 2 * CY.toNat' < (2 ^ 24 + 1) ^ 2 * 2 ^ ((byy - bx) / 2 ^ 23 + 1) * CX.toNat' := by
  have hXe : CX.toNat' = CX.w1.toNat * 2 ^ 64 + CX.w0.toNat := by unfold U128.toNat'; omega
  have hYe : CY.toNat' = CY.w1.toNat * 2 ^ 64 + CY.w0.toNat := by unfold U128.toNat'; omega
  rw [hXe] at hX0 hXY ⊢
  rw [hYe] at hXY hY ⊢
  have h113 : (10 : Nat) ^ 34 < 2 ^ 113 := by norm_num
  have hY113 : CY.w1.toNat * 2 ^ 64 + CY.w0.toNat < 2 ^ 113 := lt_trans hY h113
  clear hY h113
  have hx0 := CX.w0.toNat_lt; have hy0 := CY.w0.toNat_lt
  have hYpos : 0 < CY.w1.toNat * 2 ^ 64 + CY.w0.toNat := lt_trans hX0 hXY
  obtain ⟨Px, hmx, hax⟩ := fx_bits CX.w1 CX.w0 (by omega) (by omega)
  obtain ⟨Py, hmy, hay⟩ := fx_bits CY.w1 CY.w0 (by omega) (by omega)
  have hSx := chain_pos CX.w1.toNat CX.w0.toNat hX0
  have hSy := chain_pos CY.w1.toNat CY.w0.toNat hYpos
  have hmono := chain_mono CX.w1.toNat CX.w0.toNat CY.w1.toNat CY.w0.toNat hx0 hy0 (by omega)
  obtain ⟨ex1, ex2⟩ := chain_err CX.w1.toNat CX.w0.toNat
  obtain ⟨ey1, ey2⟩ := chain_err CY.w1.toNat CY.w0.toNat
  obtain ⟨p1, p2, p3, p4⟩ := float_pair _ _ _ _ hSx hSy hmono ex1 ex2 ey1 ey2 hY113
  exact ⟨Px, Py, _, _, hmx, hax, hmy, hay, p1, p2, p3, p4⟩

/-! ## 8. The branch `CY > CX`: scaling `CX` -/

/-- **the binary-exponent difference** -/
theorem binIndexK_spec {α : Type} (CX CY : U128) (k : Int32 → Except String α)
    (hX0 : 0 < CX.toNat') (hXY : CX.toNat' < CY.toNat') (hY : CY.toNat' < 10 ^ 34) :
    ∃ (bi : Int32) (i : Nat), binIndexK CX CY k = k bi ∧ bi.toInt = i ∧ (UInt64.ofInt (toI bi)).toNat = i ∧ i ≤ 113 ∧
      (2 ^ 24 - 1) ^ 2 * 2 ^ i * CX.toNat' ≤ (2 ^ 24 + 1) ^ 2 * CY.toNat' ∧
      (2 ^ 24 - 1) ^ 2 * CY.toNat' < (2 ^ 24 + 1) ^ 2 * 2 ^ (i + 1) * CX.toNat' := by
  obtain ⟨Px, Py, bx, byy, h1, h2, h3, h4, hle, hlt, hA, hB⟩ := binIndex_float CX CY hX0 hXY hY
  generalize hi : (byy - bx) / 2 ^ 23 = i at hA hB
  have hi113 : i ≤ 113 := by
    by_contra hc
    have h114 : 2 ^ 114 ≤ 2 ^ i := Nat.pow_le_pow_right (by decide) (by omega)
    have : (2 ^ 24 - 1) ^ 2 * 2 ^ 114 * 1 ≤ (2 ^ 24 - 1) ^ 2 * 2 ^ i * CX.toNat' :=
      Nat.mul_le_mul (Nat.mul_le_mul_left _ h114) hX0
    have h5 : (2 ^ 24 + 1) ^ 2 * CY.toNat' < (2 ^ 24 + 1) ^ 2 * 10 ^ 34 := Nat.mul_lt_mul_of_pos_left hY (by norm_num)
    have : (2 ^ 24 + 1) ^ 2 * 10 ^ 34 < (2 ^ 24 - 1) ^ 2 * 2 ^ 114 * 1 := by norm_num
    omega
  have hsh : (((UInt32.ofNat byy) - (UInt32.ofNat bx)) >>> 0x17).toNat = i := by
    rw [UInt32.toNat_shiftRight, UInt32.toNat_sub, UInt32.toNat_ofNat', UInt32.toNat_ofNat',
      Nat.mod_eq_of_lt hlt, Nat.mod_eq_of_lt (lt_of_le_of_lt hle hlt),
      show (0x17 : UInt32).toNat % 32 = 23 from by decide, Nat.shiftRight_eq_div_pow, ← hi]
    congr 1; omega
  have hbi : (Int32.ofInt (toI (((UInt32.ofNat byy) - (UInt32.ofNat bx)) >>> 0x17))).toInt = i := by
    show (Int32.ofInt ((_ : UInt32).toNat : Int)).toInt = _
    rw [hsh, Int32.toInt_ofInt_of_le (by omega) (by omega)]
  refine ⟨Int32.ofInt (toI (((UInt32.ofNat byy) - (UInt32.ofNat bx)) >>> 0x17)), i, ?_, hbi, ?_, hi113, hA, hB⟩
  · unfold binIndexK
    take_call h1
    take_call h2
    take_call h3
    take_call h4
    rfl
  · rw [ofInt_nonneg _ (by rw [hbi]; omega), hbi]; rfl
/-- the powers of two and ten that meet in the `CY > CX` branch: with `d` the digit count of `2^i` (`i ≤ 113`), `10^(d−1)` is below
`2^i` by more than the relative error of the two `f32` chains (except `i = 0`), and `2^(i+1)` is below `10^(d+1)` by more than it -/
theorem gt_rows : (List.range 114).all (fun i =>
    decide (1 ≤ ndigitsSlow (2 ^ i)) && decide (ndigitsSlow (2 ^ i) ≤ 35) &&
    (decide (i = 0) || decide (10 ^ (ndigitsSlow (2 ^ i) - 1) * (2 ^ 24 + 1) ^ 2 < 2 ^ i * (2 ^ 24 - 1) ^ 2)) &&
    decide (2 ^ (i + 1) * (2 ^ 24 + 1) ^ 2 ≤ 10 ^ (ndigitsSlow (2 ^ i) + 1) * (2 ^ 24 - 1) ^ 2)) = true := by
  decide +kernel

theorem gt_row (i : Nat) (hi : i ≤ 113) :
    1 ≤ ndigitsSlow (2 ^ i) ∧ ndigitsSlow (2 ^ i) ≤ 35 ∧
    (i = 0 ∨ 10 ^ (ndigitsSlow (2 ^ i) - 1) * (2 ^ 24 + 1) ^ 2 < 2 ^ i * (2 ^ 24 - 1) ^ 2) ∧
    2 ^ (i + 1) * (2 ^ 24 + 1) ^ 2 ≤ 10 ^ (ndigitsSlow (2 ^ i) + 1) * (2 ^ 24 - 1) ^ 2 := by
  have h := List.all_eq_true.1 gt_rows i (List.mem_range.2 (by omega))
  simpa only [Bool.and_eq_true, Bool.or_eq_true, decide_eq_true_eq, and_assoc] using h

/-- **the quotient will have 34 digits**: from the two-sided estimate of `Y/X` by `2^i`, `X·10^(d−1) < Y ≤ X·10^(d+1)` -/
theorem gt_bounds (X Y i : Nat) (hi : i ≤ 113) (hX0 : 0 < X) (hXY : X < Y)
    (hA : (2 ^ 24 - 1) ^ 2 * 2 ^ i * X ≤ (2 ^ 24 + 1) ^ 2 * Y)
    (hB : (2 ^ 24 - 1) ^ 2 * Y < (2 ^ 24 + 1) ^ 2 * 2 ^ (i + 1) * X) :
    X * 10 ^ (ndigitsSlow (2 ^ i) - 1) < Y ∧ Y < X * 10 ^ (ndigitsSlow (2 ^ i) + 1) := by
  obtain ⟨-, -, r1, r2⟩ := gt_row i hi
  have h0 : i = 0 → X * 10 ^ (ndigitsSlow (2 ^ i) - 1) < Y := by
    rintro rfl
    have : ndigitsSlow (2 ^ 0) = 1 := by decide +kernel
    rw [this]; simpa using hXY
  generalize ndigitsSlow (2 ^ i) = d at *
  constructor
  · rcases r1 with r1 | r1
    · exact h0 r1
    · by_contra hc
      have hc' : Y ≤ X * 10 ^ (d - 1) := by omega
      have h1 : (2 ^ 24 + 1) ^ 2 * Y ≤ (2 ^ 24 + 1) ^ 2 * (X * 10 ^ (d - 1)) := Nat.mul_le_mul_left _ hc'
      have h2 : X * (10 ^ (d - 1) * (2 ^ 24 + 1) ^ 2) < X * (2 ^ i * (2 ^ 24 - 1) ^ 2) := Nat.mul_lt_mul_of_pos_left r1 hX0
      have e1 : (2 ^ 24 + 1) ^ 2 * (X * 10 ^ (d - 1)) = X * (10 ^ (d - 1) * (2 ^ 24 + 1) ^ 2) := by ring
      have e2 : (2 ^ 24 - 1) ^ 2 * 2 ^ i * X = X * (2 ^ i * (2 ^ 24 - 1) ^ 2) := by ring
      omega
  · by_contra hc
    have hc' : X * 10 ^ (d + 1) ≤ Y := by omega
    have h1 : (2 ^ 24 - 1) ^ 2 * (X * 10 ^ (d + 1)) ≤ (2 ^ 24 - 1) ^ 2 * Y := Nat.mul_le_mul_left _ hc'
    have h2 : X * (2 ^ (i + 1) * (2 ^ 24 + 1) ^ 2) ≤ X * (10 ^ (d + 1) * (2 ^ 24 - 1) ^ 2) := Nat.mul_le_mul_left _ r2
    have e1 : (2 ^ 24 - 1) ^ 2 * (X * 10 ^ (d + 1)) = X * (10 ^ (d + 1) * (2 ^ 24 - 1) ^ 2) := by ring
    have e2 : (2 ^ 24 + 1) ^ 2 * 2 ^ (i + 1) * X = X * (2 ^ (i + 1) * (2 ^ 24 + 1) ^ 2) := by ring
    omega
/-- `CA = CX·10^d` (`d` the digit count of `2^i`), by one 64×128 product whichever operand is short -/
theorem scaleCAK_spec {α : Type} (CX : U128) (bi : Int32) (i : Nat) (k : U128 → Except String α)
    (hI : (UInt64.ofInt (toI bi)).toNat = i) (hi : i ≤ 113)
    (hfit : CX.toNat' * 10 ^ ndigitsSlow (2 ^ i) < 2 ^ 128)
    (hshort : CX.w1 ≠ 0 → 10 ^ ndigitsSlow (2 ^ i) < 2 ^ 64) :
    ∃ CA : U128, scaleCAK CX bi k = k CA ∧ CA.toNat' = CX.toNat' * 10 ^ ndigitsSlow (2 ^ i) := by
  obtain ⟨T, hT, hTv, -⟩ := p10_read (UInt64.ofInt (toI bi)) (by omega)
  rw [hI, (est_p10idx_row i (by omega)).2] at hTv
  generalize ndigitsSlow (2 ^ i) = d at *
  have hT' : T.toNat' = 10 ^ d := by unfold U128.toNat'; omega
  by_cases hw : CX.w1 = 0
  · have hX : CX.toNat' = CX.w0.toNat := by unfold U128.toNat'; rw [hw]; rfl
    obtain ⟨CA, hc, hv⟩ := C01GenArith.gen_mul_64x128_short_exact CX.w0 T (by rw [hT', ← hX]; exact hfit)
    refine ⟨CA, ?_, by rw [hv, hT', hX]⟩
    unfold scaleCAK
    take_neg
    · rw [hw]; decide
    take_call hT
    take_call hc
    rfl
  · have h64 := hshort hw
    have hw0 : T.w0.toNat = 10 ^ d := by
      have := T.w0.toNat_lt
      have : T.w1.toNat = 0 := by
        by_contra h
        have : 2 ^ 64 ≤ T.w1.toNat * 2 ^ 64 := Nat.le_mul_of_pos_left _ (Nat.pos_of_ne_zero h)
        omega
      omega
    obtain ⟨CA, hc, hv⟩ := C01GenArith.gen_mul_64x128_short_exact T.w0 CX (by rw [hw0, Nat.mul_comm]; exact hfit)
    refine ⟨CA, ?_, by rw [hv, hw0, Nat.mul_comm]⟩
    unfold scaleCAK
    take_pos
    · rw [bne_iff_ne]; exact hw
    take_call hT
    take_call hc
    rfl

/-- one more power of ten when `CA` is still below `CY` -/
theorem gtEdK_spec {α : Type} (CY CA : U128) (k : Int32 → Except String α) :
    gtEdK CY CA k = k (if CY.toNat' > CA.toNat' then 0x22 else 0x21) := by
  unfold gtEdK
  take_call (C01GenArith.gen_unsigned_compare_gt_128 CY CA)
  by_cases h : CY.toNat' > CA.toNat'
  · take_pos
    · exact decide_eq_true h
    rw [if_pos h]; rfl
  · take_neg
    · rw [decide_eq_false h]; decide
    rw [if_neg h]

theorem gtTailK_spec {α : Type} (CA : U128) (bi ed2 de : Int32) (i : Nat)
    (k : U128 → U256 → Int32 → Int32 → Except String α)
    (hI : (UInt64.ofInt (toI bi)).toNat = i) (hi : i ≤ 113) (he0 : 0 ≤ ed2.toInt) (he1 : ed2.toInt ≤ 38)
    (hde : -2147483000 ≤ de.toInt) :
    ∃ (CA4 : U256) (ed2' de' : Int32), gtTailK CA bi ed2 de k = k ⟨0, 0⟩ CA4 ed2' de' ∧
      ed2'.toInt = ed2.toInt + ndigitsSlow (2 ^ i) ∧ de'.toInt = de.toInt - (ed2.toInt + ndigitsSlow (2 ^ i)) ∧
      CA4.toNat' = CA.toNat' * 10 ^ ed2.toInt.toNat := by
  obtain ⟨T, hT, hTv⟩ := pow10_get ed2 he0 (by omega)
  obtain ⟨CA4, hc, hv⟩ := C01GenArith.gen_mul_128x128_to_256 CA T
  obtain ⟨d, hd, hdv⟩ := est_read (UInt64.ofInt (toI bi)) (by omega)
  rw [hI, (est_p10idx_row i (by omega)).1] at hdv
  obtain ⟨r0, r1, -, -⟩ := gt_row i hi
  generalize ndigitsSlow (2 ^ i) = D at *
  have hsum : (ed2 + d).toInt = ed2.toInt + D := by rw [i32_add_small _ _ (by omega), hdv]
  have := de.toInt_lt
  refine ⟨CA4, ed2 + d, de - (ed2 + d), ?_, hsum, ?_, by rw [hv, hTv]⟩
  · unfold gtTailK
    take_call hT
    take_call hc
    take_call hd
    rfl
  · rw [i32_sub_small _ _ (by omega), hsum]
/-- **the branch `CY > CX`**: `CX` is scaled by a power of ten `10^ed` so that the quotient by `CY` has 34 digits -/
theorem scaleGt_spec {α : Type} (CX CY : U128) (de : Int32) (k : U128 → U256 → Int32 → Int32 → Except String α)
    (hX0 : 0 < CX.toNat') (hXY : CX.toNat' < CY.toNat') (hY : CY.toNat' < 10 ^ 34) (hde : -2147483000 ≤ de.toInt) :
    ∃ (CQ : U128) (CA4 : U256) (ed2 de' : Int32) (ed : Nat), scaleGtK CX CY de k = k CQ CA4 ed2 de' ∧
      ed2.toInt = ed ∧ ed ≤ 69 ∧ de'.toInt = de.toInt - ed ∧
      CQ.toNat' * CY.toNat' + CA4.toNat' = CX.toNat' * 10 ^ ed ∧
      10 ^ 33 * CY.toNat' ≤ CX.toNat' * 10 ^ ed ∧ CX.toNat' * 10 ^ ed < 10 ^ 34 * CY.toNat' ∧ CQ.toNat' = 0 := by
  obtain ⟨bi, i, hbk, hbi, hI, hi, hA, hB⟩ := binIndexK_spec CX CY
    (fun bi => scaleCAK CX bi fun CA => gtEdK CY CA fun ed2 => gtTailK CA bi ed2 de k) hX0 hXY hY
  obtain ⟨hlo, hhi⟩ := gt_bounds _ _ i hi hX0 hXY hA hB
  obtain ⟨d1, d35, -, -⟩ := gt_row i hi
  generalize hXd : CX.toNat' = X at *
  generalize hYd : CY.toNat' = Y at *
  generalize hD : ndigitsSlow (2 ^ i) = D at *
  obtain ⟨D', rfl⟩ : ∃ D', D = D' + 1 := ⟨D - 1, by omega⟩
  simp only [Nat.add_sub_cancel] at hlo
  have hp1 : 10 ^ (D' + 1) = 10 * 10 ^ D' := by rw [Nat.pow_succ]; ring
  have hp2 : 10 ^ (D' + 1 + 1) = 100 * 10 ^ D' := by rw [Nat.pow_succ, Nat.pow_succ]; ring
  rw [hp2] at hhi
  have hfit : X * 10 ^ (D' + 1) < 2 ^ 128 := by
    rw [hp1]
    have : X * (10 * 10 ^ D') = 10 * (X * 10 ^ D') := by ring
    rw [this]
    have : (10 : Nat) ^ 35 < 2 ^ 128 := by norm_num
    omega
  have hshort : CX.w1 ≠ 0 → 10 ^ (D' + 1) < 2 ^ 64 := by
    intro hw
    have hX64 : 2 ^ 64 ≤ X := by
      rw [← hXd]; unfold U128.toNat'
      have : 0 < CX.w1.toNat := by
        rcases Nat.eq_zero_or_pos CX.w1.toNat with h | h
        · exact absurd (UInt64.toNat_inj.1 h) hw
        · exact h
      omega
    have := Nat.mul_le_mul_right (10 ^ D') hX64
    rw [hp1]
    generalize 10 ^ D' = P at *
    omega
  obtain ⟨CA, hck, hCA⟩ := scaleCAK_spec CX bi i (fun CA => gtEdK CY CA fun ed2 => gtTailK CA bi ed2 de k) hI hi
    (by rw [hXd, hD]; exact hfit) (by rw [hD]; exact hshort)
  rw [hXd, hD] at hCA
  have hek := gtEdK_spec CY CA (fun ed2 => gtTailK CA bi ed2 de k)
  rw [hYd, hCA] at hek
  by_cases hgt : Y > X * 10 ^ (D' + 1)
  · rw [if_pos hgt] at hek
    obtain ⟨CA4, ed2', de', htk, he1, he2, hv⟩ := gtTailK_spec CA bi 0x22 de i k hI hi (by decide) (by decide) hde
    rw [hD, show (0x22 : Int32).toInt = 34 from by decide] at he1 he2
    rw [hCA, show (0x22 : Int32).toInt.toNat = 34 from by decide] at hv
    refine ⟨⟨0, 0⟩, CA4, ed2', de', 34 + (D' + 1), ?_, by omega, by omega, by omega, ?_, ?_, ?_, rfl⟩
    · rw [scaleGtK_eq, hbk, hck, hek, htk]
    · rw [hv, Nat.pow_add]
      show 0 * Y + _ = _
      ring
    · rw [Nat.pow_add, hp1]
      have : X * (10 ^ 34 * (10 * 10 ^ D')) = 10 ^ 33 * (X * (100 * 10 ^ D')) := by ring
      rw [this]
      exact Nat.mul_le_mul_left _ (le_of_lt hhi)
    · rw [Nat.pow_add]
      have : X * (10 ^ 34 * 10 ^ (D' + 1)) = 10 ^ 34 * (X * 10 ^ (D' + 1)) := by ring
      rw [this]
      exact Nat.mul_lt_mul_of_pos_left hgt (by norm_num)
  · rw [if_neg hgt] at hek
    obtain ⟨CA4, ed2', de', htk, he1, he2, hv⟩ := gtTailK_spec CA bi 0x21 de i k hI hi (by decide) (by decide) hde
    rw [hD, show (0x21 : Int32).toInt = 33 from by decide] at he1 he2
    rw [hCA, show (0x21 : Int32).toInt.toNat = 33 from by decide] at hv
    refine ⟨⟨0, 0⟩, CA4, ed2', de', 33 + (D' + 1), ?_, by omega, by omega, by omega, ?_, ?_, ?_, rfl⟩
    · rw [scaleGtK_eq, hbk, hck, hek, htk]
    · rw [hv, Nat.pow_add]
      show 0 * Y + _ = _
      ring
    · rw [Nat.pow_add]
      have : X * (10 ^ 33 * 10 ^ (D' + 1)) = 10 ^ 33 * (X * 10 ^ (D' + 1)) := by ring
      rw [this]
      exact Nat.mul_le_mul_left _ (by omega)
    · rw [Nat.pow_add, hp1]
      have : X * (10 ^ 33 * (10 * 10 ^ D')) = 10 ^ 34 * (X * 10 ^ D') := by ring
      rw [this]
      exact Nat.mul_lt_mul_of_pos_left hlo (by norm_num)

/-! ## 9. Assembly: the inexact quotients -/

theorem ofBits_toNat' {c : Nat} (h : c < 2 ^ 128) : (ofBits c).toNat' = c := by
  unfold U128.toNat' C06GenFromInt.ofBits
  simp only [UInt64.toNat_ofNat']
  omega

/-- the exponent the main path starts from: `e1 − e2 + 6176` -/
theorem de_start (e1 e2 : Int) (l1 : -6176 ≤ e1) (u1 : e1 ≤ 6111) (l2 : -6176 ≤ e2) (u2 : e2 ≤ 6111) :
    (Int32.ofInt (e1 + 6176) - Int32.ofInt (e2 + 6176) + c_DECIMAL_EXPONENT_BIAS_128).toInt = e1 - e2 + 6176 := by
  have k1 : (c_DECIMAL_EXPONENT_BIAS_128).toInt = 6176 := by decide
  have a1 : (Int32.ofInt (e1 + 6176)).toInt = e1 + 6176 := Int32.toInt_ofInt_of_le (by omega) (by omega)
  have a2 : (Int32.ofInt (e2 + 6176)).toInt = e2 + 6176 := Int32.toInt_ofInt_of_le (by omega) (by omega)
  rw [i32_add_small _ _ (by rw [i32_sub_small _ _ (by omega), a1, a2, k1]; omega), i32_sub_small _ _ (by omega), a1, a2, k1]
  omega

theorem sign_word (x y : U128) {s1 s2 : Bool} {c1 c2 : Nat} {e1 e2 : Int}
    (hx : dOf x = .fin s1 c1 e1) (hy : dOf y = .fin s2 c2 e2) :
    ((x.w1 &&& 0x8000000000000000) ^^^ (y.w1 &&& 0x8000000000000000) = 0 ∨
      (x.w1 &&& 0x8000000000000000) ^^^ (y.w1 &&& 0x8000000000000000) = 0x8000000000000000) ∧
    decide ((x.w1 &&& 0x8000000000000000) ^^^ (y.w1 &&& 0x8000000000000000) ≠ 0) = (s1 != s2) := by
  have h := Dec.C01GenMul.sign_xor x y
  rw [hx, hy] at h
  cases s1 <;> cases s2
  · have h' : ((x.w1 &&& 0x8000000000000000) ^^^ (y.w1 &&& 0x8000000000000000)).toNat = 0 := h
    rw [show _ = (0 : UInt64) from UInt64.toNat_inj.1 h']; exact ⟨Or.inl rfl, by decide⟩
  · have h' : ((x.w1 &&& 0x8000000000000000) ^^^ (y.w1 &&& 0x8000000000000000)).toNat = 2 ^ 63 := h
    rw [show _ = (0x8000000000000000 : UInt64) from UInt64.toNat_inj.1 h']; exact ⟨Or.inr rfl, by decide⟩
  · have h' : ((x.w1 &&& 0x8000000000000000) ^^^ (y.w1 &&& 0x8000000000000000)).toNat = 2 ^ 63 := h
    rw [show _ = (0x8000000000000000 : UInt64) from UInt64.toNat_inj.1 h']; exact ⟨Or.inr rfl, by decide⟩
  · have h' : ((x.w1 &&& 0x8000000000000000) ^^^ (y.w1 &&& 0x8000000000000000)).toNat = 0 := h
    rw [show _ = (0 : UInt64) from UInt64.toNat_inj.1 h']; exact ⟨Or.inl rfl, by decide⟩

theorem divD_fin (mode : Mode) (s1 s2 : Bool) (c1 c2 : Nat) (e1 e2 : Int) (hc1 : c1 ≠ 0) (hc2 : c2 ≠ 0) :
    divD mode (.fin s1 c1 e1) (.fin s2 c2 e2) = finish mode (s1 != s2) c1 c2 (e1 - e2) (e1 - e2) := by
  simp only [divD, hc1, hc2, if_false]

/-- the value handed to `finish` after scaling by `10^ed` is the exact quotient -/
theorem scaled_value (c1 c2 ed : Nat) (e : Int) (hc2 : 0 < c2) :
    ((c1 * 10 ^ ed : Nat) : ℚ) / c2 * (10 : ℚ) ^ (e - ed) = (c1 : ℚ) / c2 * (10 : ℚ) ^ e := by
  have h2 : (c2 : ℚ) ≠ 0 := by exact_mod_cast hc2.ne'
  rw [zpow_sub₀ (by norm_num : (10 : ℚ) ≠ 0), zpow_natCast]
  push_cast
  field_simp

/-- **`bid128_div_clear_status`, divisor coefficient dividing the dividend coefficient** (`c2 ∣ c1`): the integer quotient at the preferred exponent `e1 − e2` goes to the packer: `divD` -/
theorem div_int_quotient (x y : U128) (m : RoundingMode)
    {s1 s2 : Bool} {c1 c2 : Nat} {e1 e2 : Int}
    (hx : dOf x = .fin s1 c1 e1) (hy : dOf y = .fin s2 c2 e2) (hc1 : c1 ≠ 0) (hc2 : c2 ≠ 0) (hdvd : c1 % c2 = 0) :
    ∃ res fl, bid128_div_clear_status x y m 0 = .ok (res, fl) ∧
      (decode (bitsOf res), fl.toNat) = divD (md m) (dOf x) (dOf y) := by
  obtain ⟨hl1, l1, u1⟩ := Dec.C01GenMul.fin_WF x hx
  obtain ⟨hl2, l2, u2⟩ := Dec.C01GenMul.fin_WF y hy
  have hP : P34 = 10 ^ 34 := by decide
  rw [hP] at hl1 hl2
  have h128' : (10 : Nat) ^ 34 < 2 ^ 128 := by norm_num
  have hX : (ofBits c1).toNat' = c1 := ofBits_toNat' (by omega)
  have hY : (ofBits c2).toNat' = c2 := ofBits_toNat' (by omega)
  obtain ⟨hsg, hneg⟩ := sign_word x y hx hy
  have hde := de_start e1 e2 l1 u1 l2 u2
  have hc10 : 0 < c1 := Nat.pos_of_ne_zero hc1
  have hc20 : 0 < c2 := Nat.pos_of_ne_zero hc2
  have hle : c2 ≤ c1 := Nat.le_of_dvd hc10 (Nat.dvd_of_mod_eq_zero hdvd)
  rw [div_entry x y m 0 hx hy hc1 hc2, hx, hy, divD_fin _ _ _ _ _ _ _ hc1 hc2]
  unfold mainK
  generalize hsd : (x.w1 &&& 0x8000000000000000) ^^^ (y.w1 &&& 0x8000000000000000) = sgn at *
  generalize hded : Int32.ofInt (e1 + 6176) - Int32.ofInt (e2 + 6176) + c_DECIMAL_EXPONENT_BIAS_128 = de at *
  rw [C01GenArith.gen_unsigned_compare_gt_128, hX, hY]
  show ∃ res fl, (if decide (c2 > c1) = true then _ else _) = _ ∧ _
  rw [if_neg (by rw [decide_eq_true_eq]; omega)]
  obtain ⟨q, hk, hq⟩ := scaleLe_exit div128_exact (ofBits c1) (ofBits c2) de sgn m 0 (afterK (ofBits c1) (ofBits c2) sgn m 0)
    (by rw [hY]; exact hc20) (by rw [hX, hY]; exact hle) (by rw [hX]; exact hl1) (by rw [hX, hY]; exact hdvd)
  rw [hX, hY] at hq
  have hq0 : 0 < c1 / c2 := Nat.div_pos hle hc20
  have hqb : bitsOf q = c1 / c2 := by rw [bitsOf_eq]; exact hq
  obtain ⟨res, fl, hc, hdec⟩ := get_eq_finish sgn de q m hsg (by rw [hqb]; exact hq0)
    (by rw [hqb]; exact le_trans (Nat.div_le_self _ _) (le_of_lt hl1)) (by omega)
  refine ⟨res, fl, by rw [hk]; exact hc, ?_⟩
  rw [hdec, hqb, hneg, show de.toInt - 6176 = e1 - e2 from by omega]
  apply finish_congr _ _ _ _ _ _ _ _ _ hq0 (by norm_num) hc10 hc20
  have h2 : (c2 : ℚ) ≠ 0 := by exact_mod_cast hc2
  have : (c1 : ℚ) = ((c1 / c2 : Nat) : ℚ) * c2 := by
    exact_mod_cast (Nat.div_mul_cancel (Nat.dvd_of_mod_eq_zero hdvd)).symm
  rw [this]
  field_simp
  norm_num

/-! ## 10. The exact path: blocks -/

/-- the two low base-`10^8` limbs of a chunk below `10^17` (26 low bits, then 7 bits at a time through `BID_CONVERT_TABLE`) -/
def digitLoopK {α : Type} (chunk : UInt64) (kont : Array UInt32 → Except String α) : Except String α := do
  let mut QX : UInt64 := default
  let mut QX32 : UInt32 := default
  let mut tdigit : (Array UInt32) := #[(0 : UInt32), (0 : UInt32), (0 : UInt32)]
  let mut j : Int32 := default
  let mut k : Int32 := default
  tdigit := tdigit.set! 0 (UInt32.ofInt (toI ((chunk &&& (0x3ffffff : UInt64)))))
  tdigit := tdigit.set! 1 (0 : UInt32)
  QX := (chunk >>> 0x1a)
  QX32 := (UInt32.ofInt (toI QX))
  j := (0 : Int32)
  for _ in [0:4096] do
    if !(QX32 != (0 : UInt32)) then break
    k := (Int32.ofInt (toI ((QX32 &&& (0x7f : UInt32)))))
    tdigit := tdigit.set! 0 (tdigit[0]! + (← tbl32 Dec.Gen.BID_CONVERT_TABLE (← flatIdx [5, 128, 2] [(UInt64.toNat (UInt64.ofInt (toI j))), (UInt64.toNat (UInt64.ofInt (toI k))), (UInt64.toNat (UInt64.ofInt (toI 0)))])))
    tdigit := tdigit.set! 1 (tdigit[1]! + (← tbl32 Dec.Gen.BID_CONVERT_TABLE (← flatIdx [5, 128, 2] [(UInt64.toNat (UInt64.ofInt (toI j))), (UInt64.toNat (UInt64.ofInt (toI k))), (UInt64.toNat (UInt64.ofInt (toI 1)))])))
    if (decide (tdigit[0]! ≥ (0x5f5e100 : UInt32))) then
      tdigit := tdigit.set! 0 (tdigit[0]! - 0x5f5e100)
      tdigit := tdigit.set! 1 (tdigit[1]! + 1)
    QX32 := (QX32 >>> 7)
    j := (j + 1)
  if (QX32 != (0 : UInt32)) then throw "loop fuel exhausted"
  if (decide (tdigit[1]! ≥ (0x5f5e100 : UInt32))) then
    tdigit := tdigit.set! 1 (tdigit[1]! - 0x5f5e100)
    if (decide (tdigit[1]! ≥ (0x5f5e100 : UInt32))) then
      tdigit := tdigit.set! 1 (tdigit[1]! - 0x5f5e100)
  kont tdigit

/-- the number of trailing decimal zeros from the two limbs -/
def zerosOfK {α : Type} (tdigit : Array UInt32) (kont : Int32 → Except String α) : Except String α := do
  let mut nzeros : Int32 := (0 : Int32)
  let mut PD : UInt64 := default
  let mut digit : UInt32 := default
  let mut digit_h : UInt32 := default
  let mut digit_low : UInt32 := default
  digit := tdigit[0]!
  if ((digit == (0 : UInt32)) && (tdigit[1]! == (0 : UInt32))) then
    nzeros := (nzeros + 0x10)
  else
    if (digit == (0 : UInt32)) then
      nzeros := (nzeros + 8)
      digit := tdigit[1]!
    PD := (((UInt64.ofInt (toI digit))) * (0x68db8bb : UInt64))
    digit_h := (UInt32.ofInt (toI ((PD >>> 0x28))))
    digit_low := (digit - (digit_h * (0x2710 : UInt32)))
    if (digit_low == (0 : UInt32)) then
      nzeros := (nzeros + 4)
    else
      digit_h := digit_low
    if (((digit_h &&& (1 : UInt32))) != (1 : UInt32)) then
      nzeros := (nzeros + (Int32.ofInt (toI (((3 : UInt32) &&& ((UInt32.ofInt (toI (((← tbl8 Dec.Gen.BID_PACKED_10000_ZEROS (UInt64.ofInt (toI ((digit_h >>> 3))))) >>> (UInt8.ofInt (toI ((digit_h &&& (7 : UInt32)))))))))))))))
  kont nzeros

/-- low chunk zero: divide the high chunk by `10^nzeros` through the 64-bit reciprocals, pack -/
def tailHighK (Q_high : UInt64) (nzeros de : Int32) (sgn : UInt64) (rnd_mode : RoundingMode) (pfpsf_ : UInt32) :
    Except String (U128 × UInt32) := do
  let mut pfpsf : UInt32 := pfpsf_
  let mut diff_expon : Int32 := de
  let mut CQ : U128 := default
  let mut res : U128 := default
  let mut amount : Int32 := default
  if (nzeros != (0 : Int32)) then
    CQ := (← mul_64x64_to_128 Q_high (← tbl64 Dec.Gen.BID_RECIPROCALS10_64 (UInt64.ofInt (toI nzeros))))
    amount := (← tblI32 Dec.Gen.BID_SHORT_RECIP_SCALE (UInt64.ofInt (toI nzeros)))
    CQ := { CQ with w0 := (CQ.w1 >>> (UInt64.ofInt (toI amount))) }
  else
    CQ := { CQ with w0 := Q_high }
  CQ := { CQ with w1 := (0 : UInt64) }
  diff_expon := (diff_expon + nzeros)
  let t__14 ← bid_get_BID128 sgn diff_expon CQ rnd_mode pfpsf
  pfpsf := t__14.2
  res := t__14.1
  return (res, pfpsf)

/-- low chunk non-zero: divide the quotient by `10^nzeros` through the 128-bit reciprocals, pack -/
def tailLowK (CQ_ : U128) (nzeros de : Int32) (sgn : UInt64) (rnd_mode : RoundingMode) (pfpsf_ : UInt32) :
    Except String (U128 × UInt32) := do
  let mut pfpsf : UInt32 := pfpsf_
  let mut diff_expon : Int32 := de
  let mut CQ : U128 := CQ_
  let mut Qh : U128 := default
  let mut _Ql : U128 := default
  let mut res : U128 := default
  let mut amount : Int32 := default
  if (nzeros != (0 : Int32)) then
    let t__13 := (← mul_128x128_full CQ (← tbl128 Dec.Gen.BID_RECIPROCALS10_128 (UInt64.ofInt (toI nzeros))))
    Qh := t__13.1
    _Ql := t__13.2
    amount := (← tblI32 Dec.Gen.BID_RECIP_SCALE (UInt64.ofInt (toI nzeros)))
    CQ := (← shr_128 Qh amount)
  diff_expon := (diff_expon + nzeros)
  let t__14 ← bid_get_BID128 sgn diff_expon CQ rnd_mode pfpsf
  pfpsf := t__14.2
  res := t__14.1
  return (res, pfpsf)

/-- both coefficients at most 1024: the trailing zeros from the factor table -/
def smallK (CX CY CQ_ : U128) (ed2 de : Int32) (sgn : UInt64) (rnd_mode : RoundingMode) (pfpsf_ : UInt32) :
    Except String (U128 × UInt32) := do
  let mut pfpsf : UInt32 := pfpsf_
  let mut diff_expon : Int32 := de
  let mut CQ : U128 := CQ_
  let mut Qh : U128 := default
  let mut _Ql : U128 := default
  let mut res : U128 := default
  let mut amount : Int32 := default
  let mut nzeros : Int32 := default
  let mut i : Int32 := default
  let mut j : Int32 := default
  let mut d5 : Int32 := default
  i := (((Int32.ofInt (toI CY.w0))) - (1 : Int32))
  j := (((Int32.ofInt (toI CX.w0))) - (1 : Int32))
  nzeros := ((ed2 - (← tblI32 Dec.Gen.BID_FACTORS (← flatIdx [1024, 2] [(UInt64.toNat (UInt64.ofInt (toI i))), (UInt64.toNat (UInt64.ofInt (toI 0)))]))) + (← tblI32 Dec.Gen.BID_FACTORS (← flatIdx [1024, 2] [(UInt64.toNat (UInt64.ofInt (toI j))), (UInt64.toNat (UInt64.ofInt (toI 0)))])))
  d5 := ((ed2 - (← tblI32 Dec.Gen.BID_FACTORS (← flatIdx [1024, 2] [(UInt64.toNat (UInt64.ofInt (toI i))), (UInt64.toNat (UInt64.ofInt (toI 1)))]))) + (← tblI32 Dec.Gen.BID_FACTORS (← flatIdx [1024, 2] [(UInt64.toNat (UInt64.ofInt (toI j))), (UInt64.toNat (UInt64.ofInt (toI 1)))])))
  if (decide (d5 < nzeros)) then
    nzeros := d5
  let t__12 := (← mul_128x128_full CQ (← tbl128 Dec.Gen.BID_RECIPROCALS10_128 (UInt64.ofInt (toI nzeros))))
  Qh := t__12.1
  _Ql := t__12.2
  amount := (← tblI32 Dec.Gen.BID_RECIP_SCALE (UInt64.ofInt (toI nzeros)))
  CQ := (← shr_128_long Qh amount)
  diff_expon := (diff_expon + nzeros)
  let t__14 ← bid_get_BID128 sgn diff_expon CQ rnd_mode pfpsf
  pfpsf := t__14.2
  res := t__14.1
  return (res, pfpsf)

set_option maxRecDepth 100000 in
set_option maxHeartbeats 1000000 in
theorem exactK_eq (CX CY CQ : U128) (ed2 de : Int32) (sgn : UInt64) (m : RoundingMode) (pf : UInt32) :
    exactK CX CY CQ ed2 de sgn m pf =
      if ((((CX.w1 == (0 : UInt64)) && (CY.w1 == (0 : UInt64))) && ((decide (CX.w0 ≤ (0x400 : UInt64))))) && ((decide (CY.w0 ≤ (0x400 : UInt64))))) then
        smallK CX CY CQ ed2 de sgn m pf
      else
        bind (mul_128x128_to_256 CQ ⟨0x44909befeb9fad49, 0xb877aa3236a4b⟩) fun P256 =>
          if ((CQ.w0 - ((((P256.w2 >>> 0x2c)) ||| ((P256.w3 <<< (0x14)))) * (0x16345785d8a0000 : UInt64))) == (0 : UInt64)) then
            digitLoopK (((P256.w2 >>> 0x2c)) ||| ((P256.w3 <<< (0x14)))) fun td => zerosOfK td fun nz =>
              tailHighK (((P256.w2 >>> 0x2c)) ||| ((P256.w3 <<< (0x14)))) nz (de + 0x11) sgn m pf
          else
            digitLoopK (CQ.w0 - ((((P256.w2 >>> 0x2c)) ||| ((P256.w3 <<< (0x14)))) * (0x16345785d8a0000 : UInt64))) fun td =>
              zerosOfK td fun nz => tailLowK CQ nz de sgn m pf := rfl
/-! ### loops with an invariant -/

theorem forIn_list_inv {σ α : Type} (l : List α) (f : α → σ → Except String (ForInStep σ)) (cont : σ → Bool) (next : σ → σ)
    (Inv : σ → Prop) (hnext : ∀ s, Inv s → cont s = true → Inv (next s))
    (hf : ∀ x s, Inv s → f x s = .ok (if cont s then ForInStep.yield (next s) else ForInStep.done s)) :
    ∀ s, Inv s → forIn l s f = .ok (whileIter cont next l.length s) := by
  induction l with
  | nil => intro s _; rfl
  | cons a t ih =>
    intro s hs
    rw [List.forIn_cons, hf a s hs]
    simp only [bind, Except.bind, List.length_cons, whileIter]
    by_cases h : cont s
    · simp only [h, if_true]; exact ih _ (hnext s hs h)
    · simp only [h, Bool.false_eq_true, if_false]; rfl

theorem forIn_range_inv {σ : Type} (n : Nat) (f : Nat → σ → Except String (ForInStep σ)) (cont : σ → Bool) (next : σ → σ)
    (Inv : σ → Prop) (hnext : ∀ s, Inv s → cont s = true → Inv (next s))
    (hf : ∀ x s, Inv s → f x s = .ok (if cont s then ForInStep.yield (next s) else ForInStep.done s)) (s : σ) (hs : Inv s) :
    forIn [:n] s f = .ok (whileIter cont next n s) := by
  rw [Std.Legacy.Range.forIn_eq_forIn_range', forIn_list_inv _ f cont next Inv hnext hf s hs]
  simp [Std.Legacy.Range.size]

/-- a `while` with a decreasing measure, run with enough fuel, ends with its invariant and its guard false -/
theorem whileIter_post {σ : Type} (cont : σ → Bool) (next : σ → σ) (Inv : σ → Prop) (μ : σ → Nat)
    (hstep : ∀ s, Inv s → cont s = true → Inv (next s) ∧ μ (next s) < μ s) :
    ∀ n s, Inv s → μ s ≤ n → Inv (whileIter cont next n s) ∧ cont (whileIter cont next n s) = false := by
  intro n
  induction n with
  | zero =>
    intro s hs hμ
    refine ⟨hs, ?_⟩
    show cont s = false
    by_contra hc
    have := (hstep s hs (by simpa using hc)).2
    omega
  | succ n ih =>
    intro s hs hμ
    unfold whileIter
    by_cases hc : cont s = true
    · rw [if_pos hc]
      obtain ⟨h1, h2⟩ := hstep s hs hc
      exact ih _ h1 (by omega)
    · rw [if_neg hc]
      exact ⟨hs, by simpa using hc⟩

theorem flat3 (a b c : Nat) (ha : a < 5) (hb : b < 128) (hc : c < 2) :
    flatIdx [5, 128, 2] [a, b, c] = .ok (UInt64.ofNat (a * 256 + b * 2 + c)) := by
  have h1 : ¬ a ≥ 5 := by omega
  have h2 : ¬ b ≥ 128 := by omega
  have h3 : ¬ c ≥ 2 := by omega
  simp only [flatIdx, h1, h2, h3, if_false, bind, Except.bind, pure, Except.pure, List.foldl, UInt64.toNat_ofNat',
    UInt64.toNat_zero]
  have e : a * (1 * 128 * 2) + (b * (1 * 2) + (c * 1 + 0) % 2 ^ 64) % 2 ^ 64 = a * 256 + b * 2 + c := by omega
  rw [e]

/-- a property of all entries of a list, checked in one pass over the list with its indices -/
theorem getD_of_zipIdx_all (l : List Nat) (P : Nat → Nat → Bool) (h : l.zipIdx.all (fun p => P p.2 p.1) = true)
    (i : Nat) (hi : i < l.length) : P i (l.getD i 0) = true := by
  have hm : (l[i], i) ∈ l.zipIdx := by
    rw [List.mem_zipIdx_iff_getElem?]
    simp [hi]
  have := List.all_eq_true.1 h _ hm
  rw [List.getD_eq_getElem?_getD, List.getElem?_eq_getElem hi, Option.getD_some]
  exact this

/-- `BID_CONVERT_TABLE[j][k] = (k·2^(26+7j) mod 10^8, ⌊k·2^(26+7j) / 10^8⌋ mod 10^8)` -/
theorem convert_rows : (Dec.Gen.BID_CONVERT_TABLE.zipIdx).all (fun p =>
    decide (p.1 = if p.2 % 2 = 0 then ((p.2 / 2 % 128) * 2 ^ (26 + 7 * (p.2 / 256))) % 10 ^ 8
      else ((p.2 / 2 % 128) * 2 ^ (26 + 7 * (p.2 / 256))) / 10 ^ 8 % 10 ^ 8)) = true := by
  decide +kernel

theorem convert_len : Dec.Gen.BID_CONVERT_TABLE.length = 1280 := by decide +kernel

theorem convert_row_gen (j k b : Nat) (hj : j < 5) (hk : k < 128) (hb : b < 2) :
    Dec.Gen.BID_CONVERT_TABLE.getD (j * 256 + k * 2 + b) 0 =
      if b = 0 then (k * 2 ^ (26 + 7 * j)) % 10 ^ 8 else (k * 2 ^ (26 + 7 * j)) / 10 ^ 8 % 10 ^ 8 := by
  have p0 : (j * 256 + k * 2 + b) % 2 = b := by omega
  have e1 : (j * 256 + k * 2 + b) / 2 % 128 = k := by omega
  have e2 : (j * 256 + k * 2 + b) / 256 = j := by omega
  have l0 : j * 256 + k * 2 + b < Dec.Gen.BID_CONVERT_TABLE.length := by rw [convert_len]; omega
  have h0 := getD_of_zipIdx_all _ (fun i v => decide (v = if i % 2 = 0 then ((i / 2 % 128) * 2 ^ (26 + 7 * (i / 256))) % 10 ^ 8
      else ((i / 2 % 128) * 2 ^ (26 + 7 * (i / 256))) / 10 ^ 8 % 10 ^ 8)) convert_rows (j * 256 + k * 2 + b) l0
  simp only [decide_eq_true_eq] at h0
  rw [p0, e1, e2] at h0
  exact h0

theorem convert_row (j k : Nat) (hj : j < 5) (hk : k < 128) :
    Dec.Gen.BID_CONVERT_TABLE.getD (j * 256 + k * 2 + 0) 0 = (k * 2 ^ (26 + 7 * j)) % 10 ^ 8 ∧
    Dec.Gen.BID_CONVERT_TABLE.getD (j * 256 + k * 2 + 1) 0 = (k * 2 ^ (26 + 7 * j)) / 10 ^ 8 % 10 ^ 8 :=
  ⟨convert_row_gen j k 0 hj hk (by decide), convert_row_gen j k 1 hj hk (by decide)⟩

def cvt (j k b : Nat) : UInt32 := UInt32.ofNat (Dec.Gen.BID_CONVERT_TABLE.getD (j * 256 + k * 2 + b) 0)

theorem tbl32_cvt (j k b : Nat) (hj : j < 5) (hk : k < 128) (hb : b < 2) :
    tbl32 Dec.Gen.BID_CONVERT_TABLE (UInt64.ofNat (j * 256 + k * 2 + b)) = .ok (cvt j k b) := by
  unfold tbl32 cvt
  have hi : (UInt64.ofNat (j * 256 + k * 2 + b)).toNat = j * 256 + k * 2 + b := by
    rw [UInt64.toNat_ofNat', Nat.mod_eq_of_lt (by omega)]
  rw [hi, getElem?_getD _ _ (by rw [convert_len]; omega)]


/-! ### the digit loop -/

abbrev LS := UInt32 × Array UInt32 × Int32 × Int32
def lCont (s : LS) : Bool := s.1 != 0
def lNext (s : LS) : LS :=
  let q := s.1; let td := s.2.1; let j := s.2.2.1
  let td1 := td.set! 0 (td[0]! + cvt j.toInt.toNat (q &&& 127).toNat 0)
  let td2 := td1.set! 1 (td1[1]! + cvt j.toInt.toNat (q &&& 127).toNat 1)
  let td3 := if decide (td2[0]! ≥ 100000000) = true then
      (td2.set! 0 (td2[0]! - 100000000)).set! 1 ((td2.set! 0 (td2[0]! - 100000000))[1]! + 1) else td2
  (q >>> 7, td3, j + 1, Int32.ofInt (toI (q &&& 127)))

/-- one turn of the loop body, when the table indices are in range -/
theorem loop_body (x : Nat) (s : LS) (hj0 : 0 ≤ s.2.2.1.toInt) (hj : lCont s = true → s.2.2.1.toInt ≤ 4) :
    (fun (x : Nat) (__s : LS) =>
        have QX32 := __s.1;
        have __s := __s.2;
        have tdigit := __s.1;
        have __s := __s.2;
        have j := __s.1;
        have k := __s.2;
        if (!QX32 != 0) = true then (pure (ForInStep.done (QX32, tdigit, j, k)) : Except String (ForInStep LS))
        else
          have k := Int32.ofInt (toI (QX32 &&& 127));
          do
          let __do_lift ←
            flatIdx [5, 128, 2]
                [(UInt64.ofInt (toI j)).toNat, (UInt64.ofInt (toI k)).toNat, (UInt64.ofInt (toI 0)).toNat]
          let __do_lift ← tbl32 Gen.BID_CONVERT_TABLE __do_lift
          have tdigit : Array UInt32 := tdigit.set! 0 (tdigit[0]! + __do_lift)
          let __do_lift ←
            flatIdx [5, 128, 2]
                [(UInt64.ofInt (toI j)).toNat, (UInt64.ofInt (toI k)).toNat, (UInt64.ofInt (toI 1)).toNat]
          let __do_lift ← tbl32 Gen.BID_CONVERT_TABLE __do_lift
          have tdigit : Array UInt32 := tdigit.set! 1 (tdigit[1]! + __do_lift)
          have __do_jp : Unit → Array UInt32 → Except String (ForInStep (UInt32 × Array UInt32 × Int32 × Int32)) :=
            fun __r tdigit =>
            have QX32 := QX32 >>> 7;
            have j := j + 1;
            pure (ForInStep.yield (QX32, tdigit, j, k))
          if decide (tdigit[0]! ≥ 100000000) = true then
              have tdigit := tdigit.set! 0 (tdigit[0]! - 100000000);
              have tdigit := tdigit.set! 1 (tdigit[1]! + 1);
              __do_jp () tdigit
            else __do_jp () tdigit) x s
      = .ok (if lCont s then ForInStep.yield (lNext s) else ForInStep.done s) := by
  obtain ⟨q, td, j, k⟩ := s
  simp only at hj0 hj
  by_cases hq : q = 0
  · subst hq
    rfl
  · have hc : lCont (q, td, j, k) = true := by unfold lCont; simpa using hq
    have hj4 := hj hc
    have hne : ¬ ((!q != 0) = true) := by simpa using hq
    have hJ : (UInt64.ofInt (toI j)).toNat = j.toInt.toNat := ofInt_nonneg j hj0
    have hk128 : (q &&& 127).toNat < 128 := by
      rw [UInt32.toNat_and]; exact lt_of_le_of_lt Nat.and_le_right (by decide)
    have hK : (UInt64.ofInt (toI (Int32.ofInt (toI (q &&& 127))))).toNat = (q &&& 127).toNat := by
      have : (Int32.ofInt (toI (q &&& 127))).toInt = (q &&& 127).toNat := by
        show (Int32.ofInt ((q &&& 127).toNat : Int)).toInt = _
        rw [Int32.toInt_ofInt_of_le (by omega) (by omega)]
      rw [ofInt_nonneg _ (by omega), this]; rfl
    have h0 : (UInt64.ofInt (toI 0)).toNat = 0 := rfl
    have h1 : (UInt64.ofInt (toI 1)).toNat = 1 := rfl
    simp only [hne, if_false, hJ, hK, h0, h1, hc, if_true]
    rw [flat3 _ _ 0 (by omega) hk128 (by decide), flat3 _ _ 1 (by omega) hk128 (by decide)]
    simp only [bind, Except.bind, tbl32_cvt _ _ 0 (show j.toInt.toNat < 5 by omega) hk128 (by decide),
      tbl32_cvt _ _ 1 (show j.toInt.toNat < 5 by omega) hk128 (by decide)]
    unfold lNext
    simp only [Bool.false_eq_true, if_false]
    split <;> rfl

theorem arr_get0 (a b c : UInt32) : #[a,b,c][0]! = a := rfl
theorem arr_get1 (a b c : UInt32) : #[a,b,c][1]! = b := rfl
theorem arr_set0 (a b c v : UInt32) : #[a,b,c].set! 0 v = #[v,b,c] := rfl
theorem arr_set1 (a b c v : UInt32) : #[a,b,c].set! 1 v = #[a,v,c] := rfl

/-- the bound on the second limb after `j` turns -/
def bnd : Nat → Nat
  | 0 => 0 | 1 => 86 | 2 => 10997 | 3 => 1407381 | 4 => 101407381 | _ => 201407381

/-- the loop invariant: after `jn` turns the two limbs hold the low `26 + 7·jn` bits of the chunk `C` in base `10^8`, the second
limb modulo `10^8` -/
def LInv (C : Nat) (s : LS) : Prop :=
  ∃ jn t0 t1 T1 : Nat, jn ≤ 5 ∧ s.2.2.1.toInt = jn ∧ s.1.toNat = C / 2 ^ (26 + 7 * jn) ∧
    s.2.1 = #[UInt32.ofNat t0, UInt32.ofNat t1, 0] ∧ t0 < 10 ^ 8 ∧ t0 + 10 ^ 8 * T1 = C % 2 ^ (26 + 7 * jn) ∧
    t1 % 10 ^ 8 = T1 % 10 ^ 8 ∧ t1 ≤ bnd jn

theorem loop_step (C : Nat) (hC : C < 10 ^ 17) (s : LS) (hs : LInv C s) (hc : lCont s = true) :
    LInv C (lNext s) ∧ (5 - (lNext s).2.2.1.toInt).toNat < (5 - s.2.2.1.toInt).toNat := by
  obtain ⟨q, td, j, k⟩ := s
  obtain ⟨jn, t0, t1, T1, hjn, hj, hq, htd, ht0, hsum, hmod, hbnd⟩ := hs
  simp only at hj hq htd
  have hqne : q ≠ 0 := by unfold lCont at hc; simpa using hc
  have hqn0 : C / 2 ^ (26 + 7 * jn) ≠ 0 := by
    rw [← hq]; intro h; exact hqne (UInt32.toNat_inj.1 h)
  have hjn4 : jn ≤ 4 := by
    by_contra h
    have : jn = 5 := by omega
    subst this
    exact hqn0 (Nat.div_eq_of_lt (lt_trans hC (by norm_num)))
  have hP : 2 ^ (26 + 7 * (jn + 1)) = 2 ^ (26 + 7 * jn) * 128 := by
    rw [show 26 + 7 * (jn + 1) = (26 + 7 * jn) + 7 from by ring, Nat.pow_add]
  have hPpos : 0 < 2 ^ (26 + 7 * jn) := Nat.pow_pos (by decide)
  have hk : (q &&& 127).toNat = C / 2 ^ (26 + 7 * jn) % 128 := by
    rw [UInt32.toNat_and, hq]; exact Nat.and_two_pow_sub_one_eq_mod _ 7
  have hk128 : C / 2 ^ (26 + 7 * jn) % 128 < 128 := Nat.mod_lt _ (by decide)
  obtain ⟨r0, r1⟩ := convert_row jn (C / 2 ^ (26 + 7 * jn) % 128) (by omega) hk128
  have hjt : j.toInt.toNat = jn := by omega
  have hmodmul : C % (2 ^ (26 + 7 * jn) * 128) = C % 2 ^ (26 + 7 * jn) + 2 ^ (26 + 7 * jn) * (C / 2 ^ (26 + 7 * jn) % 128) :=
    Nat.mod_mul
  generalize hkd : C / 2 ^ (26 + 7 * jn) % 128 = kn at *
  have hVb : kn * 2 ^ (26 + 7 * jn) ≤ 127 * 2 ^ (26 + 7 * jn) := Nat.mul_le_mul_right _ (by omega)
  generalize hVd : kn * 2 ^ (26 + 7 * jn) = V at *
  have hcases : jn = 0 ∨ jn = 1 ∨ jn = 2 ∨ jn = 3 ∨ jn = 4 := by omega
  have hHIb : V / 10 ^ 8 % 10 ^ 8 ≤ bnd (jn + 1) - bnd jn - 1 := by
    have : V / 10 ^ 8 % 10 ^ 8 < 10 ^ 8 := Nat.mod_lt _ (by norm_num)
    have hle : V / 10 ^ 8 % 10 ^ 8 ≤ V / 10 ^ 8 := Nat.mod_le _ _
    clear hsum hmodmul hq hqn0 hP hPpos hVd r0 r1 hC
    rcases hcases with rfl | rfl | rfl | rfl | rfl <;> simp only [bnd] <;> norm_num at hVb this hle ⊢ <;> omega
  have hbm : bnd jn + 1 ≤ bnd (jn + 1) := by rcases hcases with rfl | rfl | rfl | rfl | rfl <;> simp only [bnd] <;> omega
  have hb5 : bnd (jn + 1) ≤ 201407381 := by rcases hcases with rfl | rfl | rfl | rfl | rfl <;> simp only [bnd] <;> omega
  have hLO : V % 10 ^ 8 < 10 ^ 8 := Nat.mod_lt _ (by norm_num)
  have hV := Nat.div_add_mod V (10 ^ 8)
  have c0 : cvt j.toInt.toNat (q &&& 127).toNat 0 = UInt32.ofNat (V % 10 ^ 8) := by
    unfold cvt; rw [hjt, hk, r0]
  have c1 : cvt j.toInt.toNat (q &&& 127).toNat 1 = UInt32.ofNat (V / 10 ^ 8 % 10 ^ 8) := by
    unfold cvt; rw [hjt, hk, r1]
  have hj1 : (j + 1).toInt = (jn : Int) + 1 := by
    rw [i32_add_small _ _ (by rw [hj, show (1 : Int32).toInt = 1 from by decide]; omega), hj]; rfl
  have hq7 : (q >>> 7).toNat = C / 2 ^ (26 + 7 * (jn + 1)) := by
    rw [UInt32.toNat_shiftRight, hq, show (7 : UInt32).toNat % 32 = 7 from by decide, Nat.shiftRight_eq_div_pow, hP,
      Nat.div_div_eq_div_mul]
  have hge : decide (UInt32.ofNat (t0 + V % 10 ^ 8) ≥ 100000000) = decide (10 ^ 8 ≤ t0 + V % 10 ^ 8) := by
    rw [Bool.eq_iff_iff, decide_eq_true_eq, decide_eq_true_eq, ge_iff_le, UInt32.le_iff_toNat_le, UInt32.toNat_ofNat',
      Nat.mod_eq_of_lt (by omega)]
    rfl
  constructor
  · by_cases hcar : 10 ^ 8 ≤ t0 + V % 10 ^ 8
    · refine ⟨jn + 1, t0 + V % 10 ^ 8 - 10 ^ 8, t1 + V / 10 ^ 8 % 10 ^ 8 + 1, T1 + V / 10 ^ 8 + 1, by omega, by
        show (j + 1).toInt = _; rw [hj1]; push_cast; rfl, hq7, ?_, by omega, ?_, by omega, by omega⟩
      · show (if _ then _ else _) = _
        rw [htd, arr_get0, arr_set0, arr_get1, arr_set1, arr_get0, c0, c1, ← UInt32.ofNat_add, ← UInt32.ofNat_add, hge,
          if_pos (decide_eq_true hcar), arr_set0, arr_get1, arr_set1]
        rw [show (100000000 : UInt32) = UInt32.ofNat (10 ^ 8) from rfl, ← UInt32.ofNat_sub hcar,
          show (1 : UInt32) = UInt32.ofNat 1 from rfl, ← UInt32.ofNat_add]
      · rw [hP, hmodmul, Nat.mul_comm (2 ^ (26 + 7 * jn)) kn, hVd]; omega
    · refine ⟨jn + 1, t0 + V % 10 ^ 8, t1 + V / 10 ^ 8 % 10 ^ 8, T1 + V / 10 ^ 8, by omega, by
        show (j + 1).toInt = _; rw [hj1]; push_cast; rfl, hq7, ?_, by omega, ?_, by omega, by omega⟩
      · show (if _ then _ else _) = _
        rw [htd, arr_get0, arr_set0, arr_get1, arr_set1, arr_get0, c0, c1, ← UInt32.ofNat_add, ← UInt32.ofNat_add, hge,
          if_neg (by rw [decide_eq_true_eq]; exact hcar)]
      · rw [hP, hmodmul, Nat.mul_comm (2 ^ (26 + 7 * jn)) kn, hVd]; omega
  · show (5 - (j + 1).toInt).toNat < (5 - j.toInt).toNat
    rw [hj1, hj]; omega

theorem linv_guard (C : Nat) (hC : C < 10 ^ 17) (s : LS) (hs : LInv C s) :
    0 ≤ s.2.2.1.toInt ∧ (lCont s = true → s.2.2.1.toInt ≤ 4) := by
  obtain ⟨jn, t0, t1, T1, hjn, hj, hq, -⟩ := hs
  refine ⟨by omega, fun hc => ?_⟩
  have hqne : s.1 ≠ 0 := by unfold lCont at hc; simpa using hc
  have hqn0 : C / 2 ^ (26 + 7 * jn) ≠ 0 := by
    rw [← hq]; intro h; exact hqne (UInt32.toNat_inj.1 h)
  by_contra h
  have : jn = 5 := by omega
  subst this
  exact hqn0 (Nat.div_eq_of_lt (lt_trans hC (by norm_num)))

/-- **the digit loop**: for a chunk `C < 10^17` the two limbs are `C mod 10^8` and `⌊C / 10^8⌋ mod 10^8`; the fuel never runs out -/
theorem digitLoopK_spec {α : Type} (chunk : UInt64) (kont : Array UInt32 → Except String α) (hC : chunk.toNat < 10 ^ 17) :
    digitLoopK chunk kont =
      kont #[UInt32.ofNat (chunk.toNat % 10 ^ 8), UInt32.ofNat (chunk.toNat / 10 ^ 8 % 10 ^ 8), 0] := by
  generalize hCd : chunk.toNat = C at *
  have h57 : C < 2 ^ 57 := lt_trans hC (by norm_num)
  -- the initial state
  have hs0 : LInv C (UInt32.ofInt (toI (chunk >>> 26)),
      (#[(0 : UInt32), 0, 0].set! 0 (UInt32.ofInt (toI (chunk &&& 67108863)))).set! 1 0, (0 : Int32), (default : Int32)) := by
    refine ⟨0, C % 2 ^ 26, 0, 0, by omega, rfl, ?_, ?_, ?_, by omega, rfl, le_refl _⟩
    · show (UInt32.ofInt ((chunk >>> 26).toNat : Int)).toNat = _
      rw [C01GenArith.toNat_ofInt32, UInt64.toNat_shiftRight, hCd, show (26 : UInt64).toNat % 64 = 26 from by decide,
        Nat.shiftRight_eq_div_pow]
      have : C / 2 ^ 26 < 2 ^ 31 := by omega
      omega
    · have e : UInt32.ofInt (toI (chunk &&& 67108863)) = UInt32.ofNat (C % 2 ^ 26) := by
        apply UInt32.toNat_inj.1
        show (UInt32.ofInt ((chunk &&& 67108863).toNat : Int)).toNat = _
        rw [C01GenArith.toNat_ofInt32, UInt64.toNat_and, hCd, UInt32.toNat_ofNat',
          show (67108863 : UInt64).toNat = 2 ^ 26 - 1 from by decide, Nat.and_two_pow_sub_one_eq_mod]
        have : C % 2 ^ 26 < 2 ^ 26 := Nat.mod_lt _ (by decide)
        omega
      rw [arr_set0, arr_set1, e]
      rfl
    · have : C % 2 ^ 26 < 2 ^ 26 := Nat.mod_lt _ (by decide)
      omega
  obtain ⟨hF, hcF⟩ := whileIter_post lCont lNext (LInv C) (fun s => (5 - s.2.2.1.toInt).toNat)
    (fun s hs hc => loop_step C hC s hs hc) 4096 _ hs0 (by show (5 - (0 : Int32).toInt).toNat ≤ 4096; decide)
  unfold digitLoopK
  simp only
  rw [forIn_range_inv 4096 _ lCont lNext (LInv C) (fun s hs hc => (loop_step C hC s hs hc).1)
    (fun x s hs => loop_body x s (linv_guard C hC s hs).1 (linv_guard C hC s hs).2) _ hs0]
  generalize whileIter lCont lNext 4096 _ = sF at hF hcF
  obtain ⟨q, td, j, k⟩ := sF
  obtain ⟨jn, t0, t1, T1, hjn, hj, hq, htd, ht0, hsum, hmod, hbnd⟩ := hF
  simp only at hq htd
  have hq0 : q = 0 := by unfold lCont at hcF; simpa using hcF
  subst hq0
  subst htd
  have hsmall : C < 2 ^ (26 + 7 * jn) := by
    have h0 : C / 2 ^ (26 + 7 * jn) = 0 := by rw [← hq]; rfl
    exact (Nat.div_eq_zero_iff_lt (Nat.pow_pos (by decide))).1 h0
  rw [Nat.mod_eq_of_lt hsmall] at hsum
  have hb : t1 ≤ 201407381 := by
    have : bnd jn ≤ 201407381 := by
      have hcases : jn = 0 ∨ jn = 1 ∨ jn = 2 ∨ jn = 3 ∨ jn = 4 ∨ jn = 5 := by omega
      rcases hcases with rfl | rfl | rfl | rfl | rfl | rfl <;> simp only [bnd] <;> omega
    omega
  have e0 : C % 10 ^ 8 = t0 := by omega
  have e1 : C / 10 ^ 8 % 10 ^ 8 = t1 % 10 ^ 8 := by
    have : C / 10 ^ 8 = T1 := by omega
    rw [this, hmod]
  rw [e0, e1]
  simp only [bind, Except.bind]
  dsimp only [arr_get1, arr_get0, arr_set0, arr_set1]
  rw [if_neg (show ¬ ((0 : UInt32) != 0) = true by decide)]
  have hge : ∀ a : Nat, a < 2 ^ 32 → (UInt32.ofNat a ≥ 100000000 ↔ 10 ^ 8 ≤ a) := by
    intro a ha
    rw [ge_iff_le, UInt32.le_iff_toNat_le, UInt32.toNat_ofNat', Nat.mod_eq_of_lt ha]
    rfl
  have hsub : ∀ a : Nat, 10 ^ 8 ≤ a → UInt32.ofNat a - 100000000 = UInt32.ofNat (a - 10 ^ 8) := by
    intro a ha
    rw [show (100000000 : UInt32) = UInt32.ofNat (10 ^ 8) from rfl, ← UInt32.ofNat_sub ha]
  have hge' : ∀ a : Nat, a < 2 ^ 32 → ∀ u : UInt32, u = UInt32.ofNat a → (decide (u ≥ 100000000) = true ↔ 10 ^ 8 ≤ a) := by
    intro a ha u hu
    rw [decide_eq_true_eq, hu]; exact hge a ha
  show (if decide (UInt32.ofNat t1 ≥ 100000000) = true then
      if decide (UInt32.ofNat t1 - 100000000 ≥ 100000000) = true then
        kont #[UInt32.ofNat t0, UInt32.ofNat t1 - 100000000 - 100000000, 0]
      else kont #[UInt32.ofNat t0, UInt32.ofNat t1 - 100000000, 0]
    else kont #[UInt32.ofNat t0, UInt32.ofNat t1, 0]) =
    kont #[UInt32.ofNat t0, UInt32.ofNat (t1 % 10 ^ 8), 0]
  have hb32 : t1 < 2 ^ 32 := by omega
  clear hsum hmod hbnd hq hcF hj hsmall e0 e1 hs0 hC h57 hCd
  split
  · rename_i h1
    have c1 := (hge' t1 hb32 _ rfl).1 h1
    rw [hsub t1 c1] at *
    split
    · rename_i h2
      have c2 := (hge' (t1 - 10 ^ 8) (by omega) _ rfl).1 h2
      rw [hsub _ c2]
      have : t1 % 10 ^ 8 = t1 - 10 ^ 8 - 10 ^ 8 := by omega
      rw [this]
    · rename_i h2
      have c2 : ¬ 10 ^ 8 ≤ t1 - 10 ^ 8 := fun h => h2 ((hge' (t1 - 10 ^ 8) (by omega) _ rfl).2 h)
      have : t1 % 10 ^ 8 = t1 - 10 ^ 8 := by omega
      rw [this]
  · rename_i h1
    have c1 : ¬ 10 ^ 8 ≤ t1 := fun h => h1 ((hge' t1 hb32 _ rfl).2 h)
    have : t1 % 10 ^ 8 = t1 := by omega
    rw [this]

/-! ### counting the trailing zeros of a chunk -/

def z4K {α : Type} (dh : UInt32) (nz : Int32) (kont : Int32 → Except String α) : Except String α :=
  if (dh &&& 1 != 1) = true then do
    let t ← tbl8 Dec.Gen.BID_PACKED_10000_ZEROS (UInt64.ofInt (toI (dh >>> 3)))
    kont (nz + Int32.ofInt (toI (3 &&& UInt32.ofInt (toI (t >>> UInt8.ofInt (toI (dh &&& 7)))))))
  else kont nz

def z8K {α : Type} (digit : UInt32) (nz : Int32) (kont : Int32 → Except String α) : Except String α :=
  if (digit - UInt32.ofInt (toI ((UInt64.ofInt (toI digit) * 109951163) >>> 40)) * 10000 == 0) = true then
    z4K (UInt32.ofInt (toI ((UInt64.ofInt (toI digit) * 109951163) >>> 40))) (nz + 4) kont
  else z4K (digit - UInt32.ofInt (toI ((UInt64.ofInt (toI digit) * 109951163) >>> 40)) * 10000) nz kont

theorem zerosOfK_eq {α : Type} (td : Array UInt32) (kont : Int32 → Except String α) :
    zerosOfK td kont =
      if (td[0]! == 0 && td[1]! == 0) = true then kont (0 + 16)
      else if (td[0]! == 0) = true then z8K td[1]! (0 + 8) kont else z8K td[0]! 0 kont := rfl

theorem packed_lt : Dec.Gen.BID_PACKED_10000_ZEROS.all (· < 256) = true ∧ Dec.Gen.BID_PACKED_10000_ZEROS.length = 1250 := by
  decide +kernel

/-- `tz10 d ≤ 3`, `10^(tz10 d) ∣ d`, `10^(tz10 d + 1) ∤ d` for `0 < d < 10^4` -/
theorem tz10_fact (d : Nat) (h0 : 0 < d) (h1 : d < 10000) :
    d % 10 ^ tz10 d = 0 ∧ d % 10 ^ (tz10 d + 1) ≠ 0 ∧ tz10 d ≤ 3 := by
  have h := List.all_eq_true.1 tz10_spec d (List.mem_range.2 h1)
  simp only [Bool.or_eq_true, Bool.and_eq_true, beq_iff_eq, bne_iff_ne, ne_eq] at h
  rcases h with h | ⟨a, b⟩
  · omega
  · refine ⟨a, b, ?_⟩
    by_contra hc
    have h4 : 10 ^ 4 ≤ 10 ^ tz10 d := Nat.pow_le_pow_right (by decide) (by omega)
    have := Nat.le_of_dvd h0 (Nat.dvd_of_mod_eq_zero a)
    omega

theorem z4K_spec {α : Type} (d : Nat) (nz : Int32) (kont : Int32 → Except String α) (h0 : 0 < d) (h1 : d < 10000)
    (hnz : 0 ≤ nz.toInt ∧ nz.toInt ≤ 100) :
    ∃ nz' : Int32, z4K (UInt32.ofNat d) nz kont = kont nz' ∧ nz'.toInt = nz.toInt + tz10 d := by
  obtain ⟨f1, f2, f3⟩ := tz10_fact d h0 h1
  have hd : (UInt32.ofNat d).toNat = d := by rw [UInt32.toNat_ofNat', Nat.mod_eq_of_lt (by omega)]
  have hodd : ((UInt32.ofNat d) &&& 1 != 1) = decide (d % 2 = 0) := by
    rw [Bool.eq_iff_iff, bne_iff_ne, ne_eq, ← UInt32.toNat_inj, UInt32.toNat_and, hd, decide_eq_true_eq]
    show ¬ (d &&& 1 = 1) ↔ _
    rw [Nat.and_one_is_mod]; omega
  unfold z4K
  by_cases hev : d % 2 = 0
  · rw [hodd, if_pos (decide_eq_true hev)]
    have hidx : (UInt64.ofInt (toI ((UInt32.ofNat d) >>> 3))).toNat = d / 8 := by
      show (UInt64.ofInt (((UInt32.ofNat d) >>> 3).toNat : Int)).toNat = _
      rw [C01GenArith.toNat_ofInt64, UInt32.toNat_shiftRight, hd, show (3 : UInt32).toNat % 32 = 3 from by decide,
        Nat.shiftRight_eq_div_pow]
      omega
    have htbl : tbl8 Dec.Gen.BID_PACKED_10000_ZEROS (UInt64.ofInt (toI ((UInt32.ofNat d) >>> 3)))
        = .ok (UInt8.ofNat (Dec.Gen.BID_PACKED_10000_ZEROS.getD (d / 8) 0)) := by
      unfold tbl8
      rw [hidx, getElem?_getD _ _ (by rw [packed_lt.2]; omega)]
    rw [htbl]
    refine ⟨_, rfl, ?_⟩
    have hbyte : Dec.Gen.BID_PACKED_10000_ZEROS.getD (d / 8) 0 < 256 := by
      have hlen : d / 8 < Dec.Gen.BID_PACKED_10000_ZEROS.length := by rw [packed_lt.2]; omega
      have := List.all_eq_true.1 packed_lt.1 (Dec.Gen.BID_PACKED_10000_ZEROS[d / 8]'hlen) (List.getElem_mem _)
      rw [List.getD_eq_getElem?_getD, List.getElem?_eq_getElem hlen, Option.getD_some]
      simpa using this
    have hmech := packed_zeros_mechanism d (by omega) (by omega) hev
    generalize Dec.Gen.BID_PACKED_10000_ZEROS.getD (d / 8) 0 = byte at *
    have hval : (toI (3 &&& UInt32.ofInt (toI ((UInt8.ofNat byte) >>> UInt8.ofInt (toI ((UInt32.ofNat d) &&& 7)))))) = (tz10 d : Int) := by
      show (((3 : UInt32) &&& UInt32.ofInt (((UInt8.ofNat byte) >>> UInt8.ofInt (((UInt32.ofNat d) &&& 7).toNat : Int)).toNat : Int)).toNat : Int) = _
      have h7 : ((UInt32.ofNat d) &&& 7).toNat = d % 8 := by
        rw [UInt32.toNat_and, hd]; exact Nat.and_two_pow_sub_one_eq_mod _ 3
      have hs8 : (UInt8.ofInt ((d % 8 : Nat) : Int)).toNat = d % 8 := by
        unfold UInt8.ofInt
        rw [UInt8.toNat_ofNat']
        omega
      rw [h7, UInt32.toNat_and, C01GenArith.toNat_ofInt32, UInt8.toNat_shiftRight, hs8, UInt8.toNat_ofNat',
        Nat.mod_eq_of_lt hbyte, Nat.shiftRight_eq_div_pow]
      have e1 : d % 8 % 8 = d % 8 := by omega
      have hq : byte / 2 ^ (d % 8) < 256 := lt_of_le_of_lt (Nat.div_le_self _ _) hbyte
      rw [e1, show (3 : UInt32).toNat = 2 ^ 2 - 1 from rfl, Nat.and_comm, Nat.and_two_pow_sub_one_eq_mod]
      generalize byte / 2 ^ (d % 8) = v at *
      have : ((v : Int) % 4294967296).toNat = v := by omega
      rw [this]
      omega
    rw [hval, i32_add_small _ _ (by rw [Int32.toInt_ofInt_of_le (by omega) (by omega)]; omega),
      Int32.toInt_ofInt_of_le (by omega) (by omega)]
  · rw [hodd, if_neg (by rw [decide_eq_true_eq]; exact hev)]
    refine ⟨nz, rfl, ?_⟩
    have : tz10 d = 0 := by
      by_contra hc
      have : 10 ∣ d := Nat.dvd_trans (Dvd.dvd.pow (dvd_refl 10) hc) (Nat.dvd_of_mod_eq_zero f1)
      omega
    rw [this]; simp

/-- trailing zeros of a limb `0 < d < 10^8` -/
def z8 (d : Nat) : Nat := if d % 10 ^ 4 = 0 then 4 + tz10 (d / 10 ^ 4) else tz10 (d % 10 ^ 4)

theorem z8K_spec {α : Type} (d : Nat) (nz : Int32) (kont : Int32 → Except String α) (h0 : 0 < d) (h1 : d < 10 ^ 8)
    (hnz : 0 ≤ nz.toInt ∧ nz.toInt ≤ 50) :
    ∃ nz' : Int32, z8K (UInt32.ofNat d) nz kont = kont nz' ∧ nz'.toInt = nz.toInt + z8 d := by
  have hd : (UInt32.ofNat d).toNat = d := by rw [UInt32.toNat_ofNat', Nat.mod_eq_of_lt (by omega)]
  have hdh : UInt32.ofInt (toI ((UInt64.ofInt (toI (UInt32.ofNat d)) * 109951163) >>> 40)) = UInt32.ofNat (d / 10 ^ 4) := by
    apply UInt32.toNat_inj.1
    show (UInt32.ofInt (((UInt64.ofInt ((UInt32.ofNat d).toNat : Int) * 109951163) >>> 40).toNat : Int)).toNat = _
    rw [C01GenArith.toNat_ofInt32, UInt64.toNat_shiftRight, UInt64.toNat_mul, C01GenArith.toNat_ofInt64, hd,
      show (109951163 : UInt64).toNat = 109951163 from rfl, show (40 : UInt64).toNat % 64 = 40 from rfl,
      Nat.shiftRight_eq_div_pow, UInt32.toNat_ofNat']
    have e1 : ((d : Int) % 18446744073709551616).toNat = d := by omega
    rw [e1, Nat.mod_eq_of_lt (by omega)]
    have e2 : d * 109951163 / 2 ^ 40 = d / 10 ^ 4 := by omega
    rw [e2]
    have : d / 10 ^ 4 < 10 ^ 4 := by omega
    omega
  have hdl : UInt32.ofNat d - UInt32.ofNat (d / 10 ^ 4) * 10000 = UInt32.ofNat (d % 10 ^ 4) := by
    apply UInt32.toNat_inj.1
    rw [UInt32.toNat_sub, UInt32.toNat_mul, hd, UInt32.toNat_ofNat', UInt32.toNat_ofNat',
      show (10000 : UInt32).toNat = 10000 from rfl]
    omega
  unfold z8K
  rw [hdh, hdl]
  unfold z8
  by_cases hz : d % 10 ^ 4 = 0
  · have hc : (UInt32.ofNat (d % 10 ^ 4) == 0) = true := by rw [hz]; rfl
    rw [if_pos hc, if_pos hz]
    have h4 : (nz + 4).toInt = nz.toInt + 4 := by
      rw [i32_add_small _ _ (by rw [show (4 : Int32).toInt = 4 from rfl]; omega)]; rfl
    obtain ⟨nz', hk, hv⟩ := z4K_spec (d / 10 ^ 4) (nz + 4) kont (by omega) (by omega) (by omega)
    exact ⟨nz', hk, by rw [hv, h4]; push_cast; ring⟩
  · have hc : ¬ (UInt32.ofNat (d % 10 ^ 4) == 0) = true := by
      rw [beq_iff_eq, ← UInt32.toNat_inj, UInt32.toNat_ofNat']
      show ¬ d % 10 ^ 4 % 2 ^ 32 = 0
      omega
    rw [if_neg hc, if_neg hz]
    exact z4K_spec (d % 10 ^ 4) nz kont (by omega) (by omega) (by omega)

/-- the count of the trailing zeros from the two limbs -/
def nzOf (a b : Nat) : Nat := if a = 0 ∧ b = 0 then 16 else if a = 0 then 8 + z8 b else z8 a

theorem zerosOfK_spec {α : Type} (a b : Nat) (kont : Int32 → Except String α) (ha : a < 10 ^ 8) (hb : b < 10 ^ 8) :
    ∃ nz : Int32, zerosOfK #[UInt32.ofNat a, UInt32.ofNat b, 0] kont = kont nz ∧ nz.toInt = nzOf a b := by
  have hz : ∀ v : Nat, v < 10 ^ 8 → ((UInt32.ofNat v == 0) = decide (v = 0)) := by
    intro v hv
    rw [Bool.eq_iff_iff, beq_iff_eq, decide_eq_true_eq, ← UInt32.toNat_inj, UInt32.toNat_ofNat']
    show v % 2 ^ 32 = 0 ↔ _
    omega
  rw [zerosOfK_eq]
  show ∃ nz, (if (UInt32.ofNat a == 0 && UInt32.ofNat b == 0) = true then _ else
    if (UInt32.ofNat a == 0) = true then z8K (UInt32.ofNat b) (0 + 8) kont else z8K (UInt32.ofNat a) 0 kont) = _ ∧ _
  rw [hz a ha, hz b hb]
  unfold nzOf
  by_cases h0 : a = 0
  · by_cases h1 : b = 0
    · rw [if_pos (by simp [h0, h1]), if_pos ⟨h0, h1⟩]
      exact ⟨_, rfl, by decide⟩
    · rw [if_neg (by simp [h0, h1]), if_pos (by simp [h0]), if_neg (fun h => h1 h.2), if_pos h0]
      obtain ⟨nz', hk, hv⟩ := z8K_spec b (0 + 8) kont (by omega) hb (by rw [show ((0 : Int32) + 8).toInt = 8 from rfl]; omega)
      exact ⟨nz', hk, by rw [hv]; rfl⟩
  · rw [if_neg (by simp [h0]), if_neg (by simp [h0]), if_neg (fun h => h0 h.1), if_neg h0]
    obtain ⟨nz', hk, hv⟩ := z8K_spec a 0 kont (by omega) ha (by rw [show (0 : Int32).toInt = 0 from rfl]; omega)
    exact ⟨nz', hk, by rw [hv]; simp⟩

theorem z8_fact (d : Nat) (h0 : 0 < d) (h1 : d < 10 ^ 8) :
    d % 10 ^ z8 d = 0 ∧ d % 10 ^ (z8 d + 1) ≠ 0 ∧ z8 d ≤ 7 := by
  unfold z8
  by_cases hz : d % 10 ^ 4 = 0
  · rw [if_pos hz]
    obtain ⟨f1, f2, f3⟩ := tz10_fact (d / 10 ^ 4) (by omega) (by omega)
    generalize tz10 (d / 10 ^ 4) = t at *
    have : t = 0 ∨ t = 1 ∨ t = 2 ∨ t = 3 := by omega
    rcases this with rfl | rfl | rfl | rfl <;> norm_num at f1 f2 ⊢ <;> omega
  · rw [if_neg hz]
    obtain ⟨f1, f2, f3⟩ := tz10_fact (d % 10 ^ 4) (by omega) (by omega)
    generalize tz10 (d % 10 ^ 4) = t at *
    have : t = 0 ∨ t = 1 ∨ t = 2 ∨ t = 3 := by omega
    rcases this with rfl | rfl | rfl | rfl <;> norm_num at f1 f2 ⊢ <;> omega

/-- **the count is the multiplicity of ten**: for a chunk `0 < C < 10^17` with limbs `a = C mod 10^8`, `b = ⌊C/10^8⌋ mod 10^8` -/
theorem nzOf_fact (C : Nat) (h0 : 0 < C) (h1 : C < 10 ^ 17) :
    C % 10 ^ nzOf (C % 10 ^ 8) (C / 10 ^ 8 % 10 ^ 8) = 0 ∧ C % 10 ^ (nzOf (C % 10 ^ 8) (C / 10 ^ 8 % 10 ^ 8) + 1) ≠ 0 ∧
      nzOf (C % 10 ^ 8) (C / 10 ^ 8 % 10 ^ 8) ≤ 16 := by
  unfold nzOf
  by_cases ha : C % 10 ^ 8 = 0
  · by_cases hb : C / 10 ^ 8 % 10 ^ 8 = 0
    · rw [if_pos ⟨ha, hb⟩]
      norm_num at ha hb ⊢
      omega
    · rw [if_neg (fun h => hb h.2), if_pos ha]
      obtain ⟨f1, f2, f3⟩ := z8_fact (C / 10 ^ 8 % 10 ^ 8) (by omega) (Nat.mod_lt _ (by norm_num))
      generalize z8 (C / 10 ^ 8 % 10 ^ 8) = w at *
      have : w = 0 ∨ w = 1 ∨ w = 2 ∨ w = 3 ∨ w = 4 ∨ w = 5 ∨ w = 6 ∨ w = 7 := by omega
      rcases this with rfl | rfl | rfl | rfl | rfl | rfl | rfl | rfl <;> norm_num at f1 f2 ha ⊢ <;> omega
  · rw [if_neg (fun h => ha h.1), if_neg ha]
    obtain ⟨f1, f2, f3⟩ := z8_fact (C % 10 ^ 8) (by omega) (Nat.mod_lt _ (by norm_num))
    generalize z8 (C % 10 ^ 8) = w at *
    have : w = 0 ∨ w = 1 ∨ w = 2 ∨ w = 3 ∨ w = 4 ∨ w = 5 ∨ w = 6 ∨ w = 7 := by omega
    rcases this with rfl | rfl | rfl | rfl | rfl | rfl | rfl | rfl <;> norm_num at f1 f2 ⊢ <;> omega

/-- **the split at `10^17`**: the constant `⌈2^172 / 10^17⌉` turns the 34-digit quotient into its two 17-digit chunks -/
theorem split17 (CQ : U128) (hQ : CQ.toNat' < 10 ^ 34) :
    ∃ P : U256, mul_128x128_to_256 CQ ⟨0x44909befeb9fad49, 0xb877aa3236a4b⟩ = .ok P ∧
      ((P.w2 >>> 0x2c) ||| (P.w3 <<< 0x14)).toNat = CQ.toNat' / 10 ^ 17 ∧
      (CQ.w0 - ((P.w2 >>> 0x2c) ||| (P.w3 <<< 0x14)) * 0x16345785d8a0000).toNat = CQ.toNat' % 10 ^ 17 := by
  obtain ⟨P, hP, hv⟩ := C01GenArith.gen_mul_128x128_to_256 CQ ⟨0x44909befeb9fad49, 0xb877aa3236a4b⟩
  have hK : (⟨0x44909befeb9fad49, 0xb877aa3236a4b⟩ : U128).toNat' = 59863107065073783529622930748058953 := by decide
  rw [hK] at hv
  have hdiv : CQ.toNat' * 59863107065073783529622930748058953 / 2 ^ 172 = CQ.toNat' / 10 ^ 17 := by
    apply mul_recip_div _ _ 172 (10 ^ 17) 51489300303970304 (by norm_num) (by norm_num)
    have : CQ.toNat' / 10 ^ 17 < 10 ^ 17 := (Nat.div_lt_iff_lt_mul (by norm_num)).2 (by
      calc CQ.toNat' < 10 ^ 34 := hQ
        _ = 10 ^ 17 * 10 ^ 17 := by norm_num)
    omega
  have b0 := P.w0.toNat_lt; have b1 := P.w1.toNat_lt; have b2 := P.w2.toNat_lt; have b3 := P.w3.toNat_lt
  have hq17 : CQ.toNat' / 10 ^ 17 < 10 ^ 17 := (Nat.div_lt_iff_lt_mul (by norm_num)).2 (by
      calc CQ.toNat' < 10 ^ 34 := hQ
        _ = 10 ^ 17 * 10 ^ 17 := by norm_num)
  have hPq : P.toNat' / 2 ^ 172 = CQ.toNat' / 10 ^ 17 := by rw [hv]; exact hdiv
  have hhigh : ((P.w2 >>> 0x2c) ||| (P.w3 <<< 0x14)).toNat = CQ.toNat' / 10 ^ 17 := by
    rw [← hPq] at hq17 ⊢
    clear hPq hdiv hv hK hQ
    unfold U256.toNat' at hq17 ⊢
    have hw3 : P.w3.toNat < 2 ^ 44 := by omega
    have e : (P.w0.toNat + 2 ^ 64 * P.w1.toNat + 2 ^ 128 * P.w2.toNat + 2 ^ 192 * P.w3.toNat) / 2 ^ 172
        = P.w3.toNat * 2 ^ 20 + P.w2.toNat / 2 ^ 44 := by omega
    rw [e]
    clear hq17 e
    rw [UInt64.toNat_or, UInt64.toNat_shiftRight, UInt64.toNat_shiftLeft, show (0x2c : UInt64).toNat % 64 = 44 from rfl,
      show (0x14 : UInt64).toNat % 64 = 20 from rfl, Nat.shiftRight_eq_div_pow, Nat.shiftLeft_eq]
    rw [Nat.mod_eq_of_lt (by omega), Nat.or_comm]
    have := Nat.shiftLeft_add_eq_or_of_lt (i := 20) (b := P.w2.toNat / 2 ^ 44) (by omega) P.w3.toNat
    rw [Nat.shiftLeft_eq] at this
    rw [← this]
  refine ⟨P, hP, hhigh, ?_⟩
  rw [UInt64.toNat_sub, UInt64.toNat_mul, hhigh, show (0x16345785d8a0000 : UInt64).toNat = 10 ^ 17 from by decide]
  have hw0 : CQ.w0.toNat = CQ.toNat' % 2 ^ 64 := by
    have := CQ.w0.toNat_lt
    unfold U128.toNat'; omega
  rw [hw0]
  have := Nat.div_add_mod CQ.toNat' (10 ^ 17)
  have hr : CQ.toNat' % 10 ^ 17 < 10 ^ 17 := Nat.mod_lt _ (by norm_num)
  generalize CQ.toNat' / 10 ^ 17 = qh at *
  generalize CQ.toNat' % 10 ^ 17 = ql at *
  omega

/-! ### dividing by the power of ten; the tails -/

/-- reading an `i32` table at an `i32` index -/
theorem tblI32_read (T : List Nat) (nz : Int32) (v : Nat) (hv : nz.toInt = v) (hlen : v < T.length)
    (hsmall : T.getD v 0 < 2 ^ 31) :
    ∃ d : Int32, tblI32 T (UInt64.ofInt (toI nz)) = .ok d ∧ d.toInt = T.getD v 0 := by
  unfold tblI32
  rw [ofInt_nonneg nz (by omega), hv, Int.toNat_natCast, getElem?_getD _ _ hlen]
  refine ⟨_, rfl, ?_⟩
  generalize T.getD v 0 = w at *
  have : (UInt64.ofNat w).toInt64.toInt = w := by
    show (UInt64.ofNat w).toBitVec.toInt = w
    rw [BitVec.toInt_eq_toNat_cond]
    have : (UInt64.ofNat w).toBitVec.toNat = w := by
      show (UInt64.ofNat w).toNat = w
      rw [UInt64.toNat_ofNat', Nat.mod_eq_of_lt (by omega)]
    rw [this]; split <;> omega
  rw [this, Int32.toInt_ofInt_of_le (by omega) (by omega)]

theorem tbl64_read (T : List Nat) (nz : Int32) (v : Nat) (hv : nz.toInt = v) (hlen : v < T.length) :
    tbl64 T (UInt64.ofInt (toI nz)) = .ok (UInt64.ofNat (T.getD v 0)) := by
  unfold tbl64
  rw [ofInt_nonneg nz (by omega), hv, Int.toNat_natCast, getElem?_getD _ _ hlen]

theorem recip64_facts : Dec.Gen.BID_RECIPROCALS10_64.all (· < 2 ^ 64) = true ∧ Dec.Gen.BID_RECIPROCALS10_64.length = 18 ∧
    Dec.Gen.BID_SHORT_RECIP_SCALE.all (· < 64) = true ∧ Dec.Gen.BID_SHORT_RECIP_SCALE.length = 18 := by decide +kernel

theorem recip128_facts : Dec.Gen.BID_RECIP_SCALE.all (fun s => decide (1 ≤ s) && decide (s < 128)) = true ∧
    (List.range 36).all (fun i => decide (Dec.Gen.BID_RECIPROCALS10_128.getD (2 * i + 1) 0 < 2 ^ 63)) = true ∧
    (List.range 17).all (fun i => decide (Dec.Gen.BID_RECIP_SCALE.getD i 0 < 64)) = true := by decide +kernel

theorem all_getD (T : List Nat) (P : Nat → Bool) (h : T.all P = true) (i : Nat) (hi : i < T.length) : P (T.getD i 0) = true := by
  rw [List.all_eq_true] at h
  have := h (T[i]) (List.getElem_mem hi)
  rw [List.getD_eq_getElem?_getD, List.getElem?_eq_getElem hi, Option.getD_some]
  exact this

/-- **low chunk zero**: the high chunk divided by `10^v` through `BID_RECIPROCALS10_64`, handed to the packer -/
theorem tailHighK_spec (Qh : UInt64) (nz de : Int32) (sgn : UInt64) (m : RoundingMode) (pf : UInt32) (v : Nat)
    (hv : nz.toInt = v) (hv16 : v ≤ 16) (hH : Qh.toNat < 10 ^ 17) :
    ∃ CQ' : U128, tailHighK Qh nz de sgn m pf = bid_get_BID128 sgn (de + nz) CQ' m pf ∧ CQ'.toNat' = Qh.toNat / 10 ^ v := by
  by_cases h0 : v = 0
  · subst h0
    have hnz : nz = 0 := Int32.toInt_inj.1 (by rw [hv]; rfl)
    subst hnz
    refine ⟨⟨Qh, 0⟩, ?_, by unfold U128.toNat'; simp⟩
    unfold tailHighK
    take_neg
    · decide
    head_step
    exact bind_eta _
  · have hne : (nz != 0) = true := by
      rw [bne_iff_ne]; intro h; rw [h] at hv; exact h0 (by have : (0 : Int32).toInt = 0 := rfl; omega)
    obtain ⟨f1, f2, f3, f4⟩ := recip64_facts
    have hR := tbl64_read Dec.Gen.BID_RECIPROCALS10_64 nz v hv (by rw [f2]; omega)
    have hRlt : Dec.Gen.BID_RECIPROCALS10_64.getD v 0 < 2 ^ 64 := by
      have := all_getD _ _ f1 v (by rw [f2]; omega); simpa using this
    have hSlt : Dec.Gen.BID_SHORT_RECIP_SCALE.getD v 0 < 64 := by
      have := all_getD _ _ f3 v (by rw [f4]; omega); simpa using this
    obtain ⟨am, hA, hAv⟩ := tblI32_read Dec.Gen.BID_SHORT_RECIP_SCALE nz v hv (by rw [f4]; omega) (by omega)
    obtain ⟨r, hM, hMv⟩ := C01GenArith.gen_mul_64x64_to_128 Qh (UInt64.ofNat (Dec.Gen.BID_RECIPROCALS10_64.getD v 0))
    rw [UInt64.toNat_ofNat', Nat.mod_eq_of_lt hRlt] at hMv
    have hmech := reciprocals10_64_mechanism' v (by omega) (by omega) Qh.toNat (by omega)
    refine ⟨⟨r.w1 >>> UInt64.ofInt (toI am), 0⟩, ?_, ?_⟩
    · unfold tailHighK
      take_pos
      · exact hne
      take_call hR
      take_call hM
      take_call hA
      head_step
      exact bind_eta _
    · unfold U128.toNat'
      show (r.w1 >>> UInt64.ofInt (toI am)).toNat + 2 ^ 64 * (0 : UInt64).toNat = _
      rw [UInt64.toNat_shiftRight, ofInt_nonneg am (by omega), hAv, Int.toNat_natCast, Nat.mod_eq_of_lt hSlt,
        Nat.shiftRight_eq_div_pow, ← hmech, ← hMv]
      have : r.w1.toNat = r.toNat' / 2 ^ 64 := by
        have := r.w0.toNat_lt
        unfold U128.toNat'; omega
      rw [this]; simp

/-- `⌊Q / 10^v⌋` through `BID_RECIPROCALS10_128` and a right shift (`shr` either `shr_128` for `v ≤ 16` or `shr_128_long`) -/
theorem recip128_div (CQ : U128) (nz : Int32) (v : Nat) (hv : nz.toInt = v) (hv1 : 1 ≤ v) (hv35 : v ≤ 35)
    (hQ : CQ.toNat' < 10 ^ 34) :
    ∃ (T : U128) (r : U128 × U128) (am : Int32),
      tbl128 Dec.Gen.BID_RECIPROCALS10_128 (UInt64.ofInt (toI nz)) = .ok T ∧ mul_128x128_full CQ T = .ok r ∧
      tblI32 Dec.Gen.BID_RECIP_SCALE (UInt64.ofInt (toI nz)) = .ok am ∧ 1 ≤ am.toInt ∧ am.toInt ≤ 127 ∧
      (v ≤ 16 → am.toInt ≤ 63) ∧ r.1.toNat' / 2 ^ am.toInt.toNat = CQ.toNat' / 10 ^ v := by
  obtain ⟨g1, g2, g3⟩ := recip128_facts
  obtain ⟨w1, w2⟩ := rec_words
  have hI : (UInt64.ofInt (toI nz)).toNat = v := by rw [ofInt_nonneg nz (by omega), hv, Int.toNat_natCast]
  have hT := tbl128_eq Dec.Gen.BID_RECIPROCALS10_128 (UInt64.ofInt (toI nz)) (by rw [hI, w2]; omega)
  rw [hI] at hT
  have hlo : Dec.Gen.BID_RECIPROCALS10_128.getD (2 * v) 0 < 2 ^ 64 := getD_lt _ w1 _ (by rw [w2]; omega)
  have hhi : Dec.Gen.BID_RECIPROCALS10_128.getD (2 * v + 1) 0 < 2 ^ 63 := by
    have := List.all_eq_true.1 g2 v (List.mem_range.2 (by omega)); simpa using this
  have hS := all_getD _ _ g1 v (by rw [scale_len]; omega)
  simp only [Bool.and_eq_true, decide_eq_true_eq] at hS
  obtain ⟨am, hA, hAv⟩ := tblI32_read Dec.Gen.BID_RECIP_SCALE nz v hv (by rw [scale_len]; omega) (by omega)
  have hTv : (⟨UInt64.ofNat (Dec.Gen.BID_RECIPROCALS10_128.getD (2 * v) 0),
      UInt64.ofNat (Dec.Gen.BID_RECIPROCALS10_128.getD (2 * v + 1) 0)⟩ : U128).toNat'
        = entry Dec.Gen.BID_RECIPROCALS10_128 2 v := by
    unfold U128.toNat' entry
    simp only [UInt64.toNat_ofNat', List.range, List.range.loop, List.foldr]
    rw [Nat.mod_eq_of_lt hlo, Nat.mod_eq_of_lt (by omega)]
    have e1 : v * 2 + 0 = 2 * v := by omega
    have e2 : v * 2 + 1 = 2 * v + 1 := by omega
    rw [e1, e2]; omega
  have hw1 : CQ.w1.toNat < 2 ^ 49 := by
    have : (10 : Nat) ^ 34 < 2 ^ 113 := by norm_num
    unfold U128.toNat' at hQ; omega
  obtain ⟨r, hM, hMv⟩ := C01GenArith.gen_mul_128x128_full CQ (⟨UInt64.ofNat (Dec.Gen.BID_RECIPROCALS10_128.getD (2 * v) 0),
      UInt64.ofNat (Dec.Gen.BID_RECIPROCALS10_128.getD (2 * v + 1) 0)⟩ : U128) (by
    show CQ.w1.toNat + (UInt64.ofNat (Dec.Gen.BID_RECIPROCALS10_128.getD (2 * v + 1) 0)).toNat ≤ 2 ^ 64
    rw [UInt64.toNat_ofNat', Nat.mod_eq_of_lt (by omega)]; omega)
  rw [hTv] at hMv
  have hmech := reciprocals10_128_mechanism v hv1 hv35 CQ.toNat' (lt_trans hQ (by norm_num))
  refine ⟨_, r, am, hT, hM, hA, by omega, by omega, ?_, ?_⟩
  · intro h16
    have := List.all_eq_true.1 g3 v (List.mem_range.2 (by omega))
    simp only [decide_eq_true_eq] at this
    omega
  · rw [hAv, Int.toNat_natCast, ← hmech, ← hMv, Nat.pow_add, ← Nat.div_div_eq_div_mul]
    congr 1
    have := C01GenArith.toNat'_lt128 r.2
    omega

/-- **low chunk non-zero**: the quotient divided by `10^v` through `BID_RECIPROCALS10_128`, handed to the packer -/
theorem tailLowK_spec (CQ : U128) (nz de : Int32) (sgn : UInt64) (m : RoundingMode) (pf : UInt32) (v : Nat)
    (hv : nz.toInt = v) (hv16 : v ≤ 16) (hQ : CQ.toNat' < 10 ^ 34) :
    ∃ CQ' : U128, tailLowK CQ nz de sgn m pf = bid_get_BID128 sgn (de + nz) CQ' m pf ∧ CQ'.toNat' = CQ.toNat' / 10 ^ v := by
  by_cases h0 : v = 0
  · subst h0
    have hnz : nz = 0 := Int32.toInt_inj.1 (by rw [hv]; rfl)
    subst hnz
    refine ⟨CQ, ?_, by simp⟩
    unfold tailLowK
    take_neg
    · decide
    head_step
    exact bind_eta _
  · have hne : (nz != 0) = true := by
      rw [bne_iff_ne]; intro h; rw [h] at hv; exact h0 (by have : (0 : Int32).toInt = 0 := rfl; omega)
    obtain ⟨T, r, am, hT, hM, hA, a1, a2, a3, hval⟩ := recip128_div CQ nz v hv (by omega) (by omega) hQ
    obtain ⟨CQ', hS, hSv⟩ := C01GenArith.gen_shr_128 r.1 am a1 (a3 hv16)
    refine ⟨CQ', ?_, by rw [hSv, hval]⟩
    unfold tailLowK
    take_pos
    · exact hne
    take_call hT
    take_call hM
    take_call hA
    take_call hS
    head_step
    exact bind_eta _

/-- every representation `m'·10^x'` of `C·10^e` with `10 ∤ C` has `x' ≤ e` -/
theorem rep_exp_le (C : Nat) (e : Int) (h10 : C % 10 ≠ 0) (m' : Nat) (x' : Int)
    (hv : fval false m' x' = (C : ℚ) / ((1 : Nat) : ℚ) * (10 : ℚ) ^ e) : x' ≤ e := by
  by_contra hc
  obtain ⟨k, hk⟩ : ∃ k : Nat, x' = e + (k + 1) := ⟨(x' - e - 1).toNat, by omega⟩
  rw [fval_false, hk, zpow_add₀ ten_ne] at hv
  have hp : (10 : ℚ) ^ e ≠ 0 := (zpow_pos ten_pos _).ne'
  have h1 : (m' : ℚ) * (10 : ℚ) ^ ((k : Int) + 1) = C := by
    have : (m' : ℚ) * ((10 : ℚ) ^ e * (10 : ℚ) ^ ((k : Int) + 1)) = (C : ℚ) * (10 : ℚ) ^ e := by
      rw [hv]; simp
    field_simp at this
    linarith
  have h2 : ((m' * 10 ^ (k + 1) : Nat) : ℚ) = C := by
    push_cast
    rw [← h1]
    congr 1
  have h3 : m' * 10 ^ (k + 1) = C := by exact_mod_cast h2
  apply h10
  rw [← h3, Nat.pow_succ, ← Nat.mul_assoc, Nat.mul_mod_left]

/-- **the preferred exponent is irrelevant once all trailing zeros are gone**: for `10 ∤ C` and `e ≤ pref`, delivering `C·10^e`
with preferred exponent `pref` is delivering it with preferred exponent `e` -/
theorem finish_pref (mode : Mode) (neg : Bool) (C : Nat) (e pref : Int) (hC : 0 < C) (h10 : C % 10 ≠ 0) (he : e ≤ pref) :
    finish mode neg C 1 e e = finish mode neg C 1 e pref := by
  rw [finish_eq_iff mode neg C 1 e e hC (by norm_num)]
  have h := finish_spec_strict mode neg C 1 e pref hC (by norm_num)
  rcases h with ⟨hm, m, x, ho, hval, hr, hmin⟩ | h | h
  · left
    refine ⟨hm, m, x, ho, hval, hr, ?_⟩
    intro m' x' hr' hv'
    have h1 := hmin m' x' hr' hv'
    have hx := rep_exp_le C e h10 m x hval
    have hx' := rep_exp_le C e h10 m' x' hv'
    rw [abs_of_nonpos (by omega), abs_of_nonpos (by omega)] at h1 ⊢
    omega
  · right; left; exact h
  · right; right; exact h

theorem bind_ok {α β : Type} (a : α) (f : α → Except String β) : bind (Except.ok a : Except String α) f = f a := rfl

/-- **the exact path, general operands**: all trailing zeros of the 34-digit quotient are removed, the exponent raised accordingly,
and the pair handed to the packer -/
theorem exact_general (CX CY CQ : U128) (ed2 de : Int32) (sgn : UInt64) (m : RoundingMode) (pf : UInt32)
    (hsmall : ¬ ((((CX.w1 == (0 : UInt64)) && (CY.w1 == (0 : UInt64))) && ((decide (CX.w0 ≤ (0x400 : UInt64))))) && ((decide (CY.w0 ≤ (0x400 : UInt64))))) = true)
    (hQ1 : 10 ^ 33 ≤ CQ.toNat') (hQ2 : CQ.toNat' < 10 ^ 34) (hde : -2147483000 ≤ de.toInt ∧ de.toInt ≤ 2147483000) :
    ∃ (CQ' : U128) (de' : Int32) (v : Nat), exactK CX CY CQ ed2 de sgn m pf = bid_get_BID128 sgn de' CQ' m pf ∧
      10 ^ v ∣ CQ.toNat' ∧ ¬ 10 ^ (v + 1) ∣ CQ.toNat' ∧ CQ'.toNat' = CQ.toNat' / 10 ^ v ∧ de'.toInt = de.toInt + v := by
  obtain ⟨P, hP, hhigh, hlow⟩ := split17 CQ hQ2
  rw [exactK_eq, if_neg hsmall, hP, bind_ok]
  generalize hHd : ((P.w2 >>> 0x2c)) ||| ((P.w3 <<< (0x14))) = Qh at *
  generalize hLd : CQ.w0 - Qh * (0x16345785d8a0000 : UInt64) = Ql at *
  have hdm := Nat.div_add_mod CQ.toNat' (10 ^ 17)
  have hH17 : CQ.toNat' / 10 ^ 17 < 10 ^ 17 := (Nat.div_lt_iff_lt_mul (by norm_num)).2 (by
      calc CQ.toNat' < 10 ^ 34 := hQ2
        _ = 10 ^ 17 * 10 ^ 17 := by norm_num)
  have hL17 : CQ.toNat' % 10 ^ 17 < 10 ^ 17 := Nat.mod_lt _ (by norm_num)
  generalize hQd : CQ.toNat' = Q at *
  by_cases hz : Q % 10 ^ 17 = 0
  · have hc : (Ql == (0 : UInt64)) = true := by
      rw [beq_iff_eq, ← UInt64.toNat_inj, hlow, hz]; rfl
    rw [if_pos hc]
    have hHpos : 0 < Q / 10 ^ 17 := by
      have : 10 ^ 33 ≤ 10 ^ 17 * (Q / 10 ^ 17) := by omega
      by_contra h; have : Q / 10 ^ 17 = 0 := by omega
      rw [this] at *; omega
    rw [digitLoopK_spec Qh _ (by rw [hhigh]; exact hH17), hhigh]
    obtain ⟨nz, hk, hnz⟩ := zerosOfK_spec (Q / 10 ^ 17 % 10 ^ 8) (Q / 10 ^ 17 / 10 ^ 8 % 10 ^ 8)
      (fun nz => tailHighK Qh nz (de + 0x11) sgn m pf) (Nat.mod_lt _ (by norm_num)) (Nat.mod_lt _ (by norm_num))
    obtain ⟨n1, n2, n3⟩ := nzOf_fact (Q / 10 ^ 17) hHpos hH17
    generalize nzOf (Q / 10 ^ 17 % 10 ^ 8) (Q / 10 ^ 17 / 10 ^ 8 % 10 ^ 8) = v at *
    obtain ⟨CQ', ht, hv'⟩ := tailHighK_spec Qh nz (de + 0x11) sgn m pf v hnz n3 (by rw [hhigh]; exact hH17)
    have h17 : (de + 0x11).toInt = de.toInt + 17 := by
      rw [i32_add_small _ _ (by rw [show (0x11 : Int32).toInt = 17 from rfl]; omega)]; rfl
    have hQH : Q = 10 ^ 17 * (Q / 10 ^ 17) := by omega
    refine ⟨CQ', de + 0x11 + nz, 17 + v, by rw [hk, ht], ?_, ?_, ?_, ?_⟩
    · rw [hQH, Nat.pow_add]
      exact Nat.mul_dvd_mul_left _ (Nat.dvd_of_mod_eq_zero n1)
    · intro hd
      rw [hQH, show 17 + v + 1 = 17 + (v + 1) from by ring, Nat.pow_add] at hd
      exact n2 (Nat.mod_eq_zero_of_dvd (Nat.dvd_of_mul_dvd_mul_left (by norm_num) hd))
    · rw [hv', hhigh, Nat.pow_add, ← Nat.div_div_eq_div_mul]
    · rw [i32_add_small _ _ (by rw [h17, hnz]; omega), h17, hnz]; push_cast; ring
  · have hc : ¬ (Ql == (0 : UInt64)) = true := by
      rw [beq_iff_eq, ← UInt64.toNat_inj, hlow]; exact hz
    rw [if_neg hc]
    rw [digitLoopK_spec Ql _ (by rw [hlow]; exact hL17), hlow]
    obtain ⟨nz, hk, hnz⟩ := zerosOfK_spec (Q % 10 ^ 17 % 10 ^ 8) (Q % 10 ^ 17 / 10 ^ 8 % 10 ^ 8)
      (fun nz => tailLowK CQ nz de sgn m pf) (Nat.mod_lt _ (by norm_num)) (Nat.mod_lt _ (by norm_num))
    obtain ⟨n1, n2, n3⟩ := nzOf_fact (Q % 10 ^ 17) (by omega) hL17
    generalize nzOf (Q % 10 ^ 17 % 10 ^ 8) (Q % 10 ^ 17 / 10 ^ 8 % 10 ^ 8) = v at *
    obtain ⟨CQ', ht, hv'⟩ := tailLowK_spec CQ nz de sgn m pf v hnz n3 (by rw [hQd]; exact hQ2)
    have hd17 : ∀ k, k ≤ 17 → 10 ^ k ∣ 10 ^ 17 * (Q / 10 ^ 17) := fun k hk =>
      Dvd.dvd.mul_right (Nat.pow_dvd_pow 10 hk) _
    refine ⟨CQ', de + nz, v, by rw [hk, ht], ?_, ?_, by rw [hv', hQd], ?_⟩
    · rw [← hdm]
      exact Nat.dvd_add (hd17 v (by omega)) (Nat.dvd_of_mod_eq_zero n1)
    · intro hd
      rw [← hdm] at hd
      exact n2 (Nat.mod_eq_zero_of_dvd ((Nat.dvd_add_right (hd17 (v + 1) (by omega))).1 hd))
    · rw [i32_add_small _ _ (by rw [hnz]; omega), hnz]

/-! ### the exact path, both coefficients at most 1024 -/

instance : Fact (Nat.Prime 2) := ⟨Nat.prime_two⟩
instance : Fact (Nat.Prime 5) := ⟨Nat.prime_five⟩

theorem val_of_exact (p n a : Nat) [Fact (Nat.Prime p)] (hn : n ≠ 0) (h1 : p ^ a ∣ n) (h2 : ¬ p ^ (a + 1) ∣ n) :
    padicValNat p n = a := by
  have l := (padicValNat_dvd_iff_le hn).1 h1
  have u : ¬ a + 1 ≤ padicValNat p n := fun h => h2 ((padicValNat_dvd_iff_le hn).2 h)
  omega

theorem val2_ten : padicValNat 2 10 = 1 := by
  have : (10 : ℕ) = 2 * 5 := by norm_num
  rw [this, padicValNat.mul (by norm_num) (by norm_num), padicValNat.self (by norm_num)]
  have : padicValNat 2 5 = 0 := padicValNat.eq_zero_of_not_dvd (by norm_num)
  rw [this]
theorem val5_ten : padicValNat 5 10 = 1 := by
  have : (10 : ℕ) = 5 * 2 := by norm_num
  rw [this, padicValNat.mul (by norm_num) (by norm_num), padicValNat.self (by norm_num)]
  have : padicValNat 5 2 = 0 := padicValNat.eq_zero_of_not_dvd (by norm_num)
  rw [this]

theorem ten_pow_dvd_iff (k Q : Nat) : 10 ^ k ∣ Q ↔ 2 ^ k ∣ Q ∧ 5 ^ k ∣ Q := by
  have e : (10 : Nat) ^ k = 2 ^ k * 5 ^ k := by rw [← Nat.mul_pow]
  constructor
  · intro h
    rw [e] at h
    exact ⟨Dvd.dvd.trans (Dvd.intro _ rfl) h, Dvd.dvd.trans (Dvd.intro_left _ rfl) h⟩
  · rintro ⟨h2, h5⟩
    rw [e]
    exact Nat.Coprime.mul_dvd_of_dvd_of_dvd (Nat.Coprime.pow k k (by decide)) h2 h5

/-- **the trailing zeros of an exact quotient from the factor table**: if `Q·Y = X·10^ed` and the exact powers of 2 and 5 in `X`, `Y`
are known, the multiplicity of ten in `Q` is `min (ed + v₂X − v₂Y) (ed + v₅X − v₅Y)` -/
theorem small_zeros (X Y Q ed a2 a5 b2 b5 : Nat) (hX : 0 < X) (hY : 0 < Y) (hQ : Q * Y = X * 10 ^ ed)
    (hY2 : 2 ^ a2 ∣ Y ∧ ¬ 2 ^ (a2 + 1) ∣ Y) (hY5 : 5 ^ a5 ∣ Y ∧ ¬ 5 ^ (a5 + 1) ∣ Y)
    (hX2 : 2 ^ b2 ∣ X ∧ ¬ 2 ^ (b2 + 1) ∣ X) (hX5 : 5 ^ b5 ∣ X ∧ ¬ 5 ^ (b5 + 1) ∣ X) :
    a2 ≤ ed + b2 ∧ a5 ≤ ed + b5 ∧
      10 ^ (min (ed + b2 - a2) (ed + b5 - a5)) ∣ Q ∧ ¬ 10 ^ (min (ed + b2 - a2) (ed + b5 - a5) + 1) ∣ Q := by
  have hQ0 : Q ≠ 0 := by
    intro h; rw [h, Nat.zero_mul] at hQ
    have : 0 < X * 10 ^ ed := Nat.mul_pos hX (by positivity)
    omega
  have v2 : padicValNat 2 Q + a2 = b2 + ed := by
    have h := congrArg (padicValNat 2) hQ
    rw [padicValNat.mul hQ0 (by omega), padicValNat.mul (by omega) (by positivity), padicValNat.pow, val2_ten,
      val_of_exact 2 Y a2 (by omega) hY2.1 hY2.2, val_of_exact 2 X b2 (by omega) hX2.1 hX2.2] at h
    omega
  have v5 : padicValNat 5 Q + a5 = b5 + ed := by
    have h := congrArg (padicValNat 5) hQ
    rw [padicValNat.mul hQ0 (by omega), padicValNat.mul (by omega) (by positivity), padicValNat.pow, val5_ten,
      val_of_exact 5 Y a5 (by omega) hY5.1 hY5.2, val_of_exact 5 X b5 (by omega) hX5.1 hX5.2] at h
    omega
  refine ⟨by omega, by omega, ?_, ?_⟩
  · rw [ten_pow_dvd_iff, padicValNat_dvd_iff_le hQ0, padicValNat_dvd_iff_le hQ0]
    omega
  · rw [ten_pow_dvd_iff, padicValNat_dvd_iff_le hQ0, padicValNat_dvd_iff_le hQ0]
    omega

theorem flat2 (a b : Nat) (ha : a < 1024) (hb : b < 2) :
    flatIdx [1024, 2] [a, b] = .ok (UInt64.ofNat (a * 2 + b)) := by
  have h1 : ¬ a ≥ 1024 := by omega
  have h2 : ¬ b ≥ 2 := by omega
  simp only [flatIdx, h1, h2, if_false, bind, Except.bind, pure, Except.pure, List.foldl, UInt64.toNat_ofNat',
    UInt64.toNat_zero]
  have e : a * (1 * 2) + (b * 1 + 0) % 2 ^ 64 = a * 2 + b := by omega
  rw [e]

/-- `BID_FACTORS[n−1] = (v₂ n, v₅ n)`, as exact divisibility -/
theorem factors_rows : (Dec.Gen.BID_FACTORS.zipIdx).all (fun p =>
    decide ((p.2 / 2 + 1) % (if p.2 % 2 = 0 then 2 else 5) ^ p.1 = 0) &&
    decide ((p.2 / 2 + 1) % (if p.2 % 2 = 0 then 2 else 5) ^ (p.1 + 1) ≠ 0) && decide (p.1 ≤ 10)) = true := by
  decide +kernel
theorem factors_len : Dec.Gen.BID_FACTORS.length = 2048 := by decide +kernel

theorem factors_get (n b : Nat) (h1 : 1 ≤ n) (h2 : n ≤ 1024) (hb : b < 2) :
    (if b = 0 then 2 else 5) ^ (Dec.Gen.BID_FACTORS.getD ((n - 1) * 2 + b) 0) ∣ n ∧
    ¬ (if b = 0 then 2 else 5) ^ (Dec.Gen.BID_FACTORS.getD ((n - 1) * 2 + b) 0 + 1) ∣ n ∧
    Dec.Gen.BID_FACTORS.getD ((n - 1) * 2 + b) 0 ≤ 10 := by
  have e1 : ((n - 1) * 2 + b) / 2 + 1 = n := by omega
  have e2 : ((n - 1) * 2 + b) % 2 = b := by omega
  have hl : (n - 1) * 2 + b < Dec.Gen.BID_FACTORS.length := by rw [factors_len]; omega
  have h := getD_of_zipIdx_all _ (fun i v => decide ((i / 2 + 1) % (if i % 2 = 0 then 2 else 5) ^ v = 0) &&
    decide ((i / 2 + 1) % (if i % 2 = 0 then 2 else 5) ^ (v + 1) ≠ 0) && decide (v ≤ 10)) factors_rows _ hl
  simp only [Bool.and_eq_true, decide_eq_true_eq] at h
  rw [e1, e2] at h
  exact ⟨Nat.dvd_of_mod_eq_zero h.1.1, fun hd => h.1.2 (Nat.mod_eq_zero_of_dvd hd), h.2⟩

theorem tblI32_idx (T : List Nat) (i : UInt64) (hlen : i.toNat < T.length) (hsmall : T.getD i.toNat 0 < 2 ^ 31) :
    ∃ d : Int32, tblI32 T i = .ok d ∧ d.toInt = T.getD i.toNat 0 := by
  unfold tblI32
  rw [getElem?_getD _ _ hlen]
  refine ⟨_, rfl, ?_⟩
  generalize T.getD i.toNat 0 = w at *
  have : (UInt64.ofNat w).toInt64.toInt = w := by
    show (UInt64.ofNat w).toBitVec.toInt = w
    rw [BitVec.toInt_eq_toNat_cond]
    have : (UInt64.ofNat w).toBitVec.toNat = w := by
      show (UInt64.ofNat w).toNat = w
      rw [UInt64.toNat_ofNat', Nat.mod_eq_of_lt (by omega)]
    rw [this]; split <;> omega
  rw [this, Int32.toInt_ofInt_of_le (by omega) (by omega)]

/-- the factor-table look-up the code does for a coefficient word `1 ≤ n ≤ 1024` -/
theorem factor_read (w : UInt64) (b : Nat) (hb : b < 2) (h1 : 1 ≤ w.toNat) (h2 : w.toNat ≤ 1024) :
    ∃ (ix : UInt64) (d : Int32),
      flatIdx [1024, 2] [(UInt64.ofInt (toI ((Int32.ofInt (toI w)) - 1))).toNat, b] = .ok ix ∧
      tblI32 Dec.Gen.BID_FACTORS ix = .ok d ∧ d.toInt = Dec.Gen.BID_FACTORS.getD ((w.toNat - 1) * 2 + b) 0 := by
  have hi : (Int32.ofInt (toI w) - 1).toInt = (w.toNat : Int) - 1 := by
    have : (Int32.ofInt (toI w)).toInt = w.toNat := by
      show (Int32.ofInt (w.toNat : Int)).toInt = _
      rw [Int32.toInt_ofInt_of_le (by omega) (by omega)]
    rw [i32_sub_small _ _ (by rw [this, show (1 : Int32).toInt = 1 from rfl]; omega), this]; rfl
  have hI : (UInt64.ofInt (toI ((Int32.ofInt (toI w)) - 1))).toNat = w.toNat - 1 := by
    rw [ofInt_nonneg _ (by omega), hi]; omega
  rw [hI, flat2 _ _ (by omega) hb]
  have hix : (UInt64.ofNat ((w.toNat - 1) * 2 + b)).toNat = (w.toNat - 1) * 2 + b := by
    rw [UInt64.toNat_ofNat', Nat.mod_eq_of_lt (by omega)]
  obtain ⟨-, -, f3⟩ := factors_get w.toNat b h1 h2 hb
  obtain ⟨d, hd, hdv⟩ := tblI32_idx Dec.Gen.BID_FACTORS (UInt64.ofNat ((w.toNat - 1) * 2 + b))
    (by rw [hix, factors_len]; omega) (by rw [hix]; omega)
  rw [hix] at hdv
  exact ⟨_, d, rfl, hd, hdv⟩

/-- **the exact path, both coefficients at most 1024**: the multiplicity of ten from the factor table, division by `10^v` through
the 128-bit reciprocals -/
theorem exact_small (CX CY CQ : U128) (ed2 de : Int32) (sgn : UInt64) (m : RoundingMode) (pf : UInt32) (ed : Nat)
    (hsmall : ((((CX.w1 == (0 : UInt64)) && (CY.w1 == (0 : UInt64))) && ((decide (CX.w0 ≤ (0x400 : UInt64))))) && ((decide (CY.w0 ≤ (0x400 : UInt64))))) = true)
    (hX0 : 0 < CX.toNat') (hY0 : 0 < CY.toNat') (hQ1 : 10 ^ 33 ≤ CQ.toNat') (hQ2 : CQ.toNat' < 10 ^ 34)
    (hed : ed2.toInt = ed) (hedb : ed ≤ 100) (hQY : CQ.toNat' * CY.toNat' = CX.toNat' * 10 ^ ed)
    (hde : -2147483000 ≤ de.toInt ∧ de.toInt ≤ 2147483000) :
    ∃ (CQ' : U128) (de' : Int32) (v : Nat), exactK CX CY CQ ed2 de sgn m pf = bid_get_BID128 sgn de' CQ' m pf ∧
      10 ^ v ∣ CQ.toNat' ∧ ¬ 10 ^ (v + 1) ∣ CQ.toNat' ∧ CQ'.toNat' = CQ.toNat' / 10 ^ v ∧ de'.toInt = de.toInt + v := by
  simp only [Bool.and_eq_true, beq_iff_eq, decide_eq_true_eq, UInt64.le_iff_toNat_le] at hsmall
  obtain ⟨⟨⟨hx1, hy1⟩, hx0⟩, hy0⟩ := hsmall
  have hXv : CX.toNat' = CX.w0.toNat := by unfold U128.toNat'; rw [hx1]; rfl
  have hYv : CY.toNat' = CY.w0.toNat := by unfold U128.toNat'; rw [hy1]; rfl
  rw [show (0x400 : UInt64).toNat = 1024 from rfl] at hx0 hy0
  rw [hXv] at hX0 hQY
  rw [hYv] at hY0 hQY
  obtain ⟨ix1, A2, i1, t1, v1⟩ := factor_read CY.w0 (UInt64.ofInt (toI 0)).toNat (by decide) hY0 hy0
  obtain ⟨ix2, B2, i2, t2, v2⟩ := factor_read CX.w0 (UInt64.ofInt (toI 0)).toNat (by decide) hX0 hx0
  obtain ⟨ix3, A5, i3, t3, v3⟩ := factor_read CY.w0 (UInt64.ofInt (toI 1)).toNat (by decide) hY0 hy0
  obtain ⟨ix4, B5, i4, t4, v4⟩ := factor_read CX.w0 (UInt64.ofInt (toI 1)).toNat (by decide) hX0 hx0
  rw [show (UInt64.ofInt (toI 0)).toNat = 0 from rfl] at v1 v2
  rw [show (UInt64.ofInt (toI 1)).toNat = 1 from rfl] at v3 v4
  obtain ⟨y2a, y2b, y2c⟩ := factors_get CY.w0.toNat 0 hY0 hy0 (by decide)
  obtain ⟨x2a, x2b, x2c⟩ := factors_get CX.w0.toNat 0 hX0 hx0 (by decide)
  obtain ⟨y5a, y5b, y5c⟩ := factors_get CY.w0.toNat 1 hY0 hy0 (by decide)
  obtain ⟨x5a, x5b, x5c⟩ := factors_get CX.w0.toNat 1 hX0 hx0 (by decide)
  simp only [if_true, if_false, show ¬ (1 : Nat) = 0 from by decide] at y2a y2b x2a x2b y5a y5b x5a x5b
  generalize Dec.Gen.BID_FACTORS.getD ((CY.w0.toNat - 1) * 2 + 0) 0 = a2 at *
  generalize Dec.Gen.BID_FACTORS.getD ((CX.w0.toNat - 1) * 2 + 0) 0 = b2 at *
  generalize Dec.Gen.BID_FACTORS.getD ((CY.w0.toNat - 1) * 2 + 1) 0 = a5 at *
  generalize Dec.Gen.BID_FACTORS.getD ((CX.w0.toNat - 1) * 2 + 1) 0 = b5 at *
  obtain ⟨z1, z2, z3, z4⟩ := small_zeros CX.w0.toNat CY.w0.toNat CQ.toNat' ed a2 a5 b2 b5 hX0 hY0 hQY ⟨y2a, y2b⟩ ⟨y5a, y5b⟩
    ⟨x2a, x2b⟩ ⟨x5a, x5b⟩
  -- the exponent of the scaling is at least 30, so at least 20 zeros are removed
  have hed30 : 30 ≤ ed := by
    by_contra hc
    have h1 : 10 ^ ed ≤ 10 ^ 29 := Nat.pow_le_pow_right (by decide) (by omega)
    have h2 : CX.w0.toNat * 10 ^ ed ≤ 1024 * 10 ^ 29 := Nat.mul_le_mul hx0 h1
    have h3 : 10 ^ 33 * 1 ≤ CQ.toNat' * CY.w0.toNat := Nat.mul_le_mul hQ1 hY0
    have : (1024 : Nat) * 10 ^ 29 < 10 ^ 33 * 1 := by norm_num
    omega
  generalize hvd : min (ed + b2 - a2) (ed + b5 - a5) = v at *
  have hv1 : 1 ≤ v := by omega
  have hv33 : v ≤ 33 := by
    by_contra hc
    have h1 : 10 ^ 34 ∣ CQ.toNat' := Dvd.dvd.trans (Nat.pow_dvd_pow 10 (by omega)) z3
    have := Nat.le_of_dvd (by omega) h1
    omega
  -- the two candidates as `i32`
  have hn2 : (ed2 - A2 + B2).toInt = (ed : Int) + b2 - a2 := by
    have hs : (ed2 - A2).toInt = (ed : Int) - a2 := by rw [i32_sub_small _ _ (by omega), hed, v1]
    rw [i32_add_small _ _ (by omega), hs, v2]; ring
  have hn5 : (ed2 - A5 + B5).toInt = (ed : Int) + b5 - a5 := by
    have hs : (ed2 - A5).toInt = (ed : Int) - a5 := by rw [i32_sub_small _ _ (by omega), hed, v3]
    rw [i32_add_small _ _ (by omega), hs, v4]; ring
  have hpick : ∃ nz : Int32, nz.toInt = v ∧
      (if decide (ed2 - A5 + B5 < ed2 - A2 + B2) = true then (ed2 - A5 + B5) else (ed2 - A2 + B2)) = nz := by
    refine ⟨_, ?_, rfl⟩
    by_cases hlt : ed2 - A5 + B5 < ed2 - A2 + B2
    · rw [if_pos (decide_eq_true hlt), hn5]
      rw [Int32.lt_iff_toInt_lt, hn5, hn2] at hlt
      omega
    · rw [if_neg (by rw [decide_eq_true_eq]; exact hlt), hn2]
      rw [Int32.lt_iff_toInt_lt, hn5, hn2] at hlt
      omega
  obtain ⟨nz, hnz, hpk⟩ := hpick
  obtain ⟨T, r, am, hT, hM, hA, a1, a2', a3, hval⟩ := recip128_div CQ nz v hnz hv1 (by omega) hQ2
  obtain ⟨CQ', hS, hSv⟩ := C01GenArith.gen_shr_128_long r.1 am a1 a2'
  refine ⟨CQ', de + nz, v, ?_, z3, z4, by rw [hSv, hval], by rw [i32_add_small _ _ (by omega), hnz]⟩
  have hcond : ((((CX.w1 == (0 : UInt64)) && (CY.w1 == (0 : UInt64))) && ((decide (CX.w0 ≤ (0x400 : UInt64))))) && ((decide (CY.w0 ≤ (0x400 : UInt64))))) = true := by
    simp only [Bool.and_eq_true, beq_iff_eq, decide_eq_true_eq, UInt64.le_iff_toNat_le]
    exact ⟨⟨⟨hx1, hy1⟩, hx0⟩, hy0⟩
  rw [exactK_eq, if_pos hcond]
  unfold smallK
  take_call i1
  take_call t1
  take_call i2
  take_call t2
  take_call i3
  take_call t3
  take_call i4
  take_call t4
  head_step
  by_cases hlt : ed2 - A5 + B5 < ed2 - A2 + B2
  · take_pos
    · exact decide_eq_true hlt
    have e : ed2 - A5 + B5 = nz := by rw [← hpk, if_pos (decide_eq_true hlt)]
    rw [e]
    take_call hT
    take_call hM
    take_call hA
    take_call hS
    head_step
    exact bind_eta _
  · take_neg
    · rw [decide_eq_true_eq]; exact hlt
    have e : ed2 - A2 + B2 = nz := by rw [← hpk, if_neg (by rw [decide_eq_true_eq]; exact hlt)]
    rw [e]
    take_call hT
    take_call hM
    take_call hA
    take_call hS
    head_step
    exact bind_eta _

/-! ## 11. Assembly: every pair of non-zero numbers -/

/-- **from the scaled operands to the result, exact case**: if `CQ·Y + A = X·10^ed` with `10^33·Y ≤ X·10^ed < 10^34·Y`, `Y ∣ X·10^ed`
but `Y ∤ X`, the rest of the routine returns `finish` of `X/Y` at the exponent it carries plus `ed`, which is also its preferred
exponent -/
theorem after_exact (CX CY : U128) (sgn : UInt64) (m : RoundingMode) (CQ : U128) (CA4 : U256)
    (ed2 de : Int32) (ed : Nat) (hs : sgn = 0 ∨ sgn = 0x8000000000000000)
    (hX0 : 0 < CX.toNat') (hY : CY.toNat' < 10 ^ 34) (hsum : CQ.toNat' * CY.toNat' + CA4.toNat' = CX.toNat' * 10 ^ ed)
    (hlo : 10 ^ 33 * CY.toNat' ≤ CX.toNat' * 10 ^ ed) (hhi : CX.toNat' * 10 ^ ed < 10 ^ 34 * CY.toNat')
    (hdvd : (CX.toNat' * 10 ^ ed) % CY.toNat' = 0) (hXY : CX.toNat' % CY.toNat' ≠ 0)
    (hed : ed2.toInt = ed) (hedb : ed ≤ 100) (hde : -2147483000 ≤ de.toInt ∧ de.toInt ≤ 2147483000)
    (h256 : Div256ExactAt CQ CA4 CY) :
    ∃ res fl, afterK CX CY sgn m 0 CQ CA4 ed2 de = .ok (res, fl) ∧
      (decode (bitsOf res), fl.toNat) =
        finish (md m) (decide (sgn ≠ 0)) CX.toNat' CY.toNat' (de.toInt - 6176 + ed) (de.toInt - 6176 + ed) := by
  have hY0 : 0 < CY.toNat' := by
    rcases Nat.eq_zero_or_pos CY.toNat' with h | h
    · rw [h] at hhi; omega
    · exact h
  generalize hYd : CY.toNat' = Y at *
  generalize hXd : CX.toNat' = X at *
  generalize hNd : X * 10 ^ ed = N at *
  have hq : CQ.toNat' + CA4.toNat' / Y = N / Y := by
    rw [← hsum, Nat.mul_comm, Nat.mul_add_div hY0]
  have hr : CA4.toNat' % Y = N % Y := by
    rw [← hsum, Nat.mul_comm, Nat.mul_add_mod]
  have hN1 : 10 ^ 33 ≤ N / Y := (Nat.le_div_iff_mul_le hY0).2 hlo
  have hN2 : N / Y < 10 ^ 34 := (Nat.div_lt_iff_lt_mul hY0).2 hhi
  obtain ⟨q, r, hc, hqv, hrv⟩ := h256
  rw [hYd, hq] at hqv
  rw [hYd, hr, hdvd] at hrv
  have hr0 : r.w0 = 0 ∧ r.w1 = 0 := by
    constructor <;> apply UInt64.toNat_inj.1 <;> (show _ = 0) <;> omega
  have hne : ¬ ((r.w0 != (0 : UInt64)) || (r.w1 != (0 : UInt64))) = true := by
    rw [hr0.1, hr0.2]; decide
  have hQY : q.toNat' * Y = N := by rw [hqv]; exact Nat.div_mul_cancel (Nat.dvd_of_mod_eq_zero hdvd)
  -- the exact path removes all trailing zeros
  have hex : ∃ (CQ' : U128) (de' : Int32) (v : Nat), exactK CX CY q ed2 de sgn m 0 = bid_get_BID128 sgn de' CQ' m 0 ∧
      10 ^ v ∣ q.toNat' ∧ ¬ 10 ^ (v + 1) ∣ q.toNat' ∧ CQ'.toNat' = q.toNat' / 10 ^ v ∧ de'.toInt = de.toInt + v := by
    by_cases hsm : ((((CX.w1 == (0 : UInt64)) && (CY.w1 == (0 : UInt64))) && ((decide (CX.w0 ≤ (0x400 : UInt64))))) && ((decide (CY.w0 ≤ (0x400 : UInt64))))) = true
    · exact exact_small CX CY q ed2 de sgn m 0 ed hsm (by rw [hXd]; exact hX0) (by rw [hYd]; exact hY0)
        (by rw [hqv]; exact hN1) (by rw [hqv]; exact hN2) hed hedb (by rw [hYd, hXd, hNd]; exact hQY) hde
    · exact exact_general CX CY q ed2 de sgn m 0 hsm (by rw [hqv]; exact hN1) (by rw [hqv]; exact hN2) hde
  obtain ⟨CQ', de', v, hk, hv1, hv2, hCv, hdev⟩ := hex
  -- fewer zeros than the scaling added, as `Y ∤ X`
  have hved : v < ed := by
    by_contra hc
    have h1 : 10 ^ ed ∣ q.toNat' := Dvd.dvd.trans (Nat.pow_dvd_pow 10 (by omega)) hv1
    obtain ⟨t, ht⟩ := h1
    have h2 : 10 ^ ed * (t * Y) = 10 ^ ed * X := by
      rw [← Nat.mul_assoc, ← ht, hQY, ← hNd, Nat.mul_comm]
    have h3 : t * Y = X := Nat.eq_of_mul_eq_mul_left (by positivity) h2
    apply hXY
    rw [← h3, Nat.mul_mod_left]
  have hqpos : 0 < q.toNat' := by omega
  have hCpos : 0 < CQ'.toNat' := by
    rw [hCv]; exact Nat.div_pos (Nat.le_of_dvd hqpos hv1) (by positivity)
  have hC10 : CQ'.toNat' % 10 ≠ 0 := by
    intro h0
    apply hv2
    obtain ⟨t, ht⟩ := Nat.dvd_of_mod_eq_zero h0
    have : q.toNat' = 10 ^ v * CQ'.toNat' := by rw [hCv, Nat.mul_div_cancel' hv1]
    rw [this, ht, Nat.pow_succ]
    exact ⟨t, by ring⟩
  obtain ⟨res, fl, hget, hdec⟩ := get_eq_finish sgn de' CQ' m hs (by rw [bitsOf_eq]; exact hCpos)
    (by rw [bitsOf_eq]; show CQ'.toNat' ≤ _; rw [hCv]; exact le_trans (Nat.div_le_self _ _) (by omega)) (by omega)
  refine ⟨res, fl, ?_, ?_⟩
  · unfold afterK
    rw [hc, bind_ok]
    show (if ((r.w0 != (0 : UInt64)) || (r.w1 != (0 : UInt64))) = true then _ else _) = _
    rw [if_neg hne, hk]
    exact hget
  · rw [hdec, bitsOf_eq]
    show finish (md m) (decide (sgn ≠ 0)) CQ'.toNat' 1 (de'.toInt - 6176) (de'.toInt - 6176) = _
    rw [finish_pref (md m) _ CQ'.toNat' (de'.toInt - 6176) (de.toInt - 6176 + ed) hCpos hC10 (by omega)]
    apply finish_congr _ _ _ _ _ _ _ _ _ hCpos (by norm_num) (by omega) hY0
    -- C'·10^(de+v−6176) = X/Y·10^(de−6176+ed)
    have hYq : (Y : ℚ) ≠ 0 := by exact_mod_cast hY0.ne'
    have e1 : (q.toNat' : ℚ) = (CQ'.toNat' : ℚ) * (10 : ℚ) ^ (v : ℤ) := by
      have : q.toNat' = CQ'.toNat' * 10 ^ v := by rw [hCv, Nat.div_mul_cancel hv1]
      rw [this]; push_cast; rw [zpow_natCast]
    have e2 : (q.toNat' : ℚ) * Y = (X : ℚ) * (10 : ℚ) ^ (ed : ℤ) := by
      have : ((q.toNat' * Y : Nat) : ℚ) = ((X * 10 ^ ed : Nat) : ℚ) := by rw [hQY, hNd]
      push_cast at this; rw [zpow_natCast]; exact this
    have hp : (10 : ℚ) ^ (v : ℤ) ≠ 0 := (zpow_pos ten_pos _).ne'
    rw [hdev, show de.toInt + (v : ℤ) - 6176 = (de.toInt - 6176 + ed) + ((v : ℤ) - ed) from by ring,
      zpow_add₀ ten_ne, zpow_sub₀ ten_ne]
    have hCq : (CQ'.toNat' : ℚ) = (X : ℚ) * (10 : ℚ) ^ (ed : ℤ) / Y / (10 : ℚ) ^ (v : ℤ) := by
      rw [← e2, e1]; field_simp
    rw [hCq]
    have hpe : (10 : ℚ) ^ (ed : ℤ) ≠ 0 := (zpow_pos ten_pos _).ne'
    field_simp
    norm_num

/-- **the call of the long division `bid128_div` makes for the coefficients `c1`, `c2`** (`c2 ∤ c1`): with `ed` the power of ten
that gives a 34-digit quotient, accumulated quotient `⌊c1/c2⌋·10^ed` (zero when `c1 < c2`) and dividend `(c1 mod c2)·10^ed` -/
def Call256 (c1 c2 : Nat) (CQ : U128) (A : U256) : Prop :=
  ∃ ed : Nat, 10 ^ 33 * c2 ≤ c1 * 10 ^ ed ∧ c1 * 10 ^ ed < 10 ^ 34 * c2 ∧
    CQ.toNat' = c1 / c2 * 10 ^ ed ∧ A.toNat' = c1 % c2 * 10 ^ ed

/-- **`bid128_div_clear_status` on two non-zero numbers is `divD`, wherever its one call of `bid___div_256_by_128` is exact**: for
every pair of finite non-zero operands — canonical or not — and every rounding mode the routine, started with a clear status word,
never panics, and (decoded result, status word) is the model's `divD`: the exact quotient delivered by `finish` with preferred
exponent `e1 − e2` — exact results with all trailing zeros removed down to the preferred exponent, inexact ones correctly rounded
once, with inexact / underflow / overflow as `finish` raises them.  The hypothesis concerns the single call `Call256 c1 c2` (it is
not needed at all when `c2 ∣ c1`: `div_int_quotient`); the integer division `bid___div_128_by_128` is exact by `C10GenRem`. -/
theorem div_main_partial (x y : U128) (m : RoundingMode)
    {s1 s2 : Bool} {c1 c2 : Nat} {e1 e2 : Int}
    (hx : dOf x = .fin s1 c1 e1) (hy : dOf y = .fin s2 c2 e2) (hc1 : c1 ≠ 0) (hc2 : c2 ≠ 0)
    (h256 : ∀ (CQ : U128) (A : U256), Call256 c1 c2 CQ A → Div256ExactAt CQ A (ofBits c2)) :
    ∃ res fl, bid128_div_clear_status x y m 0 = .ok (res, fl) ∧
      (decode (bitsOf res), fl.toNat) = divD (md m) (dOf x) (dOf y) := by
  by_cases hdvd0 : c1 % c2 = 0
  · exact div_int_quotient x y m hx hy hc1 hc2 hdvd0
  obtain ⟨hl1, l1, u1⟩ := Dec.C01GenMul.fin_WF x hx
  obtain ⟨hl2, l2, u2⟩ := Dec.C01GenMul.fin_WF y hy
  have hP : P34 = 10 ^ 34 := by decide
  rw [hP] at hl1 hl2
  have h128' : (10 : Nat) ^ 34 < 2 ^ 128 := by norm_num
  have hX : (ofBits c1).toNat' = c1 := ofBits_toNat' (by omega)
  have hY : (ofBits c2).toNat' = c2 := ofBits_toNat' (by omega)
  obtain ⟨hsg, hneg⟩ := sign_word x y hx hy
  have hde := de_start e1 e2 l1 u1 l2 u2
  rw [div_entry x y m 0 hx hy hc1 hc2, hx, hy, divD_fin _ _ _ _ _ _ _ hc1 hc2]
  unfold mainK
  generalize hsd : (x.w1 &&& 0x8000000000000000) ^^^ (y.w1 &&& 0x8000000000000000) = sgn at *
  generalize hded : Int32.ofInt (e1 + 6176) - Int32.ofInt (e2 + 6176) + c_DECIMAL_EXPONENT_BIAS_128 = de at *
  rw [C01GenArith.gen_unsigned_compare_gt_128, hX, hY]
  show ∃ res fl, (if decide (c2 > c1) = true then _ else _) = _ ∧ _
  have hc10 : 0 < c1 := Nat.pos_of_ne_zero hc1
  have hc20 : 0 < c2 := Nat.pos_of_ne_zero hc2
  -- both branches end in the same way
  have fin : ∀ (CQ : U128) (CA4 : U256) (ed2 de' : Int32) (ed : Nat), ed2.toInt = ed → ed ≤ 69 → de'.toInt = de.toInt - ed →
      CQ.toNat' * c2 + CA4.toNat' = c1 * 10 ^ ed → 10 ^ 33 * c2 ≤ c1 * 10 ^ ed → c1 * 10 ^ ed < 10 ^ 34 * c2 →
      CQ.toNat' = c1 / c2 * 10 ^ ed → CA4.toNat' = c1 % c2 * 10 ^ ed →
      ∃ res fl, afterK (ofBits c1) (ofBits c2) sgn m 0 CQ CA4 ed2 de' = .ok (res, fl) ∧
        (decode (bitsOf res), fl.toNat) = finish (md m) (s1 != s2) c1 c2 (e1 - e2) (e1 - e2) := by
    intro CQ CA4 ed2 de' ed he1 he2 he3 hsum hlo hhi hCQ hCA
    have hcall := h256 CQ CA4 ⟨ed, hlo, hhi, hCQ, hCA⟩
    by_cases hnd : (c1 * 10 ^ ed) % c2 = 0
    · obtain ⟨res, fl, hc, hdec⟩ := after_exact (ofBits c1) (ofBits c2) sgn m CQ CA4 ed2 de' ed hsg
        (by rw [hX]; exact hc10) (by rw [hY]; exact hl2) (by rw [hX, hY]; exact hsum) (by rw [hX, hY]; exact hlo)
        (by rw [hX, hY]; exact hhi) (by rw [hX, hY]; exact hnd) (by rw [hX, hY]; exact hdvd0) he1 (by omega) (by omega) hcall
      refine ⟨res, fl, hc, ?_⟩
      rw [hdec, hX, hY, hneg, show de'.toInt - 6176 + (ed : Int) = e1 - e2 from by omega]
    · obtain ⟨res, fl, hc, hdec⟩ := after_inexact (ofBits c1) (ofBits c2) sgn m CQ CA4 ed2 de' (c1 * 10 ^ ed) (e1 - e2)
        hsg (by rw [hY]; exact hl2) (by rw [hY]; exact hsum) (by rw [hY]; exact hlo) (by rw [hY]; exact hhi)
        (by rw [hY]; exact hnd) (by omega) hcall
      refine ⟨res, fl, hc, ?_⟩
      rw [hdec, hY, hneg]
      apply finish_congr _ _ _ _ _ _ _ _ _ (Nat.mul_pos hc10 (by positivity)) hc20 hc10 hc20
      have : de'.toInt - 6176 = (e1 - e2) - (ed : Int) := by omega
      rw [this]
      exact scaled_value c1 c2 ed (e1 - e2) hc20
  by_cases hgt : c2 > c1
  · rw [if_pos (decide_eq_true hgt)]
    obtain ⟨CQ, CA4, ed2, de', ed, hk, g1, g2, g3, g4, g5, g6, g7⟩ := scaleGt_spec (ofBits c1) (ofBits c2) de
      (afterK (ofBits c1) (ofBits c2) sgn m 0) (by rw [hX]; exact hc10) (by rw [hX, hY]; exact hgt) (by rw [hY]; exact hl2)
      (by omega)
    rw [hX, hY] at g4 g5 g6
    rw [hk]
    have hq0 : c1 / c2 = 0 := Nat.div_eq_of_lt hgt
    have hr0 : c1 % c2 = c1 := Nat.mod_eq_of_lt hgt
    exact fin CQ CA4 ed2 de' ed g1 g2 g3 g4 g5 g6 (by rw [g7, hq0, Nat.zero_mul])
      (by rw [g7, Nat.zero_mul, Nat.zero_add] at g4; rw [g4, hr0])
  · rw [if_neg (by rw [decide_eq_true_eq]; exact hgt)]
    obtain ⟨CQ, CA4, ed2, de', ed, hk, g1, g2, g3, g4, g5, g6, g7, g8⟩ := scaleLe_cont div128_exact (ofBits c1) (ofBits c2) de
      sgn m 0 (afterK (ofBits c1) (ofBits c2) sgn m 0) (by rw [hY]; exact hc20) (by rw [hX, hY]; omega) (by rw [hX]; exact hl1)
      (by rw [hX, hY]; exact hdvd0) (by omega)
    rw [hX, hY] at g4 g5 g6 g7 g8
    rw [hk]
    exact fin CQ CA4 ed2 de' ed g1 (by omega) g3 g4 g5 g6 g7 g8

/-- the same for `bid128_div` itself: the flags raised are OR-ed into the caller's status word -/
theorem div_main_partial' (x y : U128) (m : RoundingMode) (f : UInt32)
    {s1 s2 : Bool} {c1 c2 : Nat} {e1 e2 : Int}
    (hx : dOf x = .fin s1 c1 e1) (hy : dOf y = .fin s2 c2 e2) (hc1 : c1 ≠ 0) (hc2 : c2 ≠ 0)
    (h256 : ∀ (CQ : U128) (A : U256), Call256 c1 c2 CQ A → Div256ExactAt CQ A (ofBits c2)) :
    ∃ res fl, bid128_div x y m f = .ok (res, f ||| fl) ∧
      (decode (bitsOf res), fl.toNat) = divD (md m) (dOf x) (dOf y) := by
  obtain ⟨res, fl, hc, hdec⟩ := div_main_partial x y m hx hy hc1 hc2 h256
  exact ⟨res, fl, Dec.C01GenMul.div_of_clear x y m f hc, hdec⟩

theorem clamp_range (t : Int) : eMin ≤ clampInt eMin eMax t ∧ clampInt eMin eMax t ≤ eMax := by
  unfold clampInt eMin eMax; split <;> [skip; split] <;> omega

/-- `divD` off the main path returns a well-formed datum and small flags -/
theorem divD_front_wf (mode : Mode) (dx dy : Datum)
    (h : ¬ (dx.isFin = true ∧ dy.isFin = true ∧ dx.isZero = false ∧ dy.isZero = false)) :
    (divD mode dx dy).1.WF ∧ (divD mode dx dy).2 < 4294967296 := by
  rcases dx with ⟨s1, c1, e1⟩ | ⟨s1⟩ | ⟨s1, g1, p1⟩ <;> rcases dy with ⟨s2, c2, e2⟩ | ⟨s2⟩ | ⟨s2, g2, p2⟩
  · by_cases hc2 : c2 = 0
    · by_cases hc1 : c1 = 0
      · simp only [divD, hc1, hc2, if_true]; exact ⟨by decide, by decide⟩
      · simp only [divD, hc1, hc2, if_true, if_false]; exact ⟨trivial, by decide⟩
    · by_cases hc1 : c1 = 0
      · simp only [divD, hc1, hc2, if_true, if_false]
        exact ⟨⟨by decide, clamp_range _⟩, by decide⟩
      · exfalso; apply h
        exact ⟨rfl, rfl, by simp [Datum.isZero, hc1], by simp [Datum.isZero, hc2]⟩
  · simp only [divD]; exact ⟨⟨by decide, by decide, by decide⟩, by decide⟩
  · simp only [divD]; exact ⟨by decide, by decide⟩
  · simp only [divD]; exact ⟨trivial, by decide⟩
  · simp only [divD]; exact ⟨by decide, by decide⟩
  · simp only [divD]; exact ⟨by decide, by decide⟩
  · simp only [divD]; exact ⟨by decide, by decide⟩
  · simp only [divD]; exact ⟨by decide, by decide⟩
  · simp only [divD]; exact ⟨by decide, by decide⟩

theorem pair_mod (out : Datum × Flags) (hfl : out.2 < 4294967296) : (out.1, out.2 % 2 ^ 32) = out := by
  have h2 : out.2 % 2 ^ 32 = out.2 := Nat.mod_eq_of_lt hfl
  rw [h2]

/-- **`bid128_div` on all operands without a NaN** (NaNs: `C12GenNaN.div_nan`): never panics; the decoded result is `divD`'s datum and
the status word is the caller's OR-ed with `divD`'s flags — the front end unconditionally (`C01GenMul.div_front'`), two non-zero
numbers wherever the one call of the long division they cause is exact -/
theorem div_all_partial (x y : U128) (m : RoundingMode) (f : UInt32)
    (hnx : (dOf x).isNaN = false) (hny : (dOf y).isNaN = false)
    (h256 : ∀ (s1 s2 : Bool) (c1 c2 : Nat) (e1 e2 : Int), dOf x = .fin s1 c1 e1 → dOf y = .fin s2 c2 e2 → c1 ≠ 0 → c2 ≠ 0 →
      ∀ (CQ : U128) (A : U256), Call256 c1 c2 CQ A → Div256ExactAt CQ A (ofBits c2)) :
    ∃ res fl, bid128_div x y m f = .ok (res, f ||| fl) ∧
      (decode (bitsOf res), fl.toNat) = divD (md m) (dOf x) (dOf y) := by
  by_cases hmain : (dOf x).isFin = true ∧ (dOf y).isFin = true ∧ (dOf x).isZero = false ∧ (dOf y).isZero = false
  · obtain ⟨fx, fy, zx, zy⟩ := hmain
    cases hx : dOf x with
    | fin s1 c1 e1 =>
      cases hy : dOf y with
      | fin s2 c2 e2 =>
        rw [hx] at zx; rw [hy] at zy
        have hc1 : c1 ≠ 0 := by intro h0; rw [h0] at zx; exact Bool.noConfusion zx
        have hc2 : c2 ≠ 0 := by intro h0; rw [h0] at zy; exact Bool.noConfusion zy
        have := div_main_partial' x y m f hx hy hc1 hc2 (h256 s1 s2 c1 c2 e1 e2 hx hy hc1 hc2)
        rw [hx, hy] at this
        exact this
      | inf s2 => rw [hy] at fy; exact Bool.noConfusion fy
      | nan s2 g2 p2 => rw [hy] at fy; exact Bool.noConfusion fy
    | inf s1 => rw [hx] at fx; exact Bool.noConfusion fx
    | nan s1 g1 p1 => rw [hx] at fx; exact Bool.noConfusion fx
  · obtain ⟨hwf, hfl⟩ := divD_front_wf (md m) (dOf x) (dOf y) hmain
    have hfront := Dec.C01GenMul.div_front' x y m f hnx hny hmain
    generalize divD (md m) (dOf x) (dOf y) = out at *
    have hb : C06GenFromInt.bitsOf (ofBits (encode out.1)) = encode out.1 := C06GenFromInt.bitsOf_ofBits (encode_lt hwf)
    refine ⟨ofBits (encode out.1), UInt32.ofNat out.2, hfront, ?_⟩
    have e : bitsOf (ofBits (encode out.1)) = C06GenFromInt.bitsOf (ofBits (encode out.1)) := rfl
    rw [e, hb, decode_encode hwf, UInt32.toNat_ofNat']
    exact pair_mod out hfl

/-- **named hypothesis: `bid___div_256_by_128` exact on the domain of its call site in `bid128_div`** — a divisor `0 < Y < 10^34` and
an accumulated quotient `CQ + ⌊A/Y⌋` of exactly 34 digits (so `CQ < 10^34` and `A < 10^34·Y`); then the routine returns
`CQ + ⌊A/Y⌋` and, in the two low words of its second result, `A mod Y`.  (In the branch `CY > CX`: `CQ = 0`; in the branch `CX ≥ CY`:
`CQ = ⌊X/Y⌋·10^ed ≥ 10^33` and `A = (X mod Y)·10^ed < 10^33·Y`.)  The pointwise form `Div256ExactAt` on `Call256` is what the theorems
use; this universal form implies it. -/
def Div256Exact : Prop :=
  ∀ (CQ : U128) (A : U256) (CY : U128), 0 < CY.toNat' → CY.toNat' < 10 ^ 34 →
    10 ^ 33 ≤ CQ.toNat' + A.toNat' / CY.toNat' → CQ.toNat' + A.toNat' / CY.toNat' < 10 ^ 34 → Div256ExactAt CQ A CY

theorem call256_of_exact (h : Div256Exact) (c1 c2 : Nat) (hc2 : 0 < c2) (hl2 : c2 < 10 ^ 34) (CQ : U128) (A : U256)
    (hc : Call256 c1 c2 CQ A) : Div256ExactAt CQ A (ofBits c2) := by
  obtain ⟨ed, g1, g2, g3, g4⟩ := hc
  have hY : (ofBits c2).toNat' = c2 := ofBits_toNat' (lt_trans hl2 (by norm_num))
  have hq : CQ.toNat' + A.toNat' / c2 = c1 * 10 ^ ed / c2 := by
    have e : CQ.toNat' * c2 + A.toNat' = c1 * 10 ^ ed := by
      rw [g3, g4]
      have := Nat.div_add_mod c1 c2
      calc c1 / c2 * 10 ^ ed * c2 + c1 % c2 * 10 ^ ed = (c2 * (c1 / c2) + c1 % c2) * 10 ^ ed := by ring
        _ = c1 * 10 ^ ed := by rw [this]
    rw [← e, Nat.mul_comm, Nat.mul_add_div hc2]
  apply h CQ A (ofBits c2)
  · rw [hY]; exact hc2
  · rw [hY]; exact hl2
  · rw [hY, hq]; exact (Nat.le_div_iff_mul_le hc2).2 g1
  · rw [hY, hq]; exact (Nat.div_lt_iff_lt_mul hc2).2 g2

/-- **`bid128_div` = `divD` on every pair of non-zero numbers, given `Div256Exact`** -/
theorem div_main_of_exact (h : Div256Exact) (x y : U128) (m : RoundingMode) (f : UInt32)
    {s1 s2 : Bool} {c1 c2 : Nat} {e1 e2 : Int}
    (hx : dOf x = .fin s1 c1 e1) (hy : dOf y = .fin s2 c2 e2) (hc1 : c1 ≠ 0) (hc2 : c2 ≠ 0) :
    ∃ res fl, bid128_div x y m f = .ok (res, f ||| fl) ∧
      (decode (bitsOf res), fl.toNat) = divD (md m) (dOf x) (dOf y) := by
  have hl2 : c2 < 10 ^ 34 := by
    have := (Dec.C01GenMul.fin_WF y hy).1
    have hP : P34 = 10 ^ 34 := by decide
    omega
  exact div_main_partial' x y m f hx hy hc1 hc2
    (fun CQ A hc => call256_of_exact h c1 c2 (Nat.pos_of_ne_zero hc2) hl2 CQ A hc)

/-- **`bid128_div` = `divD` on all operands without a NaN, given `Div256Exact`** (NaN operands: `C12GenNaN.div_nan`) -/
theorem div_all_of_exact (h : Div256Exact) (x y : U128) (m : RoundingMode) (f : UInt32)
    (hnx : (dOf x).isNaN = false) (hny : (dOf y).isNaN = false) :
    ∃ res fl, bid128_div x y m f = .ok (res, f ||| fl) ∧
      (decode (bitsOf res), fl.toNat) = divD (md m) (dOf x) (dOf y) := by
  apply div_all_partial x y m f hnx hny
  intro s1 s2 c1 c2 e1 e2 hx hy hc1 hc2 CQ A hc
  have hl2 : c2 < 10 ^ 34 := by
    have := (Dec.C01GenMul.fin_WF y hy).1
    have hP : P34 = 10 ^ 34 := by decide
    omega
  exact call256_of_exact h c1 c2 (Nat.pos_of_ne_zero hc2) hl2 CQ A hc

/-! ## 12. Using the theorem; examples -/

/-- the scaling exponent of `Call256` is determined by the operands -/
theorem call256_at (c1 c2 ed0 : Nat) (hc1 : 0 < c1) (h1 : 10 ^ 33 * c2 ≤ c1 * 10 ^ ed0) (h2 : c1 * 10 ^ ed0 < 10 ^ 34 * c2)
    (CQ : U128) (A : U256) (h : Call256 c1 c2 CQ A) :
    CQ.toNat' = c1 / c2 * 10 ^ ed0 ∧ A.toNat' = c1 % c2 * 10 ^ ed0 := by
  obtain ⟨ed, g1, g2, g3, g4⟩ := h
  have key : ∀ a b : Nat, a < b → 10 ^ 33 * c2 ≤ c1 * 10 ^ a → c1 * 10 ^ b < 10 ^ 34 * c2 → False := by
    intro a b hab ha hb
    have hp : 10 ^ (a + 1) ≤ 10 ^ b := Nat.pow_le_pow_right (by decide) hab
    have h3 : c1 * 10 ^ (a + 1) ≤ c1 * 10 ^ b := Nat.mul_le_mul_left _ hp
    have h4 : c1 * 10 ^ (a + 1) = 10 * (c1 * 10 ^ a) := by rw [Nat.pow_succ]; ring
    have h5 : 10 * (10 ^ 33 * c2) ≤ 10 * (c1 * 10 ^ a) := Nat.mul_le_mul_left _ ha
    have h6 : 10 * (10 ^ 33 * c2) = 10 ^ 34 * c2 := by ring
    omega
  have : ed = ed0 := by
    rcases Nat.lt_trichotomy ed ed0 with h | h | h
    · exact absurd (key ed ed0 h g1 h2) id
    · exact h
    · exact absurd (key ed0 ed h h1 g2) id
  subst this
  exact ⟨g3, g4⟩

theorem toNat'_inj256 {A B : U256} (h : A.toNat' = B.toNat') : A = B := by
  have a0 := A.w0.toNat_lt; have a1 := A.w1.toNat_lt; have a2 := A.w2.toNat_lt; have a3 := A.w3.toNat_lt
  have b0 := B.w0.toNat_lt; have b1 := B.w1.toNat_lt; have b2 := B.w2.toNat_lt; have b3 := B.w3.toNat_lt
  unfold U256.toNat' at h
  obtain ⟨x0, x1, x2, x3⟩ := A
  obtain ⟨y0, y1, y2, y3⟩ := B
  simp only at *
  have e0 : x0 = y0 := UInt64.toNat_inj.1 (by omega)
  have e1 : x1 = y1 := UInt64.toNat_inj.1 (by omega)
  have e2 : x2 = y2 := UInt64.toNat_inj.1 (by omega)
  have e3 : x3 = y3 := UInt64.toNat_inj.1 (by omega)
  rw [e0, e1, e2, e3]

-- `div_main_partial` instantiated at 1 / 3 (every rounding mode): the one call of the long division is evaluated
example (m : RoundingMode) : ∃ res fl, bid128_div_clear_status ⟨1, 0x3040000000000000⟩ ⟨3, 0x3040000000000000⟩ m 0 = .ok (res, fl) ∧
    (decode (bitsOf res), fl.toNat) = divD (md m) (.fin false 1 0) (.fin false 3 0) := by
  have hx : dOf ⟨1, 0x3040000000000000⟩ = .fin false 1 0 := by decide +kernel
  have hy : dOf ⟨3, 0x3040000000000000⟩ = .fin false 3 0 := by decide +kernel
  have := div_main_partial ⟨1, 0x3040000000000000⟩ ⟨3, 0x3040000000000000⟩ m hx hy (by decide) (by decide) (by
    intro CQ A h
    obtain ⟨h1, h2⟩ := call256_at 1 3 34 (by decide) (by norm_num) (by norm_num) CQ A h
    have e1 : CQ = ⟨0, 0⟩ := C01GenArith.toNat'_inj128 (by rw [h1]; decide)
    have e2 : A = ⟨0x378d8e6400000000, 0x1ed09bead87c0, 0, 0⟩ := toNat'_inj256 (by rw [h2]; decide)
    subst e1 e2
    exact ⟨⟨7483252092553221461, 180700362080917⟩, ⟨1, 0, 0, 0⟩, by decide +kernel, by decide +kernel, by decide +kernel⟩)
  rw [hx, hy] at this
  exact this

-- 1 / 3, the translated routine evaluated: 0.3333333333333333333333333333333333, inexact
example : bid128_div ⟨1, 0x3040000000000000⟩ ⟨3, 0x3040000000000000⟩ .NearestEven 0
    = .ok (ofBits (encode (.fin false 3333333333333333333333333333333333 (-34))), 0x20) := by decide +kernel
-- 2 / 3 rounds up in the last place
example : bid128_div ⟨2, 0x3040000000000000⟩ ⟨3, 0x3040000000000000⟩ .NearestEven 0
    = .ok (ofBits (encode (.fin false 6666666666666666666666666666666667 (-34))), 0x20) := by decide +kernel
-- 1 / 8 = 0.125 exactly: the small-operand exact path removes 31 zeros
example : bid128_div ⟨1, 0x3040000000000000⟩ ⟨8, 0x3040000000000000⟩ .NearestEven 0
    = .ok (ofBits (encode (.fin false 125 (-3))), 0) := by decide +kernel
-- 1025 / 4100 = 0.25: operands above 1024, the digit loop
example : bid128_div ⟨1025, 0x3040000000000000⟩ ⟨4100, 0x3040000000000000⟩ .NearestEven 0
    = .ok (ofBits (encode (.fin false 25 (-2))), 0) := by decide +kernel
-- 100 / 4 = 25: the integer quotient leaves at once
example : bid128_div ⟨100, 0x3040000000000000⟩ ⟨4, 0x3040000000000000⟩ .NearestEven 0
    = .ok (ofBits (encode (.fin false 25 0)), 0) := by decide +kernel
-- 7 / 2: CX ≥ CY with a remainder: 3.5
example : bid128_div ⟨7, 0x3040000000000000⟩ ⟨2, 0x3040000000000000⟩ .NearestEven 0
    = .ok (ofBits (encode (.fin false 35 (-1))), 0) := by decide +kernel
-- and the model
example : divD .rne (.fin false 1 0) (.fin false 8 0) = (.fin false 125 (-3), 0) := by decide +kernel

-- the blocks on concrete data
example : rn24 (2 ^ 24 + 1) = 2 ^ 24 ∧ rn24 (2 ^ 24 + 3) = 2 ^ 24 + 4 := by decide +kernel
example := chain_mono 5 7 5 9 (by decide) (by decide) (Or.inr ⟨rfl, by decide⟩)
example := digitLoopK_spec (α := Unit) 12345678901234567 (fun _ => .ok ()) (by decide)
example : nzOf (12345678900000000 % 10 ^ 8) (12345678900000000 / 10 ^ 8 % 10 ^ 8) = 8 := by decide +kernel
example := nzOf_fact 12345678900000000 (by decide) (by decide)
example := split17 ⟨0x378d8e63ffffffff, 0x1ed09bead87c0⟩ (by decide)
example := gt_bounds 1 3 1 (by decide) (by decide) (by decide) (by decide) (by decide)
example := small_zeros 1 8 (125 * 10 ^ 31) 34 3 0 0 0 (by decide) (by decide) (by norm_num) (by decide) (by decide) (by decide) (by decide)
example : finish .rne false (3333333333333333333333333333333333 * 3 + 1) 3 (-34) 0
    = (.fin false 3333333333333333333333333333333333 (-34), fInexact) := by decide +kernel
example := finish_pref .rne false 125 (-3) 0 (by decide) (by decide) (by decide)
example := div128_exact ⟨7, 0⟩ ⟨2, 0⟩ (by decide) (by decide) (by decide)

end Dec.C01GenDiv
