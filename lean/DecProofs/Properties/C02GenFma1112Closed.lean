/-
  C02GenFma1112Closed — Cases (11), (12) of `bid128_ext_fma` closed against `fmaD`: what C02GenFma1112.lean left open
  (`case1112_partial`: the arithmetic of the two roundings and the step to `Dec.finish`).

  THEOREMS.
    * `mid_math` — stage 3 on numbers (stage 2 is `add_math` of C02GenFma1112): the sum `c1` (`nd` digits) of `C4` and the rounded
      `C3`, rounded to 34 digits by `rnd2F` (helper + repair `combine`), IS a `PreTail` state of C02GenFmaLow — a nearest-even
      rounding of the exact `N = C4·10^x0 ± C3` at the right digit `k`, indicators known up to "below", delivered as `rnd2F` says:
      `two_step` of C02GenFmaLow for `nd ≥ 35`, `add_math`'s evenness at ties for `nd = 34`.  SUB-CASE one decade lower: when `N`
      itself has a digit less than `c1·10^x0` (the sum is `10^(nd−1)` exactly after a first rounding upward), `k − 1` digits are
      dropped and the coefficient is the carried `10^34`; there the indicators are truthful only up to the disjunction "below"
      (a tie is reported as `is_inexact_gt_midpoint`) — which is all `PreTail` asks, because the correction table has equal
      columns for `is_inexact_gt_midpoint` and `is_midpoint_lt_even` (`downD_or` of C02GenFmaLow; `tail_math` there is the lemma
      "harmless through the correction table").
    * `endK_pt` — stage 5 from a `PreTail` state (`tail_math` supplies the value of `finish` and every side condition of
      `correction_eval`): returns the encoding of `finish` and `f ||| flags`, all five modes, overflow included.
    * `case1112_spec` — THE BLOCK SPECIFICATION: under the entry invariant (`delta` negated) and the code's test `cond1112`,
      `case1112K … = .ok (ofBits (encode D.1), four indicators, f ||| UInt32.ofNat D.2)`, `D = addFin (modeOf m) ps C4 e4 zs C3 e3 e3`.
      `case1112_fma` — the same against `fmaD` (`C4 = c1·c2`, `e4 = e1 + e2`, `ps = s1 xor s2`), in the shape of `case7_fma`.
      `cond1112_imp` — what the test says: `34 < q4`, `delta < q4 < delta + q3`, `2 ≤ delta`.
  FINDINGS: none.  The last example runs the sub-case one decade lower through `bid128_fma` (nearest-even and toward zero).
-/
import DecProofs.Properties.C02GenFma1112
import DecProofs.Properties.C02GenFmaLow
import DecProofs.Properties.C02GenFmaSwap
import Mathlib.Tactic.Ring
import Mathlib.Tactic.Linarith

set_option linter.unusedVariables false
set_option linter.unusedSimpArgs false
set_option linter.unusedTactic false
set_option linter.unreachableTactic false

namespace Dec.C02GenFma1112
open Dec Dec.Rs Dec.Gen.Code
open Dec.C02GenRound (v128 v192 v256)
open Dec.C02RoundHelpers (Spec rne rne_eq specInd)
open Dec.RH (Ind)
open Dec.C02GenFmaLow (posInd combine PreTail pretail_of_pos two_step tail_math anyI)
open Dec.C02GenCorrection (deliver modeOf ofBits stepC upD downD outF outW ovfB correction_eval)
open Dec.C02GenFmaSwap (sgnW)

/-! ## 1. The arithmetic of the two roundings: the pipeline's output is a `PreTail` state of C02GenFmaLow -/

/-- the two "below" indicators of a position, together -/
theorem pos_below (N D c : Nat) (hD : 0 < D) (hcl : 2 * N ≤ 2 * (c * D) + D ∧ 2 * (c * D) ≤ 2 * N + D) :
    ((posInd N D c).inexGtMid || (posInd N D c).midLtEven) = decide (N < c * D) ∧
    ((posInd N D c).inexLtMid || (posInd N D c).midGtEven) = decide (c * D < N) := by
  obtain ⟨h1, h2⟩ := hcl
  unfold posInd
  simp only []
  constructor
  · by_cases h : N < c * D
    · rw [decide_eq_true h]
      by_cases t : 2 * N + D = 2 * (c * D)
      · rw [decide_eq_true t, Bool.or_true]
      · have hh : N < c * D ∧ 2 * (c * D) < 2 * N + D := ⟨h, by omega⟩
        rw [decide_eq_true hh, Bool.true_or]
    · rw [decide_eq_false h, decide_eq_false (fun hh => h hh.1), decide_eq_false (show ¬ (2 * N + D = 2 * (c * D)) by omega)]; rfl
  · by_cases h : c * D < N
    · rw [decide_eq_true h]
      by_cases t : 2 * N = 2 * (c * D) + D
      · rw [decide_eq_true t, Bool.or_true]
      · have hh : c * D < N ∧ 2 * N < 2 * (c * D) + D := ⟨h, by omega⟩
        rw [decide_eq_true hh, Bool.true_or]
    · rw [decide_eq_false h, decide_eq_false (fun hh => h hh.1), decide_eq_false (show ¬ (2 * N = 2 * (c * D) + D) by omega)]; rfl

/-- **stage 3, the mathematics** (stage 2 is `add_math`): the sum `c1` of `nd` digits, within half a unit `10^x0` of the exact `N` with
truthful indicators `i1` (and an even `c1` at a tie when nothing more is removed), rounded by `rnd2F`: the result is a `PreTail`
state — a nearest-even rounding of `N` at the right digit with the indicators known up to "below" — delivered as `rnd2F` says.
The right digit is `k = x0 + nd − 34`, except when `N` itself lies below `10^(k+33)` (the sum was `10^(nd−1)` exactly after a
first rounding upward): then one digit less is dropped and the coefficient is the carried `10^34`. -/
theorem mid_math (ps : Bool) (N x0 c1 nd : Nat) (E3 : Int) (i1 : Ind)
    (hnd : 34 ≤ nd) (hlo : 10 ^ (nd - 1) ≤ c1) (hhi : c1 < 10 ^ nd)
    (hcl : 2 * N ≤ 2 * (c1 * 10 ^ x0) + 10 ^ x0 ∧ 2 * (c1 * 10 ^ x0) ≤ 2 * N + 10 ^ x0)
    (hi : i1 = posInd N (10 ^ x0) c1)
    (hev : nd = 34 → (i1.midLtEven = true ∨ i1.midGtEven = true) → c1 % 2 = 0)
    (h9 : nd = 34 → 2 * 10 ^ 33 ≤ c1)
    (hx0 : 1 ≤ x0) (hE : eMin + 1 ≤ E3 + x0) :
    ∃ k cf : Nat, PreTail ps N E3 k cf (rnd2F nd c1 (E3 + x0) i1).2.2 ∧
      deliver cf (E3 + k) = deliver (rnd2F nd c1 (E3 + x0) i1).1 (rnd2F nd c1 (E3 + x0) i1).2.1 ∧
      ((deliver cf (E3 + k)).1 = P33 → eMin + 2 ≤ (deliver cf (E3 + k)).2) ∧ 10 ^ (k + 33) ≤ N := by
  have e34 : P34 = 10 ^ 34 := rfl
  have e33 : P33 = 10 ^ 33 := rfl
  have hX : 0 < 10 ^ x0 := Nat.pow_pos (by decide)
  obtain ⟨hb1, hb2⟩ := pos_below N (10 ^ x0) c1 hX hcl
  unfold rnd2F
  by_cases h34 : nd = 34
  · -- nothing more is removed
    subst h34
    simp only [if_true]
    have h9' := h9 rfl
    have hr : RoundedInt .rne ps N (10 ^ x0) c1 := by
      unfold RoundedInt
      rw [Nat.mul_assoc]
      refine ⟨hcl, fun ht => hev rfl ?_⟩
      rw [hi]; unfold posInd; simp only [decide_eq_true_eq]; omega
    have hc1X : 2 * 10 ^ 33 * 10 ^ x0 ≤ c1 * 10 ^ x0 := Nat.mul_le_mul_right _ h9'
    have hc1X' : (c1 + 1) * 10 ^ x0 ≤ 10 ^ 34 * 10 ^ x0 := Nat.mul_le_mul_right _ hhi
    rw [Nat.add_mul, Nat.one_mul] at hc1X'
    have hk33 : 10 ^ (x0 + 33) ≤ N := by rw [Nat.pow_add, Nat.mul_comm]; omega
    refine ⟨x0, c1, pretail_of_pos ps N E3 x0 c1 i1 hr hi (Or.inr (Or.inr ⟨hk33, ?_, by omega⟩)), rfl, ?_, hk33⟩
    · rw [Nat.pow_add, Nat.mul_comm]; omega
    · intro h
      rw [Dec.C02GenFmaSwap.deliver_lt _ _ (by omega)] at h
      simp only [] at h; omega
  · simp only [h34, if_false]
    obtain ⟨x2, rfl⟩ : ∃ x2, nd = 34 + x2 := ⟨nd - 34, by omega⟩
    have hx2 : 1 ≤ x2 := by omega
    rw [Nat.add_sub_cancel_left]
    rw [show 34 + x2 - 1 = 33 + x2 by omega] at hlo
    obtain ⟨t1, t2⟩ := two_step ps N (10 ^ x0) c1 x2 hX hx2 hcl (i1.inexGtMid || i1.midLtEven) (i1.inexLtMid || i1.midGtEven)
      (by rw [hi]; exact hb1) (by rw [hi]; exact hb2)
    rw [← Nat.pow_add] at t1 t2
    generalize combine (i1.inexGtMid || i1.midLtEven) (i1.inexLtMid || i1.midGtEven)
      (specInd (c1 / 10 ^ x2) (c1 % 10 ^ x2) (10 ^ x2 / 2)) (rne c1 x2) = cm at *
    -- bounds on N
    have hlo' : 10 ^ (33 + x2) * 10 ^ x0 ≤ c1 * 10 ^ x0 := Nat.mul_le_mul_right _ hlo
    have hhi' : (c1 + 1) * 10 ^ x0 ≤ 10 ^ (34 + x2) * 10 ^ x0 := Nat.mul_le_mul_right _ hhi
    rw [Nat.add_mul, Nat.one_mul] at hhi'
    rw [← Nat.pow_add] at hlo' hhi'
    have hNhi : N < 10 ^ (x0 + x2 + 34) := by rw [show x0 + x2 + 34 = 34 + x2 + x0 by omega]; omega
    have hX10 : 10 ^ x0 * 10 ≤ 10 ^ (x0 + x2) := by
      rw [← Nat.pow_succ]; exact Nat.pow_le_pow_right (by decide) (by omega)
    by_cases hN : 10 ^ (x0 + x2 + 33) ≤ N
    · refine ⟨x0 + x2, cm.1, pretail_of_pos ps N E3 (x0 + x2) cm.1 cm.2 t1 t2 (Or.inr (Or.inr ⟨hN, hNhi, by omega⟩)),
        by rw [show E3 + ((x0 + x2 : Nat) : Int) = E3 + x0 + x2 by omega], ?_, hN⟩
      intro _
      have := Dec.C02GenFmaSwap.deliver_snd cm.1 (E3 + ((x0 + x2 : Nat) : Int))
      omega
    · -- the decade below
      have hNlt : N < 10 ^ (x0 + x2 + 33) := by omega
      have hNge : 2 * 10 ^ (x0 + x2 + 33) ≤ 2 * N + 10 ^ x0 := by
        rw [show x0 + x2 + 33 = 33 + x2 + x0 by omega]; omega
      obtain ⟨D', hD'⟩ : ∃ D', D' = 10 ^ (x0 + x2 - 1) := ⟨_, rfl⟩
      have hDD : 10 ^ (x0 + x2) = 10 * D' := by rw [hD', ← Nat.pow_succ']; congr 1; omega
      have hXD : 10 ^ x0 ≤ D' := by rw [hD']; exact Nat.pow_le_pow_right (by decide) (by omega)
      have hP : 10 ^ (x0 + x2 + 33) = P34 * D' := by
        rw [e34, hD', show x0 + x2 + 33 = 34 + (x0 + x2 - 1) by omega, Nat.pow_add]
      have hP' : 10 ^ (x0 + x2 + 33) = P33 * 10 ^ (x0 + x2) := by
        rw [e33, show x0 + x2 + 33 = 33 + (x0 + x2) by omega, Nat.pow_add]
      -- the coefficient is 10^33
      have hcm : cm.1 = P33 := by
        have h1 := t1.1
        rw [Nat.mul_assoc] at h1
        rw [hP'] at hNlt hNge
        generalize 10 ^ (x0 + x2) = D at *
        have hDpos : 0 < D := by omega
        apply Nat.le_antisymm
        · by_contra hc
          have : (P33 + 1) * D ≤ cm.1 * D := Nat.mul_le_mul_right _ (by omega)
          rw [Nat.add_mul, Nat.one_mul] at this; omega
        · by_contra hc
          have : (cm.1 + 1) * D ≤ P33 * D := Nat.mul_le_mul_right _ (by omega)
          rw [Nat.add_mul, Nat.one_mul] at this; omega
      have hF : cm.2 = posInd N (10 ^ (x0 + x2)) P33 := by rw [t2, hcm]
      have hpt : PreTail ps N E3 (x0 + x2 - 1) P34 cm.2 := by
        refine { rne := ?_, hL := ?_, hMG := ?_, hdn := ?_, least := Or.inr (Or.inr ⟨?_, ?_, ?_⟩) }
        · unfold RoundedInt
          rw [Nat.mul_assoc, ← hD', ← hP]
          exact ⟨⟨by omega, by omega⟩, fun _ => by decide⟩
        · rw [hF]; unfold posInd; simp only []
          rw [← hP', ← hD', ← hP]
          rw [decide_eq_false (by omega), decide_eq_false (by omega)]
        · rw [hF]; unfold posInd; simp only []
          rw [← hP', ← hD', ← hP]
          rw [decide_eq_false (by omega), decide_eq_false (by omega)]
        · rw [hF]; unfold posInd; simp only []
          rw [← hP', ← hD', ← hP]
          rw [decide_eq_true (show N < 10 ^ (x0 + x2 + 33) ∧ 2 * 10 ^ (x0 + x2 + 33) < 2 * N + 10 ^ (x0 + x2) by omega),
            decide_eq_true hNlt]; rfl
        · rw [show x0 + x2 - 1 + 33 = x0 + x2 + 32 by omega]
          have : (10:Nat) ^ (x0 + x2 + 33) = 10 * 10 ^ (x0 + x2 + 32) := by rw [← Nat.pow_succ']
          have : 10 ^ x0 ≤ 10 ^ (x0 + x2 + 32) := Nat.pow_le_pow_right (by decide) (by omega)
          omega
        · rw [show x0 + x2 - 1 + 34 = x0 + x2 + 33 by omega]; exact hNlt
        · have : ((x0 + x2 - 1 : Nat) : Int) = (x0 : Int) + x2 - 1 := by omega
          rw [this]; omega
      refine ⟨x0 + x2 - 1, P34, hpt, ?_, ?_, ?_⟩
      · rw [hcm, Dec.C02GenFmaSwap.deliver_34, Dec.C02GenFmaSwap.deliver_lt _ _ (by decide)]
        have : ((x0 + x2 - 1 : Nat) : Int) = (x0 : Int) + x2 - 1 := by omega
        rw [this]; refine Prod.ext rfl ?_; simp only []; omega
      · intro _
        rw [Dec.C02GenFmaSwap.deliver_34]
        have : ((x0 + x2 - 1 : Nat) : Int) = (x0 : Int) + x2 - 1 := by omega
        simp only []; rw [this]; omega
      · rw [show x0 + x2 - 1 + 33 = x0 + x2 + 32 by omega]
        have : (10:Nat) ^ (x0 + x2 + 33) = 10 * 10 ^ (x0 + x2 + 32) := by rw [← Nat.pow_succ']
        have : 10 ^ x0 ≤ 10 ^ (x0 + x2 + 32) := Nat.pow_le_pow_right (by decide) (by omega)
        omega

/-! ## 2. Stage 5 from a `PreTail` state: the block delivers `finish` -/

open Dec.C02GenCorrection (expField i32_gt ovfDatum_model ovfDatum outW_eq)
open Dec.C02GenFmaSwap (sgnW_toNat w1_small mode_ne)
open Dec.C03GenCompare (sigW negW)
open Dec.C08GenRoundIntegral (i32_add i32_sub)

theorem stepC_ge (up dn : Bool) (c : Nat) (e : Int) (he : -6175 ≤ e) (hdec : c = P33 → -6174 ≤ e) :
    -6175 ≤ (stepC up dn c e).2.1 ∧ (stepC up dn c e).2.2 = false := by
  have e33 : P33 = 1000000000000000000000000000000000 := rfl
  unfold stepC
  by_cases hu : up = true
  · rw [if_pos hu]; split <;> exact ⟨by show -6175 ≤ _; first | omega | (simp only []; omega), rfl⟩
  · rw [if_neg hu]
    by_cases hdn : dn = true
    · rw [if_pos hdn]
      by_cases hc : c = P33
      · rw [if_pos hc, if_pos (by have := hdec hc; omega)]
        exact ⟨by have := hdec hc; show -6175 ≤ e - 1; omega, rfl⟩
      · rw [if_neg hc]; exact ⟨he, rfl⟩
    · rw [if_neg hdn]; exact ⟨he, rfl⟩

/-- **stage 5 from a `PreTail` state** (`PreTail`, `tail_math` of C02GenFmaLow): the exact magnitude is `N·10^E` with at least
`k + 34` digits (nothing tiny), `cf` its nearest-even rounding with `k` digits dropped, handed over as `deliver cf (E + k)` with
indicators known up to "below"; the stage returns the encoding of `finish` and `f ||| flags` -/
theorem endK_pt (s : Bool) (q3 : Int32) (z_sign : UInt64) (C4 : U256) (m : RoundingMode) (f : UInt32)
    (p1 : Bool) (p2 : Bool) (p3 : Bool) (p4 : Bool) (res : U128) (C3 : U128) (e3 : Int32) (e4 : Int32) (sc : Int32) (ind : Int32) (x0 : Int32) (a : Bool) (b : Bool) (c : Bool) (d : Bool) (a0 : Bool) (b0 : Bool) (c0 : Bool) (d0 : Bool) (i : Bool) (lsb : Bool) (l1 : Bool) (l2 : Bool) (l3 : Bool) (R64 : UInt64) (P128 : U128) (R128 : U128) (P192 : U192) (R192 : U192) (R256 : U256)
    (N : Nat) (hN : 0 < N) (E : Int) (k cf : Nat) (hpt : PreTail s N E k cf ⟨a, b, c, d⟩) (hk33 : 10 ^ (k + 33) ≤ N)
    (hd : -6175 ≤ (deliver cf (E + k)).2) (hdec : (deliver cf (E + k)).1 = P33 → -6174 ≤ (deliver cf (E + k)).2)
    (hEhi : E + k ≤ 6200)
    (hc : v128 res = (deliver cf (E + k)).1) (he : e4.toInt = (deliver cf (E + k)).2) :
    endK q3 34 z_sign (sgnW s) C4 m p1 p2 p3 p4 ((if m = .NearestEven then f else (outF (c || d || a || b) false false f))) res C3 e3 e4 sc ind x0 a b c d a0 b0 c0 d0 i lsb l1 l2 l3 false R64 P128 R128 P192 R192 R256 =
      .ok (ofBits (encode (finish (modeOf m) s N 1 E E).1), a, b, c, d, f ||| UInt32.ofNat (finish (modeOf m) s N 1 E E).2) := by
  have e34 : P34 = 10000000000000000000000000000000000 := rfl
  have hMax : eMax = 6111 := rfl
  obtain ⟨hfin, t1, t2, t3, t4, t5, t6⟩ := tail_math m s N hN E k cf ⟨a, b, c, d⟩ hpt _ _ rfl rfl
  simp only [] at hfin t4 t5 t6
  have hwf := finish_wf (modeOf m) s N 1 E E hN (by decide)
  have hanyI : anyI ⟨a, b, c, d⟩ = (c || d || a || b) := rfl
  rw [hanyI, if_neg (show ¬ N < 10 ^ (k + 33) by omega)] at hfin
  generalize hc0 : (deliver cf (E + k)).1 = cD at *
  generalize heI : (deliver cf (E + k)).2 = eI at *
  have hw := w1_small res _ hc t1
  have hpk := packE res.w1 s e4 _ he (by omega) (by omega) hw
  have hany : (a || b || c || d) = (c || d || a || b) := by cases a <;> cases b <;> cases c <;> cases d <;> rfl
  have hnoE : decide (e4 < c_EXP_MIN_UNBIASED) = false :=
    decide_eq_false (by rw [Int32.lt_iff_toInt_lt, he]; show ¬ (eI < -6176); omega)
  have hres : (⟨res.w0, res.w1 ||| (sgnW s ||| (((UInt64.ofInt (toI (e4 + (0x1820 : Int32))))) <<< 0x31))⟩ : U128) =
      ofBits (encode (.fin s cD eI)) := by
    apply Dec.C17GenNext.eq_ofBits
    show _ * 2^64 + _ = _
    rw [hpk]
    unfold v128 at hc
    unfold encode signBit
    cases s <;> simp only [Bool.false_eq_true, if_false, if_true] <;> omega
  by_cases hm : m = .NearestEven
  · subst hm
    have hst : stepC (upD .NearestEven s c b) (downD .NearestEven s d a) cD eI = (cD, eI, false) := rfl
    rw [hst] at hfin
    simp only [] at hfin
    have hov : decide (((34 : Int32) + e4) > ((34 : Int32) + c_EXP_MAX_UNBIASED)) = decide (6111 < eI) := by
      have a1 : ((34 : Int32) + c_EXP_MAX_UNBIASED).toInt = 6145 := by
        rw [i32_add _ _ (by decide) (by decide)]; rfl
      have a2 : ((34 : Int32) + e4).toInt = 34 + eI := by
        rw [i32_add _ _ (by decide) (by rw [he]; omega), he]; rfl
      rw [i32_gt, a1, a2, decide_eq_decide]; omega
    rw [hfin]
    unfold endK
    by_cases ho : 6111 < eI
    · rw [if_pos (show eMax < eI from ho)]
      take_pos
      · rw [hov, decide_eq_true ho]; rfl
      head_step
      rw [if_pos rfl]
      refine congrArg Except.ok (Prod.ext ?_ (Prod.ext rfl (Prod.ext rfl (Prod.ext rfl (Prod.ext rfl ?_)))))
      · show (⟨0, sgnW s ||| 0x7800000000000000⟩ : U128) = ofBits (encode (overflowResult (modeOf RoundingMode.NearestEven) s))
        cases s <;> decide +kernel
      · exact congrArg (fun x => f ||| x) (show (c_StatusFlags_BID_INEXACT_EXCEPTION ||| c_StatusFlags_BID_OVERFLOW_EXCEPTION : UInt32) = UInt32.ofNat (fOverflow ||| fInexact) by decide)
    · rw [if_neg (show ¬ eMax < eI from ho)]
      take_neg
      · rw [hov, decide_eq_false ho]; decide
      take_neg
      · rw [hnoE]; decide
      take_neg
      · decide
      rw [hres]
      have hnm : ((ofBits (encode (.fin s cD eI))).w1 &&& (0x7fffffffffffffff : UInt64) == (0x314dc6448d93 : UInt64)) = false := by
        have h := not_min_pattern s .NearestEven cD eI t1 (by omega)
        rw [if_neg ho] at h; exact h
      take_neg
      · rw [hnm]; simp
      rw [if_pos rfl]
      by_cases hany' : (c || d || a || b) = true
      · have hf1 : ¬ (c || d || a || b) = false := by rw [hany']; decide
        rw [if_neg hf1]
        take_pos
        · rw [hany]; exact hany'
        head_step
        rfl
      · have hf0 : (c || d || a || b) = false := by simpa using hany'
        rw [if_pos hf0]
        take_neg
        · rw [hany]; exact hany'
        head_step
        show _ = Except.ok (_, a, b, c, d, f ||| UInt32.ofNat 0)
        rw [show UInt32.ofNat 0 = 0 from rfl, UInt32.or_zero]
        rfl
  · obtain ⟨m1, m2⟩ := mode_ne m hm
    obtain ⟨W, hW⟩ : ∃ W : U128, W = ⟨res.w0, res.w1 ||| (sgnW s ||| (((UInt64.ofInt (toI (e4 + (0x1820 : Int32))))) <<< 0x31))⟩ := ⟨_, rfl⟩
    have hW1 : W.w1.toNat = (if s then 1 else 0) * 2^63 + (eI + 6176).toNat * 2^49 + res.w1.toNat := by
      rw [hW]; exact hpk
    have hW0 : W.w0 = res.w0 := by rw [hW]
    have hneg : negW W.w1.toNat = s := by
      unfold negW; rw [hW1]
      cases s <;> simp only [Bool.false_eq_true, if_false, if_true, decide_eq_true_eq, decide_eq_false_iff_not] <;> omega
    have hsig : sigW W.w1.toNat W.w0.toNat = cD := by
      unfold sigW; rw [hW1, hW0, ← hc]; unfold v128
      cases s <;> simp only [Bool.false_eq_true, if_false, if_true] <;> omega
    have hev := correction_eval m c d a b e4 W (outF (c || d || a || b) false false f) eI cD he (by omega) (by omega) hsig t1
      (by rw [hneg]; exact t4)
    rw [hneg, outW_eq, hneg] at hev
    obtain ⟨g1, g2⟩ := stepC_ge (upD m s c b) (downD m s d a) cD eI hd hdec
    generalize hst : stepC (upD m s c b) (downD m s d a) cD eI = st at *
    rw [g2, ovfDatum_model m s hm] at hev
    -- the datum delivered
    have hdat : (if 6111 < st.2.1 then overflowResult (modeOf m) s else Datum.fin s st.1 st.2.1) = (finish (modeOf m) s N 1 E E).1 := by
      rw [hfin]; by_cases ho : 6111 < st.2.1
      · rw [if_pos ho, if_pos (show eMax < st.2.1 from ho)]
      · rw [if_neg ho, if_neg (show ¬ eMax < st.2.1 from ho)]
    have hc2 : 6111 < st.2.1 ∨ st.1 < P34 := by
      by_cases ho : 6111 < st.2.1
      · exact Or.inl ho
      · right
        rw [hfin, if_neg (show ¬ eMax < st.2.1 from ho)] at hwf
        exact hwf.1
    have hnm : ((ofBits (encode (if 6111 < st.2.1 then overflowResult (modeOf m) s else Datum.fin s st.1 st.2.1))).w1 &&&
        (0x7fffffffffffffff : UInt64) == (0x314dc6448d93 : UInt64)) = false := by
      rcases hc2 with ho | hlt
      · have h := not_min_pattern s m 0 st.2.1 (by decide) g1
        rw [ovfDatum_model m s hm, if_pos ho] at h; rw [if_pos ho]; exact h
      · have h := not_min_pattern s m st.1 st.2.1 hlt g1
        rw [ovfDatum_model m s hm] at h; exact h
    unfold endK
    take_neg
    · rw [m1]; simp
    take_neg
    · rw [hnoE]; simp
    take_pos
    · exact m2
    rw [if_neg hm, ← hW]
    take_call hev
    head_step
    take_neg
    · rw [hnm]; simp
    rw [hdat]
    have hfl : (finish (modeOf m) s N 1 E E).2 = if 6111 < st.2.1 then 0x28 else if (c || d || a || b) = false then 0 else 0x20 := by
      rw [hfin]; by_cases ho : 6111 < st.2.1
      · rw [if_pos ho, if_pos (show eMax < st.2.1 from ho)]; rfl
      · rw [if_neg ho, if_neg (show ¬ eMax < st.2.1 from ho)]; simp only []; split <;> rfl
    rw [hfl]
    by_cases hany' : (c || d || a || b) = true
    · take_pos
      · rw [hany]; exact hany'
      head_step
      refine congrArg Except.ok (Prod.ext rfl (Prod.ext rfl (Prod.ext rfl (Prod.ext rfl (Prod.ext rfl ?_)))))
      unfold outF
      simp only [hany', if_true, Bool.false_eq_true, if_false, Bool.true_eq_false]
      by_cases ho : 6111 < st.2.1
      · simp only [ho, decide_true, if_true]
        show ((((f ||| 0x20) ||| 0x20) ||| 0x28) ||| 0x20 : UInt32) = f ||| 0x28
        rw [UInt32.or_assoc, UInt32.or_assoc, UInt32.or_assoc]; rfl
      · simp only [ho, decide_false, Bool.false_eq_true, if_false]
        show (((f ||| 0x20) ||| 0x20) ||| 0x20 : UInt32) = f ||| 0x20
        rw [UInt32.or_assoc, UInt32.or_assoc]; rfl
    · have hany'' : (c || d || a || b) = false := by simpa using hany'
      take_neg
      · rw [hany]; exact hany'
      head_step
      refine congrArg Except.ok (Prod.ext rfl (Prod.ext rfl (Prod.ext rfl (Prod.ext rfl (Prod.ext rfl ?_)))))
      unfold outF
      simp only [hany'', Bool.false_eq_true, if_false, if_true]
      by_cases ho : 6111 < st.2.1
      · simp only [ho, decide_true, if_true]; rfl
      · simp only [ho, decide_false, Bool.false_eq_true, if_false]
        show f = f ||| UInt32.ofNat 0
        rw [show UInt32.ofNat 0 = 0 from rfl, UInt32.or_zero]

/-! ## 3. The block specification -/

theorem cond1112_imp (q3 q4 delta : Int32) (h3 : 1 ≤ q3.toInt) (h3' : q3.toInt ≤ 34) (h4' : q4.toInt ≤ 68)
    (hd : 0 ≤ delta.toInt) (hd' : delta.toInt < 2^19) (h : cond1112 q3 q4 delta 34 = true) :
    34 < q4.toInt ∧ delta.toInt < q4.toInt ∧ q4.toInt < delta.toInt + q3.toInt ∧ 2 ≤ delta.toInt := by
  have a : (delta + q3).toInt = delta.toInt + q3.toInt := i32_add _ _ ⟨by omega, by omega⟩ ⟨by omega, by omega⟩
  have i34 : (34 : Int32).toInt = 34 := rfl
  simp only [cond1112, Bool.or_eq_true, Bool.and_eq_true, decide_eq_true_eq, Int32.le_iff_toInt_le, Int32.lt_iff_toInt_lt, a,
    i34] at h
  omega

/-- the model's sum when the product is the larger term and the addend has the lower exponent -/
theorem addFin_dom' (mode : Mode) (ps zs : Bool) (c4 c3 : Nat) (e4 e3 : Int) (hlt : e3 < e4) (h0 : 0 < c3)
    (hc : c3 < c4 * 10 ^ (e4 - e3).toNat) :
    addFin mode ps c4 e4 zs c3 e3 e3 =
      finish mode ps (if (ps == zs) = true then c4 * 10 ^ (e4 - e3).toNat + c3 else c4 * 10 ^ (e4 - e3).toNat - c3) 1 e3 e3 := by
  unfold addFin
  simp only [if_neg (show ¬ e4 ≤ e3 by omega), Int.sub_self, Int.toNat_zero, Nat.pow_zero, Nat.mul_one]
  generalize c4 * 10 ^ (e4 - e3).toNat = P at *
  have b1 : (false == true) = false := rfl
  have b2 : (true == false) = false := rfl
  cases ps <;> cases zs <;> simp only [sInt, Bool.false_eq_true, if_false, if_true, beq_self_eq_true, b1, b2]
  · rw [if_neg (by omega), decide_eq_false (by omega)]; congr 1
  · rw [if_neg (by omega), decide_eq_false (by omega)]; congr 1; omega
  · rw [if_neg (by omega), decide_eq_true (by omega)]; congr 1; omega
  · rw [if_neg (by omega), decide_eq_true (by omega)]; congr 1; omega

/-- **Cases (11), (12) of `bid128_ext_fma` — block specification.**
ENTRY: the invariant of the case blocks with `delta` negated: `C3` the addend's coefficient (`q3` digits, `q3 ≤ 34`, exponent
`e3`, sign `zs`), `C4` the exact product (`q4` digits, `q4 ≤ 68`, exponent `e4`, sign `ps`), `delta = q4 + e4 − q3 − e3 ≥ 0`,
indicators, `incr_exp`, `is_tiny` false, the other mutable variables arbitrary; the code's test `cond1112`.  Then the block
returns the encoding of the model's sum of product and addend — ONE rounding in the mode asked for, preferred exponent
`e3 = min(e3, e4)` —, four indicators, and the model's flags or-ed into the status word `f`. -/
theorem case1112_spec (ps zs : Bool) (q3n q4n : Nat) (e3 e4 : Int) (q3 q4 delta : Int32) (C4 : U256) (m : RoundingMode)
    (p1 : Bool) (p2 : Bool) (p3 : Bool) (p4 : Bool) (f : UInt32) (res : U128) (C3 : U128) (sc : Int32) (ind : Int32) (x0 : Int32) (a0 : Bool) (b0 : Bool) (c0 : Bool) (d0 : Bool) (lsb : Bool) (l1 : Bool) (l2 : Bool) (l3 : Bool) (R64 : UInt64) (P128 : U128) (R128 : U128) (P192 : U192) (R192 : U192) (R256 : U256) (e3w e4w : Int32)
    (hq3w : q3.toInt = q3n) (hq4w : q4.toInt = q4n) (hq3 : 1 ≤ q3n) (hq3' : q3n ≤ 34) (hc3lo : 0 < v128 C3)
    (hC3 : v128 C3 < 10 ^ q3n) (hq4' : q4n ≤ 68) (hc4lo : 10 ^ (q4n - 1) ≤ v256 C4) (hc4 : v256 C4 < 10 ^ q4n)
    (he3 : -6176 ≤ e3) (he3' : e3 ≤ 6111) (he3w : e3w.toInt = e3) (he4w : e4w.toInt = e4)
    (hdelta : delta.toInt = q4n + e4 - q3n - e3) (hd0 : 0 ≤ delta.toInt) (hd1 : delta.toInt < 2^19)
    (hcond : cond1112 q3 q4 delta 34 = true) :
    ∃ lt gt ilt igt : Bool,
      case1112K q3 34 (sgnW zs) (sgnW ps) C4 m p1 p2 p3 p4 f res C3 e3w e4w sc ind x0 false false false false a0 b0 c0 d0 false lsb l1 l2 l3 false R64 P128 R128 P192 R192 R256 =
        .ok (ofBits (encode (addFin (modeOf m) ps (v256 C4) e4 zs (v128 C3) e3 e3).1), lt, gt, ilt, igt,
             f ||| UInt32.ofNat (addFin (modeOf m) ps (v256 C4) e4 zs (v128 C3) e3 e3).2) := by
  have e34 : P34 = 10 ^ 34 := rfl
  have e33 : P33 = 10 ^ 33 := rfl
  obtain ⟨k1, k2, k3, k4⟩ := cond1112_imp q3 q4 delta (by omega) (by omega) (by omega) hd0 hd1 hcond
  rw [hq4w] at k1 k2 k3; rw [hq3w] at k3
  obtain ⟨x0n, hx0⟩ : ∃ x0n : Nat, e4 - e3 = x0n := ⟨(e4 - e3).toNat, by omega⟩
  have hx0' : (e4 - e3).toNat = x0n := by omega
  have hxw : (e4w - e3w).toInt = x0n := by
    rw [i32_sub _ _ (by rw [he4w]; omega) (by rw [he3w]; omega), he4w, he3w]; exact hx0
  -- stages 1–4
  obtain ⟨res', e4', sc', ind', x0', a0', b0', c0', d0', i', lsb', R64', P128', R128', P192', R192', R256', C3', e3', hst, v3, w3,
      hb1, hb2, hb3⟩ :=
    case1112_stages ps zs q3n q4n x0n e4 q3 C4 m p1 p2 p3 p4 f res C3 e3w e4w sc ind x0 a0 b0 c0 d0 lsb l1 l2 l3 R64 P128 R128 P192 R192 R256 hq3w (by omega) hq3' hxw (by omega) (by omega) hC3 (by omega) hq4'
      hc4lo hc4 (by omega) he4w (by omega) (by omega)
  rw [hst]
  -- the arithmetic
  obtain ⟨_, rb⟩ := rne_bounds (v128 C3) x0n
  have hdiv : v128 C3 / 10 ^ x0n < 10 ^ (q3n - x0n) := by
    rw [Nat.div_lt_iff_lt_mul (Nat.pow_pos (by decide)), ← Nat.pow_add, show q3n - x0n + x0n = q3n by omega]; exact hC3
  have hr3 : rne (v128 C3) x0n ≤ 10 ^ (q4n - 2) :=
    le_trans (by omega) (Nat.pow_le_pow_right (by decide) (show q3n - x0n ≤ q4n - 2 by omega))
  have hp1 : (10:Nat) ^ (q4n - 1) = 10 * 10 ^ (q4n - 2) := by rw [← Nat.pow_succ']; congr 1; omega
  have hp2 : (10:Nat) ^ 33 ≤ 10 ^ (q4n - 2) := Nat.pow_le_pow_right (by decide) (by omega)
  have hp3 : (10:Nat) ^ q4n ≤ 10 ^ 68 := Nat.pow_le_pow_right (by decide) hq4'
  have hp4 : (10:Nat) ^ (q4n - 2) ≤ 10 ^ 66 := Nat.pow_le_pow_right (by decide) (by omega)
  obtain ⟨hcl, hpos, hev, hs1, hs2⟩ := add_math (v128 C3) (v256 C4) x0n (ps == zs) (by omega) (by omega)
  generalize hA : (addF (ps == zs) (decide (v256 C4 % 2 = 1)) (v256 C4) (rne (v128 C3) x0n) (specInd (v128 C3 / 10 ^ x0n) (v128 C3 % 10 ^ x0n) (10 ^ x0n / 2))) = A at *
  obtain ⟨N, hNdef⟩ : ∃ N, N = (if (ps == zs) = true then v256 C4 * 10 ^ x0n + v128 C3 else v256 C4 * 10 ^ x0n - v128 C3) :=
    ⟨_, rfl⟩
  rw [← hNdef] at hcl hpos
  have hc1lo : 2 * 10 ^ 33 ≤ A.1 := by
    cases hsame : (ps == zs)
    · have := hs2 hsame; omega
    · have := hs1 hsame; omega
  have hc1hi : A.1 < 10 ^ 69 := by
    have : (10:Nat) ^ 69 = 10 * 10 ^ 68 := by rw [Nat.pow_succ]; omega
    cases hsame : (ps == zs)
    · have := hs2 hsame; omega
    · have := hs1 hsame; omega
  have hApos : 0 < A.1 := by omega
  obtain ⟨dl, dh⟩ := ndigits_spec hApos
  have hnd1 : 34 ≤ ndigits A.1 := by
    have := (Dec.C02GenFmaLow.pow_le_iff_lt_ndigits A.1 33).1 (by omega); omega
  have hsame34 : ndigits A.1 = 34 → (ps == zs) = false := by
    intro h
    cases hsame : (ps == zs)
    · rfl
    · exfalso
      have := hs1 hsame
      rw [h] at dh
      have : (10:Nat) ^ 34 ≤ 10 ^ (q4n - 1) := Nat.pow_le_pow_right (by decide) (by omega)
      omega
  -- the size of N
  have hc3X : v128 C3 < v256 C4 * 10 ^ x0n := by
    have h1 : v128 C3 < 10 ^ (q4n - 2 + x0n) := lt_of_lt_of_le hC3 (Nat.pow_le_pow_right (by decide) (by omega))
    have h2 : 10 ^ (q4n - 1) * 10 ^ x0n ≤ v256 C4 * 10 ^ x0n := Nat.mul_le_mul_right _ hc4lo
    rw [← Nat.pow_add] at h2
    have h3 : (10:Nat) ^ (q4n - 2 + x0n) ≤ 10 ^ (q4n - 1 + x0n) := Nat.pow_le_pow_right (by decide) (by omega)
    omega
  have hNpos : 0 < N := by rw [hNdef]; split <;> omega
  clear hp1 hp2 hp3 hp4 hr3 hdiv rb
  obtain ⟨k, cf, hpt, hdel, hdec, hk33⟩ := mid_math ps N x0n A.1 (ndigits A.1) e3
    ⟨A.2.midLtEven, A.2.midGtEven, A.2.inexLtMid, A.2.inexGtMid⟩ hnd1 dl dh hcl hpos
    (fun h => hev (hsame34 h)) (fun _ => hc1lo) (by omega) (by unfold eMin; omega)
  rw [show e3 + (x0n : Int) = e4 by omega] at hdel hpt
  generalize rnd2F (ndigits A.1) A.1 e4 ⟨A.2.midLtEven, A.2.midGtEven, A.2.inexLtMid, A.2.inexGtMid⟩ = F at *
  rw [← hdel] at v3 w3
  have hd2 := Dec.C02GenFmaSwap.deliver_snd F.1 F.2.1
  rw [← hdel] at hd2
  have hd3 := Dec.C02GenFmaSwap.deliver_snd cf (e3 + (k : Int))
  clear hc1hi hc1lo dl dh hC3 hc4lo hc4 hcl
  have hfinal := endK_pt ps q3 (sgnW zs) C4 m f p1 p2 p3 p4 res' C3' e3' e4' sc' ind' x0' F.2.2.midLtEven F.2.2.midGtEven F.2.2.inexLtMid F.2.2.inexGtMid a0' b0' c0' d0' i' lsb' l1 l2 l3 R64' P128' R128' P192' R192' R256'
    N hNpos e3 k cf hpt hk33 (by omega) (fun h => by have := hdec h; unfold eMin at this; omega) (by omega) v3 w3
  rw [hfinal]
  have hadd := addFin_dom' (modeOf m) ps zs (v256 C4) (v128 C3) e4 e3 (by omega) hc3lo (by rw [hx0']; exact hc3X)
  rw [hx0', ← hNdef] at hadd
  rw [hadd]
  exact ⟨_, _, _, _, rfl⟩

/-- **Cases (11), (12) against `fmaD`**: `C4 = c1·c2` the exact product of the coefficients, `e4 = e1 + e2`, `ps = s1 xor s2` -/
theorem case1112_fma (s1 s2 s3 : Bool) (c1 c2 : Nat) (e1 e2 : Int) (q3n q4n : Nat) (e3 : Int) (q3 q4 delta : Int32) (C4 : U256)
    (m : RoundingMode)
    (p1 : Bool) (p2 : Bool) (p3 : Bool) (p4 : Bool) (f : UInt32) (res : U128) (C3 : U128) (sc : Int32) (ind : Int32) (x0 : Int32) (a0 : Bool) (b0 : Bool) (c0 : Bool) (d0 : Bool) (lsb : Bool) (l1 : Bool) (l2 : Bool) (l3 : Bool) (R64 : UInt64) (P128 : U128) (R128 : U128) (P192 : U192) (R192 : U192) (R256 : U256) (e3w e4w : Int32)
    (hq3w : q3.toInt = q3n) (hq4w : q4.toInt = q4n) (hq3 : 1 ≤ q3n) (hq3' : q3n ≤ 34) (hc3lo : 0 < v128 C3)
    (hC3 : v128 C3 < 10 ^ q3n) (hq4' : q4n ≤ 68) (hprod : v256 C4 = c1 * c2) (hc4lo : 10 ^ (q4n - 1) ≤ c1 * c2)
    (hc4 : c1 * c2 < 10 ^ q4n)
    (he3 : -6176 ≤ e3) (he3' : e3 ≤ 6111) (he3w : e3w.toInt = e3) (he4w : e4w.toInt = e1 + e2)
    (hdelta : delta.toInt = q4n + (e1 + e2) - q3n - e3) (hd0 : 0 ≤ delta.toInt) (hd1 : delta.toInt < 2^19)
    (hcond : cond1112 q3 q4 delta 34 = true) :
    ∃ lt gt ilt igt : Bool,
      case1112K q3 34 (sgnW s3) (sgnW (s1 != s2)) C4 m p1 p2 p3 p4 f res C3 e3w e4w sc ind x0 false false false false a0 b0 c0 d0 false lsb l1 l2 l3 false R64 P128 R128 P192 R192 R256 =
        .ok (ofBits (encode (fmaD (modeOf m) false (.fin s1 c1 e1) (.fin s2 c2 e2) (.fin s3 (v128 C3) e3)).1), lt, gt, ilt, igt,
             f ||| UInt32.ofNat (fmaD (modeOf m) false (.fin s1 c1 e1) (.fin s2 c2 e2) (.fin s3 (v128 C3) e3)).2) := by
  obtain ⟨_, k2, k3, _⟩ := cond1112_imp q3 q4 delta (by omega) (by omega) (by omega) hd0 hd1 hcond
  have hlt : e3 < e1 + e2 := by rw [hq4w] at k3; rw [hq3w] at k3; omega
  have h := case1112_spec (s1 != s2) s3 q3n q4n e3 (e1 + e2) q3 q4 delta C4 m p1 p2 p3 p4 f res C3 sc ind x0 a0 b0 c0 d0 lsb l1 l2 l3 R64 P128 R128 P192 R192 R256 e3w e4w hq3w hq4w hq3 hq3' hc3lo hC3 hq4'
    (by rw [hprod]; exact hc4lo) (by rw [hprod]; exact hc4) he3 he3' he3w he4w hdelta hd0 hd1 hcond
  rw [hprod] at h
  have hf : fmaD (modeOf m) false (.fin s1 c1 e1) (.fin s2 c2 e2) (.fin s3 (v128 C3) e3) =
      addFin (modeOf m) (s1 != s2) (c1 * c2) (e1 + e2) s3 (v128 C3) e3 e3 := by
    show addFin (modeOf m) (s1 != s2) (c1 * c2) (e1 + e2) s3 (v128 C3) e3 (if e1 + e2 ≤ e3 then e1 + e2 else e3) false = _
    rw [if_neg (by omega)]
  rw [hf]
  exact h

/-! ### examples -/

-- the test itself: q3 = 9, q4 = 35, delta = 31 (Case (12)); q3 = 20, q4 = 50, delta = 40 (Case (11)); not: delta + q3 ≤ q4
example : cond1112 9 35 31 34 = true ∧ cond1112 20 50 40 34 = true ∧ cond1112 5 50 40 34 = false := by decide

-- the sub-case of `mid_math` one decade lower, through the routine and the model: product 999990 · (10^30 + 10^25 + … + 1) =
-- 10^36 − 10 (36 digits), addend +96·10^−1 (delta = 35, Case (11)): C3 rounds UP to 10, the sum is 10^36 exactly (37 digits) and
-- lies above the exact 10^36 − 0.4; nearest-even: 10^33·10^3; toward zero: (10^34 − 1)·10^2 — the correction steps below the decade
example : (bid128_fma (ofBits (encode (.fin false 999990 0))) (ofBits (encode (.fin false 1000010000100001000010000100001 0)))
      (ofBits (encode (.fin false 96 (-1)))) .NearestEven 0).toOption = some (ofBits (encode (.fin false (10^33) 3)), 0x20) ∧
    (bid128_fma (ofBits (encode (.fin false 999990 0))) (ofBits (encode (.fin false 1000010000100001000010000100001 0)))
      (ofBits (encode (.fin false 96 (-1)))) .TowardZero 0).toOption = some (ofBits (encode (.fin false (10^34 - 1) 2)), 0x20) ∧
    fmaD .rtz false (.fin false 999990 0) (.fin false 1000010000100001000010000100001 0) (.fin false 96 (-1)) =
      (.fin false (10^34 - 1) 2, 0x20) ∧ 999990 * 1000010000100001000010000100001 = 10^36 - 10 := by
  refine ⟨by decide +kernel, by decide +kernel, by decide +kernel, by decide⟩

end Dec.C02GenFma1112
