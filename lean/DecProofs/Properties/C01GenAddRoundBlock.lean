/-
  C01GenAddRoundBlock — the inline block of `bid128_add` "round C2 by x1 digits with the reciprocal
  BID_TEN2MK128[x1 − 1]" (tables BID_TEN2MK128, BID_TEN2MK128TRUNC, BID_MASKHIGH128, BID_SHIFTRIGHT128, BID_ONEHALF128 and the
  midpoints BID_MIDPOINT64 / BID_MIDPOINT128), in the word-level form `C01GenAddRound.RoundBlockSpec` in which
  C01GenAddRound consumes it:  `roundBlockSpec : RoundBlockSpec`  (alias `round_block_spec`).

  For every coefficient C = (bh, bl) < 10^34 and every ind ≤ 32 (x1 = ind + 1 digits removed, D = 10^x1, r = C mod D) all
  table reads succeed and, for the 256-bit product R of C + D/2 with the reciprocal:
    (1) the shifted high words of R are ⌊C / D⌋ rounded half up;       (2) "f* > 1/2"  ⇔  r < D/2;
    (3) if r < D/2: "f* − 1/2 > T*" (`≥` in the regime ind ≤ 2)  ⇔  0 < r;      (4) the midpoint test  ⇔  r = D/2.
  So the block is C / 10^x1 rounded to nearest with truthful indicators (ties are then fixed by the caller's parity
  step): NO DEVIATION FOUND.  In particular the `≥` of the first regime (where the two others have `>`) is harmless: for
  an exact quotient f* − 1/2 = (a + 1/2)·δ ≤ K − 2 = T* − 1 (`core_extra`), so `≥ T*` and `> T*` agree.

  Method: the error analysis on numbers is `C02RoundHelpers.core` (reused) plus `core_extra`; its side conditions are
  checked by the kernel on all 34 rows of the five tables (`rows_lo`, `rows_mid`, `rows_hi`: shift 0 / 3…63 / 66…102,
  mask = 2^s − 1, 2·onehalf = 2^s with s = shift resp. shift − 64, trunc + 1 = reciprocal, 2^E < K·10^x1,
  (10^35/10^x1 + 1)·(K·10^x1 − 2^E) < K); then one lemma per regime on the words of the product (`lo_spec`,
  `mid_regime`, `hi_regime`).
-/
import DecProofs.Properties.C01GenAddRound
import DecProofs.Properties.C02GenRound
import DecGen.T_BID_TEN2MK128
import DecGen.T_BID_MASKHIGH128
import DecGen.T_BID_SHIFTRIGHT128
import DecGen.T_BID_ONEHALF128
import DecGen.T_BID_TEN2MK128TRUNC

set_option linter.unusedSimpArgs false
set_option linter.unusedVariables false
set_option exponentiation.threshold 600

namespace Dec.C01GenAddRoundBlock
open Dec Dec.Gen Dec.Rs
open Dec.RH (tw tv)
open Dec.C02RoundHelpers (RowOK allW)
open Dec.C01GenAddRound

/-! ## 1. The rows of the five tables of the inline rounding block of `bid128_add` -/

/-- the shift of row `i` -/
def sh (i : Nat) : Nat := tw BID_SHIFTRIGHT128 1 i 0
/-- the scaling of the reciprocal of row `i`: `TEN2MK128[i] ≈ 2^(128 + shift) / 10^(i+1)` -/
def EA (i : Nat) : Nat := 128 + sh i
/-- the reciprocal and the truncated reciprocal -/
def KA (i : Nat) : Nat := tv BID_TEN2MK128 2 i
def TA (i : Nat) : Nat := tv BID_TEN2MK128TRUNC 2 i

theorem sh_small : ∀ i, i < 34 → sh i < 128 := by decide +kernel

theorem lens : BID_TEN2MK128.length = 68 ∧ BID_TEN2MK128TRUNC.length = 68 ∧ BID_MASKHIGH128.length = 34 ∧
    BID_SHIFTRIGHT128.length = 34 ∧ BID_ONEHALF128.length = 34 := by decide +kernel

theorem wordsOK : allW BID_TEN2MK128 = true ∧ allW BID_TEN2MK128TRUNC = true ∧ allW BID_MASKHIGH128 = true ∧
    allW BID_ONEHALF128 = true := by decide +kernel

/-- rows 0–2 (`ind ≤ 2`): no shift, the fraction is the low 128 bits of the product, one half is `2^127` -/
theorem rows_lo : ∀ i, i < 3 → sh i = 0 ∧ TA i + 1 = KA i ∧ 2 ^ EA i < KA i * 10 ^ (i + 1) ∧
    (10 ^ 35 / 10 ^ (i + 1) + 1) * (KA i * 10 ^ (i + 1) - 2 ^ EA i) < KA i ∧ KA i < 2 ^ 128 := by
  decide +kernel

/-- rows 3–21 (`3 ≤ ind ≤ 0x15`): shift 3…63 inside word 2 of the product -/
theorem rows_mid : ∀ i, i < 22 → 3 ≤ i →
    RowOK (i + 1) (sh i) (tw BID_MASKHIGH128 1 i 0) (tw BID_ONEHALF128 1 i 0) (KA i) (EA i) (TA i) (10 ^ 35) ∧
    KA i < 2 ^ 128 := by
  decide +kernel

/-- rows 22–33 (`ind ≥ 0x16`): shift 66…102, i.e. `shift − 64` inside word 3 of the product -/
theorem rows_hi : ∀ i, i < 34 → 22 ≤ i → 64 ≤ sh i ∧
    RowOK (i + 1) (sh i - 64) (tw BID_MASKHIGH128 1 i 0) (tw BID_ONEHALF128 1 i 0) (KA i) (EA i) (TA i) (10 ^ 35) ∧
    KA i < 2 ^ 128 := by
  decide +kernel

/-! ## 2. Two more facts about the fraction bits (beyond `C02RoundHelpers.core`) -/

/-- with the hypotheses of `core`: an exact quotient (`r = 0`) leaves `f* − 1/2` at least 2 below `K` (so the test
`f* − 1/2 ≥ T*` of the first regime, with `T* = K − 1`, is the same as `> T*`), and at a midpoint `f*` is not zero -/
theorem core_extra (h K E δ C : Nat) (hh : 0 < h) (hK : K * (2 * h) = 2 ^ E + δ) (hδ : 0 < δ) (hE : 1 ≤ E)
    (hb : ((C + h) / (2 * h) + 1) * δ < K) :
    (C % (2 * h) = 0 → ((C + h) * K) % 2 ^ E - 2 ^ (E - 1) + 1 < K) ∧
    (C % (2 * h) = h → 0 < ((C + h) * K) % 2 ^ E) := by
  have hD : 0 < 2 * h := by omega
  obtain ⟨hlo, hhi⟩ := C02RoundHelpers.divmod_add_half C h hh
  have hr := Nat.mod_lt C hD
  have e' := Nat.div_add_mod (C + h) (2 * h)
  have hr' := Nat.mod_lt (C + h) hD
  generalize C / (2 * h) = a at *
  generalize C % (2 * h) = r at *
  generalize ha' : (C + h) / (2 * h) = a' at *
  generalize hr'' : (C + h) % (2 * h) = r' at *
  have hpow : 2 ^ E = 2 * 2 ^ (E - 1) := by
    rw [← Nat.pow_succ']; congr 1; omega
  generalize 2 ^ (E - 1) = half at *
  have hP : (C + h) * K = 2 ^ E * a' + (a' * δ + r' * K) := by
    calc (C + h) * K = (2 * h * a' + r') * K := by rw [e']
      _ = a' * (K * (2 * h)) + r' * K := by
          rw [Nat.add_mul, Nat.mul_comm (2 * h) a', Nat.mul_assoc, Nat.mul_comm (2 * h) K]
      _ = a' * (2 ^ E + δ) + r' * K := by rw [hK]
      _ = 2 ^ E * a' + (a' * δ + r' * K) := by rw [Nat.mul_add, Nat.mul_comm a' (2 ^ E), Nat.add_assoc]
  have hb' : a' * δ + δ < K := by rw [Nat.add_mul, Nat.one_mul] at hb; exact hb
  have hrK : r' * K + K ≤ 2 ^ E + δ := by
    have : (r' + 1) * K ≤ (2 * h) * K := Nat.mul_le_mul_right K hr'
    rw [Nat.add_mul, Nat.one_mul, Nat.mul_comm (2 * h) K, hK] at this
    exact this
  have hX : a' * δ + r' * K < 2 ^ E := by omega
  have hm : (C + h) * K % 2 ^ E = a' * δ + r' * K := by
    rw [hP, Nat.mul_add_mod, Nat.mod_eq_of_lt hX]
  rw [hm]
  have hhK : 2 * (h * K) = 2 * half + δ := by
    rw [← hpow, ← hK, Nat.mul_comm K, Nat.mul_assoc]
  constructor
  · intro h0
    obtain ⟨e1, e2⟩ := hlo (by omega)
    rw [e2, h0, Nat.zero_add]
    generalize a' * δ = A at *
    generalize h * K = HK at *
    omega
  · intro h0
    obtain ⟨e1, e2⟩ := hhi (by omega)
    have : r' = 0 := by omega
    rw [this, Nat.zero_mul, Nat.add_zero]
    exact Nat.mul_pos (by omega) hδ

/-! ## 3. The block on numbers -/

/-- the midpoint the block adds for row `i` (as in `bid_round128_19_38`) -/
abbrev MA (i : Nat) : Nat := C02RoundHelpers.M128 i

/-- what all three regimes share -/
theorem row_common (i : Nat) (hi : i < 34) :
    TA i + 1 = KA i ∧ 2 ^ EA i < KA i * 10 ^ (i + 1) ∧
    (10 ^ 35 / 10 ^ (i + 1) + 1) * (KA i * 10 ^ (i + 1) - 2 ^ EA i) < KA i ∧ KA i < 2 ^ 128 ∧ 2 * MA i = 10 ^ (i + 1) := by
  have hm := (C02RoundHelpers.tbl128 i (by omega)).2.1
  by_cases h3 : i < 3
  · obtain ⟨-, a, b, c, d⟩ := rows_lo i h3
    exact ⟨a, b, c, d, hm⟩
  by_cases h22 : i < 22
  · obtain ⟨⟨-, -, -, -, a, b, c⟩, d⟩ := rows_mid i h22 (by omega)
    exact ⟨a, b, c, d, hm⟩
  · obtain ⟨-, ⟨-, -, -, -, a, b, c⟩, d⟩ := rows_hi i hi (by omega)
    exact ⟨a, b, c, d, hm⟩

/-- **the block on numbers**: `P = (C + midpoint)·K`, `F = P mod 2^E` the fraction, `Hf = 2^(E−1)` one half -/
theorem nat_spec (i C : Nat) (hi : i < 34) (hC : C < 10 ^ 34) :
    ((C + MA i) * KA i) / 2 ^ EA i =
        (if C % 10 ^ (i + 1) < 10 ^ (i + 1) / 2 then C / 10 ^ (i + 1) else C / 10 ^ (i + 1) + 1) ∧
    (2 ^ (EA i - 1) < ((C + MA i) * KA i) % 2 ^ EA i ↔ C % 10 ^ (i + 1) < 10 ^ (i + 1) / 2) ∧
    (C % 10 ^ (i + 1) < 10 ^ (i + 1) / 2 →
      (TA i < ((C + MA i) * KA i) % 2 ^ EA i - 2 ^ (EA i - 1) ↔ 0 < C % 10 ^ (i + 1)) ∧
      (TA i ≤ ((C + MA i) * KA i) % 2 ^ EA i - 2 ^ (EA i - 1) ↔ 0 < C % 10 ^ (i + 1))) ∧
    (((C + MA i) * KA i) % 2 ^ EA i ≤ TA i ↔ C % 10 ^ (i + 1) = 10 ^ (i + 1) / 2) ∧
    (C % 10 ^ (i + 1) = 10 ^ (i + 1) / 2 → 0 < ((C + MA i) * KA i) % 2 ^ EA i) := by
  obtain ⟨hT, hK, hb, -, hM⟩ := row_common i hi
  have hE : 1 ≤ EA i := by unfold EA; omega
  have hh : 0 < MA i := by
    have : 0 < 10 ^ (i + 1) := Nat.pow_pos (by decide)
    omega
  have hh2 : 10 ^ (i + 1) / 2 = MA i := by omega
  have hMle : MA i ≤ 10 ^ 34 := by
    have : 10 ^ (i + 1) ≤ 10 ^ 34 := Nat.pow_le_pow_right (by decide) (by omega)
    omega
  have hb' : ((C + MA i) / (2 * MA i) + 1) * (KA i * (2 * MA i) - 2 ^ EA i) < KA i := by
    rw [hM]
    have : (C + MA i) / 10 ^ (i + 1) ≤ 10 ^ 35 / 10 ^ (i + 1) := Nat.div_le_div_right (by omega)
    calc ((C + MA i) / 10 ^ (i + 1) + 1) * (KA i * 10 ^ (i + 1) - 2 ^ EA i)
        ≤ (10 ^ 35 / 10 ^ (i + 1) + 1) * (KA i * 10 ^ (i + 1) - 2 ^ EA i) := Nat.mul_le_mul_right _ (by omega)
      _ < KA i := hb
  have hKd : KA i * (2 * MA i) = 2 ^ EA i + (KA i * (2 * MA i) - 2 ^ EA i) := by rw [hM]; omega
  have hδ : 0 < KA i * (2 * MA i) - 2 ^ EA i := by rw [hM]; omega
  obtain ⟨c1, c2, c3, c4, -⟩ := C02RoundHelpers.core (MA i) (KA i) (EA i) _ C hh hKd hδ hE hb'
  obtain ⟨x1, x2⟩ := core_extra (MA i) (KA i) (EA i) _ C hh hKd hδ hE hb'
  rw [hM] at c1 c2 c3 c4 x1 x2
  rw [hh2]
  have hTK : TA i = KA i - 1 := by omega
  refine ⟨c1, c2, ?_, by rw [hTK]; exact c4, x2⟩
  intro hlt
  have c3' := c3 hlt
  rw [← hTK] at c3'
  refine ⟨c3', ?_⟩
  constructor
  · intro hle
    rcases Nat.eq_zero_or_pos (C % 10 ^ (i + 1)) with h0 | h0
    · have := x1 h0; omega
    · exact h0
  · intro h0
    exact Nat.le_of_lt (c3'.2 h0)

/-! ## 4. Word-level transfer -/

theorem tblI32_ok (t : List Nat) (i : Nat) (h : i < t.length) (hi : i < 2 ^ 64) (hv : tw t 1 i 0 < 2 ^ 31) :
    ∃ s : Int32, tblI32 t (UInt64.ofNat i) = .ok s ∧ s.toInt = (tw t 1 i 0 : Nat) := by
  unfold tblI32 tw at *
  have : (UInt64.ofNat i).toNat = i := by rw [UInt64.toNat_ofNat']; omega
  rw [this, List.getElem?_eq_getElem h]
  have hg : t.getD (i * 1 + 0) 0 = t[i] := by simp [List.getD_eq_getElem?_getD, List.getElem?_eq_getElem h]
  rw [hg] at hv ⊢
  refine ⟨_, rfl, ?_⟩
  generalize t[i] = v at *
  have h1 : (UInt64.ofNat v).toInt64.toInt = v := by
    show (UInt64.ofNat v).toBitVec.toInt = v
    rw [BitVec.toInt_eq_toNat_cond]
    have : (UInt64.ofNat v).toBitVec.toNat = v := by
      show (UInt64.ofNat v).toNat = v
      rw [UInt64.toNat_ofNat', Nat.mod_eq_of_lt (by omega)]
    rw [this]; split <;> omega
  rw [h1, Int32.toInt_ofInt_of_le (by omega) (by omega)]

/-- the shift amount as a `u64` -/
theorem shamt (s : Int32) (n : Nat) (h : s.toInt = n) : (UInt64.ofInt (toI s)).toNat = n := by
  have := s.toInt_lt
  show (UInt64.ofInt s.toInt).toNat = n
  rw [h]
  have : UInt64.ofInt (n : Int) = UInt64.ofNat n := C02GenRound.ofInt_natCast n
  rw [this, UInt64.toNat_ofNat', Nat.mod_eq_of_lt (by omega)]

theorem ofNat_word (t : List Nat) (hw : allW t = true) (k i j : Nat) : (UInt64.ofNat (tw t k i j)).toNat = tw t k i j := by
  rw [UInt64.toNat_ofNat']; exact Nat.mod_eq_of_lt (C02RoundHelpers.tw_lt hw k i j)

theorem M_le (i : Nat) (hi : i ≤ 32) : 2 * C02RoundHelpers.M128 i = 10 ^ (i + 1) ∧ C02RoundHelpers.M128 i ≤ 10 ^ 33 := by
  have hm := (C02RoundHelpers.tbl128 i (by omega)).2.1
  have : 10 ^ (i + 1) ≤ 10 ^ 33 := Nat.pow_le_pow_right (by decide) (by omega)
  exact ⟨hm, by omega⟩

/-- `C2 + midpoint` as the code forms it -/
theorem rbC2_val (ind : Nat) (hind : ind ≤ 32) (bh bl : UInt64) (hC : bh.toNat * 2 ^ 64 + bl.toNat < 10 ^ 34) :
    (rbC2 ind bh bl (UInt64.ofNat (tw BID_MIDPOINT64 1 ind 0))
        ⟨UInt64.ofNat (tw BID_MIDPOINT128 2 (ind - 19) 0), UInt64.ofNat (tw BID_MIDPOINT128 2 (ind - 19) 1)⟩).toNat'
      = bh.toNat * 2 ^ 64 + bl.toNat + C02RoundHelpers.M128 ind := by
  obtain ⟨-, hM⟩ := M_le ind hind
  have b0 := bl.toNat_lt
  unfold rbC2 C02RoundHelpers.M128 at *
  by_cases h18 : ind ≤ 18
  · rw [if_pos h18] at hM ⊢
    have hm := ofNat_word BID_MIDPOINT64 C02RoundHelpers.w_MIDPOINT64 1 ind 0
    generalize UInt64.ofNat (tw BID_MIDPOINT64 1 ind 0) = m at *
    generalize tw BID_MIDPOINT64 1 ind 0 = mv at *
    have m0 := m.toNat_lt
    simp only [Rs.U128.toNat', decide_eq_true_eq, UInt64.lt_iff_toNat_lt, UInt64.toNat_add]
    split
    · rw [UInt64.toNat_add, UInt64.toNat_one]; omega
    · omega
  · rw [if_neg h18] at hM ⊢
    rw [C02RoundHelpers.tv2] at hM ⊢
    have hm0 := ofNat_word BID_MIDPOINT128 C02RoundHelpers.w_MIDPOINT128 2 (ind - 19) 0
    have hm1 := ofNat_word BID_MIDPOINT128 C02RoundHelpers.w_MIDPOINT128 2 (ind - 19) 1
    generalize UInt64.ofNat (tw BID_MIDPOINT128 2 (ind - 19) 0) = m0 at *
    generalize UInt64.ofNat (tw BID_MIDPOINT128 2 (ind - 19) 1) = m1 at *
    generalize tw BID_MIDPOINT128 2 (ind - 19) 0 = v0 at *
    generalize tw BID_MIDPOINT128 2 (ind - 19) 1 = v1 at *
    have a0 := m0.toNat_lt
    simp only [Rs.U128.toNat', decide_eq_true_eq, UInt64.lt_iff_toNat_lt, UInt64.toNat_add]
    split
    · rw [UInt64.toNat_add, UInt64.toNat_add, UInt64.toNat_one]; omega
    · rw [UInt64.toNat_add]; omega

/-! ## 5. The three regimes, on the words of the product -/

theorem u64_sub_toNat (a b : UInt64) (h : b.toNat ≤ a.toNat) : (a - b).toNat = a.toNat - b.toNat := by
  have := a.toNat_lt
  rw [UInt64.toNat_sub]; omega

/-- the midpoint test, for any `highf2star` value `H` (in units of `2^128`) -/
theorem mid_spec (R : U256) (hf tr : U128) (F : Nat)
    (hF : F = R.w0.toNat + 2 ^ 64 * R.w1.toNat + 2 ^ 128 * (hf.w0.toNat + 2 ^ 64 * hf.w1.toNat)) :
    rbMid R hf tr = decide (0 < F ∧ F ≤ tr.toNat') := by
  have a0 := R.w0.toNat_lt; have a1 := R.w1.toNat_lt; have t0 := tr.w0.toNat_lt; have t1 := tr.w1.toNat_lt
  unfold rbMid
  rw [Bool.eq_iff_iff, decide_eq_true_eq]
  simp only [Bool.and_eq_true, Bool.or_eq_true, bne_iff_ne, ne_eq, beq_iff_eq, decide_eq_true_eq, ← UInt64.toNat_inj,
    UInt64.lt_iff_toNat_lt, UInt64.le_iff_toNat_le, UInt64.toNat_zero, Rs.U128.toNat']
  subst hF
  have h0 := hf.w0.toNat_lt; have h1 := hf.w1.toNat_lt
  omega

theorem lo_spec (ind : Nat) (h2 : ind ≤ 2) (R : U256) (tr : U128) (mask oh : UInt64) (sh : Int32) :
    (rbQ ind R sh).2.toNat * 2 ^ 64 + (rbQ ind R sh).1.toNat = R.toNat' / 2 ^ 128 ∧
    rbGtHalf ind R (rbHf ind R mask) oh = decide (2 ^ 127 < R.toNat' % 2 ^ 128) ∧
    (2 ^ 127 < R.toNat' % 2 ^ 128 →
      rbGtT ind R (rbHf ind R mask) oh tr = decide (tr.toNat' ≤ R.toNat' % 2 ^ 128 - 2 ^ 127)) ∧
    rbMid R (rbHf ind R mask) tr = decide (0 < R.toNat' % 2 ^ 128 ∧ R.toNat' % 2 ^ 128 ≤ tr.toNat') := by
  have a0 := R.w0.toNat_lt; have a1 := R.w1.toNat_lt; have a2 := R.w2.toNat_lt; have a3 := R.w3.toNat_lt
  have t0 := tr.w0.toNat_lt; have t1 := tr.w1.toNat_lt
  have hlow : R.toNat' % 2 ^ 128 = R.w0.toNat + 2 ^ 64 * R.w1.toNat := by unfold Rs.U256.toNat'; omega
  have hhf : rbHf ind R mask = ⟨0, 0⟩ := by unfold rbHf; rw [if_pos h2]
  refine ⟨?_, ?_, ?_, ?_⟩
  · unfold rbQ; rw [if_neg (by omega)]
    show R.w3.toNat * 2 ^ 64 + R.w2.toNat = _
    unfold Rs.U256.toNat'; omega
  · unfold rbGtHalf; rw [if_pos h2, hlow, Bool.eq_iff_iff, decide_eq_true_eq]
    simp only [Bool.and_eq_true, Bool.or_eq_true, beq_iff_eq, decide_eq_true_eq, ← UInt64.toNat_inj, gt_iff_lt,
      UInt64.lt_iff_toNat_lt, UInt64.toNat_zero, show (0x8000000000000000 : UInt64).toNat = 2 ^ 63 from rfl]
    omega
  · intro hgt
    rw [hlow] at hgt ⊢
    have c63 : (0x8000000000000000 : UInt64).toNat = 2 ^ 63 := rfl
    have h63 : (0x8000000000000000 : UInt64).toNat ≤ R.w1.toNat := by omega
    unfold rbGtT; rw [if_pos h2, Bool.eq_iff_iff, decide_eq_true_eq]
    simp only [Bool.and_eq_true, Bool.or_eq_true, beq_iff_eq, decide_eq_true_eq, ← UInt64.toNat_inj, gt_iff_lt, ge_iff_le,
      UInt64.lt_iff_toNat_lt, UInt64.le_iff_toNat_le, u64_sub_toNat _ _ h63,
      show (0x8000000000000000 : UInt64).toNat = 2 ^ 63 from rfl, Rs.U128.toNat']
    omega
  · rw [hhf, mid_spec R ⟨0, 0⟩ tr (R.toNat' % 2 ^ 128) (by rw [hlow]; simp)]

theorem shr_or_word (lo hi ka kb : UInt64) (n : Nat) (hn1 : 1 ≤ n) (hn : n ≤ 63) (hka : ka.toNat = n)
    (hkb : kb.toNat = 64 - n) :
    ((lo >>> ka) ||| (hi <<< kb)).toNat + 2 ^ 64 * (hi >>> ka).toNat = (lo.toNat + 2 ^ 64 * hi.toNat) / 2 ^ n := by
  obtain ⟨e, l⟩ := @C01ArithHelpers.shr_pair lo.toNat hi.toNat n lo.toNat_lt hn1 hn
  rw [UInt64.toNat_or, UInt64.toNat_shiftRight, UInt64.toNat_shiftLeft, UInt64.toNat_shiftRight, hka, hkb,
    Nat.mod_eq_of_lt (by omega : n < 64), Nat.mod_eq_of_lt (by omega : 64 - n < 64), Nat.shiftRight_eq_div_pow,
    Nat.shiftLeft_eq, Nat.shiftRight_eq_div_pow]
  rw [C01GenArith.W1] at e l
  exact e

theorem i32_sub_small (a b : Int32) (x y : Nat) (ha : a.toInt = x) (hb : b.toInt = y) (hy : y ≤ x) (hx : x < 2 ^ 30) :
    (a - b).toInt = ((x - y : Nat) : Int) := by
  rw [Int32.toInt_sub, ha, hb, Int.bmod_def]; split <;> omega

theorem mid_regime (ind : Nat) (h3 : 3 ≤ ind) (h21 : ind ≤ 21) (R : U256) (tr : U128) (mask oh : UInt64) (sh : Int32)
    (s : Nat) (hs1 : 1 ≤ s) (hs : s ≤ 63) (hsh : sh.toInt = s) (hmask : mask.toNat = 2 ^ s - 1)
    (hoh : 2 * oh.toNat = 2 ^ s) :
    (rbQ ind R sh).2.toNat * 2 ^ 64 + (rbQ ind R sh).1.toNat = R.toNat' / 2 ^ (128 + s) ∧
    rbGtHalf ind R (rbHf ind R mask) oh = decide (2 ^ (128 + s - 1) < R.toNat' % 2 ^ (128 + s)) ∧
    (2 ^ (128 + s - 1) < R.toNat' % 2 ^ (128 + s) →
      rbGtT ind R (rbHf ind R mask) oh tr = decide (tr.toNat' < R.toNat' % 2 ^ (128 + s) - 2 ^ (128 + s - 1))) ∧
    rbMid R (rbHf ind R mask) tr = decide (0 < R.toNat' % 2 ^ (128 + s) ∧ R.toNat' % 2 ^ (128 + s) ≤ tr.toNat') := by
  have a0 := R.w0.toNat_lt; have a1 := R.w1.toNat_lt; have a2 := R.w2.toNat_lt; have a3 := R.w3.toNat_lt
  have t0 := tr.w0.toNat_lt; have t1 := tr.w1.toNat_lt
  have hhf : rbHf ind R mask = ⟨R.w2 &&& mask, 0⟩ := by unfold rbHf; rw [if_neg (by omega), if_pos h21]
  have hfw : (R.w2 &&& mask).toNat = R.w2.toNat % 2 ^ s := by
    rw [UInt64.toNat_and, hmask, Nat.and_two_pow_sub_one_eq_mod]
  -- powers
  obtain ⟨A, hA⟩ : ∃ A, A = 2 ^ s := ⟨_, rfl⟩
  have hA0 : 0 < A := by rw [hA]; exact Nat.pow_pos (by decide)
  have hAB : 2 ^ 64 = A * 2 ^ (64 - s) := by rw [hA, ← Nat.pow_add]; congr 1; omega
  have hE : 2 ^ (128 + s) = 2 ^ 128 * A := by rw [hA, Nat.pow_add]
  have hE1 : 2 ^ (128 + s - 1) = 2 ^ 128 * oh.toNat := by
    have : 2 * 2 ^ (128 + s - 1) = 2 ^ (128 + s) := by
      rw [← Nat.pow_succ']; congr 1; omega
    omega
  have hdiv : R.toNat' / 2 ^ 128 = R.w2.toNat + 2 ^ 64 * R.w3.toNat := by unfold Rs.U256.toNat'; omega
  have hlow : R.toNat' % 2 ^ 128 = R.w0.toNat + 2 ^ 64 * R.w1.toNat := by unfold Rs.U256.toNat'; omega
  have hF : R.toNat' % 2 ^ (128 + s) = R.w0.toNat + 2 ^ 64 * R.w1.toNat + 2 ^ 128 * (R.w2.toNat % A) := by
    have : (R.w2.toNat + 2 ^ 64 * R.w3.toNat) % A = R.w2.toNat % A := by
      rw [hAB, Nat.mul_assoc, Nat.add_mul_mod_self_left]
    rw [C02RoundHelpers.modsplit, hlow, hdiv, ← hA, this]
  have hfl : R.w2.toNat % A < A := Nat.mod_lt _ hA0
  rw [← hA] at hfw hoh
  refine ⟨?_, ?_, ?_, ?_⟩
  · unfold rbQ
    rw [if_pos h3, if_pos (by rw [decide_eq_true_eq, Int32.lt_iff_toInt_lt, hsh]; show (s : Int) < 64; omega)]
    have k1 := C01GenAddRoundBlock.shamt sh s hsh
    have k2 := C01GenAddRoundBlock.shamt ((0x40 : Int32) - sh) (64 - s)
      (i32_sub_small _ _ 64 s rfl hsh (by omega) (by norm_num))
    have := shr_or_word R.w2 R.w3 _ _ s hs1 hs k1 k2
    show (R.w3 >>> _).toNat * 2 ^ 64 + ((R.w2 >>> _) ||| (R.w3 <<< _)).toNat = _
    rw [Nat.pow_add, ← Nat.div_div_eq_div_mul, hdiv]
    omega
  · rw [Bool.eq_iff_iff, decide_eq_true_eq, hhf, hF, hE1]
    unfold rbGtHalf; rw [if_neg (by omega), if_pos h21]
    simp only [Bool.and_eq_true, Bool.or_eq_true, bne_iff_ne, ne_eq, beq_iff_eq, decide_eq_true_eq, ← UInt64.toNat_inj,
      gt_iff_lt, UInt64.lt_iff_toNat_lt, UInt64.toNat_zero, hfw, Nat.lt_irrefl, false_or, true_and]
    generalize R.w2.toNat % A = g at *
    omega
  · intro hgt
    rw [hF, hE1] at hgt
    rw [Bool.eq_iff_iff, decide_eq_true_eq, hF, hE1, hhf]
    have hge : oh.toNat ≤ (R.w2 &&& mask).toNat := by
      rw [hfw]; generalize R.w2.toNat % A = g at *; omega
    have hcond : ¬ (decide ((R.w2 &&& mask) - oh > (R.w2 &&& mask)) = true) := by
      rw [decide_eq_true_eq, gt_iff_lt, UInt64.lt_iff_toNat_lt, u64_sub_toNat _ _ hge]; omega
    unfold rbGtT; rw [if_neg (by omega), if_pos h21]
    dsimp only
    rw [if_neg hcond]
    simp only [Bool.and_eq_true, Bool.or_eq_true, bne_iff_ne, ne_eq, beq_iff_eq, decide_eq_true_eq,
      ← UInt64.toNat_inj, gt_iff_lt, UInt64.lt_iff_toNat_lt, UInt64.toNat_zero, u64_sub_toNat _ _ hge,
      Rs.U128.toNat', not_true_eq_false, false_or]
    rw [hfw] at hge ⊢
    generalize R.w2.toNat % A = g at *
    omega
  · rw [hhf, mid_spec R ⟨R.w2 &&& mask, 0⟩ tr (R.toNat' % 2 ^ (128 + s)) (by rw [hF, hfw]; simp)]

theorem hi_regime (ind : Nat) (h22 : 22 ≤ ind) (R : U256) (tr : U128) (mask oh : UInt64) (sh : Int32)
    (s : Nat) (hs1 : 1 ≤ s) (hs : s ≤ 63) (hsh : sh.toInt = ((64 + s : Nat) : Int)) (hmask : mask.toNat = 2 ^ s - 1)
    (hoh : 2 * oh.toNat = 2 ^ s) :
    (rbQ ind R sh).2.toNat * 2 ^ 64 + (rbQ ind R sh).1.toNat = R.toNat' / 2 ^ (192 + s) ∧
    rbGtHalf ind R (rbHf ind R mask) oh = decide (2 ^ (192 + s - 1) < R.toNat' % 2 ^ (192 + s)) ∧
    (2 ^ (192 + s - 1) < R.toNat' % 2 ^ (192 + s) →
      rbGtT ind R (rbHf ind R mask) oh tr = decide (tr.toNat' < R.toNat' % 2 ^ (192 + s) - 2 ^ (192 + s - 1))) ∧
    rbMid R (rbHf ind R mask) tr = decide (0 < R.toNat' % 2 ^ (192 + s) ∧ R.toNat' % 2 ^ (192 + s) ≤ tr.toNat') := by
  have a0 := R.w0.toNat_lt; have a1 := R.w1.toNat_lt; have a2 := R.w2.toNat_lt; have a3 := R.w3.toNat_lt
  have t0 := tr.w0.toNat_lt; have t1 := tr.w1.toNat_lt
  have hhf : rbHf ind R mask = ⟨R.w2, R.w3 &&& mask⟩ := by unfold rbHf; rw [if_neg (by omega), if_neg (by omega)]
  have hfw : (R.w3 &&& mask).toNat = R.w3.toNat % 2 ^ s := by
    rw [UInt64.toNat_and, hmask, Nat.and_two_pow_sub_one_eq_mod]
  obtain ⟨A, hA⟩ : ∃ A, A = 2 ^ s := ⟨_, rfl⟩
  have hA0 : 0 < A := by rw [hA]; exact Nat.pow_pos (by decide)
  have hE1 : 2 ^ (192 + s - 1) = 2 ^ 192 * oh.toNat := by
    have : 2 * 2 ^ (192 + s - 1) = 2 ^ (192 + s) := by
      rw [← Nat.pow_succ']; congr 1; omega
    rw [Nat.pow_add] at this
    omega
  have hdiv : R.toNat' / 2 ^ 192 = R.w3.toNat := by unfold Rs.U256.toNat'; omega
  have hlow : R.toNat' % 2 ^ 192 = R.w0.toNat + 2 ^ 64 * R.w1.toNat + 2 ^ 128 * R.w2.toNat := by
    unfold Rs.U256.toNat'; omega
  have hF : R.toNat' % 2 ^ (192 + s) =
      R.w0.toNat + 2 ^ 64 * R.w1.toNat + 2 ^ 128 * (R.w2.toNat + 2 ^ 64 * (R.w3.toNat % A)) := by
    rw [C02RoundHelpers.modsplit, hlow, hdiv, ← hA]; omega
  have hfl : R.w3.toNat % A < A := Nat.mod_lt _ hA0
  rw [← hA] at hfw hoh
  refine ⟨?_, ?_, ?_, ?_⟩
  · unfold rbQ
    rw [if_pos (by omega), if_neg (by rw [decide_eq_true_eq, Int32.lt_iff_toInt_lt, hsh]; show ¬ ((64 + s : Nat) : Int) < 64; omega)]
    have k1 := C01GenAddRoundBlock.shamt (sh - (0x40 : Int32)) s (by
      have := i32_sub_small sh (0x40 : Int32) (64 + s) 64 hsh rfl (by omega) (by omega)
      rw [this]; congr 1; omega)
    show (0 : UInt64).toNat * 2 ^ 64 + (R.w3 >>> _).toNat = _
    rw [UInt64.toNat_shiftRight, k1, Nat.mod_eq_of_lt (by omega : s < 64), Nat.shiftRight_eq_div_pow, Nat.pow_add,
      ← Nat.div_div_eq_div_mul, hdiv]
    simp
  · rw [Bool.eq_iff_iff, decide_eq_true_eq, hhf, hF, hE1]
    unfold rbGtHalf; rw [if_neg (by omega), if_neg (by omega)]
    simp only [Bool.and_eq_true, Bool.or_eq_true, bne_iff_ne, ne_eq, beq_iff_eq, decide_eq_true_eq, ← UInt64.toNat_inj,
      gt_iff_lt, UInt64.lt_iff_toNat_lt, UInt64.toNat_zero, hfw]
    generalize R.w3.toNat % A = g at *
    omega
  · intro hgt
    rw [hF, hE1] at hgt
    rw [Bool.eq_iff_iff, decide_eq_true_eq, hF, hE1, hhf]
    have hge : oh.toNat ≤ (R.w3 &&& mask).toNat := by
      rw [hfw]; generalize R.w3.toNat % A = g at *; omega
    unfold rbGtT; rw [if_neg (by omega), if_neg (by omega)]
    dsimp only
    simp only [Bool.and_eq_true, Bool.or_eq_true, bne_iff_ne, ne_eq, beq_iff_eq, decide_eq_true_eq,
      ← UInt64.toNat_inj, gt_iff_lt, UInt64.lt_iff_toNat_lt, UInt64.toNat_zero, u64_sub_toNat _ _ hge,
      Rs.U128.toNat']
    rw [hfw] at hge ⊢
    generalize R.w3.toNat % A = g at *
    omega
  · rw [hhf, mid_spec R ⟨R.w2, R.w3 &&& mask⟩ tr (R.toNat' % 2 ^ (192 + s)) (by rw [hF, hfw])]


/-! ## 6. The specification -/

/-- `nat_spec` with the product and the truncated reciprocal as parameters -/
theorem nat_spec' (i C P T : Nat) (hi : i < 34) (hC : C < 10 ^ 34) (hP : P = (C + MA i) * KA i) (hT : T = TA i) :
    P / 2 ^ EA i = (if C % 10 ^ (i + 1) < 10 ^ (i + 1) / 2 then C / 10 ^ (i + 1) else C / 10 ^ (i + 1) + 1) ∧
    (2 ^ (EA i - 1) < P % 2 ^ EA i ↔ C % 10 ^ (i + 1) < 10 ^ (i + 1) / 2) ∧
    (C % 10 ^ (i + 1) < 10 ^ (i + 1) / 2 →
      (T < P % 2 ^ EA i - 2 ^ (EA i - 1) ↔ 0 < C % 10 ^ (i + 1)) ∧
      (T ≤ P % 2 ^ EA i - 2 ^ (EA i - 1) ↔ 0 < C % 10 ^ (i + 1))) ∧
    ((0 < P % 2 ^ EA i ∧ P % 2 ^ EA i ≤ T) ↔ C % 10 ^ (i + 1) = 10 ^ (i + 1) / 2) := by
  subst hP hT
  obtain ⟨n1, n2, n3, n4, n5⟩ := nat_spec i C hi hC
  exact ⟨n1, n2, n3, ⟨fun h => n4.1 h.2, fun h => ⟨n5 h, n4.2 h⟩⟩⟩

theorem K_val (t : List Nat) (hw : allW t = true) (i : Nat) :
    (⟨UInt64.ofNat (tw t 2 i 0), UInt64.ofNat (tw t 2 i 1)⟩ : U128).toNat' = tv t 2 i := by
  unfold Rs.U128.toNat'
  rw [ofNat_word t hw, ofNat_word t hw, C02RoundHelpers.tv2]

theorem dec_congr {p q : Prop} [Decidable p] [Decidable q] (h : p ↔ q) : decide p = decide q := by
  rw [Bool.eq_iff_iff, decide_eq_true_eq, decide_eq_true_eq]; exact h

/-- **the inline rounding block of `bid128_add`** -/
theorem roundBlockSpec : RoundBlockSpec := by
  intro bh bl ind hind hC
  obtain ⟨l1, l2, l3, l4, l5⟩ := lens
  obtain ⟨w1, w2, w3, w4⟩ := wordsOK
  have hi34 : ind < 34 := by omega
  have h64 : ind < 2 ^ 64 := by omega
  obtain ⟨shv, hshr, hshv⟩ := tblI32_ok BID_SHIFTRIGHT128 ind (by rw [l4]; exact hi34) h64
    (by have := sh_small ind hi34; unfold sh at this; omega)
  refine ⟨UInt64.ofNat (tw BID_MIDPOINT64 1 ind 0),
    ⟨UInt64.ofNat (tw BID_MIDPOINT128 2 (ind - 19) 0), UInt64.ofNat (tw BID_MIDPOINT128 2 (ind - 19) 1)⟩,
    ⟨UInt64.ofNat (tw BID_TEN2MK128 2 ind 0), UInt64.ofNat (tw BID_TEN2MK128 2 ind 1)⟩,
    ⟨UInt64.ofNat (tw BID_TEN2MK128TRUNC 2 ind 0), UInt64.ofNat (tw BID_TEN2MK128TRUNC 2 ind 1)⟩,
    UInt64.ofNat (tw BID_MASKHIGH128 1 ind 0), UInt64.ofNat (tw BID_ONEHALF128 1 ind 0), shv,
    fun h => C02GenRound.tbl64_ok _ _ (by have : BID_MIDPOINT64.length = 19 := by decide +kernel
                                          omega) h64,
    fun h => C02GenRound.tbl128_ok _ _ (by have : BID_MIDPOINT128.length = 38 := by decide +kernel
                                           omega) (by omega),
    C02GenRound.tbl128_ok _ _ (by omega) h64, C02GenRound.tbl128_ok _ _ (by omega) h64,
    fun _ => C02GenRound.tbl64_ok _ _ (by omega) h64, fun _ => hshr,
    fun _ => C02GenRound.tbl64_ok _ _ (by omega) h64, ?_⟩
  intro R hR
  rw [rbC2_val ind hind bh bl hC, K_val _ w1] at hR
  have hT := K_val BID_TEN2MK128TRUNC w2 ind
  generalize (⟨UInt64.ofNat (tw BID_TEN2MK128TRUNC 2 ind 0), UInt64.ofNat (tw BID_TEN2MK128TRUNC 2 ind 1)⟩ : U128) = tr at *
  have hmask := ofNat_word BID_MASKHIGH128 w3 1 ind 0
  have hoh := ofNat_word BID_ONEHALF128 w4 1 ind 0
  generalize UInt64.ofNat (tw BID_MASKHIGH128 1 ind 0) = mask at *
  generalize UInt64.ofNat (tw BID_ONEHALF128 1 ind 0) = oh at *
  obtain ⟨n1, n2, n3, hmidq⟩ := nat_spec' ind (bh.toNat * 2 ^ 64 + bl.toNat) R.toNat' tr.toNat' hi34 hC hR hT
  by_cases h2 : ind ≤ 2
  · obtain ⟨hs0, -⟩ := rows_lo ind (by omega)
    have hE : EA ind = 128 := by unfold EA; rw [hs0]
    rw [hE] at n1 n2 n3 hmidq
    obtain ⟨q1, q2, q3, q4⟩ := lo_spec ind h2 R tr mask oh shv
    refine ⟨by rw [q1, n1], by rw [q2]; exact dec_congr n2, fun hlt => ?_, by rw [q4]; exact dec_congr hmidq⟩
    rw [q3 (n2.2 hlt)]; exact dec_congr (n3 hlt).2
  by_cases h21 : ind ≤ 21
  · obtain ⟨⟨s1, s2, hm, ho, -⟩, -⟩ := rows_mid ind (by omega) (by omega)
    have hE : EA ind = 128 + sh ind := rfl
    rw [hE] at n1 n2 n3 hmidq
    obtain ⟨q1, q2, q3, q4⟩ := mid_regime ind (by omega) h21 R tr mask oh shv (sh ind) s1 s2 hshv
      (by rw [hmask]; exact hm) (by rw [hoh]; exact ho)
    refine ⟨by rw [q1, n1], by rw [q2]; exact dec_congr n2, fun hlt => ?_, by rw [q4]; exact dec_congr hmidq⟩
    rw [q3 (n2.2 hlt)]; exact dec_congr (n3 hlt).1
  · obtain ⟨h64', ⟨s1, s2, hm, ho, -⟩, -⟩ := rows_hi ind hi34 (by omega)
    have hE : EA ind = 192 + (sh ind - 64) := by unfold EA; omega
    rw [hE] at n1 n2 n3 hmidq
    obtain ⟨q1, q2, q3, q4⟩ := hi_regime ind (by omega) R tr mask oh shv (sh ind - 64) s1 s2
      (by rw [hshv]; congr 1; unfold sh at h64' ⊢; omega)
      (by rw [hmask]; exact hm) (by rw [hoh]; exact ho)
    refine ⟨by rw [q1, n1], by rw [q2]; exact dec_congr n2, fun hlt => ?_, by rw [q4]; exact dec_congr hmidq⟩
    rw [q3 (n2.2 hlt)]; exact dec_congr (n3 hlt).1

-- concrete inputs: the rows 0, 5, 25 (one per regime), and the block on C = 12345, 2 digits removed … 5 digits removed
example : sh 0 = 0 ∧ sh 5 = 9 ∧ sh 25 = 0x4c ∧ tw BID_MASKHIGH128 1 5 0 = 2 ^ 9 - 1 ∧ 2 * tw BID_ONEHALF128 1 25 0 = 2 ^ (0x4c - 64) ∧
    TA 5 + 1 = KA 5 := by decide +kernel
example : ((12345 + MA 1) * KA 1) / 2 ^ EA 1 = 123 ∧ ((12350 + MA 1) * KA 1) / 2 ^ EA 1 = 124 ∧
    ((12350 + MA 1) * KA 1) % 2 ^ EA 1 ≤ TA 1 ∧ ((12345 + MA 4) * KA 4) / 2 ^ EA 4 = 0 := by decide +kernel
example := roundBlockSpec 0 12345 1 (by decide) (by decide)
example := (nat_spec 1 12350 (by decide) (by decide)).2.2.2.1   -- the midpoint test at r = 50 = D/2
example : rbQ 1 ⟨0, 0, 124, 0⟩ 0 = (124, 0) := by decide

/-- the same under the name the coordinator asked for -/
theorem round_block_spec : RoundBlockSpec := roundBlockSpec

end Dec.C01GenAddRoundBlock
