/-
  C01 (generated-code level): the decoded-level wrapping of the two open arms of the rounding loop of `bid128_add` and the
  final assembly.

  `Dec.C01GenAddRound.LoopRestRounding` (the only named hypothesis left in C01) splits, by the signs, into
    arm (A) `ArmACond`: same signs and the padded first coefficient plus the rounded second one may reach 10^34
                        (`ArmARounding`, a `Prop` at the decoded level — proved by hkPack in C01GenAddLoop35.lean);
    arm (B) `ArmBCond`: opposite signs and the padded first coefficient minus the rounded second one may fall to 10^33 + 1
                        or below (`Dec.C01GenAddLoopB.LoopBCodeSpec`, a `Prop` at word level — proved by hkRound in
                        C01GenAddLoopB.lean).
  Here:  `add_loopB_core`, `add_loopB` (arm (B) at the decoded level from `LoopBCodeSpec`, as `add_loop1_core` / `add_loop1`
  of C01GenAddRound.lean §7–§8);  `rest_cases` (pure logic: `LoopRegion ∧ ¬ Loop1Region ⇒ ArmA ∨ ArmB`);
  `loop_rest_of_arms (HA : ArmARounding) (HB : LoopBCodeSpec) : LoopRestRounding`;  the headlines
  `bid128_add_spec_all (HA) (HB)` and `bid128_sub_spec_all (HA) (HB)`: `bid128_add` / `bid128_sub` = `addD` / `subD` for all
  inputs (NaNs included), all five modes, datum and flags.
  Findings: none (no code is stepped through in this file).
-/
import DecProofs.Properties.C01GenAddLoopB
import DecProofs.Properties.C01GenAddRoundClosed
import DecProofs.Properties.C01GenAddLoop35

namespace Dec.C01GenAddLoopB2
open Dec.Rs Dec.Gen.Code Dec.C06GenFromInt Dec.C01GenAdd Dec.C01GenAddLoop Dec.C01GenAddRound
open Dec.C13GenPack (md)
open Dec.C01GenAddLoopB (LoopBCodeSpec)
open Dec.C01GenAddRoundClosed
set_option linter.unusedVariables false

/-! ## 1. Arm (B) at the decoded level, operands in the code's order -/

/-- **arm (B), operands ordered**: opposite signs, `34 − q_b < delta < 34`, outside `Loop1Cond` -/
theorem add_loopB_core (HB : LoopBCodeSpec) (x y a b : U128) (m : RoundingMode) (f : UInt32) (hab : Ordered x y a b)
    {sA sB : Bool} {cA cB : Nat} {eA eB : Int}
    (ha : decode (bitsOf a) = .fin sA cA eA) (hb : decode (bitsOf b) = .fin sB cB eB) (hcA : cA ≠ 0) (hcB : cB ≠ 0)
    (hlo : 34 < (ndigits cA : Int) + eA - eB) (hhi : (ndigits cA : Int) + eA - ndigits cB - eB < 34)
    (hsne : ¬ sA = sB)
    (hdomB : ¬ (10^33 + cB / 10 ^ ((ndigits cA : Int) + eA - eB - 34).toNat + 1 < cA * 10 ^ (34 - ndigits cA))) :
    bid128_add x y m f =
      .ok (ofBits (encode (addFin (md m) sA cA eA sB cB eB (if eA ≤ eB then eA else eB)).1),
           f ||| UInt32.ofNat (addFin (md m) sA cA eA sB cB eB (if eA ≤ eB then eA else eB)).2) := by
  obtain ⟨ha1, hac, haP, hae, halo, hahi, has, -⟩ := fin_view a ha
  obtain ⟨hb1, hbc, hbP, hbe, hblo, hbhi, hbs, -⟩ := fin_view b hb
  have hcA0 : 0 < cA := Nat.pos_of_ne_zero hcA
  have hcB0 : 0 < cB := Nat.pos_of_ne_zero hcB
  have ha0 := nonzero_words hac hcA
  have hb0 := nonzero_words hbc hcB
  have hQA1 := ndigits_pos hcA0
  have hQB1 := ndigits_pos hcB0
  have hQA : ndigits cA ≤ 34 := (ndigits_le_iff hcA0).2 (by simpa [P34] using haP)
  have hQB : ndigits cB ≤ 34 := (ndigits_le_iff hcB0).2 (by simpa [P34] using hbP)
  have hle : eB ≤ eA := by omega
  have hsp : ¬ ((x.w1 &&& c_MASK_SPECIAL == c_MASK_SPECIAL) || (y.w1 &&& c_MASK_SPECIAL == c_MASK_SPECIAL)) = true := by
    rcases hab with ⟨rfl, rfl, -⟩ | ⟨rfl, rfl, -⟩
    · exact not_special2 ha1 hb1
    · exact not_special2 hb1 ha1
  have hx0 : ¬ (uH x == 0 && uL x == 0) = true := by
    rcases hab with ⟨rfl, rfl, -⟩ | ⟨rfl, rfl, -⟩
    · exact ha0
    · exact hb0
  have hy0 : ¬ (uH y == 0 && uL y == 0) = true := by
    rcases hab with ⟨rfl, rfl, -⟩ | ⟨rfl, rfl, -⟩
    · exact hb0
    · exact ha0
  obtain ⟨D, D1, THI, TLO, hTa, hqa⟩ := digits_row (uH a) (uL a) (by rw [hac]; exact hcA0) (hi_lt hac haP)
  obtain ⟨D', D1', THI', TLO', hTb, hqb⟩ := digits_row (uH b) (uL b) (by rw [hbc]; exact hcB0) (hi_lt hbc hbP)
  rw [hac] at hqa
  rw [hbc] at hqb
  have hlo' := (ndigits_spec hcA0).1
  have hcAlt := lt_pow_ndigits cA
  have hcBlt := lt_pow_ndigits cB
  generalize hQAd : ndigits cA = QA at *
  generalize hQBd : ndigits cB = QB at *
  generalize hEAd : (eA + 6176).toNat = EA at *
  generalize hEBd : (eB + 6176).toNat = EB at *
  generalize hkd : ((QA : Int) + eA - eB - 34).toNat = k at *
  have hk1 : 1 ≤ k := by omega
  have hkQ : k + 1 ≤ QB := by omega
  have hkE : (QA : Int) + EA - EB - 34 = k := by omega
  have hEA : EA < 12288 := by omega
  have hEle : EB ≤ EA := by omega
  have hgap : (eA - eB).toNat = (34 - QA) + k := by omega
  have hB1 : 10^33 ≤ cA * 10 ^ (34 - QA) := by
    calc 10^33 = 10 ^ (QA - 1) * 10 ^ (34 - QA) := by rw [← Nat.pow_add]; congr 1; omega
      _ ≤ cA * 10 ^ (34 - QA) := Nat.mul_le_mul_right _ hlo'
  have hB2 : cA * 10 ^ (34 - QA) < 10^34 := by
    calc cA * 10 ^ (34 - QA) < 10 ^ QA * 10 ^ (34 - QA) := Nat.mul_lt_mul_of_pos_right hcAlt (Nat.pow_pos (by decide))
      _ = 10^34 := by rw [← Nat.pow_add]; congr 1; omega
  have hA : cA * 10 ^ (eA - eB).toNat = cA * 10 ^ (34 - QA) * 10 ^ k := by rw [hgap, Nat.pow_add, Nat.mul_assoc]
  generalize hBd : cA * 10 ^ (34 - QA) = B at *
  have hgt : cB < cA * 10 ^ (eA - eB).toNat := by
    rw [hA]
    have h1 : 10 ^ QB ≤ 10 ^ (33 + k) := Nat.pow_le_pow_right (by decide) (by omega)
    have h2 : 10^33 * 10^k ≤ B * 10^k := Nat.mul_le_mul_right _ hB1
    rw [Nat.pow_add] at h1
    omega
  have hp : 0 < 10 ^ k := Nat.pow_pos (by decide)
  have hrlt := Nat.mod_lt cB hp
  rw [addFin_big (md m) sA cA eA sB cB eB hle hgt, hA, if_neg hsne]
  exact HB x y a b m f hsp hx0 hy0 hab D D1 THI TLO D' D1' THI' TLO' hTa hTb sA sB cA cB QA QB EA EB k B
    (cB / 10 ^ k) (cB % 10 ^ k) eB has hbs hac hbc hae hbe hqa hqb hQAd hcA0 hQA1 hQA hQB1 hQB hEA hEle hkE hk1 hkQ hBd hB1 hB2
    hcBlt hcB0 ⟨rfl, rfl⟩ hrlt hsne hdomB (by omega)

/-! ## 2. The two arms in terms of the decoded operands -/

/-- arm (B): with `H` the operand of the larger exponent (`x` on a tie) and `L` the other one, `34 − q_L < delta < 34`,
opposite signs, and the padded `B = C_H·10^(34 − q_H)` is not more than `10^33 + ⌊C_L / 10^k⌋ + 1` (outside `Loop1Cond`) -/
def ArmBCond (s1 : Bool) (c1 : Nat) (e1 : Int) (s2 : Bool) (c2 : Nat) (e2 : Int) : Prop :=
  if e2 ≤ e1 then
    34 < (ndigits c1 : Int) + e1 - e2 ∧ (ndigits c1 : Int) + e1 - ndigits c2 - e2 < 34 ∧ ¬ s1 = s2 ∧
    ¬ (10^33 + c2 / 10 ^ ((ndigits c1 : Int) + e1 - e2 - 34).toNat + 1 < c1 * 10 ^ (34 - ndigits c1))
  else
    34 < (ndigits c2 : Int) + e2 - e1 ∧ (ndigits c2 : Int) + e2 - ndigits c1 - e1 < 34 ∧ ¬ s2 = s1 ∧
    ¬ (10^33 + c1 / 10 ^ ((ndigits c2 : Int) + e2 - e1 - 34).toNat + 1 < c2 * 10 ^ (34 - ndigits c2))

/-- arm (A): the same with equal signs, and `B + ⌊C_L / 10^k⌋ + 1` may reach `10^34` (outside `Loop1Cond`) -/
def ArmACond (s1 : Bool) (c1 : Nat) (e1 : Int) (s2 : Bool) (c2 : Nat) (e2 : Int) : Prop :=
  if e2 ≤ e1 then
    34 < (ndigits c1 : Int) + e1 - e2 ∧ (ndigits c1 : Int) + e1 - ndigits c2 - e2 < 34 ∧ s1 = s2 ∧
    ¬ (c1 * 10 ^ (34 - ndigits c1) + c2 / 10 ^ ((ndigits c1 : Int) + e1 - e2 - 34).toNat + 1 < 10^34)
  else
    34 < (ndigits c2 : Int) + e2 - e1 ∧ (ndigits c2 : Int) + e2 - ndigits c1 - e1 < 34 ∧ s2 = s1 ∧
    ¬ (c2 * 10 ^ (34 - ndigits c2) + c1 / 10 ^ ((ndigits c2 : Int) + e2 - e1 - 34).toNat + 1 < 10^34)

instance (s1 : Bool) (c1 : Nat) (e1 : Int) (s2 : Bool) (c2 : Nat) (e2 : Int) : Decidable (ArmBCond s1 c1 e1 s2 c2 e2) := by
  unfold ArmBCond; infer_instance
instance (s1 : Bool) (c1 : Nat) (e1 : Int) (s2 : Bool) (c2 : Nat) (e2 : Int) : Decidable (ArmACond s1 c1 e1 s2 c2 e2) := by
  unfold ArmACond; infer_instance

/-- **what arm (A) has to deliver** (same signs, the 35-digit sum: second rounding by `BID_TEN2MK128[0]` and its repair) -/
def ArmARounding : Prop :=
  ∀ (x y : U128) (m : RoundingMode) (f : UInt32) {s1 s2 : Bool} {c1 c2 : Nat} {e1 e2 : Int},
    decode (bitsOf x) = .fin s1 c1 e1 → decode (bitsOf y) = .fin s2 c2 e2 → c1 ≠ 0 → c2 ≠ 0 →
    ArmACond s1 c1 e1 s2 c2 e2 →
    bid128_add x y m f =
      .ok (ofBits (encode (addD (md m) (decode (bitsOf x)) (decode (bitsOf y))).1),
           f ||| UInt32.ofNat (addD (md m) (decode (bitsOf x)) (decode (bitsOf y))).2)

/-- **`bid128_add`, two non-zero numbers, `ArmBCond`** (opposite signs, cancellation in the rounding loop: a second turn with
one digit less, or the boundary with one turn) is `addD`, datum and flags, all five modes — from the word-level statement -/
theorem add_loopB (HB : LoopBCodeSpec) (x y : U128) (m : RoundingMode) (f : UInt32) {s1 s2 : Bool} {c1 c2 : Nat} {e1 e2 : Int}
    (hx : decode (bitsOf x) = .fin s1 c1 e1) (hy : decode (bitsOf y) = .fin s2 c2 e2) (hc1 : c1 ≠ 0) (hc2 : c2 ≠ 0)
    (h : ArmBCond s1 c1 e1 s2 c2 e2) :
    bid128_add x y m f =
      .ok (ofBits (encode (addD (md m) (decode (bitsOf x)) (decode (bitsOf y))).1),
           f ||| UInt32.ofNat (addD (md m) (decode (bitsOf x)) (decode (bitsOf y))).2) := by
  obtain ⟨-, -, -, hxe, hxlo, hxhi, -, -⟩ := fin_view x hx
  obtain ⟨-, -, -, hye, hylo, hyhi, -, -⟩ := fin_view y hy
  rw [hx, hy, addD_fin_fin]
  unfold ArmBCond at h
  by_cases hle : e2 ≤ e1
  · rw [if_pos hle] at h
    have hab : Ordered x y x y := Or.inl ⟨rfl, rfl, by
      rw [decide_eq_true_eq, UInt64.lt_iff_toNat_lt, hxe, hye]; omega⟩
    exact add_loopB_core HB x y x y m f hab hx hy hc1 hc2 h.1 h.2.1 h.2.2.1 h.2.2.2
  · rw [if_neg hle] at h
    have hab : Ordered x y y x := Or.inr ⟨rfl, rfl, by
      rw [decide_eq_true_eq, UInt64.lt_iff_toNat_lt, hxe, hye]; omega⟩
    rw [addFin_comm]
    exact add_loopB_core HB x y y x m f hab hy hx hc2 hc1 h.1 h.2.1 h.2.2.1 h.2.2.2

/-! ## 3. The assembly -/

/-- the rest of the loop's region is arm (A) or arm (B) -/
theorem rest_cases (s1 : Bool) (c1 : Nat) (e1 : Int) (s2 : Bool) (c2 : Nat) (e2 : Int)
    (hL : LoopCond s1 c1 e1 s2 c2 e2) (h1 : ¬ Loop1Cond s1 c1 e1 s2 c2 e2) :
    ArmACond s1 c1 e1 s2 c2 e2 ∨ ArmBCond s1 c1 e1 s2 c2 e2 := by
  unfold LoopCond at hL
  unfold Loop1Cond at h1
  unfold ArmACond ArmBCond
  by_cases hle : e2 ≤ e1
  · rw [if_pos hle] at hL h1 ⊢
    rw [if_pos hle]
    have a1 : 34 < (ndigits c1 : Int) + e1 - e2 := by omega
    have a2 := hL.2
    by_cases hs : s1 = s2
    · left
      refine ⟨a1, a2, hs, fun hlt => h1 ⟨a1, a2, fun _ => hlt, fun hn => absurd hs hn⟩⟩
    · right
      refine ⟨a1, a2, hs, fun hlt => h1 ⟨a1, a2, fun he => absurd he hs, fun _ => hlt⟩⟩
  · rw [if_neg hle] at hL h1 ⊢
    rw [if_neg hle]
    have a1 : 34 < (ndigits c2 : Int) + e2 - e1 := by omega
    have a2 := hL.2
    by_cases hs : s2 = s1
    · left
      refine ⟨a1, a2, hs, fun hlt => h1 ⟨a1, a2, fun _ => hlt, fun hn => absurd hs hn⟩⟩
    · right
      refine ⟨a1, a2, hs, fun hlt => h1 ⟨a1, a2, fun he => absurd he hs, fun _ => hlt⟩⟩

/-- **`LoopRestRounding` from the two arms** -/
theorem loop_rest_of_arms (HA : ArmARounding) (HB : LoopBCodeSpec) : LoopRestRounding := by
  intro x y m f hL h1
  unfold dOf at *
  cases hx : decode (bitsOf x) with
  | fin s1 c1 e1 =>
    cases hy : decode (bitsOf y) with
    | fin s2 c2 e2 =>
      rw [hx, hy] at hL h1
      have h1' : ¬ Loop1Cond s1 c1 e1 s2 c2 e2 := fun hc => h1 ⟨hL.1, hL.2.1, hc⟩
      rw [← hx, ← hy]
      rcases rest_cases s1 c1 e1 s2 c2 e2 hL.2.2 h1' with hA | hB
      · exact HA x y m f hx hy hL.1 hL.2.1 hA
      · exact add_loopB HB x y m f hx hy hL.1 hL.2.1 hB
    | inf s => rw [hx, hy] at hL; exact absurd hL id
    | nan s g p => rw [hx, hy] at hL; exact absurd hL id
  | inf s => rw [hx] at hL; exact absurd hL id
  | nan s g p => rw [hx] at hL; exact absurd hL id

/-- **`bid128_add` = `addD` for all inputs (NaNs included), all five modes, datum and flags** — from the two arms -/
theorem bid128_add_spec_all (HA : ArmARounding) (HB : LoopBCodeSpec) (x y : U128) (m : RoundingMode) (f : UInt32) :
    bid128_add x y m f = .ok (binSpec (addD (md m)) x y f) :=
  bid128_add_spec_partial2' (loop_rest_of_arms HA HB) x y m f

/-- **`bid128_sub` = `subD` for all inputs, all five modes, datum and flags** — from the two arms -/
theorem bid128_sub_spec_all (HA : ArmARounding) (HB : LoopBCodeSpec) (x y : U128) (m : RoundingMode) (f : UInt32) :
    bid128_sub x y m f = .ok (binSpec (subD (md m)) x y f) :=
  bid128_sub_spec_partial2' (loop_rest_of_arms HA HB) x y m f

-- the regions on concrete operands: 10^33·10^0 − (10^33 + 1)·10^-1 cancels a digit (arm B); 9.9…9 + 9.9…9·10^-1 carries (arm A)
example : ArmBCond false (10^33) 0 true (10^33 + 1) (-1) ∧ ¬ Loop1Cond false (10^33) 0 true (10^33 + 1) (-1) ∧
    LoopCond false (10^33) 0 true (10^33 + 1) (-1) := by decide +kernel
example : ArmACond false (10^34 - 1) 0 false (10^34 - 1) (-1) ∧ ¬ Loop1Cond false (10^34 - 1) 0 false (10^34 - 1) (-1) ∧
    LoopCond false (10^34 - 1) 0 false (10^34 - 1) (-1) := by decide +kernel
example : Loop1Cond false 15 0 true (10^33 + 1) (-33) ∧ ¬ ArmBCond false 15 0 true (10^33 + 1) (-33) := by decide +kernel

/-! ## 4. Arm (A) plugged in (hkPack's `C01GenAddLoop35.add_loopA`): only `LoopBCodeSpec` is left -/

/-- **arm (A) is proved** (`C01GenAddLoop35.add_loopA`, with the rounding block's specification discharged) -/
theorem armA_rounding : ArmARounding := by
  intro x y m f s1 s2 c1 c2 e1 e2 hx hy h1 h2 h
  exact Dec.C01GenAddLoop35.add_loopA Dec.C01GenAddRoundBlock.roundBlockSpec x y m f hx hy h1 h2
    (by unfold ArmACond at h; unfold Dec.C01GenAddLoop35.ArmACond; exact h)

/-- **`LoopRestRounding` from arm (B) alone** -/
theorem loop_rest_of_armB (HB : LoopBCodeSpec) : LoopRestRounding := loop_rest_of_arms armA_rounding HB

/-- **`bid128_add` = `addD` for all inputs, all five modes, datum and flags** — up to arm (B) at word level only -/
theorem bid128_add_spec_upToB (HB : LoopBCodeSpec) (x y : U128) (m : RoundingMode) (f : UInt32) :
    bid128_add x y m f = .ok (binSpec (addD (md m)) x y f) := bid128_add_spec_all armA_rounding HB x y m f

/-- **`bid128_sub` = `subD`** likewise -/
theorem bid128_sub_spec_upToB (HB : LoopBCodeSpec) (x y : U128) (m : RoundingMode) (f : UInt32) :
    bid128_sub x y m f = .ok (binSpec (subD (md m)) x y f) := bid128_sub_spec_all armA_rounding HB x y m f

end Dec.C01GenAddLoopB2
