/-
  C13 (codec) — every 128-bit pattern is interpreted as IEEE 754-2008 §3.5.2 prescribes (canonical or
  not), and what the library hands out — `encode d` of a well-formed datum `d` — is always canonical.

  Property-level restatements of `DecProofs.Core.Codec`; the classification part of C13 is in
  `DecProofs.Properties.C13`.
-/
import DecProofs.Core.Codec

namespace Dec.C13Codec

/-! ### Every pattern has a meaning -/

/-- Every bit pattern — all 2^128 of them, and indeed every natural number — decodes to a
well-formed datum: a finite number with coefficient below 10^34 and exponent in [−6176, 6111], an
infinity, or a NaN with payload below 10^33.  There is no "invalid encoding". -/
theorem decode_wellFormed (b : Nat) : (decode b).WF := decode_WF b

/-- The interpretation, case by case on the combination field `g` = bits 126..123, exactly as in
IEEE 754-2008 §3.5.2 (the four cases are exhaustive and mutually exclusive):
* `g = 1111`, bit 122 clear: ±∞, all other bits ignored;
* `g = 1111`, bit 122 set: NaN, signalling iff bit 121; payload = bits 109..0 if that is below
  10^33 and 0 otherwise; bits 120..110 ignored;
* `g = 11xx` otherwise: the large-coefficient form, whose coefficient would be ≥ 2^113 > 10^34:
  a zero with the sign and with the biased exponent held in bits 124..111;
* anything else: coefficient = bits 112..0 if below 10^34, else 0; biased exponent = bits 126..113. -/
theorem decode_interpretation (b : Nat) :
    ((b / 2^123) % 16 = 15 ∧ (b / 2^122) % 2 = 0 ∧
        decode b = .inf ((b / 2^127) % 2 == 1)) ∨
    ((b / 2^123) % 16 = 15 ∧ (b / 2^122) % 2 = 1 ∧
        decode b = .nan ((b / 2^127) % 2 == 1) ((b / 2^121) % 2 == 1)
          (if b % 2^110 < P33 then b % 2^110 else 0)) ∨
    ((b / 2^123) % 16 ≠ 15 ∧ (b / 2^123) % 16 / 4 = 3 ∧
        decode b = .fin ((b / 2^127) % 2 == 1) 0 (((b / 2^111) % 2^14 : Nat) - (6176 : Int))) ∨
    ((b / 2^123) % 16 ≠ 15 ∧ (b / 2^123) % 16 / 4 ≠ 3 ∧
        decode b = .fin ((b / 2^127) % 2 == 1) (if b % 2^113 < P34 then b % 2^113 else 0)
          (((b / 2^113) % 2^14 : Nat) - (6176 : Int))) := by
  rcases decode_cases b with ⟨h, h2⟩ | ⟨h, h2⟩ | ⟨h, h2⟩ | ⟨h, h2⟩
  · exact Or.inl ⟨h, h2, decode_inf b h h2⟩
  · exact Or.inr (Or.inl ⟨h, h2, decode_nan b h h2⟩)
  · exact Or.inr (Or.inr (Or.inl ⟨h, h2, decode_large b h h2⟩))
  · exact Or.inr (Or.inr (Or.inr ⟨h, h2, decode_small b h h2⟩))

/-! ### Results are canonical -/

/-- The encoding of a well-formed datum is a canonical 128-bit pattern.  (Every d128 result of the
model is `encode d`, see `Dec.C13.exactD_is_encode`.) -/
theorem encode_canonical {d : Datum} (h : d.WF) : isCanonical (encode d) = true :=
  isCanonical_encode h

/-- … it fits 128 bits … -/
theorem encode_lt_2_128 {d : Datum} (h : d.WF) : encode d < 2^128 := encode_lt h

/-- … and it denotes the datum it was made from: nothing is lost by encoding (finite numbers of
either sign — so −0 and every member of a cohort stay distinct —, infinities, quiet and signalling
NaNs with their payload). -/
theorem decode_encode_id {d : Datum} (h : d.WF) : decode (encode d) = d := decode_encode h

/-- Distinct well-formed data have distinct encodings. -/
theorem encode_injective {d₁ d₂ : Datum} (h₁ : d₁.WF) (h₂ : d₂.WF) (h : encode d₁ = encode d₂) :
    d₁ = d₂ := by
  rw [← decode_encode h₁, ← decode_encode h₂, h]

/-- The canonical patterns are exactly the encodings of well-formed data. -/
theorem canonical_iff_encoding (b : Nat) :
    isCanonical b = true ↔ ∃ d : Datum, d.WF ∧ encode d = b := isCanonical_iff_exists b

/-! ### Canonicalisation keeps the meaning -/

/-- Re-encoding a pattern canonically does not change the datum it denotes. -/
theorem decode_canon_eq (b : Nat) : decode (canon b) = decode b := decode_canon b

/-- The canonical re-encoding of any pattern is canonical, and canonicalising twice is the same as
once. -/
theorem canon_canonical (b : Nat) : isCanonical (canon b) = true ∧ canon (canon b) = canon b :=
  ⟨isCanonical_canon b, canon_idem b⟩

/-- A 128-bit pattern is canonical iff canonicalisation leaves it alone. -/
theorem canonical_iff_fixed {b : Nat} (hb : b < 2^128) : isCanonical b = true ↔ canon b = b :=
  canonical_iff hb

/-- Two patterns denote the same datum iff they have the same canonical form. -/
theorem decode_eq_iff_canon_eq (a b : Nat) : decode a = decode b ↔ canon a = canon b := by
  constructor
  · intro h; unfold canon; rw [h]
  · intro h; rw [← decode_canon a, ← decode_canon b, h]

/-! ### Which patterns are non-canonical -/

/-- A 128-bit pattern is non-canonical iff it is
(a) finite in the large-coefficient form (bits 126,125 = 11, not 1111), or
(b) finite in the ordinary form with coefficient field (bits 112..0) ≥ 10^34, or
(c) an infinity with any of bits 121..0 set, or
(d) a NaN with payload field (bits 109..0) ≥ 10^33 or any reserved bit (120..110) set. -/
theorem noncanonical_iff {b : Nat} (hb : b < 2^128) :
    isCanonical b = false ↔
      ((b / 2^123) % 16 ≠ 15 ∧ (b / 2^123) % 16 / 4 = 3) ∨
      ((b / 2^123) % 16 ≠ 15 ∧ (b / 2^123) % 16 / 4 ≠ 3 ∧ P34 ≤ b % 2^113) ∨
      ((b / 2^123) % 16 = 15 ∧ (b / 2^122) % 2 = 0 ∧ b % 2^122 ≠ 0) ∨
      ((b / 2^123) % 16 = 15 ∧ (b / 2^122) % 2 = 1 ∧ (P33 ≤ b % 2^110 ∨ (b / 2^110) % 2^11 ≠ 0)) :=
  not_isCanonical_iff hb

/-- (a), (b): the non-canonical finite patterns are zeros that keep their sign and exponent. -/
theorem noncanonical_finite_is_zero (b : Nat) (h : (b / 2^123) % 16 ≠ 15)
    (hnc : (b / 2^123) % 16 / 4 = 3 ∨ P34 ≤ b % 2^113) :
    ∃ e : Int, decode b = .fin ((b / 2^127) % 2 == 1) 0 e ∧ eMin ≤ e ∧ e ≤ eMax ∧
      (decode b).isZero = true := by
  by_cases h2 : (b / 2^123) % 16 / 4 = 3
  · have hd := (noncanonical_large b h h2).2
    have hwf := decode_WF b
    rw [hd] at hwf ⊢
    exact ⟨_, rfl, hwf.2.1, hwf.2.2, rfl⟩
  · have hc : P34 ≤ b % 2^113 := by rcases hnc with h3 | h3; exact absurd h3 h2; exact h3
    have hd := (noncanonical_bigcoef b h h2 hc).2
    have hwf := decode_WF b
    rw [hd] at hwf ⊢
    exact ⟨_, rfl, hwf.2.1, hwf.2.2, rfl⟩

/-- (c): whatever the trailing bits, an infinity pattern is the infinity of its sign. -/
theorem infinity_junk_ignored (b : Nat) (h : (b / 2^123) % 16 = 15) (h2 : (b / 2^122) % 2 = 0) :
    decode b = .inf ((b / 2^127) % 2 == 1) := decode_inf b h h2

/-- (d): a NaN pattern whose payload field is ≥ 10^33 is a NaN of the same sign and kind
(quiet/signalling) with payload 0; reserved bits never matter. -/
theorem nan_big_payload_is_zero (b : Nat) (h : (b / 2^123) % 16 = 15) (h2 : (b / 2^122) % 2 = 1)
    (hp : P33 ≤ b % 2^110) :
    decode b = .nan ((b / 2^127) % 2 == 1) ((b / 2^121) % 2 == 1) 0 :=
  (noncanonical_nan_payload b h h2 hp).2

/-! ### Non-vacuity: one concrete pattern of every kind -/

-- +1E+0 (canonical), and the four non-canonical families
example : isCanonical 0x30400000000000000000000000000001 = true := by decide +kernel
example : decode 0x30400000000000000000000000000001 = .fin false 1 0 := by decide +kernel
-- (a) large-coefficient form: −0E−32
example : isCanonical 0xec000000000000000000000000000005 = false ∧
    decode 0xec000000000000000000000000000005 = .fin true 0 (-32) := by decide +kernel
-- (b) coefficient field 2^113 − 1 ≥ 10^34: +0E+0
example : isCanonical 0x3041ffffffffffffffffffffffffffff = false ∧
    decode 0x3041ffffffffffffffffffffffffffff = .fin false 0 0 := by decide +kernel
-- (c) −∞ with junk in the low bits
example : isCanonical 0xf8000000000000000000000000000001 = false ∧
    decode 0xf8000000000000000000000000000001 = .inf true := by decide +kernel
-- (d) sNaN with payload field 2^110 − 1 ≥ 10^33, qNaN with reserved bit 110 set and payload 7
example : isCanonical 0x7e003fffffffffffffffffffffffffff = false ∧
    decode 0x7e003fffffffffffffffffffffffffff = .nan false true 0 := by decide +kernel
example : isCanonical 0x7c004000000000000000000000000007 = false ∧
    decode 0x7c004000000000000000000000000007 = .nan false false 7 := by decide +kernel
-- canonicalisation of (a); a well-formed datum and its canonical encoding; a 129-bit "pattern"
example : canon 0xec000000000000000000000000000005 = 0xb0000000000000000000000000000000 := by
  decide +kernel
example : (Datum.fin true 9999999999999999999999999999999999 6111).WF ∧
    encode (.fin true 9999999999999999999999999999999999 6111) = 0xdfffed09bead87c0378d8e63ffffffff := by
  decide +kernel
example : (decode (2^128 + 5)).WF ∧ isCanonical (2^128 + 5) = false := by decide +kernel

end Dec.C13Codec
