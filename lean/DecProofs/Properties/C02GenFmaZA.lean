/-
  C02GenFmaZ (part A: mathematics of the delivery, the translated text) — see C02GenFmaZ.lean
-/
import DecGen.Code
import DecModel.Arith
import DecProofs.Core.FinishUnique
import DecProofs.Properties.C02GenCorrection
import DecProofs.Properties.C02GenRound
import DecProofs.Properties.C13GenPack
import DecProofs.Properties.C13PackHelpers
import DecProofs.Properties.C01GenAdd
import Mathlib.Tactic.Ring
import Mathlib.Tactic.Linarith
import Mathlib.Tactic.Positivity
import DecProofs.Properties.C08GenRiBase

set_option linter.unusedSimpArgs false
set_option linter.unusedVariables false

namespace Dec.C02GenFmaZ
open Dec Dec.Rs Dec.Gen.Code Dec.C03GenCompare Dec.C02GenCorrection

/-! ## finish from a rounding at the delivered exponent -/

/-! The next three lemmas are `finish_congr`, `ilog_33`, `finish_normal` of C01GenDiv.lean §2, repeated so that this file does
not depend on the division proof. -/

/-- `finish` depends on the exact value only -/
theorem finish_congr (mode : Mode) (neg : Bool) (n d n' d' : Nat) (e e' pref : Int)
    (hn : 0 < n) (hd : 0 < d) (hn' : 0 < n') (hd' : 0 < d')
    (hv : (n : ℚ) / d * (10 : ℚ) ^ e = (n' : ℚ) / d' * (10 : ℚ) ^ e') :
    finish mode neg n d e pref = finish mode neg n' d' e' pref := by
  rw [finish_eq_iff mode neg n d e pref hn hd, hv]
  exact finish_spec_strict mode neg n' d' e' pref hn' hd'

theorem ilog_33 (n d : Nat) (hd : 0 < d) (h1 : 10 ^ 33 * d ≤ n) (h2 : n < 10 ^ 34 * d) : ilog10Ratio n d = 33 := by
  have hn : 0 < n := lt_of_lt_of_le (by positivity) h1
  obtain ⟨a, b⟩ := ilog10Ratio_spec hn hd
  have hdq : (0 : ℚ) < d := by exact_mod_cast hd
  have l1 : (10 : ℚ) ^ (33 : ℤ) ≤ (n : ℚ) / d := by
    rw [le_div_iff₀ hdq]; exact_mod_cast h1
  have l2 : (n : ℚ) / d < (10 : ℚ) ^ (34 : ℤ) := by
    rw [div_lt_iff₀ hdq]; exact_mod_cast h2
  have c1 : ilog10Ratio n d < 34 := by
    have := lt_of_le_of_lt a l2
    exact (zpow_lt_zpow_iff_right₀ one_lt_ten).1 this
  have c2 : (33 : ℤ) < ilog10Ratio n d + 1 := by
    have := lt_of_le_of_lt l1 b
    exact (zpow_lt_zpow_iff_right₀ one_lt_ten).1 this
  omega

/-- **`finish` on a normalised inexact quotient**: `(Q·Y + ρ)/Y · 10^e` with `10^33 ≤ Q < 10^34`, `0 < ρ < Y`, `e ≥ eMin`:
one rounding of `Q + ρ/Y` at exponent `e`, a carry to `10^34` renormalised, overflow above `eMax`, inexact, never underflow -/
theorem finish_normal (mode : Mode) (neg : Bool) (Q Y ρ : Nat) (e pref : Int)
    (hQ1 : 10 ^ 33 ≤ Q) (hQ2 : Q < 10 ^ 34) (hρ0 : 0 < ρ) (hρ : ρ < Y) (he : eMin ≤ e) :
    finish mode neg (Q * Y + ρ) Y e pref =
      if roundInt mode neg Q ρ Y = P34 then
        (if e + 1 > eMax then (overflowResult mode neg, fOverflow ||| fInexact) else (.fin neg P33 (e + 1), fInexact))
      else
        (if e > eMax then (overflowResult mode neg, fOverflow ||| fInexact)
         else (.fin neg (roundInt mode neg Q ρ Y) e, fInexact)) := by
  have hY : 0 < Y := by omega
  have hil : ilog10Ratio (Q * Y + ρ) Y = 33 := by
    apply ilog_33 _ _ hY
    · have := Nat.mul_le_mul_right Y hQ1; omega
    · have : (Q + 1) * Y ≤ 10 ^ 34 * Y := Nat.mul_le_mul_right Y (by omega)
      rw [Nat.add_mul] at this; omega
  have hq : (Q * Y + ρ) / Y = Q := by
    rw [Nat.mul_comm, Nat.mul_add_div hY, Nat.div_eq_of_lt hρ, Nat.add_zero]
  have hr : (Q * Y + ρ) % Y = ρ := by
    rw [Nat.mul_comm, Nat.mul_add_mod, Nat.mod_eq_of_lt hρ]
  rw [finish_eq, hil]
  unfold eMin at he
  by_cases hbig : 33 + e > 7000
  · rw [if_pos hbig]
    have h1 : e + 1 > eMax := by unfold eMax; omega
    have h2 : e > eMax := by unfold eMax; omega
    rw [if_pos h1, if_pos h2, ite_self]
  rw [if_neg hbig, if_neg (by omega)]
  have hx0 : fx0 (33 + e) = e := by unfold fx0 eMin; rw [if_neg (by omega)]; omega
  have htiny : decide (33 + e - 33 < eMin) = false := by unfold eMin; rw [decide_eq_false_iff_not]; omega
  rw [hx0, htiny, Int.sub_self]
  have hnum : fnum (Q * Y + ρ) 0 = Q * Y + ρ := by unfold fnum; simp
  have hden : fden Y 0 = Y := by unfold fden; simp
  rw [hnum, hden]
  by_cases hm : roundInt mode neg Q ρ Y = P34
  · rw [if_pos hm, finishAt_inexact_carry _ _ _ _ _ _ _ (by rw [hr]; omega) (by rw [hq, hr]; exact hm)]
    rfl
  · rw [if_neg hm, finishAt_inexact _ _ _ _ _ _ _ (by rw [hr]; omega) (by rw [hq, hr]; exact hm), hq, hr]
    rfl


theorem rounded_le (mode : Mode) (s : Bool) (N D M B : Nat) (hD : 0 < D) (h : RoundedInt mode s N D M) (hN : N < B * D) :
    M ≤ B := by
  have e3 : ∀ a : Nat, 2 * a * D = 2 * (a * D) := fun a => Nat.mul_assoc _ _ _
  have key : M * D < (B + 1) * D := by
    rw [Nat.add_mul, Nat.one_mul]
    cases mode <;> cases s <;> simp only [RoundedInt, if_true, if_false, Bool.false_eq_true, e3] at h <;> omega
  have := Nat.lt_of_mul_lt_mul_right key
  omega

/-- **the bridge to `finish`**: the exact magnitude `N·10^E4` (`N` not a multiple of `D = 10^(ef − E4)`), rounded in `mode`
at the exponent `ef` — which is the least exponent or one at which the value has 34 digits — to `c2·10^(e2 − ef)`, delivered as
`c2·10^e2` with at most 34 digits: that is what `finish` returns; overflow above `eMax`, underflow iff below `10^33` units. -/
theorem finish_of_rounded (mode : Mode) (s : Bool) (N : Nat) (E4 ef pref : Int) (c2 : Nat) (e2 : Int)
    (hE : E4 ≤ ef) (hef : eMin ≤ ef)
    (hinex : N % 10 ^ (ef - E4).toNat ≠ 0)
    (hlt : N < 10 ^ 34 * 10 ^ (ef - E4).toNat)
    (hleast : ef = eMin ∨ 10 ^ 33 * 10 ^ (ef - E4).toNat ≤ N)
    (hr : RoundedInt mode s N (10 ^ (ef - E4).toNat) (c2 * 10 ^ (e2 - ef).toNat))
    (h1 : ef ≤ e2) (h2 : e2 ≤ ef + 1) (hc2 : c2 < P34) (hwrap : e2 = ef + 1 → c2 = P33) :
    finish mode s N 1 E4 pref =
      if eMax < e2 then (overflowResult mode s, fOverflow ||| fInexact)
      else (.fin s c2 e2, if N < 10 ^ 33 * 10 ^ (ef - E4).toNat then fUnderflow ||| fInexact else fInexact) := by
  obtain ⟨D, hDdef⟩ : ∃ D, D = 10 ^ (ef - E4).toNat := ⟨_, rfl⟩
  rw [← hDdef] at hinex hlt hleast hr ⊢
  have hD : 0 < D := by rw [hDdef]; exact Nat.pow_pos (by decide)
  have hN : 0 < N := Nat.pos_of_ne_zero (fun h => hinex (by rw [h, Nat.zero_mod]))
  have hdm := Nat.div_add_mod N D
  have hρ : N % D < D := Nat.mod_lt _ hD
  have hρ0 : 0 < N % D := Nat.pos_of_ne_zero hinex
  have hspec := roundInt_spec mode s (N / D) (N % D) D hρ
  rw [Nat.mul_comm (N / D) D, hdm] at hspec
  have hM := RoundedInt_unique mode s N D _ _ hD hr hspec
  have e34 : P34 = 10 ^ 34 := by decide
  have e33 : P33 = 10 ^ 33 := by decide
  by_cases hnorm : 10 ^ 33 * D ≤ N
  · -- 34 digits at `ef`
    have hQ1 : 10 ^ 33 ≤ N / D := (Nat.le_div_iff_mul_le hD).2 hnorm
    have hQ2 : N / D < 10 ^ 34 := (Nat.div_lt_iff_lt_mul hD).2 hlt
    have hval : (N : ℚ) / (1 : Nat) * (10 : ℚ) ^ E4 = ((N / D * D + N % D : Nat) : ℚ) / (D : ℚ) * (10 : ℚ) ^ ef := by
      rw [Nat.mul_comm (N / D) D, hdm, hDdef]
      have hp : ((10 ^ (ef - E4).toNat : Nat) : ℚ) = (10 : ℚ) ^ (ef - E4) := by
        rw [zpow_toNat (by omega)]
      rw [hp, zpow_sub₀ ten_ne]
      have h4 : (10 : ℚ) ^ E4 ≠ 0 := (zpow_pos ten_pos _).ne'
      have h5 : (10 : ℚ) ^ ef ≠ 0 := (zpow_pos ten_pos _).ne'
      field_simp
      push_cast
      ring
    rw [finish_congr mode s N 1 (N / D * D + N % D) D E4 ef pref hN (by decide) (by omega) hD hval,
      finish_normal mode s (N / D) D (N % D) ef pref hQ1 hQ2 hρ0 hρ hef, ← hM]
    by_cases hc : c2 * 10 ^ (e2 - ef).toNat = P34
    · have he2 : e2 = ef + 1 := by
        by_contra hne
        have : e2 = ef := by omega
        rw [this, Int.sub_self] at hc
        simp at hc; omega
      rw [if_pos hc, he2, hwrap he2, if_neg (show ¬ N < 10 ^ 33 * D by omega)]
    · have he2 : e2 = ef := by
        by_contra hne
        have h3 : e2 = ef + 1 := by omega
        have := hwrap h3
        rw [h3, this, show ef + 1 - ef = 1 by omega] at hc
        exact hc (by decide)
      rw [if_neg hc, he2, Int.sub_self, if_neg (show ¬ N < 10 ^ 33 * D by omega)]
      simp only [Int.toNat_zero, Nat.pow_zero, Nat.mul_one]
  · -- below 10^33 units of the least exponent
    have hemin : ef = eMin := by rcases hleast with h | h; exact h; exact absurd h hnorm
    have hlt33 : N < 10 ^ 33 * D := by omega
    have hMle := rounded_le mode s N D _ (10 ^ 33) hD hr hlt33
    have he2 : e2 = ef := by
      by_contra hne
      have h3 : e2 = ef + 1 := by omega
      have := hwrap h3
      rw [h3, this, show ef + 1 - ef = 1 by omega, e33, show (10 : Nat) ^ (1 : Int).toNat = 10 from rfl] at hMle
      omega
    rw [he2, Int.sub_self] at hr hMle
    simp only [Int.toNat_zero, Nat.pow_zero, Nat.mul_one] at hr hMle
    rw [if_neg (by rw [he2, hemin]; decide), if_pos hlt33, he2, hemin]
    have hk : E4 = eMin - (((eMin - E4).toNat : Nat) : Int) := by omega
    rw [hk]
    rw [hemin] at hDdef
    apply Dec.C13PackHelpers.finish_tiny_inexact mode s N 1 (eMin - E4).toNat pref hN (by decide)
    · rw [Nat.one_mul, ← hDdef]; exact hinex
    · rw [Nat.one_mul, Nat.pow_add, ← hDdef, Nat.mul_comm]; exact hlt33
    · omega
    · rw [Nat.one_mul, ← hDdef]; exact hr

/-- a delivered exponent one above `ef` comes with the coefficient `10^33` -/
theorem step_wrap (up down : Bool) (cf : Nat) (ef : Int) (hcf : cf ≤ P34) (hup : up = true → cf < P34) (hef : -6176 ≤ ef) :
    (stepC up down (deliver cf ef).1 (deliver cf ef).2).2.1 = ef + 1 →
      (stepC up down (deliver cf ef).1 (deliver cf ef).2).1 = P33 := by
  have e34 : P34 = 10000000000000000000000000000000000 := rfl
  have e33 : P33 = 1000000000000000000000000000000000 := rfl
  unfold deliver stepC
  by_cases h34 : cf = P34
  · simp only [h34, if_true]
    cases up
    · cases down
      · simp
      · simp only [Bool.false_eq_true, if_false, if_true]
        rw [if_pos (by omega)]
        intro h; simp only [] at h; omega
    · exact absurd (hup rfl) (by omega)
  · simp only [h34, if_false]
    cases up
    · cases down
      · simp only [Bool.false_eq_true, if_false]; intro h; omega
      · simp only [Bool.false_eq_true, if_false, if_true]
        by_cases h33 : cf = P33
        · rw [if_pos h33]
          by_cases h2 : -6176 < ef
          · rw [if_pos h2]; intro h; simp only [] at h; omega
          · rw [if_neg h2]; intro h; simp only [] at h; omega
        · rw [if_neg h33]; intro h; simp only [] at h; omega
    · simp only [if_true]
      by_cases hw : cf + 1 = P34
      · rw [if_pos hw]; intro _; rfl
      · rw [if_neg hw]; intro h; simp only [] at h; omega

/-- **`bid_rounding_correction` — specification** (`C02GenCorrection.correction_spec` with one more conclusion: when the
delivered exponent is `ef + 1` the coefficient is `10^33`) -/
theorem correction_spec' (m : RoundingMode) (L G ML MG : Bool) (e : Int32) (res : U128) (f : UInt32)
    (V D cf : Nat) (ef : Int) (hD : 0 < D)
    (hne : RoundedInt .rne (negW res.w1.toNat) V D cf)
    (hL : L = decide (cf * D < V ∧ 2 * V < 2 * (cf * D) + D)) (hG : G = decide (V < cf * D ∧ 2 * (cf * D) < 2 * V + D))
    (hML : ML = decide (2 * V + D = 2 * (cf * D))) (hMG : MG = decide (2 * V = 2 * (cf * D) + D))
    (hcf : cf ≤ P34) (hcarry : cf = P34 → V ≤ cf * D) (hlow : V < cf * D → cf = P33 → ef = -6176)
    (hef1 : -6176 ≤ ef) (hef2 : ef < 26590)
    (hc : sigW res.w1.toNat res.w0.toNat = (deliver cf ef).1) (he : e.toInt = (deliver cf ef).2) :
    ∃ (c2 : Nat) (e2 : Int) (uf : Bool),
      bid_rounding_correction m L G ML MG e res f =
        .ok (ofBits (encode (if 6111 < e2 then ovfDatum m (negW res.w1.toNat) else .fin (negW res.w1.toNat) c2 e2)),
             outF (L || G || ML || MG) uf (decide (6111 < e2)) f) ∧
      RoundedInt (modeOf m) (negW res.w1.toNat) V D (c2 * 10 ^ (e2 - ef).toNat) ∧
      ef ≤ e2 ∧ e2 ≤ ef + 1 ∧ c2 < P34 ∧ (e2 = ef + 1 → c2 = P33) ∧
      (uf = true ↔ (corrI m (negW res.w1.toNat) L G ML MG = -1 ∧ cf = P33)) := by
  have e34 : P34 = 10000000000000000000000000000000000 := rfl
  have e33 : P33 = 1000000000000000000000000000000000 := rfl
  generalize hs : negW res.w1.toNat = s at *
  have htab := table_correct m s V D cf L G ML MG hD hne hL hG hML hMG
  have upV : upD m s L MG = true → cf * D < V := by
    intro h
    subst hL hMG
    cases m <;> cases s <;> simp only [upD, Bool.not_true, Bool.not_false, Bool.false_and, Bool.true_and, Bool.or_eq_true,
      decide_eq_true_eq, Bool.false_eq_true] at h <;> omega
  have dnV : downD m s G ML = true → V < cf * D := by
    intro h
    subst hG hML
    cases m <;> cases s <;> simp only [downD, Bool.not_true, Bool.not_false, Bool.false_and, Bool.true_and, Bool.or_eq_true,
      decide_eq_true_eq, Bool.false_eq_true] at h <;> omega
  have hup : upD m s L MG = true → cf < P34 := by
    intro h
    have := upV h
    by_contra hcon
    have := hcarry (by omega)
    omega
  have hpos : upD m s L MG = false → downD m s G ML = true → 0 < cf := by
    intro _ h
    have := dnV h
    exact Nat.pos_of_ne_zero (fun h0 => by rw [h0, Nat.zero_mul] at this; omega)
  obtain ⟨v1, v2, v3, v4, v5⟩ := step_value (upD m s L MG) (downD m s G ML) cf ef hcf hup hpos
    (fun _ h => hlow (dnV h)) hef1
  have v6 := step_wrap (upD m s L MG) (downD m s G ML) cf ef hcf hup hef1
  have hd1 : (deliver cf ef).1 < P34 := by unfold deliver; split <;> simp only [] <;> omega
  have hd2 : -6176 ≤ (deliver cf ef).2 ∧ (deliver cf ef).2 < 26592 := by unfold deliver; split <;> simp only [] <;> omega
  have hpos' : upD m (negW res.w1.toNat) L MG = false → downD m (negW res.w1.toNat) G ML = true → 0 < (deliver cf ef).1 := by
    rw [hs]
    intro a b
    have := hpos a b
    unfold deliver; split <;> simp only [] <;> omega
  have hev := correction_eval m L G ML MG e res f _ _ he hd2.1 hd2.2 hc hd1 hpos'
  rw [hs, outW_eq, hs] at hev
  refine ⟨_, _, _, hev, ?_, v2, v3, v4, v6, ?_⟩
  · rw [v1, ← corrI_eq]; exact htab
  · rw [v5, corrI_eq]
    unfold corrOf
    constructor
    · rintro ⟨a, b, c⟩; rw [a, b]; simp [c]
    · rintro ⟨a, c⟩
      refine ⟨?_, ?_, c⟩
      · by_contra hcon
        rw [if_pos (by simpa using hcon)] at a; omega
      · by_contra hcon
        have hu : upD m s L MG = false := by
          by_contra hcon2
          rw [if_pos (by simpa using hcon2)] at a; omega
        rw [hu] at a
        simp only [Bool.false_eq_true, if_false] at a
        rw [if_neg hcon] at a; omega


/-! ## what a path of the block hands to the correction -/

/-- The exact magnitude is `N·10^E4`; at the exponent `ef` (`D = 10^(ef − E4)` units) its nearest-even rounding is `cf ≤ 10^34`
and the four indicators say where `N/D` lies relative to `cf`; the value is not a multiple of `D`, has at most 34 digits at
`ef`, and `ef` is the least exponent or one at which it has 34 digits; the decade-boundary conditions of
`correction_spec` hold. -/
structure Deliv (s : Bool) (N : Nat) (E4 ef : Int) (cf : Nat) (L G ML MG : Bool) : Prop where
  hE : E4 ≤ ef
  hef1 : -6176 ≤ ef
  hef2 : ef ≤ 20000
  hne : RoundedInt .rne s N (10 ^ (ef - E4).toNat) cf
  hL : L = decide (cf * 10 ^ (ef - E4).toNat < N ∧ 2 * N < 2 * (cf * 10 ^ (ef - E4).toNat) + 10 ^ (ef - E4).toNat)
  hG : G = decide (N < cf * 10 ^ (ef - E4).toNat ∧ 2 * (cf * 10 ^ (ef - E4).toNat) < 2 * N + 10 ^ (ef - E4).toNat)
  hML : ML = decide (2 * N + 10 ^ (ef - E4).toNat = 2 * (cf * 10 ^ (ef - E4).toNat))
  hMG : MG = decide (2 * N = 2 * (cf * 10 ^ (ef - E4).toNat) + 10 ^ (ef - E4).toNat)
  hcf : cf ≤ P34
  hcarry : cf = P34 → N ≤ cf * 10 ^ (ef - E4).toNat
  hlow : N < cf * 10 ^ (ef - E4).toNat → cf = P33 → ef = -6176
  hinex : N % 10 ^ (ef - E4).toNat ≠ 0
  hlt : N < 10 ^ 34 * 10 ^ (ef - E4).toNat
  hleast : ef = eMin ∨ 10 ^ 33 * 10 ^ (ef - E4).toNat ≤ N

theorem Deliv.any {s : Bool} {N : Nat} {E4 ef : Int} {cf : Nat} {L G ML MG : Bool} (h : Deliv s N E4 ef cf L G ML MG) :
    (L || G || ML || MG) = true := by
  obtain ⟨_, _, _, hne, hL, hG, hML, hMG, _, _, _, hinex, _, _⟩ := h
  have hD : 0 < 10 ^ (ef - E4).toNat := Nat.pow_pos (by decide)
  generalize 10 ^ (ef - E4).toNat = D at *
  have hne' : N ≠ cf * D := fun h0 => hinex (by rw [h0, Nat.mul_mod_left])
  have e3 : ∀ a : Nat, 2 * a * D = 2 * (a * D) := fun a => Nat.mul_assoc _ _ _
  simp only [RoundedInt, e3] at hne
  subst hL hG hML hMG
  simp only [Bool.or_eq_true, decide_eq_true_eq]
  omega

/-- **a path followed by the correction** (any mode but nearest-even): the word returned is the encoding of `finish`'s datum,
the status word is the incoming one with inexact, underflow if `uf`, overflow if `ov`; `finish`'s flags are described. -/
theorem Deliv.corrected {s : Bool} {N : Nat} {E4 ef : Int} {cf : Nat} {L G ML MG : Bool} (h : Deliv s N E4 ef cf L G ML MG)
    (m : RoundingMode) (hm : m ≠ .NearestEven) (e : Int32) (res : U128) (pf : UInt32) (pref : Int)
    (hs : negW res.w1.toNat = s) (hc : sigW res.w1.toNat res.w0.toNat = (deliver cf ef).1)
    (he : e.toInt = (deliver cf ef).2) :
    ∃ uf ov : Bool,
      bid_rounding_correction m L G ML MG e res pf =
        .ok (ofBits (encode (finish (modeOf m) s N 1 E4 pref).1), outF true uf ov pf) ∧
      (finish (modeOf m) s N 1 E4 pref).2 =
        (if ov = true then fOverflow ||| fInexact
         else if N < 10 ^ 33 * 10 ^ (ef - E4).toNat then fUnderflow ||| fInexact else fInexact) ∧
      (uf = true → N < 10 ^ 33 * 10 ^ (ef - E4).toNat) ∧ (ov = true → ¬ N < 10 ^ 33 * 10 ^ (ef - E4).toNat) := by
  have hany := h.any
  obtain ⟨hE, hef1, hef2, hne, hL, hG, hML, hMG, hcf, hcarry, hlow, hinex, hlt, hleast⟩ := h
  have hD : 0 < 10 ^ (ef - E4).toNat := Nat.pow_pos (by decide)
  subst hs
  obtain ⟨c2, e2, uf, hcode, hr, h1, h2, hc2, hwrap, huf⟩ := correction_spec' m L G ML MG e res pf N _ cf ef hD hne hL hG hML hMG
    hcf hcarry hlow hef1 (by omega) hc he
  have hfin := finish_of_rounded (modeOf m) (negW res.w1.toNat) N E4 ef pref c2 e2 hE (by unfold eMin; exact hef1) hinex hlt
    hleast hr h1 h2 hc2 hwrap
  refine ⟨uf, decide (6111 < e2), ?_, ?_, ?_, ?_⟩
  · rw [hcode, hany, hfin]
    by_cases ho : 6111 < e2
    · rw [if_pos ho, if_pos (by unfold eMax; exact ho), ovfDatum_model m _ hm]
    · rw [if_neg ho, if_neg (by unfold eMax; exact ho)]
  · rw [hfin]
    by_cases ho : 6111 < e2
    · rw [if_pos (by unfold eMax; exact ho)]; simp only [ho, decide_true, if_true]
    · rw [if_neg (by unfold eMax; exact ho)]; simp only [ho, decide_false, Bool.false_eq_true, if_false]
  · intro hu
    obtain ⟨hcorr, hc33⟩ := huf.1 hu
    -- the correction was −1: the value is below cf
    have hlt' : N < cf * 10 ^ (ef - E4).toNat := by
      generalize 10 ^ (ef - E4).toNat = D at *
      rw [corrI_eq] at hcorr
      unfold corrOf at hcorr
      have hdn : downD m (negW res.w1.toNat) G ML = true := by
        by_contra hcon
        by_cases hu2 : upD m (negW res.w1.toNat) L MG = true
        · rw [if_pos hu2] at hcorr; omega
        · rw [if_neg hu2, if_neg hcon] at hcorr; omega
      subst hG hML
      cases m <;> cases hsg : negW res.w1.toNat <;> rw [hsg] at hdn <;>
        simp only [downD, Bool.not_true, Bool.not_false, Bool.false_and, Bool.true_and, Bool.or_eq_true,
          decide_eq_true_eq, Bool.false_eq_true] at hdn <;> omega
    rw [hc33, show P33 = 10 ^ 33 from by decide] at hlt'
    exact hlt'
  · intro ho hti
    have ho' : 6111 < e2 := by simpa using ho
    rcases hleast with hl | hl
    · unfold eMin at hl; omega
    · omega

/-- **a path in mode nearest-even** (no correction): `finish` returns the delivered coefficient and exponent, or overflows -/
theorem Deliv.nearest {s : Bool} {N : Nat} {E4 ef : Int} {cf : Nat} {L G ML MG : Bool} (h : Deliv s N E4 ef cf L G ML MG)
    (pref : Int) :
    finish .rne s N 1 E4 pref =
      if eMax < (deliver cf ef).2 then (.inf s, fOverflow ||| fInexact)
      else (.fin s (deliver cf ef).1 (deliver cf ef).2,
        if N < 10 ^ 33 * 10 ^ (ef - E4).toNat then fUnderflow ||| fInexact else fInexact) := by
  obtain ⟨hE, hef1, hef2, hne, hL, hG, hML, hMG, hcf, hcarry, hlow, hinex, hlt, hleast⟩ := h
  have e34 : P34 = 10000000000000000000000000000000000 := rfl
  have e33 : P33 = 1000000000000000000000000000000000 := rfl
  have hfin := finish_of_rounded .rne s N E4 ef pref (deliver cf ef).1 (deliver cf ef).2 hE (by unfold eMin; exact hef1) hinex hlt
    hleast (by
      unfold deliver
      by_cases hc : cf = P34
      · simp only [hc, if_true]
        rw [show ef + 1 - ef = 1 by omega, show P33 * 10 ^ (1 : Int).toNat = cf from by rw [hc]; rfl]
        exact hne
      · simp only [hc, if_false]
        rw [Int.sub_self]
        simpa using hne)
    (by unfold deliver; split <;> simp only [] <;> omega) (by unfold deliver; split <;> simp only [] <;> omega)
    (by unfold deliver; split <;> simp only [] <;> omega)
    (by unfold deliver; split <;> simp only [] <;> intro h <;> omega)
  rw [hfin]
  have : overflowResult .rne s = .inf s := by cases s <;> rfl
  rw [this]


/-! ## 1. The translated text of the block -/

/-- Cases (1') and (1''A) of `bid128_ext_fma` (bid128_fma.rs, `p34 <= delta - 1 || (p34 == delta && e3 + 6176 < p34 - q3)`): the translated text of the branch, its live variables as parameters -/
def caseZ1 (ptr_is_midpoint_lt_even_ : Bool) (ptr_is_midpoint_gt_even_ : Bool) (ptr_is_inexact_lt_midpoint_ : Bool) (ptr_is_inexact_gt_midpoint_ : Bool) (rnd_mode_ : RoundingMode) (pfpsf_ : UInt32) (res_ : U128) (z_sign_ : UInt64) (p_sign_ : UInt64) (z_exp_ : UInt64) (C3_ : U128) (C4_ : U256) (q3_ : Int32) (q4_ : Int32) (e3_ : Int32) (scale_ : Int32) (ind_ : Int32) (delta_ : Int32) (p34_ : Int32) (is_midpoint_lt_even_ : Bool) (is_midpoint_gt_even_ : Bool) (is_inexact_lt_midpoint_ : Bool) (is_inexact_gt_midpoint_ : Bool) (incr_exp_ : Bool) (R64_ : UInt64) (P128_ : U128) (R128_ : U128) (P192_ : U192) (R192_ : U192) (R256_ : U256) : Except String (U128 × Bool × Bool × Bool × Bool × UInt32) := do
  let mut ptr_is_midpoint_lt_even : Bool := ptr_is_midpoint_lt_even_
  let mut ptr_is_midpoint_gt_even : Bool := ptr_is_midpoint_gt_even_
  let mut ptr_is_inexact_lt_midpoint : Bool := ptr_is_inexact_lt_midpoint_
  let mut ptr_is_inexact_gt_midpoint : Bool := ptr_is_inexact_gt_midpoint_
  let mut rnd_mode : RoundingMode := rnd_mode_
  let mut pfpsf : UInt32 := pfpsf_
  let mut res : U128 := res_
  let mut z_sign : UInt64 := z_sign_
  let mut p_sign : UInt64 := p_sign_
  let mut z_exp : UInt64 := z_exp_
  let mut C3 : U128 := C3_
  let mut C4 : U256 := C4_
  let mut q3 : Int32 := q3_
  let mut q4 : Int32 := q4_
  let mut e3 : Int32 := e3_
  let mut scale : Int32 := scale_
  let mut ind : Int32 := ind_
  let mut delta : Int32 := delta_
  let mut p34 : Int32 := p34_
  let mut is_midpoint_lt_even : Bool := is_midpoint_lt_even_
  let mut is_midpoint_gt_even : Bool := is_midpoint_gt_even_
  let mut is_inexact_lt_midpoint : Bool := is_inexact_lt_midpoint_
  let mut is_inexact_gt_midpoint : Bool := is_inexact_gt_midpoint_
  let mut incr_exp : Bool := incr_exp_
  let mut R64 : UInt64 := R64_
  let mut P128 : U128 := P128_
  let mut R128 : U128 := R128_
  let mut P192 : U192 := P192_
  let mut R192 : U192 := R192_
  let mut R256 : U256 := R256_
  if ((decide (((q3 + e3)) > ((p34 + c_EXP_MAX_UNBIASED)))) && (decide (p34 ≤ (delta - (1 : Int32))))) then
    let mut C4_half : U256 := (← (if (decide (q4 ≤ (0x13 : Int32))) then (do pure (⟨(← tbl64 Dec.Gen.BID_MIDPOINT64 (UInt64.ofInt (toI ((q4 - (1 : Int32)))))), (0 : UInt64), (0 : UInt64), (0 : UInt64)⟩ : U256)) else (do pure (← (if (decide (q4 ≤ (0x26 : Int32))) then (do pure (⟨(← tbl128 Dec.Gen.BID_MIDPOINT128 (UInt64.ofInt (toI ((q4 - (0x14 : Int32)))))).w0, (← tbl128 Dec.Gen.BID_MIDPOINT128 (UInt64.ofInt (toI ((q4 - (0x14 : Int32)))))).w1, (0 : UInt64), (0 : UInt64)⟩ : U256)) else (do pure (← (if (decide (q4 ≤ (0x3a : Int32))) then (do pure (⟨(← tbl192 Dec.Gen.BID_MIDPOINT192 (UInt64.ofInt (toI ((q4 - (0x27 : Int32)))))).w0, (← tbl192 Dec.Gen.BID_MIDPOINT192 (UInt64.ofInt (toI ((q4 - (0x27 : Int32)))))).w1, (← tbl192 Dec.Gen.BID_MIDPOINT192 (UInt64.ofInt (toI ((q4 - (0x27 : Int32)))))).w2, (0 : UInt64)⟩ : U256)) else (do pure (← tbl256 Dec.Gen.BID_MIDPOINT256 (UInt64.ofInt (toI ((q4 - (0x3b : Int32)))))))))))))))
    if ((← (if ((((((rnd_mode == RoundingMode.NearestEven) || (rnd_mode == RoundingMode.NearestAway))) && (p_sign != z_sign)) && (delta == (p34 + (1 : Int32)))) && (((q3 + e3)) == (((p34 + c_EXP_MAX_UNBIASED) + (1 : Int32))))) then (do pure ((← (if (← (if ((← (if (decide (q3 ≤ (0x13 : Int32))) then (do pure (C3.w0 == (← tbl64 Dec.Gen.BID_TEN2K64 (UInt64.ofInt (toI ((q3 - (1 : Int32)))))))) else pure false))) then pure true else (do pure ((← (if ((q3 == (0x14 : Int32)) && (C3.w1 == (0 : UInt64))) then (do pure (C3.w0 == (← tbl64 Dec.Gen.BID_TEN2K64 (UInt64.ofInt (toI 0x13))))) else pure false)))))) then pure true else (do pure ((← (if (← (if (decide (q3 ≥ (0x15 : Int32))) then (do pure (C3.w1 == (← tbl128 Dec.Gen.BID_TEN2K128 (UInt64.ofInt (toI ((q3 - (0x15 : Int32)))))).w1)) else pure false)) then (do pure (C3.w0 == (← tbl128 Dec.Gen.BID_TEN2K128 (UInt64.ofInt (toI ((q3 - (0x15 : Int32)))))).w0)) else pure false)))))))) else pure false)) && (((decide (C4.w3 > C4_half.w3)) || (((C4.w3 == C4_half.w3) && (((decide (C4.w2 > C4_half.w2)) || (((C4.w2 == C4_half.w2) && (((decide (C4.w1 > C4_half.w1)) || (((C4.w1 == C4_half.w1) && (decide (C4.w0 > C4_half.w0))))))))))))))) then
      res := { res with w1 := (z_sign ||| (0x5fffed09bead87c0 : UInt64)) }
      res := { res with w0 := (0x378d8e63ffffffff : UInt64) }
      is_inexact_lt_midpoint := true
      pfpsf := (pfpsf ||| c_StatusFlags_BID_INEXACT_EXCEPTION)
    else
      if (rnd_mode == RoundingMode.NearestEven) then
        res := { res with w1 := (z_sign ||| (0x7800000000000000 : UInt64)) }
        res := { res with w0 := (0 : UInt64) }
        pfpsf := (pfpsf ||| (c_StatusFlags_BID_INEXACT_EXCEPTION ||| c_StatusFlags_BID_OVERFLOW_EXCEPTION))
      else
        if (p_sign == z_sign) then
          is_inexact_lt_midpoint := true
        else
          is_inexact_gt_midpoint := true
        scale := (p34 - q3)
        if (scale == (0 : Int32)) then
          res := { res with w1 := (z_sign ||| C3.w1) }
          res := { res with w0 := C3.w0 }
        else
          if (decide (q3 ≤ (0x13 : Int32))) then
            if (decide (scale ≤ (0x13 : Int32))) then
              res := (← mul_64x64_to_128MACH C3.w0 (← tbl64 Dec.Gen.BID_TEN2K64 (UInt64.ofInt (toI scale))))
            else
              res := (← mul_128x64_to_128 C3.w0 (← tbl128 Dec.Gen.BID_TEN2K128 (UInt64.ofInt (toI ((scale - (0x14 : Int32)))))))
          else
            res := (← mul_128x64_to_128 (← tbl64 Dec.Gen.BID_TEN2K64 (UInt64.ofInt (toI scale))) C3)
        e3 := (e3 - scale)
        res := { res with w1 := (res.w1 ||| z_sign) }
        let t__20 ← bid_rounding_correction rnd_mode is_inexact_lt_midpoint is_inexact_gt_midpoint is_midpoint_lt_even is_midpoint_gt_even e3 res pfpsf
        res := t__20.1
        pfpsf := t__20.2
    ptr_is_midpoint_lt_even := is_midpoint_lt_even
    ptr_is_midpoint_gt_even := is_midpoint_gt_even
    ptr_is_inexact_lt_midpoint := is_inexact_lt_midpoint
    ptr_is_inexact_gt_midpoint := is_inexact_gt_midpoint
    return (res, ptr_is_midpoint_lt_even, ptr_is_midpoint_gt_even, ptr_is_inexact_lt_midpoint, ptr_is_inexact_gt_midpoint, pfpsf)
  if (decide (q3 < p34)) then
    scale := (p34 - q3)
    ind := (e3 + (0x1820 : Int32))
    if (decide (ind < scale)) then
      scale := ind
    if (scale == (0 : Int32)) then
      res := { res with w1 := C3.w1 }
      res := { res with w0 := C3.w0 }
    else
      if (decide (q3 ≤ (0x13 : Int32))) then
        res := (← (if (decide (scale ≤ (0x13 : Int32))) then (do pure (← mul_64x64_to_128MACH C3.w0 (← tbl64 Dec.Gen.BID_TEN2K64 (UInt64.ofInt (toI scale))))) else (do pure (← mul_128x64_to_128 C3.w0 (← tbl128 Dec.Gen.BID_TEN2K128 (UInt64.ofInt (toI ((scale - (0x14 : Int32))))))))))
      else
        res := (← mul_128x64_to_128 (← tbl64 Dec.Gen.BID_TEN2K64 (UInt64.ofInt (toI scale))) C3)
    z_exp := (z_exp - (((UInt64.ofInt (toI scale))) <<< 0x31))
    e3 := (e3 - scale)
    res := { res with w1 := (res.w1 ||| (z_sign ||| ((z_exp &&& c_MASK_EXP)))) }
    if (decide ((scale + q3) < p34)) then
      pfpsf := (pfpsf ||| c_StatusFlags_BID_UNDERFLOW_EXCEPTION)
  else
    scale := (0 : Int32)
    res := { res with w1 := ((z_sign ||| ((((UInt64.ofInt (toI ((e3 + (0x1820 : Int32)))))) <<< 0x31))) ||| C3.w1) }
    res := { res with w0 := C3.w0 }
  if (((p_sign != z_sign)) && ((delta == (((q3 + scale) + (1 : Int32)))))) then
    if (← (if (← (if ((← (if (decide (q3 ≤ (0x13 : Int32))) then (do pure (C3.w0 != (← tbl64 Dec.Gen.BID_TEN2K64 (UInt64.ofInt (toI ((q3 - (1 : Int32)))))))) else pure false))) then pure true else (do pure ((← (if (q3 == (0x14 : Int32)) then (do pure ((← (if (C3.w1 != (0 : UInt64)) then pure true else (do pure (C3.w0 != (← tbl64 Dec.Gen.BID_TEN2K64 (UInt64.ofInt (toI 0x13))))))))) else pure false)))))) then pure true else (do pure ((← (if (decide (q3 ≥ (0x15 : Int32))) then (do pure ((← (if (C3.w1 != (← tbl128 Dec.Gen.BID_TEN2K128 (UInt64.ofInt (toI ((q3 - (0x15 : Int32)))))).w1) then pure true else (do pure (C3.w0 != (← tbl128 Dec.Gen.BID_TEN2K128 (UInt64.ofInt (toI ((q3 - (0x15 : Int32)))))).w0)))))) else pure false)))))) then
      is_inexact_gt_midpoint := true
    else
      if (q4 == (1 : Int32)) then
        R64 := C4.w0
      else
        if (decide (q4 ≤ (0x12 : Int32))) then
          let t__21 ← bid_round64_2_18 q4 (q4 - (1 : Int32)) C4.w0 incr_exp is_midpoint_lt_even is_midpoint_gt_even is_inexact_lt_midpoint is_inexact_gt_midpoint
          incr_exp := t__21.2.1
          is_midpoint_lt_even := t__21.2.2.1
          is_midpoint_gt_even := t__21.2.2.2.1
          is_inexact_lt_midpoint := t__21.2.2.2.2.1
          is_inexact_gt_midpoint := t__21.2.2.2.2.2
          R64 := t__21.1
        else
          if (decide (q4 ≤ (0x26 : Int32))) then
            P128 := { P128 with w1 := C4.w1 }
            P128 := { P128 with w0 := C4.w0 }
            let t__22 ← bid_round128_19_38 q4 (q4 - (1 : Int32)) P128 incr_exp is_midpoint_lt_even is_midpoint_gt_even is_inexact_lt_midpoint is_inexact_gt_midpoint
            incr_exp := t__22.2.1
            is_midpoint_lt_even := t__22.2.2.1
            is_midpoint_gt_even := t__22.2.2.2.1
            is_inexact_lt_midpoint := t__22.2.2.2.2.1
            is_inexact_gt_midpoint := t__22.2.2.2.2.2
            R128 := t__22.1
            R64 := R128.w0
          else
            if (decide (q4 ≤ (0x39 : Int32))) then
              P192 := { P192 with w2 := C4.w2 }
              P192 := { P192 with w1 := C4.w1 }
              P192 := { P192 with w0 := C4.w0 }
              let t__23 ← bid_round192_39_57 q4 (q4 - (1 : Int32)) P192 incr_exp is_midpoint_lt_even is_midpoint_gt_even is_inexact_lt_midpoint is_inexact_gt_midpoint
              incr_exp := t__23.2.1
              is_midpoint_lt_even := t__23.2.2.1
              is_midpoint_gt_even := t__23.2.2.2.1
              is_inexact_lt_midpoint := t__23.2.2.2.2.1
              is_inexact_gt_midpoint := t__23.2.2.2.2.2
              R192 := t__23.1
              R64 := R192.w0
            else
              let t__24 ← bid_round256_58_76 q4 (q4 - (1 : Int32)) C4 incr_exp is_midpoint_lt_even is_midpoint_gt_even is_inexact_lt_midpoint is_inexact_gt_midpoint
              incr_exp := t__24.2.1
              is_midpoint_lt_even := t__24.2.2.1
              is_midpoint_gt_even := t__24.2.2.2.1
              is_inexact_lt_midpoint := t__24.2.2.2.2.1
              is_inexact_gt_midpoint := t__24.2.2.2.2.2
              R256 := t__24.1
              R64 := R256.w0
        if incr_exp then
          R64 := (0xa : UInt64)
      let mut z_at_emin : Bool := (e3 == c_EXP_MIN_UNBIASED)
      if (((((R64 == (5 : UInt64)) && (!is_inexact_lt_midpoint)) && (!is_inexact_gt_midpoint)) && (!is_midpoint_lt_even)) && (!is_midpoint_gt_even)) then
        is_inexact_lt_midpoint := false
        is_inexact_gt_midpoint := false
        is_midpoint_lt_even := true
        is_midpoint_gt_even := false
      else
        if ((((e3 == c_EXP_MIN_UNBIASED)) || (decide (R64 < (5 : UInt64)))) || (((R64 == (5 : UInt64)) && is_inexact_gt_midpoint))) then
          is_inexact_lt_midpoint := false
          is_inexact_gt_midpoint := true
          is_midpoint_lt_even := false
          is_midpoint_gt_even := false
        else
          is_inexact_lt_midpoint := true
          is_inexact_gt_midpoint := false
          is_midpoint_lt_even := false
          is_midpoint_gt_even := false
          if (decide ((q3 + scale) ≤ (0x13 : Int32))) then
            res := { res with w1 := (0 : UInt64) }
            res := { res with w0 := (← tbl64 Dec.Gen.BID_TEN2K64 (UInt64.ofInt (toI ((q3 + scale))))) }
          else
            res := { res with w1 := (← tbl128 Dec.Gen.BID_TEN2K128 (UInt64.ofInt (toI (((q3 + scale) - (0x14 : Int32)))))).w1 }
            res := { res with w0 := (← tbl128 Dec.Gen.BID_TEN2K128 (UInt64.ofInt (toI (((q3 + scale) - (0x14 : Int32)))))).w0 }
          res := { res with w0 := (res.w0 - 1) }
          z_exp := (z_exp - c_EXP_P1)
          e3 := (e3 - 1)
          res := { res with w1 := (res.w1 ||| (z_sign ||| ((((UInt64.ofInt (toI ((e3 + (0x1820 : Int32)))))) <<< 0x31)))) }
      if z_at_emin then
        pfpsf := (pfpsf ||| c_StatusFlags_BID_UNDERFLOW_EXCEPTION)
    pfpsf := (pfpsf ||| c_StatusFlags_BID_INEXACT_EXCEPTION)
  else
    if (p_sign == z_sign) then
      is_inexact_lt_midpoint := true
    else
      is_inexact_gt_midpoint := true
    pfpsf := (pfpsf ||| c_StatusFlags_BID_INEXACT_EXCEPTION)
  if ((((e3 == c_EXP_MIN_UNBIASED) && (decide (((q3 + scale)) < p34)))) || ((((((e3 == c_EXP_MIN_UNBIASED) && (((q3 + scale)) == p34)) && (((res.w1 &&& c_MASK_COEFF)) == (0x314dc6448d93 : UInt64))) && (res.w0 == (0x38c15b0a00000000 : UInt64))) && (z_sign != p_sign)))) then
    pfpsf := (pfpsf ||| c_StatusFlags_BID_UNDERFLOW_EXCEPTION)
  if (rnd_mode != RoundingMode.NearestEven) then
    let t__25 ← bid_rounding_correction rnd_mode is_inexact_lt_midpoint is_inexact_gt_midpoint is_midpoint_lt_even is_midpoint_gt_even e3 res pfpsf
    res := t__25.1
    pfpsf := t__25.2
  ptr_is_midpoint_lt_even := is_midpoint_lt_even
  ptr_is_midpoint_gt_even := is_midpoint_gt_even
  ptr_is_inexact_lt_midpoint := is_inexact_lt_midpoint
  ptr_is_inexact_gt_midpoint := is_inexact_gt_midpoint
  return (res, ptr_is_midpoint_lt_even, ptr_is_midpoint_gt_even, ptr_is_inexact_lt_midpoint, ptr_is_inexact_gt_midpoint, pfpsf)

/-- Case (1'), overflow sub-case (the translated text) -/
def z1Ovf (ptr_is_midpoint_lt_even_ : Bool) (ptr_is_midpoint_gt_even_ : Bool) (ptr_is_inexact_lt_midpoint_ : Bool) (ptr_is_inexact_gt_midpoint_ : Bool) (rnd_mode_ : RoundingMode) (pfpsf_ : UInt32) (res_ : U128) (z_sign_ : UInt64) (p_sign_ : UInt64) (C3_ : U128) (C4_ : U256) (q3_ : Int32) (q4_ : Int32) (e3_ : Int32) (scale_ : Int32) (delta_ : Int32) (p34_ : Int32) (is_midpoint_lt_even_ : Bool) (is_midpoint_gt_even_ : Bool) (is_inexact_lt_midpoint_ : Bool) (is_inexact_gt_midpoint_ : Bool) : Except String (U128 × Bool × Bool × Bool × Bool × UInt32) := do
  let mut ptr_is_midpoint_lt_even : Bool := ptr_is_midpoint_lt_even_
  let mut ptr_is_midpoint_gt_even : Bool := ptr_is_midpoint_gt_even_
  let mut ptr_is_inexact_lt_midpoint : Bool := ptr_is_inexact_lt_midpoint_
  let mut ptr_is_inexact_gt_midpoint : Bool := ptr_is_inexact_gt_midpoint_
  let mut rnd_mode : RoundingMode := rnd_mode_
  let mut pfpsf : UInt32 := pfpsf_
  let mut res : U128 := res_
  let mut z_sign : UInt64 := z_sign_
  let mut p_sign : UInt64 := p_sign_
  let mut C3 : U128 := C3_
  let mut C4 : U256 := C4_
  let mut q3 : Int32 := q3_
  let mut q4 : Int32 := q4_
  let mut e3 : Int32 := e3_
  let mut scale : Int32 := scale_
  let mut delta : Int32 := delta_
  let mut p34 : Int32 := p34_
  let mut is_midpoint_lt_even : Bool := is_midpoint_lt_even_
  let mut is_midpoint_gt_even : Bool := is_midpoint_gt_even_
  let mut is_inexact_lt_midpoint : Bool := is_inexact_lt_midpoint_
  let mut is_inexact_gt_midpoint : Bool := is_inexact_gt_midpoint_
  let mut C4_half : U256 := (← (if (decide (q4 ≤ (0x13 : Int32))) then (do pure (⟨(← tbl64 Dec.Gen.BID_MIDPOINT64 (UInt64.ofInt (toI ((q4 - (1 : Int32)))))), (0 : UInt64), (0 : UInt64), (0 : UInt64)⟩ : U256)) else (do pure (← (if (decide (q4 ≤ (0x26 : Int32))) then (do pure (⟨(← tbl128 Dec.Gen.BID_MIDPOINT128 (UInt64.ofInt (toI ((q4 - (0x14 : Int32)))))).w0, (← tbl128 Dec.Gen.BID_MIDPOINT128 (UInt64.ofInt (toI ((q4 - (0x14 : Int32)))))).w1, (0 : UInt64), (0 : UInt64)⟩ : U256)) else (do pure (← (if (decide (q4 ≤ (0x3a : Int32))) then (do pure (⟨(← tbl192 Dec.Gen.BID_MIDPOINT192 (UInt64.ofInt (toI ((q4 - (0x27 : Int32)))))).w0, (← tbl192 Dec.Gen.BID_MIDPOINT192 (UInt64.ofInt (toI ((q4 - (0x27 : Int32)))))).w1, (← tbl192 Dec.Gen.BID_MIDPOINT192 (UInt64.ofInt (toI ((q4 - (0x27 : Int32)))))).w2, (0 : UInt64)⟩ : U256)) else (do pure (← tbl256 Dec.Gen.BID_MIDPOINT256 (UInt64.ofInt (toI ((q4 - (0x3b : Int32)))))))))))))))
  if ((← (if ((((((rnd_mode == RoundingMode.NearestEven) || (rnd_mode == RoundingMode.NearestAway))) && (p_sign != z_sign)) && (delta == (p34 + (1 : Int32)))) && (((q3 + e3)) == (((p34 + c_EXP_MAX_UNBIASED) + (1 : Int32))))) then (do pure ((← (if (← (if ((← (if (decide (q3 ≤ (0x13 : Int32))) then (do pure (C3.w0 == (← tbl64 Dec.Gen.BID_TEN2K64 (UInt64.ofInt (toI ((q3 - (1 : Int32)))))))) else pure false))) then pure true else (do pure ((← (if ((q3 == (0x14 : Int32)) && (C3.w1 == (0 : UInt64))) then (do pure (C3.w0 == (← tbl64 Dec.Gen.BID_TEN2K64 (UInt64.ofInt (toI 0x13))))) else pure false)))))) then pure true else (do pure ((← (if (← (if (decide (q3 ≥ (0x15 : Int32))) then (do pure (C3.w1 == (← tbl128 Dec.Gen.BID_TEN2K128 (UInt64.ofInt (toI ((q3 - (0x15 : Int32)))))).w1)) else pure false)) then (do pure (C3.w0 == (← tbl128 Dec.Gen.BID_TEN2K128 (UInt64.ofInt (toI ((q3 - (0x15 : Int32)))))).w0)) else pure false)))))))) else pure false)) && (((decide (C4.w3 > C4_half.w3)) || (((C4.w3 == C4_half.w3) && (((decide (C4.w2 > C4_half.w2)) || (((C4.w2 == C4_half.w2) && (((decide (C4.w1 > C4_half.w1)) || (((C4.w1 == C4_half.w1) && (decide (C4.w0 > C4_half.w0))))))))))))))) then
    res := { res with w1 := (z_sign ||| (0x5fffed09bead87c0 : UInt64)) }
    res := { res with w0 := (0x378d8e63ffffffff : UInt64) }
    is_inexact_lt_midpoint := true
    pfpsf := (pfpsf ||| c_StatusFlags_BID_INEXACT_EXCEPTION)
  else
    if (rnd_mode == RoundingMode.NearestEven) then
      res := { res with w1 := (z_sign ||| (0x7800000000000000 : UInt64)) }
      res := { res with w0 := (0 : UInt64) }
      pfpsf := (pfpsf ||| (c_StatusFlags_BID_INEXACT_EXCEPTION ||| c_StatusFlags_BID_OVERFLOW_EXCEPTION))
    else
      if (p_sign == z_sign) then
        is_inexact_lt_midpoint := true
      else
        is_inexact_gt_midpoint := true
      scale := (p34 - q3)
      if (scale == (0 : Int32)) then
        res := { res with w1 := (z_sign ||| C3.w1) }
        res := { res with w0 := C3.w0 }
      else
        if (decide (q3 ≤ (0x13 : Int32))) then
          if (decide (scale ≤ (0x13 : Int32))) then
            res := (← mul_64x64_to_128MACH C3.w0 (← tbl64 Dec.Gen.BID_TEN2K64 (UInt64.ofInt (toI scale))))
          else
            res := (← mul_128x64_to_128 C3.w0 (← tbl128 Dec.Gen.BID_TEN2K128 (UInt64.ofInt (toI ((scale - (0x14 : Int32)))))))
        else
          res := (← mul_128x64_to_128 (← tbl64 Dec.Gen.BID_TEN2K64 (UInt64.ofInt (toI scale))) C3)
      e3 := (e3 - scale)
      res := { res with w1 := (res.w1 ||| z_sign) }
      let t__20 ← bid_rounding_correction rnd_mode is_inexact_lt_midpoint is_inexact_gt_midpoint is_midpoint_lt_even is_midpoint_gt_even e3 res pfpsf
      res := t__20.1
      pfpsf := t__20.2
  ptr_is_midpoint_lt_even := is_midpoint_lt_even
  ptr_is_midpoint_gt_even := is_midpoint_gt_even
  ptr_is_inexact_lt_midpoint := is_inexact_lt_midpoint
  ptr_is_inexact_gt_midpoint := is_inexact_gt_midpoint
  return (res, ptr_is_midpoint_lt_even, ptr_is_midpoint_gt_even, ptr_is_inexact_lt_midpoint, ptr_is_inexact_gt_midpoint, pfpsf)

/-- Cases (1')/(1''A): `res` := z scaled up as far as 34 digits and the least exponent allow (the translated text; the rest of the case as a continuation) -/
def z1Scale {α : Type} (pfpsf_ : UInt32) (res_ : U128) (z_sign_ : UInt64) (z_exp_ : UInt64) (C3_ : U128) (q3_ : Int32) (e3_ : Int32) (scale_ : Int32) (ind_ : Int32) (p34_ : Int32) (k : Int32 → U128 → UInt64 → Int32 → UInt32 → Except String α) : Except String α := do
  let mut pfpsf : UInt32 := pfpsf_
  let mut res : U128 := res_
  let mut z_sign : UInt64 := z_sign_
  let mut z_exp : UInt64 := z_exp_
  let mut C3 : U128 := C3_
  let mut q3 : Int32 := q3_
  let mut e3 : Int32 := e3_
  let mut scale : Int32 := scale_
  let mut ind : Int32 := ind_
  let mut p34 : Int32 := p34_
  if (decide (q3 < p34)) then
    scale := (p34 - q3)
    ind := (e3 + (0x1820 : Int32))
    if (decide (ind < scale)) then
      scale := ind
    if (scale == (0 : Int32)) then
      res := { res with w1 := C3.w1 }
      res := { res with w0 := C3.w0 }
    else
      if (decide (q3 ≤ (0x13 : Int32))) then
        res := (← (if (decide (scale ≤ (0x13 : Int32))) then (do pure (← mul_64x64_to_128MACH C3.w0 (← tbl64 Dec.Gen.BID_TEN2K64 (UInt64.ofInt (toI scale))))) else (do pure (← mul_128x64_to_128 C3.w0 (← tbl128 Dec.Gen.BID_TEN2K128 (UInt64.ofInt (toI ((scale - (0x14 : Int32))))))))))
      else
        res := (← mul_128x64_to_128 (← tbl64 Dec.Gen.BID_TEN2K64 (UInt64.ofInt (toI scale))) C3)
    z_exp := (z_exp - (((UInt64.ofInt (toI scale))) <<< 0x31))
    e3 := (e3 - scale)
    res := { res with w1 := (res.w1 ||| (z_sign ||| ((z_exp &&& c_MASK_EXP)))) }
    if (decide ((scale + q3) < p34)) then
      pfpsf := (pfpsf ||| c_StatusFlags_BID_UNDERFLOW_EXCEPTION)
  else
    scale := (0 : Int32)
    res := { res with w1 := ((z_sign ||| ((((UInt64.ofInt (toI ((e3 + (0x1820 : Int32)))))) <<< 0x31))) ||| C3.w1) }
    res := { res with w0 := C3.w0 }
  k scale res z_exp e3 pfpsf

/-- Cases (1')/(1''A): the indicators, and the borrow across a power of ten (the translated text; the rest as a continuation) -/
def z1Gap {α : Type} (pfpsf_ : UInt32) (res_ : U128) (z_sign_ : UInt64) (p_sign_ : UInt64) (z_exp_ : UInt64) (C3_ : U128) (C4_ : U256) (q3_ : Int32) (q4_ : Int32) (e3_ : Int32) (scale_ : Int32) (delta_ : Int32) (is_midpoint_lt_even_ : Bool) (is_midpoint_gt_even_ : Bool) (is_inexact_lt_midpoint_ : Bool) (is_inexact_gt_midpoint_ : Bool) (incr_exp_ : Bool) (R64_ : UInt64) (P128_ : U128) (R128_ : U128) (P192_ : U192) (R192_ : U192) (R256_ : U256) (k : Bool → Bool → Bool → Bool → U128 → Int32 → UInt32 → Except String α) : Except String α := do
  let mut pfpsf : UInt32 := pfpsf_
  let mut res : U128 := res_
  let mut z_sign : UInt64 := z_sign_
  let mut p_sign : UInt64 := p_sign_
  let mut z_exp : UInt64 := z_exp_
  let mut C3 : U128 := C3_
  let mut C4 : U256 := C4_
  let mut q3 : Int32 := q3_
  let mut q4 : Int32 := q4_
  let mut e3 : Int32 := e3_
  let mut scale : Int32 := scale_
  let mut delta : Int32 := delta_
  let mut is_midpoint_lt_even : Bool := is_midpoint_lt_even_
  let mut is_midpoint_gt_even : Bool := is_midpoint_gt_even_
  let mut is_inexact_lt_midpoint : Bool := is_inexact_lt_midpoint_
  let mut is_inexact_gt_midpoint : Bool := is_inexact_gt_midpoint_
  let mut incr_exp : Bool := incr_exp_
  let mut R64 : UInt64 := R64_
  let mut P128 : U128 := P128_
  let mut R128 : U128 := R128_
  let mut P192 : U192 := P192_
  let mut R192 : U192 := R192_
  let mut R256 : U256 := R256_
  if (((p_sign != z_sign)) && ((delta == (((q3 + scale) + (1 : Int32)))))) then
    if (← (if (← (if ((← (if (decide (q3 ≤ (0x13 : Int32))) then (do pure (C3.w0 != (← tbl64 Dec.Gen.BID_TEN2K64 (UInt64.ofInt (toI ((q3 - (1 : Int32)))))))) else pure false))) then pure true else (do pure ((← (if (q3 == (0x14 : Int32)) then (do pure ((← (if (C3.w1 != (0 : UInt64)) then pure true else (do pure (C3.w0 != (← tbl64 Dec.Gen.BID_TEN2K64 (UInt64.ofInt (toI 0x13))))))))) else pure false)))))) then pure true else (do pure ((← (if (decide (q3 ≥ (0x15 : Int32))) then (do pure ((← (if (C3.w1 != (← tbl128 Dec.Gen.BID_TEN2K128 (UInt64.ofInt (toI ((q3 - (0x15 : Int32)))))).w1) then pure true else (do pure (C3.w0 != (← tbl128 Dec.Gen.BID_TEN2K128 (UInt64.ofInt (toI ((q3 - (0x15 : Int32)))))).w0)))))) else pure false)))))) then
      is_inexact_gt_midpoint := true
    else
      if (q4 == (1 : Int32)) then
        R64 := C4.w0
      else
        if (decide (q4 ≤ (0x12 : Int32))) then
          let t__21 ← bid_round64_2_18 q4 (q4 - (1 : Int32)) C4.w0 incr_exp is_midpoint_lt_even is_midpoint_gt_even is_inexact_lt_midpoint is_inexact_gt_midpoint
          incr_exp := t__21.2.1
          is_midpoint_lt_even := t__21.2.2.1
          is_midpoint_gt_even := t__21.2.2.2.1
          is_inexact_lt_midpoint := t__21.2.2.2.2.1
          is_inexact_gt_midpoint := t__21.2.2.2.2.2
          R64 := t__21.1
        else
          if (decide (q4 ≤ (0x26 : Int32))) then
            P128 := { P128 with w1 := C4.w1 }
            P128 := { P128 with w0 := C4.w0 }
            let t__22 ← bid_round128_19_38 q4 (q4 - (1 : Int32)) P128 incr_exp is_midpoint_lt_even is_midpoint_gt_even is_inexact_lt_midpoint is_inexact_gt_midpoint
            incr_exp := t__22.2.1
            is_midpoint_lt_even := t__22.2.2.1
            is_midpoint_gt_even := t__22.2.2.2.1
            is_inexact_lt_midpoint := t__22.2.2.2.2.1
            is_inexact_gt_midpoint := t__22.2.2.2.2.2
            R128 := t__22.1
            R64 := R128.w0
          else
            if (decide (q4 ≤ (0x39 : Int32))) then
              P192 := { P192 with w2 := C4.w2 }
              P192 := { P192 with w1 := C4.w1 }
              P192 := { P192 with w0 := C4.w0 }
              let t__23 ← bid_round192_39_57 q4 (q4 - (1 : Int32)) P192 incr_exp is_midpoint_lt_even is_midpoint_gt_even is_inexact_lt_midpoint is_inexact_gt_midpoint
              incr_exp := t__23.2.1
              is_midpoint_lt_even := t__23.2.2.1
              is_midpoint_gt_even := t__23.2.2.2.1
              is_inexact_lt_midpoint := t__23.2.2.2.2.1
              is_inexact_gt_midpoint := t__23.2.2.2.2.2
              R192 := t__23.1
              R64 := R192.w0
            else
              let t__24 ← bid_round256_58_76 q4 (q4 - (1 : Int32)) C4 incr_exp is_midpoint_lt_even is_midpoint_gt_even is_inexact_lt_midpoint is_inexact_gt_midpoint
              incr_exp := t__24.2.1
              is_midpoint_lt_even := t__24.2.2.1
              is_midpoint_gt_even := t__24.2.2.2.1
              is_inexact_lt_midpoint := t__24.2.2.2.2.1
              is_inexact_gt_midpoint := t__24.2.2.2.2.2
              R256 := t__24.1
              R64 := R256.w0
        if incr_exp then
          R64 := (0xa : UInt64)
      let mut z_at_emin : Bool := (e3 == c_EXP_MIN_UNBIASED)
      if (((((R64 == (5 : UInt64)) && (!is_inexact_lt_midpoint)) && (!is_inexact_gt_midpoint)) && (!is_midpoint_lt_even)) && (!is_midpoint_gt_even)) then
        is_inexact_lt_midpoint := false
        is_inexact_gt_midpoint := false
        is_midpoint_lt_even := true
        is_midpoint_gt_even := false
      else
        if ((((e3 == c_EXP_MIN_UNBIASED)) || (decide (R64 < (5 : UInt64)))) || (((R64 == (5 : UInt64)) && is_inexact_gt_midpoint))) then
          is_inexact_lt_midpoint := false
          is_inexact_gt_midpoint := true
          is_midpoint_lt_even := false
          is_midpoint_gt_even := false
        else
          is_inexact_lt_midpoint := true
          is_inexact_gt_midpoint := false
          is_midpoint_lt_even := false
          is_midpoint_gt_even := false
          if (decide ((q3 + scale) ≤ (0x13 : Int32))) then
            res := { res with w1 := (0 : UInt64) }
            res := { res with w0 := (← tbl64 Dec.Gen.BID_TEN2K64 (UInt64.ofInt (toI ((q3 + scale))))) }
          else
            res := { res with w1 := (← tbl128 Dec.Gen.BID_TEN2K128 (UInt64.ofInt (toI (((q3 + scale) - (0x14 : Int32)))))).w1 }
            res := { res with w0 := (← tbl128 Dec.Gen.BID_TEN2K128 (UInt64.ofInt (toI (((q3 + scale) - (0x14 : Int32)))))).w0 }
          res := { res with w0 := (res.w0 - 1) }
          z_exp := (z_exp - c_EXP_P1)
          e3 := (e3 - 1)
          res := { res with w1 := (res.w1 ||| (z_sign ||| ((((UInt64.ofInt (toI ((e3 + (0x1820 : Int32)))))) <<< 0x31)))) }
      if z_at_emin then
        pfpsf := (pfpsf ||| c_StatusFlags_BID_UNDERFLOW_EXCEPTION)
    pfpsf := (pfpsf ||| c_StatusFlags_BID_INEXACT_EXCEPTION)
  else
    if (p_sign == z_sign) then
      is_inexact_lt_midpoint := true
    else
      is_inexact_gt_midpoint := true
    pfpsf := (pfpsf ||| c_StatusFlags_BID_INEXACT_EXCEPTION)
  k is_midpoint_lt_even is_midpoint_gt_even is_inexact_lt_midpoint is_inexact_gt_midpoint res e3 pfpsf

/-- Cases (1')/(1''A): tininess, correction for the rounding mode, return (the translated text) -/
def z1Tail (ptr_is_midpoint_lt_even_ : Bool) (ptr_is_midpoint_gt_even_ : Bool) (ptr_is_inexact_lt_midpoint_ : Bool) (ptr_is_inexact_gt_midpoint_ : Bool) (rnd_mode_ : RoundingMode) (pfpsf_ : UInt32) (res_ : U128) (z_sign_ : UInt64) (p_sign_ : UInt64) (q3_ : Int32) (e3_ : Int32) (scale_ : Int32) (p34_ : Int32) (is_midpoint_lt_even_ : Bool) (is_midpoint_gt_even_ : Bool) (is_inexact_lt_midpoint_ : Bool) (is_inexact_gt_midpoint_ : Bool) : Except String (U128 × Bool × Bool × Bool × Bool × UInt32) := do
  let mut ptr_is_midpoint_lt_even : Bool := ptr_is_midpoint_lt_even_
  let mut ptr_is_midpoint_gt_even : Bool := ptr_is_midpoint_gt_even_
  let mut ptr_is_inexact_lt_midpoint : Bool := ptr_is_inexact_lt_midpoint_
  let mut ptr_is_inexact_gt_midpoint : Bool := ptr_is_inexact_gt_midpoint_
  let mut rnd_mode : RoundingMode := rnd_mode_
  let mut pfpsf : UInt32 := pfpsf_
  let mut res : U128 := res_
  let mut z_sign : UInt64 := z_sign_
  let mut p_sign : UInt64 := p_sign_
  let mut q3 : Int32 := q3_
  let mut e3 : Int32 := e3_
  let mut scale : Int32 := scale_
  let mut p34 : Int32 := p34_
  let mut is_midpoint_lt_even : Bool := is_midpoint_lt_even_
  let mut is_midpoint_gt_even : Bool := is_midpoint_gt_even_
  let mut is_inexact_lt_midpoint : Bool := is_inexact_lt_midpoint_
  let mut is_inexact_gt_midpoint : Bool := is_inexact_gt_midpoint_
  if ((((e3 == c_EXP_MIN_UNBIASED) && (decide (((q3 + scale)) < p34)))) || ((((((e3 == c_EXP_MIN_UNBIASED) && (((q3 + scale)) == p34)) && (((res.w1 &&& c_MASK_COEFF)) == (0x314dc6448d93 : UInt64))) && (res.w0 == (0x38c15b0a00000000 : UInt64))) && (z_sign != p_sign)))) then
    pfpsf := (pfpsf ||| c_StatusFlags_BID_UNDERFLOW_EXCEPTION)
  if (rnd_mode != RoundingMode.NearestEven) then
    let t__25 ← bid_rounding_correction rnd_mode is_inexact_lt_midpoint is_inexact_gt_midpoint is_midpoint_lt_even is_midpoint_gt_even e3 res pfpsf
    res := t__25.1
    pfpsf := t__25.2
  ptr_is_midpoint_lt_even := is_midpoint_lt_even
  ptr_is_midpoint_gt_even := is_midpoint_gt_even
  ptr_is_inexact_lt_midpoint := is_inexact_lt_midpoint
  ptr_is_inexact_gt_midpoint := is_inexact_gt_midpoint
  return (res, ptr_is_midpoint_lt_even, ptr_is_midpoint_gt_even, ptr_is_inexact_lt_midpoint, ptr_is_inexact_gt_midpoint, pfpsf)



theorem caseZ1_eq (pml pmg pil pig : Bool) (rnd_mode : RoundingMode) (pfpsf : UInt32) (res : U128) (z_sign p_sign z_exp : UInt64)
    (C3 : U128) (C4 : U256) (q3 q4 e3 scale ind delta p34 : Int32) (ml mg il ig incr : Bool) (R64 : UInt64) (P128 R128 : U128)
    (P192 R192 : U192) (R256 : U256) :
    caseZ1 pml pmg pil pig rnd_mode pfpsf res z_sign p_sign z_exp C3 C4 q3 q4 e3 scale ind delta p34 ml mg il ig incr R64 P128 R128
        P192 R192 R256 =
      if ((decide (((q3 + e3)) > ((p34 + c_EXP_MAX_UNBIASED)))) && (decide (p34 ≤ (delta - (1 : Int32))))) = true then
        z1Ovf pml pmg pil pig rnd_mode pfpsf res z_sign p_sign C3 C4 q3 q4 e3 scale delta p34 ml mg il ig
      else
        z1Scale pfpsf res z_sign z_exp C3 q3 e3 scale ind p34 fun scale res z_exp e3 pfpsf =>
          z1Gap pfpsf res z_sign p_sign z_exp C3 C4 q3 q4 e3 scale delta ml mg il ig incr R64 P128 R128 P192 R192 R256
            fun ml mg il ig res e3 pfpsf =>
              z1Tail pml pmg pil pig rnd_mode pfpsf res z_sign p_sign q3 e3 scale p34 ml mg il ig := by
  rfl


end Dec.C02GenFmaZ
