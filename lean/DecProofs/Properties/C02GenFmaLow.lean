/-
  C02GenFmaLow — the "Low" block of the fused multiply-add `bid128_ext_fma` of bid128_fma.rs as translated in
  `DecGen/Code.lean`: the routine `bid_add_and_round` (Rust lines 241–664), proved COMPLETELY against the model, and the
  Cases (15)–(17) arm of `bid128_ext_fma` (lines 3896–3935) that calls it.  (Cases (11), (12), lines 3413–3895, have their own
  three-stage pipeline; they are the subject of C02GenFma1112, which can use the number-level lemmas of this file.)

  HEADLINE: `add_and_round_spec` — for every rounding mode, both signs, every scale 0…68, every status word,

      bid_add_and_round q3 q4 e4 delta 34 z_sign p_sign C3 C4 mode … f
        = .ok (encode (addFin mode sp C4 E sz C3 (E + scale) E).1, indicators, f ||| (addFin …).2)

  i.e. the exact sum `±C4·10^E ± C3·10^(E+scale)` delivered by ONE `finish` (or the signed zero of an exact cancellation): the
  finite clause of `fmaD`.  `case1517_spec` is the same statement for the Cases (15)–(17) arm.

  SHARED LEMMAS (top of the file, for the other blocks): the three small translated helpers
    * `add256_spec`  : `bid_add256 x y`  = the sum modulo 2^256   (`add256_exact` when it fits),
    * `sub256_spec`  : `bid_sub256 x y`  = the difference modulo 2^256   (`sub256_exact`),
    * `nr_digits256_spec` : `bid_bid_nr_digits256 R` = the number of decimal digits of `R` for `0 < R < 10^69`
      (1 for `R = 0`; 69 for every `R ≥ 10^68`),
  the four-word comparisons (`ge256_iff`, `zero256_iff`), the table reads `ten2k64_get`, `ten2k128_get`, `ten2k256_get`, and
  `countWhileAux_spec` (the `take_while().count()` idiom).

  PLAN OF THE PROOF.  §1 the routine cut into ten literal pieces (`aar_shape` by `rfl`).  §2 the mathematics of rounding twice:
  a second nearest-even rounding + the code's repair = ONE nearest-even rounding with exact position indicators (`two_step`,
  `half_step` — the arm where D18 lived —, `zero_step`).  §3 the pieces evaluated (tail, repair, the three underflow arms).
  §4 the tail on numbers: delivered nearest-even coefficient + the correction table = `finish` in the mode asked for
  (`finish_rounded`, `tail_math`).  §5–6 tail and underflow stage deliver `finish` (`aarTail_spec`, `aarUF_spec`).  §7–8 the
  first rounding (≤ 34 digits: `caseA_spec`; 35–69 digits, three helpers: `caseB_spec`).  §9 addition/subtraction, scaling, the
  routine.  §10 Cases (15)–(17).  §11 examples.
-/
import Lean.Elab.Tactic
import DecGen.Code
import DecProofs.Core.Digits
import DecProofs.Core.FinishUnique
import DecProofs.Properties.C01GenArith
import DecProofs.Properties.C02GenRound
import DecProofs.Properties.C02GenCorrection
import DecProofs.Properties.C12GenNaN
import DecProofs.Properties.C04ScanNum
import Mathlib.Tactic.SplitIfs
import Mathlib.Tactic.Ring
import Mathlib.Tactic.Linarith

set_option linter.unusedSimpArgs false
set_option linter.unusedVariables false
set_option linter.unnecessarySeqFocus false

namespace Dec.C02GenFmaLow
open Dec.Rs Dec.Gen.Code

/-! ## 0. Shared: the small helpers of bid128_fma.rs -/

/-- the `U256` holding `n` (modulo 2^256) -/
def mk256 (n : Nat) : U256 :=
  ⟨UInt64.ofNat (n % 2 ^ 64), UInt64.ofNat (n / 2 ^ 64 % 2 ^ 64), UInt64.ofNat (n / 2 ^ 128 % 2 ^ 64),
    UInt64.ofNat (n / 2 ^ 192 % 2 ^ 64)⟩

theorem mk256_val (n : Nat) (h : n < 2 ^ 256) : (mk256 n).toNat' = n := by
  unfold mk256 U256.toNat'
  simp only [UInt64.toNat_ofNat']
  omega

theorem toNat'_lt (x : U256) : x.toNat' < 2 ^ 256 := by
  have h0 := x.w0.toNat_lt; have h1 := x.w1.toNat_lt; have h2 := x.w2.toNat_lt; have h3 := x.w3.toNat_lt
  unfold U256.toNat'; omega

theorem toNat'_inj (x y : U256) (h : x.toNat' = y.toNat') : x = y := by
  have h0 := x.w0.toNat_lt; have h1 := x.w1.toNat_lt; have h2 := x.w2.toNat_lt; have h3 := x.w3.toNat_lt
  have g0 := y.w0.toNat_lt; have g1 := y.w1.toNat_lt; have g2 := y.w2.toNat_lt; have g3 := y.w3.toNat_lt
  unfold U256.toNat' at h
  obtain ⟨a, b, c, d⟩ := x
  obtain ⟨a', b', c', d'⟩ := y
  simp only at *
  have e0 : a.toNat = a'.toNat := by omega
  have e1 : b.toNat = b'.toNat := by omega
  have e2 : c.toNat = c'.toNat := by omega
  have e3 : d.toNat = d'.toNat := by omega
  rw [UInt64.toNat_inj] at e0 e1 e2 e3
  subst e0 e1 e2 e3
  rfl

/-- **`bid_add256`**: the sum modulo 2^256 (never panics) -/
theorem add256_spec (x y : U256) :
    ∃ r, bid_add256 x y = .ok r ∧ r.toNat' = (x.toNat' + y.toNat') % 2 ^ 256 := by
  unfold bid_add256
  simp only [bind, Except.bind, pure, Except.pure]
  have h0 := x.w0.toNat_lt; have h1 := x.w1.toNat_lt; have h2 := x.w2.toNat_lt; have h3 := x.w3.toNat_lt
  have g0 := y.w0.toNat_lt; have g1 := y.w1.toNat_lt; have g2 := y.w2.toNat_lt; have g3 := y.w3.toNat_lt
  split_ifs <;> refine ⟨_, rfl, ?_⟩ <;>
    simp only [decide_eq_true_eq, beq_iff_eq, UInt64.lt_iff_toNat_lt, ← UInt64.toNat_inj, UInt64.toNat_add,
      UInt64.toNat_one, UInt64.toNat_zero, Nat.not_lt, U256.toNat'] at * <;> omega

/-- … so the sum itself when it fits -/
theorem add256_exact (x y : U256) (h : x.toNat' + y.toNat' < 2 ^ 256) :
    bid_add256 x y = .ok (mk256 (x.toNat' + y.toNat')) := by
  obtain ⟨r, hr, hv⟩ := add256_spec x y
  rw [hr, Nat.mod_eq_of_lt h] at *
  exact congrArg Except.ok (toNat'_inj _ _ (by rw [hv, mk256_val _ h]))

example : bid_add256 ⟨0xffffffffffffffff, 0xffffffffffffffff, 0xffffffffffffffff, 0⟩ ⟨1, 0, 0, 0⟩ = .ok ⟨0, 0, 0, 1⟩ := by
  decide

/-- **`bid_sub256`**: the difference modulo 2^256 (never panics) -/
theorem sub256_spec (x y : U256) :
    ∃ r, bid_sub256 x y = .ok r ∧ r.toNat' = (x.toNat' + 2 ^ 256 - y.toNat') % 2 ^ 256 := by
  unfold bid_sub256
  simp only [bind, Except.bind, pure, Except.pure]
  have h0 := x.w0.toNat_lt; have h1 := x.w1.toNat_lt; have h2 := x.w2.toNat_lt; have h3 := x.w3.toNat_lt
  have g0 := y.w0.toNat_lt; have g1 := y.w1.toNat_lt; have g2 := y.w2.toNat_lt; have g3 := y.w3.toNat_lt
  have em : (0xffffffffffffffff : UInt64).toNat = 18446744073709551615 := rfl
  split_ifs <;> refine ⟨_, rfl, ?_⟩ <;>
    simp only [decide_eq_true_eq, beq_iff_eq, gt_iff_lt, UInt64.lt_iff_toNat_lt, ← UInt64.toNat_inj, UInt64.toNat_sub,
      UInt64.toNat_one, em, Nat.not_lt, U256.toNat'] at * <;> omega

/-- … so the difference itself when the subtrahend is not larger -/
theorem sub256_exact (x y : U256) (h : y.toNat' ≤ x.toNat') :
    bid_sub256 x y = .ok (mk256 (x.toNat' - y.toNat')) := by
  obtain ⟨r, hr, hv⟩ := sub256_spec x y
  have hx := toNat'_lt x
  rw [hr]
  refine congrArg Except.ok (toNat'_inj _ _ ?_)
  rw [hv, mk256_val _ (by omega)]
  omega

example : bid_sub256 ⟨0, 0, 0, 1⟩ ⟨1, 0, 0, 0⟩ = .ok ⟨0xffffffffffffffff, 0xffffffffffffffff, 0xffffffffffffffff, 0⟩ := by
  decide

/-! ### comparisons of four-word numbers -/

/-- the open-coded `a ≥ b` on four words (bid128_fma.rs lines 334–337) -/
theorem ge256_iff (a b : U256) :
    (((((decide (a.w3 > b.w3)) || (((a.w3 == b.w3) && (decide (a.w2 > b.w2))))) ||
        ((((a.w3 == b.w3) && (a.w2 == b.w2)) && (decide (a.w1 > b.w1))))) ||
        (((((a.w3 == b.w3) && (a.w2 == b.w2)) && (a.w1 == b.w1)) && (decide (a.w0 ≥ b.w0))))) : Bool)
      = decide (b.toNat' ≤ a.toNat') := by
  have h0 := a.w0.toNat_lt; have h1 := a.w1.toNat_lt; have h2 := a.w2.toNat_lt; have h3 := a.w3.toNat_lt
  have g0 := b.w0.toNat_lt; have g1 := b.w1.toNat_lt; have g2 := b.w2.toNat_lt; have g3 := b.w3.toNat_lt
  rw [Bool.eq_iff_iff, decide_eq_true_eq]
  simp only [Bool.or_eq_true, Bool.and_eq_true, decide_eq_true_eq, beq_iff_eq, gt_iff_lt, ge_iff_le,
    UInt64.lt_iff_toNat_lt, UInt64.le_iff_toNat_le, ← UInt64.toNat_inj, U256.toNat']
  omega

/-- the open-coded `!(R < d)` on four words of `bid_bid_nr_digits256` -/
theorem nlt256_iff (a d : U256) :
    ((!(((((decide (a.w3 < d.w3)) || (((a.w3 == d.w3) && (decide (a.w2 < d.w2))))) ||
        ((((a.w3 == d.w3) && (a.w2 == d.w2)) && (decide (a.w1 < d.w1))))) ||
        (((((a.w3 == d.w3) && (a.w2 == d.w2)) && (a.w1 == d.w1)) && (decide (a.w0 < d.w0))))))) : Bool)
      = decide (d.toNat' ≤ a.toNat') := by
  have h0 := a.w0.toNat_lt; have h1 := a.w1.toNat_lt; have h2 := a.w2.toNat_lt; have h3 := a.w3.toNat_lt
  have g0 := d.w0.toNat_lt; have g1 := d.w1.toNat_lt; have g2 := d.w2.toNat_lt; have g3 := d.w3.toNat_lt
  rw [Bool.eq_iff_iff, decide_eq_true_eq]
  simp only [Bool.not_eq_true', Bool.or_eq_false_iff, Bool.and_eq_false_iff, decide_eq_false_iff_not,
    decide_eq_true_eq, beq_eq_false_iff_ne, ne_eq, UInt64.lt_iff_toNat_lt, ← UInt64.toNat_inj, U256.toNat']
  omega

/-- all four words zero -/
theorem zero256_iff (a : U256) :
    ((((a.w3 == (0 : UInt64)) && (a.w2 == (0 : UInt64))) && (a.w1 == (0 : UInt64))) && (a.w0 == (0 : UInt64)))
      = decide (a.toNat' = 0) := by
  rw [Bool.eq_iff_iff, decide_eq_true_eq]
  simp only [Bool.and_eq_true, beq_iff_eq, decide_eq_true_eq, ← UInt64.toNat_inj, UInt64.toNat_zero, U256.toNat']
  omega

/-! ### `take_while(..).count()` -/

/-- the count of leading entries satisfying a predicate that holds exactly below a threshold `m` -/
theorem countWhileAux_spec {α : Type} (get : Nat → Except String α) (p : α → Bool) (m : Nat) :
    ∀ (n i acc : Nat), (∀ j, i ≤ j → j < i + n → ∃ v, get j = .ok v ∧ p v = decide (j < m)) →
      countWhileAux get p n i acc = .ok (acc + (min (i + n) (max m i) - i)) := by
  intro n
  induction n with
  | zero => intro i acc _; simp [countWhileAux]
  | succ n ih =>
    intro i acc h
    obtain ⟨v, hv, hp⟩ := h i (le_refl _) (by omega)
    unfold countWhileAux
    simp only [bind, Except.bind, hv]
    by_cases him : i < m
    · rw [hp, decide_eq_true him, if_pos rfl, ih (i + 1) (acc + 1) (fun j h1 h2 => h j (by omega) (by omega))]
      congr 1; omega
    · rw [hp, decide_eq_false him]
      simp only [Bool.false_eq_true, if_false, pure, Except.pure]
      congr 1; omega

/-! ### the power-of-ten tables, as read by the code -/

theorem ten2k64_all : (List.range 20).all (fun i =>
    match tbl64 Dec.Gen.BID_TEN2K64 (UInt64.ofNat i) with | .ok v => v == UInt64.ofNat (10 ^ i) | _ => false) = true := by
  decide +kernel
theorem ten2k128_all : (List.range 19).all (fun i =>
    match tbl128 Dec.Gen.BID_TEN2K128 (UInt64.ofNat i) with
    | .ok v => v == ⟨UInt64.ofNat (10 ^ (i + 20) % 2 ^ 64), UInt64.ofNat (10 ^ (i + 20) / 2 ^ 64)⟩ | _ => false) = true := by
  decide +kernel
theorem ten2k256_all : (List.range 39).all (fun i =>
    match tbl256 Dec.Gen.BID_TEN2K256 (UInt64.ofNat i) with | .ok v => v == mk256 (10 ^ (i + 39)) | _ => false) = true := by
  decide +kernel

/-- the `U128` holding `n` (modulo 2^128) -/
def mk128 (n : Nat) : U128 := ⟨UInt64.ofNat (n % 2 ^ 64), UInt64.ofNat (n / 2 ^ 64)⟩

theorem mk128_val (n : Nat) (h : n < 2 ^ 128) : (mk128 n).toNat' = n := by
  unfold mk128 U128.toNat'
  simp only [UInt64.toNat_ofNat']
  omega

/-- `BID_TEN2K64[i] = 10^i`, `i < 20` -/
theorem ten2k64_get (i : Nat) (h : i < 20) : tbl64 Dec.Gen.BID_TEN2K64 (UInt64.ofNat i) = .ok (UInt64.ofNat (10 ^ i)) := by
  have := List.all_eq_true.1 ten2k64_all i (List.mem_range.2 h)
  revert this
  cases tbl64 Dec.Gen.BID_TEN2K64 (UInt64.ofNat i) with
  | error e => intro h; exact Bool.noConfusion h
  | ok v => intro h; rw [eq_of_beq h]

/-- `BID_TEN2K128[i] = 10^(i + 20)`, `i < 19` -/
theorem ten2k128_get (i : Nat) (h : i < 19) : tbl128 Dec.Gen.BID_TEN2K128 (UInt64.ofNat i) = .ok (mk128 (10 ^ (i + 20))) := by
  have := List.all_eq_true.1 ten2k128_all i (List.mem_range.2 h)
  revert this
  cases tbl128 Dec.Gen.BID_TEN2K128 (UInt64.ofNat i) with
  | error e => intro h; exact Bool.noConfusion h
  | ok v => intro h; rw [eq_of_beq h]; rfl

/-- `BID_TEN2K256[i] = 10^(i + 39)`, `i < 39` -/
theorem ten2k256_get (i : Nat) (h : i < 39) : tbl256 Dec.Gen.BID_TEN2K256 (UInt64.ofNat i) = .ok (mk256 (10 ^ (i + 39))) := by
  have := List.all_eq_true.1 ten2k256_all i (List.mem_range.2 h)
  revert this
  cases tbl256 Dec.Gen.BID_TEN2K256 (UInt64.ofNat i) with
  | error e => intro h; exact Bool.noConfusion h
  | ok v => intro h; rw [eq_of_beq h]

theorem pow_lt_64 (i : Nat) (h : i < 20) : 10 ^ i < 2 ^ 64 :=
  lt_of_le_of_lt (Nat.pow_le_pow_right (by decide) (by omega : i ≤ 19)) (by norm_num)
theorem pow_lt_128 (i : Nat) (h : i < 39) : 10 ^ i < 2 ^ 128 :=
  lt_of_le_of_lt (Nat.pow_le_pow_right (by decide) (by omega : i ≤ 38)) (by norm_num)
theorem pow_lt_256 (i : Nat) (h : i < 78) : 10 ^ i < 2 ^ 256 :=
  lt_of_le_of_lt (Nat.pow_le_pow_right (by decide) (by omega : i ≤ 77)) (by norm_num)

/-! ### `bid_bid_nr_digits256` -/

/-- "`10^j ≤ R`" is "`j` is below the number of digits" -/
theorem pow_le_iff_lt_ndigits (R j : Nat) : 10 ^ j ≤ R ↔ j < ndigits R := by
  by_cases h : 0 < R
  · exact (lt_ndigits_iff h).symm
  · have : R = 0 := by omega
    subst this
    rw [ndigits_zero]
    have : 0 < 10 ^ j := Nat.pow_pos (by decide)
    omega

/-- the count over `BID_TEN2K64[1..=19]` -/
theorem count64 (w : UInt64) :
    countWhile64 Dec.Gen.BID_TEN2K64 1 19 (fun x => decide (w ≥ x))
      = .ok (UInt64.ofNat (min 20 (max (ndigits w.toNat) 1) - 1)) := by
  unfold countWhile64
  rw [ten2k64_get 19 (by omega)]
  simp only [bind, Except.bind, pure, Except.pure]
  rw [countWhileAux_spec _ _ (ndigits w.toNat) (19 + 1 - 1) 1 0 (fun j h1 h2 => ⟨_, ten2k64_get j (by omega), by
    rw [decide_eq_decide, ge_iff_le, UInt64.le_iff_toNat_le, UInt64.toNat_ofNat', Nat.mod_eq_of_lt (pow_lt_64 j (by omega))]
    exact pow_le_iff_lt_ndigits _ _⟩)]
  simp

/-- the count over `BID_TEN2K128[1..=18]` -/
theorem count128 (w1 w0 : UInt64) :
    countWhile128 Dec.Gen.BID_TEN2K128 1 18
        (fun d => !((decide (w1 < d.w1)) || ((w1 == d.w1) && (decide (w0 < d.w0)))))
      = .ok (UInt64.ofNat (min 19 (max (ndigits (w0.toNat + 2 ^ 64 * w1.toNat) - 20) 1) - 1)) := by
  unfold countWhile128
  rw [ten2k128_get 18 (by omega)]
  simp only [bind, Except.bind, pure, Except.pure]
  rw [countWhileAux_spec _ _ (ndigits (w0.toNat + 2 ^ 64 * w1.toNat) - 20) (18 + 1 - 1) 1 0 (fun j h1 h2 =>
    ⟨_, ten2k128_get j (by omega), by
      have hv := mk128_val (10 ^ (j + 20)) (pow_lt_128 _ (by omega))
      have h0 := w0.toNat_lt; have g0 := (mk128 (10 ^ (j + 20))).w0.toNat_lt
      unfold U128.toNat' at hv
      rw [Bool.eq_iff_iff, decide_eq_true_eq]
      simp only [Bool.not_eq_true', Bool.or_eq_false_iff, Bool.and_eq_false_iff, decide_eq_false_iff_not,
        beq_eq_false_iff_ne, ne_eq, UInt64.lt_iff_toNat_lt, ← UInt64.toNat_inj]
      have := pow_le_iff_lt_ndigits (w0.toNat + 2 ^ 64 * w1.toNat) (j + 20)
      omega⟩)]
  simp

/-- the count over `BID_TEN2K256[1..=29]` -/
theorem count256 (R : U256) :
    countWhile256 Dec.Gen.BID_TEN2K256 1 29
        (fun d => (!(((((decide (R.w3 < d.w3)) || (((R.w3 == d.w3) && (decide (R.w2 < d.w2))))) ||
          ((((R.w3 == d.w3) && (R.w2 == d.w2)) && (decide (R.w1 < d.w1))))) ||
          (((((R.w3 == d.w3) && (R.w2 == d.w2)) && (R.w1 == d.w1)) && (decide (R.w0 < d.w0))))))))
      = .ok (UInt64.ofNat (min 30 (max (ndigits R.toNat' - 39) 1) - 1)) := by
  unfold countWhile256
  rw [ten2k256_get 29 (by omega)]
  simp only [bind, Except.bind, pure, Except.pure]
  rw [countWhileAux_spec _ _ (ndigits R.toNat' - 39) (29 + 1 - 1) 1 0 (fun j h1 h2 =>
    ⟨_, ten2k256_get j (by omega), by
      rw [nlt256_iff, mk256_val _ (pow_lt_256 _ (by omega)), decide_eq_decide]
      have := pow_le_iff_lt_ndigits R.toNat' (j + 39)
      omega⟩)]
  simp

theorem bmod32 (n : Int) (h1 : -2 ^ 31 ≤ n) (h2 : n < 2 ^ 31) : n.bmod (2 ^ 32) = n :=
  Dec.C17GenNext.bmod32 n h1 h2

/-- a small count, as the code turns it into an `i32` -/
theorem ofIdx (k : Nat) (hk : k < 2 ^ 20) : (Int32.ofInt (toI (UInt64.ofNat k))).toInt = k := by
  show (Int32.ofInt ((UInt64.ofNat k).toNat : Int)).toInt = k
  rw [UInt64.toNat_ofNat', Nat.mod_eq_of_lt (by omega), Int32.toInt_ofInt]
  exact bmod32 _ (by omega) (by omega)

theorem idx_plus (k c : Nat) (hk : k < 2 ^ 20) (hc : c < 2 ^ 20) (C : Int32) (hC : C.toInt = c) :
    (Int32.ofInt (toI (UInt64.ofNat k)) + 1 + C).toInt = ((k + 1 + c : Nat) : Int) := by
  have i1 : (1 : Int32).toInt = 1 := rfl
  have a1 : (Int32.ofInt (toI (UInt64.ofNat k)) + 1).toInt = k + 1 := by
    rw [Int32.toInt_add, ofIdx _ hk, i1, bmod32 _ (by omega) (by omega)]
  rw [Int32.toInt_add, a1, hC, bmod32 _ (by omega) (by omega)]
  omega

/-- the three-word test `R < 10^39` of `bid_bid_nr_digits256` (with `R.w3 = 0`) -/
theorem lt39_test (R : U256) (h3 : R.w3 = 0) :
    (if decide (R.w2 < (mk256 (10 ^ (0 + 39))).w2) = true then true
      else if (R.w2 == (mk256 (10 ^ (0 + 39))).w2) = true then decide (R.w1 < (mk256 (10 ^ (0 + 39))).w1) else false) = true ∨
    ((if (R.w2 == (mk256 (10 ^ (0 + 39))).w2) = true then (R.w1 == (mk256 (10 ^ (0 + 39))).w1) else false) = true ∧
      decide (R.w0 < (mk256 (10 ^ (0 + 39))).w0) = true) ↔ R.toNat' < 10 ^ 39 := by
  have h0 := R.w0.toNat_lt; have h1 := R.w1.toNat_lt; have h2 := R.w2.toNat_lt
  have e0 : (mk256 (10 ^ (0 + 39))).w0.toNat = 10 ^ 39 % 2 ^ 64 := by decide
  have e1 : (mk256 (10 ^ (0 + 39))).w1.toNat = 10 ^ 39 / 2 ^ 64 % 2 ^ 64 := by decide
  have e2 : (mk256 (10 ^ (0 + 39))).w2.toNat = 10 ^ 39 / 2 ^ 128 % 2 ^ 64 := by decide
  have e3 : R.w3.toNat = 0 := by rw [h3]; rfl
  unfold U256.toNat'
  rw [e3]
  by_cases a : R.w2 < (mk256 (10 ^ (0 + 39))).w2
  · simp only [a, decide_true, if_true, true_or, true_iff]
    rw [UInt64.lt_iff_toNat_lt, e2] at a; omega
  · simp only [a, decide_false, Bool.false_eq_true, if_false]
    rw [UInt64.lt_iff_toNat_lt, e2] at a
    by_cases b : R.w2 = (mk256 (10 ^ (0 + 39))).w2
    · have b' : R.w2.toNat = 10 ^ 39 / 2 ^ 128 % 2 ^ 64 := by rw [b, e2]
      simp only [← b, beq_self_eq_true, if_true, decide_eq_true_eq, beq_iff_eq, UInt64.lt_iff_toNat_lt,
        ← UInt64.toNat_inj, e0, e1]
      omega
    · have b' : R.w2.toNat ≠ 10 ^ 39 / 2 ^ 128 % 2 ^ 64 := by rw [← e2, ne_eq, UInt64.toNat_inj]; exact b
      simp only [beq_eq_false_iff_ne.2 b, Bool.false_eq_true, if_false, false_and, or_false, false_iff]
      omega

/-- **`bid_bid_nr_digits256`**: the number of decimal digits of `R` (1 for `R = 0`; at most 69: correct for `R < 10^69`);
never panics -/
theorem nr_digits256_spec (R : U256) :
    ∃ ind : Int32, bid_bid_nr_digits256 R = .ok ind ∧
      ind.toInt = if R.toNat' = 0 then 1 else ((min (ndigits R.toNat') 69 : Nat) : Int) := by
  have h0 := R.w0.toNat_lt; have h1 := R.w1.toNat_lt; have h2 := R.w2.toNat_lt; have h3 := R.w3.toNat_lt
  have e0 : (UInt64.ofInt (toI 0)) = UInt64.ofNat 0 := by decide
  have i1 : (1 : Int32).toInt = 1 := rfl
  have i20 : (20 : Int32).toInt = 20 := rfl
  have i39 : (39 : Int32).toInt = 39 := rfl
  unfold bid_bid_nr_digits256
  simp only [e0, ten2k256_get 0 (by omega), ten2k128_get 0 (by omega), bind, Except.bind, pure, Except.pure]
  by_cases hA : (R.w3 == 0 && R.w2 == 0 && R.w1 == 0) = true
  · -- one word
    rw [if_pos hA, count64]
    simp only [Bool.and_eq_true, beq_iff_eq, ← UInt64.toNat_inj, UInt64.toNat_zero] at hA
    have hv : R.toNat' = R.w0.toNat := by unfold U256.toNat'; omega
    refine ⟨_, rfl, ?_⟩
    have hD : ndigits R.w0.toNat ≤ 20 := by
      by_cases hp : 0 < R.w0.toNat
      · exact (ndigits_le_iff hp).2 (lt_trans h0 (by norm_num))
      · have : R.w0.toNat = 0 := by omega
        rw [this, ndigits_zero]; omega
    rw [Int32.toInt_add, ofIdx _ (by omega), i1, bmod32 _ (by omega) (by omega), hv]
    by_cases hz : R.w0.toNat = 0
    · rw [if_pos hz, hz, ndigits_zero]; simp
    · rw [if_neg hz]
      have := ndigits_pos (Nat.pos_of_ne_zero hz)
      omega
  · rw [if_neg hA]
    by_cases hB : (R.w3 == 0 && R.w2 == 0) = true
    · -- two words
      simp only [hB, if_true]
      simp only [Bool.and_eq_true, beq_iff_eq, ← UInt64.toNat_inj, UInt64.toNat_zero, not_and] at hA hB
      have hw1 : R.w1.toNat ≠ 0 := hA hB
      have hv : R.toNat' = R.w0.toNat + 2 ^ 64 * R.w1.toNat := by unfold U256.toNat'; omega
      have hpos : 0 < R.toNat' := by omega
      have e20 : (mk128 (10 ^ (0 + 20))).toNat' = 10 ^ 20 := mk128_val _ (by norm_num)
      have g0 := (mk128 (10 ^ (0 + 20))).w0.toNat_lt
      unfold U128.toNat' at e20
      rw [if_neg (by omega : ¬ R.toNat' = 0)]
      by_cases hlt : R.toNat' < 10 ^ 20
      · -- exactly 20 digits
        have hD : ndigits R.toNat' = 20 :=
          (ndigits_eq_iff hpos (by omega)).2 ⟨by
            have : (10:Nat) ^ (20 - 1) < 2 ^ 64 := by norm_num
            omega, hlt⟩
        refine ⟨20, ?_, by rw [hD]; rfl⟩
        by_cases a : R.w1 < (mk128 (10 ^ (0 + 20))).w1
        · simp only [a, decide_true, if_true]
        · simp only [a, decide_false, Bool.false_eq_true, if_false]
          rw [UInt64.lt_iff_toNat_lt] at a
          have b : (R.w1 == (mk128 (10 ^ (0 + 20))).w1) = true := by rw [beq_iff_eq, ← UInt64.toNat_inj]; omega
          have c : R.w0 < (mk128 (10 ^ (0 + 20))).w0 := by
            rw [UInt64.lt_iff_toNat_lt]; rw [beq_iff_eq, ← UInt64.toNat_inj] at b; omega
          simp only [b, if_true, c, decide_true]
      · have hnot : (if decide (R.w1 < (mk128 (10 ^ (0 + 20))).w1) = true then (Except.ok true : Except String Bool)
            else if (R.w1 == (mk128 (10 ^ (0 + 20))).w1) = true then
              Except.ok (decide (R.w0 < (mk128 (10 ^ (0 + 20))).w0)) else Except.ok false) = Except.ok false := by
          by_cases a : R.w1 < (mk128 (10 ^ (0 + 20))).w1
          · rw [UInt64.lt_iff_toNat_lt] at a; omega
          · simp only [a, decide_false, Bool.false_eq_true, if_false]
            rw [UInt64.lt_iff_toNat_lt] at a
            by_cases b : (R.w1 == (mk128 (10 ^ (0 + 20))).w1) = true
            · have c : ¬ R.w0 < (mk128 (10 ^ (0 + 20))).w0 := by
                rw [UInt64.lt_iff_toNat_lt]; rw [beq_iff_eq, ← UInt64.toNat_inj] at b; omega
              simp only [b, if_true, c, decide_false]
            · simp only [b, Bool.false_eq_true, if_false]
        rw [hnot]
        simp only [Bool.false_eq_true, if_false]
        rw [count128]
        refine ⟨_, rfl, ?_⟩
        have hD1 : 20 < ndigits R.toNat' := (lt_ndigits_iff hpos).2 (by omega)
        have hD2 : ndigits R.toNat' ≤ 39 := (ndigits_le_iff hpos).2 (by
          have : (2:Nat) ^ 128 < 10 ^ 39 := by norm_num
          omega)
        rw [← hv, idx_plus _ 20 (by omega) (by omega) 20 i20]
        omega
    · -- three or four words
      simp only [hB, Bool.false_eq_true, if_false]
      simp only [Bool.and_eq_true, beq_iff_eq, ← UInt64.toNat_inj, UInt64.toNat_zero, not_and] at hB
      have hbig : 2 ^ 128 ≤ R.toNat' := by unfold U256.toNat'; omega
      have hpos : 0 < R.toNat' := by omega
      rw [if_neg (by omega : ¬ R.toNat' = 0)]
      by_cases h3z : R.w3 = 0
      · have ht := lt39_test R h3z
        have hbeq : (R.w3 == 0) = true := by rw [h3z]; rfl
        by_cases hlt : R.toNat' < 10 ^ 39
        · have hD : ndigits R.toNat' = 39 :=
            (ndigits_eq_iff hpos (by omega)).2 ⟨by
              have : (10:Nat) ^ (39 - 1) < 2 ^ 128 := by norm_num
              omega, hlt⟩
          refine ⟨39, ?_, by rw [hD]; rfl⟩
          have ht' := ht.2 hlt
          simp only [hbeq, if_true]
          rcases ht' with a | ⟨a, b⟩
          · by_cases a1 : R.w2 < (mk256 (10 ^ (0 + 39))).w2
            · simp only [a1, decide_true, if_true]
            · simp only [a1, decide_false, Bool.false_eq_true, if_false] at a ⊢
              by_cases a2 : (R.w2 == (mk256 (10 ^ (0 + 39))).w2) = true
              · simp only [a2, if_true] at a ⊢
                simp only [a, if_true]
              · simp only [a2, Bool.false_eq_true, if_false] at a
          · by_cases a2 : (R.w2 == (mk256 (10 ^ (0 + 39))).w2) = true
            · simp only [a2, if_true] at a ⊢
              by_cases a1 : R.w2 < (mk256 (10 ^ (0 + 39))).w2
              · simp only [a1, decide_true, if_true]
              · simp only [a1, decide_false, Bool.false_eq_true, if_false]
                by_cases a3 : decide (R.w1 < (mk256 (10 ^ (0 + 39))).w1) = true
                · simp only [a3, if_true]
                · simp only [a3, Bool.false_eq_true, if_false, a, b, if_true]
            · simp only [a2, Bool.false_eq_true, if_false] at a
        · -- at least 40 digits
          have hno : ¬ _ := fun h => hlt (ht.1 h)
          rw [not_or, not_and] at hno
          obtain ⟨n1, n2⟩ := hno
          have hD1 : 39 < ndigits R.toNat' := (lt_ndigits_iff hpos).2 (by omega)
          refine ⟨Int32.ofInt (toI (UInt64.ofNat (min 30 (max (ndigits R.toNat' - 39) 1) - 1))) + 1 + 39, ?_, ?_⟩
          · simp only [hbeq, if_true]
            by_cases a1 : R.w2 < (mk256 (10 ^ (0 + 39))).w2
            · exact absurd (by simp only [a1, decide_true, if_true]) n1
            · simp only [a1, decide_false, Bool.false_eq_true, if_false] at n1 ⊢
              by_cases a2 : (R.w2 == (mk256 (10 ^ (0 + 39))).w2) = true
              · simp only [a2, if_true] at n1 n2 ⊢
                have a3 : decide (R.w1 < (mk256 (10 ^ (0 + 39))).w1) = false := by simpa using n1
                simp only [a3, Bool.false_eq_true, if_false]
                by_cases a4 : (R.w1 == (mk256 (10 ^ (0 + 39))).w1) = true
                · have a5 : decide (R.w0 < (mk256 (10 ^ (0 + 39))).w0) = false := by simpa using n2 a4
                  simp only [a4, if_true, a5, Bool.false_eq_true, if_false]
                  rw [count256]
                · simp only [a4, Bool.false_eq_true, if_false]
                  rw [count256]
              · simp only [a2, Bool.false_eq_true, if_false]
                rw [count256]
          · rw [idx_plus _ 39 (by omega) (by omega) 39 i39]
            omega
      · have hno : (R.w3 == 0) = false := beq_eq_false_iff_ne.2 h3z
        simp only [hno, Bool.false_eq_true, if_false]
        rw [count256]
        refine ⟨_, rfl, ?_⟩
        have h3' : R.w3.toNat ≠ 0 := by rw [← UInt64.toNat_zero, ne_eq, UInt64.toNat_inj]; exact h3z
        have hD1 : 39 < ndigits R.toNat' := (lt_ndigits_iff hpos).2 (by
          have : (10:Nat) ^ 39 < 2 ^ 192 := by norm_num
          unfold U256.toNat'; omega)
        rw [idx_plus _ 39 (by omega) (by omega) 39 i39]
        omega

example : bid_bid_nr_digits256 (mk256 (10 ^ 68 - 1)) = .ok 68 := by decide +kernel
example : bid_bid_nr_digits256 (mk256 (10 ^ 39)) = .ok 40 := by decide +kernel
example : bid_bid_nr_digits256 (mk256 0) = .ok 1 := by decide +kernel


/-! ## 1. `bid_add_and_round` in pieces

The text of every piece is the text of the translated routine (DecGen/Code.lean); `aar_shape` is proved by `rfl`. -/

/-- lines 653–663 of the Rust (270–283 of the translation): the correction for the directed modes, the flags, the result -/
def aarTail (rnd_mode : RoundingMode) (e4 : Int32) (res_ : U128) (is_midpoint_lt_even_ is_midpoint_gt_even_ is_inexact_lt_midpoint_ is_inexact_gt_midpoint_ : Bool) (is_tiny : Bool) (ptrfpsf_ : UInt32) : Except String (U128 × Bool × Bool × Bool × Bool × UInt32) := do
  let mut res : U128 := res_
  let mut ptrfpsf : UInt32 := ptrfpsf_
  let mut is_midpoint_lt_even : Bool := is_midpoint_lt_even_
  let mut is_midpoint_gt_even : Bool := is_midpoint_gt_even_
  let mut is_inexact_lt_midpoint : Bool := is_inexact_lt_midpoint_
  let mut is_inexact_gt_midpoint : Bool := is_inexact_gt_midpoint_
  let mut ptr_is_midpoint_lt_even : Bool := false
  let mut ptr_is_midpoint_gt_even : Bool := false
  let mut ptr_is_inexact_lt_midpoint : Bool := false
  let mut ptr_is_inexact_gt_midpoint : Bool := false
  let mut ptrres : U128 := default
  if (rnd_mode != RoundingMode.NearestEven) then
    let t__11 ← bid_rounding_correction rnd_mode is_inexact_lt_midpoint is_inexact_gt_midpoint is_midpoint_lt_even is_midpoint_gt_even e4 res ptrfpsf
    res := t__11.1
    ptrfpsf := t__11.2
  if (((is_midpoint_lt_even || is_midpoint_gt_even) || is_inexact_lt_midpoint) || is_inexact_gt_midpoint) then
    ptrfpsf := (ptrfpsf ||| c_StatusFlags_BID_INEXACT_EXCEPTION)
    if is_tiny then
      ptrfpsf := (ptrfpsf ||| c_StatusFlags_BID_UNDERFLOW_EXCEPTION)
  ptr_is_midpoint_lt_even := is_midpoint_lt_even
  ptr_is_midpoint_gt_even := is_midpoint_gt_even
  ptr_is_inexact_lt_midpoint := is_inexact_lt_midpoint
  ptr_is_inexact_gt_midpoint := is_inexact_gt_midpoint
  ptrres := res
  return (ptrres, ptr_is_midpoint_lt_even, ptr_is_midpoint_gt_even, ptr_is_inexact_lt_midpoint, ptr_is_inexact_gt_midpoint, ptrfpsf)

/-- lines 574–611 of the Rust: the repair of coefficient and indicators after the second rounding (the first rounding's
indicators are `…0`), avoiding a double rounding error -/
def aarRepair (rnd_mode : RoundingMode) (e4 : Int32) (res_ : U128)
    (is_midpoint_lt_even0 is_midpoint_gt_even0 is_inexact_lt_midpoint0 is_inexact_gt_midpoint0 : Bool)
    (is_midpoint_lt_even_ is_midpoint_gt_even_ is_inexact_lt_midpoint_ is_inexact_gt_midpoint_ : Bool) (is_tiny : Bool) (ptrfpsf : UInt32) : Except String (U128 × Bool × Bool × Bool × Bool × UInt32) := do
  let mut res : U128 := res_
  let mut is_midpoint_lt_even : Bool := is_midpoint_lt_even_
  let mut is_midpoint_gt_even : Bool := is_midpoint_gt_even_
  let mut is_inexact_lt_midpoint : Bool := is_inexact_lt_midpoint_
  let mut is_inexact_gt_midpoint : Bool := is_inexact_gt_midpoint_
  if (((is_inexact_gt_midpoint0 || is_midpoint_lt_even0)) && is_midpoint_lt_even) then
    res := { res with w0 := (res.w0 - 1) }
    if (res.w0 == (0xffffffffffffffff : UInt64)) then
      res := { res with w1 := (res.w1 - 1) }
    is_midpoint_lt_even := false
    is_inexact_lt_midpoint := true
  else
    if (((is_inexact_lt_midpoint0 || is_midpoint_gt_even0)) && is_midpoint_gt_even) then
      res := { res with w0 := (res.w0 + 1) }
      if (res.w0 == (0 : UInt64)) then
        res := { res with w1 := (res.w1 + 1) }
      is_midpoint_gt_even := false
      is_inexact_gt_midpoint := true
    else
      if ((((!is_midpoint_lt_even) && (!is_midpoint_gt_even)) && (!is_inexact_lt_midpoint)) && (!is_inexact_gt_midpoint)) then
        if (is_inexact_gt_midpoint0 || is_midpoint_lt_even0) then
          is_inexact_gt_midpoint := true
        if (is_inexact_lt_midpoint0 || is_midpoint_gt_even0) then
          is_inexact_lt_midpoint := true
      else
        if (is_midpoint_gt_even && ((is_inexact_gt_midpoint0 || is_midpoint_lt_even0))) then
          is_inexact_lt_midpoint := true
          is_inexact_gt_midpoint := false
          is_midpoint_lt_even := false
          is_midpoint_gt_even := false
        else
          if (is_midpoint_lt_even && ((is_inexact_lt_midpoint0 || is_midpoint_gt_even0))) then
            is_inexact_lt_midpoint := false
            is_inexact_gt_midpoint := true
            is_midpoint_lt_even := false
            is_midpoint_gt_even := false
          else
            pure ()
  aarTail rnd_mode e4 res is_midpoint_lt_even is_midpoint_gt_even is_inexact_lt_midpoint is_inexact_gt_midpoint is_tiny ptrfpsf

/-- the `_ =>` arm of `match x0` (lines 547–573 of the Rust): the second rounding, `×10` after a carry, packing -/
def aarUFround (rnd_mode : RoundingMode) (p_sign : UInt64) (e4_ : Int32) (ind x0 : Int32) (res_ : U128) (incr_exp_ : Bool)
    (is_midpoint_lt_even0 is_midpoint_gt_even0 is_inexact_lt_midpoint0 is_inexact_gt_midpoint0 : Bool) (is_tiny : Bool) (ptrfpsf : UInt32) : Except String (U128 × Bool × Bool × Bool × Bool × UInt32) := do
  let mut res : U128 := res_
  let mut e4 : Int32 := e4_
  let mut incr_exp : Bool := incr_exp_
  let mut is_midpoint_lt_even : Bool := false
  let mut is_midpoint_gt_even : Bool := false
  let mut is_inexact_lt_midpoint : Bool := false
  let mut is_inexact_gt_midpoint : Bool := false
  let mut R64 : UInt64 := default
  let mut P128 : U128 := default
  if (decide (ind ≤ (0x12 : Int32))) then
    let t__9 ← bid_round64_2_18 ind x0 res.w0 incr_exp is_midpoint_lt_even is_midpoint_gt_even is_inexact_lt_midpoint is_inexact_gt_midpoint
    incr_exp := t__9.2.1
    is_midpoint_lt_even := t__9.2.2.1
    is_midpoint_gt_even := t__9.2.2.2.1
    is_inexact_lt_midpoint := t__9.2.2.2.2.1
    is_inexact_gt_midpoint := t__9.2.2.2.2.2
    R64 := t__9.1
    res := { res with w1 := (0 : UInt64) }
    res := { res with w0 := R64 }
  else
    if (decide (ind ≤ (0x26 : Int32))) then
      P128 := { P128 with w1 := (res.w1 &&& c_MASK_COEFF) }
      P128 := { P128 with w0 := res.w0 }
      let t__10 ← bid_round128_19_38 ind x0 P128 incr_exp is_midpoint_lt_even is_midpoint_gt_even is_inexact_lt_midpoint is_inexact_gt_midpoint
      incr_exp := t__10.2.1
      is_midpoint_lt_even := t__10.2.2.1
      is_midpoint_gt_even := t__10.2.2.2.1
      is_inexact_lt_midpoint := t__10.2.2.2.2.1
      is_inexact_gt_midpoint := t__10.2.2.2.2.2
      res := t__10.1
  e4 := (e4 + x0)
  if incr_exp then
    P128 := { P128 with w1 := (res.w1 &&& c_MASK_COEFF) }
    P128 := { P128 with w0 := res.w0 }
    res := (← mul_64x128_to_128 (← tbl64 Dec.Gen.BID_TEN2K64 (UInt64.ofInt (toI 1))) P128)
  res := { res with w1 := ((p_sign ||| ((((UInt64.ofInt (toI ((e4 + (0x1820 : Int32)))))) <<< 0x31))) ||| ((res.w1 &&& c_MASK_COEFF))) }
  aarRepair rnd_mode e4 res is_midpoint_lt_even0 is_midpoint_gt_even0 is_inexact_lt_midpoint0 is_inexact_gt_midpoint0 is_midpoint_lt_even is_midpoint_gt_even is_inexact_lt_midpoint is_inexact_gt_midpoint is_tiny ptrfpsf

/-- the `value == ind` arm of `match x0` (lines 505–546 of the Rust, as repaired for D18): nothing is left but the comparison
with one half of the least quantum -/
def aarUFeq (rnd_mode : RoundingMode) (p_sign : UInt64) (ind : Int32) (res_ : U128)
    (is_midpoint_lt_even0 is_midpoint_gt_even0 is_inexact_lt_midpoint0 is_inexact_gt_midpoint0 : Bool) (is_tiny : Bool) (ptrfpsf : UInt32) : Except String (U128 × Bool × Bool × Bool × Bool × UInt32) := do
  let mut res : U128 := res_
  let mut e4 : Int32 := default
  let mut is_midpoint_lt_even : Bool := false
  let mut is_midpoint_gt_even : Bool := false
  let mut is_inexact_lt_midpoint : Bool := false
  let mut is_inexact_gt_midpoint : Bool := false
  let mut R128 : U128 := default
  let mut lt_half_ulp : Bool := false
  let mut eq_half_ulp : Bool := false
  R128 := { R128 with w1 := (res.w1 &&& c_MASK_COEFF) }
  R128 := { R128 with w0 := res.w0 }
  if (decide (ind ≤ (0x13 : Int32))) then
    let t__6 : UInt64 := (← tbl64 Dec.Gen.BID_MIDPOINT64 (UInt64.ofInt (toI ((ind - (1 : Int32))))))
    if (let value := t__6; (decide (R128.w0 < value))) then
      let mut value_7 : UInt64 := t__6
      lt_half_ulp := true
      is_inexact_lt_midpoint := true
    else
      if (let value := t__6; (R128.w0 == value)) then
        let mut value_8 : UInt64 := t__6
        if (is_inexact_lt_midpoint0 || is_midpoint_gt_even0) then
          is_inexact_gt_midpoint := true
        else
          if (is_inexact_gt_midpoint0 || is_midpoint_lt_even0) then
            lt_half_ulp := true
            is_inexact_lt_midpoint := true
          else
            eq_half_ulp := true
            is_midpoint_gt_even := true
      else
        is_inexact_gt_midpoint := true
  else
    if (← (if (decide (R128.w1 < (← tbl128 Dec.Gen.BID_MIDPOINT128 (UInt64.ofInt (toI ((ind - (0x14 : Int32)))))).w1)) then pure true else (do pure ((← (if (R128.w1 == (← tbl128 Dec.Gen.BID_MIDPOINT128 (UInt64.ofInt (toI ((ind - (0x14 : Int32)))))).w1) then (do pure (decide (R128.w0 < (← tbl128 Dec.Gen.BID_MIDPOINT128 (UInt64.ofInt (toI ((ind - (0x14 : Int32)))))).w0))) else pure false)))))) then
      lt_half_ulp := true
      is_inexact_lt_midpoint := true
    else
      if (← (if (R128.w1 == (← tbl128 Dec.Gen.BID_MIDPOINT128 (UInt64.ofInt (toI ((ind - (0x14 : Int32)))))).w1) then (do pure (R128.w0 == (← tbl128 Dec.Gen.BID_MIDPOINT128 (UInt64.ofInt (toI ((ind - (0x14 : Int32)))))).w0)) else pure false)) then
        if (is_inexact_lt_midpoint0 || is_midpoint_gt_even0) then
          is_inexact_gt_midpoint := true
        else
          if (is_inexact_gt_midpoint0 || is_midpoint_lt_even0) then
            lt_half_ulp := true
            is_inexact_lt_midpoint := true
          else
            eq_half_ulp := true
            is_midpoint_gt_even := true
      else
        is_inexact_gt_midpoint := true
  if (lt_half_ulp || eq_half_ulp) then
    res := { res with w1 := (0 : UInt64) }
    res := { res with w0 := (0 : UInt64) }
  else
    res := { res with w1 := (0 : UInt64) }
    res := { res with w0 := (1 : UInt64) }
  res := { res with w1 := (res.w1 ||| p_sign) }
  e4 := c_EXP_MIN_UNBIASED
  aarTail rnd_mode e4 res is_midpoint_lt_even is_midpoint_gt_even is_inexact_lt_midpoint is_inexact_gt_midpoint is_tiny ptrfpsf

/-- lines 485–641 of the Rust: if the exponent is below the least one, chop `x0 = EXP_MIN − e4` digits -/
def aarUF (rnd_mode : RoundingMode) (p_sign : UInt64) (e4_ : Int32) (ind : Int32) (res_ : U128) (incr_exp : Bool)
    (is_midpoint_lt_even_ is_midpoint_gt_even_ is_inexact_lt_midpoint_ is_inexact_gt_midpoint_ : Bool) (is_tiny : Bool) (ptrfpsf : UInt32) : Except String (U128 × Bool × Bool × Bool × Bool × UInt32) := do
  let mut res : U128 := res_
  let mut e4 : Int32 := e4_
  let mut is_midpoint_lt_even : Bool := is_midpoint_lt_even_
  let mut is_midpoint_gt_even : Bool := is_midpoint_gt_even_
  let mut is_inexact_lt_midpoint : Bool := is_inexact_lt_midpoint_
  let mut is_inexact_gt_midpoint : Bool := is_inexact_gt_midpoint_
  let mut x0 : Int32 := default
  let mut is_midpoint_lt_even0 : Bool := default
  let mut is_midpoint_gt_even0 : Bool := default
  let mut is_inexact_lt_midpoint0 : Bool := default
  let mut is_inexact_gt_midpoint0 : Bool := default
  if (decide (e4 < c_EXP_MIN_UNBIASED)) then
    x0 := (c_EXP_MIN_UNBIASED - e4)
    is_inexact_lt_midpoint0 := is_inexact_lt_midpoint
    is_inexact_gt_midpoint0 := is_inexact_gt_midpoint
    is_midpoint_lt_even0 := is_midpoint_lt_even
    is_midpoint_gt_even0 := is_midpoint_gt_even
    is_inexact_lt_midpoint := false
    is_inexact_gt_midpoint := false
    is_midpoint_lt_even := false
    is_midpoint_gt_even := false
    let t__5 : Int32 := x0
    if (let value := t__5; (decide (value > ind))) then
      let mut value : Int32 := t__5
      is_inexact_lt_midpoint := true
      res := { res with w1 := (p_sign ||| (0 : UInt64)) }
      res := { res with w0 := (0 : UInt64) }
      e4 := c_EXP_MIN_UNBIASED
      aarTail rnd_mode e4 res is_midpoint_lt_even is_midpoint_gt_even is_inexact_lt_midpoint is_inexact_gt_midpoint is_tiny ptrfpsf
    else
      if (let value := t__5; (value == ind)) then
        let mut value : Int32 := t__5
        aarUFeq rnd_mode p_sign ind res is_midpoint_lt_even0 is_midpoint_gt_even0 is_inexact_lt_midpoint0 is_inexact_gt_midpoint0 is_tiny ptrfpsf
      else
        aarUFround rnd_mode p_sign e4 ind x0 res incr_exp is_midpoint_lt_even0 is_midpoint_gt_even0 is_inexact_lt_midpoint0 is_inexact_gt_midpoint0 is_tiny ptrfpsf
  else
    aarTail rnd_mode e4 res is_midpoint_lt_even is_midpoint_gt_even is_inexact_lt_midpoint is_inexact_gt_midpoint is_tiny ptrfpsf

/-- lines 476–483 of the Rust: overflow when rounding to nearest-even -/
def aarOvf (rnd_mode : RoundingMode) (p_sign : UInt64) (e4 p34 : Int32) (ind : Int32) (res_ : U128) (incr_exp : Bool)
    (is_midpoint_lt_even is_midpoint_gt_even is_inexact_lt_midpoint is_inexact_gt_midpoint : Bool) (is_tiny : Bool) (ptrfpsf_ : UInt32)
    (ptr_is_midpoint_lt_even ptr_is_midpoint_gt_even ptr_is_inexact_lt_midpoint ptr_is_inexact_gt_midpoint : Bool) : Except String (U128 × Bool × Bool × Bool × Bool × UInt32) := do
  let mut res : U128 := res_
  let mut ptrfpsf : UInt32 := ptrfpsf_
  let mut ptrres : U128 := default
  if ((rnd_mode == RoundingMode.NearestEven) && (decide (((ind + e4)) > ((p34 + c_EXP_MAX_UNBIASED))))) then
    res := { res with w1 := (p_sign ||| (0x7800000000000000 : UInt64)) }
    res := { res with w0 := (0 : UInt64) }
    ptrres := res
    ptrfpsf := (ptrfpsf ||| (c_StatusFlags_BID_INEXACT_EXCEPTION ||| c_StatusFlags_BID_OVERFLOW_EXCEPTION))
    return (ptrres, ptr_is_midpoint_lt_even, ptr_is_midpoint_gt_even, ptr_is_inexact_lt_midpoint, ptr_is_inexact_gt_midpoint, ptrfpsf)
  aarUF rnd_mode p_sign e4 ind res incr_exp is_midpoint_lt_even is_midpoint_gt_even is_inexact_lt_midpoint is_inexact_gt_midpoint is_tiny ptrfpsf

/-- lines 380–472 of the Rust: the sum has `ind` digits; at most 34: exact; else round to 34 digits (to nearest-even) -/
def aarRound (rnd_mode : RoundingMode) (p_sign : UInt64) (e4_ p34 : Int32) (ind_ : Int32) (R256_ : U256) (ptrfpsf_ : UInt32)
    (ptr_is_midpoint_lt_even ptr_is_midpoint_gt_even ptr_is_inexact_lt_midpoint ptr_is_inexact_gt_midpoint : Bool) : Except String (U128 × Bool × Bool × Bool × Bool × UInt32) := do
  let mut e4 : Int32 := e4_
  let mut ind : Int32 := ind_
  let mut R256 : U256 := R256_
  let mut ptrfpsf : UInt32 := ptrfpsf_
  let mut scale : Int32 := default
  let mut x0 : Int32 := default
  let mut P128 : U128 := default
  let mut R128 : U128 := default
  let mut P192 : U192 := default
  let mut R192 : U192 := default
  let mut is_midpoint_lt_even : Bool := false
  let mut is_midpoint_gt_even : Bool := false
  let mut is_inexact_lt_midpoint : Bool := false
  let mut is_inexact_gt_midpoint : Bool := false
  let mut incr_exp : Bool := false
  let mut is_tiny : Bool := false
  let mut res : U128 := default
  if (decide (ind ≤ p34)) then
    if (decide ((ind + e4) < (p34 + c_EXP_MIN_UNBIASED))) then
      is_tiny := true
    res := { res with w1 := ((p_sign ||| ((((UInt64.ofInt (toI ((e4 + (0x1820 : Int32)))))) <<< 0x31))) ||| R256.w1) }
    res := { res with w0 := R256.w0 }
  else
    x0 := (ind - p34)
    if (decide (ind ≤ (0x26 : Int32))) then
      P128 := { P128 with w1 := R256.w1 }
      P128 := { P128 with w0 := R256.w0 }
      let t__1 ← bid_round128_19_38 ind x0 P128 incr_exp is_midpoint_lt_even is_midpoint_gt_even is_inexact_lt_midpoint is_inexact_gt_midpoint
      incr_exp := t__1.2.1
      is_midpoint_lt_even := t__1.2.2.1
      is_midpoint_gt_even := t__1.2.2.2.1
      is_inexact_lt_midpoint := t__1.2.2.2.2.1
      is_inexact_gt_midpoint := t__1.2.2.2.2.2
      R128 := t__1.1
    else
      if (decide (ind ≤ (0x39 : Int32))) then
        P192 := { P192 with w2 := R256.w2 }
        P192 := { P192 with w1 := R256.w1 }
        P192 := { P192 with w0 := R256.w0 }
        let t__2 ← bid_round192_39_57 ind x0 P192 incr_exp is_midpoint_lt_even is_midpoint_gt_even is_inexact_lt_midpoint is_inexact_gt_midpoint
        incr_exp := t__2.2.1
        is_midpoint_lt_even := t__2.2.2.1
        is_midpoint_gt_even := t__2.2.2.2.1
        is_inexact_lt_midpoint := t__2.2.2.2.2.1
        is_inexact_gt_midpoint := t__2.2.2.2.2.2
        R192 := t__2.1
        R128 := { R128 with w1 := R192.w1 }
        R128 := { R128 with w0 := R192.w0 }
      else
        let t__3 ← bid_round256_58_76 ind x0 R256 incr_exp is_midpoint_lt_even is_midpoint_gt_even is_inexact_lt_midpoint is_inexact_gt_midpoint
        incr_exp := t__3.2.1
        is_midpoint_lt_even := t__3.2.2.1
        is_midpoint_gt_even := t__3.2.2.2.1
        is_inexact_lt_midpoint := t__3.2.2.2.2.1
        is_inexact_gt_midpoint := t__3.2.2.2.2.2
        R256 := t__3.1
        R128 := { R128 with w1 := R256.w1 }
        R128 := { R128 with w0 := R256.w0 }
    if (decide ((e4 + x0) < c_EXP_MIN_UNBIASED)) then
      is_tiny := true
    e4 := ((e4 + x0) + (if incr_exp then 1 else 0))
    if (rnd_mode == RoundingMode.NearestEven) then
      pure ()
    else
      P128 := { P128 with w1 := ((p_sign ||| (0x3040000000000000 : UInt64)) ||| R128.w1) }
      P128 := { P128 with w0 := R128.w0 }
      let t__4 ← bid_rounding_correction rnd_mode is_inexact_lt_midpoint is_inexact_gt_midpoint is_midpoint_lt_even is_midpoint_gt_even (0 : Int32) P128 ptrfpsf
      P128 := t__4.1
      ptrfpsf := t__4.2
      scale := (Int32.ofInt (toI ((((((P128.w1 &&& c_MASK_EXP)) >>> 0x31)) - (0x1820 : UInt64)))))
    ind := p34
    res := { res with w1 := ((p_sign ||| ((((UInt64.ofInt (toI ((e4 + (0x1820 : Int32)))))) <<< 0x31))) ||| R128.w1) }
    res := { res with w0 := R128.w0 }
  aarOvf rnd_mode p_sign e4 p34 ind res incr_exp is_midpoint_lt_even is_midpoint_gt_even is_inexact_lt_midpoint is_inexact_gt_midpoint is_tiny ptrfpsf ptr_is_midpoint_lt_even ptr_is_midpoint_gt_even ptr_is_inexact_lt_midpoint ptr_is_inexact_gt_midpoint

/-- lines 324–378 of the Rust: add or subtract `C4` and `R256 = C3·10^scale`; an exact zero is answered at once -/
def aarAddSub (rnd_mode : RoundingMode) (z_sign p_sign_ : UInt64) (e4_ p34 : Int32) (C4 : U256) (R256_ : U256) (ptrfpsf : UInt32)
    (ptr_is_midpoint_lt_even ptr_is_midpoint_gt_even ptr_is_inexact_lt_midpoint ptr_is_inexact_gt_midpoint : Bool) : Except String (U128 × Bool × Bool × Bool × Bool × UInt32) := do
  let mut p_sign : UInt64 := p_sign_
  let mut e4 : Int32 := e4_
  let mut R256 : U256 := R256_
  let mut ind : Int32 := default
  let mut ptrres : U128 := default
  let mut res : U128 := ptrres
  if (p_sign == z_sign) then
    R256 := (← bid_add256 C4 R256)
  else
    if ((((decide (R256.w3 > C4.w3)) || (((R256.w3 == C4.w3) && (decide (R256.w2 > C4.w2))))) || ((((R256.w3 == C4.w3) && (R256.w2 == C4.w2)) && (decide (R256.w1 > C4.w1))))) || (((((R256.w3 == C4.w3) && (R256.w2 == C4.w2)) && (R256.w1 == C4.w1)) && (decide (R256.w0 ≥ C4.w0))))) then
      R256 := (← bid_sub256 R256 C4)
      p_sign := z_sign
    else
      R256 := (← bid_sub256 C4 R256)
    if ((((R256.w3 == (0 : UInt64)) && (R256.w2 == (0 : UInt64))) && (R256.w1 == (0 : UInt64))) && (R256.w0 == (0 : UInt64))) then
      p_sign := (if (rnd_mode != RoundingMode.Downward) then (0 : UInt64) else (0x8000000000000000 : UInt64))
      if (decide (e4 < (-0x1820))) then
        e4 := c_EXP_MIN_UNBIASED
      res := { res with w1 := (p_sign ||| ((((UInt64.ofInt (toI ((e4 + (0x1820 : Int32)))))) <<< 0x31))) }
      res := { res with w0 := (0 : UInt64) }
      ptrres := res
      return (ptrres, ptr_is_midpoint_lt_even, ptr_is_midpoint_gt_even, ptr_is_inexact_lt_midpoint, ptr_is_inexact_gt_midpoint, ptrfpsf)
  ind := (← bid_bid_nr_digits256 R256)
  aarRound rnd_mode p_sign e4 p34 ind R256 ptrfpsf ptr_is_midpoint_lt_even ptr_is_midpoint_gt_even ptr_is_inexact_lt_midpoint ptr_is_inexact_gt_midpoint

/-- lines 288–322 of the Rust: `R256 = C3·10^scale` -/
def aarScale (scale : Int32) (C3 : U128) (k : U256 → Except String (U128 × Bool × Bool × Bool × Bool × UInt32)) : Except String (U128 × Bool × Bool × Bool × Bool × UInt32) := do
  let mut P128 : U128 := default
  let mut R128 : U128 := default
  let mut R256 : U256 := default
  if (scale == (0 : Int32)) then
    R256 := { R256 with w3 := (0 : UInt64) }
    R256 := { R256 with w2 := (0 : UInt64) }
    R256 := { R256 with w1 := C3.w1 }
    R256 := { R256 with w0 := C3.w0 }
  else
    if (decide (scale ≤ (0x13 : Int32))) then
      P128 := { P128 with w1 := (0 : UInt64) }
      P128 := { P128 with w0 := (← tbl64 Dec.Gen.BID_TEN2K64 (UInt64.ofInt (toI scale))) }
      R256 := (← mul_128x128_to_256 P128 C3)
    else
      if (decide (scale ≤ (0x26 : Int32))) then
        R256 := (← mul_128x128_to_256 (← tbl128 Dec.Gen.BID_TEN2K128 (UInt64.ofInt (toI ((scale - (0x14 : Int32)))))) C3)
      else
        if (decide (scale ≤ (0x39 : Int32))) then
          R128 := (← mul_64x128_to_128 (← tbl64 Dec.Gen.BID_TEN2K64 (UInt64.ofInt (toI ((scale - (0x26 : Int32)))))) C3)
          R256 := (← mul_128x128_to_256 R128 (← tbl128 Dec.Gen.BID_TEN2K128 (UInt64.ofInt (toI 0x12))))
        else
          R128 := (← mul_64x128_to_128 C3.w0 (← tbl128 Dec.Gen.BID_TEN2K128 (UInt64.ofInt (toI ((scale - (0x3a : Int32)))))))
          R256 := (← mul_128x128_to_256 R128 (← tbl128 Dec.Gen.BID_TEN2K128 (UInt64.ofInt (toI 0x12))))
  k R256

/-- the routine: header, `scale`, then the pieces -/
def aarMain  (q3_ : Int32) (q4_ : Int32) (e4_ : Int32) (delta_ : Int32) (p34_ : Int32) (z_sign_ : UInt64) (p_sign_ : UInt64) (C3_ : U128) (C4_ : U256) (rnd_mode_ : RoundingMode) (ptr_is_midpoint_lt_even_ : Bool) (ptr_is_midpoint_gt_even_ : Bool) (ptr_is_inexact_lt_midpoint_ : Bool) (ptr_is_inexact_gt_midpoint_ : Bool) (ptrfpsf_ : UInt32) : Except String (U128 × Bool × Bool × Bool × Bool × UInt32) := do
  let mut q3 : Int32 := q3_
  let mut q4 : Int32 := q4_
  let mut e4 : Int32 := e4_
  let mut delta : Int32 := delta_
  let mut p34 : Int32 := p34_
  let mut z_sign : UInt64 := z_sign_
  let mut p_sign : UInt64 := p_sign_
  let mut C3 : U128 := C3_
  let mut C4 : U256 := C4_
  let mut rnd_mode : RoundingMode := rnd_mode_
  let mut ptr_is_midpoint_lt_even : Bool := ptr_is_midpoint_lt_even_
  let mut ptr_is_midpoint_gt_even : Bool := ptr_is_midpoint_gt_even_
  let mut ptr_is_inexact_lt_midpoint : Bool := ptr_is_inexact_lt_midpoint_
  let mut ptr_is_inexact_gt_midpoint : Bool := ptr_is_inexact_gt_midpoint_
  let mut ptrfpsf : UInt32 := ptrfpsf_
  let mut ptrres : U128 := default
  let mut scale : Int32 := default
  let mut x0 : Int32 := default
  let mut ind : Int32 := default
  let mut R64 : UInt64 := default
  let mut P128 : U128 := default
  let mut R128 : U128 := default
  let mut P192 : U192 := default
  let mut R192 : U192 := default
  let mut R256 : U256 := default
  let mut is_midpoint_lt_even : Bool := false
  let mut is_midpoint_gt_even : Bool := false
  let mut is_inexact_lt_midpoint : Bool := false
  let mut is_inexact_gt_midpoint : Bool := false
  let mut is_midpoint_lt_even0 : Bool := default
  let mut is_midpoint_gt_even0 : Bool := default
  let mut is_inexact_lt_midpoint0 : Bool := default
  let mut is_inexact_gt_midpoint0 : Bool := default
  let mut incr_exp : Bool := false
  let mut is_tiny : Bool := false
  let mut lt_half_ulp : Bool := false
  let mut eq_half_ulp : Bool := false
  let mut res : U128 := ptrres
  p_sign := p_sign
  e4 := e4
  scale := ((q4 - delta) - q3)
  aarScale scale C3 (fun R256 => aarAddSub rnd_mode z_sign p_sign e4 p34 C4 R256 ptrfpsf ptr_is_midpoint_lt_even ptr_is_midpoint_gt_even ptr_is_inexact_lt_midpoint ptr_is_inexact_gt_midpoint)

/-- `bid_add_and_round` is the composition of the pieces above (their text is the routine's text) -/
theorem aar_shape (q3 q4 e4 delta p34 : Int32) (z_sign p_sign : UInt64) (C3 : U128) (C4 : U256) (m : RoundingMode)
    (b1 b2 b3 b4 : Bool) (f : UInt32) :
    bid_add_and_round q3 q4 e4 delta p34 z_sign p_sign C3 C4 m b1 b2 b3 b4 f =
      aarMain q3 q4 e4 delta p34 z_sign p_sign C3 C4 m b1 b2 b3 b4 f := by
  rfl

open Dec.RH (Ind)
open Dec.C02RoundHelpers (Spec rne rne_eq rne_rounded specInd)
open Dec.C02GenCorrection (pow_split ofBits)

/-! ## 2. Two roundings in a row: the arithmetic of the double-rounding repairs -/

/-- the four indicators of a value `V` relative to `c` units `D` -/
def posInd (V D c : Nat) : Ind :=
  { midLtEven := decide (2 * V + D = 2 * (c * D)), midGtEven := decide (2 * V = 2 * (c * D) + D),
    inexLtMid := decide (c * D < V ∧ 2 * V < 2 * (c * D) + D), inexGtMid := decide (V < c * D ∧ 2 * (c * D) < 2 * V + D) }

/-- the code's repair of coefficient and indicators after a second rounding (Rust lines 575–611): `up0` = the first
rounding went up (`is_inexact_gt_midpoint0 || is_midpoint_lt_even0`), `dn0` = it went down -/
def combine (up0 dn0 : Bool) (i2 : Ind) (c2 : Nat) : Nat × Ind :=
  if (up0 && i2.midLtEven) = true then (c2 - 1, { i2 with midLtEven := false, inexLtMid := true })
  else if (dn0 && i2.midGtEven) = true then (c2 + 1, { i2 with midGtEven := false, inexGtMid := true })
  else if ((((!i2.midLtEven) && (!i2.midGtEven)) && (!i2.inexLtMid)) && (!i2.inexGtMid)) = true then
    (c2, { i2 with inexGtMid := (if up0 = true then true else i2.inexGtMid), inexLtMid := (if dn0 = true then true else i2.inexLtMid) })
  else if (i2.midGtEven && up0) = true then (c2, ⟨false, false, true, false⟩)
  else if (i2.midLtEven && dn0) = true then (c2, ⟨false, false, false, true⟩)
  else (c2, i2)

/-- close a leaf of the two-step analysis: the coefficient is `a` or `a + 1`, the indicators are a literal -/
syntax "leaf_close" : tactic
macro_rules
  | `(tactic| leaf_close) => `(tactic|
    (refine ⟨?_, ?_⟩
     · simp only [RoundedInt, Nat.mul_assoc, implies_true, and_true] at *
       omega
     · simp only [posInd, Ind.mk.injEq]
       refine ⟨?_, ?_, ?_, ?_⟩ <;> symm <;>
         first
         | (rw [decide_eq_true_eq]; omega)
         | (rw [decide_eq_false_iff_not]; omega)))

theorem two_step (s : Bool) (V D1 c1 x2 : Nat) (hD1 : 0 < D1) (hx2 : 1 ≤ x2)
    (hcl : 2 * V ≤ 2 * (c1 * D1) + D1 ∧ 2 * (c1 * D1) ≤ 2 * V + D1) (up0 dn0 : Bool)
    (hup : up0 = decide (V < c1 * D1)) (hdn : dn0 = decide (c1 * D1 < V)) :
    RoundedInt .rne s V (D1 * 10 ^ x2)
        (combine up0 dn0 (specInd (c1 / 10 ^ x2) (c1 % 10 ^ x2) (10 ^ x2 / 2)) (rne c1 x2)).1 ∧
      (combine up0 dn0 (specInd (c1 / 10 ^ x2) (c1 % 10 ^ x2) (10 ^ x2 / 2)) (rne c1 x2)).2 =
        posInd V (D1 * 10 ^ x2) (combine up0 dn0 (specInd (c1 / 10 ^ x2) (c1 % 10 ^ x2) (10 ^ x2 / 2)) (rne c1 x2)).1 := by
  obtain ⟨h, hh, hD, hh2⟩ := pow_split x2 hx2
  have hr := rne_eq c1 x2 hx2
  rw [hh2] at hr ⊢
  have hdm := Nat.div_add_mod c1 (10 ^ x2)
  have hrl := Nat.mod_lt c1 (Nat.pow_pos (by decide) : 0 < 10 ^ x2)
  generalize c1 / 10 ^ x2 = a at *
  generalize c1 % 10 ^ x2 = r at *
  generalize hR : rne c1 x2 = c2 at *
  rw [hD] at hdm hrl ⊢
  -- atoms: U = 2H the new unit, P = a·H, W = r·D1
  obtain ⟨H, hH⟩ : ∃ H, H = h * D1 := ⟨_, rfl⟩
  obtain ⟨P, hP⟩ : ∃ P, P = a * H := ⟨_, rfl⟩
  obtain ⟨W, hW⟩ : ∃ W, W = r * D1 := ⟨_, rfl⟩
  have eU : D1 * (2 * h) = 2 * H := by rw [hH]; ring
  have eC : c1 * D1 = 2 * P + W := by rw [← hdm, hP, hH, hW]; ring
  have ea : a * (2 * H) = 2 * P := by rw [hP]; ring
  have ea1 : (a + 1) * (2 * H) = 2 * P + 2 * H := by rw [hP]; ring
  have w1 : r < h → W + D1 ≤ H := fun hlt => by
    have : (r + 1) * D1 ≤ h * D1 := Nat.mul_le_mul_right D1 hlt
    rw [Nat.add_mul, Nat.one_mul] at this; rw [hW, hH]; exact this
  have w2 : h < r → H + D1 ≤ W := fun hlt => by
    have : (h + 1) * D1 ≤ r * D1 := Nat.mul_le_mul_right D1 hlt
    rw [Nat.add_mul, Nat.one_mul] at this; rw [hW, hH]; exact this
  have w3 : r = h → W = H := fun he => by rw [hW, hH, he]
  have w4 : 0 < r → D1 ≤ W := fun hp => by rw [hW]; exact Nat.le_mul_of_pos_left D1 hp
  have w5 : r = 0 → W = 0 := fun h0 => by rw [hW, h0, Nat.zero_mul]
  have w6 : W + D1 ≤ 2 * H := by
    have : (r + 1) * D1 ≤ (2 * h) * D1 := Nat.mul_le_mul_right D1 hrl
    rw [Nat.add_mul, Nat.one_mul] at this
    rw [hW, hH, show 2 * (h * D1) = 2 * h * D1 by ring]; exact this
  rw [eU]
  rw [eC] at hcl hup hdn
  clear hdm hD hh2 hR eU eC hH hP hW
  subst hup hdn
  rcases Nat.lt_trichotomy r h with hlt | heq | hgt
  · -- below the midpoint of the second rounding
    have hc2 : c2 = a := by rw [hr, if_pos hlt]
    rw [hc2]; clear hr hc2
    have := w1 hlt
    by_cases hr0 : r = 0
    · have := w5 hr0
      have hsp : specInd a r h = ⟨false, false, false, false⟩ := by
        simp only [specInd, Ind.mk.injEq, decide_eq_false_iff_not]; omega
      rw [hsp]
      rcases Nat.lt_trichotomy V (2 * P + W) with c | c | c
      · have d : ¬ 2 * P + W < V := by omega
        simp only [combine, decide_eq_true c, decide_eq_false d, Bool.true_and, Bool.false_and, Bool.and_false,
          Bool.false_eq_true, if_false, Bool.not_false, Bool.and_self, if_true]
        leaf_close
      · have d : ¬ 2 * P + W < V := by omega
        have c' : ¬ V < 2 * P + W := by omega
        simp only [combine, decide_eq_false c', decide_eq_false d, Bool.true_and, Bool.false_and, Bool.and_false,
          Bool.false_eq_true, if_false, Bool.not_false, Bool.and_self, if_true]
        leaf_close
      · have c' : ¬ V < 2 * P + W := by omega
        simp only [combine, decide_eq_false c', decide_eq_true c, Bool.true_and, Bool.false_and, Bool.and_false,
          Bool.false_eq_true, if_false, Bool.not_false, Bool.and_self, if_true]
        leaf_close
    · have := w4 (by omega)
      have hsp : specInd a r h = ⟨false, false, true, false⟩ := by
        simp only [specInd, Ind.mk.injEq, decide_eq_false_iff_not, decide_eq_true_eq]; omega
      rw [hsp]
      simp only [combine, Bool.and_false, Bool.false_and, Bool.false_eq_true, if_false, Bool.not_false, Bool.not_true,
        Bool.and_true, Bool.true_and]
      leaf_close
  · -- at the midpoint of the second rounding
    have := w3 heq
    have hnl : ¬ r < h := by omega
    have hnl' : ¬ h < r := by omega
    by_cases hpar : a % 2 = 0
    · have hc2 : c2 = a := by rw [hr, if_neg hnl, if_neg hnl', if_pos hpar]
      rw [hc2]; clear hr hc2
      have hsp : specInd a r h = ⟨false, true, false, false⟩ := by
        simp only [specInd, Ind.mk.injEq, decide_eq_false_iff_not, decide_eq_true_eq]; omega
      rw [hsp]
      rcases Nat.lt_trichotomy V (2 * P + W) with c | c | c
      · have d : ¬ 2 * P + W < V := by omega
        simp only [combine, decide_eq_true c, decide_eq_false d, Bool.true_and, Bool.false_and, Bool.and_false,
          Bool.false_eq_true, if_false, Bool.not_false, Bool.not_true, Bool.and_self, if_true, Bool.and_true]
        leaf_close
      · have d : ¬ 2 * P + W < V := by omega
        have c' : ¬ V < 2 * P + W := by omega
        simp only [combine, decide_eq_false c', decide_eq_false d, Bool.true_and, Bool.false_and, Bool.and_false,
          Bool.false_eq_true, if_false, Bool.not_false, Bool.not_true, Bool.and_self, if_true, Bool.and_true]
        leaf_close
      · have c' : ¬ V < 2 * P + W := by omega
        simp only [combine, decide_eq_false c', decide_eq_true c, Bool.true_and, Bool.false_and, Bool.and_false,
          Bool.false_eq_true, if_false, Bool.not_false, Bool.not_true, Bool.and_self, if_true, Bool.and_true]
        leaf_close
    · have hc2 : c2 = a + 1 := by rw [hr, if_neg hnl, if_neg hnl', if_neg hpar]
      rw [hc2]; clear hr hc2
      have hsp : specInd a r h = ⟨true, false, false, false⟩ := by
        simp only [specInd, Ind.mk.injEq, decide_eq_false_iff_not, decide_eq_true_eq]; omega
      rw [hsp]
      rcases Nat.lt_trichotomy V (2 * P + W) with c | c | c
      · have d : ¬ 2 * P + W < V := by omega
        simp only [combine, decide_eq_true c, decide_eq_false d, Bool.true_and, Bool.false_and, Bool.and_false,
          Bool.false_eq_true, if_false, Bool.not_false, Bool.not_true, Bool.and_self, if_true, Bool.and_true,
          Nat.add_sub_cancel]
        leaf_close
      · have d : ¬ 2 * P + W < V := by omega
        have c' : ¬ V < 2 * P + W := by omega
        simp only [combine, decide_eq_false c', decide_eq_false d, Bool.true_and, Bool.false_and, Bool.and_false,
          Bool.false_eq_true, if_false, Bool.not_false, Bool.not_true, Bool.and_self, if_true, Bool.and_true]
        leaf_close
      · have c' : ¬ V < 2 * P + W := by omega
        simp only [combine, decide_eq_false c', decide_eq_true c, Bool.true_and, Bool.false_and, Bool.and_false,
          Bool.false_eq_true, if_false, Bool.not_false, Bool.not_true, Bool.and_self, if_true, Bool.and_true]
        leaf_close
  · -- above the midpoint of the second rounding
    have := w2 hgt
    have hnl : ¬ r < h := by omega
    have hc2 : c2 = a + 1 := by rw [hr, if_neg hnl, if_pos hgt]
    rw [hc2]; clear hr hc2
    have hsp : specInd a r h = ⟨false, false, false, true⟩ := by
      simp only [specInd, Ind.mk.injEq, decide_eq_false_iff_not, decide_eq_true_eq]; omega
    rw [hsp]
    simp only [combine, Bool.and_false, Bool.false_and, Bool.false_eq_true, if_false, Bool.not_false, Bool.not_true,
      Bool.and_true, Bool.true_and]
    leaf_close

/-- **nothing is left** (`x0 > ind`): the value is below one half of the new unit: 0, `inexact_lt_midpoint` -/
theorem zero_step (s : Bool) (V D1 c1 ind x2 : Nat) (hD1 : 0 < D1) (hV : 0 < V) (hc1 : c1 < 10 ^ ind) (hx : ind < x2)
    (hcl : 2 * V ≤ 2 * (c1 * D1) + D1) :
    RoundedInt .rne s V (D1 * 10 ^ x2) 0 ∧ (⟨false, false, true, false⟩ : Ind) = posInd V (D1 * 10 ^ x2) 0 := by
  obtain ⟨y, rfl⟩ : ∃ y, x2 = y + 1 := ⟨x2 - 1, by omega⟩
  have hp : 10 ^ ind ≤ 10 ^ y := Nat.pow_le_pow_right (by decide) (by omega)
  have hX : c1 * D1 + D1 ≤ 10 ^ y * D1 := by
    have : (c1 + 1) * D1 ≤ 10 ^ y * D1 := Nat.mul_le_mul_right D1 (by omega)
    rwa [Nat.add_mul, Nat.one_mul] at this
  have eU : D1 * 10 ^ (y + 1) = 10 * (10 ^ y * D1) := by rw [Nat.pow_succ]; ring
  rw [eU]
  generalize 10 ^ y * D1 = Q at *
  generalize c1 * D1 = X at *
  refine ⟨?_, ?_⟩
  · simp only [RoundedInt, implies_true, and_true]; omega
  · simp only [posInd, Ind.mk.injEq]
    refine ⟨?_, ?_, ?_, ?_⟩ <;> symm <;>
      first
      | (rw [decide_eq_true_eq]; omega)
      | (rw [decide_eq_false_iff_not]; omega)

/-- the outcome of the `value == ind` arm (as repaired for D18), from the comparison of the `ind`-digit coefficient with
`5·10^(ind−1)` and the direction of the first rounding -/
def halfOut (up0 dn0 : Bool) (c1 half : Nat) : Nat × Ind :=
  if c1 < half then (0, ⟨false, false, true, false⟩)
  else if c1 = half then
    (if dn0 = true then (1, ⟨false, false, false, true⟩)
     else if up0 = true then (0, ⟨false, false, true, false⟩) else (0, ⟨false, true, false, false⟩))
  else (1, ⟨false, false, false, true⟩)

/-- **exactly the digits are chopped** (`x0 = ind`): 0 or 1, by the comparison with one half of the new unit — and, at
equality, by the direction of the first rounding -/
theorem half_step (s : Bool) (V D1 c1 ind : Nat) (hD1 : 0 < D1) (hind : 1 ≤ ind) (hc0 : 0 < c1) (hc1 : c1 < 10 ^ ind)
    (hcl : 2 * V ≤ 2 * (c1 * D1) + D1 ∧ 2 * (c1 * D1) ≤ 2 * V + D1) (up0 dn0 : Bool)
    (hup : up0 = decide (V < c1 * D1)) (hdn : dn0 = decide (c1 * D1 < V)) :
    RoundedInt .rne s V (D1 * 10 ^ ind) (halfOut up0 dn0 c1 (5 * 10 ^ (ind - 1))).1 ∧
      (halfOut up0 dn0 c1 (5 * 10 ^ (ind - 1))).2 = posInd V (D1 * 10 ^ ind) (halfOut up0 dn0 c1 (5 * 10 ^ (ind - 1))).1 := by
  obtain ⟨y, rfl⟩ : ∃ y, ind = y + 1 := ⟨ind - 1, by omega⟩
  rw [show y + 1 - 1 = y by omega]
  rw [Nat.pow_succ] at hc1
  have eU : D1 * 10 ^ (y + 1) = 2 * (5 * 10 ^ y * D1) := by rw [Nat.pow_succ]; ring
  rw [eU]
  have x1 : c1 < 5 * 10 ^ y → c1 * D1 + D1 ≤ 5 * 10 ^ y * D1 := fun h => by
    have : (c1 + 1) * D1 ≤ 5 * 10 ^ y * D1 := Nat.mul_le_mul_right D1 h
    rwa [Nat.add_mul, Nat.one_mul] at this
  have x2 : 5 * 10 ^ y < c1 → 5 * 10 ^ y * D1 + D1 ≤ c1 * D1 := fun h => by
    have : (5 * 10 ^ y + 1) * D1 ≤ c1 * D1 := Nat.mul_le_mul_right D1 h
    rwa [Nat.add_mul, Nat.one_mul] at this
  have x3 : c1 * D1 + D1 ≤ 2 * (5 * 10 ^ y * D1) := by
    have : (c1 + 1) * D1 ≤ (10 ^ y * 10) * D1 := Nat.mul_le_mul_right D1 hc1
    rw [Nat.add_mul, Nat.one_mul] at this
    rw [show 2 * (5 * 10 ^ y * D1) = 10 ^ y * 10 * D1 by ring]; exact this
  have x4 : D1 ≤ c1 * D1 := Nat.le_mul_of_pos_left D1 hc0
  have x5 : c1 = 5 * 10 ^ y → c1 * D1 = 5 * 10 ^ y * D1 := fun h => by rw [h]
  subst hup hdn
  generalize hH : 5 * 10 ^ y * D1 = H at *
  generalize hX : c1 * D1 = X at *
  generalize 5 * 10 ^ y = half at *
  unfold halfOut
  rcases Nat.lt_trichotomy c1 half with a | a | a
  · have := x1 a
    rw [if_pos a]
    refine ⟨?_, ?_⟩
    · simp only [RoundedInt, implies_true, and_true]; omega
    · simp only [posInd, Ind.mk.injEq]
      refine ⟨?_, ?_, ?_, ?_⟩ <;> symm <;>
        first
        | (rw [decide_eq_true_eq]; omega)
        | (rw [decide_eq_false_iff_not]; omega)
  · have := x5 a
    rw [if_neg (by omega), if_pos a]
    rcases Nat.lt_trichotomy V X with c | c | c
    · have d : ¬ X < V := by omega
      simp only [decide_eq_true c, decide_eq_false d, Bool.false_eq_true, if_false, if_true]
      refine ⟨?_, ?_⟩
      · simp only [RoundedInt, implies_true, and_true]; omega
      · simp only [posInd, Ind.mk.injEq]
        refine ⟨?_, ?_, ?_, ?_⟩ <;> symm <;>
          first
          | (rw [decide_eq_true_eq]; omega)
          | (rw [decide_eq_false_iff_not]; omega)
    · have d : ¬ X < V := by omega
      have c' : ¬ V < X := by omega
      simp only [decide_eq_false c', decide_eq_false d, Bool.false_eq_true, if_false, if_true]
      refine ⟨?_, ?_⟩
      · simp only [RoundedInt, implies_true, and_true]; omega
      · simp only [posInd, Ind.mk.injEq]
        refine ⟨?_, ?_, ?_, ?_⟩ <;> symm <;>
          first
          | (rw [decide_eq_true_eq]; omega)
          | (rw [decide_eq_false_iff_not]; omega)
    · have c' : ¬ V < X := by omega
      simp only [decide_eq_false c', decide_eq_true c, Bool.false_eq_true, if_false, if_true]
      refine ⟨?_, ?_⟩
      · simp only [RoundedInt, implies_true, and_true]; omega
      · simp only [posInd, Ind.mk.injEq]
        refine ⟨?_, ?_, ?_, ?_⟩ <;> symm <;>
          first
          | (rw [decide_eq_true_eq]; omega)
          | (rw [decide_eq_false_iff_not]; omega)
  · have := x2 a
    rw [if_neg (by omega), if_neg (by omega)]
    refine ⟨?_, ?_⟩
    · simp only [RoundedInt, implies_true, and_true]; omega
    · simp only [posInd, Ind.mk.injEq]
      refine ⟨?_, ?_, ?_, ?_⟩ <;> symm <;>
        first
        | (rw [decide_eq_true_eq]; omega)
        | (rw [decide_eq_false_iff_not]; omega)



/-! ## 3. The pieces, evaluated -/

/-- the flags the tail ORs in after the correction: inexact if an indicator is set, and then underflow if tiny -/
def tailFlags (f : UInt32) (any tiny : Bool) : UInt32 :=
  if any = true then (if tiny = true then (f ||| c_StatusFlags_BID_INEXACT_EXCEPTION) ||| c_StatusFlags_BID_UNDERFLOW_EXCEPTION
    else f ||| c_StatusFlags_BID_INEXACT_EXCEPTION) else f

theorem aarTail_rn (e : Int32) (res : U128) (ML MG L G tiny : Bool) (f : UInt32) :
    aarTail .NearestEven e res ML MG L G tiny f = .ok (res, ML, MG, L, G, tailFlags f (((ML || MG) || L) || G) tiny) := by
  unfold aarTail tailFlags
  cases ML <;> cases MG <;> cases L <;> cases G <;> cases tiny <;> rfl

theorem aarTail_dir (m : RoundingMode) (hm : m ≠ .NearestEven) (e : Int32) (res : U128) (ML MG L G tiny : Bool) (f : UInt32) :
    aarTail m e res ML MG L G tiny f =
      (bid_rounding_correction m L G ML MG e res f).bind fun t =>
        .ok (t.1, ML, MG, L, G, tailFlags t.2 (((ML || MG) || L) || G) tiny) := by
  unfold aarTail tailFlags
  have hb : (m != RoundingMode.NearestEven) = true := by simpa using hm
  simp only [hb, if_true, bind, Except.bind, pure, Except.pure]
  cases bid_rounding_correction m L G ML MG e res f with
  | error e => rfl
  | ok t => cases ML <;> cases MG <;> cases L <;> cases G <;> cases tiny <;> rfl

theorem round64_incr (q x : Int32) (C : UInt64) (b : Bool) :
    bid_round64_2_18 q x C b false false false false = bid_round64_2_18 q x C false false false false false := by
  cases b <;> rfl
theorem round128_incr (q x : Int32) (C : U128) (b : Bool) :
    bid_round128_19_38 q x C b false false false false = bid_round128_19_38 q x C false false false false false := by
  cases b <;> rfl

/-- `res − 1` on the two words, as the code does it -/
def decW (res : U128) : U128 := ⟨res.w0 - 1, if (res.w0 - 1 == (0xffffffffffffffff : UInt64)) = true then res.w1 - 1 else res.w1⟩
/-- `res + 1` on the two words, as the code does it -/
def incW (res : U128) : U128 := ⟨res.w0 + 1, if (res.w0 + 1 == (0 : UInt64)) = true then res.w1 + 1 else res.w1⟩

theorem ofBits_words (B : Nat) (h2 : B < 2 ^ 128) : (ofBits B).w0.toNat = B % 2 ^ 64 ∧ (ofBits B).w1.toNat = B / 2 ^ 64 := by
  show (UInt64.ofNat _).toNat = _ ∧ (UInt64.ofNat _).toNat = _
  rw [UInt64.toNat_ofNat', UInt64.toNat_ofNat']
  omega

theorem decW_ofBits (B : Nat) (h1 : 1 ≤ B) (h2 : B < 2 ^ 128) : decW (ofBits B) = ofBits (B - 1) := by
  apply Dec.C06GenFromInt.eq_ofBits
  obtain ⟨e0, e1⟩ := ofBits_words B h2
  have em : (0xffffffffffffffff : UInt64).toNat = 18446744073709551615 := rfl
  generalize ofBits B = r at *
  unfold decW Dec.C06GenFromInt.bitsOf
  by_cases hc : (r.w0 - 1 == (0xffffffffffffffff : UInt64)) = true
  · simp only [hc, if_true, UInt64.toNat_sub, UInt64.toNat_one]
    rw [beq_iff_eq, ← UInt64.toNat_inj, UInt64.toNat_sub, em, UInt64.toNat_one] at hc
    omega
  · simp only [hc, if_false, Bool.false_eq_true, UInt64.toNat_sub, UInt64.toNat_one]
    rw [beq_iff_eq, ← UInt64.toNat_inj, UInt64.toNat_sub, em, UInt64.toNat_one] at hc
    omega

theorem incW_ofBits (B : Nat) (h2 : B + 1 < 2 ^ 128) : incW (ofBits B) = ofBits (B + 1) := by
  apply Dec.C06GenFromInt.eq_ofBits
  obtain ⟨e0, e1⟩ := ofBits_words B (by omega)
  generalize ofBits B = r at *
  unfold incW Dec.C06GenFromInt.bitsOf
  by_cases hc : (r.w0 + 1 == (0 : UInt64)) = true
  · simp only [hc, if_true, UInt64.toNat_add, UInt64.toNat_one]
    rw [beq_iff_eq, ← UInt64.toNat_inj, UInt64.toNat_add, UInt64.toNat_zero, UInt64.toNat_one] at hc
    omega
  · simp only [hc, if_false, Bool.false_eq_true, UInt64.toNat_add, UInt64.toNat_one]
    rw [beq_iff_eq, ← UInt64.toNat_inj, UInt64.toNat_add, UInt64.toNat_zero, UInt64.toNat_one] at hc
    omega



/-- the code's decision after the second rounding: −1 / +1 / 0 on the coefficient, and the new indicators -/
def combineW (up0 dn0 : Bool) (i2 : Ind) (res : U128) : U128 × Ind :=
  if (up0 && i2.midLtEven) = true then (decW res, { i2 with midLtEven := false, inexLtMid := true })
  else if (dn0 && i2.midGtEven) = true then (incW res, { i2 with midGtEven := false, inexGtMid := true })
  else if ((((!i2.midLtEven) && (!i2.midGtEven)) && (!i2.inexLtMid)) && (!i2.inexGtMid)) = true then
    (res, { i2 with inexGtMid := (if up0 = true then true else i2.inexGtMid), inexLtMid := (if dn0 = true then true else i2.inexLtMid) })
  else if (i2.midGtEven && up0) = true then (res, ⟨false, false, true, false⟩)
  else if (i2.midLtEven && dn0) = true then (res, ⟨false, false, false, true⟩)
  else (res, i2)

theorem aarRepair_eval (m : RoundingMode) (e : Int32) (res : U128) (ML0 MG0 L0 G0 ML2 MG2 L2 G2 tiny : Bool) (f : UInt32) :
    aarRepair m e res ML0 MG0 L0 G0 ML2 MG2 L2 G2 tiny f =
      aarTail m e (combineW (G0 || ML0) (L0 || MG0) ⟨ML2, MG2, L2, G2⟩ res).1
        (combineW (G0 || ML0) (L0 || MG0) ⟨ML2, MG2, L2, G2⟩ res).2.midLtEven
        (combineW (G0 || ML0) (L0 || MG0) ⟨ML2, MG2, L2, G2⟩ res).2.midGtEven
        (combineW (G0 || ML0) (L0 || MG0) ⟨ML2, MG2, L2, G2⟩ res).2.inexLtMid
        (combineW (G0 || ML0) (L0 || MG0) ⟨ML2, MG2, L2, G2⟩ res).2.inexGtMid tiny f := by
  cases ML0 <;> cases MG0 <;> cases L0 <;> cases G0 <;> cases ML2 <;> cases MG2 <;> cases L2 <;> cases G2 <;>
    first
    | rfl
    | (by_cases hc : (res.w0 - 1 == (0xffffffffffffffff : UInt64)) = true
       · simp only [aarRepair, combineW, decW, incW, hc, Bool.or_false, Bool.or_true, Bool.and_true, Bool.true_and,
           Bool.and_false, Bool.false_and, if_true, if_false, Bool.false_eq_true, Bool.or_self, Bool.and_self,
           Bool.not_true, Bool.not_false, bind, Except.bind, pure, Except.pure]
       · simp only [aarRepair, combineW, decW, incW, hc, Bool.or_false, Bool.or_true, Bool.and_true, Bool.true_and,
           Bool.and_false, Bool.false_and, if_true, if_false, Bool.false_eq_true, Bool.or_self, Bool.and_self,
           Bool.not_true, Bool.not_false, bind, Except.bind, pure, Except.pure])
    | (by_cases hc : (res.w0 + 1 == (0 : UInt64)) = true
       · simp only [aarRepair, combineW, decW, incW, hc, Bool.or_false, Bool.or_true, Bool.and_true, Bool.true_and,
           Bool.and_false, Bool.false_and, if_true, if_false, Bool.false_eq_true, Bool.or_self, Bool.and_self,
           Bool.not_true, Bool.not_false, bind, Except.bind, pure, Except.pure]
       · simp only [aarRepair, combineW, decW, incW, hc, Bool.or_false, Bool.or_true, Bool.and_true, Bool.true_and,
           Bool.and_false, Bool.false_and, if_true, if_false, Bool.false_eq_true, Bool.or_self, Bool.and_self,
           Bool.not_true, Bool.not_false, bind, Except.bind, pure, Except.pure])


open Dec.C03GenCompare (sigW negW coeff_hi)

theorem i32_eq_ofNat (x : Int32) (n : Nat) (h : x.toInt = n) : x = Int32.ofNat n := by
  have := x.toInt_lt
  rw [← Int32.toInt_inj, h, Int32.toInt_ofNat_of_lt (by omega)]

/-- the indicators a helper hands back are `specInd` of quotient and discarded part -/
theorem spec_ind {q x C cs : Nat} {incr : Bool} {fl : Ind} (sp : Spec q x C cs incr fl) :
    fl = specInd (C / 10 ^ x) (C % 10 ^ x) (10 ^ x / 2) := by
  obtain ⟨a, b, c, d⟩ := fl
  have b2d : ∀ (b : Bool) (p : Prop) [Decidable p], (b = true ↔ p) → b = decide p := by
    intro b p _ hbp
    cases b
    · exact (decide_eq_false (fun hp => Bool.noConfusion (hbp.2 hp))).symm
    · exact (decide_eq_true (hbp.1 rfl)).symm
  unfold specInd
  rw [Ind.mk.injEq]
  exact ⟨b2d _ _ sp.midLtEven_iff, b2d _ _ sp.midGtEven_iff, b2d _ _ sp.inexLtMid_iff, b2d _ _ sp.inexGtMid_iff⟩

/-- `C*`, times ten after a carry, is the rounded quotient -/
theorem spec_val {q x C cs : Nat} {incr : Bool} {fl : Ind} (sp : Spec q x C cs incr fl) (hq : x + 1 ≤ q) :
    (if incr = true then 10 * cs else cs) = rne C x := by
  have h1 := sp.cstar_eq
  have h2 := sp.incr_iff
  by_cases hc : rne C x = 10 ^ (q - x)
  · rw [if_pos hc] at h1
    rw [if_pos (h2.2 hc), h1, hc, show q - x = (q - x - 1) + 1 by omega, Nat.pow_succ]
    rw [show q - x - 1 + 1 - 1 = q - x - 1 by omega]; ring
  · rw [if_neg hc] at h1
    have : incr = false := by
      cases hi : incr
      · rfl
      · exact absurd (h2.1 hi) hc
    rw [this, h1]; rfl
theorem i6176 : (-6176 : Int32).toInt = -6176 := by decide

theorem ten_read : tbl64 Dec.Gen.BID_TEN2K64 (UInt64.ofInt (toI 1)) = .ok 10 := by rfl

/-- the rounded quotient of an at most 34-digit number is small -/
theorem rne_lt (c1 x ind : Nat) (hx : 1 ≤ x) (hc : c1 < 10 ^ ind) (h34 : ind ≤ 34) : rne c1 x < 10 ^ 34 := by
  have h1 : rne c1 x ≤ c1 / 10 ^ x + 1 := by unfold rne; exact Dec.roundInt_le _ _ _ _ _
  have h2 : c1 / 10 ^ x ≤ c1 / 10 ^ 1 := Nat.div_le_div_left (Nat.pow_le_pow_right (by decide) hx) (by norm_num)
  have h3 : c1 < 10 ^ 34 := lt_of_lt_of_le hc (Nat.pow_le_pow_right (by decide) h34)
  omega

/-- packing at the least exponent: sign word, zero exponent field, coefficient words -/
theorem pack_min (p_sign : UInt64) (S : Nat) (hS : S ≤ 1) (hps : p_sign.toNat = S * 2 ^ 63) (e : Int32) (he : e.toInt = -6176)
    (w1 w0 : UInt64) (c : Nat) (hc : w1.toNat % 2 ^ 49 * 2 ^ 64 + w0.toNat = c) (hlt : c < 2 ^ 113) :
    (⟨w0, p_sign ||| UInt64.ofInt (toI (e + 6176)) <<< 49 ||| w1 &&& c_MASK_COEFF⟩ : U128) = ofBits (S * 2 ^ 127 + c) := by
  have hx := Dec.C02GenCorrection.expField e (-6176) he (by omega) (by omega)
  have := Dec.C17GenNext.pack_bits p_sign (UInt64.ofInt (toI (e + 6176)) <<< 49) (w1 &&& c_MASK_COEFF) w0 S 0 c hps hS
    (by rw [hx]; rfl) (by omega) (by rw [show c_MASK_COEFF = 0x1ffffffffffff from rfl, coeff_hi]; exact hc) hlt
  rw [this, Nat.zero_mul, Nat.add_zero]

theorem pk (r0 r1 v c : Nat) (h : r0 + 2 ^ 64 * r1 = v) (hv : v = c) (hc : c < 10 ^ 34) (h0 : r0 < 2 ^ 64) :
    r1 % 2 ^ 49 * 2 ^ 64 + r0 = c ∧ c < 2 ^ 113 := by
  have : (10 : Nat) ^ 34 < 2 ^ 113 := by norm_num
  omega

theorem aarUFround_eval (m : RoundingMode) (p_sign : UInt64) (S : Nat) (hS : S ≤ 1) (hps : p_sign.toNat = S * 2 ^ 63)
    (e4 ind x0 : Int32) (e1 : Int) (ind1 x2 : Nat) (he4 : e4.toInt = e1) (hind : ind.toInt = ind1) (hx0 : x0.toInt = x2)
    (hsum : e1 + x2 = -6176) (h34 : ind1 ≤ 34) (hx1 : 1 ≤ x2) (hx2 : x2 + 1 ≤ ind1)
    (res : U128) (c1 : Nat) (hc : sigW res.w1.toNat res.w0.toNat = c1) (hc1 : c1 < 10 ^ ind1)
    (incr ML0 MG0 L0 G0 tiny : Bool) (f : UInt32) :
    aarUFround m p_sign e4 ind x0 res incr ML0 MG0 L0 G0 tiny f =
      aarRepair m (-6176) (ofBits (S * 2 ^ 127 + rne c1 x2)) ML0 MG0 L0 G0
        (specInd (c1 / 10 ^ x2) (c1 % 10 ^ x2) (10 ^ x2 / 2)).midLtEven
        (specInd (c1 / 10 ^ x2) (c1 % 10 ^ x2) (10 ^ x2 / 2)).midGtEven
        (specInd (c1 / 10 ^ x2) (c1 % 10 ^ x2) (10 ^ x2 / 2)).inexLtMid
        (specInd (c1 / 10 ^ x2) (c1 % 10 ^ x2) (10 ^ x2 / 2)).inexGtMid tiny f := by
  have hi := i32_eq_ofNat ind ind1 hind
  have hx := i32_eq_ofNat x0 x2 hx0
  have hsumI : (e4 + x0).toInt = -6176 := by
    rw [Int32.toInt_add, he4, hx0, bmod32 _ (by omega) (by omega)]; exact hsum
  have he : e4 + x0 = (-6176 : Int32) := by rw [← Int32.toInt_inj, hsumI]; rfl
  have hrl := rne_lt c1 x2 ind1 hx1 hc1 h34
  have h113 : (10 : Nat) ^ 34 < 2 ^ 113 := by norm_num
  have hw0 := res.w0.toNat_lt
  unfold sigW at hc
  unfold aarUFround
  by_cases h18 : ind1 ≤ 18
  · -- one word
    have hd : decide (ind ≤ (0x12 : Int32)) = true := by
      rw [decide_eq_true_eq, Int32.le_iff_toInt_le, hind, show (0x12 : Int32).toInt = 18 from rfl]; exact_mod_cast h18
    have hp18 : c1 < 10 ^ 18 := lt_of_lt_of_le hc1 (Nat.pow_le_pow_right (by decide) h18)
    have hhi : res.w1.toNat % 2 ^ 49 = 0 := by
      have : (10 : Nat) ^ 18 < 2 ^ 64 := by norm_num
      omega
    have hlo : res.w0.toNat = c1 := by omega
    obtain ⟨cs, incr2, lt, gt, ilt, igt, hcall, sp⟩ := Dec.C02GenRound.bid_round64_2_18_spec ind1 x2 res.w0 (by omega) h18 hx1 hx2
      (by rw [hlo]; exact hc1)
    rw [← hi, ← hx] at hcall
    rw [hlo] at sp
    have hfl := spec_ind sp
    have hval := spec_val sp hx2
    simp only [hd, if_true, round64_incr, hcall, bind, Except.bind, pure, Except.pure, he]
    rw [← hfl]
    have hz : ((0 : UInt64) &&& c_MASK_COEFF) = 0 := by decide
    cases incr2
    · simp only [Bool.false_eq_true, if_false] at hval ⊢
      rw [pack_min p_sign S hS hps (-6176) i6176 0 cs (rne c1 x2) (by rw [← hval]; simp) (by omega)]
    · simp only [if_true] at hval ⊢
      rw [ten_read]
      simp only []
      have hcs := cs.toNat_lt
      obtain ⟨r, hr, hv⟩ := Dec.C01GenArith.gen_mul_64x128_to_128 10 ⟨cs, 0 &&& c_MASK_COEFF⟩
      rw [hr]
      simp only []
      have hP : (U128.mk cs (0 &&& c_MASK_COEFF)).toNat' = cs.toNat := by
        show cs.toNat + 2 ^ 64 * ((0 : UInt64) &&& c_MASK_COEFF).toNat = _
        rw [hz]; simp
      rw [hP, show (10 : UInt64).toNat = 10 from rfl, Nat.mod_eq_of_lt (by omega)] at hv
      unfold U128.toNat' at hv
      have r0 := r.w0.toNat_lt
      have hk := pk r.w0.toNat r.w1.toNat _ _ hv hval hrl r0
      rw [pack_min p_sign S hS hps (-6176) i6176 r.w1 r.w0 (rne c1 x2) hk.1 hk.2]
  · -- two words
    have hd : decide (ind ≤ (0x12 : Int32)) = false := by
      rw [decide_eq_false_iff_not, Int32.le_iff_toInt_le, hind, show (0x12 : Int32).toInt = 18 from rfl]; exact_mod_cast h18
    have hd2 : decide (ind ≤ (0x26 : Int32)) = true := by
      rw [decide_eq_true_eq, Int32.le_iff_toInt_le, hind, show (0x26 : Int32).toInt = 38 from rfl]
      exact_mod_cast (by omega : ind1 ≤ 38)
    have hv1 : Dec.C02GenRound.v128 ⟨res.w0, res.w1 &&& c_MASK_COEFF⟩ = c1 := by
      show res.w0.toNat + 2 ^ 64 * (res.w1 &&& c_MASK_COEFF).toNat = c1
      rw [show c_MASK_COEFF = 0x1ffffffffffff from rfl, coeff_hi]; omega
    obtain ⟨cs, incr2, lt, gt, ilt, igt, hcall, sp⟩ := Dec.C02GenRound.bid_round128_19_38_spec ind1 x2
      ⟨res.w0, res.w1 &&& c_MASK_COEFF⟩ (by omega) (by omega) hx1 hx2 (by rw [hv1]; exact hc1)
    rw [← hi, ← hx] at hcall
    rw [hv1] at sp
    have hfl := spec_ind sp
    have hval := spec_val sp hx2
    simp only [hd, hd2, if_true, if_false, Bool.false_eq_true, round128_incr, hcall, bind, Except.bind, pure, Except.pure, he]
    rw [← hfl]
    unfold Dec.C02GenRound.v128 at hval
    have c0 := cs.w0.toNat_lt
    cases incr2
    · simp only [Bool.false_eq_true, if_false] at hval ⊢
      have hk := pk cs.w0.toNat cs.w1.toNat _ _ rfl hval hrl c0
      rw [pack_min p_sign S hS hps (-6176) i6176 cs.w1 cs.w0 (rne c1 x2) hk.1 hk.2]
    · simp only [if_true] at hval ⊢
      rw [ten_read]
      simp only []
      obtain ⟨r, hr, hv⟩ := Dec.C01GenArith.gen_mul_64x128_to_128 10 ⟨cs.w0, cs.w1 &&& c_MASK_COEFF⟩
      rw [hr]
      simp only []
      have hP : (U128.mk cs.w0 (cs.w1 &&& c_MASK_COEFF)).toNat' = cs.w0.toNat + 2 ^ 64 * cs.w1.toNat := by
        show cs.w0.toNat + 2 ^ 64 * (cs.w1 &&& c_MASK_COEFF).toNat = _
        rw [show c_MASK_COEFF = 0x1ffffffffffff from rfl, coeff_hi]
        have : cs.w1.toNat < 2 ^ 49 := by omega
        omega
      rw [hP, show (10 : UInt64).toNat = 10 from rfl, Nat.mod_eq_of_lt (by omega)] at hv
      unfold U128.toNat' at hv
      have r0 := r.w0.toNat_lt
      have hk := pk r.w0.toNat r.w1.toNat _ _ hv hval hrl r0
      rw [pack_min p_sign S hS hps (-6176) i6176 r.w1 r.w0 (rne c1 x2) hk.1 hk.2]


/-- an `i32` used as an index -/
theorem idx_of (i : Int32) (n : Nat) (h : i.toInt = n) : UInt64.ofInt (toI i) = UInt64.ofNat n := by
  have hn : (n : Int) < 2 ^ 31 := by rw [← h]; exact i.toInt_lt
  rw [← UInt64.toNat_inj, Dec.C17GenNext.idx_toNat i n h, UInt64.toNat_ofNat']
  omega

theorem i32_sub (i : Int32) (n k : Nat) (h : i.toInt = n) (c : Int32) (hc : c.toInt = k) (hk : k ≤ n) :
    (i - c).toInt = ((n - k : Nat) : Int) := by
  have hn : (n : Int) < 2 ^ 31 := by rw [← h]; exact i.toInt_lt
  rw [Int32.toInt_sub, h, hc, bmod32 _ (by omega) (by omega)]
  omega

theorem mid64_all : (List.range 19).all (fun i =>
    match tbl64 Dec.Gen.BID_MIDPOINT64 (UInt64.ofNat i) with | .ok v => v == UInt64.ofNat (5 * 10 ^ i) | _ => false) = true := by
  decide +kernel
theorem mid128_all : (List.range 19).all (fun i =>
    match tbl128 Dec.Gen.BID_MIDPOINT128 (UInt64.ofNat i) with
    | .ok v => v == mk128 (5 * 10 ^ (i + 19)) | _ => false) = true := by
  decide +kernel

/-- `BID_MIDPOINT64[i] = 5·10^i`, `i < 19` -/
theorem mid64_get (i : Nat) (h : i < 19) : tbl64 Dec.Gen.BID_MIDPOINT64 (UInt64.ofNat i) = .ok (UInt64.ofNat (5 * 10 ^ i)) := by
  have := List.all_eq_true.1 mid64_all i (List.mem_range.2 h)
  revert this
  cases tbl64 Dec.Gen.BID_MIDPOINT64 (UInt64.ofNat i) with
  | error e => intro h; exact Bool.noConfusion h
  | ok v => intro h; rw [eq_of_beq h]

/-- `BID_MIDPOINT128[i] = 5·10^(i + 19)`, `i < 19` -/
theorem mid128_get (i : Nat) (h : i < 19) : tbl128 Dec.Gen.BID_MIDPOINT128 (UInt64.ofNat i) = .ok (mk128 (5 * 10 ^ (i + 19))) := by
  have := List.all_eq_true.1 mid128_all i (List.mem_range.2 h)
  revert this
  cases tbl128 Dec.Gen.BID_MIDPOINT128 (UInt64.ofNat i) with
  | error e => intro h; exact Bool.noConfusion h
  | ok v => intro h; rw [eq_of_beq h]

theorem pack_small (p_sign : UInt64) (S : Nat) (hS : S ≤ 1) (hps : p_sign.toNat = S * 2 ^ 63) (w : UInt64) (c : Nat)
    (hw : w.toNat = c) : (⟨w, 0 ||| p_sign⟩ : U128) = ofBits (S * 2 ^ 127 + c) := by
  apply Dec.C06GenFromInt.eq_ofBits
  have := w.toNat_lt
  show (0 ||| p_sign).toNat * 2 ^ 64 + w.toNat = _
  rw [UInt64.zero_or, hps, hw]; ring

theorem aarUFeq_eval (m : RoundingMode) (p_sign : UInt64) (S : Nat) (hS : S ≤ 1) (hps : p_sign.toNat = S * 2 ^ 63)
    (ind : Int32) (ind1 : Nat) (hind : ind.toInt = ind1) (h1 : 1 ≤ ind1) (h34 : ind1 ≤ 34)
    (res : U128) (c1 : Nat) (hc : sigW res.w1.toNat res.w0.toNat = c1) (hc1 : c1 < 10 ^ ind1)
    (ML0 MG0 L0 G0 tiny : Bool) (f : UInt32) :
    aarUFeq m p_sign ind res ML0 MG0 L0 G0 tiny f =
      aarTail m (-6176) (ofBits (S * 2 ^ 127 + (halfOut (G0 || ML0) (L0 || MG0) c1 (5 * 10 ^ (ind1 - 1))).1))
        (halfOut (G0 || ML0) (L0 || MG0) c1 (5 * 10 ^ (ind1 - 1))).2.midLtEven
        (halfOut (G0 || ML0) (L0 || MG0) c1 (5 * 10 ^ (ind1 - 1))).2.midGtEven
        (halfOut (G0 || ML0) (L0 || MG0) c1 (5 * 10 ^ (ind1 - 1))).2.inexLtMid
        (halfOut (G0 || ML0) (L0 || MG0) c1 (5 * 10 ^ (ind1 - 1))).2.inexGtMid tiny f := by
  have hmin : c_EXP_MIN_UNBIASED = (-6176 : Int32) := rfl
  have hw0 := res.w0.toNat_lt
  have p0 : (⟨0, 0 ||| p_sign⟩ : U128) = ofBits (S * 2 ^ 127 + 0) := pack_small p_sign S hS hps 0 0 rfl
  have p1 : (⟨1, 0 ||| p_sign⟩ : U128) = ofBits (S * 2 ^ 127 + 1) := pack_small p_sign S hS hps 1 1 rfl
  unfold sigW at hc
  unfold aarUFeq halfOut
  rw [hmin]
  by_cases h19 : ind1 ≤ 19
  · have hd : decide (ind ≤ (0x13 : Int32)) = true := by
      rw [decide_eq_true_eq, Int32.le_iff_toInt_le, hind, show (0x13 : Int32).toInt = 19 from rfl]; exact_mod_cast h19
    have hidx := idx_of (ind - 1) (ind1 - 1) (i32_sub ind ind1 1 hind 1 rfl h1)
    have hp : 5 * 10 ^ (ind1 - 1) < 2 ^ 64 := by
      have : 10 ^ (ind1 - 1) ≤ 10 ^ 18 := Nat.pow_le_pow_right (by decide) (by omega)
      have : (5 : Nat) * 10 ^ 18 < 2 ^ 64 := by norm_num
      omega
    have hp19 : c1 < 10 ^ 19 := lt_of_lt_of_le hc1 (Nat.pow_le_pow_right (by decide) h19)
    have hlo : res.w0.toNat = c1 := by
      have : (10 : Nat) ^ 19 < 2 ^ 64 := by norm_num
      omega
    have hv : (UInt64.ofNat (5 * 10 ^ (ind1 - 1))).toNat = 5 * 10 ^ (ind1 - 1) := by
      rw [UInt64.toNat_ofNat', Nat.mod_eq_of_lt hp]
    simp only [hd, if_true, hidx, mid64_get (ind1 - 1) (by omega), bind, Except.bind, pure, Except.pure, p0, p1,
      Bool.true_or, Bool.or_true, Bool.or_self, Bool.false_eq_true, if_false]
    generalize 5 * 10 ^ (ind1 - 1) = half at *
    by_cases a : c1 < half
    · have a' : res.w0 < UInt64.ofNat half := by rw [UInt64.lt_iff_toNat_lt, hv, hlo]; exact a
      simp only [a, a', decide_true, if_true]
    · have a' : ¬ res.w0 < UInt64.ofNat half := by rw [UInt64.lt_iff_toNat_lt, hv, hlo]; exact a
      simp only [a, a', decide_false, Bool.false_eq_true, if_false]
      by_cases b : c1 = half
      · have b' : (res.w0 == UInt64.ofNat half) = true := by rw [beq_iff_eq, ← UInt64.toNat_inj, hv, hlo]; exact b
        simp only [b, b', if_true]
        cases hL : (L0 || MG0) <;> cases hG : (G0 || ML0) <;> simp only [Bool.false_eq_true, if_false, if_true]
      · have b' : (res.w0 == UInt64.ofNat half) = false := by
          rw [beq_eq_false_iff_ne, ne_eq, ← UInt64.toNat_inj, hv, hlo]; exact b
        simp only [b, b', Bool.false_eq_true, if_false]
  · have hd : decide (ind ≤ (0x13 : Int32)) = false := by
      rw [decide_eq_false_iff_not, Int32.le_iff_toInt_le, hind, show (0x13 : Int32).toInt = 19 from rfl]; exact_mod_cast h19
    have hidx := idx_of (ind - 0x14) (ind1 - 20) (i32_sub ind ind1 20 hind 0x14 rfl (by omega))
    have hp : 5 * 10 ^ (ind1 - 1) < 2 ^ 128 := by
      have : 10 ^ (ind1 - 1) ≤ 10 ^ 33 := Nat.pow_le_pow_right (by decide) (by omega)
      have : (5 : Nat) * 10 ^ 33 < 2 ^ 128 := by norm_num
      omega
    have hexp : ind1 - 20 + 19 = ind1 - 1 := by omega
    have hmv := mk128_val _ hp
    have hm0 := (mk128 (5 * 10 ^ (ind1 - 1))).w0.toNat_lt
    unfold U128.toNat' at hmv
    have hhi : (res.w1 &&& c_MASK_COEFF).toNat = res.w1.toNat % 2 ^ 49 := by
      rw [show c_MASK_COEFF = 0x1ffffffffffff from rfl, coeff_hi]
    simp only [hd, if_false, Bool.false_eq_true, hidx, mid128_get (ind1 - 20) (by omega), hexp, bind, Except.bind, pure,
      Except.pure, p0, p1, Bool.true_or, Bool.or_true, Bool.or_self, if_true]
    generalize 5 * 10 ^ (ind1 - 1) = half at *
    generalize mk128 half = M at *
    generalize res.w1 &&& c_MASK_COEFF = hiW at *
    by_cases a : c1 < half
    · rw [if_pos a]
      have t : (if decide (hiW < M.w1) = true then (Except.ok true : Except String Bool)
          else if (hiW == M.w1) = true then Except.ok (decide (res.w0 < M.w0)) else Except.ok false) = Except.ok true := by
        by_cases a1 : hiW < M.w1
        · simp only [a1, decide_true, if_true]
        · simp only [a1, decide_false, Bool.false_eq_true, if_false]
          rw [UInt64.lt_iff_toNat_lt] at a1
          have a2 : (hiW == M.w1) = true := by rw [beq_iff_eq, ← UInt64.toNat_inj]; omega
          have a3 : res.w0 < M.w0 := by
            rw [beq_iff_eq, ← UInt64.toNat_inj] at a2; rw [UInt64.lt_iff_toNat_lt]; omega
          simp only [a2, if_true, a3, decide_true]
      rw [t]
      simp only [if_true]
    · rw [if_neg a]
      have t : (if decide (hiW < M.w1) = true then (Except.ok true : Except String Bool)
          else if (hiW == M.w1) = true then Except.ok (decide (res.w0 < M.w0)) else Except.ok false) = Except.ok false := by
        by_cases a1 : hiW < M.w1
        · rw [UInt64.lt_iff_toNat_lt] at a1; omega
        · simp only [a1, decide_false, Bool.false_eq_true, if_false]
          rw [UInt64.lt_iff_toNat_lt] at a1
          by_cases a2 : (hiW == M.w1) = true
          · have a3 : ¬ res.w0 < M.w0 := by
              rw [beq_iff_eq, ← UInt64.toNat_inj] at a2; rw [UInt64.lt_iff_toNat_lt]; omega
            simp only [a2, if_true, a3, decide_false]
          · simp only [a2, Bool.false_eq_true, if_false]
      rw [t]
      simp only [Bool.false_eq_true, if_false]
      by_cases b : c1 = half
      · rw [if_pos b]
        have t2 : (if (hiW == M.w1) = true then (Except.ok (res.w0 == M.w0) : Except String Bool) else Except.ok false)
            = Except.ok true := by
          have b1 : (hiW == M.w1) = true := by rw [beq_iff_eq, ← UInt64.toNat_inj]; omega
          have b2 : (res.w0 == M.w0) = true := by
            rw [beq_iff_eq, ← UInt64.toNat_inj] at b1 ⊢; omega
          simp only [b1, if_true, b2]
        rw [t2]
        simp only [if_true]
        cases hL : (L0 || MG0) <;> cases hG : (G0 || ML0) <;> simp only [Bool.false_eq_true, if_false, if_true]
      · rw [if_neg b]
        have t2 : (if (hiW == M.w1) = true then (Except.ok (res.w0 == M.w0) : Except String Bool) else Except.ok false)
            = Except.ok false := by
          by_cases b1 : (hiW == M.w1) = true
          · have b2 : (res.w0 == M.w0) = false := by
              rw [beq_iff_eq, ← UInt64.toNat_inj] at b1
              rw [beq_eq_false_iff_ne, ne_eq, ← UInt64.toNat_inj]; omega
            simp only [b1, if_true, b2]
          · simp only [b1, Bool.false_eq_true, if_false]
        rw [t2]
        simp only [Bool.false_eq_true, if_false]


/-- the word-level repair is the number-level one -/
theorem combineW_ofBits (up dn : Bool) (i2 : Ind) (S c2 : Nat) (hS : S ≤ 1) (hc2 : c2 + 1 < 2 ^ 113)
    (hpos : (up && i2.midLtEven) = true → 1 ≤ c2) :
    combineW up dn i2 (ofBits (S * 2 ^ 127 + c2)) =
      (ofBits (S * 2 ^ 127 + (combine up dn i2 c2).1), (combine up dn i2 c2).2) := by
  have hb : S * 2 ^ 127 + c2 + 1 < 2 ^ 128 := by
    have e1 : (2 : Nat) ^ 113 ≤ 2 ^ 127 := by norm_num
    have e2 : (2 : Nat) ^ 128 = 2 ^ 127 + 2 ^ 127 := by norm_num
    have e3 : S * 2 ^ 127 ≤ 1 * 2 ^ 127 := Nat.mul_le_mul_right _ hS
    generalize (2 : Nat) ^ 127 = P at *
    generalize (2 : Nat) ^ 128 = Q at *
    generalize (2 : Nat) ^ 113 = R at *
    generalize S * P = T at *
    omega
  unfold combineW combine
  by_cases h1 : (up && i2.midLtEven) = true
  · have := hpos h1
    rw [if_pos h1, if_pos h1, decW_ofBits _ (by generalize S * 2 ^ 127 = T at *; omega) (by generalize S * 2 ^ 127 = T at *; generalize (2 : Nat) ^ 128 = Q at *; omega)]
    show (ofBits _, _) = (ofBits _, _)
    rw [show S * 2 ^ 127 + c2 - 1 = S * 2 ^ 127 + (c2 - 1) from by generalize S * 2 ^ 127 = T at *; omega]
  · rw [if_neg h1, if_neg h1]
    by_cases h2 : (dn && i2.midGtEven) = true
    · rw [if_pos h2, if_pos h2, incW_ofBits _ hb, Nat.add_assoc]
    · rw [if_neg h2, if_neg h2]
      split
      · rfl
      · split
        · rfl
        · split <;> rfl

/-- the outcome of the second stage: coefficient and indicators after chopping `x2` digits of the `ind1`-digit `c1`
(`up0` / `dn0`: the direction of the first rounding) -/
def stage2 (up0 dn0 : Bool) (c1 ind1 x2 : Nat) : Nat × Ind :=
  if ind1 < x2 then (0, ⟨false, false, true, false⟩)
  else if x2 = ind1 then halfOut up0 dn0 c1 (5 * 10 ^ (ind1 - 1))
  else combine up0 dn0 (specInd (c1 / 10 ^ x2) (c1 % 10 ^ x2) (10 ^ x2 / 2)) (rne c1 x2)

theorem i32_lt (a b : Int32) : decide (a < b) = decide (a.toInt < b.toInt) := by
  rw [decide_eq_decide, Int32.lt_iff_toInt_lt]

theorem i32_gt_nat (a ind : Int32) (x2 ind1 : Nat) (hx0 : a.toInt = x2) (hind : ind.toInt = ind1) :
    decide (a > ind) = decide (ind1 < x2) := by
  rw [Dec.C02GenCorrection.i32_gt, hx0, hind, decide_eq_decide]; omega

theorem i32_beq_nat (a ind : Int32) (x2 ind1 : Nat) (hx0 : a.toInt = x2) (hind : ind.toInt = ind1) :
    (a == ind) = decide (x2 = ind1) := by
  rw [Bool.eq_iff_iff, beq_iff_eq, decide_eq_true_eq, ← Int32.toInt_inj, hx0, hind]; omega

theorem ml_pos (c1 x : Nat) (hx : 1 ≤ x) (h : (specInd (c1 / 10 ^ x) (c1 % 10 ^ x) (10 ^ x / 2)).midLtEven = true) :
    1 ≤ rne c1 x := by
  have hr := rne_eq c1 x hx
  have h' : c1 % 10 ^ x = 10 ^ x / 2 ∧ c1 / 10 ^ x % 2 = 1 := by simpa [specInd] using h
  have : 1 ≤ c1 / 10 ^ x := by
    rcases Nat.eq_zero_or_pos (c1 / 10 ^ x) with h0 | h0
    · rw [h0] at h'; exact absurd h'.2 (by decide)
    · exact h0
  rw [hr]
  split_ifs <;> omega

theorem aarUF_noop (m : RoundingMode) (p_sign : UInt64) (e4 ind : Int32) (he : -6176 ≤ e4.toInt) (res : U128)
    (incr ML MG L G tiny : Bool) (f : UInt32) :
    aarUF m p_sign e4 ind res incr ML MG L G tiny f = aarTail m e4 res ML MG L G tiny f := by
  unfold aarUF
  have hd : decide (e4 < c_EXP_MIN_UNBIASED) = false := by
    rw [i32_lt, decide_eq_false_iff_not, show c_EXP_MIN_UNBIASED.toInt = -6176 from by decide]; omega
  simp only [hd, Bool.false_eq_true, if_false]


theorem aarUF_eval (m : RoundingMode) (p_sign : UInt64) (S : Nat) (hS : S ≤ 1) (hps : p_sign.toNat = S * 2 ^ 63)
    (e4 ind : Int32) (e1 : Int) (ind1 : Nat) (he4 : e4.toInt = e1) (hind : ind.toInt = ind1)
    (he : e1 < -6176) (helo : -1000000000 ≤ e1) (h1 : 1 ≤ ind1) (h34 : ind1 ≤ 34)
    (res : U128) (c1 : Nat) (hc : sigW res.w1.toNat res.w0.toNat = c1) (hc1 : c1 < 10 ^ ind1)
    (incr ML0 MG0 L0 G0 tiny : Bool) (f : UInt32) :
    aarUF m p_sign e4 ind res incr ML0 MG0 L0 G0 tiny f =
      aarTail m (-6176) (ofBits (S * 2 ^ 127 + (stage2 (G0 || ML0) (L0 || MG0) c1 ind1 (-6176 - e1).toNat).1))
        (stage2 (G0 || ML0) (L0 || MG0) c1 ind1 (-6176 - e1).toNat).2.midLtEven
        (stage2 (G0 || ML0) (L0 || MG0) c1 ind1 (-6176 - e1).toNat).2.midGtEven
        (stage2 (G0 || ML0) (L0 || MG0) c1 ind1 (-6176 - e1).toNat).2.inexLtMid
        (stage2 (G0 || ML0) (L0 || MG0) c1 ind1 (-6176 - e1).toNat).2.inexGtMid tiny f := by
  obtain ⟨x2, hx2⟩ : ∃ x2 : Nat, (x2 : Int) = -6176 - e1 := ⟨(-6176 - e1).toNat, by omega⟩
  have hx2' : (-6176 - e1).toNat = x2 := by omega
  rw [hx2']
  have hmin : c_EXP_MIN_UNBIASED.toInt = -6176 := by decide
  have hx0 : (c_EXP_MIN_UNBIASED - e4).toInt = x2 := by
    rw [Int32.toInt_sub, hmin, he4, bmod32 _ (by omega) (by omega)]; omega
  unfold aarUF stage2
  have hd : decide (e4 < c_EXP_MIN_UNBIASED) = true := by
    rw [i32_lt, decide_eq_true_eq, hmin, he4]; exact he
  simp only [hd, if_true]
  have hgt := i32_gt_nat _ ind x2 ind1 hx0 hind
  have heq := i32_beq_nat _ ind x2 ind1 hx0 hind
  rw [hgt, heq]
  clear hgt heq hd
  by_cases a : ind1 < x2
  · simp only [a, decide_true, if_true]
    have : (⟨0, p_sign ||| 0⟩ : U128) = ofBits (S * 2 ^ 127 + 0) := by
      rw [UInt64.or_zero, ← pack_small p_sign S hS hps 0 0 rfl, UInt64.zero_or]
    rw [this]; rfl
  · simp only [a, decide_false, Bool.false_eq_true, if_false]
    by_cases b : x2 = ind1
    · simp only [b, decide_true, if_true]
      exact aarUFeq_eval m p_sign S hS hps ind ind1 hind h1 h34 res c1 hc hc1 ML0 MG0 L0 G0 tiny f
    · simp only [b, decide_false, Bool.false_eq_true, if_false]
      have hx1 : 1 ≤ x2 := by clear * - hx2 he; omega
      rw [aarUFround_eval m p_sign S hS hps e4 ind (c_EXP_MIN_UNBIASED - e4) e1 ind1 x2 he4 hind hx0 (by clear * - hx2; omega) h34 hx1
        (by clear * - a b; omega) res c1 hc hc1, aarRepair_eval]
      have hrl := rne_lt c1 x2 ind1 hx1 hc1 h34
      have hc2 : rne c1 x2 + 1 < 2 ^ 113 := lt_of_le_of_lt (Nat.succ_le_of_lt hrl) (by norm_num)
      rw [combineW_ofBits _ _ _ S _ hS hc2 (fun hh => ml_pos c1 x2 hx1 (by revert hh; cases (G0 || ML0) <;> simp))]


/-! ## 4. The tail on numbers: delivered nearest-even coefficient + table step = `finish` -/

open Dec.C02GenCorrection (deliver stepC corrOf modeOf upD downD corrI)

/-- an exact multiple is its own rounding, in every mode -/
theorem RoundedInt_exact (mode : Mode) (s : Bool) (M D : Nat) (hD : 0 < D) : RoundedInt mode s (M * D) D M := by
  have e3 : 2 * M * D = 2 * (M * D) := Nat.mul_assoc _ _ _
  cases mode <;> cases s <;> simp only [RoundedInt, if_true, if_false, Bool.false_eq_true, e3] <;> omega

theorem RoundedInt_of_exact (mode : Mode) (s : Bool) (N M M' D : Nat) (hD : 0 < D) (hN : N = M' * D)
    (h : RoundedInt mode s N D M) : M = M' := by
  subst hN
  exact RoundedInt_unique mode s _ D M M' hD h (RoundedInt_exact mode s M' D hD)

/-- scaling numerator and denominator does not change the rounding -/
theorem RoundedInt_scale (mode : Mode) (s : Bool) (V D c M : Nat) (hc : 0 < c) :
    RoundedInt mode s (V * c) (D * c) M ↔ RoundedInt mode s V D M := by
  have a1 : M * (D * c) = (M * D) * c := (Nat.mul_assoc _ _ _).symm
  have a2 : 2 * M * (D * c) = (2 * M * D) * c := (Nat.mul_assoc _ _ _).symm
  have a3 : ∀ a b : Nat, a * c ≤ b * c ↔ a ≤ b := fun a b => Nat.mul_le_mul_right_iff hc
  have a4 : ∀ a b : Nat, a * c < b * c ↔ a < b := fun a b => Nat.mul_lt_mul_right hc
  have a5 : ∀ a b : Nat, a * c = b * c ↔ a = b := fun a b => Nat.mul_left_inj (by omega)
  have b1 : ∀ a b : Nat, a * c + b * c = (a + b) * c := fun a b => (Nat.add_mul _ _ _).symm
  have b2 : ∀ a : Nat, 2 * (a * c) = (2 * a) * c := fun a => (Nat.mul_assoc _ _ _).symm
  cases mode <;> cases s <;>
    simp only [RoundedInt, if_true, if_false, Bool.false_eq_true, a1, a2, b1, b2, a3, a4, a5]


/-- **the unit step on the delivered form is the delivered form of the stepped coefficient.** -/
theorem stepC_deliver (up down : Bool) (cf : Nat) (ef : Int) (hcf : cf ≤ P34) (hup : up = true → cf < P34)
    (hpos : up = false → down = true → 0 < cf)
    (hlow : up = false → down = true → cf = P33 → ef = -6176) (hef : -6176 ≤ ef) :
    (stepC up down (deliver cf ef).1 (deliver cf ef).2).1 = (deliver (cf + corrOf up down).toNat ef).1 ∧
    (stepC up down (deliver cf ef).1 (deliver cf ef).2).2.1 = (deliver (cf + corrOf up down).toNat ef).2 := by
  have e34 : P34 = 10000000000000000000000000000000000 := rfl
  have e33 : P33 = 1000000000000000000000000000000000 := rfl
  unfold deliver stepC corrOf
  by_cases h34 : cf = P34
  · simp only [h34, if_true]
    cases up
    · cases down
      · simp
      · simp only [Bool.false_eq_true, if_false, if_true]
        rw [if_pos (by omega), show ((P34 : Int) + -1).toNat = P34 - 1 by omega, if_neg (by omega)]
        simp
    · exact absurd (hup rfl) (by omega)
  · simp only [h34, if_false]
    cases up
    · cases down
      · simp [h34]
      · have hp := hpos rfl rfl
        simp only [Bool.false_eq_true, if_false, if_true]
        rw [show ((cf : Int) + -1).toNat = cf - 1 by omega, if_neg (show ¬ cf - 1 = P34 by omega)]
        by_cases h33 : cf = P33
        · have := hlow rfl rfl h33
          rw [if_pos h33, if_neg (by omega)]
          simp [h33]
        · rw [if_neg h33]; exact ⟨rfl, rfl⟩
    · have hlt := hup rfl
      simp only [if_true]
      rw [show ((cf : Int) + 1).toNat = cf + 1 by omega]
      by_cases hw : cf + 1 = P34
      · rw [if_pos hw, if_pos hw]; exact ⟨rfl, rfl⟩
      · rw [if_neg hw, if_neg hw]; exact ⟨rfl, rfl⟩


/-- an exact tiny value is delivered at the least exponent without a flag -/
theorem finish_tiny_exact (mode : Mode) (s : Bool) (N k : Nat) (hN : 0 < N) (hdiv : N % 10 ^ k = 0)
    (hlt : N < 10 ^ (k + 33)) (pref : Int) (hp : pref ≤ eMin) :
    finish mode s N 1 (eMin - k) pref = (.fin s (N / 10 ^ k) eMin, 0) := by
  have hD : 0 < 10 ^ k := Nat.pow_pos (by decide)
  obtain ⟨M, hM⟩ : ∃ M, N = M * 10 ^ k := ⟨N / 10 ^ k, by have := Nat.div_add_mod N (10 ^ k); rw [hdiv] at this; rw [Nat.mul_comm]; omega⟩
  have hMd : N / 10 ^ k = M := by rw [hM]; exact Nat.mul_div_cancel _ hD
  have hM33 : M < 10 ^ 33 := by
    rw [hM, Nat.pow_add, Nat.mul_comm (10 ^ k)] at hlt
    exact Nat.lt_of_mul_lt_mul_right hlt
  rw [hMd, finish_eq_iff mode s N 1 (eMin - k) pref hN (by norm_num)]
  left
  have hval : fval false M eMin = (N : ℚ) / ((1 : Nat) : ℚ) * (10 : ℚ) ^ (eMin - (k : Int)) := by
    rw [fval_false, hM, zpow_sub₀ ten_ne, zpow_natCast]
    have : ((10 : ℚ) ^ k) ≠ 0 := by positivity
    push_cast
    field_simp
  have hrep : Representable M eMin := by
    refine ⟨?_, le_refl _, by decide⟩
    rw [Dec.C13PackHelpers.P34_eq']; omega
  refine ⟨⟨M, eMin, hrep, hval⟩, M, eMin, rfl, hval, hrep, fun m' x' hr' _ => ?_⟩
  have := hr'.2.1
  rw [abs_of_nonneg (by omega), abs_of_nonneg (by omega)]
  omega


open Dec.C13PackHelpers (finish_in_range finish_ovf finish_tiny_inexact norm34 P34_eq' P33_eq' roundInt_divmod_spec) in
open Dec.C04ScanNum (finish_congr_val finish_frac_normal finish_frac_carry finish_frac_ovf finish_pref_34 norm34_lt34) in
/-- a rounding never exceeds the value by a whole unit -/
theorem RoundedInt_lt (mode : Mode) (s : Bool) (N D M : Nat) (hD : 0 < D) (h : RoundedInt mode s N D M) : M * D < N + D := by
  have e3 : 2 * M * D = 2 * (M * D) := Nat.mul_assoc _ _ _
  cases mode <;> cases s <;> simp only [RoundedInt, if_true, if_false, Bool.false_eq_true, e3] at h <;> omega

open Dec.C13PackHelpers (finish_in_range finish_ovf finish_tiny_inexact norm34 P34_eq' P33_eq' roundInt_divmod_spec) in
open Dec.C04ScanNum (finish_congr_val finish_frac_normal finish_frac_carry finish_frac_ovf finish_pref_34 norm34_lt34) in
/-- **the delivery of an integer multiple of `10^E`, from its rounding at the right place.**  Let `M` be `N/10^k` rounded in the
mode, where `k` is the right number of digits to drop: none (`N` fits and `E` is in range), or down to the least exponent
(`E + k = emin`, the value is tiny), or `N` has exactly `k + 34` digits.  Then `finish` delivers `M` at `E + k` (a carried
`10^34` as `10^33` one exponent higher; the overflow outcome above `emax`), exact iff `N = M·10^k`, with underflow iff inexact
and tiny. -/
theorem finish_rounded (mode : Mode) (s : Bool) (N : Nat) (hN : 0 < N) (E : Int) (k M : Nat)
    (hR : RoundedInt mode s N (10 ^ k) M)
    (hleast : (k = 0 ∧ N < 10 ^ 34 ∧ eMin ≤ E ∧ E ≤ eMax) ∨ (1 ≤ k ∧ E + k = eMin ∧ N < 10 ^ (k + 33)) ∨
      (10 ^ (k + 33) ≤ N ∧ N < 10 ^ (k + 34) ∧ eMin ≤ E + k)) :
    finish mode s N 1 E E =
      if eMax < (deliver M (E + k)).2 then (overflowResult mode s, fOverflow ||| fInexact)
      else (.fin s (deliver M (E + k)).1 (deliver M (E + k)).2,
            if N = M * 10 ^ k then 0 else if N < 10 ^ (k + 33) then fUnderflow ||| fInexact else fInexact) := by
  have hD : 0 < 10 ^ k := Nat.pow_pos (by decide)
  have e34 : P34 = 10 ^ 34 := P34_eq'
  have e33 : P33 = 10 ^ 33 := P33_eq'
  have hMin : eMin = -6176 := rfl
  have hMax : eMax = 6111 := rfl
  rcases hleast with ⟨hk, h34, hE0, hE1⟩ | ⟨hk, hEk, h33⟩ | ⟨hlo, hhi, hEk⟩
  · -- nothing to drop
    subst hk
    have hM : M = N := RoundedInt_of_exact mode s N M N (10 ^ 0) hD (by simp) hR
    subst hM
    have hdel : deliver M (E + (0 : Nat)) = (M, E) := by
      unfold deliver; rw [if_neg (by omega)]; simp
    rw [hdel]
    simp only []
    rw [if_neg (by omega), if_pos (by simp)]
    have := finish_in_range mode s M (E + 6176) hN (by omega) (by rw [norm34_lt34 M _ h34]; simp only []; omega)
      (by rw [norm34_lt34 M _ h34]; simp only []; omega)
    rw [norm34_lt34 M _ h34] at this
    simpa using this
  · -- down to the least exponent
    have hE : E = eMin - (k : Int) := by omega
    have hlt := RoundedInt_lt mode s N (10 ^ k) M hD hR
    have hM33 : M ≤ 10 ^ 33 := by
      by_contra hc
      have : (10 ^ 33 + 1) * 10 ^ k ≤ M * 10 ^ k := Nat.mul_le_mul_right _ (by omega)
      rw [Nat.add_mul, Nat.one_mul, ← Nat.pow_add, Nat.add_comm 33 k] at this
      omega
    have hdel : deliver M (E + k) = (M, eMin) := by
      unfold deliver; rw [if_neg (by omega), hEk]
    rw [hdel]
    simp only []
    rw [if_neg (by decide)]
    by_cases hdiv : N % 10 ^ k = 0
    · have hM : M = N / 10 ^ k := by
        refine RoundedInt_of_exact mode s N M (N / 10 ^ k) (10 ^ k) hD ?_ hR
        have := Nat.div_add_mod N (10 ^ k); rw [hdiv] at this; rw [Nat.mul_comm]; omega
      have hNM : N = M * 10 ^ k := by
        have := Nat.div_add_mod N (10 ^ k); rw [hdiv, ← hM] at this; rw [Nat.mul_comm]; omega
      rw [if_pos hNM, hE, finish_tiny_exact mode s N k hN hdiv h33 _ (by omega), ← hM]
    · have hNM : ¬ N = M * 10 ^ k := fun h => hdiv (by rw [h]; exact Nat.mul_mod_left _ _)
      rw [if_neg hNM, if_pos h33, hE]
      exact finish_tiny_inexact mode s N 1 k _ hN (by norm_num) (by rwa [Nat.one_mul]) (by rwa [Nat.one_mul]) M (by omega)
        (by rwa [Nat.one_mul])
  · -- exactly `k + 34` digits
    obtain ⟨C, hC⟩ : ∃ C, C = N / 10 ^ k := ⟨_, rfl⟩
    obtain ⟨T, hT⟩ : ∃ T, T = N % 10 ^ k := ⟨_, rfl⟩
    have hdm : N = C * 10 ^ k + T := by
      have := Nat.div_add_mod N (10 ^ k); rw [← hC, ← hT, Nat.mul_comm] at this; omega
    have hTlt : T < 10 ^ k := by rw [hT]; exact Nat.mod_lt _ hD
    have hC33 : 10 ^ 33 ≤ C := by
      rw [hC, Nat.le_div_iff_mul_le hD, ← Nat.pow_add, Nat.add_comm]; exact hlo
    have hC34 : C < 10 ^ 34 := by
      rw [hC, Nat.div_lt_iff_lt_mul hD, ← Nat.pow_add, Nat.add_comm]; exact hhi
    have hM : M = roundInt mode s C T (10 ^ k) := by
      rw [hC, hT]
      exact RoundedInt_unique mode s N (10 ^ k) _ _ hD hR (roundInt_divmod_spec mode s N (10 ^ k) hD)
    have hnot33 : ¬ N < 10 ^ (k + 33) := by omega
    have hpowq : ((10 : ℚ) ^ (E + (k : Int))) = (10 : ℚ) ^ E * (10 : ℚ) ^ k := by
      rw [zpow_add₀ ten_ne, zpow_natCast]
    by_cases hT0 : T = 0
    · -- exact
      have hMC : M = C := by rw [hM, hT0]; simp [roundInt, roundUp]
      have hNM : N = M * 10 ^ k := by rw [hMC, hdm, hT0]; simp
      have hdel : deliver M (E + k) = (C, E + k) := by
        unfold deliver; rw [if_neg (by omega), hMC]
      rw [hdel]
      simp only []
      rw [if_pos hNM]
      have hC0 : 0 < C := by omega
      have hcv : finish mode s N 1 E E = finish mode s C 1 (E + k) E := by
        apply finish_congr_val mode s N 1 C 1 E (E + k) E hN (by norm_num) hC0 (by norm_num)
        rw [hpowq, hNM, hMC]; push_cast; ring
      rw [hcv, finish_pref_34 mode s C (E + k) E hC33 (by omega)]
      by_cases hov : eMax < E + k
      · rw [if_pos hov]
        have h1 : norm34 C (E + k + 6176) = (C, E + k + 6176) := norm34_lt34 C _ hC34
        have := finish_ovf mode s C (E + k + 6176) hC0 (by rw [h1]; simp only []; omega) (by
          rw [h1]; simp only []
          have : 1 ≤ (E + ↑k + 6176 - 12287).toNat := by omega
          have : 10 ^ 1 ≤ 10 ^ (E + ↑k + 6176 - 12287).toNat := Nat.pow_le_pow_right (by decide) this
          have : C * 10 ^ 1 ≤ C * 10 ^ (E + ↑k + 6176 - 12287).toNat := Nat.mul_le_mul_left _ this
          omega)
        simpa using this
      · rw [if_neg hov]
        have h1 : norm34 C (E + k + 6176) = (C, E + k + 6176) := norm34_lt34 C _ hC34
        have := finish_in_range mode s C (E + k + 6176) hC0 (by omega) (by rw [h1]; simp only []; omega)
          (by rw [h1]; simp only []; omega)
        rw [h1] at this
        simpa using this
    · -- inexact
      have hTpos : 0 < T := Nat.pos_of_ne_zero hT0
      have hNM : ¬ N = M * 10 ^ k := by
        intro h
        have : N % 10 ^ k = 0 := by rw [h]; exact Nat.mul_mod_left _ _
        omega
      rw [if_neg hNM, if_neg hnot33]
      have hcv : finish mode s N 1 E E = finish mode s (C * 10 ^ k + T) (10 ^ k) (E + k) E := by
        apply finish_congr_val mode s N 1 _ (10 ^ k) E (E + k) E hN (by norm_num) (by omega) hD
        have : ((10 : ℚ) ^ k) ≠ 0 := by positivity
        rw [hpowq, ← hdm]; push_cast; field_simp
      have hMle : M ≤ 10 ^ 34 := by
        rw [hM]; have := Dec.roundInt_le mode s C T (10 ^ k); omega
      rw [hcv]
      by_cases hcar : M = 10 ^ 34
      · have hdel : deliver M (E + k) = (P33, E + k + 1) := by
          unfold deliver; rw [if_pos (by omega)]
        rw [hdel]
        simp only []
        by_cases hov : eMax < E + k + 1
        · rw [if_pos hov]
          exact finish_frac_ovf mode s C (10 ^ k) T (E + k) E hC33 hTpos hTlt
            (by rcases lt_or_eq_of_le (show eMax ≤ E + k by omega) with h | h
                · exact Or.inl h
                · exact Or.inr ⟨h.symm, by rw [← hM]; exact hcar⟩)
        · rw [if_neg hov, e33]
          exact finish_frac_carry mode s C (10 ^ k) T (E + k) E hC33 hTpos hTlt hEk (by omega) (by rw [← hM]; exact hcar)
      · have hdel : deliver M (E + k) = (M, E + k) := by
          unfold deliver; rw [if_neg (by omega)]
        rw [hdel]
        simp only []
        by_cases hov : eMax < E + k
        · rw [if_pos hov]
          exact finish_frac_ovf mode s C (10 ^ k) T (E + k) E hC33 hTpos hTlt (Or.inl hov)
        · rw [if_neg hov, hM]
          exact finish_frac_normal mode s C (10 ^ k) T (E + k) E hC33 hTpos hTlt hEk (by omega) (by rw [← hM]; omega)


/-- **what is known before the tail**: the exact magnitude is `N·10^E`; `cf` is `N/10^k` rounded to nearest-even, `k` the right
number of digits to drop (as in `finish_rounded`); the indicators say where `N/10^k` lies relative to `cf` (`inexact_gt_midpoint`
and `midpoint_lt_even` only through their disjunction: "below `cf`") -/
structure PreTail (s : Bool) (N : Nat) (E : Int) (k cf : Nat) (i : Ind) : Prop where
  rne : RoundedInt .rne s N (10 ^ k) cf
  hL : i.inexLtMid = decide (cf * 10 ^ k < N ∧ 2 * N < 2 * (cf * 10 ^ k) + 10 ^ k)
  hMG : i.midGtEven = decide (2 * N = 2 * (cf * 10 ^ k) + 10 ^ k)
  hdn : (i.inexGtMid || i.midLtEven) = decide (N < cf * 10 ^ k)
  least : (k = 0 ∧ N < 10 ^ 34 ∧ eMin ≤ E ∧ E ≤ eMax) ∨ (1 ≤ k ∧ E + k = eMin ∧ N < 10 ^ (k + 33)) ∨
      (10 ^ (k + 33) ≤ N ∧ N < 10 ^ (k + 34) ∧ eMin ≤ E + k)

theorem downD_or (m : RoundingMode) (s G ML : Bool) : downD m s G ML = downD m s (G || ML) false := by
  cases m <;> cases s <;> cases G <;> cases ML <;> rfl

/-- some indicator is set -/
def anyI (i : Ind) : Bool := i.inexLtMid || i.inexGtMid || i.midLtEven || i.midGtEven

/-- **the tail, on numbers**: stepping the delivered nearest-even coefficient by the table gives what `finish` delivers in the
mode asked for; the side conditions of `correction_eval` hold. -/
theorem tail_math (m : RoundingMode) (s : Bool) (N : Nat) (hN : 0 < N) (E : Int) (k cf : Nat) (i : Ind)
    (h : PreTail s N E k cf i) (up dn : Bool) (hup : up = upD m s i.inexLtMid i.midGtEven)
    (hdn : dn = downD m s i.inexGtMid i.midLtEven) :
    finish (modeOf m) s N 1 E E =
      (if eMax < (stepC up dn (deliver cf (E + k)).1 (deliver cf (E + k)).2).2.1 then
          (overflowResult (modeOf m) s, fOverflow ||| fInexact)
       else (.fin s (stepC up dn (deliver cf (E + k)).1 (deliver cf (E + k)).2).1
              (stepC up dn (deliver cf (E + k)).1 (deliver cf (E + k)).2).2.1,
            if anyI i = false then 0 else if N < 10 ^ (k + 33) then fUnderflow ||| fInexact else fInexact)) ∧
    (deliver cf (E + k)).1 < P34 ∧ -6176 ≤ (deliver cf (E + k)).2 ∧ (deliver cf (E + k)).2 ≤ E + k + 1 ∧
    (up = false → dn = true → 0 < (deliver cf (E + k)).1) ∧
    ((stepC up dn (deliver cf (E + k)).1 (deliver cf (E + k)).2).2.2 = true → N < 10 ^ (k + 33) ∧ anyI i = true) ∧
    (eMax < (stepC up dn (deliver cf (E + k)).1 (deliver cf (E + k)).2).2.1 → ¬ N < 10 ^ (k + 33)) := by
  obtain ⟨hrne, hL, hMG, hdnI, hleast⟩ := h
  have hD : 0 < 10 ^ k := Nat.pow_pos (by decide)
  have e34 : P34 = 10 ^ 34 := Dec.C13PackHelpers.P34_eq'
  have e33 : P33 = 10 ^ 33 := Dec.C13PackHelpers.P33_eq'
  have hMin : eMin = -6176 := rfl
  have hp34 : (10 : Nat) ^ (k + 34) = 10 ^ 34 * 10 ^ k := by rw [Nat.pow_add, Nat.mul_comm]
  have hp33 : (10 : Nat) ^ (k + 33) = 10 ^ 33 * 10 ^ k := by rw [Nat.pow_add, Nat.mul_comm]
  -- the true position indicators
  obtain ⟨G', hG'⟩ : ∃ G' : Bool, G' = decide (N < cf * 10 ^ k ∧ 2 * (cf * 10 ^ k) < 2 * N + 10 ^ k) := ⟨_, rfl⟩
  obtain ⟨ML', hML'⟩ : ∃ ML' : Bool, ML' = decide (2 * N + 10 ^ k = 2 * (cf * 10 ^ k)) := ⟨_, rfl⟩
  have htab := Dec.C02GenCorrection.table_correct m s N (10 ^ k) cf i.inexLtMid G' ML' i.midGtEven hD hrne hL hG' hML' hMG
  have e3 : 2 * cf * 10 ^ k = 2 * (cf * 10 ^ k) := Nat.mul_assoc _ _ _
  have hcl := hrne.1
  rw [e3] at hcl
  have hor : (G' || ML') = (i.inexGtMid || i.midLtEven) := by
    rw [hdnI, hG', hML', Bool.eq_iff_iff]
    simp only [Bool.or_eq_true, decide_eq_true_eq]
    omega
  have hcorr : corrI m s i.inexLtMid G' ML' i.midGtEven = corrOf up dn := by
    rw [Dec.C02GenCorrection.corrI_eq, hup, hdn, downD_or m s G' ML', downD_or m s i.inexGtMid i.midLtEven, hor]
  rw [hcorr] at htab
  -- what the table's decisions say about the value
  have upV : up = true → cf * 10 ^ k < N := by
    intro hu
    rw [hup, hL, hMG] at hu
    revert hu
    cases m <;> cases s <;> simp only [upD, Bool.not_true, Bool.not_false, Bool.false_and, Bool.true_and, Bool.or_eq_true,
      decide_eq_true_eq, Bool.false_eq_true, false_implies, implies_true] <;> omega
  have dnV : dn = true → N < cf * 10 ^ k := by
    intro hd
    rw [hdn, downD_or, hdnI] at hd
    revert hd
    cases m <;> cases s <;> simp only [downD, Bool.not_true, Bool.not_false, Bool.false_and, Bool.true_and, Bool.or_false, Bool.false_or,
      decide_eq_true_eq, Bool.false_eq_true, false_implies, implies_true] <;> omega
  have hlt := RoundedInt_lt .rne s N (10 ^ k) cf hD hrne
  have hcf : cf ≤ P34 := by
    rw [e34]
    by_contra hc
    have : (10 ^ 34 + 1) * 10 ^ k ≤ cf * 10 ^ k := Nat.mul_le_mul_right _ (by omega)
    rw [Nat.add_mul, Nat.one_mul, ← hp34] at this
    have hp : (10 : Nat) ^ (k + 33) ≤ 10 ^ (k + 34) := Nat.pow_le_pow_right (by decide) (by omega)
    rcases hleast with ⟨hk, h34, _, _⟩ | ⟨_, _, h33⟩ | ⟨_, hhi, _⟩
    · subst hk; simp only [Nat.pow_zero, Nat.mul_one, Nat.zero_add] at *; omega
    · omega
    · omega
  have hupc : up = true → cf < P34 := by
    intro hu
    have := upV hu
    rw [e34]
    by_contra hc
    have : 10 ^ 34 * 10 ^ k ≤ cf * 10 ^ k := Nat.mul_le_mul_right _ (by omega)
    rw [← hp34] at this
    have hp : (10 : Nat) ^ (k + 33) ≤ 10 ^ (k + 34) := Nat.pow_le_pow_right (by decide) (by omega)
    rcases hleast with ⟨hk, h34, _, _⟩ | ⟨_, _, h33⟩ | ⟨_, hhi, _⟩
    · subst hk; simp only [Nat.pow_zero, Nat.mul_one, Nat.zero_add] at *; omega
    · omega
    · omega
  have hpos : up = false → dn = true → 0 < cf := by
    intro _ hd
    have := dnV hd
    exact Nat.pos_of_ne_zero (fun h0 => by rw [h0, Nat.zero_mul] at this; omega)
  have hEk : -6176 ≤ E + k := by
    rcases hleast with ⟨hk, _, h0, _⟩ | ⟨_, h0, _⟩ | ⟨_, _, h0⟩ <;> omega
  have hlow : up = false → dn = true → cf = P33 → E + k = -6176 := by
    intro _ hd h33
    have := dnV hd
    rw [h33, e33, ← hp33] at this
    rcases hleast with ⟨hk, h34, _, _⟩ | ⟨_, h0, _⟩ | ⟨hlo, _, _⟩
    · subst hk
      have := RoundedInt_of_exact .rne s N cf N (10 ^ 0) hD (by simp) hrne
      rw [this, h33, e33] at *
      simp only [Nat.pow_zero, Nat.mul_one, Nat.zero_add] at *; omega
    · omega
    · omega
  obtain ⟨d1, d2⟩ := stepC_deliver up dn cf (E + k) hcf hupc hpos hlow hEk
  obtain ⟨_, _, _, _, v5⟩ := Dec.C02GenCorrection.step_value up dn cf (E + k) hcf hupc hpos hlow hEk
  have hfin := finish_rounded (modeOf m) s N hN E k _ htab hleast
  rw [d1, d2]
  -- exactness
  have hex : (anyI i = false) ↔ N = (cf + corrOf up dn).toNat * 10 ^ k := by
    constructor
    · intro ha
      have a1 : i.inexLtMid = false := by revert ha; unfold anyI; cases i.inexLtMid <;> simp
      have a2 : i.midGtEven = false := by revert ha; unfold anyI; cases i.midGtEven <;> simp
      have a3 : (i.inexGtMid || i.midLtEven) = false := by
        revert ha; unfold anyI; cases i.inexGtMid <;> cases i.midLtEven <;> simp
      have hu : up = false := by rw [hup, a1, a2]; cases m <;> cases s <;> rfl
      have hd : dn = false := by rw [hdn, downD_or, a3]; cases m <;> cases s <;> rfl
      rw [hu, hd]
      rw [a1] at hL; rw [a2] at hMG; rw [a3] at hdnI
      have b1 := of_decide_eq_false hL.symm
      have b2 := of_decide_eq_false hMG.symm
      have b3 := of_decide_eq_false hdnI.symm
      simp only [corrOf, Bool.false_eq_true, if_false, Int.add_zero, Int.toNat_natCast]
      omega
    · intro hNM
      have hcfM := RoundedInt_of_exact .rne s N cf _ (10 ^ k) hD hNM hrne
      have hNc : N = cf * 10 ^ k := by rw [hcfM]; exact hNM
      have a1 : i.inexLtMid = false := by rw [hL]; exact decide_eq_false (by omega)
      have a2 : i.midGtEven = false := by rw [hMG]; exact decide_eq_false (by omega)
      have a3 : (i.inexGtMid || i.midLtEven) = false := by rw [hdnI]; exact decide_eq_false (by omega)
      unfold anyI
      revert a3
      rw [a1, a2]
      cases i.inexGtMid <;> cases i.midLtEven <;> simp
  refine ⟨?_, ?_, ?_, ?_, ?_, ?_, ?_⟩
  · rw [hfin]
    by_cases ha : anyI i = false
    · rw [if_pos ha, if_pos (hex.1 ha)]
    · rw [if_neg ha, if_neg (fun h => ha (hex.2 h))]
  · unfold deliver; split <;> simp only [] <;> omega
  · unfold deliver; split <;> simp only [] <;> omega
  · unfold deliver; split <;> simp only [] <;> omega
  · intro a b
    have := hpos a b
    unfold deliver; split <;> simp only [] <;> omega
  · intro hu
    obtain ⟨a, b, c⟩ := v5.1 hu
    have hlt2 := dnV b
    rw [c, e33, ← hp33] at hlt2
    refine ⟨hlt2, ?_⟩
    have : (i.inexGtMid || i.midLtEven) = true := by rw [hdnI]; exact decide_eq_true (dnV b)
    unfold anyI
    revert this
    cases i.inexGtMid <;> cases i.midLtEven <;> simp
  · intro hov h33
    have hMax : eMax = 6111 := rfl
    rcases hleast with ⟨hk, h34, _, hE1⟩ | ⟨_, hEk', _⟩ | ⟨hlo, _, _⟩
    · subst hk
      have hM := RoundedInt_of_exact (modeOf m) s N _ N (10 ^ 0) hD (by simp) htab
      rw [hM] at hov
      unfold deliver at hov
      rw [if_neg (by omega)] at hov
      simp only [] at hov
      omega
    · have : (deliver (cf + corrOf up dn).toNat (E + k)).2 ≤ E + k + 1 := by
        unfold deliver; split <;> simp only [] <;> omega
      omega
    · omega


/-! ## 5. The tail of the routine delivers `finish` -/

open Dec.C02GenCorrection (outF outW ovfDatum)

/-- sign, biased exponent and coefficient of a packed word -/
theorem word_fields (S X c : Nat) (hS : S ≤ 1) (hX : X < 2 ^ 14) (hc : c < 2 ^ 113) :
    negW (ofBits (S * 2 ^ 127 + X * 2 ^ 113 + c)).w1.toNat = decide (S = 1) ∧
    sigW (ofBits (S * 2 ^ 127 + X * 2 ^ 113 + c)).w1.toNat (ofBits (S * 2 ^ 127 + X * 2 ^ 113 + c)).w0.toNat = c := by
  obtain ⟨e0, e1⟩ := ofBits_words (S * 2 ^ 127 + X * 2 ^ 113 + c) (by omega)
  rw [e0, e1]
  unfold negW sigW
  refine ⟨?_, by omega⟩
  rw [decide_eq_decide]
  omega

theorem encode_fin (s : Bool) (c : Nat) (e : Int) :
    encode (.fin s c e) = (if s = true then 1 else 0) * 2 ^ 127 + (e + 6176).toNat * 2 ^ 113 + c := by
  unfold encode signBit
  cases s <;> simp


/-- the flags `finish` raises: overflow + inexact; none when exact; inexact, with underflow when tiny -/
def specF (any T ov : Bool) : Nat :=
  if ov = true then 0x28 else if any = false then 0 else if T = true then 0x30 else 0x20

theorem or_const (f a b c : UInt32) (h : a ||| b = c) : (f ||| a) ||| b = f ||| c := by
  rw [UInt32.or_assoc, h]

theorem flags_dir (f : UInt32) (any uf ov tiny T : Bool) (h1 : uf = true → T = true ∧ any = true)
    (h2 : any = true → tiny = T) (h3 : ov = true → T = false) :
    tailFlags (outF any uf ov f) any tiny = f ||| UInt32.ofNat (specF any T ov) := by
  cases any <;> cases uf <;> cases ov <;> cases T <;> cases tiny <;>
    first
    | (exact absurd (h1 rfl).1 (by decide))
    | (exact absurd (h1 rfl).2 (by decide))
    | (exact absurd (h2 rfl) (by decide))
    | (exact absurd (h3 rfl) (by decide))
    | (simp only [tailFlags, outF, specF, if_true, if_false, Bool.false_eq_true, UInt32.or_assoc]; first | rfl | (exact (UInt32.or_zero (a := f)).symm) | (congr 1; done))


theorem anyI_eq (i : Ind) : (((i.midLtEven || i.midGtEven) || i.inexLtMid) || i.inexGtMid) = anyI i := by
  unfold anyI; cases i.midLtEven <;> cases i.midGtEven <;> cases i.inexLtMid <;> cases i.inexGtMid <;> rfl

theorem stepC_none (c : Nat) (e : Int) : stepC false false c e = (c, e, false) := rfl

/-- **the tail of the routine delivers `finish`**: from the state described by `PreTail` (coefficient and exponent in `res` and
`e4` in delivered form, indicators, `is_tiny` right whenever the result is inexact) the tail — the correction for the directed
modes and ties-away, the flags — returns the canonical encoding of `finish (mode) sign N 1 E E` and its flags. -/
theorem aarTail_spec (m : RoundingMode) (s : Bool) (N : Nat) (hN : 0 < N) (E : Int) (k cf : Nat) (i : Ind)
    (h : PreTail s N E k cf i) (e : Int32) (he : e.toInt = (deliver cf (E + k)).2) (hE : E + k ≤ 10000)
    (hrn : m = .NearestEven → (deliver cf (E + k)).2 ≤ 6111)
    (tiny : Bool) (htiny : anyI i = true → tiny = decide (N < 10 ^ (k + 33))) (f : UInt32) :
    aarTail m e (ofBits ((if s = true then 1 else 0) * 2 ^ 127 + ((deliver cf (E + k)).2 + 6176).toNat * 2 ^ 113 +
          (deliver cf (E + k)).1)) i.midLtEven i.midGtEven i.inexLtMid i.inexGtMid tiny f =
      .ok (ofBits (encode (finish (modeOf m) s N 1 E E).1), i.midLtEven, i.midGtEven, i.inexLtMid, i.inexGtMid,
           f ||| UInt32.ofNat (finish (modeOf m) s N 1 E E).2) := by
  have hMax : eMax = 6111 := rfl
  have h34 : P34 < 2 ^ 113 := by decide
  obtain ⟨hfin, t1, t2, t3, t4, t5, t6⟩ := tail_math m s N hN E k cf i h _ _ rfl rfl
  generalize hc : (deliver cf (E + k)).1 = c at *
  generalize heI : (deliver cf (E + k)).2 = eI at *
  have hS : (if s = true then 1 else 0) ≤ 1 := by cases s <;> simp
  obtain ⟨w1, w2⟩ := word_fields (if s = true then 1 else 0) (eI + 6176).toNat c hS (by omega) (by omega)
  have w1' : negW (ofBits ((if s = true then 1 else 0) * 2 ^ 127 + (eI + 6176).toNat * 2 ^ 113 + c)).w1.toNat = s := by
    rw [w1]; cases s <;> simp
  have hflagRN : tailFlags f (anyI i) tiny = f ||| UInt32.ofNat
      (if anyI i = false then 0 else if N < 10 ^ (k + 33) then fUnderflow ||| fInexact else fInexact) := by
    unfold tailFlags
    by_cases ha : anyI i = true
    · have ht := htiny ha
      rw [ha]
      simp only [if_true, Bool.true_eq_false, if_false]
      by_cases hT : N < 10 ^ (k + 33)
      · rw [show tiny = true by rw [ht]; exact decide_eq_true hT, if_pos hT]
        simp only [if_true]
        rw [UInt32.or_assoc]; rfl
      · rw [show tiny = false by rw [ht]; exact decide_eq_false hT, if_neg hT]
        simp only [Bool.false_eq_true, if_false]
        rfl
    · have ha' : anyI i = false := by simpa using ha
      rw [ha']
      simp only [Bool.false_eq_true, if_false, if_true]
      exact (UInt32.or_zero (a := f)).symm
  by_cases hm : m = .NearestEven
  · subst hm
    have hle := hrn rfl
    rw [aarTail_rn, anyI_eq]
    rw [show upD .NearestEven s i.inexLtMid i.midGtEven = false from rfl,
      show downD .NearestEven s i.inexGtMid i.midLtEven = false from rfl, stepC_none] at hfin
    simp only [] at hfin
    rw [if_neg (by omega)] at hfin
    rw [hfin, hflagRN, encode_fin]
  · rw [aarTail_dir m hm]
    have hev := Dec.C02GenCorrection.correction_eval m i.inexLtMid i.inexGtMid i.midLtEven i.midGtEven e _ f eI c he t2 (by omega)
      w2 t1 (by rw [w1']; exact fun a b => t4 a b)
    rw [w1', Dec.C02GenCorrection.outW_eq, w1'] at hev
    rw [hev]
    simp only [Except.bind]
    generalize hst : stepC (upD m s i.inexLtMid i.midGtEven) (downD m s i.inexGtMid i.midLtEven) c eI = st at *
    rw [hfin, anyI_eq]
    have hfl := flags_dir f (anyI i) st.2.2 (decide (6111 < st.2.1)) tiny (decide (N < 10 ^ (k + 33)))
      (fun hu => ⟨by simpa using (t5 hu).1, (t5 hu).2⟩) htiny
      (fun ho => by
        have := t6 (by rw [hMax]; simpa using ho)
        simpa using this)
    rw [show (i.inexLtMid || i.inexGtMid || i.midLtEven || i.midGtEven) = anyI i from rfl, hfl]
    by_cases hov : 6111 < st.2.1
    · rw [if_pos hov, if_pos (by rw [hMax]; exact hov), Dec.C02GenCorrection.ovfDatum_model m s hm]
      simp only [specF, decide_eq_true hov, if_true]
      rfl
    · rw [if_neg hov, if_neg (by rw [hMax]; exact hov)]
      have hsp : specF (anyI i) (decide (N < 10 ^ (k + 33))) (decide (6111 < st.2.1)) =
          (if anyI i = false then 0 else if N < 10 ^ (k + 33) then fUnderflow ||| fInexact else fInexact) := by
        simp only [specF, decide_eq_false hov, Bool.false_eq_true, if_false]
        by_cases ha : anyI i = false
        · rw [if_pos ha, if_pos ha]
        · rw [if_neg ha, if_neg ha]
          by_cases hT : N < 10 ^ (k + 33)
          · rw [decide_eq_true hT, if_pos hT]; rfl
          · rw [decide_eq_false hT, if_neg hT]; rfl
      rw [hsp]


/-! ## 6. The underflow stage delivers `finish` -/

/-- a nearest-even rounding with its exact position indicators is a `PreTail` state (given the right `k`) -/
theorem pretail_of_pos (s : Bool) (N : Nat) (E : Int) (k c : Nat) (i : Ind)
    (hr : RoundedInt .rne s N (10 ^ k) c) (hi : i = posInd N (10 ^ k) c)
    (hleast : (k = 0 ∧ N < 10 ^ 34 ∧ eMin ≤ E ∧ E ≤ eMax) ∨ (1 ≤ k ∧ E + k = eMin ∧ N < 10 ^ (k + 33)) ∨
      (10 ^ (k + 33) ≤ N ∧ N < 10 ^ (k + 34) ∧ eMin ≤ E + k)) : PreTail s N E k c i := by
  have hD : 0 < 10 ^ k := Nat.pow_pos (by decide)
  have e3 : 2 * c * 10 ^ k = 2 * (c * 10 ^ k) := Nat.mul_assoc _ _ _
  have hcl := hr.1
  rw [e3] at hcl
  subst hi
  refine ⟨hr, rfl, rfl, ?_, hleast⟩
  simp only [posInd]
  rw [Bool.eq_iff_iff]
  simp only [Bool.or_eq_true, decide_eq_true_eq]
  omega

theorem stage2_pretail (s : Bool) (N : Nat) (hN : 0 < N) (E : Int) (k1 c1 ind1 x2 : Nat)
    (hcl : 2 * N ≤ 2 * (c1 * 10 ^ k1) + 10 ^ k1 ∧ 2 * (c1 * 10 ^ k1) ≤ 2 * N + 10 ^ k1)
    (up0 dn0 : Bool) (hup : up0 = decide (N < c1 * 10 ^ k1)) (hdn : dn0 = decide (c1 * 10 ^ k1 < N))
    (hc0 : 0 < c1) (hc1 : c1 < 10 ^ ind1) (hind : 1 ≤ ind1) (h34 : ind1 ≤ 34) (hx2 : 1 ≤ x2)
    (hE : E + k1 + x2 = eMin) :
    PreTail s N E (k1 + x2) (stage2 up0 dn0 c1 ind1 x2).1 (stage2 up0 dn0 c1 ind1 x2).2 ∧ N < 10 ^ (k1 + x2 + 33) := by
  have hD : 0 < 10 ^ k1 := Nat.pow_pos (by decide)
  have h33 : N < 10 ^ (k1 + x2 + 33) := by
    have h1 : (c1 + 1) * 10 ^ k1 ≤ 10 ^ ind1 * 10 ^ k1 := Nat.mul_le_mul_right _ (by omega)
    rw [Nat.add_mul, Nat.one_mul, ← Nat.pow_add] at h1
    have h2 : (10 : Nat) ^ (ind1 + k1) ≤ 10 ^ (k1 + x2 + 33) := Nat.pow_le_pow_right (by decide) (by omega)
    omega
  refine ⟨?_, h33⟩
  have hpow : (10 : Nat) ^ (k1 + x2) = 10 ^ k1 * 10 ^ x2 := Nat.pow_add _ _ _
  have hleast : (k1 + x2 = 0 ∧ N < 10 ^ 34 ∧ eMin ≤ E ∧ E ≤ eMax) ∨
      (1 ≤ k1 + x2 ∧ E + ((k1 + x2 : Nat) : Int) = eMin ∧ N < 10 ^ (k1 + x2 + 33)) ∨
      (10 ^ (k1 + x2 + 33) ≤ N ∧ N < 10 ^ (k1 + x2 + 34) ∧ eMin ≤ E + ((k1 + x2 : Nat) : Int)) := by
    right; left
    exact ⟨by omega, by push_cast; omega, h33⟩
  unfold stage2
  by_cases a : ind1 < x2
  · simp only [a, if_true]
    obtain ⟨z1, z2⟩ := zero_step s N (10 ^ k1) c1 ind1 x2 hD hN hc1 a hcl.1
    rw [← hpow] at z1 z2
    exact pretail_of_pos s N E _ _ _ z1 z2 hleast
  · simp only [a, if_false]
    by_cases b : x2 = ind1
    · simp only [b, if_true]
      obtain ⟨z1, z2⟩ := half_step s N (10 ^ k1) c1 ind1 hD hind hc0 hc1 hcl up0 dn0 hup hdn
      rw [b] at hleast hpow
      rw [← hpow] at z1 z2
      exact pretail_of_pos s N E _ _ _ z1 z2 hleast
    · simp only [b, if_false]
      obtain ⟨z1, z2⟩ := two_step s N (10 ^ k1) c1 x2 hD hx2 hcl up0 dn0 hup hdn
      rw [← hpow] at z1 z2
      exact pretail_of_pos s N E _ _ _ z1 z2 hleast


theorem cf_le_of_tiny (s : Bool) (N k c : Nat) (hr : RoundedInt .rne s N (10 ^ k) c) (h : N < 10 ^ (k + 33)) :
    c ≤ 10 ^ 33 := by
  have hD : 0 < 10 ^ k := Nat.pow_pos (by decide)
  have hlt := RoundedInt_lt .rne s N (10 ^ k) c hD hr
  by_contra hc
  have : (10 ^ 33 + 1) * 10 ^ k ≤ c * 10 ^ k := Nat.mul_le_mul_right _ (by omega)
  rw [Nat.add_mul, Nat.one_mul, ← Nat.pow_add, Nat.add_comm 33 k] at this
  omega

/-- **the underflow stage delivers `finish`.**  Let the first stage have left the coefficient `c1 > 0` (at most `ind1 ≤ 34`
digits) at the exponent `e1 = E + kd` below the least one, within half a unit of the exact magnitude `N·10^E`, and let the first
stage's indicators say on which side (`G0 || ML0`: the value is below `c1`; `L0 || MG0`: above).  Then the underflow stage and the
tail return the canonical encoding of `finish (mode) sign N 1 E E` and its flags. -/
theorem aarUF_spec (m : RoundingMode) (s : Bool) (p_sign : UInt64)
    (hps : p_sign.toNat = (if s = true then 1 else 0) * 2 ^ 63) (N : Nat) (hN : 0 < N) (E : Int) (kd c1 ind1 : Nat)
    (hcl : 2 * N ≤ 2 * (c1 * 10 ^ kd) + 10 ^ kd ∧ 2 * (c1 * 10 ^ kd) ≤ 2 * N + 10 ^ kd)
    (ML0 MG0 L0 G0 : Bool) (hup : (G0 || ML0) = decide (N < c1 * 10 ^ kd)) (hdn : (L0 || MG0) = decide (c1 * 10 ^ kd < N))
    (hc0 : 0 < c1) (hc1 : c1 < 10 ^ ind1) (hind : 1 ≤ ind1) (h34 : ind1 ≤ 34)
    (e4 ind : Int32) (he4 : e4.toInt = E + kd) (hi : ind.toInt = ind1) (he : E + kd < -6176) (helo : -1000000000 ≤ E + kd)
    (res : U128) (hc : sigW res.w1.toNat res.w0.toNat = c1) (incr : Bool) (f : UInt32) :
    ∃ i : Ind,
      aarUF m p_sign e4 ind res incr ML0 MG0 L0 G0 true f =
        .ok (ofBits (encode (finish (modeOf m) s N 1 E E).1), i.midLtEven, i.midGtEven, i.inexLtMid, i.inexGtMid,
             f ||| UInt32.ofNat (finish (modeOf m) s N 1 E E).2) := by
  have hS : (if s = true then 1 else 0) ≤ 1 := by cases s <;> simp
  obtain ⟨x2, hx2⟩ : ∃ x2 : Nat, (x2 : Int) = -6176 - (E + kd) := ⟨(-6176 - (E + kd)).toNat, by omega⟩
  have hx2' : (-6176 - (E + kd)).toNat = x2 := by omega
  have hMin : eMin = -6176 := rfl
  rw [aarUF_eval m p_sign _ hS hps e4 ind (E + kd) ind1 he4 hi he helo hind h34 res c1 hc hc1, hx2']
  have hx1 : 1 ≤ x2 := by clear * - hx2 he; omega
  have hEk : E + kd + x2 = eMin := by clear * - hx2 hMin; omega
  obtain ⟨hpt, h33⟩ := stage2_pretail s N hN E kd c1 ind1 x2 hcl _ _ hup hdn hc0 hc1 hind h34 hx1 hEk
  generalize stage2 (G0 || ML0) (L0 || MG0) c1 ind1 x2 = st at *
  have hk : E + ((kd + x2 : Nat) : Int) = -6176 := by clear * - hx2; push_cast; omega
  have hcf := cf_le_of_tiny s N _ _ hpt.rne h33
  have hdel : deliver st.1 (E + ((kd + x2 : Nat) : Int)) = (st.1, -6176) := by
    unfold deliver
    rw [if_neg (by rw [Dec.C13PackHelpers.P34_eq']; omega), hk]
  have := aarTail_spec m s N hN E (kd + x2) st.1 st.2 hpt (-6176) (by rw [hdel]; rfl) (by rw [hk]; decide)
    (fun _ => by rw [hdel]; show (-6176 : Int) ≤ 6111; decide) true (fun _ => (decide_eq_true h33).symm) f
  rw [hdel] at this
  simp only [show ((-6176 : Int) + 6176).toNat = 0 from rfl, Nat.zero_mul, Nat.add_zero] at this
  exact ⟨st.2, this⟩


/-! ## 7. The first stage: at most 34 digits -/

theorem i32_le (a b : Int32) : decide (a ≤ b) = decide (a.toInt ≤ b.toInt) := by
  rw [decide_eq_decide, Int32.le_iff_toInt_le]

/-- at most 34 digits: nothing is rounded -/
theorem aarRoundA (m : RoundingMode) (p_sign : UInt64) (e4 ind : Int32) (R : U256) (f : UInt32) (b1 b2 b3 b4 : Bool)
    (hle : ind.toInt ≤ 34) :
    aarRound m p_sign e4 34 ind R f b1 b2 b3 b4 =
      aarOvf m p_sign e4 34 ind ⟨R.w0, (p_sign ||| ((UInt64.ofInt (toI (e4 + (0x1820 : Int32)))) <<< 0x31)) ||| R.w1⟩
        false false false false false (decide ((ind + e4) < ((34 : Int32) + c_EXP_MIN_UNBIASED))) f b1 b2 b3 b4 := by
  unfold aarRound
  have h1 : decide (ind ≤ (34 : Int32)) = true := by
    rw [i32_le, decide_eq_true_eq]; exact hle
  simp only [h1, if_true]
  by_cases h2 : decide ((ind + e4) < ((34 : Int32) + c_EXP_MIN_UNBIASED)) = true
  · simp only [h2, if_true]
  · simp only [h2, if_false]; rfl


theorem aarOvf_no (m : RoundingMode) (p_sign : UInt64) (e4 ind : Int32) (res : U128) (incr ML MG L G tiny : Bool) (f : UInt32)
    (b1 b2 b3 b4 : Bool) (h : m = .NearestEven → ind.toInt + e4.toInt ≤ 34 + 6111)
    (hw1 : -1000000000 ≤ e4.toInt ∧ e4.toInt ≤ 1000000000) (hw2 : 0 ≤ ind.toInt ∧ ind.toInt ≤ 100) :
    aarOvf m p_sign e4 34 ind res incr ML MG L G tiny f b1 b2 b3 b4 = aarUF m p_sign e4 ind res incr ML MG L G tiny f := by
  unfold aarOvf
  have hc : ((m == RoundingMode.NearestEven) && (decide (((ind + e4)) > (((34 : Int32) + c_EXP_MAX_UNBIASED))))) = false := by
    by_cases hm : m = .NearestEven
    · have := h hm
      rw [Bool.and_eq_false_iff]; right
      rw [Dec.C02GenCorrection.i32_gt, decide_eq_false_iff_not, show ((34 : Int32) + c_EXP_MAX_UNBIASED).toInt = 6145 from by decide,
        Int32.toInt_add, bmod32 _ (by omega) (by omega)]
      omega
    · rw [Bool.and_eq_false_iff]; left
      simpa using hm
  simp only [hc, Bool.false_eq_true, if_false]

theorem aarOvf_yes (p_sign : UInt64) (e4 ind : Int32) (res : U128) (incr ML MG L G tiny : Bool) (f : UInt32)
    (b1 b2 b3 b4 : Bool) (h : 34 + 6111 < ind.toInt + e4.toInt)
    (hw1 : -1000000000 ≤ e4.toInt ∧ e4.toInt ≤ 1000000000) (hw2 : 0 ≤ ind.toInt ∧ ind.toInt ≤ 100) :
    aarOvf .NearestEven p_sign e4 34 ind res incr ML MG L G tiny f b1 b2 b3 b4 =
      .ok (⟨0, p_sign ||| 0x7800000000000000⟩, b1, b2, b3, b4, f ||| 0x28) := by
  unfold aarOvf
  have hc : (((RoundingMode.NearestEven) == RoundingMode.NearestEven) && (decide (((ind + e4)) > (((34 : Int32) + c_EXP_MAX_UNBIASED))))) = true := by
    rw [Bool.and_eq_true]
    refine ⟨rfl, ?_⟩
    rw [Dec.C02GenCorrection.i32_gt, decide_eq_true_eq, show ((34 : Int32) + c_EXP_MAX_UNBIASED).toInt = 6145 from by decide,
      Int32.toInt_add, bmod32 _ (by omega) (by omega)]
    omega
  simp only [hc, if_true]
  rfl


/-- the coefficient field below a sign word and an arbitrary word shifted into the exponent field -/
theorem sig_garbage (a y w1 : UInt64) (ha : a.toNat % 2 ^ 49 = 0) (hw : w1.toNat < 2 ^ 49) :
    ((a ||| (y <<< 0x31)) ||| w1).toNat % 2 ^ 49 = w1.toNat := by
  rw [UInt64.toNat_or, UInt64.toNat_or, Nat.or_mod_two_pow, Nat.or_mod_two_pow, ha, UInt64.toNat_shiftLeft,
    show (0x31 : UInt64).toNat % 64 = 49 from by decide, Nat.shiftLeft_eq]
  have : y.toNat * 2 ^ 49 % 2 ^ 64 % 2 ^ 49 = 0 := by omega
  rw [this, Nat.zero_or, Nat.zero_or, Nat.mod_eq_of_lt hw]

theorem posInd_exact (N : Nat) : (⟨false, false, false, false⟩ : Ind) = posInd N (10 ^ 0) N := by
  simp only [posInd, Nat.pow_zero, Nat.mul_one, Ind.mk.injEq]
  refine ⟨?_, ?_, ?_, ?_⟩ <;> (symm; rw [decide_eq_false_iff_not]; omega)

/-- **at most 34 digits** (nothing to round in the first stage): the routine from the first rounding on delivers `finish` -/
theorem caseA_spec (m : RoundingMode) (s : Bool) (p_sign : UInt64)
    (hps : p_sign.toNat = (if s = true then 1 else 0) * 2 ^ 63) (N : Nat) (hN : 0 < N) (h34 : N < 10 ^ 34) (E : Int)
    (hElo : -1000000 ≤ E) (hEhi : E ≤ 6111) (e4 ind : Int32) (he4 : e4.toInt = E) (hind : ind.toInt = ndigits N)
    (R : U256) (hR : R.toNat' = N) (f : UInt32) (b1 b2 b3 b4 : Bool) :
    ∃ i : Ind,
      aarRound m p_sign e4 34 ind R f b1 b2 b3 b4 =
        .ok (ofBits (encode (finish (modeOf m) s N 1 E E).1), i.midLtEven, i.midGtEven, i.inexLtMid, i.inexGtMid,
             f ||| UInt32.ofNat (finish (modeOf m) s N 1 E E).2) := by
  have hS : (if s = true then 1 else 0) ≤ 1 := by cases s <;> simp
  have hnd1 : 1 ≤ ndigits N := ndigits_pos hN
  have hnd2 : ndigits N ≤ 34 := (ndigits_le_iff hN).2 h34
  have hlt : N < 10 ^ ndigits N := (ndigits_le_iff hN).1 (le_refl _)
  have h0 := R.w0.toNat_lt; have h1 := R.w1.toNat_lt; have h2 := R.w2.toNat_lt; have h3 := R.w3.toNat_lt
  have hw : R.w1.toNat * 2 ^ 64 + R.w0.toNat = N ∧ R.w1.toNat < 2 ^ 49 := by
    unfold U256.toNat' at hR
    have : (10 : Nat) ^ 34 < 2 ^ 113 := by norm_num
    omega
  have h113 : N < 2 ^ 113 := lt_trans h34 (by norm_num)
  have hmin : c_EXP_MIN_UNBIASED.toInt = -6176 := by decide
  rw [aarRoundA m p_sign e4 ind R f b1 b2 b3 b4 (by rw [hind]; omega),
    aarOvf_no m p_sign e4 ind _ _ _ _ _ _ _ f b1 b2 b3 b4 (fun _ => by rw [hind, he4]; omega) (by rw [he4]; omega)
      (by rw [hind]; omega)]
  by_cases hE : -6176 ≤ E
  · rw [aarUF_noop m p_sign e4 ind (by rw [he4]; exact hE)]
    have hxe := Dec.C02GenCorrection.expField e4 E he4 hE (by omega)
    rw [Dec.C17GenNext.pack_bits p_sign _ R.w1 R.w0 (if s = true then 1 else 0) (E + 6176).toNat N hps hS hxe (by omega)
      hw.1 h113]
    have hpt : PreTail s N E 0 N ⟨false, false, false, false⟩ :=
      pretail_of_pos s N E 0 N _ (by have := RoundedInt_exact .rne s N (10 ^ 0) (by decide); simpa using this)
        (posInd_exact N) (Or.inl ⟨rfl, h34, hE, hEhi⟩)
    have hdel : deliver N (E + ((0 : Nat) : Int)) = (N, E) := by
      unfold deliver; rw [if_neg (by rw [Dec.C13PackHelpers.P34_eq']; omega)]; simp
    have := aarTail_spec m s N hN E 0 N _ hpt e4 (by rw [hdel]; exact he4) (by simp; omega)
      (fun _ => by rw [hdel]; exact hEhi) (decide ((ind + e4) < ((34 : Int32) + c_EXP_MIN_UNBIASED)))
      (fun h => absurd h (by decide)) f
    rw [hdel] at this
    exact ⟨_, this⟩
  · have htiny : decide ((ind + e4) < ((34 : Int32) + c_EXP_MIN_UNBIASED)) = true := by
      rw [i32_lt, decide_eq_true_eq, show ((34 : Int32) + c_EXP_MIN_UNBIASED).toInt = -6142 from by decide, Int32.toInt_add,
        hind, he4, bmod32 _ (by omega) (by omega)]
      omega
    rw [htiny]
    obtain ⟨res, hres⟩ : ∃ res : U128, res = ⟨R.w0, (p_sign ||| ((UInt64.ofInt (toI (e4 + (0x1820 : Int32)))) <<< 0x31)) ||| R.w1⟩ :=
      ⟨_, rfl⟩
    rw [← hres]
    have hsig : sigW res.w1.toNat res.w0.toNat = N := by
      rw [hres]
      show sigW ((p_sign ||| ((UInt64.ofInt (toI (e4 + (0x1820 : Int32)))) <<< 0x31)) ||| R.w1).toNat R.w0.toNat = N
      unfold sigW
      rw [sig_garbage p_sign _ R.w1 (by rw [hps]; cases s <;> simp) hw.2]
      exact hw.1
    exact aarUF_spec m s p_sign hps N hN E 0 N (ndigits N) (by simp) false false false false
      (by simp) (by simp) hN hlt hnd1 hnd2 e4 ind (by rw [Nat.cast_zero, Int.add_zero]; exact he4) hind
      (by rw [Nat.cast_zero, Int.add_zero]; clear * - hE; omega)
      (by rw [Nat.cast_zero, Int.add_zero]; clear * - hElo; omega) res hsig false f


/-! ## 8. The first stage: 35 to 69 digits -/

/-- what follows the digit-removal helper in the first stage: tininess, the new exponent, the probing correction call
(its result is dropped, only its status word is kept), the packed result -/
def postB (m : RoundingMode) (p_sign : UInt64) (e4 x0 : Int32) (R128 : U128) (incr ML MG L G : Bool) (f : UInt32)
    (b1 b2 b3 b4 : Bool) : Except String (U128 × Bool × Bool × Bool × Bool × UInt32) :=
  if (m == RoundingMode.NearestEven) = true then
    aarOvf m p_sign ((e4 + x0) + (if incr then 1 else 0)) 34 34
      ⟨R128.w0, (p_sign ||| ((UInt64.ofInt (toI (((e4 + x0) + (if incr then 1 else 0)) + (0x1820 : Int32)))) <<< 0x31)) ||| R128.w1⟩
      incr ML MG L G (decide ((e4 + x0) < c_EXP_MIN_UNBIASED)) f b1 b2 b3 b4
  else
    (bid_rounding_correction m L G ML MG (0 : Int32) ⟨R128.w0, (p_sign ||| (0x3040000000000000 : UInt64)) ||| R128.w1⟩ f).bind
      fun t =>
        aarOvf m p_sign ((e4 + x0) + (if incr then 1 else 0)) 34 34
          ⟨R128.w0, (p_sign ||| ((UInt64.ofInt (toI (((e4 + x0) + (if incr then 1 else 0)) + (0x1820 : Int32)))) <<< 0x31)) ||| R128.w1⟩
          incr ML MG L G (decide ((e4 + x0) < c_EXP_MIN_UNBIASED)) t.2 b1 b2 b3 b4

theorem aarRoundB1 (m : RoundingMode) (p_sign : UInt64) (e4 ind : Int32) (R : U256) (f : UInt32) (b1 b2 b3 b4 : Bool)
    (h1 : 34 < ind.toInt) (h2 : ind.toInt ≤ 38) :
    aarRound m p_sign e4 34 ind R f b1 b2 b3 b4 =
      (bid_round128_19_38 ind (ind - 34) ⟨R.w0, R.w1⟩ false false false false false).bind fun t =>
        postB m p_sign e4 (ind - 34) t.1 t.2.1 t.2.2.1 t.2.2.2.1 t.2.2.2.2.1 t.2.2.2.2.2 f b1 b2 b3 b4 := by
  unfold aarRound
  have c1 : decide (ind ≤ (34 : Int32)) = false := by
    rw [i32_le, decide_eq_false_iff_not]; exact not_le.2 h1
  have c2 : decide (ind ≤ (0x26 : Int32)) = true := by
    rw [i32_le, decide_eq_true_eq]; exact h2
  simp only [c1, c2, Bool.false_eq_true, if_false, if_true]
  generalize bid_round128_19_38 ind (ind - 34) _ false false false false false = X
  cases X with
  | error e => rfl
  | ok t =>
    unfold postB
    by_cases hc : decide (e4 + (ind - 34) < c_EXP_MIN_UNBIASED) = true
    · rw [hc]; simp only [if_true]; rfl
    · rw [Bool.not_eq_true] at hc
      rw [hc]; simp only [Bool.false_eq_true, if_false]; rfl


theorem aarRoundB2 (m : RoundingMode) (p_sign : UInt64) (e4 ind : Int32) (R : U256) (f : UInt32) (b1 b2 b3 b4 : Bool)
    (h1 : 38 < ind.toInt) (h2 : ind.toInt ≤ 57) :
    aarRound m p_sign e4 34 ind R f b1 b2 b3 b4 =
      (bid_round192_39_57 ind (ind - 34) ⟨R.w0, R.w1, R.w2⟩ false false false false false).bind fun t =>
        postB m p_sign e4 (ind - 34) ⟨t.1.w0, t.1.w1⟩ t.2.1 t.2.2.1 t.2.2.2.1 t.2.2.2.2.1 t.2.2.2.2.2 f b1 b2 b3 b4 := by
  unfold aarRound
  have c1 : decide (ind ≤ (34 : Int32)) = false := by
    rw [i32_le, decide_eq_false_iff_not]; exact not_le.2 (by have : (34 : Int32).toInt = 34 := rfl; omega)
  have c2 : decide (ind ≤ (0x26 : Int32)) = false := by
    rw [i32_le, decide_eq_false_iff_not]; exact not_le.2 h1
  have c3 : decide (ind ≤ (0x39 : Int32)) = true := by
    rw [i32_le, decide_eq_true_eq]; exact h2
  simp only [c1, c2, c3, Bool.false_eq_true, if_false, if_true]
  generalize bid_round192_39_57 ind (ind - 34) _ false false false false false = X
  cases X with
  | error e => rfl
  | ok t =>
    unfold postB
    by_cases hc : decide (e4 + (ind - 34) < c_EXP_MIN_UNBIASED) = true
    · rw [hc]; simp only [if_true]; rfl
    · rw [Bool.not_eq_true] at hc
      rw [hc]; simp only [Bool.false_eq_true, if_false]; rfl

theorem aarRoundB3 (m : RoundingMode) (p_sign : UInt64) (e4 ind : Int32) (R : U256) (f : UInt32) (b1 b2 b3 b4 : Bool)
    (h1 : 57 < ind.toInt) :
    aarRound m p_sign e4 34 ind R f b1 b2 b3 b4 =
      (bid_round256_58_76 ind (ind - 34) R false false false false false).bind fun t =>
        postB m p_sign e4 (ind - 34) ⟨t.1.w0, t.1.w1⟩ t.2.1 t.2.2.1 t.2.2.2.1 t.2.2.2.2.1 t.2.2.2.2.2 f b1 b2 b3 b4 := by
  unfold aarRound
  have c1 : decide (ind ≤ (34 : Int32)) = false := by
    rw [i32_le, decide_eq_false_iff_not]; exact not_le.2 (by have : (34 : Int32).toInt = 34 := rfl; omega)
  have c2 : decide (ind ≤ (0x26 : Int32)) = false := by
    rw [i32_le, decide_eq_false_iff_not]; exact not_le.2 (by have : (0x26 : Int32).toInt = 38 := rfl; omega)
  have c3 : decide (ind ≤ (0x39 : Int32)) = false := by
    rw [i32_le, decide_eq_false_iff_not]; exact not_le.2 h1
  simp only [c1, c2, c3, Bool.false_eq_true, if_false, if_true]
  generalize bid_round256_58_76 ind (ind - 34) _ false false false false false = X
  cases X with
  | error e => rfl
  | ok t =>
    unfold postB
    by_cases hc : decide (e4 + (ind - 34) < c_EXP_MIN_UNBIASED) = true
    · rw [hc]; simp only [if_true]; rfl
    · rw [Bool.not_eq_true] at hc
      rw [hc]; simp only [Bool.false_eq_true, if_false]; rfl


/-- the probing correction call of the first stage (exponent 0, result dropped) only records inexactness -/
theorem probe_call (m : RoundingMode) (L G ML MG : Bool) (res : U128) (f : UInt32) (c : Nat)
    (hc : sigW res.w1.toNat res.w0.toNat = c) (hlt : c < P34) (hpos : 0 < c) :
    ∃ w, bid_rounding_correction m L G ML MG (0 : Int32) res f =
      .ok (w, if (L || G || ML || MG) = true then f ||| 0x20 else f) := by
  have hev := Dec.C02GenCorrection.correction_eval m L G ML MG 0 res f 0 c rfl (by decide) (by decide) hc hlt (fun _ _ => hpos)
  generalize upD m (negW res.w1.toNat) L MG = up at hev
  generalize downD m (negW res.w1.toNat) G ML = dn at hev
  have h1 : (stepC up dn c 0).2.2 = false := by
    unfold stepC; split_ifs <;> simp_all
  have h2 : decide (6111 < (stepC up dn c 0).2.1) = false := by
    rw [decide_eq_false_iff_not]
    unfold stepC; split_ifs <;> simp
  rw [h1, h2] at hev
  refine ⟨outW (Dec.C02GenCorrection.ovfB m (res.w1 &&& c_MASK_SIGN)) res (stepC up dn c 0).1 (stepC up dn c 0).2.1, ?_⟩
  rw [hev]
  unfold outF
  simp only [Bool.false_eq_true, if_false]

theorem inf_word (s : Bool) (p_sign : UInt64) (hps : p_sign.toNat = (if s = true then 1 else 0) * 2 ^ 63) :
    (⟨0, p_sign ||| 0x7800000000000000⟩ : U128) = ofBits (encode (.inf s)) := by
  apply Dec.C06GenFromInt.eq_ofBits
  unfold Dec.C06GenFromInt.bitsOf encode signBit
  show (p_sign ||| 0x7800000000000000).toNat * 2 ^ 64 + (0 : UInt64).toNat = _
  rw [UInt64.toNat_or, hps]
  cases s <;> decide

open Dec.C04ScanNum (not_member_of_frac) in
/-- a value with more than 34 significant digits is delivered with the inexact flag -/
theorem finish_inexact_flag (mode : Mode) (s : Bool) (N : Nat) (hN : 0 < N) (E : Int) (x : Nat) (hlo : 10 ^ (x + 33) ≤ N)
    (hT : N % 10 ^ x ≠ 0) (f : UInt32) :
    (f ||| 0x20) ||| UInt32.ofNat (finish mode s N 1 E E).2 = f ||| UInt32.ofNat (finish mode s N 1 E E).2 := by
  have hD : 0 < 10 ^ x := Nat.pow_pos (by decide)
  have hnm : ¬ IsMember ((N : ℚ) / ((1 : Nat) : ℚ) * (10 : ℚ) ^ E) := by
    have := not_member_of_frac (N / 10 ^ x) (10 ^ x) (N % 10 ^ x) (E + x)
      (by rw [Nat.le_div_iff_mul_le hD, ← Nat.pow_add, Nat.add_comm]; exact hlo) (Nat.pos_of_ne_zero hT) (Nat.mod_lt _ hD)
    rw [Nat.mul_comm, Nat.div_add_mod] at this
    have hq : ((10 : ℚ) ^ x) ≠ 0 := by positivity
    have e : (N : ℚ) / ((1 : Nat) : ℚ) * (10 : ℚ) ^ E = (N : ℚ) / ((10 ^ x : Nat) : ℚ) * (10 : ℚ) ^ (E + (x : Int)) := by
      rw [zpow_add₀ Dec.ten_ne, zpow_natCast]
      push_cast
      field_simp
    rw [e]; exact this
  have hs := finish_spec_strict mode s N 1 E E hN (by norm_num)
  rcases hs with ⟨hm, _⟩ | ⟨_, m', x', ho, _⟩ | ⟨_, ho, _⟩
  · exact absurd hm hnm
  · rw [ho]
    simp only []
    split
    · rw [UInt32.or_assoc]; rfl
    · rw [UInt32.or_assoc]; rfl
  · rw [ho]
    simp only []
    rw [UInt32.or_assoc]; rfl


/-- what a digit-removal helper hands back for an `x + 34`-digit `N` (`Spec`), in the terms of this file -/
theorem spec_facts (s : Bool) (N x cs : Nat) (incr : Bool) (fl : Ind) (sp : Spec (x + 34) x N cs incr fl) (hx : 1 ≤ x)
    (hlo : 10 ^ (x + 33) ≤ N) (hhi : N < 10 ^ (x + 34)) (ef : Int) :
    RoundedInt .rne s N (10 ^ x) (rne N x) ∧ fl = posInd N (10 ^ x) (rne N x) ∧ rne N x ≤ P34 ∧
    deliver (rne N x) ef = (cs, ef + if incr = true then 1 else 0) ∧ 10 ^ 33 ≤ cs ∧ cs < P34 ∧
    cs * 10 ^ (x + if incr = true then 1 else 0) = rne N x * 10 ^ x ∧ (anyI fl = true → N % 10 ^ x ≠ 0) := by
  obtain ⟨k1, k2, k3, k4, k5, k6, k7, k8, k9⟩ := Dec.C02GenCorrection.contract x N cs incr fl sp hx hlo hhi s ef
  have e34 : P34 = 10 ^ 34 := Dec.C13PackHelpers.P34_eq'
  have e33 : P33 = 10 ^ 33 := Dec.C13PackHelpers.P33_eq'
  have hD : 0 < 10 ^ x := Nat.pow_pos (by decide)
  have hp33 : (10 : Nat) ^ (x + 33) = 10 ^ 33 * 10 ^ x := by rw [Nat.pow_add, Nat.mul_comm]
  have hge : 10 ^ 33 ≤ rne N x := by
    by_contra hc
    have : (rne N x + 1) * 10 ^ x ≤ 10 ^ 33 * 10 ^ x := Nat.mul_le_mul_right _ (by omega)
    rw [Nat.add_mul, Nat.one_mul, ← hp33] at this
    have e3 : 2 * rne N x * 10 ^ x = 2 * (rne N x * 10 ^ x) := Nat.mul_assoc _ _ _
    have := k1.1.1
    rw [e3] at this
    omega
  have hcs := sp.cstar_eq
  have hinc := sp.incr_iff
  rw [show x + 34 - x = 34 by omega] at hcs hinc
  rw [show 34 - 1 = 33 from rfl] at hcs
  refine ⟨k1, ?_, k6, k9, ?_, ?_, ?_, ?_⟩
  · obtain ⟨a, b, c, d⟩ := fl
    simp only [posInd, Ind.mk.injEq]
    exact ⟨k4, k5, k2, k3⟩
  · rw [hcs]; split <;> omega
  · rw [hcs]; split <;> omega
  · by_cases hc : rne N x = 10 ^ 34
    · rw [hcs, if_pos hc, if_pos (hinc.2 hc), hc, Nat.pow_add, Nat.pow_one]; ring
    · have : incr = false := by
        cases hi : incr
        · rfl
        · exact absurd (hinc.1 hi) hc
      rw [hcs, if_neg hc, this]; simp
  · intro ha
    have a1 := sp.midLtEven_iff; have a2 := sp.midGtEven_iff; have a3 := sp.inexLtMid_iff; have a4 := sp.inexGtMid_iff
    obtain ⟨y, hy1, hy2, hy3⟩ := pow_split x hx
    rw [hy3] at a1 a2 a3 a4
    unfold anyI at ha
    simp only [Bool.or_eq_true] at ha
    rcases ha with ((ha | ha) | ha) | ha
    · have := a3.1 ha; omega
    · have := a4.1 ha; omega
    · have := a1.1 ha; omega
    · have := a2.1 ha; omega


theorem v128_words (R : U128) (c : Nat) (h : Dec.C02GenRound.v128 R = c) (hc : c < 2 ^ 113) :
    R.w1.toNat * 2 ^ 64 + R.w0.toNat = c ∧ R.w1.toNat < 2 ^ 49 := by
  have h0 := R.w0.toNat_lt
  unfold Dec.C02GenRound.v128 at h
  omega

/-- a first rounding that carried (`10·c` units of `D1`, the value just below) seen one digit coarser: `c` units of `10·D1`,
the value still just below — only the disjunction "below" of the indicators survives the change of unit -/
theorem coarse_view (s : Bool) (N c D1 D2 : Nat) (i : Ind) (hD : 0 < D1) (h12 : D2 = 10 * D1)
    (hi : i = posInd N D1 (10 * c)) (hlt : N < c * D2) (hcl : 2 * (c * D2) ≤ 2 * N + D1) (hev : c % 2 = 0) :
    RoundedInt .rne s N D2 c ∧ i.inexLtMid = decide (c * D2 < N ∧ 2 * N < 2 * (c * D2) + D2) ∧
    i.midGtEven = decide (2 * N = 2 * (c * D2) + D2) ∧ (i.inexGtMid || i.midLtEven) = decide (N < c * D2) := by
  have hA : 10 * c * D1 = c * D2 := by rw [h12]; ring
  subst hi
  simp only [posInd, hA, RoundedInt]
  rw [Nat.mul_assoc]
  generalize c * D2 = A at *
  subst h12
  refine ⟨⟨⟨by omega, by omega⟩, fun _ => hev⟩, ?_, ?_, ?_⟩
  · rw [decide_eq_false (show ¬ (A < N ∧ 2 * N < 2 * A + D1) by omega),
      decide_eq_false (show ¬ (A < N ∧ 2 * N < 2 * A + 10 * D1) by omega)]
  · rw [decide_eq_false (show ¬ (2 * N = 2 * A + D1) by omega), decide_eq_false (show ¬ (2 * N = 2 * A + 10 * D1) by omega)]
  · rw [Bool.eq_iff_iff]
    simp only [Bool.or_eq_true, decide_eq_true_eq]
    omega

/-- the first stage has rounded an `x + 34`-digit sum to 34 digits: from the overflow test on, the routine delivers `finish` -/
theorem afterB_spec (m : RoundingMode) (s : Bool) (p_sign : UInt64)
    (hps : p_sign.toNat = (if s = true then 1 else 0) * 2 ^ 63) (N : Nat) (hN : 0 < N) (E : Int)
    (hElo : -1000000 ≤ E) (hEhi : E ≤ 6111) (x : Nat) (hx1 : 1 ≤ x) (hx2 : x ≤ 35)
    (hlo : 10 ^ (x + 33) ≤ N) (hhi : N < 10 ^ (x + 34)) (R128 : U128) (incr : Bool) (fl : Ind)
    (sp : Spec (x + 34) x N (Dec.C02GenRound.v128 R128) incr fl)
    (e' : Int32) (he' : e'.toInt = E + x + (if incr = true then 1 else 0)) (xe : UInt64)
    (hxe : -6176 ≤ E + x + (if incr = true then 1 else 0) →
      xe.toNat = (E + x + (if incr = true then 1 else 0) + 6176).toNat * 2 ^ 49)
    (hxe' : xe.toNat % 2 ^ 49 = 0)
    (f f' : UInt32) (hf : f' = f ∨ (f' = f ||| 0x20 ∧ N % 10 ^ x ≠ 0)) (b1 b2 b3 b4 : Bool) :
    ∃ i : Ind,
      aarOvf m p_sign e' 34 34 ⟨R128.w0, (p_sign ||| xe) ||| R128.w1⟩ incr fl.midLtEven fl.midGtEven fl.inexLtMid fl.inexGtMid
          (decide (E + x < -6176)) f' b1 b2 b3 b4 =
        .ok (ofBits (encode (finish (modeOf m) s N 1 E E).1), i.midLtEven, i.midGtEven, i.inexLtMid, i.inexGtMid,
             f ||| UInt32.ofNat (finish (modeOf m) s N 1 E E).2) := by
  have hS : (if s = true then 1 else 0) ≤ 1 := by cases s <;> simp
  have e34 : P34 = 10 ^ 34 := Dec.C13PackHelpers.P34_eq'
  have e33 : P33 = 10 ^ 33 := Dec.C13PackHelpers.P33_eq'
  have hMax : eMax = 6111 := rfl
  have hMin : eMin = -6176 := rfl
  have hD : 0 < 10 ^ x := Nat.pow_pos (by decide)
  obtain ⟨cs, hcs⟩ : ∃ cs, Dec.C02GenRound.v128 R128 = cs := ⟨_, rfl⟩
  rw [hcs] at sp
  obtain ⟨k1, k2, k3, k4, k5, k6, k7, k8⟩ := spec_facts s N x cs incr fl sp hx1 hlo hhi (E + x)
  obtain ⟨hw, hw1⟩ := v128_words R128 cs hcs (by rw [e34] at k6; exact lt_trans k6 (by norm_num))
  obtain ⟨e1, he1⟩ : ∃ e1 : Int, e1 = E + x + (if incr = true then 1 else 0) := ⟨_, rfl⟩
  rw [← he1] at he' hxe k4
  have he1b : E + x ≤ e1 ∧ e1 ≤ E + x + 1 := by rw [he1]; cases incr <;> simp
  -- the flags: the probing call's inexact is absorbed
  have hfl : f' ||| UInt32.ofNat (finish (modeOf m) s N 1 E E).2 = f ||| UInt32.ofNat (finish (modeOf m) s N 1 E E).2 := by
    rcases hf with rfl | ⟨rfl, hT⟩
    · rfl
    · exact finish_inexact_flag (modeOf m) s N hN E x hlo hT f
  have hind : (34 : Int32).toInt = 34 := rfl
  by_cases hov : m = .NearestEven ∧ 6111 < e1
  · obtain ⟨rfl, hov⟩ := hov
    rw [aarOvf_yes p_sign e' 34 _ _ _ _ _ _ _ f' b1 b2 b3 b4 (by rw [hind, he']; omega) (by rw [he']; omega) (by rw [hind]; omega)]
    have hfin := finish_rounded .rne s N hN E x (rne N x) k1 (Or.inr (Or.inr ⟨hlo, hhi, by omega⟩))
    rw [k4] at hfin
    simp only [] at hfin
    rw [if_pos (by omega)] at hfin
    refine ⟨⟨b1, b2, b3, b4⟩, ?_⟩
    show _ = Except.ok (ofBits (encode (finish Mode.rne s N 1 E E).1), _, _, _, _, f ||| UInt32.ofNat (finish Mode.rne s N 1 E E).2)
    have hfl' := hfl
    rw [show modeOf .NearestEven = Mode.rne from rfl, hfin] at hfl'
    rw [hfin]
    simp only []
    rw [← hfl', show overflowResult Mode.rne s = .inf s from by cases s <;> rfl, inf_word s p_sign hps]
    rfl
  · rw [aarOvf_no m p_sign e' 34 _ _ _ _ _ _ _ f' b1 b2 b3 b4 (fun hm => by
      rw [hind, he']; by_contra hc; exact hov ⟨hm, by omega⟩) (by rw [he']; omega) (by rw [hind]; omega)]
    by_cases hlow : -6176 ≤ e1
    · rw [aarUF_noop m p_sign e' 34 (by rw [he']; exact hlow)]
      rw [Dec.C17GenNext.pack_bits p_sign xe R128.w1 R128.w0 (if s = true then 1 else 0) (e1 + 6176).toNat cs hps hS
        (hxe hlow) (by omega) hw (by rw [e34] at k6; exact lt_trans k6 (by norm_num))]
      by_cases hEx : -6176 ≤ E + x
      · have hpt : PreTail s N E x (rne N x) fl :=
          pretail_of_pos s N E x (rne N x) fl k1 k2 (Or.inr (Or.inr ⟨hlo, hhi, by rw [hMin]; exact hEx⟩))
        have := aarTail_spec m s N hN E x (rne N x) fl hpt e' (by rw [k4]; exact he') (by omega)
          (fun hm => by rw [k4]; simp only []; by_contra hc; exact hov ⟨hm, by omega⟩) (decide (E + x < -6176))
          (fun _ => by rw [decide_eq_false (by omega), decide_eq_false (by omega)]) f'
        rw [k4] at this
        rw [hfl] at this
        exact ⟨fl, this⟩
      · -- the carry lifted the result to the least exponent
        have hinc : incr = true := by
          cases hi : incr
          · rw [hi] at he1; simp at he1; omega
          · rfl
        rw [hinc] at k7 he1
        simp only [if_true] at k7 he1
        have hE : E + x = -6177 := by omega
        have hrn : rne N x = 10 ^ 34 := sp.incr_iff.1 hinc |>.trans (by rw [show x + 34 - x = 34 by omega])
        have hcs33 : cs = 10 ^ 33 := by
          rw [hrn] at k7
          have : cs * 10 ^ (x + 1) = (10 ^ 33) * 10 ^ (x + 1) := by rw [k7, Nat.pow_succ]; ring
          exact Nat.eq_of_mul_eq_mul_right (Nat.pow_pos (by decide)) this
        have hcl := k1.1
        rw [hrn, Nat.mul_assoc] at hcl
        have hp1 : (10 : Nat) ^ (x + 1) = 10 * 10 ^ x := by rw [Nat.pow_succ]; ring
        have hp2 : (10 : Nat) ^ 34 * 10 ^ x = 10 ^ 33 * 10 ^ (x + 1) := by rw [hp1]; ring
        have hp3 : (10 : Nat) ^ (x + 34) = 10 ^ 33 * 10 ^ (x + 1) := by rw [Nat.pow_add, hp1]; ring
        have hpt : PreTail s N E (x + 1) (10 ^ 33) fl := by
          have hfl2 := k2
          rw [hrn, show (10 : Nat) ^ 34 = 10 * 10 ^ 33 from by norm_num] at hfl2
          rw [hp2] at hcl
          obtain ⟨c1, c2, c3, c4⟩ := coarse_view s N (10 ^ 33) (10 ^ x) (10 ^ (x + 1)) fl hD hp1 hfl2 (by rw [← hp3]; exact hhi)
            hcl.2 (by decide)
          exact ⟨c1, c2, c3, c4, Or.inr (Or.inl ⟨by omega, by push_cast; omega, by rw [show x + 1 + 33 = x + 34 by omega]; exact hhi⟩)⟩
        have hdel : deliver (10 ^ 33) (E + ((x + 1 : Nat) : Int)) = (cs, e1) := by
          unfold deliver
          rw [if_neg (by rw [e34]; norm_num), hcs33, show E + ((x + 1 : Nat) : Int) = e1 from by push_cast; omega]
        have := aarTail_spec m s N hN E (x + 1) (10 ^ 33) fl hpt e' (by rw [hdel]; exact he') (by push_cast; omega)
          (fun hm => by rw [hdel]; simp only []; omega) (decide (E + x < -6176))
          (fun _ => by rw [decide_eq_true (by omega), decide_eq_true (by rw [show x + 1 + 33 = x + 34 by omega]; exact hhi)]) f'
        rw [hdel] at this
        rw [hfl] at this
        exact ⟨fl, this⟩
    · -- the underflow stage
      have htiny : decide (E + x < -6176) = true := decide_eq_true (by omega)
      rw [htiny]
      obtain ⟨kd, hkd⟩ : ∃ kd : Nat, kd = x + (if incr = true then 1 else 0) := ⟨_, rfl⟩
      rw [← hkd] at k7
      have hkd' : E + (kd : Int) = e1 := by rw [he1, hkd]; cases incr <;> simp <;> omega
      have hpk : 10 ^ x ≤ 10 ^ kd := Nat.pow_le_pow_right (by decide) (by rw [hkd]; omega)
      have hcl := k1.1
      rw [Nat.mul_assoc, ← k7] at hcl
      have hdir := k2
      obtain ⟨res, hres⟩ : ∃ res : U128, res = ⟨R128.w0, (p_sign ||| xe) ||| R128.w1⟩ := ⟨_, rfl⟩
      rw [← hres]
      have hsig : sigW res.w1.toNat res.w0.toNat = cs := by
        rw [hres]
        show sigW ((p_sign ||| xe) ||| R128.w1).toNat R128.w0.toNat = cs
        unfold sigW
        rw [UInt64.toNat_or, UInt64.toNat_or, Nat.or_mod_two_pow, Nat.or_mod_two_pow, hxe',
          show p_sign.toNat % 2 ^ 49 = 0 by rw [hps]; cases s <;> simp, Nat.zero_or, Nat.zero_or, Nat.mod_eq_of_lt hw1]
        exact hw
      obtain ⟨i, hi⟩ := aarUF_spec m s p_sign hps N hN E kd cs 34 ⟨by omega, by omega⟩ fl.midLtEven fl.midGtEven fl.inexLtMid
        fl.inexGtMid
        (by rw [hdir]; simp only [posInd]; rw [← k7, Bool.eq_iff_iff]; simp only [Bool.or_eq_true, decide_eq_true_eq]; omega)
        (by rw [hdir]; simp only [posInd]; rw [← k7, Bool.eq_iff_iff]; simp only [Bool.or_eq_true, decide_eq_true_eq]; omega)
        (by omega) (by rw [e34] at k6; exact k6) (by omega) (by omega) e' 34 (by rw [hkd']; exact he') rfl
        (by rw [hkd']; omega) (by rw [hkd']; omega) res hsig incr f'
      rw [hfl] at hi
      exact ⟨i, hi⟩


/-- **more than 34 digits**: after the digit-removal helper (`Spec`), the routine delivers `finish` -/
theorem postB_spec (m : RoundingMode) (s : Bool) (p_sign : UInt64)
    (hps : p_sign.toNat = (if s = true then 1 else 0) * 2 ^ 63) (N : Nat) (hN : 0 < N) (E : Int)
    (hElo : -1000000 ≤ E) (hEhi : E ≤ 6111) (x : Nat) (hx1 : 1 ≤ x) (hx2 : x ≤ 35)
    (hlo : 10 ^ (x + 33) ≤ N) (hhi : N < 10 ^ (x + 34)) (e4 x0 : Int32) (he4 : e4.toInt = E) (hx0 : x0.toInt = x)
    (R128 : U128) (incr : Bool) (fl : Ind) (sp : Spec (x + 34) x N (Dec.C02GenRound.v128 R128) incr fl)
    (f : UInt32) (b1 b2 b3 b4 : Bool) :
    ∃ i : Ind,
      postB m p_sign e4 x0 R128 incr fl.midLtEven fl.midGtEven fl.inexLtMid fl.inexGtMid f b1 b2 b3 b4 =
        .ok (ofBits (encode (finish (modeOf m) s N 1 E E).1), i.midLtEven, i.midGtEven, i.inexLtMid, i.inexGtMid,
             f ||| UInt32.ofNat (finish (modeOf m) s N 1 E E).2) := by
  have e34 : P34 = 10 ^ 34 := Dec.C13PackHelpers.P34_eq'
  have h1 : (e4 + x0).toInt = E + x := by
    rw [Int32.toInt_add, he4, hx0, bmod32 _ (by omega) (by omega)]
  obtain ⟨e', he'd⟩ : ∃ e' : Int32, e' = (e4 + x0) + (if incr = true then 1 else 0) := ⟨_, rfl⟩
  have he' : e'.toInt = E + x + (if incr = true then 1 else 0) := by
    rw [he'd]
    cases incr
    · simp only [Bool.false_eq_true, if_false, Int.add_zero]
      rw [show (e4 + x0 + (0 : Int32)) = e4 + x0 from by rw [Int32.add_zero], h1]
    · simp only [if_true]
      exact Dec.C02GenCorrection.i32_add1 _ _ h1 (by omega) (by omega)
  have hb : E + x ≤ E + x + (if incr = true then 1 else 0) ∧ E + x + (if incr = true then 1 else 0) ≤ E + x + 1 := by
    cases incr <;> simp
  have htiny : decide ((e4 + x0) < c_EXP_MIN_UNBIASED) = decide (E + x < -6176) := by
    rw [i32_lt, h1, show c_EXP_MIN_UNBIASED.toInt = -6176 from by decide]
  have hxe' : ((UInt64.ofInt (toI (e' + (0x1820 : Int32)))) <<< 0x31).toNat % 2 ^ 49 = 0 := by
    rw [UInt64.toNat_shiftLeft, show (0x31 : UInt64).toNat % 64 = 49 from by decide, Nat.shiftLeft_eq]
    omega
  unfold postB
  rw [← he'd, htiny]
  by_cases hm : (m == RoundingMode.NearestEven) = true
  · rw [if_pos hm]
    exact afterB_spec m s p_sign hps N hN E hElo hEhi x hx1 hx2 hlo hhi R128 incr fl sp e' he' _
      (fun hl => Dec.C02GenCorrection.expField e' _ he' hl (by omega)) hxe' f f (Or.inl rfl) b1 b2 b3 b4
  · rw [if_neg hm]
    obtain ⟨cs, hcs⟩ : ∃ cs, Dec.C02GenRound.v128 R128 = cs := ⟨_, rfl⟩
    have sp' := sp
    rw [hcs] at sp'
    obtain ⟨k1, k2, k3, k4, k5, k6, k7, k8⟩ := spec_facts s N x cs incr fl sp' hx1 hlo hhi (E + x)
    obtain ⟨hw, hw1⟩ := v128_words R128 cs hcs (by rw [e34] at k6; exact lt_trans k6 (by norm_num))
    obtain ⟨P, hP⟩ : ∃ P : U128, P = ⟨R128.w0, (p_sign ||| (0x3040000000000000 : UInt64)) ||| R128.w1⟩ := ⟨_, rfl⟩
    rw [← hP]
    have hsig : sigW P.w1.toNat P.w0.toNat = cs := by
      rw [hP]
      show sigW ((p_sign ||| (0x3040000000000000 : UInt64)) ||| R128.w1).toNat R128.w0.toNat = cs
      unfold sigW
      rw [UInt64.toNat_or, UInt64.toNat_or, Nat.or_mod_two_pow, Nat.or_mod_two_pow,
        show (0x3040000000000000 : UInt64).toNat % 2 ^ 49 = 0 from by decide,
        show p_sign.toNat % 2 ^ 49 = 0 by rw [hps]; cases s <;> simp, Nat.zero_or, Nat.zero_or, Nat.mod_eq_of_lt hw1]
      exact hw
    obtain ⟨w, hcall⟩ := probe_call m fl.inexLtMid fl.inexGtMid fl.midLtEven fl.midGtEven P f cs hsig k6 (by omega)
    rw [hcall]
    simp only [Except.bind]
    refine afterB_spec m s p_sign hps N hN E hElo hEhi x hx1 hx2 hlo hhi R128 incr fl sp e' he' _
      (fun hl => Dec.C02GenCorrection.expField e' _ he' hl (by omega)) hxe' f _ ?_ b1 b2 b3 b4
    by_cases ha : (fl.inexLtMid || fl.inexGtMid || fl.midLtEven || fl.midGtEven) = true
    · rw [if_pos ha]; exact Or.inr ⟨rfl, k8 ha⟩
    · rw [if_neg ha]; exact Or.inl rfl


/-- **more than 34 digits** (35 to 69): the routine from the first rounding on delivers `finish` -/
theorem caseB_spec (m : RoundingMode) (s : Bool) (p_sign : UInt64)
    (hps : p_sign.toNat = (if s = true then 1 else 0) * 2 ^ 63) (N : Nat) (h34 : 10 ^ 34 ≤ N) (h69 : N < 10 ^ 69) (E : Int)
    (hElo : -1000000 ≤ E) (hEhi : E ≤ 6111) (e4 ind : Int32) (he4 : e4.toInt = E) (hind : ind.toInt = ndigits N)
    (R : U256) (hR : R.toNat' = N) (f : UInt32) (b1 b2 b3 b4 : Bool) :
    ∃ i : Ind,
      aarRound m p_sign e4 34 ind R f b1 b2 b3 b4 =
        .ok (ofBits (encode (finish (modeOf m) s N 1 E E).1), i.midLtEven, i.midGtEven, i.inexLtMid, i.inexGtMid,
             f ||| UInt32.ofNat (finish (modeOf m) s N 1 E E).2) := by
  have hN : 0 < N := lt_of_lt_of_le (by norm_num) h34
  have e34 : P34 = 10 ^ 34 := Dec.C13PackHelpers.P34_eq'
  obtain ⟨nd, hnd⟩ : ∃ nd, ndigits N = nd := ⟨_, rfl⟩
  rw [hnd] at hind
  have hnd1 : 34 < nd := by rw [← hnd]; exact (lt_ndigits_iff hN).2 h34
  have hnd2 : nd ≤ 69 := by rw [← hnd]; exact (ndigits_le_iff hN).2 h69
  obtain ⟨hlo', hhi'⟩ := (ndigits_eq_iff hN (by omega)).1 hnd
  obtain ⟨x, hx⟩ : ∃ x, nd = x + 34 := ⟨nd - 34, by omega⟩
  subst hx
  have hlo : 10 ^ (x + 33) ≤ N := hlo'
  have hio := i32_eq_ofNat ind (x + 34) (by rw [hind])
  have hsub : (ind - 34).toInt = x := by
    rw [Int32.toInt_sub, hind, show (34 : Int32).toInt = 34 from rfl, bmod32 _ (by omega) (by omega)]; push_cast; omega
  have hso := i32_eq_ofNat (ind - 34) x hsub
  have h0 := R.w0.toNat_lt; have h1 := R.w1.toNat_lt; have h2 := R.w2.toNat_lt; have h3 := R.w3.toNat_lt
  unfold U256.toNat' at hR
  by_cases hb1 : x + 34 ≤ 38
  · rw [aarRoundB1 m p_sign e4 ind R f b1 b2 b3 b4 (by rw [hind]; omega) (by rw [hind]; omega), hso, hio]
    have hv : Dec.C02GenRound.v128 ⟨R.w0, R.w1⟩ = N := by
      have : N < 10 ^ 38 := lt_of_lt_of_le hhi' (Nat.pow_le_pow_right (by decide) hb1)
      have : (10 : Nat) ^ 38 < 2 ^ 128 := by norm_num
      unfold Dec.C02GenRound.v128
      show R.w0.toNat + 2 ^ 64 * R.w1.toNat = N
      omega
    obtain ⟨cs, incr, lt, gt, ilt, igt, hcall, sp⟩ := Dec.C02GenRound.bid_round128_19_38_spec (x + 34) x ⟨R.w0, R.w1⟩
      (by omega) hb1 (by omega) (by omega) (by rw [hv]; exact hhi')
    rw [hcall, hv] at *
    simp only [Except.bind]
    exact postB_spec m s p_sign hps N hN E hElo hEhi x (by omega) (by omega) hlo hhi' e4 _ he4
      (by rw [← hso]; exact hsub) cs incr ⟨lt, gt, ilt, igt⟩ sp f b1 b2 b3 b4
  · by_cases hb2 : x + 34 ≤ 57
    · rw [aarRoundB2 m p_sign e4 ind R f b1 b2 b3 b4 (by rw [hind]; omega) (by rw [hind]; omega), hso, hio]
      have hv : Dec.C02GenRound.v192 ⟨R.w0, R.w1, R.w2⟩ = N := by
        have : N < 10 ^ 57 := lt_of_lt_of_le hhi' (Nat.pow_le_pow_right (by decide) hb2)
        have : (10 : Nat) ^ 57 < 2 ^ 192 := by norm_num
        unfold Dec.C02GenRound.v192
        show R.w0.toNat + 2 ^ 64 * R.w1.toNat + 2 ^ 128 * R.w2.toNat = N
        omega
      obtain ⟨cs, incr, lt, gt, ilt, igt, hcall, sp⟩ := Dec.C02GenRound.bid_round192_39_57_spec (x + 34) x ⟨R.w0, R.w1, R.w2⟩
        (by omega) hb2 (by omega) (by omega) (by rw [hv]; exact hhi')
      rw [hcall, hv] at *
      simp only [Except.bind]
      obtain ⟨_, _, _, _, _, k6, _, _⟩ := spec_facts s N x _ incr ⟨lt, gt, ilt, igt⟩ sp (by omega) hlo hhi' 0
      have hv2 : Dec.C02GenRound.v128 ⟨cs.w0, cs.w1⟩ = Dec.C02GenRound.v192 cs := by
        have c0 := cs.w0.toNat_lt; have c1 := cs.w1.toNat_lt
        rw [e34] at k6
        have : (10 : Nat) ^ 34 < 2 ^ 128 := by norm_num
        unfold Dec.C02GenRound.v192 at k6 ⊢
        unfold Dec.C02GenRound.v128
        show cs.w0.toNat + 2 ^ 64 * cs.w1.toNat = _
        omega
      rw [← hv2] at sp
      exact postB_spec m s p_sign hps N hN E hElo hEhi x (by omega) (by omega) hlo hhi' e4 _ he4
        (by rw [← hso]; exact hsub) ⟨cs.w0, cs.w1⟩ incr ⟨lt, gt, ilt, igt⟩ sp f b1 b2 b3 b4
    · rw [aarRoundB3 m p_sign e4 ind R f b1 b2 b3 b4 (by rw [hind]; omega), hso, hio]
      have hv : Dec.C02GenRound.v256 R = N := by
        unfold Dec.C02GenRound.v256
        omega
      obtain ⟨cs, incr, lt, gt, ilt, igt, hcall, sp⟩ := Dec.C02GenRound.bid_round256_58_76_spec (x + 34) x R
        (by omega) (by omega) (by omega) (by omega) (by rw [hv]; exact hhi')
      rw [hcall, hv] at *
      simp only [Except.bind]
      obtain ⟨_, _, _, _, _, k6, _, _⟩ := spec_facts s N x _ incr ⟨lt, gt, ilt, igt⟩ sp (by omega) hlo hhi' 0
      have hv2 : Dec.C02GenRound.v128 ⟨cs.w0, cs.w1⟩ = Dec.C02GenRound.v256 cs := by
        have c0 := cs.w0.toNat_lt; have c1 := cs.w1.toNat_lt
        rw [e34] at k6
        have : (10 : Nat) ^ 34 < 2 ^ 128 := by norm_num
        unfold Dec.C02GenRound.v256 at k6 ⊢
        unfold Dec.C02GenRound.v128
        show cs.w0.toNat + 2 ^ 64 * cs.w1.toNat = _
        omega
      rw [← hv2] at sp
      exact postB_spec m s p_sign hps N hN E hElo hEhi x (by omega) (by omega) hlo hhi' e4 _ he4
        (by rw [← hso]; exact hsub) ⟨cs.w0, cs.w1⟩ incr ⟨lt, gt, ilt, igt⟩ sp f b1 b2 b3 b4


/-! ## 9. Addition / subtraction, scaling, and the routine as a whole -/

/-- the sign word of a sign -/
def sgnW (s : Bool) : UInt64 := if s = true then 0x8000000000000000 else 0

theorem sgnW_toNat (s : Bool) : (sgnW s).toNat = (if s = true then 1 else 0) * 2 ^ 63 := by
  cases s <;> rfl

theorem sgnW_beq (a b : Bool) : (sgnW a == sgnW b) = decide (a = b) := by
  cases a <;> cases b <;> rfl

theorem aarAddSub_same (m : RoundingMode) (sp : Bool) (e4 : Int32) (C4 R : U256) (f : UInt32) (b1 b2 b3 b4 : Bool)
    (hsum : C4.toNat' + R.toNat' < 2 ^ 256) :
    aarAddSub m (sgnW sp) (sgnW sp) e4 34 C4 R f b1 b2 b3 b4 =
      (bid_bid_nr_digits256 (mk256 (C4.toNat' + R.toNat'))).bind fun ind =>
        aarRound m (sgnW sp) e4 34 ind (mk256 (C4.toNat' + R.toNat')) f b1 b2 b3 b4 := by
  unfold aarAddSub
  have hc : (sgnW sp == sgnW sp) = true := by rw [sgnW_beq]; simp
  simp only [hc, if_true, add256_exact C4 R hsum]
  rfl

theorem zero_skip {α : Type} (X : U256) (hz : X.toNat' ≠ 0) (A B : α) :
    (if ((((X.w3 == (0 : UInt64)) && (X.w2 == (0 : UInt64))) && (X.w1 == (0 : UInt64))) && (X.w0 == (0 : UInt64))) = true
      then A else B) = B := by
  rw [zero256_iff, decide_eq_false hz]; rfl

theorem aarAddSub_diff (m : RoundingMode) (sp sz : Bool) (hne : sp ≠ sz) (e4 : Int32) (C4 R : U256) (f : UInt32) (b1 b2 b3 b4 : Bool)
    (hne0 : C4.toNat' ≠ R.toNat') :
    aarAddSub m (sgnW sz) (sgnW sp) e4 34 C4 R f b1 b2 b3 b4 =
      if C4.toNat' ≤ R.toNat' then
        (bid_bid_nr_digits256 (mk256 (R.toNat' - C4.toNat'))).bind fun ind =>
          aarRound m (sgnW sz) e4 34 ind (mk256 (R.toNat' - C4.toNat')) f b1 b2 b3 b4
      else
        (bid_bid_nr_digits256 (mk256 (C4.toNat' - R.toNat'))).bind fun ind =>
          aarRound m (sgnW sp) e4 34 ind (mk256 (C4.toNat' - R.toNat')) f b1 b2 b3 b4 := by
  unfold aarAddSub
  have hc : (sgnW sp == sgnW sz) = false := by rw [sgnW_beq]; simpa using hne
  simp only [hc, Bool.false_eq_true, if_false, ge256_iff]
  by_cases hge : C4.toNat' ≤ R.toNat'
  · have hz : (mk256 (R.toNat' - C4.toNat')).toNat' ≠ 0 := by
      rw [mk256_val _ (by have := toNat'_lt R; omega)]; omega
    simp only [hge, decide_true, if_true, sub256_exact R C4 hge]
    refine (zero_skip (mk256 (R.toNat' - C4.toNat')) hz _ _).trans ?_
    rfl
  · have hge' : R.toNat' ≤ C4.toNat' := by omega
    have hz : (mk256 (C4.toNat' - R.toNat')).toNat' ≠ 0 := by
      rw [mk256_val _ (by have := toNat'_lt C4; omega)]; omega
    simp only [hge, decide_false, Bool.false_eq_true, if_false, sub256_exact C4 R hge']
    refine (zero_skip (mk256 (C4.toNat' - R.toNat')) hz _ _).trans ?_
    rfl


theorem zero_take {α : Type} (X : U256) (hz : X.toNat' = 0) (A B : α) :
    (if ((((X.w3 == (0 : UInt64)) && (X.w2 == (0 : UInt64))) && (X.w1 == (0 : UInt64))) && (X.w0 == (0 : UInt64))) = true
      then A else B) = A := by
  rw [zero256_iff, decide_eq_true hz]; rfl

/-- the signed zero of an exact cancellation, packed -/
theorem zero_word (m : RoundingMode) (e : Int32) (eI : Int) (he : e.toInt = eI) (h1 : -6176 ≤ eI) (h2 : eI ≤ 6111) :
    (⟨0, (if (m != RoundingMode.Downward) = true then (0 : UInt64) else 0x8000000000000000) |||
        ((UInt64.ofInt (toI (e + (0x1820 : Int32)))) <<< 0x31)⟩ : U128) =
      ofBits (encode (.fin (decide (m = .Downward)) 0 eI)) := by
  have hxe := Dec.C02GenCorrection.expField e eI he h1 (by omega)
  have hsg : (if (m != RoundingMode.Downward) = true then (0 : UInt64) else 0x8000000000000000).toNat =
      (if decide (m = .Downward) = true then 1 else 0) * 2 ^ 63 := by
    cases m <;> rfl
  have := Dec.C17GenNext.pack_bits _ _ (0 : UInt64) (0 : UInt64) (if decide (m = .Downward) = true then 1 else 0) (eI + 6176).toNat 0
    hsg (by split <;> omega) hxe (by omega) rfl (by norm_num)
  rw [UInt64.or_zero] at this
  rw [this, encode_fin]


/-- opposite signs, equal magnitudes: the signed zero at the clamped exponent; the indicators and the status word pass through -/
theorem aarAddSub_zero (m : RoundingMode) (sp sz : Bool) (hne : sp ≠ sz) (e4 : Int32) (E : Int) (he4 : e4.toInt = E)
    (hEhi : E ≤ 6111) (C4 R : U256) (f : UInt32) (b1 b2 b3 b4 : Bool) (heq : C4.toNat' = R.toNat') :
    aarAddSub m (sgnW sz) (sgnW sp) e4 34 C4 R f b1 b2 b3 b4 =
      .ok (ofBits (encode (zeroAt (zeroSumSign (modeOf m) sp sz) E)), b1, b2, b3, b4, f) := by
  unfold aarAddSub
  have hc : (sgnW sp == sgnW sz) = false := by rw [sgnW_beq]; simpa using hne
  simp only [hc, Bool.false_eq_true, if_false, ge256_iff]
  have hge : C4.toNat' ≤ R.toNat' := by omega
  have hz : (mk256 (R.toNat' - C4.toNat')).toNat' = 0 := by
    rw [mk256_val _ (by have := toNat'_lt R; omega)]; omega
  simp only [hge, decide_true, if_true, sub256_exact R C4 hge]
  refine (zero_take (mk256 (R.toNat' - C4.toNat')) hz _ _).trans ?_
  have hsgn : zeroSumSign (modeOf m) sp sz = decide (m = .Downward) := by
    unfold zeroSumSign
    have : (sp == sz) = false := by simpa using hne
    rw [this]
    cases m <;> rfl
  have hmin : c_EXP_MIN_UNBIASED.toInt = -6176 := by decide
  unfold zeroAt clampInt
  rw [hsgn]
  by_cases hlt : E < -6176
  · have hd : decide (e4 < (-0x1820 : Int32)) = true := by
      rw [i32_lt, he4, decide_eq_true_eq]; exact hlt
    rw [if_pos (show E < eMin from hlt)]
    simp only [hd, if_true]
    exact congrArg (fun w => Except.ok (w, b1, b2, b3, b4, f)) (zero_word m c_EXP_MIN_UNBIASED (-6176) hmin (by decide) (by decide))
  · have hd : decide (e4 < (-0x1820 : Int32)) = false := by
      rw [i32_lt, he4, decide_eq_false_iff_not]; exact hlt
    rw [if_neg (show ¬ E < eMin from hlt), if_neg (show ¬ E > eMax from by show ¬ (6111 < E); omega)]
    simp only [hd, Bool.false_eq_true, if_false]
    exact congrArg (fun w => Except.ok (w, b1, b2, b3, b4, f)) (zero_word m e4 E he4 (by omega) hEhi)


/-- digit count, then the two stages: `finish` of the non-zero sum -/
theorem round_spec (m : RoundingMode) (s : Bool) (N : Nat) (hN : 0 < N) (h69 : N < 10 ^ 69) (E : Int)
    (hElo : -1000000 ≤ E) (hEhi : E ≤ 6111) (e4 : Int32) (he4 : e4.toInt = E) (f : UInt32) (b1 b2 b3 b4 : Bool) :
    ∃ i : Ind,
      ((bid_bid_nr_digits256 (mk256 N)).bind fun ind => aarRound m (sgnW s) e4 34 ind (mk256 N) f b1 b2 b3 b4) =
        .ok (ofBits (encode (finish (modeOf m) s N 1 E E).1), i.midLtEven, i.midGtEven, i.inexLtMid, i.inexGtMid,
             f ||| UInt32.ofNat (finish (modeOf m) s N 1 E E).2) := by
  have h256 : N < 2 ^ 256 := lt_trans h69 (by norm_num)
  have hv := mk256_val N h256
  obtain ⟨ind, hcall, hind⟩ := nr_digits256_spec (mk256 N)
  rw [hv, if_neg (by omega)] at hind
  have hnd : ndigits N ≤ 69 := (ndigits_le_iff hN).2 h69
  rw [Nat.min_eq_left hnd] at hind
  rw [hcall]
  simp only [Except.bind]
  by_cases h34 : N < 10 ^ 34
  · exact caseA_spec m s (sgnW s) (sgnW_toNat s) N hN h34 E hElo hEhi e4 ind he4 hind (mk256 N) hv f b1 b2 b3 b4
  · exact caseB_spec m s (sgnW s) (sgnW_toNat s) N (by omega) h69 E hElo hEhi e4 ind he4 hind (mk256 N) hv f b1 b2 b3 b4

/-- the exact sum `±c4·10^E ± r·10^E`, delivered (the model's `addFin` with both operands at the exponent `E`) -/
def sumD (mode : Mode) (sp sz : Bool) (c4 r : Nat) (E : Int) : Datum × Flags :=
  if sInt sp c4 + sInt sz r = 0 then (zeroAt (zeroSumSign mode sp sz) E, 0)
  else finish mode (decide (sInt sp c4 + sInt sz r < 0)) (sInt sp c4 + sInt sz r).natAbs 1 E E

/-- **addition / subtraction and everything after it**: with `R256 = C3·10^scale`, the routine returns the exact sum, delivered -/
theorem aarAddSub_spec (m : RoundingMode) (sp sz : Bool) (e4 : Int32) (E : Int) (he4 : e4.toInt = E)
    (hElo : -1000000 ≤ E) (hEhi : E ≤ 6111) (C4 R : U256) (hC4 : 0 < C4.toNat') (hA : R.toNat' < 10 ^ 69)
    (hB : C4.toNat' < 10 ^ 69) (hN : sz = sp → R.toNat' + C4.toNat' < 10 ^ 69) (f : UInt32) (b1 b2 b3 b4 : Bool) :
    ∃ i : Ind,
      aarAddSub m (sgnW sz) (sgnW sp) e4 34 C4 R f b1 b2 b3 b4 =
        .ok (ofBits (encode (sumD (modeOf m) sp sz C4.toNat' R.toNat' E).1), i.midLtEven, i.midGtEven, i.inexLtMid,
             i.inexGtMid, f ||| UInt32.ofNat (sumD (modeOf m) sp sz C4.toNat' R.toNat' E).2) := by
  have hp : (10 : Nat) ^ 69 < 2 ^ 256 := by norm_num
  generalize hc4 : C4.toNat' = c4 at *
  generalize hr : R.toNat' = r at *
  by_cases hs : sz = sp
  · subst hs
    have h := hN rfl
    rw [aarAddSub_same m sz e4 C4 R f b1 b2 b3 b4 (by rw [hc4, hr]; omega), hc4, hr]
    have hS : sumD (modeOf m) sz sz c4 r E = finish (modeOf m) sz (c4 + r) 1 E E := by
      unfold sumD sInt
      cases sz
      · simp only [Bool.false_eq_true, if_false]
        rw [if_neg (by omega), decide_eq_false (by omega)]
        congr 1
      · simp only [if_true]
        rw [if_neg (by omega), decide_eq_true (by omega)]
        congr 1
        omega
    rw [hS]
    exact round_spec m sz (c4 + r) (by omega) (by omega) E hElo hEhi e4 he4 f b1 b2 b3 b4
  · have hne : sp ≠ sz := fun h => hs h.symm
    by_cases heq : c4 = r
    · rw [aarAddSub_zero m sp sz hne e4 E he4 hEhi C4 R f b1 b2 b3 b4 (by rw [hc4, hr]; exact heq)]
      have hS : sumD (modeOf m) sp sz c4 r E = (zeroAt (zeroSumSign (modeOf m) sp sz) E, 0) := by
        unfold sumD sInt
        rw [if_pos]
        cases sp <;> cases sz <;> first | exact absurd rfl hne | (simp only [if_true, Bool.false_eq_true, if_false]; omega)
      rw [hS]
      exact ⟨⟨b1, b2, b3, b4⟩, by rw [show UInt32.ofNat 0 = 0 from rfl, UInt32.or_zero]⟩
    · rw [aarAddSub_diff m sp sz hne e4 C4 R f b1 b2 b3 b4 (by rw [hc4, hr]; exact heq), hc4, hr]
      by_cases hge : c4 ≤ r
      · rw [if_pos hge]
        have hS : sumD (modeOf m) sp sz c4 r E = finish (modeOf m) sz (r - c4) 1 E E := by
          unfold sumD sInt
          cases sp <;> cases sz <;> first | exact absurd rfl hne | skip
          · simp only [if_true, Bool.false_eq_true, if_false]
            rw [if_neg (by omega), decide_eq_true (by omega)]
            congr 1; omega
          · simp only [if_true, Bool.false_eq_true, if_false]
            rw [if_neg (by omega), decide_eq_false (by omega)]
            congr 1; omega
        rw [hS]
        exact round_spec m sz (r - c4) (by omega) (by omega) E hElo hEhi e4 he4 f b1 b2 b3 b4
      · rw [if_neg hge]
        have hS : sumD (modeOf m) sp sz c4 r E = finish (modeOf m) sp (c4 - r) 1 E E := by
          unfold sumD sInt
          cases sp <;> cases sz <;> first | exact absurd rfl hne | skip
          · simp only [if_true, Bool.false_eq_true, if_false]
            rw [if_neg (by omega), decide_eq_false (by omega)]
            congr 1; omega
          · simp only [if_true, Bool.false_eq_true, if_false]
            rw [if_neg (by omega), decide_eq_true (by omega)]
            congr 1; omega
        rw [hS]
        exact round_spec m sp (c4 - r) (by omega) (by omega) E hElo hEhi e4 he4 f b1 b2 b3 b4


theorem ok_bind {α β : Type} (a : α) (f : α → Except String β) : (Except.ok a >>= f) = f a := rfl

theorem i32_beq0 (a : Int32) : (a == (0 : Int32)) = decide (a.toInt = 0) := by
  rw [Bool.eq_iff_iff, beq_iff_eq, decide_eq_true_eq, ← Int32.toInt_inj]; rfl

theorem ofNat_pow_toNat (i : Nat) (h : i < 20) : (UInt64.ofNat (10 ^ i)).toNat = 10 ^ i := by
  rw [UInt64.toNat_ofNat']
  exact Nat.mod_eq_of_lt (lt_of_le_of_lt (Nat.pow_le_pow_right (by decide) (by omega : i ≤ 19)) (by norm_num : (10 : Nat) ^ 19 < 2 ^ 64))

/-- **the scaling** `R256 = C3·10^scale` (five ranges of `scale`, tables `BID_TEN2K64`, `BID_TEN2K128`) -/
theorem aarScale_spec (scale : Int32) (sc : Nat) (hsc : scale.toInt = sc) (hsc2 : sc ≤ 68) (C3 : U128)
    (hA : C3.toNat' * 10 ^ sc < 10 ^ 69) (k : U256 → Except String (U128 × Bool × Bool × Bool × Bool × UInt32)) :
    ∃ R : U256, R.toNat' = C3.toNat' * 10 ^ sc ∧ aarScale scale C3 k = k R := by
  unfold aarScale
  by_cases h0 : sc = 0
  · have c0 : (scale == (0 : Int32)) = true := by rw [i32_beq0, hsc, h0]; rfl
    simp only [c0, if_true]
    refine ⟨⟨C3.w0, C3.w1, 0, 0⟩, ?_, rfl⟩
    rw [h0]; unfold U256.toNat' U128.toNat'; simp
  have c0 : (scale == (0 : Int32)) = false := by
    rw [i32_beq0, hsc, decide_eq_false_iff_not]; omega
  by_cases h1 : sc ≤ 19
  · have c1 : decide (scale ≤ (0x13 : Int32)) = true := by
      rw [i32_le, hsc, decide_eq_true_eq, show (0x13 : Int32).toInt = 19 from rfl]; omega
    simp only [c0, c1, Bool.false_eq_true, if_false, if_true, idx_of scale sc hsc, ten2k64_get sc (by omega)]
    obtain ⟨r, hcall, hval⟩ := Dec.C01GenArith.gen_mul_128x128_to_256 ⟨UInt64.ofNat (10 ^ sc), 0⟩ C3
    refine ⟨r, ?_, ?_⟩
    · rw [hval]; unfold U128.toNat'
      show ((UInt64.ofNat (10 ^ sc)).toNat + 2 ^ 64 * (0 : UInt64).toNat) * _ = _
      rw [ofNat_pow_toNat sc (by omega)]; simp; ring
    · rw [ok_bind, hcall, ok_bind]
  have c1 : decide (scale ≤ (0x13 : Int32)) = false := by
    rw [i32_le, hsc, decide_eq_false_iff_not, show (0x13 : Int32).toInt = 19 from rfl]; omega
  by_cases h2 : sc ≤ 38
  · have c2 : decide (scale ≤ (0x26 : Int32)) = true := by
      rw [i32_le, hsc, decide_eq_true_eq, show (0x26 : Int32).toInt = 38 from rfl]; omega
    have hi : UInt64.ofInt (toI (scale - (0x14 : Int32))) = UInt64.ofNat (sc - 20) :=
      idx_of _ _ (i32_sub scale sc 20 hsc 0x14 rfl (by omega))
    simp only [c0, c1, c2, Bool.false_eq_true, if_false, if_true, hi, ten2k128_get (sc - 20) (by omega)]
    obtain ⟨r, hcall, hval⟩ := Dec.C01GenArith.gen_mul_128x128_to_256 (mk128 (10 ^ (sc - 20 + 20))) C3
    refine ⟨r, ?_, ?_⟩
    · rw [hval, mk128_val _ (lt_of_le_of_lt (Nat.pow_le_pow_right (by decide) (by omega : sc - 20 + 20 ≤ 38)) (by norm_num)),
        show sc - 20 + 20 = sc by omega]; ring
    · rw [ok_bind, hcall, ok_bind]
  have c2 : decide (scale ≤ (0x26 : Int32)) = false := by
    rw [i32_le, hsc, decide_eq_false_iff_not, show (0x26 : Int32).toInt = 38 from rfl]; omega
  have h18 : UInt64.ofInt (toI 0x12) = UInt64.ofNat 18 := by decide
  have hp38 : (mk128 (10 ^ (18 + 20))).toNat' = 10 ^ 38 := mk128_val _ (by norm_num)
  have hpw : (10 : Nat) ^ sc = 10 ^ (sc - 38) * 10 ^ 38 := by rw [← Nat.pow_add]; congr 1; omega
  have hfit : C3.toNat' * 10 ^ (sc - 38) < 10 ^ 31 := by
    rw [hpw, ← Nat.mul_assoc] at hA
    have : (10 : Nat) ^ 69 = 10 ^ 31 * 10 ^ 38 := by norm_num
    rw [this] at hA
    exact Nat.lt_of_mul_lt_mul_right hA
  by_cases h3 : sc ≤ 57
  · have c3 : decide (scale ≤ (0x39 : Int32)) = true := by
      rw [i32_le, hsc, decide_eq_true_eq, show (0x39 : Int32).toInt = 57 from rfl]; omega
    have hi : UInt64.ofInt (toI (scale - (0x26 : Int32))) = UInt64.ofNat (sc - 38) :=
      idx_of _ _ (i32_sub scale sc 38 hsc 0x26 rfl (by omega))
    simp only [c0, c1, c2, c3, Bool.false_eq_true, if_false, if_true, hi, h18, ten2k64_get (sc - 38) (by omega),
      ten2k128_get 18 (by omega)]
    obtain ⟨r1, hcall1, hval1⟩ := Dec.C01GenArith.gen_mul_64x128_to_128 (UInt64.ofNat (10 ^ (sc - 38))) C3
    rw [ofNat_pow_toNat (sc - 38) (by omega), Nat.mul_comm, Nat.mod_eq_of_lt (lt_trans hfit (by norm_num))] at hval1
    obtain ⟨r, hcall, hval⟩ := Dec.C01GenArith.gen_mul_128x128_to_256 r1 (mk128 (10 ^ (18 + 20)))
    refine ⟨r, ?_, ?_⟩
    · rw [hval, hval1, hp38, hpw, Nat.mul_assoc]
    · rw [ok_bind, hcall1, ok_bind, ok_bind, hcall, ok_bind]
  · have c3 : decide (scale ≤ (0x39 : Int32)) = false := by
      rw [i32_le, hsc, decide_eq_false_iff_not, show (0x39 : Int32).toInt = 57 from rfl]; omega
    have hi : UInt64.ofInt (toI (scale - (0x3a : Int32))) = UInt64.ofNat (sc - 58) :=
      idx_of _ _ (i32_sub scale sc 58 hsc 0x3a rfl (by omega))
    simp only [c0, c1, c2, c3, Bool.false_eq_true, if_false, if_true, hi, h18, ten2k128_get (sc - 58) (by omega),
      ten2k128_get 18 (by omega)]
    have hw1 : C3.w1.toNat = 0 := by
      have h20 : (10 : Nat) ^ 20 ≤ 10 ^ (sc - 38) := Nat.pow_le_pow_right (by decide) (by omega)
      have : C3.toNat' * 10 ^ 20 ≤ C3.toNat' * 10 ^ (sc - 38) := Nat.mul_le_mul_left _ h20
      unfold U128.toNat' at this hfit
      omega
    have hC3 : C3.toNat' = C3.w0.toNat := by unfold U128.toNat'; rw [hw1]; simp
    obtain ⟨r1, hcall1, hval1⟩ := Dec.C01GenArith.gen_mul_64x128_to_128 C3.w0 (mk128 (10 ^ (sc - 58 + 20)))
    rw [mk128_val _ (lt_of_le_of_lt (Nat.pow_le_pow_right (by decide) (by omega : sc - 58 + 20 ≤ 38)) (by norm_num)),
      show sc - 58 + 20 = sc - 38 by omega, ← hC3, Nat.mod_eq_of_lt (lt_trans hfit (by norm_num))] at hval1
    obtain ⟨r, hcall, hval⟩ := Dec.C01GenArith.gen_mul_128x128_to_256 r1 (mk128 (10 ^ (18 + 20)))
    refine ⟨r, ?_, ?_⟩
    · rw [hval, hval1, hp38, hpw, Nat.mul_assoc]
    · rw [ok_bind, hcall1, ok_bind, ok_bind, hcall, ok_bind]


theorem addFin_eq_sumD (mode : Mode) (sp sz : Bool) (c4 c3 sc : Nat) (E : Int) :
    addFin mode sp c4 E sz c3 (E + sc) E = sumD mode sp sz c4 (c3 * 10 ^ sc) E := by
  unfold addFin sumD
  have h1 : (if E ≤ E + (sc : Int) then E else E + sc) = E := if_pos (by omega)
  simp only [h1]
  rw [show (E - E).toNat = 0 by omega, show (E + (sc : Int) - E).toNat = sc by omega, Nat.pow_zero, Nat.mul_one]

/-- **`bid_add_and_round`** (bid128_fma.rs lines 241–664, as translated; D15 and D18 lived here).
The caller passes the exact product `C4` (a `U256`, at the exponent `E = e4`, sign word `p_sign`), the addend's coefficient `C3`
(sign word `z_sign`) and, through `scale = q4 − delta − q3`, the exponent `E + scale` of the addend (`q3`, `q4`, `delta` are
used in no other way), with `p34 = 34`.  If `E ≤ 6111`, the product is not zero, both aligned operands are below `10^69`, and
so is their sum when the signs agree, then the routine returns the canonical encoding of

      addFin mode (sign of product) C4 E (sign of addend) C3 (E + scale) E

— the model's exact sum `±C4·10^E ± C3·10^(E+scale)` delivered by ONE `finish` with preferred exponent `E`, or the signed zero
of an exact cancellation at the clamped exponent (the finite clause of `fmaD`) — and the incoming status word with exactly the
model's flags or-ed in, for every rounding mode, every incoming status word and incoming indicator values.  It never panics.
(The four indicator outputs: the position indicators of the last rounding; the incoming values at the exact-zero exit and at
the nearest-even overflow exit.) -/
theorem add_and_round_spec
    (q3 q4 e4 delta p34 : Int32) (z_sign p_sign : UInt64) (C3 : U128) (C4 : U256) (m : RoundingMode)
    (b1 b2 b3 b4 : Bool) (f : UInt32)
    (sz sp : Bool)
    (hzs : z_sign = if sz = true then (0x8000000000000000 : UInt64) else 0)
    (hps : p_sign = if sp = true then (0x8000000000000000 : UInt64) else 0)
    (hp34 : p34 = 34)
    (E : Int) (he4 : e4.toInt = E) (hElo : -1000000 ≤ E) (hEhi : E ≤ 6111)
    (sc : Nat) (hsc : ((q4 - delta) - q3).toInt = (sc : Int)) (hsc2 : sc ≤ 68)
    (hC4 : 0 < C4.toNat')
    (hA : C3.toNat' * 10 ^ sc < 10 ^ 69) (hB : C4.toNat' < 10 ^ 69)
    (hN : sz = sp → C3.toNat' * 10 ^ sc + C4.toNat' < 10 ^ 69) :
    ∃ i : Dec.RH.Ind,
      bid_add_and_round q3 q4 e4 delta p34 z_sign p_sign C3 C4 m b1 b2 b3 b4 f =
        .ok (Dec.C02GenCorrection.ofBits (encode (addFin (Dec.C02GenCorrection.modeOf m) sp C4.toNat' E sz C3.toNat' (E + sc) E).1),
             i.midLtEven, i.midGtEven, i.inexLtMid, i.inexGtMid,
             f ||| UInt32.ofNat (addFin (Dec.C02GenCorrection.modeOf m) sp C4.toNat' E sz C3.toNat' (E + sc) E).2) := by
  subst hp34 hzs hps
  rw [aar_shape, addFin_eq_sumD]
  show ∃ i : Dec.RH.Ind, aarScale ((q4 - delta) - q3) C3 (fun R256 => aarAddSub m (sgnW sz) (sgnW sp) e4 34 C4 R256 f b1 b2 b3 b4) = _
  obtain ⟨R, hR, hcall⟩ := aarScale_spec ((q4 - delta) - q3) sc hsc hsc2 C3 hA
    (fun R256 => aarAddSub m (sgnW sz) (sgnW sp) e4 34 C4 R256 f b1 b2 b3 b4)
  rw [hcall, ← hR]
  exact aarAddSub_spec m sp sz e4 E he4 hElo hEhi C4 R hC4 (by rw [hR]; exact hA) hB (fun h => by rw [hR]; exact hN h) f b1 b2 b3 b4


/-! ## 10. Cases (15)–(17) of `bid128_ext_fma` -/

/-- Cases (15), (16), (17) of `bid128_ext_fma` (Rust lines 3896–3935): the body of the arm taken when
`(p34 ≤ delta ∧ delta + q3 ≤ q4) ∨ (delta < p34 ∧ p34 < delta + q3 ∧ delta + q3 ≤ q4) ∨ (delta + q3 ≤ p34 ∧ p34 < q4)` (with `delta`
already negated: `delta = q4 + e4 − q3 − e3 > 0`) — call `bid_add_and_round`, copy its outputs, return -/
def case1517 (q3 q4 e4 delta p34 : Int32) (z_sign p_sign : UInt64) (C3 : U128) (C4 : U256) (rnd_mode : RoundingMode)
    (is_midpoint_lt_even_ is_midpoint_gt_even_ is_inexact_lt_midpoint_ is_inexact_gt_midpoint_ : Bool) (pfpsf_ : UInt32) :
    Except String (U128 × Bool × Bool × Bool × Bool × UInt32) := do
  let mut is_midpoint_lt_even : Bool := is_midpoint_lt_even_
  let mut is_midpoint_gt_even : Bool := is_midpoint_gt_even_
  let mut is_inexact_lt_midpoint : Bool := is_inexact_lt_midpoint_
  let mut is_inexact_gt_midpoint : Bool := is_inexact_gt_midpoint_
  let mut pfpsf : UInt32 := pfpsf_
  let mut res : U128 := default
  let mut ptr_is_midpoint_lt_even : Bool := default
  let mut ptr_is_midpoint_gt_even : Bool := default
  let mut ptr_is_inexact_lt_midpoint : Bool := default
  let mut ptr_is_inexact_gt_midpoint : Bool := default
  let t__69 ← bid_add_and_round q3 q4 e4 delta p34 z_sign p_sign C3 C4 rnd_mode is_midpoint_lt_even is_midpoint_gt_even is_inexact_lt_midpoint is_inexact_gt_midpoint pfpsf
  is_midpoint_lt_even := t__69.2.1
  is_midpoint_gt_even := t__69.2.2.1
  is_inexact_lt_midpoint := t__69.2.2.2.1
  is_inexact_gt_midpoint := t__69.2.2.2.2.1
  pfpsf := t__69.2.2.2.2.2
  res := t__69.1
  ptr_is_midpoint_lt_even := is_midpoint_lt_even
  ptr_is_midpoint_gt_even := is_midpoint_gt_even
  ptr_is_inexact_lt_midpoint := is_inexact_lt_midpoint
  ptr_is_inexact_gt_midpoint := is_inexact_gt_midpoint
  return (res, ptr_is_midpoint_lt_even, ptr_is_midpoint_gt_even, ptr_is_inexact_lt_midpoint, ptr_is_inexact_gt_midpoint, pfpsf)

/-- the arm returns what `bid_add_and_round` returns -/
theorem case1517_eq (q3 q4 e4 delta p34 : Int32) (z_sign p_sign : UInt64) (C3 : U128) (C4 : U256) (m : RoundingMode)
    (b1 b2 b3 b4 : Bool) (f : UInt32) :
    case1517 q3 q4 e4 delta p34 z_sign p_sign C3 C4 m b1 b2 b3 b4 f =
      bid_add_and_round q3 q4 e4 delta p34 z_sign p_sign C3 C4 m b1 b2 b3 b4 f := by
  unfold case1517
  simp only []
  generalize bid_add_and_round q3 q4 e4 delta p34 z_sign p_sign C3 C4 m b1 b2 b3 b4 f = X
  cases X with
  | error e => rfl
  | ok t => rfl

/-- **Cases (15)–(17)**: in terms of the entry invariant — `C4 = C1·C2 ≠ 0` exactly (`q4` digits) at `e4 = e1 + e2 ≤ e3`,
`C3` the coefficient of `z` at `e3 ≤ 6111`, `delta` (negated) `= q4 + e4 − q3 − e3`, so that `q4 − delta − q3 = e3 − e4 = sc` — the
block returns the canonical encoding of the model's `addFin … (sign of x·y) C4 e4 (sign of z) C3 e3 e4` (the finite clause of
`fmaD`: preferred exponent `min (e1 + e2) e3 = e4`) and its flags or-ed into the status word. -/
theorem case1517_spec (q3 q4 e4 delta p34 : Int32) (z_sign p_sign : UInt64) (C3 : U128) (C4 : U256) (m : RoundingMode)
    (b1 b2 b3 b4 : Bool) (f : UInt32) (sz sp : Bool)
    (hzs : z_sign = if sz = true then (0x8000000000000000 : UInt64) else 0)
    (hps : p_sign = if sp = true then (0x8000000000000000 : UInt64) else 0)
    (hp34 : p34 = 34) (E : Int) (he4 : e4.toInt = E) (hElo : -1000000 ≤ E) (hEhi : E ≤ 6111)
    (sc : Nat) (hsc : ((q4 - delta) - q3).toInt = (sc : Int)) (hsc2 : sc ≤ 68) (hC4 : 0 < C4.toNat')
    (hA : C3.toNat' * 10 ^ sc < 10 ^ 69) (hB : C4.toNat' < 10 ^ 69)
    (hN : sz = sp → C3.toNat' * 10 ^ sc + C4.toNat' < 10 ^ 69) :
    ∃ i : Ind,
      case1517 q3 q4 e4 delta p34 z_sign p_sign C3 C4 m b1 b2 b3 b4 f =
        .ok (ofBits (encode (addFin (modeOf m) sp C4.toNat' E sz C3.toNat' (E + sc) E).1),
             i.midLtEven, i.midGtEven, i.inexLtMid, i.inexGtMid,
             f ||| UInt32.ofNat (addFin (modeOf m) sp C4.toNat' E sz C3.toNat' (E + sc) E).2) := by
  rw [case1517_eq]
  exact add_and_round_spec q3 q4 e4 delta p34 z_sign p_sign C3 C4 m b1 b2 b3 b4 f sz sp hzs hps hp34 E he4 hElo hEhi sc hsc hsc2
    hC4 hA hB hN

/-! ## 11. Examples -/

-- `two_step`: 123456 was first rounded (one digit) up to 12346; chopping two more digits gives 123 (not 124: no double rounding),
-- "inexact, below the midpoint"
example : combine true false (specInd (12346 / 10 ^ 2) (12346 % 10 ^ 2) (10 ^ 2 / 2)) (rne 12346 2) =
    (123, ⟨false, false, true, false⟩) := by decide
-- 12450 was first rounded down from 12450.3: the second rounding sees a tie (124|50) and would go to the even 124; the repair gives 125
example : combine false true (specInd (12450 / 10 ^ 2) (12450 % 10 ^ 2) (10 ^ 2 / 2)) (rne 12450 2) =
    (125, ⟨false, false, false, true⟩) := by decide
-- `half_step` (the D18 arm): all 2 digits are chopped, c1 = 50 is exactly half a unit; the first rounding had gone down, so 1
example : halfOut false true 50 (5 * 10 ^ (2 - 1)) = (1, ⟨false, false, false, true⟩) := by decide
example : halfOut true false 50 (5 * 10 ^ (2 - 1)) = (0, ⟨false, false, true, false⟩) := by decide
example : halfOut false false 50 (5 * 10 ^ (2 - 1)) = (0, ⟨false, true, false, false⟩) := by decide
-- `stage2` dispatch
example : stage2 false false 77 2 3 = (0, ⟨false, false, true, false⟩) := by decide
-- `stepC_deliver`: a carried 10^34 (delivered as 10^33, exponent + 1) stepped down is 10^34 − 1 at the exponent itself
example : stepC false true (deliver P34 5).1 (deliver P34 5).2 = (P34 - 1, 5, false) := by decide
-- `finish_rounded`: 123456·10^−6178 keeps 4 digits at the least exponent, inexact and tiny
example : finish .rne false 123456 1 (-6178) (-6178) = (.fin false 1235 (-6176), fUnderflow ||| fInexact) := by decide +kernel
example : finish .rtz true (10 ^ 40 + 1) 1 6100 6100 = (.fin true (10 ^ 33) 6107, fInexact) := by decide +kernel
-- `aarScale_spec`: 99999·10^60 (last range: only the low word of C3 is read)
example : (aarScale 60 ⟨99999, 0⟩ (fun R => .ok (⟨R.w0, R.w1⟩, R.w2 == 0xcd589d78f069aa44, R.w3 == 0xf31587, false, false, 0))).toOption =
    some (⟨0xf000000000000000, 0x76d703c2e5bfa530⟩, true, true, false, false, 0) := by decide +kernel

/-! `bid_add_and_round` itself (`add_and_round_spec`) on concrete operands -/

-- 6 + 7 = 13, exact
example : (bid_add_and_round 1 1 0 0 34 0 0 ⟨7, 0⟩ ⟨6, 0, 0, 0⟩ .NearestEven false false false false 0).toOption =
    some (⟨13, 0x3040000000000000⟩, false, false, false, false, 0) := by decide +kernel
-- the pattern of D18: (5·10^34 + 4)·10^−6211 is rounded to 34 digits first (5·10^33·10^−6210, inexact, below the value), which is
-- exactly half of the least quantum 10^−6176; the value lies above the half, so nearest-even delivers 1·10^−6176 (not the tie's 0)
example : (bid_add_and_round 1 35 (-6211) 34 34 0 0 ⟨4, 0⟩ ⟨0x15c3c7f400000000, 0x9a130b963a6c1, 0, 0⟩ .NearestEven false false false false 0).toOption =
    some (⟨1, 0⟩, false, false, false, true, 0x30) := by decide +kernel
-- the same toward zero: 0·10^−6176, inexact + underflow
example : (bid_add_and_round 1 35 (-6211) 34 34 0 0 ⟨4, 0⟩ ⟨0x15c3c7f400000000, 0x9a130b963a6c1, 0, 0⟩ .TowardZero false false false false 0).toOption =
    some (⟨0, 0⟩, false, false, false, true, 0x30) := by decide +kernel
-- 5 − 5 at exponent −7000, rounding down: −0 at the least exponent; indicators and status word pass through
example : (bid_add_and_round 1 1 (-7000) 0 34 0x8000000000000000 0 ⟨5, 0⟩ ⟨5, 0, 0, 0⟩ .Downward true false true false 7).toOption =
    some (⟨0, 0x8000000000000000⟩, true, false, true, false, 7) := by decide +kernel
-- (10^68 − 1)·10^6100 − 12345678901234567890·10^6140 overflows: +Inf rounding up (and to nearest), overflow + inexact
example : (bid_add_and_round 20 68 6100 8 34 0x8000000000000000 0 ⟨12345678901234567890, 0⟩ (mk256 (10 ^ 68 - 1)) .Upward false false false false 0).toOption =
    some (⟨0, 0x7800000000000000⟩, false, false, false, true, 0x28) := by decide +kernel
-- −(3·10^67 + 1)·10^−30 + 99999·10^30, ties away: 34 digits, inexact
example : (bid_add_and_round 5 68 (-30) 3 34 0 0x8000000000000000 ⟨99999, 0⟩ (mk256 (3 * 10 ^ 67 + 1)) .NearestAway false false false false 0).toOption =
    some (⟨0xc67ad2ca64000000, 0xb048936b1b624069⟩, false, false, true, false, 0x20) := by decide +kernel
-- and through the Cases (15)–(17) arm
example : (case1517 1 1 0 0 34 0 0 ⟨7, 0⟩ ⟨6, 0, 0, 0⟩ .NearestEven false false false false 0).toOption =
    some (⟨13, 0x3040000000000000⟩, false, false, false, false, 0) := by decide +kernel

end Dec.C02GenFmaLow
